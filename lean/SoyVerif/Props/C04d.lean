/-
  C04 — generated JavaScript ≡ Go renderer, COMMAND level (partial).

  The fragment: raw text, `{print}` with directives, `{let $x: e /}`, `{if}/{elseif}/{else}`, the
  expressions of Props/C04c inside them.

  1. `toCmds` translates the commands, in the generator scope they are met in, to the statement AST of
     Spec/JsStmt; `walkCmds_renders`: the generator model writes EXACTLY `renderStmts` of the
     translation (piece for piece, indentation included) and leaves its state as the translation
     says (scope: the `let` variables of the block, the counter).
  2. `refCmds`: the denotational specification Spec/Eval.renderCmds restricted to the fragment and
     extended to print DIRECTIVES the way the Go renderer applies them (Props/C04b `goPrint`: left to
     right, the escape flag cleared by a cancelling directive, escaping last), the directive
     functions uninterpreted symbols `F name args` on JSON images.  `ref_le_spec`: without
     directives, and `F escapeHtml` read as Spec/Eval.htmlEscape ∘ ToString, it IS Spec/Eval.renderCmds.
  3. `gen_correct_cmds_partial`: whenever the emitted statements run to completion (Spec/JsStmt,
     any `F`) from a JavaScript environment related to the Soy environment, the specification
     renders the commands to a text, and the statements have appended exactly this text to the output
     variable; the final environments are related again.
-/
import SoyVerif.Props.C04b
import SoyVerif.Props.C04c
import SoyVerif.Spec.JsStmt
import SoyVerif.Lemmas.JsonValue

namespace SoyVerif.Props.C04d
open SoyVerif SoyVerif.Model SoyVerif.Model.JsGen SoyVerif.Spec.JsSemRef SoyVerif.Spec.JsStmt
open SoyVerif.Props.C04c (toAst render RunsSc Same walkExpr_renders toJsV EnvRel)


/-! ## 1. translation -/

/-- a literal directive argument (`|truncate:8`, `|insertWordBreaks:5`, `|truncate:8,false`) -/
def litAst : Expr → Option JsExpr
  | .null _ => some .null
  | .bool _ b => some (.bool b)
  | .int _ v => some (.num v)
  | .str _ _ v => some (.str v)
  | _ => none

theorem toAst_lit (sc : Scope) : ∀ (a : Expr) (j : JsExpr), litAst a = some j → toAst sc a = some j
  | .null _, _, h => by simpa [litAst, toAst] using h
  | .bool _ _, _, h => by simpa [litAst, toAst] using h
  | .int _ _, _, h => by simpa [litAst, toAst] using h
  | .str _ _ _, _, h => by simpa [litAst, toAst] using h
  | .float _ _, _, h => by simp [litAst] at h
  | .global _ _, _, h => by simp [litAst] at h
  | .func _ _ _, _, h => by simp [litAst] at h
  | .list _ _, _, h => by simp [litAst] at h
  | .map _ _, _, h => by simp [litAst] at h
  | .dataRef _ _ _, _, h => by simp [litAst] at h
  | .not _ _, _, h => by simp [litAst] at h
  | .neg _ _, _, h => by simp [litAst] at h
  | .bin _ _ _ _, _, h => by simp [litAst] at h
  | .tern _ _ _ _, _, h => by simp [litAst] at h

/-- a directive of the fragment: literal arguments, known to the Go renderer too -/
def dirOk (d : Directive) : Bool :=
  d.args.all (fun a => (litAst a).isSome) && (Directives.lookup Gen.directiveTable d.name).isSome

section
variable (ae : Autoescape) (buf : Bytes)

mutual
  /-- a command in the scope `sc`: its statements and the scope for the commands after it -/
  def toCmd : Cmd → Scope → Option (JsStmts × Scope)
    | .rawText _ t, sc => some (.one (.appendLit buf t), sc)
    | .print _ arg dirs, sc =>
      if dirs.all dirOk then
        match toAst sc arg, collectDirs dirs with
        | some j, some ck => some (.one (.append buf j (printDirs ae ck.1 ck.2)), sc)
        | _, _ => none
      else none
    | .letValue _ x e, sc =>
      if x.contains 36 then none
      else match toAst sc e with
        | some j => some (.one (.var (sc.makevar x).1 j), (sc.makevar x).2)
        | none => none
    | .ifc _ conds, sc =>
      match toConds conds sc with
      | some r => some (.one (.ifs r.1), r.2)
      | none => none
    | _, _ => none
  /-- a block has a scope frame of its own -/
  def toBlock : Block → Scope → Option (JsStmts × Scope)
    | .mk _ cmds, sc =>
      match toCmds cmds sc.push with
      | some r => some (r.1, r.2.pop)
      | none => none
  def toCmds : CmdList → Scope → Option (JsStmts × Scope)
    | .nil, sc => some (.nil, sc)
    | .cons c rest, sc =>
      match toCmd c sc with
      | none => none
      | some r1 =>
        match toCmds rest r1.2 with
        | none => none
        | some r2 => some (r1.1.append r2.1, r2.2)
  def toConds : CondList → Scope → Option (JsConds × Scope)
    | .nil, sc => some (.nil, sc)
    | .cons _ cond body rest, sc =>
      match cond with
      | some c =>
        (match toAst sc c, toBlock body sc with
          | some j, some rb =>
            (match toConds rest rb.2 with
              | some rr => some (.cons j rb.1 rr.1, rr.2)
              | none => none)
          | _, _ => none)
      | none =>
        -- `{else}` is the last branch
        (match rest, toBlock body sc with
          | .nil, some rb => some (.els rb.1, rb.2)
          | _, _ => none)
end

end

/-! ## the text of the statements, in the generator's pieces -/

def argPieces (a : Expr) : List Piece :=
  match litAst a with
  | some j => [.fixed b!","] ++ render j
  | none => []

def openPieces (d : Directive) : List Piece := [.fixed (directiveJsName d.name), .fixed b!"("]

def closePieces (d : Directive) : List Piece :=
  d.args.flatMap argPieces ++ (if d.name == b!"truncate" && d.args.length == 1 then [.fixed b!",true"] else []) ++
    [.fixed b!")"]

mutual
  def renderStmt (ind : Nat) : JsStmt → List Piece
    | .appendLit b t => [.fixed (spaces ind), .ident b, .fixed b!" += '", .escaped t, .fixed b!"';\n"]
    | .append b e ds =>
      [.fixed (spaces ind), .ident b, .fixed b!" += "] ++ ds.reverse.flatMap openPieces ++ render e ++
        ds.flatMap closePieces ++ [.fixed b!";\n"]
    | .var x e => [.fixed (spaces ind), .fixed b!"var ", .ident x, .fixed b!" = "] ++ render e ++ [.fixed b!";", .fixed [10]]
    | .ifs conds => [.fixed (spaces ind)] ++ renderConds ind conds true ++ [.fixed [10]]
  def renderStmts (ind : Nat) : JsStmts → List Piece
    | .nil => []
    | .cons s r => renderStmt ind s ++ renderStmts ind r
  def renderConds (ind : Nat) : JsConds → Bool → List Piece
    | .nil, _ => []
    | .els body, first =>
      (if first then [] else [.fixed b!" else "]) ++ [.fixed b!"{\n"] ++ renderStmts (ind + 1) body ++
        [.fixed (spaces ind), .fixed b!"}"]
    | .cons c body rest, first =>
      (if first then [] else [.fixed b!" else "]) ++ [.fixed b!"if ("] ++ render c ++ [.fixed b!") ", .fixed b!"{\n"] ++
        renderStmts (ind + 1) body ++ [.fixed (spaces ind), .fixed b!"}"] ++ renderConds ind rest false
end

theorem renderStmts_append (ind : Nat) : ∀ (a b : JsStmts),
    renderStmts ind (a.append b) = renderStmts ind a ++ renderStmts ind b
  | .nil, b => by simp [JsStmts.append, renderStmts]
  | .cons s r, b => by simp [JsStmts.append, renderStmts, renderStmts_append ind r b]

theorem renderStmts_one (ind : Nat) (s : JsStmt) : renderStmts ind (.one s) = renderStmt ind s := by
  simp [JsStmts.one, renderStmts]

/-! ## the generator writes `renderStmts (toCmds …)` -/

/-- from every state satisfying `P`, `m` succeeds, writes exactly `ps` and ends in a state
    satisfying `Q` -/
def Runs (P Q : St → Prop) (m : M Unit) (ps : List Piece) : Prop :=
  ∀ s, P s → ∃ s', m s = .ok ((), ps, s') ∧ Q s'

theorem Runs.seq {P Q R : St → Prop} {m k : M Unit} {ps qs : List Piece} (hm : Runs P Q m ps) (hk : Runs Q R k qs) :
    Runs P R (m >>= fun _ => k) (ps ++ qs) := by
  intro s hs
  obtain ⟨s1, h1, hs1⟩ := hm s hs
  obtain ⟨s2, h2, hs2⟩ := hk s1 hs1
  exact ⟨s2, by simp [Bind.bind, M.bind, h1, h2], hs2⟩

theorem Runs.cast {P Q : St → Prop} {m : M Unit} {ps qs : List Piece} (h : Runs P Q m ps) (e : ps = qs) :
    Runs P Q m qs := e ▸ h

theorem Runs.pure {P : St → Prop} : Runs P P (pure ()) [] := fun s hs => ⟨s, rfl, hs⟩
theorem Runs.emits {P : St → Prop} (ps : List Piece) : Runs P P (emits ps) ps := fun s hs => ⟨s, rfl, hs⟩
theorem Runs.emit {P : St → Prop} (p : Piece) : Runs P P (emit p) [p] := fun s hs => ⟨s, rfl, hs⟩
theorem Runs.fx {P : St → Prop} (t : Bytes) : Runs P P (fx t) [.fixed t] := fun s hs => ⟨s, rfl, hs⟩
theorem Runs.nl {P : St → Prop} : Runs P P nl [.fixed [10]] := fun s hs => ⟨s, rfl, hs⟩

theorem Runs.whenM {P : St → Prop} {m : M Unit} {ps : List Piece} (c : Bool) (h : Runs P P m ps) :
    Runs P P (whenM c m) (if c then ps else []) := by
  cases c
  · exact Runs.pure
  · exact h

/-- what the walk of a block of commands keeps fixed, and the scope it is in -/
def At (ind : Nat) (buf : Bytes) (ae : Autoescape) (sc : Scope) (s : St) : Prop :=
  s.indent = ind ∧ s.bufferName = buf ∧ s.autoescape = ae ∧ s.scope = sc

section
variable {ind : Nat} {buf : Bytes} {ae : Autoescape} {sc : Scope}

theorem Runs.indentP : Runs (At ind buf ae sc) (At ind buf ae sc) indentP [.fixed (spaces ind)] := by
  intro s hs
  exact ⟨s, by simp [JsGen.indentP, hs.1], hs⟩

theorem Runs.incIndent : Runs (At ind buf ae sc) (At (ind + 1) buf ae sc) incIndent [] := by
  intro s hs
  exact ⟨_, rfl, by simp [hs.1], hs.2.1, hs.2.2.1, hs.2.2.2⟩

theorem Runs.decIndent : Runs (At (ind + 1) buf ae sc) (At ind buf ae sc) decIndent [] := by
  intro s hs
  exact ⟨_, rfl, by simp [hs.1], hs.2.1, hs.2.2.1, hs.2.2.2⟩

theorem Runs.atOther : Runs (At ind buf ae sc) (At ind buf ae sc) atOther [] := by
  intro s hs
  exact ⟨_, rfl, hs.1, hs.2.1, hs.2.2.1, hs.2.2.2⟩

theorem Runs.pushScope : Runs (At ind buf ae sc) (At ind buf ae sc.push) pushScope [] := by
  intro s hs
  exact ⟨_, rfl, hs.1, hs.2.1, hs.2.2.1, by simp [hs.2.2.2]⟩

theorem Runs.popScope : Runs (At ind buf ae sc) (At ind buf ae sc.pop) popScope [] := by
  intro s hs
  exact ⟨_, rfl, hs.1, hs.2.1, hs.2.2.1, by simp [hs.2.2.2]⟩

theorem Runs.setScope (sc' : Scope) : Runs (At ind buf ae sc) (At ind buf ae sc') (setScope sc') [] := by
  intro s hs
  exact ⟨_, rfl, hs.1, hs.2.1, hs.2.2.1, rfl⟩

/-- an expression walk (Props/C04c) inside a command -/
theorem Runs.expr {m : M Unit} {ps : List Piece} (h : RunsSc sc m ps) : Runs (At ind buf ae sc) (At ind buf ae sc) m ps := by
  intro s hs
  obtain ⟨s', h', hsc, e⟩ := h s hs.2.2.2
  exact ⟨s', h', e.1.trans hs.1, e.2.2.1.trans hs.2.1, e.2.2.2.1.trans hs.2.2.1, hsc⟩

theorem Runs.getBuf {Q : St → Prop} {k : Bytes → M Unit} {ps : List Piece} (h : Runs (At ind buf ae sc) Q (k buf) ps) :
    Runs (At ind buf ae sc) Q (getBuf >>= k) ps := by
  intro s hs
  obtain ⟨s', h', hq⟩ := h s hs
  refine ⟨s', ?_, hq⟩
  simp only [Bind.bind, M.bind, JsGen.getBuf, hs.2.1, h', List.nil_append]

theorem Runs.getScope {Q : St → Prop} {k : Scope → M Unit} {ps : List Piece} (h : Runs (At ind buf ae sc) Q (k sc) ps) :
    Runs (At ind buf ae sc) Q (getScope >>= k) ps := by
  intro s hs
  obtain ⟨s', h', hq⟩ := h s hs
  refine ⟨s', ?_, hq⟩
  simp only [Bind.bind, M.bind, JsGen.getScope, hs.2.2.2, h', List.nil_append]

/-- `s.block(e)`: the text is captured, the state is as before (up to the functions called) -/
theorem Runs.block {Q : St → Prop} {m : M Unit} {k : List Piece → M Unit} {ps qs : List Piece} (hm : RunsSc sc m ps)
    (h : Runs (At ind buf ae sc) Q (k ps) qs) : Runs (At ind buf ae sc) Q (block m >>= k) qs := by
  intro s hs
  obtain ⟨s1, h1, _, _⟩ := hm s hs.2.2.2
  obtain ⟨s', h', hq⟩ := h { s with funcsCalled := s1.funcsCalled } ⟨hs.1, hs.2.1, hs.2.2.1, hs.2.2.2⟩
  refine ⟨s', ?_, hq⟩
  simp only [Bind.bind, M.bind, JsGen.block, h1, h', List.nil_append]

end

/-! ### one lemma per node kind (the recursive calls are hypotheses) -/

section
variable (sk : List Bytes → List Bytes) (o : Options)
variable {ind : Nat} {buf : Bytes} {ae : Autoescape} {sc : Scope}

theorem Runs.getSt {Q : St → Prop} {k : St → M Unit} {ps : List Piece}
    (h : ∀ s0, At ind buf ae sc s0 → Runs (At ind buf ae sc) Q (k s0) ps) : Runs (At ind buf ae sc) Q (getSt >>= k) ps := by
  intro s hs
  obtain ⟨s', h', hq⟩ := h s hs s hs
  refine ⟨s', ?_, hq⟩
  simp only [Bind.bind, M.bind, JsGen.getSt, h', List.nil_append]

theorem Runs.seqM {α : Type} {P : St → Prop} (f : α → M Unit) (g : α → List Piece) :
    ∀ (l : List α), (∀ x ∈ l, Runs P P (f x) (g x)) → Runs P P (seqM (l.map f)) (l.flatMap g)
  | [], _ => Runs.pure
  | x :: r, h => by
    have h1 := h x (by simp)
    have h2 := Runs.seqM f g r (fun y hy => h y (by simp [hy]))
    exact (Runs.seq h1 h2).cast (by simp)

theorem Runs.addCalled (k : Bytes) (v : List Piece) : Runs (At ind buf ae sc) (At ind buf ae sc) (addCalled k v) [] := by
  intro s hs
  exact ⟨_, rfl, hs.1, hs.2.1, hs.2.2.1, hs.2.2.2⟩

theorem rawText_runs (p : Nat) (t : Bytes) :
    Runs (At ind buf ae sc) (At ind buf ae sc) (walkCmd sk o (.rawText p t)) (renderStmts ind (.one (.appendLit buf t))) := by
  sunfold walkCmd
  unfold writeRawText
  exact (Runs.seq Runs.atOther (Runs.seq Runs.indentP (Runs.getBuf
    (Runs.seq (Runs.emit _) (Runs.seq (Runs.fx _) (Runs.seq (Runs.emit _) (Runs.fx _))))))).cast
    (by simp [renderStmts_one, renderStmt])

theorem closeDirective_runs (d : Directive) (hd : d.args.all (fun a => (litAst a).isSome) = true) :
    Runs (At ind buf ae sc) (At ind buf ae sc) (closeDirective sk o d) (closePieces d) := by
  unfold closeDirective closePieces
  have h1 : Runs (At ind buf ae sc) (At ind buf ae sc)
      (JsGen.seqM (d.args.map fun a => do fx b!","; walkExpr sk o a)) (d.args.flatMap argPieces) := by
    apply Runs.seqM
    intro a ha
    have hl := List.all_eq_true.mp hd a ha
    cases hj : litAst a with
    | none => simp [hj] at hl
    | some j =>
      have := walkExpr_renders sk o sc a j (toAst_lit sc a j hj)
      exact (Runs.seq (Runs.fx _) (Runs.expr this)).cast (by simp [argPieces, hj])
  exact (Runs.seq h1 (Runs.seq (Runs.whenM _ (Runs.fx _)) (Runs.fx _))).cast (by simp)

theorem print_runs (p : Nat) (arg : Expr) (dirs : List Directive) (j : JsExpr) (ck : Bool × List Directive)
    (hok : dirs.all dirOk = true) (hj : toAst sc arg = some j) (hc : collectDirs dirs = some ck) :
    Runs (At ind buf ae sc) (At ind buf ae sc) (walkCmd sk o (.print p arg dirs))
      (renderStmts ind (.one (.append buf j (printDirs ae ck.1 ck.2)))) := by
  sunfold walkCmd
  refine (Runs.seq Runs.atOther ?_).cast (List.nil_append _)
  unfold visitPrint
  refine Runs.getSt ?_
  intro s0 hs0
  obtain ⟨cancel, kept⟩ := ck
  simp only [hc, hs0.2.1, hs0.2.2.1]
  have hargs : ∀ d ∈ printDirs ae cancel kept, d.args.all (fun a => (litAst a).isSome) = true := by
    intro d hd
    rcases SoyVerif.Lemmas.JsGenSafe.printDirs_mem hd with h | h
    · simp [h]
    · have := List.all_eq_true.mp hok d (SoyVerif.Lemmas.JsGenSafe.collectDirs_sub dirs cancel kept hc d h)
      simp only [dirOk, Bool.and_eq_true] at this
      exact this.1
  have h1 : Runs (At ind buf ae sc) (At ind buf ae sc)
      (JsGen.whenM (isEs6 o) (JsGen.seqM (kept.map fun d => addCalled d.name (tableImport (directiveJsName d.name))))) [] := by
    have h0 : Runs (At ind buf ae sc) (At ind buf ae sc)
        (JsGen.seqM (kept.map fun d => addCalled d.name (tableImport (directiveJsName d.name)))) (kept.flatMap fun _ => []) :=
      Runs.seqM _ _ kept (fun d _ => Runs.addCalled _ _)
    have h0' : Runs (At ind buf ae sc) (At ind buf ae sc)
        (JsGen.seqM (kept.map fun d => addCalled d.name (tableImport (directiveJsName d.name)))) [] := h0.cast (by simp)
    exact (Runs.whenM _ h0').cast (by simp)
  have h2 : Runs (At ind buf ae sc) (At ind buf ae sc)
      (JsGen.seqM ((printDirs ae cancel kept).reverse.map fun d => do fx (directiveJsName d.name); fx b!"("))
      ((printDirs ae cancel kept).reverse.flatMap openPieces) :=
    Runs.seqM _ _ _ (fun d _ => Runs.seq (Runs.fx _) (Runs.fx _))
  have h3 : Runs (At ind buf ae sc) (At ind buf ae sc)
      (JsGen.seqM ((printDirs ae cancel kept).map (closeDirective sk o)))
      ((printDirs ae cancel kept).flatMap closePieces) :=
    Runs.seqM _ _ _ (fun d hd => closeDirective_runs sk o d (hargs d hd))
  have h4 := walkExpr_renders sk o sc arg j hj
  exact (Runs.seq h1 (Runs.seq Runs.indentP (Runs.seq (Runs.emit _) (Runs.seq (Runs.fx _) (Runs.seq h2
    (Runs.seq (Runs.expr h4) (Runs.seq h3 (Runs.fx _)))))))).cast (by simp [renderStmts_one, renderStmt])

theorem letValue_runs (p : Nat) (x : Bytes) (e : Expr) (j : JsExpr) (hj : toAst sc e = some j) :
    Runs (At ind buf ae sc) (At ind buf ae (sc.makevar x).2) (walkCmd sk o (.letValue p x e))
      (renderStmts ind (.one (.var (sc.makevar x).1 j))) := by
  sunfold walkCmd
  have h := walkExpr_renders sk o sc e j hj
  exact (Runs.seq Runs.atOther (Runs.block h (Runs.getScope (Runs.seq (Runs.setScope _)
    (Runs.seq Runs.indentP (Runs.seq (Runs.fx _) (Runs.seq (Runs.emit _) (Runs.seq (Runs.fx _)
      (Runs.seq (Runs.emits _) (Runs.seq (Runs.fx _) Runs.nl)))))))))).cast (by simp [renderStmts_one, renderStmt])

theorem ifc_runs (p : Nat) (conds : CondList) (cs : JsConds) (sc' : Scope)
    (h : Runs (At ind buf ae sc) (At ind buf ae sc') (visitConds sk o conds true) (renderConds ind cs true)) :
    Runs (At ind buf ae sc) (At ind buf ae sc') (walkCmd sk o (.ifc p conds)) (renderStmts ind (.one (.ifs cs))) := by
  sunfold walkCmd
  exact (Runs.seq Runs.atOther (Runs.seq Runs.indentP (Runs.seq h Runs.nl))).cast (by simp [renderStmts_one, renderStmt])

theorem block_runs (p : Nat) (cmds : CmdList) (st : JsStmts) (sc' : Scope)
    (h : Runs (At ind buf ae sc.push) (At ind buf ae sc') (walkCmds sk o cmds) (renderStmts ind st)) :
    Runs (At ind buf ae sc) (At ind buf ae sc'.pop) (walkBlock sk o (.mk p cmds)) (renderStmts ind st) := by
  sunfold walkBlock
  exact (Runs.seq Runs.pushScope (Runs.seq Runs.atOther (Runs.seq h Runs.popScope))).cast (by simp)

theorem cmds_cons_runs (c : Cmd) (rest : CmdList) (s1 s2 : JsStmts) (sc1 sc2 : Scope)
    (h1 : Runs (At ind buf ae sc) (At ind buf ae sc1) (walkCmd sk o c) (renderStmts ind s1))
    (h2 : Runs (At ind buf ae sc1) (At ind buf ae sc2) (walkCmds sk o rest) (renderStmts ind s2)) :
    Runs (At ind buf ae sc) (At ind buf ae sc2) (walkCmds sk o (.cons c rest)) (renderStmts ind (s1.append s2)) := by
  sunfold walkCmds
  exact (Runs.seq h1 h2).cast (renderStmts_append ind s1 s2).symm

theorem cmds_nil_runs : Runs (At ind buf ae sc) (At ind buf ae sc) (walkCmds sk o .nil) (renderStmts ind .nil) := by
  sunfold walkCmds
  exact Runs.pure

theorem conds_nil_runs (first : Bool) :
    Runs (At ind buf ae sc) (At ind buf ae sc) (visitConds sk o .nil first) (renderConds ind .nil first) := by
  sunfold visitConds
  exact Runs.pure

theorem conds_some_runs (p : Nat) (c : Expr) (body : Block) (rest : CondList) (first : Bool) (j : JsExpr)
    (b : JsStmts) (rr : JsConds) (sc1 sc2 : Scope) (hj : toAst sc c = some j)
    (hb : Runs (At (ind + 1) buf ae sc) (At (ind + 1) buf ae sc1) (walkBlock sk o body) (renderStmts (ind + 1) b))
    (hr : Runs (At ind buf ae sc1) (At ind buf ae sc2) (visitConds sk o rest false) (renderConds ind rr false)) :
    Runs (At ind buf ae sc) (At ind buf ae sc2) (visitConds sk o (.cons p (some c) body rest) first)
      (renderConds ind (.cons j b rr) first) := by
  sunfold visitConds
  have h := walkExpr_renders sk o sc c j hj
  refine (Runs.seq (Runs.whenM (!first) (Runs.fx _)) (Runs.seq (Runs.seq (Runs.fx _) (Runs.seq (Runs.expr h) (Runs.fx _)))
    (Runs.seq (Runs.fx _) (Runs.seq Runs.incIndent (Runs.seq hb (Runs.seq Runs.decIndent (Runs.seq Runs.indentP
      (Runs.seq (Runs.fx _) hr)))))))).cast ?_
  cases first <;> simp [renderConds]

theorem conds_else_runs (p : Nat) (body : Block) (first : Bool) (b : JsStmts) (sc1 : Scope)
    (hb : Runs (At (ind + 1) buf ae sc) (At (ind + 1) buf ae sc1) (walkBlock sk o body) (renderStmts (ind + 1) b)) :
    Runs (At ind buf ae sc) (At ind buf ae sc1) (visitConds sk o (.cons p none body .nil) first)
      (renderConds ind (.els b) first) := by
  sunfold visitConds
  refine (Runs.seq (Runs.whenM (!first) (Runs.fx _)) (Runs.seq Runs.pure
    (Runs.seq (Runs.fx _) (Runs.seq Runs.incIndent (Runs.seq hb (Runs.seq Runs.decIndent (Runs.seq Runs.indentP
      (Runs.seq (Runs.fx _) (conds_nil_runs sk o false))))))))).cast ?_
  cases first <;> simp [renderConds]

end

/-! ### the recursion -/

section
variable (sk : List Bytes → List Bytes) (o : Options) (ae : Autoescape) (buf : Bytes)

mutual
  /-- PARTIAL (generator ↔ statement AST): for a command of the fragment, from every state in the
      scope `sc` (any indentation, buffer `buf`, autoescape mode `ae`) the generator writes exactly the
      text of the translation and ends in the scope the translation computes -/
  theorem walkCmd_renders : ∀ (c : Cmd) (sc : Scope) (r : JsStmts × Scope), toCmd ae buf c sc = some r →
      ∀ ind, Runs (At ind buf ae sc) (At ind buf ae r.2) (walkCmd sk o c) (renderStmts ind r.1)
    | .rawText p t, sc, r, h, ind => by
      simp only [toCmd, Option.some.injEq] at h; subst h
      exact rawText_runs sk o p t
    | .print p arg dirs, sc, r, h, ind => by
      unfold toCmd at h
      split at h
      · rename_i hok
        split at h
        · rename_i j ck hj hc
          simp only [Option.some.injEq] at h; subst h
          exact print_runs sk o p arg dirs j ck hok hj hc
        · cases h
      · cases h
    | .letValue p x e, sc, r, h, ind => by
      unfold toCmd at h
      split at h
      · cases h
      · split at h
        · rename_i j hj
          simp only [Option.some.injEq] at h; subst h
          exact letValue_runs sk o p x e j hj
        · cases h
    | .ifc p conds, sc, r, h, ind => by
      unfold toCmd at h
      split at h
      · rename_i rc hrc
        simp only [Option.some.injEq] at h; subst h
        exact ifc_runs sk o p conds rc.1 rc.2 (visitConds_renders conds sc rc hrc true ind)
      · cases h
    | .msg .., _, _, h, _ => by simp [toCmd] at h
    | .css .., _, _, h, _ => by simp [toCmd] at h
    | .debugger .., _, _, h, _ => by simp [toCmd] at h
    | .log .., _, _, h, _ => by simp [toCmd] at h
    | .forc .., _, _, h, _ => by simp [toCmd] at h
    | .switch .., _, _, h, _ => by simp [toCmd] at h
    | .call .., _, _, h, _ => by simp [toCmd] at h
    | .letContent .., _, _, h, _ => by simp [toCmd] at h
    | .headerParam .., _, _, h, _ => by simp [toCmd] at h
    | .namespace .., _, _, h, _ => by simp [toCmd] at h
    | .template .., _, _, h, _ => by simp [toCmd] at h
    | .soyDoc .., _, _, h, _ => by simp [toCmd] at h
  theorem walkBlock_renders : ∀ (b : Block) (sc : Scope) (r : JsStmts × Scope), toBlock ae buf b sc = some r →
      ∀ ind, Runs (At ind buf ae sc) (At ind buf ae r.2) (walkBlock sk o b) (renderStmts ind r.1)
    | .mk p cmds, sc, r, h, ind => by
      unfold toBlock at h
      split at h
      · rename_i rc hrc
        simp only [Option.some.injEq] at h; subst h
        exact block_runs sk o p cmds rc.1 rc.2 (walkCmds_renders cmds sc.push rc hrc ind)
      · cases h
  theorem walkCmds_renders : ∀ (cs : CmdList) (sc : Scope) (r : JsStmts × Scope), toCmds ae buf cs sc = some r →
      ∀ ind, Runs (At ind buf ae sc) (At ind buf ae r.2) (walkCmds sk o cs) (renderStmts ind r.1)
    | .nil, sc, r, h, ind => by
      simp only [toCmds, Option.some.injEq] at h; subst h
      exact cmds_nil_runs sk o
    | .cons c rest, sc, r, h, ind => by
      unfold toCmds at h
      split at h
      · cases h
      · rename_i r1 h1
        split at h
        · cases h
        · rename_i r2 h2
          simp only [Option.some.injEq] at h; subst h
          exact cmds_cons_runs sk o c rest r1.1 r2.1 r1.2 r2.2 (walkCmd_renders c sc r1 h1 ind)
            (walkCmds_renders rest r1.2 r2 h2 ind)
  theorem visitConds_renders : ∀ (cs : CondList) (sc : Scope) (r : JsConds × Scope), toConds ae buf cs sc = some r →
      ∀ (first : Bool) ind, Runs (At ind buf ae sc) (At ind buf ae r.2) (visitConds sk o cs first) (renderConds ind r.1 first)
    | .nil, sc, r, h, first, ind => by
      simp only [toConds, Option.some.injEq] at h; subst h
      exact conds_nil_runs sk o first
    | .cons p (some c) body rest, sc, r, h, first, ind => by
      unfold toConds at h
      simp only at h
      split at h
      · rename_i j rb hj hb
        split at h
        · rename_i rr hr
          simp only [Option.some.injEq] at h; subst h
          exact conds_some_runs sk o p c body rest first j rb.1 rr.1 rb.2 rr.2 hj
            (walkBlock_renders body sc rb hb (ind + 1)) (visitConds_renders rest rb.2 rr hr false ind)
        · cases h
      · cases h
    | .cons p none body rest, sc, r, h, first, ind => by
      unfold toConds at h
      simp only at h
      split at h
      · rename_i rb hb
        simp only [Option.some.injEq] at h; subst h
        exact conds_else_runs sk o p body first rb.1 rb.2 (walkBlock_renders body sc rb hb (ind + 1))
      · cases h
end

end

/-! ## 2. the specification, with directives -/

abbrev SEnv := Spec.Eval.Env
open SoyVerif.Spec.Eval (Val Out)

section
-- `F name args x`: what the library function the generator writes for `|name:args` computes from `x`
variable (F : Bytes → List Expr → JVal → JOut) (ae : Autoescape)

/-- strict in an abrupt argument -/
def liftF (name : Bytes) (args : List Expr) (x : JOut) : JOut := x.bind (F name args)

/-- the text of a print: the Go renderer's directive loop (Props/C04b `goPrint`: left to right, the
    escape flag cleared by a cancelling directive, escaping last) on the JSON image of the value,
    then ToString -/
def refPrint (dirs : List Directive) (v : Val) : Out Bytes :=
  match toJsV v with
  | none => .unspec
  | some jv =>
    match C04b.goPrint (liftF F) Gen.directiveTable ae dirs (.val jv) with
    | some (.val r) => (match toStr? r with
      | some s => .val s
      | none => .unspec)
    | some .error => .error
    | _ => .unspec

mutual
  /-- Spec/Eval.renderCmd on the fragment (lexical scoping: what a block binds is visible inside only) -/
  def refCmd : Cmd → SEnv → Spec.Eval.ROut
    | .rawText _ t, env => .val (t, env)
    | .print _ arg dirs, env =>
      (Spec.Eval.eval env arg).bind fun v => (refPrint F ae dirs v).bind fun s => .val (s, env)
    | .letValue _ name e, env => (Spec.Eval.eval env e).bind fun v => .val ([], env.bind name v)
    | .ifc _ conds, env => (refConds conds env).bind fun out => .val (out, env)
    | _, _ => .unspec
  def refBlock : Block → SEnv → Out Bytes
    | .mk _ cmds, env => refCmds cmds env
  def refCmds : CmdList → SEnv → Out Bytes
    | .nil, _ => .val []
    | .cons c rest, env =>
      (refCmd c env).bind fun r => (refCmds rest r.2).bind fun more => .val (r.1 ++ more)
  def refConds : CondList → SEnv → Out Bytes
    | .nil, _ => .val []
    | .cons _ cond body rest, env =>
      match cond with
      | none => refBlock body env
      | some c => (Spec.Eval.eval env c).bind fun v =>
          if Spec.Eval.truthy v then refBlock body env else refConds rest env
end

end

/-! ## 3. running the statements -/

/-! ### generated names -/

theorem natDigits_inj {m m' : Nat} (h : F64.natDigits m = F64.natDigits m') : m = m' := by
  have h1 := (SoyVerif.Lemmas.JsonValue.natDigits_shape m).2.2.2
  have h2 := (SoyVerif.Lemmas.JsonValue.natDigits_shape m').2.2.2
  rw [h] at h1
  exact h1.symm.trans h2

/-- the counter is part of the name -/
theorem jsname_inj_n {k k' : Bytes} {m m' : Nat} (hk : k.contains 36 = false) (hk' : k'.contains 36 = false)
    (h : Scope.jsname k [] m = Scope.jsname k' [] m') : k = k' ∧ m = m' := by
  have hkk := C04c.jsname_inj hk hk' h
  subst hkk
  refine ⟨rfl, natDigits_inj ?_⟩
  simpa [Scope.jsname] using h

theorem jsname_dollar (k use : Bytes) (m : Nat) : (Scope.jsname k use m).contains 36 = true := by
  simp [Scope.jsname]

/-! ### the scope invariant: Soy-named entries are `k$m` with `m` at most the counter -/

def Named (n : Nat) (k g : Bytes) : Prop := k.contains 36 = false → ∃ m, m ≤ n ∧ g = Scope.jsname k [] m

def Bounded (sc : Scope) : Prop := ∀ f ∈ sc.stack, ∀ kv ∈ f, Named sc.n kv.1 kv.2

/-- what the walk of a template body keeps: a frame is open, and the names are bounded -/
def ScOk (sc : Scope) : Prop := sc.stack ≠ [] ∧ Bounded sc

theorem Named.mono {n n' : Nat} {k g : Bytes} (h : Named n k g) (hn : n ≤ n') : Named n' k g := by
  intro hk
  obtain ⟨m, hm, e⟩ := h hk
  exact ⟨m, by omega, e⟩

theorem frameSet_mem : ∀ (f : Frame) (k v : Bytes) (kv : Bytes × Bytes), kv ∈ frameSet f k v → kv = (k, v) ∨ kv ∈ f
  | [], k, v, kv, h => by simp [frameSet] at h; exact Or.inl h
  | (k', v') :: r, k, v, kv, h => by
    unfold frameSet at h
    split at h
    · rcases List.mem_cons.mp h with h | h
      · exact Or.inl h
      · exact Or.inr (by simp [h])
    · rcases List.mem_cons.mp h with h | h
      · exact Or.inr (by simp [h])
      · rcases frameSet_mem r k v kv h with h | h
        · exact Or.inl h
        · exact Or.inr (by simp [h])

theorem frameGet_mem : ∀ (f : Frame) (k v : Bytes), frameGet? f k = some v → (k, v) ∈ f
  | [], _, _, h => by simp [frameGet?] at h
  | (k', v') :: r, k, v, h => by
    unfold frameGet? at h
    split at h
    · rename_i hk
      have : k' = k := by simpa using hk
      subst this
      simp only [Option.some.injEq] at h
      subst h
      simp
    · exact List.mem_cons_of_mem _ (frameGet_mem r k v h)

theorem lookupIn_mem : ∀ (st : List Frame) (k v : Bytes), Scope.lookupIn st k = some v → ∃ f ∈ st, (k, v) ∈ f
  | [], _, _, h => by simp [Scope.lookupIn] at h
  | f :: r, k, v, h => by
    unfold Scope.lookupIn at h
    split at h
    · rename_i v' hv'
      simp only [Option.some.injEq] at h
      subst h
      exact ⟨f, by simp, frameGet_mem f k _ hv'⟩
    · obtain ⟨g, hg, hm⟩ := lookupIn_mem r k v h
      exact ⟨g, by simp [hg], hm⟩

theorem bounded_lookup {sc : Scope} (h : Bounded sc) {k g : Bytes} (hk : k.contains 36 = false)
    (hl : sc.lookup k = some g) : ∃ m, m ≤ sc.n ∧ g = Scope.jsname k [] m := by
  obtain ⟨f, hf, hm⟩ := lookupIn_mem sc.stack k g hl
  exact h f hf (k, g) hm hk

theorem bounded_shape {sc : Scope} (h : Bounded sc) : SoyVerif.Lemmas.JsGenSpec.ScopeShape sc := by
  intro k g hk hl
  obtain ⟨m, _, e⟩ := bounded_lookup h hk hl
  exact ⟨[], m, e⟩

theorem bounded_of_stack {sc sc' : Scope} (h : Bounded sc) (hs : sc'.stack = sc.stack) (hn : sc.n ≤ sc'.n) : Bounded sc' := by
  intro f hf kv hkv
  rw [hs] at hf
  exact (h f hf kv hkv).mono hn

theorem scOk_push {sc : Scope} (h : Bounded sc) : ScOk sc.push := by
  refine ⟨by simp [Scope.push], ?_⟩
  intro f hf kv hkv
  simp only [Scope.push, List.mem_cons] at hf
  rcases hf with rfl | hf
  · cases hkv
  · exact h f hf kv hkv

theorem scOk_makevar {sc : Scope} (h : ScOk sc) (x : Bytes) :
    ScOk (sc.makevar x).2 ∧ (sc.makevar x).2.stack.tail = sc.stack.tail ∧ (sc.makevar x).2.n = sc.n + 1 := by
  obtain ⟨hne, hb⟩ := h
  cases hst : sc.stack with
  | nil => exact absurd hst hne
  | cons f st =>
    refine ⟨⟨by simp [Scope.makevar, Scope.setTop, hst], ?_⟩, by simp [Scope.makevar, Scope.setTop, hst], rfl⟩
    intro f' hf' kv hkv
    simp only [Scope.makevar, Scope.setTop, hst, List.mem_cons] at hf'
    rcases hf' with rfl | hf'
    · rcases frameSet_mem f x _ kv hkv with rfl | hm
      · intro _
        exact ⟨sc.n + 1, Nat.le_refl _, rfl⟩
      · exact (hb f (by simp [hst]) kv hm).mono (Nat.le_succ _)
    · exact (hb f' (by simp [hst, hf']) kv hkv).mono (Nat.le_succ _)

/-! ### what the translation does to the scope -/

section
variable (ae : Autoescape) (buf : Bytes)

mutual
  theorem toCmd_scope : ∀ (c : Cmd) (sc : Scope) (r : JsStmts × Scope), toCmd ae buf c sc = some r → ScOk sc →
      ScOk r.2 ∧ r.2.stack.tail = sc.stack.tail ∧ sc.n ≤ r.2.n
    | .rawText p t, sc, r, h, hs => by
      simp only [toCmd, Option.some.injEq] at h; subst h
      exact ⟨hs, rfl, Nat.le_refl _⟩
    | .print p arg dirs, sc, r, h, hs => by
      unfold toCmd at h
      split at h
      · split at h
        · simp only [Option.some.injEq] at h; subst h
          exact ⟨hs, rfl, Nat.le_refl _⟩
        · cases h
      · cases h
    | .letValue p x e, sc, r, h, hs => by
      unfold toCmd at h
      split at h
      · cases h
      · split at h
        · simp only [Option.some.injEq] at h; subst h
          obtain ⟨h1, h2, h3⟩ := scOk_makevar hs x
          exact ⟨h1, h2, by simp only [h3]; omega⟩
        · cases h
    | .ifc p conds, sc, r, h, hs => by
      unfold toCmd at h
      split at h
      · rename_i rc hrc
        simp only [Option.some.injEq] at h; subst h
        obtain ⟨h1, h2⟩ := toConds_scope conds sc rc hrc hs
        exact ⟨⟨by rw [h1]; exact hs.1, bounded_of_stack hs.2 h1 h2⟩, by simp only [h1], h2⟩
      · cases h
    | .msg .., _, _, h, _ => by simp [toCmd] at h
    | .css .., _, _, h, _ => by simp [toCmd] at h
    | .debugger .., _, _, h, _ => by simp [toCmd] at h
    | .log .., _, _, h, _ => by simp [toCmd] at h
    | .forc .., _, _, h, _ => by simp [toCmd] at h
    | .switch .., _, _, h, _ => by simp [toCmd] at h
    | .call .., _, _, h, _ => by simp [toCmd] at h
    | .letContent .., _, _, h, _ => by simp [toCmd] at h
    | .headerParam .., _, _, h, _ => by simp [toCmd] at h
    | .namespace .., _, _, h, _ => by simp [toCmd] at h
    | .template .., _, _, h, _ => by simp [toCmd] at h
    | .soyDoc .., _, _, h, _ => by simp [toCmd] at h
  /-- a block leaves the stack as it found it; only the counter moves -/
  theorem toBlock_scope : ∀ (b : Block) (sc : Scope) (r : JsStmts × Scope), toBlock ae buf b sc = some r → ScOk sc →
      r.2.stack = sc.stack ∧ sc.n ≤ r.2.n
    | .mk p cmds, sc, r, h, hs => by
      unfold toBlock at h
      split at h
      · rename_i rc hrc
        simp only [Option.some.injEq] at h; subst h
        obtain ⟨_, h2, h3⟩ := toCmds_scope cmds sc.push rc hrc (scOk_push hs.2)
        exact ⟨by simpa [Scope.pop, Scope.push] using h2, by simpa [Scope.pop, Scope.push] using h3⟩
      · cases h
  theorem toCmds_scope : ∀ (cs : CmdList) (sc : Scope) (r : JsStmts × Scope), toCmds ae buf cs sc = some r → ScOk sc →
      ScOk r.2 ∧ r.2.stack.tail = sc.stack.tail ∧ sc.n ≤ r.2.n
    | .nil, sc, r, h, hs => by
      simp only [toCmds, Option.some.injEq] at h; subst h
      exact ⟨hs, rfl, Nat.le_refl _⟩
    | .cons c rest, sc, r, h, hs => by
      unfold toCmds at h
      split at h
      · cases h
      · rename_i r1 h1
        split at h
        · cases h
        · rename_i r2 h2
          simp only [Option.some.injEq] at h; subst h
          obtain ⟨a1, a2, a3⟩ := toCmd_scope c sc r1 h1 hs
          obtain ⟨b1, b2, b3⟩ := toCmds_scope rest r1.2 r2 h2 a1
          exact ⟨b1, b2.trans a2, Nat.le_trans a3 b3⟩
  theorem toConds_scope : ∀ (cs : CondList) (sc : Scope) (r : JsConds × Scope), toConds ae buf cs sc = some r → ScOk sc →
      r.2.stack = sc.stack ∧ sc.n ≤ r.2.n
    | .nil, sc, r, h, hs => by
      simp only [toConds, Option.some.injEq] at h; subst h
      exact ⟨rfl, Nat.le_refl _⟩
    | .cons p (some c) body rest, sc, r, h, hs => by
      unfold toConds at h
      simp only at h
      split at h
      · rename_i j rb hj hb
        split at h
        · rename_i rr hr
          simp only [Option.some.injEq] at h; subst h
          obtain ⟨a1, a2⟩ := toBlock_scope body sc rb hb hs
          have hs1 : ScOk rb.2 := ⟨by rw [a1]; exact hs.1, bounded_of_stack hs.2 a1 a2⟩
          obtain ⟨b1, b2⟩ := toConds_scope rest rb.2 rr hr hs1
          exact ⟨b1.trans a1, Nat.le_trans a2 b2⟩
        · cases h
      · cases h
    | .cons p none body rest, sc, r, h, hs => by
      unfold toConds at h
      simp only at h
      split at h
      · rename_i rb hb
        simp only [Option.some.injEq] at h; subst h
        exact toBlock_scope body sc rb hb hs
      · cases h
end

end

/-! ### the JavaScript environment along a run -/

/-- the output variable holds the text `out` -/
def BufIs (buf : Bytes) (jenv : JEnv) (out : Bytes) : Prop :=
  jenv.locals.find? (·.1 == buf) = some (buf, .str out)

/-- from `a` to `b` only the output variable and locals generated after the counter was `lo` changed -/
def Keeps (buf : Bytes) (lo : Nat) (a b : JEnv) : Prop :=
  b.optData = a.optData ∧ b.ijData = a.ijData ∧
  ∀ g, g ≠ buf → (∀ x m, x.contains 36 = false → lo < m → g ≠ Scope.jsname x [] m) →
    b.locals.find? (·.1 == g) = a.locals.find? (·.1 == g)

theorem Keeps.refl (buf : Bytes) (lo : Nat) (a : JEnv) : Keeps buf lo a a := ⟨rfl, rfl, fun _ _ _ => rfl⟩

theorem Keeps.trans {buf : Bytes} {lo lo' : Nat} {a b c : JEnv} (h1 : Keeps buf lo a b) (h2 : Keeps buf lo' b c)
    (hl : lo ≤ lo') : Keeps buf lo a c := by
  refine ⟨h2.1.trans h1.1, h2.2.1.trans h1.2.1, ?_⟩
  intro g hg hn
  rw [h2.2.2 g hg (fun x m hx hm => hn x m hx (by omega)), h1.2.2 g hg hn]

theorem Keeps.mono {buf : Bytes} {lo lo' : Nat} {a b : JEnv} (h : Keeps buf lo' a b) (hl : lo ≤ lo') : Keeps buf lo a b :=
  (Keeps.refl buf lo a).trans h hl

theorem find_setLocal_ne (jenv : JEnv) (x g : Bytes) (v : JVal) (h : g ≠ x) :
    (setLocal jenv x v).locals.find? (·.1 == g) = jenv.locals.find? (·.1 == g) := by
  have : (x == g) = false := by simpa using fun e : x = g => h e.symm
  simp [setLocal, List.find?_cons, this]

theorem keeps_setBuf (buf : Bytes) (lo : Nat) (jenv : JEnv) (v : JVal) : Keeps buf lo jenv (setLocal jenv buf v) :=
  ⟨rfl, rfl, fun g hg _ => find_setLocal_ne jenv buf g v hg⟩

theorem bufIs_setBuf (buf : Bytes) (jenv : JEnv) (t : Bytes) : BufIs buf (setLocal jenv buf (.str t)) t := by
  simp [BufIs, setLocal]

/-- the relation survives everything `Keeps` allows, in every scope with the same frames -/
theorem envRel_keep {buf : Bytes} {sc sc' : Scope} {env : SEnv} {jenv jenv' : JEnv} {lo : Nat}
    (hrel : EnvRel sc env jenv) (hk : Keeps buf lo jenv jenv') (hb : Bounded sc) (hlo : sc.n ≤ lo)
    (hbuf : buf.contains 36 = false) (hst : sc'.stack = sc.stack) : EnvRel sc' env jenv' := by
  intro k hkij hkd
  have hl : sc'.lookup k = sc.lookup k := by simp [Scope.lookup, hst]
  rw [hl]
  have hr := hrel k hkij hkd
  cases hg : sc.lookup k with
  | none =>
    simp only [hg] at hr ⊢
    rw [hk.1]; exact hr
  | some g =>
    simp only [hg] at hr ⊢
    obtain ⟨kv, hfind, hkv⟩ := hr
    obtain ⟨m0, hm0, rfl⟩ := bounded_lookup hb hkd hg
    refine ⟨kv, ?_, hkv⟩
    rw [hk.2.2 _ ?_ ?_]
    · exact hfind
    · intro e
      have := jsname_dollar k [] m0
      rw [e, hbuf] at this
      cases this
    · intro x m hx hm e
      have := (jsname_inj_n hkd hx e).2
      omega

theorem envRel_stack {sc sc' : Scope} {env : SEnv} {jenv : JEnv} (hrel : EnvRel sc env jenv) (hst : sc'.stack = sc.stack) :
    EnvRel sc' env jenv := by
  intro k hkij hkd
  have hl : sc'.lookup k = sc.lookup k := by simp [Scope.lookup, hst]
  rw [hl]
  exact hrel k hkij hkd

/-! ### running single statements -/

theorem withVal_ok {o : JOut} {k : JVal → SRes} {e : JEnv} (h : withVal o k = .ok e) : ∃ v, o = .val v ∧ k v = .ok e := by
  cases o with
  | val v => exact ⟨v, rfl, h⟩
  | error => cases h
  | unspec => cases h

theorem sres_bind_ok {r : SRes} {k : JEnv → SRes} {e : JEnv} (h : r.bind k = .ok e) : ∃ e1, r = .ok e1 ∧ k e1 = .ok e := by
  cases r with
  | ok e1 => exact ⟨e1, rfl, h⟩
  | error => cases h
  | unspec => cases h

section
variable (F : Bytes → List Expr → JVal → JOut)

theorem execStmts_append : ∀ (a b : JsStmts) (env : JEnv),
    execStmts F (a.append b) env = (execStmts F a env).bind (execStmts F b)
  | .nil, b, env => by simp [JsStmts.append, execStmts, SRes.bind]
  | .cons s r, b, env => by
    simp only [JsStmts.append, execStmts]
    cases execStmt F s env with
    | ok e1 => simp only [SRes.bind]; exact execStmts_append r b e1
    | error => rfl
    | unspec => rfl

theorem execStmts_one (s : JsStmt) (env : JEnv) : execStmts F (.one s) env = execStmt F s env := by
  simp only [JsStmts.one, execStmts]
  cases execStmt F s env <;> rfl

/-- `buf += v` on a string buffer: ToString of `v` is appended -/
theorem appendTo_ok {buf : Bytes} {jenv jenv' : JEnv} {out : Bytes} {v : JVal} (hb : BufIs buf jenv out)
    (h : appendTo jenv buf v = .ok jenv') : ∃ s, toStr? v = some s ∧ jenv' = setLocal jenv buf (.str (out ++ s)) := by
  unfold appendTo at h
  have he : eval jenv (.local buf) = .val (.str out) := by
    unfold BufIs at hb
    simp [eval, hb]
  rw [he] at h
  simp only [withVal] at h
  obtain ⟨r, hr, hk⟩ := withVal_ok h
  simp only [SRes.ok.injEq] at hk
  subst hk
  cases hv : toStr? v with
  | none =>
    cases v <;> simp [binop, isStr, toStr?] at hr hv
  | some s =>
    refine ⟨s, rfl, ?_⟩
    have : binop .add (.str out) v = .val (.str (out ++ s)) := by
      cases v <;> simp [binop, isStr, toStr?] at hv ⊢ <;> simp [hv]
    rw [this] at hr
    simp only [JOut.val.injEq] at hr
    subst hr
    rfl

/-- the calls are strict: a value comes out only if a value went in -/
theorem applyCalls_val : ∀ (ds : List Directive) (o : JOut) (r : JVal), applyCalls F ds o = .val r → ∃ jv, o = .val jv
  | [], o, r, h => ⟨r, h⟩
  | d :: ds, o, r, h => by
    have h' : applyCalls F ds (o.bind (F d.name d.args)) = .val r := h
    obtain ⟨x, hx⟩ := applyCalls_val ds _ r h'
    cases o with
    | val v => exact ⟨v, rfl⟩
    | error => cases hx
    | unspec => cases hx

/-- what the generated print expression computes is what the Go renderer's directive loop computes -/
theorem applyCalls_goPrint (ae : Autoescape) (dirs : List Directive) (ck : Bool × List Directive)
    (hc : collectDirs dirs = some ck) (hok : dirs.all dirOk = true) (x : JOut) :
    C04b.goPrint (liftF F) Gen.directiveTable ae dirs x = some (applyCalls F (printDirs ae ck.1 ck.2) x) := by
  have hgo : ∀ d ∈ dirs, (Directives.lookup Gen.directiveTable d.name).isSome := by
    intro d hd
    have := List.all_eq_true.mp hok d hd
    simp only [dirOk, Bool.and_eq_true] at this
    exact this.2
  rw [← C04b.print_directives_agree (liftF F) ae dirs x (by simp [hc]) hgo]
  unfold C04b.jsPrint
  rw [hc, Option.map_some, C04b.denote_applyDirs]
  rfl

end

/-! ### the induction: one lemma per node kind -/

section
variable (F : Bytes → List Expr → JVal → JOut) (ae : Autoescape) (buf : Bytes)

def CmdOk (c : Cmd) : Prop :=
  ∀ (sc : Scope) (r : JsStmts × Scope) (env : SEnv) (jenv jenv' : JEnv) (out : Bytes),
    toCmd ae buf c sc = some r → ScOk sc → EnvRel sc env jenv → BufIs buf jenv out →
    execStmts F r.1 jenv = .ok jenv' →
    ∃ text env', refCmd F ae c env = .val (text, env') ∧ EnvRel r.2 env' jenv' ∧ BufIs buf jenv' (out ++ text) ∧
      Keeps buf sc.n jenv jenv'

def BlockOk (b : Block) : Prop :=
  ∀ (sc : Scope) (r : JsStmts × Scope) (env : SEnv) (jenv jenv' : JEnv) (out : Bytes),
    toBlock ae buf b sc = some r → ScOk sc → EnvRel sc env jenv → BufIs buf jenv out →
    execStmts F r.1 jenv = .ok jenv' →
    ∃ text, refBlock F ae b env = .val text ∧ BufIs buf jenv' (out ++ text) ∧ Keeps buf sc.n jenv jenv'

def CmdsOk (cs : CmdList) : Prop :=
  ∀ (sc : Scope) (r : JsStmts × Scope) (env : SEnv) (jenv jenv' : JEnv) (out : Bytes),
    toCmds ae buf cs sc = some r → ScOk sc → EnvRel sc env jenv → BufIs buf jenv out →
    execStmts F r.1 jenv = .ok jenv' →
    ∃ text, refCmds F ae cs env = .val text ∧ BufIs buf jenv' (out ++ text) ∧ Keeps buf sc.n jenv jenv'

def CondsOk (cs : CondList) : Prop :=
  ∀ (sc : Scope) (r : JsConds × Scope) (env : SEnv) (jenv jenv' : JEnv) (out : Bytes),
    toConds ae buf cs sc = some r → ScOk sc → EnvRel sc env jenv → BufIs buf jenv out →
    execConds F r.1 jenv = .ok jenv' →
    ∃ text, refConds F ae cs env = .val text ∧ BufIs buf jenv' (out ++ text) ∧ Keeps buf sc.n jenv jenv'

variable (hbuf : buf.contains 36 = false)
include hbuf

theorem rawText_ok (p : Nat) (t : Bytes) : CmdOk F ae buf (.rawText p t) := by
  intro sc r env jenv jenv' out h hs hrel hb hx
  simp only [toCmd, Option.some.injEq] at h; subst h
  rw [execStmts_one] at hx
  simp only [execStmt] at hx
  obtain ⟨s, hs', rfl⟩ := appendTo_ok hb hx
  simp only [toStr?, Option.some.injEq] at hs'
  subst hs'
  refine ⟨t, env, by simp [refCmd], ?_, bufIs_setBuf _ _ _, keeps_setBuf _ _ _ _⟩
  exact envRel_keep hrel (keeps_setBuf buf sc.n jenv _) hs.2 (Nat.le_refl _) hbuf rfl

theorem print_ok (p : Nat) (arg : Expr) (dirs : List Directive) : CmdOk F ae buf (.print p arg dirs) := by
  intro sc r env jenv jenv' out h hs hrel hb hx
  unfold toCmd at h
  split at h
  · rename_i hok
    split at h
    · rename_i j ck hj hc
      simp only [Option.some.injEq] at h; subst h
      rw [execStmts_one] at hx
      simp only [execStmt] at hx
      obtain ⟨rv, hrv, hx⟩ := withVal_ok hx
      obtain ⟨jv, hjv⟩ := applyCalls_val F _ _ _ hrv
      obtain ⟨v, hv, hvj⟩ := C04c.gen_correct_refs_partial sc env jenv hrel arg j jv hj hjv
      obtain ⟨s, hs', rfl⟩ := appendTo_ok hb hx
      have hgo := applyCalls_goPrint F ae dirs ck hc hok (.val jv)
      rw [hjv] at hrv
      rw [hrv] at hgo
      refine ⟨s, env, ?_, ?_, bufIs_setBuf _ _ _, keeps_setBuf _ _ _ _⟩
      · simp only [refCmd, hv, Spec.Eval.Out.bind, refPrint, hvj, hgo, hs']
      · exact envRel_keep hrel (keeps_setBuf buf sc.n jenv _) hs.2 (Nat.le_refl _) hbuf rfl
    · cases h
  · cases h

theorem letValue_ok (p : Nat) (x : Bytes) (e : Expr) : CmdOk F ae buf (.letValue p x e) := by
  intro sc r env jenv jenv' out h hs hrel hb hx
  unfold toCmd at h
  split at h
  · cases h
  · rename_i hxd
    have hxd' : x.contains 36 = false := by simpa using hxd
    split at h
    · rename_i j hj
      simp only [Option.some.injEq] at h; subst h
      rw [execStmts_one] at hx
      simp only [execStmt] at hx
      obtain ⟨jv, hjv, hx⟩ := withVal_ok hx
      simp only [SRes.ok.injEq] at hx
      subst hx
      obtain ⟨v, hv, hvj⟩ := C04c.gen_correct_refs_partial sc env jenv hrel e j jv hj hjv
      obtain ⟨hne, hbd⟩ := hs
      cases hst : sc.stack with
      | nil => exact absurd hst hne
      | cons f st =>
        have hg : (sc.makevar x).1 = Scope.jsname x [] (sc.n + 1) := rfl
        have hgb : (sc.makevar x).1 ≠ buf := by
          intro e'
          have := jsname_dollar x [] (sc.n + 1)
          rw [← hg, e', hbuf] at this
          cases this
        refine ⟨[], env.bind x v, by simp [refCmd, hv, Spec.Eval.Out.bind], ?_, ?_, ?_⟩
        · exact C04c.envRel_let sc env jenv f st hst (bounded_shape hbd) x hxd' v jv hrel hvj
        · unfold BufIs
          rw [find_setLocal_ne jenv _ buf jv hgb.symm, List.append_nil]
          exact hb
        · refine ⟨rfl, rfl, ?_⟩
          intro g _ hn
          exact find_setLocal_ne jenv _ g jv (hn x (sc.n + 1) hxd' (Nat.lt_succ_self _))
    · cases h

theorem ifc_ok (p : Nat) (conds : CondList) (ih : CondsOk F ae buf conds) : CmdOk F ae buf (.ifc p conds) := by
  intro sc r env jenv jenv' out h hs hrel hb hx
  unfold toCmd at h
  split at h
  · rename_i rc hrc
    simp only [Option.some.injEq] at h; subst h
    rw [execStmts_one] at hx
    simp only [execStmt] at hx
    obtain ⟨text, ht, hb', hk⟩ := ih sc rc env jenv jenv' out hrc hs hrel hb hx
    obtain ⟨h1, _⟩ := toConds_scope ae buf conds sc rc hrc hs
    exact ⟨text, env, by simp [refCmd, ht, Spec.Eval.Out.bind],
      envRel_keep hrel hk hs.2 (Nat.le_refl _) hbuf h1, hb', hk⟩
  · cases h

omit hbuf in
theorem lookup_push (sc : Scope) (k : Bytes) : sc.push.lookup k = sc.lookup k := by
  simp [Scope.push, Scope.lookup, Scope.lookupIn, frameGet?]

omit hbuf in
theorem block_ok (p : Nat) (cmds : CmdList) (ih : CmdsOk F ae buf cmds) : BlockOk F ae buf (.mk p cmds) := by
  intro sc r env jenv jenv' out h hs hrel hb hx
  unfold toBlock at h
  split at h
  · rename_i rc hrc
    simp only [Option.some.injEq] at h; subst h
    have hrel' : EnvRel sc.push env jenv := by
      intro k hk hd
      rw [lookup_push]
      exact hrel k hk hd
    obtain ⟨text, ht, hb', hk⟩ := ih sc.push rc env jenv jenv' out hrc (scOk_push hs.2) hrel' hb hx
    exact ⟨text, by simp only [refBlock]; exact ht, hb', hk⟩
  · cases h

omit hbuf in
theorem cmds_nil_ok : CmdsOk F ae buf .nil := by
  intro sc r env jenv jenv' out h hs hrel hb hx
  simp only [toCmds, Option.some.injEq] at h; subst h
  simp only [execStmts, SRes.ok.injEq] at hx
  subst hx
  exact ⟨[], by simp [refCmds], by simpa using hb, Keeps.refl _ _ _⟩

omit hbuf in
theorem cmds_cons_ok (c : Cmd) (rest : CmdList) (ih1 : CmdOk F ae buf c) (ih2 : CmdsOk F ae buf rest) :
    CmdsOk F ae buf (.cons c rest) := by
  intro sc r env jenv jenv' out h hs hrel hb hx
  unfold toCmds at h
  split at h
  · cases h
  · rename_i r1 h1
    split at h
    · cases h
    · rename_i r2 h2
      simp only [Option.some.injEq] at h; subst h
      rw [execStmts_append] at hx
      obtain ⟨jenv1, hx1, hx2⟩ := sres_bind_ok hx
      obtain ⟨t1, env1, ht1, hrel1, hb1, hk1⟩ := ih1 sc r1 env jenv jenv1 out h1 hs hrel hb hx1
      obtain ⟨a1, _, a3⟩ := toCmd_scope ae buf c sc r1 h1 hs
      obtain ⟨t2, ht2, hb2, hk2⟩ := ih2 r1.2 r2 env1 jenv1 jenv' (out ++ t1) h2 a1 hrel1 hb1 hx2
      refine ⟨t1 ++ t2, ?_, by rw [← List.append_assoc]; exact hb2, hk1.trans hk2 a3⟩
      simp [refCmds, ht1, ht2, Spec.Eval.Out.bind]

omit hbuf in
theorem conds_nil_ok : CondsOk F ae buf .nil := by
  intro sc r env jenv jenv' out h hs hrel hb hx
  simp only [toConds, Option.some.injEq] at h; subst h
  simp only [execConds, SRes.ok.injEq] at hx
  subst hx
  exact ⟨[], by simp [refConds], by simpa using hb, Keeps.refl _ _ _⟩

omit hbuf in
theorem conds_some_ok (p : Nat) (c : Expr) (body : Block) (rest : CondList) (ih1 : BlockOk F ae buf body)
    (ih2 : CondsOk F ae buf rest) : CondsOk F ae buf (.cons p (some c) body rest) := by
  intro sc r env jenv jenv' out h hs hrel hb hx
  unfold toConds at h
  simp only at h
  split at h
  · rename_i j rb hj hbk
    split at h
    · rename_i rr hr
      simp only [Option.some.injEq] at h; subst h
      simp only [execConds] at hx
      obtain ⟨jv, hjv, hx⟩ := withVal_ok hx
      obtain ⟨v, hv, hvj⟩ := C04c.gen_correct_refs_partial sc env jenv hrel c j jv hj hjv
      have htr := C04c.truthy_toBoolean v jv hvj
      by_cases hc : toBoolean jv = true
      · simp only [hc, if_true] at hx
        obtain ⟨text, ht, hb', hk⟩ := ih1 sc rb env jenv jenv' out hbk hs hrel hb hx
        refine ⟨text, ?_, hb', hk⟩
        simp [refConds, hv, Spec.Eval.Out.bind, htr, hc, ht]
      · simp only [hc, Bool.false_eq_true, if_false] at hx
        obtain ⟨a1, a2⟩ := toBlock_scope ae buf body sc rb hbk hs
        have hs1 : ScOk rb.2 := ⟨by rw [a1]; exact hs.1, bounded_of_stack hs.2 a1 a2⟩
        obtain ⟨text, ht, hb', hk⟩ := ih2 rb.2 rr env jenv jenv' out hr hs1 (envRel_stack hrel a1) hb hx
        refine ⟨text, ?_, hb', hk.mono a2⟩
        simp [refConds, hv, Spec.Eval.Out.bind, htr, hc, ht]
    · cases h
  · cases h

omit hbuf in
theorem conds_else_ok (p : Nat) (body : Block) (rest : CondList) (ih1 : BlockOk F ae buf body) :
    CondsOk F ae buf (.cons p none body rest) := by
  intro sc r env jenv jenv' out h hs hrel hb hx
  unfold toConds at h
  simp only at h
  split at h
  · rename_i rb hbk
    simp only [Option.some.injEq] at h; subst h
    simp only [execConds] at hx
    obtain ⟨text, ht, hb', hk⟩ := ih1 sc rb env jenv jenv' out hbk hs hrel hb hx
    exact ⟨text, by simp only [refConds]; exact ht, hb', hk⟩
  · cases h

mutual
  theorem cmd_ok : ∀ c : Cmd, CmdOk F ae buf c
    | .rawText p t => rawText_ok F ae buf hbuf p t
    | .print p arg dirs => print_ok F ae buf hbuf p arg dirs
    | .letValue p x e => letValue_ok F ae buf hbuf p x e
    | .ifc p conds => ifc_ok F ae buf hbuf p conds (conds_ok conds)
    | .msg .. => fun _ _ _ _ _ _ h => by simp [toCmd] at h
    | .css .. => fun _ _ _ _ _ _ h => by simp [toCmd] at h
    | .debugger .. => fun _ _ _ _ _ _ h => by simp [toCmd] at h
    | .log .. => fun _ _ _ _ _ _ h => by simp [toCmd] at h
    | .forc .. => fun _ _ _ _ _ _ h => by simp [toCmd] at h
    | .switch .. => fun _ _ _ _ _ _ h => by simp [toCmd] at h
    | .call .. => fun _ _ _ _ _ _ h => by simp [toCmd] at h
    | .letContent .. => fun _ _ _ _ _ _ h => by simp [toCmd] at h
    | .headerParam .. => fun _ _ _ _ _ _ h => by simp [toCmd] at h
    | .namespace .. => fun _ _ _ _ _ _ h => by simp [toCmd] at h
    | .template .. => fun _ _ _ _ _ _ h => by simp [toCmd] at h
    | .soyDoc .. => fun _ _ _ _ _ _ h => by simp [toCmd] at h
  theorem block_ok' : ∀ b : Block, BlockOk F ae buf b
    | .mk p cmds => block_ok F ae buf p cmds (cmds_ok cmds)
  theorem cmds_ok : ∀ cs : CmdList, CmdsOk F ae buf cs
    | .nil => cmds_nil_ok F ae buf
    | .cons c rest => cmds_cons_ok F ae buf c rest (cmd_ok c) (cmds_ok rest)
  theorem conds_ok : ∀ cs : CondList, CondsOk F ae buf cs
    | .nil => conds_nil_ok F ae buf
    | .cons p (some c) body rest => conds_some_ok F ae buf p c body rest (block_ok' body) (conds_ok rest)
    | .cons p none body rest => conds_else_ok F ae buf p body rest (block_ok' body)
end

end

/-! ## the theorem -/

section
variable (F : Bytes → List Expr → JVal → JOut) (ae : Autoescape) (buf : Bytes)

/-- PARTIAL (C04, command level).  For a list of commands of the fragment — raw text, `{print}` with
    directives, `{let $x: e /}`, `{if}/{elseif}/{else}`, over the expressions of Props/C04c — met in the
    generator scope `sc` with output variable `buf`:
    (a) the generator model writes exactly the statements `st` of the translation;
    (b) whenever these statements run to completion (Spec/JsStmt; every interpretation `F` of the
        directive functions) from a JavaScript environment related to the Soy environment `env`, in
        which `buf` holds `out`, the specification renders the commands in `env` to a text, and `buf`
        then holds `out` followed by exactly this text. -/
theorem gen_correct_cmds_partial (hbuf : buf.contains 36 = false) (sk : List Bytes → List Bytes) (o : Options)
    (cmds : CmdList) (sc : Scope) (r : JsStmts × Scope) (h : toCmds ae buf cmds sc = some r) :
    (∀ ind, Runs (At ind buf ae sc) (At ind buf ae r.2) (walkCmds sk o cmds) (renderStmts ind r.1)) ∧
    (∀ (env : SEnv) (jenv jenv' : JEnv) (out : Bytes), ScOk sc → EnvRel sc env jenv → BufIs buf jenv out →
      execStmts F r.1 jenv = .ok jenv' →
      ∃ text, refCmds F ae cmds env = .val text ∧ BufIs buf jenv' (out ++ text)) := by
  refine ⟨walkCmds_renders sk o ae buf cmds sc r h, ?_⟩
  intro env jenv jenv' out hs hrel hb hx
  obtain ⟨text, ht, hb', _⟩ := cmds_ok F ae buf hbuf cmds sc r env jenv jenv' out h hs hrel hb hx
  exact ⟨text, ht, hb'⟩

/-- the body of a template: entered with `opt_data` the JSON image of the data, after
    `var output = '';`, in a fresh frame -/
theorem gen_correct_body_partial (body : CmdList) (n : Nat) (r : JsStmts × Scope)
    (h : toCmds ae b!"output" body ⟨[[]], n⟩ = some r) (env : SEnv) (optData : List (Bytes × JVal))
    (ij : Option (List (Bytes × JVal))) (hdata : C04c.toJsKvs env.vars = some optData) (jenv' : JEnv)
    (hx : execStmts F r.1 ⟨optData, ij, [(b!"output", .str [])]⟩ = .ok jenv') :
    ∃ text, refCmds F ae body env = .val text ∧ BufIs b!"output" jenv' text := by
  have hs : ScOk ⟨[[]], n⟩ := by
    refine ⟨by simp, ?_⟩
    intro f hf kv hkv
    simp only [List.mem_singleton] at hf
    subst hf
    cases hkv
  have hrel : EnvRel ⟨[[]], n⟩ env ⟨optData, ij, [(b!"output", .str [])]⟩ :=
    C04c.envRel_params _ env _ (fun k => by simp [Scope.lookup, Scope.lookupIn, frameGet?]) hdata
  obtain ⟨text, ht, hb', _⟩ := cmds_ok F ae b!"output" (by decide) body _ r env _ jenv' [] h hs hrel
    (by simp [BufIs]) hx
  exact ⟨text, ht, by simpa using hb'⟩

end

/-! ## without directives the reference IS Spec/Eval.renderCmds -/

mutual
  /-- no print of the command has a directive -/
  def plainCmd : Cmd → Bool
    | .print _ _ dirs => dirs.isEmpty
    | .ifc _ conds => plainConds conds
    | _ => true
  def plainBlock : Block → Bool
    | .mk _ cmds => plainCmds cmds
  def plainCmds : CmdList → Bool
    | .nil => true
    | .cons c r => plainCmd c && plainCmds r
  def plainConds : CondList → Bool
    | .nil => true
    | .cons _ _ body rest => plainBlock body && plainConds rest
end

theorem out_bind_val {α β : Type} {o : Out α} {f : α → Out β} {b : β} (h : o.bind f = .val b) : ∃ a, o = .val a ∧ f a = .val b := by
  cases o with
  | val a => exact ⟨a, rfl, h⟩
  | error => cases h
  | unspec => cases h

/-- LIBRARY OBLIGATION (not proved here): soy.$$escapeHtml is Spec/Eval's htmlEscape of ToString -/
def EscapeHtmlIs (F : Bytes → List Expr → JVal → JOut) : Prop :=
  ∀ jv, F escapeHtmlName [] jv = match toStr? jv with
    | some s => .val (.str (htmlEscape s))
    | none => .unspec

section
variable (F : Bytes → List Expr → JVal → JOut) (ae : Autoescape) (hesc : EscapeHtmlIs F)
variable (reg : Registry.Reg) (hasBundle : Bool) (entry : Spec.Eval.Binds)
variable (call : Registry.Tmpl → Spec.Eval.CallEnv → Out Bytes)
include hesc

theorem refPrint_nil (v : Val) (s : Bytes) (h : refPrint F ae [] v = .val s) :
    ∃ s0, Spec.Eval.showVal v = .val s0 ∧ s = if ae != .off then htmlEscape s0 else s0 := by
  unfold refPrint at h
  cases hv : toJsV v with
  | none => simp [hv] at h
  | some jv =>
    simp only [hv] at h
    have hgo : C04b.goPrint (liftF F) Gen.directiveTable ae [] (.val jv) =
        some (if ae != .off then F escapeHtmlName [] jv else .val jv) := by
      simp only [C04b.goPrint, C04b.goRun, Option.map_some, liftF, JOut.bind]
    rw [hgo] at h
    by_cases hae : (ae != .off) = true
    · simp only [hae, if_true] at h ⊢
      rw [hesc jv] at h
      cases hs : toStr? jv with
      | none => simp [hs] at h
      | some s0 =>
        rw [hs] at h
        simp only [toStr?, Out.val.injEq] at h
        exact ⟨s0, C04c.showVal_toStr v jv s0 hv hs, h.symm⟩
    · simp only [hae, Bool.false_eq_true, if_false] at h ⊢
      cases hs : toStr? jv with
      | none => simp [hs] at h
      | some s0 =>
        simp only [hs, Out.val.injEq] at h
        exact ⟨s0, C04c.showVal_toStr v jv s0 hv hs, h.symm⟩

mutual
  theorem ref_le_spec_cmd : ∀ (c : Cmd) (env : SEnv) (r : Bytes × SEnv), plainCmd c = true →
      refCmd F ae c env = .val r → Spec.Eval.renderCmd reg hasBundle (ae != .off) entry call c env = .val r
    | .rawText p t, env, r, _, h => by
      rw [Spec.Eval.renderCmd]
      simpa [refCmd] using h
    | .print p arg dirs, env, r, hp, h => by
      have hd : dirs = [] := by simpa [plainCmd] using hp
      subst hd
      rw [Spec.Eval.renderCmd]
      simp only [refCmd] at h
      obtain ⟨v, hv, h⟩ := out_bind_val h
      obtain ⟨s, hs, h⟩ := out_bind_val h
      obtain ⟨s0, hs0, rfl⟩ := refPrint_nil F ae hesc v s hs
      simp only [Out.val.injEq] at h
      subst h
      simp [hv, hs0, Spec.Eval.Out.bind]
    | .letValue p x e, env, r, _, h => by
      rw [Spec.Eval.renderCmd]
      simpa [refCmd] using h
    | .ifc p conds, env, r, hp, h => by
      rw [Spec.Eval.renderCmd]
      simp only [refCmd] at h
      obtain ⟨out, ho, h⟩ := out_bind_val h
      have := ref_le_spec_conds conds env out (by simpa [plainCmd] using hp) ho
      simp [this, Spec.Eval.Out.bind, h]
    | .msg .., _, _, _, h => by simp [refCmd] at h
    | .css .., _, _, _, h => by simp [refCmd] at h
    | .debugger .., _, _, _, h => by simp [refCmd] at h
    | .log .., _, _, _, h => by simp [refCmd] at h
    | .forc .., _, _, _, h => by simp [refCmd] at h
    | .switch .., _, _, _, h => by simp [refCmd] at h
    | .call .., _, _, _, h => by simp [refCmd] at h
    | .letContent .., _, _, _, h => by simp [refCmd] at h
    | .headerParam .., _, _, _, h => by simp [refCmd] at h
    | .namespace .., _, _, _, h => by simp [refCmd] at h
    | .template .., _, _, _, h => by simp [refCmd] at h
    | .soyDoc .., _, _, _, h => by simp [refCmd] at h
  theorem ref_le_spec_block : ∀ (b : Block) (env : SEnv) (out : Bytes), plainBlock b = true →
      refBlock F ae b env = .val out → Spec.Eval.renderBlock reg hasBundle (ae != .off) entry call b env = .val out
    | .mk p cmds, env, out, hp, h => by
      rw [Spec.Eval.renderBlock]
      exact ref_le_spec_cmds cmds env out (by simpa [plainBlock] using hp) (by simpa [refBlock] using h)
  theorem ref_le_spec_cmds : ∀ (cs : CmdList) (env : SEnv) (out : Bytes), plainCmds cs = true →
      refCmds F ae cs env = .val out → Spec.Eval.renderCmds reg hasBundle (ae != .off) entry call cs env = .val out
    | .nil, env, out, _, h => by
      rw [Spec.Eval.renderCmds]
      simpa [refCmds] using h
    | .cons c rest, env, out, hp, h => by
      rw [Spec.Eval.renderCmds]
      simp only [plainCmds, Bool.and_eq_true] at hp
      simp only [refCmds] at h
      obtain ⟨r1, h1, h⟩ := out_bind_val h
      obtain ⟨more, h2, h⟩ := out_bind_val h
      rw [ref_le_spec_cmd c env r1 hp.1 h1]
      simp only [Spec.Eval.Out.bind]
      rw [ref_le_spec_cmds rest r1.2 more hp.2 h2]
      exact h
  theorem ref_le_spec_conds : ∀ (cs : CondList) (env : SEnv) (out : Bytes), plainConds cs = true →
      refConds F ae cs env = .val out → Spec.Eval.renderConds reg hasBundle (ae != .off) entry call cs env = .val out
    | .nil, env, out, _, h => by
      rw [Spec.Eval.renderConds]
      simpa [refConds] using h
    | .cons p (some c) body rest, env, out, hp, h => by
      rw [Spec.Eval.renderConds]
      simp only [plainConds, Bool.and_eq_true] at hp
      simp only [refConds] at h ⊢
      obtain ⟨v, hv, h⟩ := out_bind_val h
      rw [hv]
      simp only [Spec.Eval.Out.bind]
      by_cases ht : Spec.Eval.truthy v = true
      · simp only [ht, if_true] at h ⊢
        exact ref_le_spec_block body env out hp.1 h
      · simp only [ht, Bool.false_eq_true, if_false] at h ⊢
        exact ref_le_spec_conds rest env out hp.2 h
    | .cons p none body rest, env, out, hp, h => by
      rw [Spec.Eval.renderConds]
      simp only [plainConds, Bool.and_eq_true] at hp
      simp only [refConds] at h ⊢
      exact ref_le_spec_block body env out hp.1 h
end

end

section
variable (F : Bytes → List Expr → JVal → JOut) (ae : Autoescape)

/-- against Spec/Eval.renderCmds itself: directive-free prints, soy.$$escapeHtml read as htmlEscape -/
theorem gen_correct_cmds_spec (hesc : EscapeHtmlIs F) (buf : Bytes) (hbuf : buf.contains 36 = false)
    (cmds : CmdList) (hplain : plainCmds cmds = true) (sc : Scope) (r : JsStmts × Scope)
    (h : toCmds ae buf cmds sc = some r) (env : SEnv) (jenv jenv' : JEnv) (out : Bytes) (hs : ScOk sc)
    (hrel : EnvRel sc env jenv) (hb : BufIs buf jenv out) (hx : execStmts F r.1 jenv = .ok jenv')
    (reg : Registry.Reg) (hasBundle : Bool) (entry : Spec.Eval.Binds)
    (call : Registry.Tmpl → Spec.Eval.CallEnv → Out Bytes) :
    ∃ text, Spec.Eval.renderCmds reg hasBundle (ae != .off) entry call cmds env = .val text ∧
      BufIs buf jenv' (out ++ text) := by
  obtain ⟨text, ht, hb', _⟩ := cmds_ok F ae buf hbuf cmds sc r env jenv jenv' out h hs hrel hb hx
  exact ⟨text, ref_le_spec_cmds F ae hesc reg hasBundle entry call cmds env text hplain ht, hb'⟩

end

/-! ## non-vacuity -/

/-- `{let $x: $a + 1 /}{if $x > 2}big {let $x: '<' /}{$x}{else}small{/if}{$x |truncate:3}` -/
def sampleCmds : CmdList :=
  .cons (.letValue 0 b!"x" (.bin .add 0 (.dataRef 0 b!"a" .nil) (.int 0 1)))
  (.cons (.ifc 0
    (.cons 0 (some (.bin .gt 0 (.dataRef 0 b!"x" .nil) (.int 0 2)))
      (.mk 0 (.cons (.rawText 0 b!"big ") (.cons (.letValue 0 b!"x" (.str 0 b!"'<'" b!"<"))
        (.cons (.print 0 (.dataRef 0 b!"x" .nil) []) .nil))))
      (.cons 0 none (.mk 0 (.cons (.rawText 0 b!"small") .nil)) .nil)))
  (.cons (.print 0 (.dataRef 0 b!"x" .nil) [⟨0, b!"truncate", [.int 0 3]⟩]) .nil))

/-- soy.$$escapeHtml as htmlEscape ∘ ToString; any other library function `f` ↦ "f!" ++ ToString -/
def sampleF (name : Bytes) (_ : List Expr) (jv : JVal) : JOut :=
  match toStr? jv with
  | some s => .val (.str (if name == escapeHtmlName then htmlEscape s else name ++ b!"!" ++ s))
  | none => .unspec

theorem sampleF_escape : EscapeHtmlIs sampleF := by
  intro jv
  simp only [sampleF]
  cases toStr? jv <;> simp


-- the JavaScript the generator model writes for it (autoescaping on, one level of indentation)
set_option maxRecDepth 8000 in
example : (toCmds .on b!"output" sampleCmds ⟨[[]], 0⟩).map (fun r => printPieces (renderStmts 1 r.1)) = some
    b!"  var x$1 = ((opt_data.a) + (1));\n  if (((x$1) > (2))) {\n    output += 'big ';\n    var x$2 = '\\u003C';\n    output += soy.$$escapeHtml(x$2);\n  } else {\n    output += 'small';\n  }\n  output += soy.$$escapeHtml(soy.$$truncate(x$1,3,true));\n" := rfl

def sampleJEnv (a : Int) : JEnv := ⟨[(b!"a", .num a)], none, [(b!"output", .str [])]⟩
def sampleEnv (a : Int) : SEnv := { vars := [(b!"a", .int a)], loops := [], ij := none, globals := [] }

/-- what the statements leave in `output` -/
def sampleRun (a : Int) : Option JVal :=
  match toCmds .on b!"output" sampleCmds ⟨[[]], 0⟩ with
  | some r =>
    (match execStmts sampleF r.1 (sampleJEnv a) with
      | .ok e => (e.locals.find? (·.1 == b!"output")).map (·.2)
      | _ => none)
  | none => none

-- the inner `$x` is the fresh local `x$2`; after the block `$x` is `x$1` again
example : sampleRun 5 = some (.str b!"big &lt;truncate!6") := rfl
example : sampleRun 0 = some (.str b!"smalltruncate!1") := rfl
example : refCmds sampleF .on sampleCmds (sampleEnv 5) = .val b!"big &lt;truncate!6" := rfl
example : refCmds sampleF .on sampleCmds (sampleEnv 0) = .val b!"smalltruncate!1" := rfl

/-- the theorem on the sample: for EVERY `a` the statements complete on, the specification's text is
    what `output` holds -/
example (a : Int) (ha : SoyVerif.Spec.JsSem.exact a = true) (jenv' : JEnv) (r : JsStmts × Scope) (h : toCmds .on b!"output" sampleCmds ⟨[[]], 0⟩ = some r)
    (hx : execStmts sampleF r.1 (sampleJEnv a) = .ok jenv') :
    ∃ text, refCmds sampleF .on sampleCmds (sampleEnv a) = .val text ∧ BufIs b!"output" jenv' text :=
  gen_correct_body_partial sampleF .on sampleCmds 0 r h (sampleEnv a) _ none
    (by simp [sampleEnv, C04c.toJsKvs, C04c.toJsV, ha]) jenv' hx

/-- … and these statements are what the generator model writes: from a state inside a template
    function (indentation 1, buffer `output`, autoescaping on, a fresh frame) -/
example : ∀ r, toCmds .on b!"output" sampleCmds ⟨[[]], 0⟩ = some r →
    ∃ s', walkCmds id {} sampleCmds { indent := 1, bufferName := b!"output", autoescape := .on, scope := ⟨[[]], 0⟩ } =
      .ok ((), renderStmts 1 r.1, s') ∧ s'.scope = r.2 := by
  intro r h
  obtain ⟨s', h1, h2⟩ := (gen_correct_cmds_partial sampleF .on b!"output" (by decide) id {} sampleCmds _ r h).1 1
    { indent := 1, bufferName := b!"output", autoescape := .on, scope := ⟨[[]], 0⟩ } ⟨rfl, rfl, rfl, rfl⟩
  exact ⟨s', h1, h2.2.2.2⟩

/-- the semantics has teeth: had the generator reused `x$1` for the inner `{let $x}` (no fresh name:
    a `var` is function-scoped), the print after the `{if}` would see the inner value -/
def badStmts : JsStmts :=
  .cons (.var b!"x$1" (.bin .add (.optData b!"a") (.num 1)))
  (.cons (.ifs (.cons (.bin .gt (.local b!"x$1") (.num 2))
      (.cons (.appendLit b!"output" b!"big ") (.cons (.var b!"x$1" (.str b!"<"))
        (.cons (.append b!"output" (.local b!"x$1") [escapeHtmlDir]) .nil)))
      (.els (.cons (.appendLit b!"output" b!"small") .nil))))
  (.cons (.append b!"output" (.local b!"x$1") [⟨0, b!"truncate", [.int 0 3]⟩, escapeHtmlDir]) .nil))

example : (match execStmts sampleF badStmts (sampleJEnv 5) with
    | .ok e => (e.locals.find? (·.1 == b!"output")).map (·.2)
    | _ => none) = some (.str b!"big &lt;truncate!&lt;") := rfl

/-! ## what is proved, and what remains outside

  PROVED, for command lists built from raw text, `{print e |d…}` (directive arguments literal, every
  directive known to both backends), `{let $x: e /}`, `{if}/{elseif}/{else}` (nested at will), with `e`
  in the expression fragment of Props/C04c (literals, arithmetic / comparison / logic, `?:`, `?:`-elvis,
  variables and parameters with `.k` / `[i]` / `?.k` accesses, length / isNonnull / floor / ceiling /
  round / min / max; no floats, integers a double holds exactly):
    * `walkCmds_renders` — the generator model writes exactly `renderStmts` of the translation;
    * `gen_correct_cmds_partial` / `gen_correct_body_partial` — running these statements appends to
      the output variable what `refCmds` renders; variables: `{let}` inside a branch gets a FRESH
      JavaScript local (counter in the name, `jsname_inj_n`), so that after the branch — where
      JavaScript still sees the branch's `var`s — every visible Soy variable is still held by its own
      local (`envRel_keep`);
    * `ref_le_spec_cmds` / `gen_correct_cmds_spec` — without print directives and with
      soy.$$escapeHtml read as `htmlEscape ∘ ToString` (`EscapeHtmlIs`, a LIBRARY obligation),
      `refCmds` is Spec/Eval.renderCmds, the specification C02Spec proves the Go interpreter against.
  DIRECTION: "if the JavaScript completes, the specification yields that text".  Not shown: that
  the JavaScript completes whenever the specification yields a text (it does not always: a print
  of a list or a map is text in Soy and `unspec` here).

  OUTSIDE (no theorem at the command level): `{foreach}` / `{for}` (loops: the statement semantics
  has no loop yet), `{switch}`, `{call}` (needs a semantics of the generated FUNCTIONS and of
  soy.$$augmentMap), `{msg}` (placeholders, plural), `{let}` / `{param}` with content (a second
  output variable), `{css}`, `{log}`, `{debugger}`, `$ij`, globals, print directives with
  non-literal arguments, the template header (`opt_data = opt_data || {}`, `return output`) and
  the file level (namespaces, goog.provide / ES6 imports — covered for SHAPE by C14, not for meaning). -/

end SoyVerif.Props.C04d
