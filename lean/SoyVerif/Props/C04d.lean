/-
  C04 — generated JavaScript ≡ Go renderer, COMMAND level (partial).

  The fragment: raw text, `{print}` with directives, `{let $x: e /}`, `{if}/{elseif}/{else}`, the
  expressions of Props/C04c inside them.

  1. `toCmds` translates the commands, in the generator scope they are met in, to the statement AST of
     Spec/JsStmt; `walkCmds_renders`: the generator model writes EXACTLY `renderStmts` of the
     translation (piece for piece, indentation included) and leaves its state as the translation
     says (scope: the `let` variables of the block, the counter).
  2. `refCmds`: the denotational specification Spec/Eval.renderCmds restricted to the fragment and
     extended to print DIRECTIVES the way the Go renderer applies them (Props/C04b `goPrint`: left to
     right, the escape flag cleared by a cancelling directive, escaping last), the directive
     functions uninterpreted symbols `F name args` on JSON images.  `ref_le_spec`: without
     directives, and `F escapeHtml` read as Spec/Eval.htmlEscape ∘ ToString, it IS Spec/Eval.renderCmds.
  3. `gen_correct_cmds_partial`: whenever the emitted statements run to completion (Spec/JsStmt,
     any `F`) from a JavaScript environment related to the Soy environment, the specification
     renders the commands to a text, and the statements have appended exactly this text to the output
     variable; the final environments are related again.
-/
import SoyVerif.Props.C04b
import SoyVerif.Props.C04c
import SoyVerif.Spec.JsStmt
import SoyVerif.Lemmas.JsonValue

namespace SoyVerif.Props.C04d
open SoyVerif SoyVerif.Model SoyVerif.Model.JsGen SoyVerif.Spec.JsSemRef SoyVerif.Spec.JsStmt
open SoyVerif.Props.C04c (toAst render RunsSc Same walkExpr_renders toJsV EnvRel)


/-! ## 1. translation -/

/-- a literal directive argument (`|truncate:8`, `|insertWordBreaks:5`, `|truncate:8,false`) -/
def litAst : Expr → Option JsExpr
  | .null _ => some .null
  | .bool _ b => some (.bool b)
  | .int _ v => some (.num v)
  | .str _ _ v => some (.str v)
  | _ => none

theorem toAst_lit (sc : Scope) : ∀ (a : Expr) (j : JsExpr), litAst a = some j → toAst sc a = some j
  | .null _, _, h => by simpa [litAst, toAst] using h
  | .bool _ _, _, h => by simpa [litAst, toAst] using h
  | .int _ _, _, h => by simpa [litAst, toAst] using h
  | .str _ _ _, _, h => by simpa [litAst, toAst] using h
  | .float _ _, _, h => by simp [litAst] at h
  | .global _ _, _, h => by simp [litAst] at h
  | .func _ _ _, _, h => by simp [litAst] at h
  | .list _ _, _, h => by simp [litAst] at h
  | .map _ _, _, h => by simp [litAst] at h
  | .dataRef _ _ _, _, h => by simp [litAst] at h
  | .not _ _, _, h => by simp [litAst] at h
  | .neg _ _, _, h => by simp [litAst] at h
  | .bin _ _ _ _, _, h => by simp [litAst] at h
  | .tern _ _ _ _, _, h => by simp [litAst] at h

/-- a directive of the fragment: literal arguments, known to the Go renderer too -/
def dirOk (d : Directive) : Bool :=
  d.args.all (fun a => (litAst a).isSome) && (Directives.lookup Gen.directiveTable d.name).isSome

section
variable (ae : Autoescape) (buf : Bytes)

mutual
  /-- a command in the scope `sc`: its statements and the scope for the commands after it -/
  def toCmd : Cmd → Scope → Option (JsStmts × Scope)
    | .rawText _ t, sc => some (.one (.appendLit buf t), sc)
    | .print _ arg dirs, sc =>
      if dirs.all dirOk then
        match toAst sc arg, collectDirs dirs with
        | some j, some ck => some (.one (.append buf j (printDirs ae ck.1 ck.2)), sc)
        | _, _ => none
      else none
    | .letValue _ x e, sc =>
      if x.contains 36 then none
      else match toAst sc e with
        | some j => some (.one (.var (sc.makevar x).1 j), (sc.makevar x).2)
        | none => none
    | .ifc _ conds, sc =>
      match toConds conds sc with
      | some r => some (.one (.ifs r.1), r.2)
      | none => none
    | _, _ => none
  /-- a block has a scope frame of its own -/
  def toBlock : Block → Scope → Option (JsStmts × Scope)
    | .mk _ cmds, sc =>
      match toCmds cmds sc.push with
      | some r => some (r.1, r.2.pop)
      | none => none
  def toCmds : CmdList → Scope → Option (JsStmts × Scope)
    | .nil, sc => some (.nil, sc)
    | .cons c rest, sc =>
      match toCmd c sc with
      | none => none
      | some r1 =>
        match toCmds rest r1.2 with
        | none => none
        | some r2 => some (r1.1.append r2.1, r2.2)
  def toConds : CondList → Scope → Option (JsConds × Scope)
    | .nil, sc => some (.nil, sc)
    | .cons _ cond body rest, sc =>
      match cond with
      | some c =>
        (match toAst sc c, toBlock body sc with
          | some j, some rb =>
            (match toConds rest rb.2 with
              | some rr => some (.cons j rb.1 rr.1, rr.2)
              | none => none)
          | _, _ => none)
      | none =>
        -- `{else}` is the last branch
        (match rest, toBlock body sc with
          | .nil, some rb => some (.els rb.1, rb.2)
          | _, _ => none)
end

end

/-! ## the text of the statements, in the generator's pieces -/

def argPieces (a : Expr) : List Piece :=
  match litAst a with
  | some j => [.fixed b!","] ++ render j
  | none => []

def openPieces (d : Directive) : List Piece := [.fixed (directiveJsName d.name), .fixed b!"("]

def closePieces (d : Directive) : List Piece :=
  d.args.flatMap argPieces ++ (if d.name == b!"truncate" && d.args.length == 1 then [.fixed b!",true"] else []) ++
    [.fixed b!")"]

mutual
  def renderStmt (ind : Nat) : JsStmt → List Piece
    | .appendLit b t => [.fixed (spaces ind), .ident b, .fixed b!" += '", .escaped t, .fixed b!"';\n"]
    | .append b e ds =>
      [.fixed (spaces ind), .ident b, .fixed b!" += "] ++ ds.reverse.flatMap openPieces ++ render e ++
        ds.flatMap closePieces ++ [.fixed b!";\n"]
    | .var x e => [.fixed (spaces ind), .fixed b!"var ", .ident x, .fixed b!" = "] ++ render e ++ [.fixed b!";", .fixed [10]]
    | .ifs conds => [.fixed (spaces ind)] ++ renderConds ind conds true ++ [.fixed [10]]
  def renderStmts (ind : Nat) : JsStmts → List Piece
    | .nil => []
    | .cons s r => renderStmt ind s ++ renderStmts ind r
  def renderConds (ind : Nat) : JsConds → Bool → List Piece
    | .nil, _ => []
    | .els body, first =>
      (if first then [] else [.fixed b!" else "]) ++ [.fixed b!"{\n"] ++ renderStmts (ind + 1) body ++
        [.fixed (spaces ind), .fixed b!"}"]
    | .cons c body rest, first =>
      (if first then [] else [.fixed b!" else "]) ++ [.fixed b!"if ("] ++ render c ++ [.fixed b!") ", .fixed b!"{\n"] ++
        renderStmts (ind + 1) body ++ [.fixed (spaces ind), .fixed b!"}"] ++ renderConds ind rest false
end

theorem renderStmts_append (ind : Nat) : ∀ (a b : JsStmts),
    renderStmts ind (a.append b) = renderStmts ind a ++ renderStmts ind b
  | .nil, b => by simp [JsStmts.append, renderStmts]
  | .cons s r, b => by simp [JsStmts.append, renderStmts, renderStmts_append ind r b]

theorem renderStmts_one (ind : Nat) (s : JsStmt) : renderStmts ind (.one s) = renderStmt ind s := by
  simp [JsStmts.one, renderStmts]

/-! ## the generator writes `renderStmts (toCmds …)` -/

/-- from every state satisfying `P`, `m` succeeds, writes exactly `ps` and ends in a state
    satisfying `Q` -/
def Runs (P Q : St → Prop) (m : M Unit) (ps : List Piece) : Prop :=
  ∀ s, P s → ∃ s', m s = .ok ((), ps, s') ∧ Q s'

theorem Runs.seq {P Q R : St → Prop} {m k : M Unit} {ps qs : List Piece} (hm : Runs P Q m ps) (hk : Runs Q R k qs) :
    Runs P R (m >>= fun _ => k) (ps ++ qs) := by
  intro s hs
  obtain ⟨s1, h1, hs1⟩ := hm s hs
  obtain ⟨s2, h2, hs2⟩ := hk s1 hs1
  exact ⟨s2, by simp [Bind.bind, M.bind, h1, h2], hs2⟩

theorem Runs.cast {P Q : St → Prop} {m : M Unit} {ps qs : List Piece} (h : Runs P Q m ps) (e : ps = qs) :
    Runs P Q m qs := e ▸ h

theorem Runs.pure {P : St → Prop} : Runs P P (pure ()) [] := fun s hs => ⟨s, rfl, hs⟩
theorem Runs.emits {P : St → Prop} (ps : List Piece) : Runs P P (emits ps) ps := fun s hs => ⟨s, rfl, hs⟩
theorem Runs.emit {P : St → Prop} (p : Piece) : Runs P P (emit p) [p] := fun s hs => ⟨s, rfl, hs⟩
theorem Runs.fx {P : St → Prop} (t : Bytes) : Runs P P (fx t) [.fixed t] := fun s hs => ⟨s, rfl, hs⟩
theorem Runs.nl {P : St → Prop} : Runs P P nl [.fixed [10]] := fun s hs => ⟨s, rfl, hs⟩

theorem Runs.whenM {P : St → Prop} {m : M Unit} {ps : List Piece} (c : Bool) (h : Runs P P m ps) :
    Runs P P (whenM c m) (if c then ps else []) := by
  cases c
  · exact Runs.pure
  · exact h

/-- what the walk of a block of commands keeps fixed, and the scope it is in -/
def At (ind : Nat) (buf : Bytes) (ae : Autoescape) (sc : Scope) (s : St) : Prop :=
  s.indent = ind ∧ s.bufferName = buf ∧ s.autoescape = ae ∧ s.scope = sc

section
variable {ind : Nat} {buf : Bytes} {ae : Autoescape} {sc : Scope}

theorem Runs.indentP : Runs (At ind buf ae sc) (At ind buf ae sc) indentP [.fixed (spaces ind)] := by
  intro s hs
  exact ⟨s, by simp [JsGen.indentP, hs.1], hs⟩

theorem Runs.incIndent : Runs (At ind buf ae sc) (At (ind + 1) buf ae sc) incIndent [] := by
  intro s hs
  exact ⟨_, rfl, by simp [hs.1], hs.2.1, hs.2.2.1, hs.2.2.2⟩

theorem Runs.decIndent : Runs (At (ind + 1) buf ae sc) (At ind buf ae sc) decIndent [] := by
  intro s hs
  exact ⟨_, rfl, by simp [hs.1], hs.2.1, hs.2.2.1, hs.2.2.2⟩

theorem Runs.atOther : Runs (At ind buf ae sc) (At ind buf ae sc) atOther [] := by
  intro s hs
  exact ⟨_, rfl, hs.1, hs.2.1, hs.2.2.1, hs.2.2.2⟩

theorem Runs.pushScope : Runs (At ind buf ae sc) (At ind buf ae sc.push) pushScope [] := by
  intro s hs
  exact ⟨_, rfl, hs.1, hs.2.1, hs.2.2.1, by simp [hs.2.2.2]⟩

theorem Runs.popScope : Runs (At ind buf ae sc) (At ind buf ae sc.pop) popScope [] := by
  intro s hs
  exact ⟨_, rfl, hs.1, hs.2.1, hs.2.2.1, by simp [hs.2.2.2]⟩

theorem Runs.setScope (sc' : Scope) : Runs (At ind buf ae sc) (At ind buf ae sc') (setScope sc') [] := by
  intro s hs
  exact ⟨_, rfl, hs.1, hs.2.1, hs.2.2.1, rfl⟩

/-- an expression walk (Props/C04c) inside a command -/
theorem Runs.expr {m : M Unit} {ps : List Piece} (h : RunsSc sc m ps) : Runs (At ind buf ae sc) (At ind buf ae sc) m ps := by
  intro s hs
  obtain ⟨s', h', hsc, e⟩ := h s hs.2.2.2
  exact ⟨s', h', e.1.trans hs.1, e.2.2.1.trans hs.2.1, e.2.2.2.1.trans hs.2.2.1, hsc⟩

theorem Runs.getBuf {Q : St → Prop} {k : Bytes → M Unit} {ps : List Piece} (h : Runs (At ind buf ae sc) Q (k buf) ps) :
    Runs (At ind buf ae sc) Q (getBuf >>= k) ps := by
  intro s hs
  obtain ⟨s', h', hq⟩ := h s hs
  refine ⟨s', ?_, hq⟩
  simp only [Bind.bind, M.bind, JsGen.getBuf, hs.2.1, h', List.nil_append]

theorem Runs.getScope {Q : St → Prop} {k : Scope → M Unit} {ps : List Piece} (h : Runs (At ind buf ae sc) Q (k sc) ps) :
    Runs (At ind buf ae sc) Q (getScope >>= k) ps := by
  intro s hs
  obtain ⟨s', h', hq⟩ := h s hs
  refine ⟨s', ?_, hq⟩
  simp only [Bind.bind, M.bind, JsGen.getScope, hs.2.2.2, h', List.nil_append]

/-- `s.block(e)`: the text is captured, the state is as before (up to the functions called) -/
theorem Runs.block {Q : St → Prop} {m : M Unit} {k : List Piece → M Unit} {ps qs : List Piece} (hm : RunsSc sc m ps)
    (h : Runs (At ind buf ae sc) Q (k ps) qs) : Runs (At ind buf ae sc) Q (block m >>= k) qs := by
  intro s hs
  obtain ⟨s1, h1, _, _⟩ := hm s hs.2.2.2
  obtain ⟨s', h', hq⟩ := h { s with funcsCalled := s1.funcsCalled } ⟨hs.1, hs.2.1, hs.2.2.1, hs.2.2.2⟩
  refine ⟨s', ?_, hq⟩
  simp only [Bind.bind, M.bind, JsGen.block, h1, h', List.nil_append]

end

/-! ### one lemma per node kind (the recursive calls are hypotheses) -/

section
variable (sk : List Bytes → List Bytes) (o : Options)
variable {ind : Nat} {buf : Bytes} {ae : Autoescape} {sc : Scope}

theorem Runs.getSt {Q : St → Prop} {k : St → M Unit} {ps : List Piece}
    (h : ∀ s0, At ind buf ae sc s0 → Runs (At ind buf ae sc) Q (k s0) ps) : Runs (At ind buf ae sc) Q (getSt >>= k) ps := by
  intro s hs
  obtain ⟨s', h', hq⟩ := h s hs s hs
  refine ⟨s', ?_, hq⟩
  simp only [Bind.bind, M.bind, JsGen.getSt, h', List.nil_append]

theorem Runs.seqM {α : Type} {P : St → Prop} (f : α → M Unit) (g : α → List Piece) :
    ∀ (l : List α), (∀ x ∈ l, Runs P P (f x) (g x)) → Runs P P (seqM (l.map f)) (l.flatMap g)
  | [], _ => Runs.pure
  | x :: r, h => by
    have h1 := h x (by simp)
    have h2 := Runs.seqM f g r (fun y hy => h y (by simp [hy]))
    exact (Runs.seq h1 h2).cast (by simp)

theorem Runs.addCalled (k : Bytes) (v : List Piece) : Runs (At ind buf ae sc) (At ind buf ae sc) (addCalled k v) [] := by
  intro s hs
  exact ⟨_, rfl, hs.1, hs.2.1, hs.2.2.1, hs.2.2.2⟩

theorem rawText_runs (p : Nat) (t : Bytes) :
    Runs (At ind buf ae sc) (At ind buf ae sc) (walkCmd sk o (.rawText p t)) (renderStmts ind (.one (.appendLit buf t))) := by
  sunfold walkCmd
  unfold writeRawText
  exact (Runs.seq Runs.atOther (Runs.seq Runs.indentP (Runs.getBuf
    (Runs.seq (Runs.emit _) (Runs.seq (Runs.fx _) (Runs.seq (Runs.emit _) (Runs.fx _))))))).cast
    (by simp [renderStmts_one, renderStmt])

theorem closeDirective_runs (d : Directive) (hd : d.args.all (fun a => (litAst a).isSome) = true) :
    Runs (At ind buf ae sc) (At ind buf ae sc) (closeDirective sk o d) (closePieces d) := by
  unfold closeDirective closePieces
  have h1 : Runs (At ind buf ae sc) (At ind buf ae sc)
      (JsGen.seqM (d.args.map fun a => do fx b!","; walkExpr sk o a)) (d.args.flatMap argPieces) := by
    apply Runs.seqM
    intro a ha
    have hl := List.all_eq_true.mp hd a ha
    cases hj : litAst a with
    | none => simp [hj] at hl
    | some j =>
      have := walkExpr_renders sk o sc a j (toAst_lit sc a j hj)
      exact (Runs.seq (Runs.fx _) (Runs.expr this)).cast (by simp [argPieces, hj])
  exact (Runs.seq h1 (Runs.seq (Runs.whenM _ (Runs.fx _)) (Runs.fx _))).cast (by simp)

theorem print_runs (p : Nat) (arg : Expr) (dirs : List Directive) (j : JsExpr) (ck : Bool × List Directive)
    (hok : dirs.all dirOk = true) (hj : toAst sc arg = some j) (hc : collectDirs dirs = some ck) :
    Runs (At ind buf ae sc) (At ind buf ae sc) (walkCmd sk o (.print p arg dirs))
      (renderStmts ind (.one (.append buf j (printDirs ae ck.1 ck.2)))) := by
  sunfold walkCmd
  refine (Runs.seq Runs.atOther ?_).cast (List.nil_append _)
  unfold visitPrint
  refine Runs.getSt ?_
  intro s0 hs0
  obtain ⟨cancel, kept⟩ := ck
  simp only [hc, hs0.2.1, hs0.2.2.1]
  have hargs : ∀ d ∈ printDirs ae cancel kept, d.args.all (fun a => (litAst a).isSome) = true := by
    intro d hd
    rcases SoyVerif.Lemmas.JsGenSafe.printDirs_mem hd with h | h
    · simp [h]
    · have := List.all_eq_true.mp hok d (SoyVerif.Lemmas.JsGenSafe.collectDirs_sub dirs cancel kept hc d h)
      simp only [dirOk, Bool.and_eq_true] at this
      exact this.1
  have h1 : Runs (At ind buf ae sc) (At ind buf ae sc)
      (JsGen.whenM (isEs6 o) (JsGen.seqM (kept.map fun d => addCalled d.name (tableImport (directiveJsName d.name))))) [] := by
    have h0 : Runs (At ind buf ae sc) (At ind buf ae sc)
        (JsGen.seqM (kept.map fun d => addCalled d.name (tableImport (directiveJsName d.name)))) (kept.flatMap fun _ => []) :=
      Runs.seqM _ _ kept (fun d _ => Runs.addCalled _ _)
    have h0' : Runs (At ind buf ae sc) (At ind buf ae sc)
        (JsGen.seqM (kept.map fun d => addCalled d.name (tableImport (directiveJsName d.name)))) [] := h0.cast (by simp)
    exact (Runs.whenM _ h0').cast (by simp)
  have h2 : Runs (At ind buf ae sc) (At ind buf ae sc)
      (JsGen.seqM ((printDirs ae cancel kept).reverse.map fun d => do fx (directiveJsName d.name); fx b!"("))
      ((printDirs ae cancel kept).reverse.flatMap openPieces) :=
    Runs.seqM _ _ _ (fun d _ => Runs.seq (Runs.fx _) (Runs.fx _))
  have h3 : Runs (At ind buf ae sc) (At ind buf ae sc)
      (JsGen.seqM ((printDirs ae cancel kept).map (closeDirective sk o)))
      ((printDirs ae cancel kept).flatMap closePieces) :=
    Runs.seqM _ _ _ (fun d hd => closeDirective_runs sk o d (hargs d hd))
  have h4 := walkExpr_renders sk o sc arg j hj
  exact (Runs.seq h1 (Runs.seq Runs.indentP (Runs.seq (Runs.emit _) (Runs.seq (Runs.fx _) (Runs.seq h2
    (Runs.seq (Runs.expr h4) (Runs.seq h3 (Runs.fx _)))))))).cast (by simp [renderStmts_one, renderStmt])

theorem letValue_runs (p : Nat) (x : Bytes) (e : Expr) (j : JsExpr) (hj : toAst sc e = some j) :
    Runs (At ind buf ae sc) (At ind buf ae (sc.makevar x).2) (walkCmd sk o (.letValue p x e))
      (renderStmts ind (.one (.var (sc.makevar x).1 j))) := by
  sunfold walkCmd
  have h := walkExpr_renders sk o sc e j hj
  exact (Runs.seq Runs.atOther (Runs.block h (Runs.getScope (Runs.seq (Runs.setScope _)
    (Runs.seq Runs.indentP (Runs.seq (Runs.fx _) (Runs.seq (Runs.emit _) (Runs.seq (Runs.fx _)
      (Runs.seq (Runs.emits _) (Runs.seq (Runs.fx _) Runs.nl)))))))))).cast (by simp [renderStmts_one, renderStmt])

theorem ifc_runs (p : Nat) (conds : CondList) (cs : JsConds) (sc' : Scope)
    (h : Runs (At ind buf ae sc) (At ind buf ae sc') (visitConds sk o conds true) (renderConds ind cs true)) :
    Runs (At ind buf ae sc) (At ind buf ae sc') (walkCmd sk o (.ifc p conds)) (renderStmts ind (.one (.ifs cs))) := by
  sunfold walkCmd
  exact (Runs.seq Runs.atOther (Runs.seq Runs.indentP (Runs.seq h Runs.nl))).cast (by simp [renderStmts_one, renderStmt])

theorem block_runs (p : Nat) (cmds : CmdList) (st : JsStmts) (sc' : Scope)
    (h : Runs (At ind buf ae sc.push) (At ind buf ae sc') (walkCmds sk o cmds) (renderStmts ind st)) :
    Runs (At ind buf ae sc) (At ind buf ae sc'.pop) (walkBlock sk o (.mk p cmds)) (renderStmts ind st) := by
  sunfold walkBlock
  exact (Runs.seq Runs.pushScope (Runs.seq Runs.atOther (Runs.seq h Runs.popScope))).cast (by simp)

theorem cmds_cons_runs (c : Cmd) (rest : CmdList) (s1 s2 : JsStmts) (sc1 sc2 : Scope)
    (h1 : Runs (At ind buf ae sc) (At ind buf ae sc1) (walkCmd sk o c) (renderStmts ind s1))
    (h2 : Runs (At ind buf ae sc1) (At ind buf ae sc2) (walkCmds sk o rest) (renderStmts ind s2)) :
    Runs (At ind buf ae sc) (At ind buf ae sc2) (walkCmds sk o (.cons c rest)) (renderStmts ind (s1.append s2)) := by
  sunfold walkCmds
  exact (Runs.seq h1 h2).cast (renderStmts_append ind s1 s2).symm

theorem cmds_nil_runs : Runs (At ind buf ae sc) (At ind buf ae sc) (walkCmds sk o .nil) (renderStmts ind .nil) := by
  sunfold walkCmds
  exact Runs.pure

theorem conds_nil_runs (first : Bool) :
    Runs (At ind buf ae sc) (At ind buf ae sc) (visitConds sk o .nil first) (renderConds ind .nil first) := by
  sunfold visitConds
  exact Runs.pure

theorem conds_some_runs (p : Nat) (c : Expr) (body : Block) (rest : CondList) (first : Bool) (j : JsExpr)
    (b : JsStmts) (rr : JsConds) (sc1 sc2 : Scope) (hj : toAst sc c = some j)
    (hb : Runs (At (ind + 1) buf ae sc) (At (ind + 1) buf ae sc1) (walkBlock sk o body) (renderStmts (ind + 1) b))
    (hr : Runs (At ind buf ae sc1) (At ind buf ae sc2) (visitConds sk o rest false) (renderConds ind rr false)) :
    Runs (At ind buf ae sc) (At ind buf ae sc2) (visitConds sk o (.cons p (some c) body rest) first)
      (renderConds ind (.cons j b rr) first) := by
  sunfold visitConds
  have h := walkExpr_renders sk o sc c j hj
  refine (Runs.seq (Runs.whenM (!first) (Runs.fx _)) (Runs.seq (Runs.seq (Runs.fx _) (Runs.seq (Runs.expr h) (Runs.fx _)))
    (Runs.seq (Runs.fx _) (Runs.seq Runs.incIndent (Runs.seq hb (Runs.seq Runs.decIndent (Runs.seq Runs.indentP
      (Runs.seq (Runs.fx _) hr)))))))).cast ?_
  cases first <;> simp [renderConds]

theorem conds_else_runs (p : Nat) (body : Block) (first : Bool) (b : JsStmts) (sc1 : Scope)
    (hb : Runs (At (ind + 1) buf ae sc) (At (ind + 1) buf ae sc1) (walkBlock sk o body) (renderStmts (ind + 1) b)) :
    Runs (At ind buf ae sc) (At ind buf ae sc1) (visitConds sk o (.cons p none body .nil) first)
      (renderConds ind (.els b) first) := by
  sunfold visitConds
  refine (Runs.seq (Runs.whenM (!first) (Runs.fx _)) (Runs.seq Runs.pure
    (Runs.seq (Runs.fx _) (Runs.seq Runs.incIndent (Runs.seq hb (Runs.seq Runs.decIndent (Runs.seq Runs.indentP
      (Runs.seq (Runs.fx _) (conds_nil_runs sk o false))))))))).cast ?_
  cases first <;> simp [renderConds]

end

/-! ### the recursion -/

section
variable (sk : List Bytes → List Bytes) (o : Options) (ae : Autoescape) (buf : Bytes)

mutual
  /-- PARTIAL (generator ↔ statement AST): for a command of the fragment, from every state in the
      scope `sc` (any indentation, buffer `buf`, autoescape mode `ae`) the generator writes exactly the
      text of the translation and ends in the scope the translation computes -/
  theorem walkCmd_renders : ∀ (c : Cmd) (sc : Scope) (r : JsStmts × Scope), toCmd ae buf c sc = some r →
      ∀ ind, Runs (At ind buf ae sc) (At ind buf ae r.2) (walkCmd sk o c) (renderStmts ind r.1)
    | .rawText p t, sc, r, h, ind => by
      simp only [toCmd, Option.some.injEq] at h; subst h
      exact rawText_runs sk o p t
    | .print p arg dirs, sc, r, h, ind => by
      unfold toCmd at h
      split at h
      · rename_i hok
        split at h
        · rename_i j ck hj hc
          simp only [Option.some.injEq] at h; subst h
          exact print_runs sk o p arg dirs j ck hok hj hc
        · cases h
      · cases h
    | .letValue p x e, sc, r, h, ind => by
      unfold toCmd at h
      split at h
      · cases h
      · split at h
        · rename_i j hj
          simp only [Option.some.injEq] at h; subst h
          exact letValue_runs sk o p x e j hj
        · cases h
    | .ifc p conds, sc, r, h, ind => by
      unfold toCmd at h
      split at h
      · rename_i rc hrc
        simp only [Option.some.injEq] at h; subst h
        exact ifc_runs sk o p conds rc.1 rc.2 (visitConds_renders conds sc rc hrc true ind)
      · cases h
    | .msg .., _, _, h, _ => by simp [toCmd] at h
    | .css .., _, _, h, _ => by simp [toCmd] at h
    | .debugger .., _, _, h, _ => by simp [toCmd] at h
    | .log .., _, _, h, _ => by simp [toCmd] at h
    | .forc .., _, _, h, _ => by simp [toCmd] at h
    | .switch .., _, _, h, _ => by simp [toCmd] at h
    | .call .., _, _, h, _ => by simp [toCmd] at h
    | .letContent .., _, _, h, _ => by simp [toCmd] at h
    | .headerParam .., _, _, h, _ => by simp [toCmd] at h
    | .namespace .., _, _, h, _ => by simp [toCmd] at h
    | .template .., _, _, h, _ => by simp [toCmd] at h
    | .soyDoc .., _, _, h, _ => by simp [toCmd] at h
  theorem walkBlock_renders : ∀ (b : Block) (sc : Scope) (r : JsStmts × Scope), toBlock ae buf b sc = some r →
      ∀ ind, Runs (At ind buf ae sc) (At ind buf ae r.2) (walkBlock sk o b) (renderStmts ind r.1)
    | .mk p cmds, sc, r, h, ind => by
      unfold toBlock at h
      split at h
      · rename_i rc hrc
        simp only [Option.some.injEq] at h; subst h
        exact block_runs sk o p cmds rc.1 rc.2 (walkCmds_renders cmds sc.push rc hrc ind)
      · cases h
  theorem walkCmds_renders : ∀ (cs : CmdList) (sc : Scope) (r : JsStmts × Scope), toCmds ae buf cs sc = some r →
      ∀ ind, Runs (At ind buf ae sc) (At ind buf ae r.2) (walkCmds sk o cs) (renderStmts ind r.1)
    | .nil, sc, r, h, ind => by
      simp only [toCmds, Option.some.injEq] at h; subst h
      exact cmds_nil_runs sk o
    | .cons c rest, sc, r, h, ind => by
      unfold toCmds at h
      split at h
      · cases h
      · rename_i r1 h1
        split at h
        · cases h
        · rename_i r2 h2
          simp only [Option.some.injEq] at h; subst h
          exact cmds_cons_runs sk o c rest r1.1 r2.1 r1.2 r2.2 (walkCmd_renders c sc r1 h1 ind)
            (walkCmds_renders rest r1.2 r2 h2 ind)
  theorem visitConds_renders : ∀ (cs : CondList) (sc : Scope) (r : JsConds × Scope), toConds ae buf cs sc = some r →
      ∀ (first : Bool) ind, Runs (At ind buf ae sc) (At ind buf ae r.2) (visitConds sk o cs first) (renderConds ind r.1 first)
    | .nil, sc, r, h, first, ind => by
      simp only [toConds, Option.some.injEq] at h; subst h
      exact conds_nil_runs sk o first
    | .cons p (some c) body rest, sc, r, h, first, ind => by
      unfold toConds at h
      simp only at h
      split at h
      · rename_i j rb hj hb
        split at h
        · rename_i rr hr
          simp only [Option.some.injEq] at h; subst h
          exact conds_some_runs sk o p c body rest first j rb.1 rr.1 rb.2 rr.2 hj
            (walkBlock_renders body sc rb hb (ind + 1)) (visitConds_renders rest rb.2 rr hr false ind)
        · cases h
      · cases h
    | .cons p none body rest, sc, r, h, first, ind => by
      unfold toConds at h
      simp only at h
      split at h
      · rename_i rb hb
        simp only [Option.some.injEq] at h; subst h
        exact conds_else_runs sk o p body first rb.1 rb.2 (walkBlock_renders body sc rb hb (ind + 1))
      · cases h
end

end

end SoyVerif.Props.C04d
