/-
  C17 — a printed expression parses back to the same expression; C01 (parser half) — every
  well-formed expression, with minimal or redundant parentheses, is accepted with the right tree.

  TOKEN level: the printer's output is viewed as the token list the lexer delivers for it
  (`PrintTokens.pieces` / `toks`; `toks_spell_printer` proves that spelling these tokens with the
  recorded spaces IS `Printer.printExpr`); the byte-level lexer lemma `lex (spell ts) = ts` is
  not part of this file.  The parser is the model `Parser.parseExprEntry` (tied to
  parse.Expr by the correspondence C01parse; the printer model to `String()` by C17).

  The facts about the GENERATED operator tables enter as the hypothesis `TableOK`; `Inst/C17.lean`
  discharges it by `decide` on the tables regenerated from /repo and states the theorems without it.

  Float literals: `FormatFloat`/`ParseFloat` are parameters `ff`/`pf`; `Canon` asks of every float
  in the tree that `pf (fmtFloatLit ff bits) = some bits` (validated by correspondence, not proved).
-/
import SoyVerif.Lemmas.ParserAll
import SoyVerif.Lemmas.ParserToks
import SoyVerif.Lemmas.ParserQuote
import SoyVerif.Lemmas.ParserAdj

namespace SoyVerif.Props.C17
open SoyVerif SoyVerif.Model SoyVerif.Model.Parser SoyVerif.Model.PrintTokens SoyVerif.Model.Printer
open SoyVerif.Lemmas.ParserBasic SoyVerif.Lemmas.ParserRound SoyVerif.Lemmas.ParserToks

/-- token lists with arbitrary positions: `items` carries the tokens `ts` -/
def Carries (items : List Item) (ts : List Tk) : Prop := items.map Item.tk = ts

/-- a concrete assignment of positions (used for the corollaries and the examples) -/
def withPos : Nat → List Tk → List Item
  | _, [] => []
  | p, t :: r => ⟨t.typ, p, t.val⟩ :: withPos (p + 1) r

theorem withPos_carries : (p : Nat) → (ts : List Tk) → Carries (withPos p ts) ts
  | _, [] => rfl
  | p, t :: r => by
    have ih : List.map Item.tk (withPos (p + 1) r) = r := withPos_carries (p + 1) r
    simp [Carries, withPos, Item.tk, ih]

/-- a top-level spelling of `e`: a rendering inside any number of redundant parentheses -/
def RendersTop (pf : Bytes → Option UInt64) (e : Expr) (ts : List Tk) : Prop := Slot 0 e (Renders pf e) ts

section
variable (ff : UInt64 → Bytes) (pf : Bytes → Option UInt64)

/-- BRIDGE: the token view is the printer's output — spelling the pieces (tokens by their text,
    markers as one space) gives exactly `printExpr`, and `toks` are those tokens -/
theorem toks_spell_printer (e : Expr) :
    spell (pieces ff e) = printExpr ff e ∧ toks ff e = unsp (pieces ff e) :=
  ⟨spell_pieces ff e, rfl⟩

/-- the printer's parenthesisation is one of the renderings (the minimal one) -/
theorem printed_tokens_render (e : Expr) (hC : Canon ff pf e) : Renders pf e (toks ff e) :=
  renders_toks ff pf e hC

/-- lexer-facing: in the printed tokens of ANY tree, preceded by the start of input, every token that
    may begin with a unary `-` (Negate, Integer, Float) follows a token of `beforeOperand`, every binary
    minus follows a token of `afterOperand` (`chainOK`), and the last token is one of `afterOperand` -/
theorem minus_context (e : Expr) :
    SoyVerif.Lemmas.ParserAdj.chainOK .tInvalid (SoyVerif.Lemmas.ParserAdj.typs (toks ff e)) = true ∧
    SoyVerif.Lemmas.ParserAdj.lastOf .tInvalid (SoyVerif.Lemmas.ParserAdj.typs (toks ff e)) ∈ SoyVerif.Lemmas.ParserAdj.afterOperand :=
  SoyVerif.Lemmas.ParserAdj.good_toks ff e .tInvalid (by simp [SoyVerif.Lemmas.ParserAdj.beforeOperand])

/-- FULL (`unquote_quote` for the Soy string-literal grammar): the printer's quoting of ANY byte
    string — escapes, multi-byte runes, bytes that are not valid UTF-8 — reads back as that string;
    this is why `Canon` needs no condition on map keys -/
theorem key_requotable (k : Bytes) : Quote.unquoteString (quoteString k) = some k :=
  SoyVerif.Lemmas.ParserQuote.requote k

/-- C01, string-literal side: every byte string `v` has a Soy literal (`quoteString v`) that the
    parser reads as `v` — the string node `'…'` with that spelling is canonical, so the round-trip
    theorems apply to it -/
theorem unquote_quote (v : Bytes) (p : Nat) :
    Quote.unquoteString (quoteString v) = some v ∧ Canon ff pf (.str p (quoteString v) v) := by
  refine ⟨SoyVerif.Lemmas.ParserQuote.requote v, ?_⟩
  rw [Canon]; exact SoyVerif.Lemmas.ParserQuote.requote v

variable (T : TableOK)
include T

/-- C01, parser completeness with redundant parentheses: every token spelling of `e` — the
    minimal parenthesisation or any number of redundant parentheses around any operand, list item,
    argument, map value, index expression or the whole expression; any spelling of the number and
    map-key literals — with ANY positions, followed by EOF, is accepted by `parse.Expr` (model,
    with the fuel it really uses) and yields `e` modulo positions -/
theorem parse_complete_redundant_parens (e : Expr) (ts : List Tk) (items : List Item)
    (hR : RendersTop pf e ts) (hit : Carries items (ts ++ [tEOF])) :
    ∃ e', parseExprEntry pf items = .ok e' ∧ erase e' = erase e :=
  parse_slot_entry pf T e ts items hR hit

/-- the same for EVERY fuel of at least 8 per token (+1): the result does not depend on the fuel
    (this is why no separate fuel-monotonicity lemma is needed), and the parser stops in front of EOF -/
theorem parse_complete_any_fuel (e : Expr) (ts : List Tk) (items : List Item)
    (hR : RendersTop pf e ts) (hit : Carries items (ts ++ [tEOF])) (F : Nat) (hF : 8 * ts.length + 1 ≤ F) :
    ∃ e' st2, parseExpr pf F 0 (initState items) = .ok (e', st2) ∧ erase e' = erase e ∧ At1 st2 [tEOF] :=
  parse_slot_fuel pf T e ts items hR hit F hF

/-- C17 at the token level (FULL): the tokens of the printed text of a canonical tree, with any
    positions, parse back to the tree modulo positions -/
theorem print_parse_roundtrip_tokens (e : Expr) (hC : Canon ff pf e) (items : List Item)
    (hit : Carries items (toks ff e ++ [tEOF])) :
    ∃ e', parseExprEntry pf items = .ok e' ∧ erase e' = erase e :=
  parse_slot_entry pf T e (toks ff e) items (slot_plain ff pf e (renders_toks ff pf e hC)) hit

/-- the token grammar is unambiguous: one token list renders at most one tree -/
theorem renders_unique (a b : Expr) (ts : List Tk) (ha : RendersTop pf a ts) (hb : RendersTop pf b ts) :
    erase a = erase b := by
  obtain ⟨ea, h1, h2⟩ := parse_slot_entry pf T a ts (withPos 0 (ts ++ [tEOF])) ha (withPos_carries 0 _)
  obtain ⟨eb, h3, h4⟩ := parse_slot_entry pf T b ts (withPos 0 (ts ++ [tEOF])) hb (withPos_carries 0 _)
  rw [h1] at h3
  injection h3 with h3
  rw [← h2, ← h4, h3]

/-- corollary: two canonical trees that print the same tokens are the same tree -/
theorem print_injective_tokens (a b : Expr) (ha : Canon ff pf a) (hb : Canon ff pf b)
    (h : toks ff a = toks ff b) : erase a = erase b :=
  renders_unique pf T a b (toks ff a) (slot_plain ff pf a (renders_toks ff pf a ha))
    (by rw [h]; exact slot_plain ff pf b (renders_toks ff pf b hb))

end

end SoyVerif.Props.C17
