/-
  C17e — exact evaluation of the lexer model on the MINIMAL soydoc `/** */`.

  PROVED here:
  * `lexSoyDocLoop_end`, `lexSoyDocLoop_sol_space`, `lexSoyDocLoop_sol_star`: three one-iteration equations of the
    loop of `lexSoyDoc` (the closing `*/`; a blank at the start of a line; a `*` at the start of a line).
  * `lexText_text_soydoc_min`: from a lexer record in text state at offset `q` (nothing pending) in front of `n`
    text bytes and the six bytes `/** */` (47 42 42 32 42 47), ONE `lexText` call sends the text item (if any),
    SoyDocStart (end `q+n+3`, value `inp[q+n .. q+n+3]`), the Text item(s) `textItems inp (q+n+3) (q+n+4)` for the
    blank, SoyDocEnd (end `q+n+6`, value `inp[q+n+4 .. q+n+6]`) and returns to `lexText` at `q+n+6`, nothing pending.
  * `soydoc_min_run`: the same in the style of C15c's `cmt_run` (over `Holds`, `run (f+1) = run f`), with the items
    spelled out: SoyDocStart `/**`, Text ` `, SoyDocEnd `*/` — THREE items.

  NOT proved here: soydocs with any other body (`/**` ++ c ++ `*/` for a general class of c, `@param` lines,
  several lines); the file-level corollary (soydoc in front of `{template}`); anything about the parser's
  `soyDocLoop` skipping the Text item.
-/
import SoyVerif.Props.C17d

namespace SoyVerif.Props.C17e
open SoyVerif SoyVerif.Model SoyVerif.Spec SoyVerif.Props.C15b SoyVerif.Props.C15c
open Lex

/-- the closing `/` behind a `*` -/
theorem lexSoyDocLoop_end {l l1 : Lexer} {ds : Int} {sol : Bool} (hn : l.next = some (47, l1)) :
    lexSoyDocLoop l ds true sol =
      match maybeEmitText l1 2 with
      | none => none
      | some l2 =>
        match l2.emit .tSoyDocEnd with
        | none => none
        | some l3 => some (some .text, l3) := by
  rw [lexSoyDocLoop]
  split
  · rename_i h; rw [hn] at h; exact absurd h (by simp)
  · rename_i r' l1' h
    rw [hn] at h
    simp only [Option.some.injEq, Prod.mk.injEq] at h
    obtain ⟨rfl, rfl⟩ := h
    rw [dif_neg (by decide), if_pos ⟨rfl, rfl⟩]
    rfl

/-- a blank at the start of a line (no `*` before it) is skipped -/
theorem lexSoyDocLoop_sol_space {l l1 : Lexer} {ds : Int} (hn : l.next = some (32, l1)) :
    lexSoyDocLoop l ds false true = lexSoyDocLoop l1 ds false true := by
  rw [lexSoyDocLoop]
  split
  · rename_i h; rw [hn] at h; exact absurd h (by simp)
  · rename_i r' l1' h
    rw [hn] at h
    simp only [Option.some.injEq, Prod.mk.injEq] at h
    obtain ⟨rfl, rfl⟩ := h
    rw [dif_neg (by decide), if_neg (by simp), dif_pos rfl, dif_pos (by decide)]

/-- a `*` at the start of a line (no `*` before it) is skipped and remembered -/
theorem lexSoyDocLoop_sol_star {l l1 : Lexer} {ds : Int} (hn : l.next = some (42, l1)) :
    lexSoyDocLoop l ds false true = lexSoyDocLoop l1 ds true true := by
  rw [lexSoyDocLoop]
  split
  · rename_i h; rw [hn] at h; exact absurd h (by simp)
  · rename_i r' l1' h
    rw [hn] at h
    simp only [Option.some.injEq, Prod.mk.injEq] at h
    obtain ⟨rfl, rfl⟩ := h
    rw [dif_neg (by decide), if_neg (by simp), dif_pos rfl, dif_neg (by decide), dif_pos rfl]

/-- text then `/** */`: ONE `lexText` call sends the text, SoyDocStart, the Text for the blank, SoyDocEnd and
    returns to `lexText` -/
theorem lexText_text_soydoc_min (inp : Array UInt8) (q n : Nat) (w : Int) (dd : Bool) (ts : Int) (le : Item) (its : Array Item)
    (hsz : q + n + 6 ≤ inp.size)
    (htxt : ∀ i, i < n → TextByte (byteAt inp (q + i)) (byteAt inp (q + i + 1)))
    (h1 : byteAt inp (q + n) = 47) (h2 : byteAt inp (q + n + 1) = 42) (h3 : byteAt inp (q + n + 2) = 42)
    (h4 : byteAt inp (q + n + 3) = 32) (h5 : byteAt inp (q + n + 4) = 42) (h6 : byteAt inp (q + n + 5) = 47) :
    ∃ (w' : Int) (dd' : Bool) (ts' : Int) (le' : Item) (its' : Array Item),
      lexText (Lexer.mk inp q q w dd ts le its) =
        some (some .text, Lexer.mk inp ((q + n + 6 : Nat) : Int) ((q + n + 6 : Nat) : Int) w' dd' ts' le' its') ∧
      its'.toList = its.toList ++ textItems inp (q : Int) ((q + n : Nat) : Int) ++
        [⟨.tSoyDocStart, q + n + 3, (inp.extract (q + n) (q + n + 3)).toList⟩] ++
        textItems inp ((q + n + 3 : Nat) : Int) ((q + n + 3 + 1 : Nat) : Int) ++
        [⟨.tSoyDocEnd, q + n + 6, (inp.extract (q + n + 4) (q + n + 6)).toList⟩] := by
  obtain ⟨l', lc', hr, hp⟩ := plainRun_text n (Lexer.mk inp q q w dd ts le its) noChar (by show (0 : Int) ≤ q; omega)
    (by show (q : Int) + n ≤ (inp.size : Int); omega)
    (by intro i hi; show TextByte (byteAt inp ((q : Int).toNat + i)) (byteAt inp ((q : Int).toNat + i + 1))
        simp only [Int.toNat_natCast]; exact htxt i hi)
    (by intro _; show byteAt inp ((q : Int).toNat + n) < 128; simp only [Int.toNat_natCast]; omega)
  have hp' : l'.pos = ((q + n : Nat) : Int) := by rw [hp]; show (q : Int) + n = _; omega
  obtain ⟨_, _, _, hin, _⟩ := lexTextLoop_run hr
  have hin' : l'.input = inp := hin
  have hn := next_ascii (l := l') (by omega) (by simp only [Lexer.len, hin', hp']; omega)
    (by rw [hin', hp']; simp only [Int.toNat_natCast]; omega)
  rw [hin', hp'] at hn
  simp only [Int.toNat_natCast, h1] at hn
  have hn2 := next_ascii (l := { l' with width := 1, pos := ((q + n : Nat) : Int) + 1 })
    (by show (0 : Int) ≤ ((q + n : Nat) : Int) + 1; omega)
    (by show ((q + n : Nat) : Int) + 1 < (l'.input.size : Int); rw [hin']; omega)
    (by show byteAt l'.input (((q + n : Nat) : Int) + 1).toNat < 128
        rw [hin', show (((q + n : Nat) : Int) + 1).toNat = q + n + 1 by omega]; omega)
  have e1 : ({ l' with width := 1, pos := ((q + n : Nat) : Int) + 1 } : Lexer).pos.toNat = q + n + 1 := by
    show (((q + n : Nat) : Int) + 1).toNat = _; omega
  rw [e1] at hn2
  have e2 : ({ l' with width := 1, pos := ((q + n : Nat) : Int) + 1 } : Lexer).input = inp := hin'
  rw [e2, h2] at hn2
  obtain ⟨l3, hit, hp3, hin3, hlx, hst3⟩ := lexText_cut_block hr hn hn2 (by show (0 : Int) ≤ q; omega)
    (by show (q : Int) ≤ q; omega)
  obtain ⟨inp3, p3, s3, w3, dd3, ts3, le3, its3⟩ := l3
  simp only at hit hp3 hin3 hst3
  subst hin3
  have hp3' : p3 = ((q + n + 2 : Nat) : Int) := by
    rw [hp3]; show ((q + n : Nat) : Int) + 1 + 1 = _; omega
  rw [hp'] at hst3 hit
  subst hp3' hst3
  -- the lexer after the closing `/` has been read
  obtain ⟨l5, hm, hit5, hp5, hin5, hst5, _⟩ := maybeEmitText_items
    (l := Lexer.mk inp3 ((q + n + 5 + 1 : Nat) : Int) ((q + n + 3 : Nat) : Int) 1 dd3 ts3
      ⟨.tSoyDocStart, q + n + 3, (inp3.extract (q + n) (q + n + 3)).toList⟩
      (its3.push ⟨.tSoyDocStart, q + n + 3, (inp3.extract (q + n) (q + n + 3)).toList⟩)) (k := 2)
    (by show (0 : Int) ≤ ((q + n + 3 : Nat) : Int); omega)
    (by show ((q + n + 5 + 1 : Nat) : Int) - 2 ≤ (inp3.size : Int); omega)
  obtain ⟨inp5, p5, s5, w5, dd5, ts5, le5, its5⟩ := l5
  simp only at hit5 hp5 hin5 hst5
  subst hin5 hp5
  have hs5 : s5 = ((q + n + 4 : Nat) : Int) := by
    rw [hst5 (by omega)]; omega
  subst hs5
  refine ⟨w5, dd5, ts5, ⟨.tSoyDocEnd, q + n + 6, (inp5.extract (q + n + 4) (q + n + 6)).toList⟩,
    its5.push ⟨.tSoyDocEnd, q + n + 6, (inp5.extract (q + n + 4) (q + n + 6)).toList⟩, ?_, ?_⟩
  · show lexTextLoop _ noChar = _
    rw [hlx]
    unfold afterSlashStar
    rw [next_mk inp5 (q + n + 2) _ w3 dd3 ts3 le3 its3 42 (by omega) h3 (by omega)]
    simp only
    rw [if_pos (by decide)]
    unfold Lexer.peek
    rw [next_mk inp5 (q + n + 2 + 1) _ 1 dd3 ts3 le3 its3 32 (by omega) h4 (by omega)]
    simp only [bind, Option.bind, pure, backup_mk]
    rw [if_neg (by decide)]
    unfold lexSoyDoc
    rw [emit_mk inp5 (q + n) (q + n + 2 + 1) 1 dd3 ts3 le3 its3 .tSoyDocStart (by omega) (by omega)]
    simp only
    rw [lexSoyDocLoop_sol_space (next_mk inp5 (q + n + 2 + 1) _ 1 dd3 ts3 _ _ 32 (by omega) h4 (by omega))]
    rw [lexSoyDocLoop_sol_star (next_mk inp5 (q + n + 2 + 1 + 1) _ 1 dd3 ts3 _ _ 42 (by omega) h5 (by omega))]
    rw [lexSoyDocLoop_end (next_mk inp5 (q + n + 2 + 1 + 1 + 1) _ 1 dd3 ts3 _ _ 47 (by omega) h6 (by omega))]
    rw [show q + n + 2 + 1 + 1 + 1 + 1 = q + n + 5 + 1 by omega, show q + n + 2 + 1 = q + n + 3 by omega, hm]
    simp only
    rw [emit_mk inp5 (q + n + 4) (q + n + 5 + 1) w5 dd5 ts5 le5 its5 .tSoyDocEnd (by omega) (by omega)]
  · simp only [Array.toList_push, hit5, hit]
    rw [show ((q + n + 5 + 1 : Nat) : Int) - 2 = ((q + n + 3 + 1 : Nat) : Int) by omega]

/-- a text run `t` (possibly empty) and the minimal soydoc `/** */` behind it: one state function, THREE items
    behind the text item -/
theorem soydoc_min_run {inp : Array UInt8} {q : Nat} {t post : Bytes} (ht : t = [] ∨ textOK t)
    (hlast : (t.getD (t.length - 1) 0).toNat ≠ 47)
    (h : Holds inp q (t ++ ([47, 42, 42, 32, 42, 47] ++ post))) (f : Nat) (w : Int) (dd : Bool) (ts : Int) (le : Item)
    (its : Array Item) :
    ∃ (w' : Int) (dd' : Bool) (ts' : Int) (le' : Item) (its' : Array Item),
      run (f + 1) .text (Lexer.mk inp q q w dd ts le its) =
        run f .text (Lexer.mk inp ((q + t.length + 6 : Nat) : Int) ((q + t.length + 6 : Nat) : Int)
          w' dd' ts' le' its') ∧
      its'.toList = its.toList ++ textItem t (q + t.length) ++
        [⟨.tSoyDocStart, q + t.length + 3, [47, 42, 42]⟩, ⟨.tText, q + t.length + 4, [32]⟩,
         ⟨.tSoyDocEnd, q + t.length + 6, [42, 47]⟩] := by
  obtain ⟨ht', hcm⟩ := h.append
  obtain ⟨hsrc, _⟩ := hcm.append
  have hA : Holds inp (q + t.length) ([47, 42, 42] ++ [32, 42, 47]) := hsrc
  obtain ⟨hA1, hA2⟩ := hA.append
  have hB : Holds inp (q + t.length + 3) ([32] ++ [42, 47]) := hA2
  obtain ⟨hB1, hB2⟩ := hB.append
  obtain ⟨h0, hb0, r1⟩ := hsrc.cons
  obtain ⟨_, hb1, r2⟩ := r1.cons
  obtain ⟨_, hb2, r3⟩ := r2.cons
  obtain ⟨_, hb3, r4⟩ := r3.cons
  obtain ⟨_, hb4, r5⟩ := r4.cons
  obtain ⟨h5', hb5, _⟩ := r5.cons
  obtain ⟨w', dd', ts', le', its', hlx, hits⟩ := lexText_text_soydoc_min inp q t.length w dd ts le its (by omega)
    (text_bytes ht' ht (Or.inl hlast)) hb0 hb1 hb2 hb3 hb4 hb5
  refine ⟨w', dd', ts', le', its', ?_, ?_⟩
  · rw [run_succ (f := f) (show step .text _ = _ from hlx)]
  · rw [hits, textItems_holds ht']
    have e1 := hA1.extract
    have e2 := hB2.extract
    have e3 := textItems_holds hB1
    simp only [List.length_cons, List.length_nil] at e1 e2 e3
    rw [show q + t.length + (0 + 1 + 1 + 1) = q + t.length + 3 by omega] at e1
    rw [show q + t.length + 3 + 1 = q + t.length + 4 by omega,
      show q + t.length + 4 + (0 + 1 + 1) = q + t.length + 6 by omega] at e2
    rw [show q + t.length + 3 + (0 + 1) = q + t.length + 3 + 1 by omega] at e3
    rw [e1, e2, e3]
    have hsp : allSpaceWithNewline [32] = false := by
      unfold allSpaceWithNewline
      have hd : decodeRune [32].toArray 0 = (32, 1) := by decide
      rw [allSpaceLoop, dif_pos (by decide)]
      simp only [hd]
      rw [allSpaceLoop, dif_neg (by decide)]
      decide
    simp [textItem, dropped, hsp]

end SoyVerif.Props.C17e
