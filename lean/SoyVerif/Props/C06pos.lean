/-
  C06 (positions): every node position the renderer can slice the source with lies inside
  the source — `posOk`, the hypothesis of `Props/C06.execute_contract`, holds for parser output.

  `errRecover` → `errFromNode` evaluates `src[:node.Position()]`; a position beyond `len(src)`
  would panic inside the deferred handler and escape `Render`.  The parser models carry, as a
  post-condition of every function (Lemmas/ParserPos `EP` / `NP`, threaded through
  Lemmas/ParserExprSafe, FileParserLoops, FileParserBlocks), that every node of a successfully
  built tree is positioned at a token the parser was given:

  * the expression parser puts every node at the token that begins it (or, for a binary
    operator, at the operator token; a ternary at its condition);
  * the command parsers put every node at the command's token, a list at its first token;
  * `parseQuotedExpr` (data="…", value="…", {css e, …}) parses the attribute text with a nested
    scanner and then MOVES the whole tree to the enclosing parser's current token
    (`setPos`, /repo 4a8a189 — before, those nodes carried offsets into the unquoted attribute
    text, which can be longer than the file: `Render` panicked);
  * `placeholderize` / `parseMsgRawText` give every piece of a message text the position of
    that text (/repo a9dace7 — before, position + offset, past the end of the token).

  Every token of the lexer lies inside the input (`lex_items`), hence:

  * `parsed_positions_in_input` — every position of every node of `soyFile input`'s result is
    ≤ |input| (`NP` with "positioned at an item at most |input|");
  * `toCmd_positions` … — the same over the converted tree (`Node.toCmd?` → `Cmd`), for exactly the
    positions `Eval.posCmd` / `posBlock` collect;
  * `add_posOk`, `soyFile_posOk` — `posOk t` for every template `Registry.add` registers from a
    parsed file (given it holds for the templates registered before).
-/
import SoyVerif.Props.C05parse
import SoyVerif.Model.FileParserAst
import SoyVerif.Model.Eval
import SoyVerif.Props.C06

namespace SoyVerif.Props.C06pos
open SoyVerif SoyVerif.Model SoyVerif.Model.FileParser SoyVerif.Model.Eval SoyVerif.Lemmas.ParserSafe

/-- all positions of the list are positions of `S`-tokens -/
def AllOK (S : Item → Prop) (l : List Nat) : Prop := ∀ p ∈ l, PosOK S p

theorem allOK_nil {S : Item → Prop} : AllOK S [] := fun _ h => absurd h (by simp)
theorem allOK_cons {S : Item → Prop} {p : Nat} {l : List Nat} (hp : PosOK S p) (hl : AllOK S l) : AllOK S (p :: l) := by
  intro q hq
  rcases List.mem_cons.mp hq with h | h
  · rw [h]; exact hp
  · exact hl q h
theorem allOK_append {S : Item → Prop} {a b : List Nat} (ha : AllOK S a) (hb : AllOK S b) : AllOK S (a ++ b) := by
  intro q hq
  rcases List.mem_append.mp hq with h | h
  · exact ha q h
  · exact hb q h
theorem allOK_single {S : Item → Prop} {p : Nat} (hp : PosOK S p) : AllOK S [p] := allOK_cons hp allOK_nil

/-! ### expressions -/

mutual
  theorem posE_ok {S : Item → Prop} : ∀ e : Expr, EP S e → AllOK S (posE e)
    | .null _, h | .bool _ _, h | .int _ _, h | .float _ _, h | .str _ _ _, h | .global _ _, h => by
      simp only [EP] at h; simp only [posE]; exact allOK_single h
    | .func _ _ args, h => by
      simp only [EP] at h; simp only [posE]; exact allOK_cons h.1 (posEs_ok args h.2)
    | .list _ items, h => by
      simp only [EP] at h; simp only [posE]; exact allOK_cons h.1 (posEs_ok items h.2)
    | .map _ items, h => by
      simp only [EP] at h; simp only [posE]; exact allOK_cons h.1 (posM_ok items h.2)
    | .dataRef _ _ acc, h => by
      simp only [EP] at h; simp only [posE]; exact allOK_cons h.1 (posA_ok acc h.2)
    | .not _ a, h => by simp only [EP] at h; simp only [posE]; exact allOK_cons h.1 (posE_ok a h.2)
    | .neg _ a, h => by simp only [EP] at h; simp only [posE]; exact allOK_cons h.1 (posE_ok a h.2)
    | .bin _ _ a b, h => by
      simp only [EP] at h; simp only [posE]
      exact allOK_cons h.1 (allOK_append (posE_ok a h.2.1) (posE_ok b h.2.2))
    | .tern _ c a b, h => by
      simp only [EP] at h; simp only [posE]
      exact allOK_cons h.1 (allOK_append (posE_ok c h.2.1) (allOK_append (posE_ok a h.2.2.1) (posE_ok b h.2.2.2)))
  theorem posEs_ok {S : Item → Prop} : ∀ l : ExprList, EPs S l → AllOK S (posEs l)
    | .nil, _ => by simp only [posEs]; exact allOK_nil
    | .cons e r, h => by
      simp only [EPs] at h; simp only [posEs]; exact allOK_append (posE_ok e h.1) (posEs_ok r h.2)
  theorem posM_ok {S : Item → Prop} : ∀ m : MapItems, EPm S m → AllOK S (posM m)
    | .nil, _ => by simp only [posM]; exact allOK_nil
    | .cons _ e r, h => by
      simp only [EPm] at h; simp only [posM]; exact allOK_append (posE_ok e h.1) (posM_ok r h.2)
  theorem posA_ok {S : Item → Prop} : ∀ a : AccessList, EPa S a → AllOK S (posA a)
    | .nil, _ => by simp only [posA]; exact allOK_nil
    | .cons (.key _ _ _) r, h => by simp only [EPa] at h; simp only [posA]; exact posA_ok r h.2
    | .cons (.index _ _ _) r, h => by simp only [EPa] at h; simp only [posA]; exact posA_ok r h.2
    | .cons (.expr _ _ e) r, h => by
      simp only [EPa] at h; simp only [posA]; exact allOK_append (posE_ok e h.2.1) (posA_ok r h.2.2)
end

theorem posOpt_ok {S : Item → Prop} : ∀ e : Option Expr, EPo S e → AllOK S (posOpt e)
  | none, _ => by simp only [posOpt]; exact allOK_nil
  | some e, h => by simp only [EPo] at h; simp only [posOpt]; exact posE_ok e h

theorem posList_ok {S : Item → Prop} : ∀ l : List Expr, EPl S l → AllOK S (posList l)
  | [], _ => by simp only [posList]; exact allOK_nil
  | e :: r, h => by
    simp only [posList]
    exact allOK_append (posE_ok e (h e (by simp))) (posList_ok r (fun x hx => h x (by simp [hx])))

theorem posDirs_ok {S : Item → Prop} : ∀ l : List Directive, DirsP S l → AllOK S (posDirs l)
  | [], _ => by simp only [posDirs]; exact allOK_nil
  | d :: r, h => by
    simp only [posDirs]
    exact allOK_append (posList_ok d.args (h d (by simp)).2) (posDirs_ok r (fun x hx => h x (by simp [hx])))

/-! ### commands: the converted tree -/

mutual
  theorem toCmd_pos {S : Item → Prop} : ∀ (n : Node) (c : Cmd), n.toCmd? = some c → NP S n → AllOK S (posCmd c)
    | .rawText p t, c, h, hn => by
      simp only [Node.toCmd?, Option.some.injEq] at h; subst h
      simp only [NP] at hn; simp only [posCmd]; exact allOK_single hn
    | .print p a ds, c, h, hn => by
      simp only [Node.toCmd?, Option.some.injEq] at h; subst h
      simp only [NP] at hn; simp only [posCmd]
      exact allOK_cons hn.1 (allOK_append (posE_ok a hn.2.1) (posDirs_ok ds hn.2.2))
    | .msg p m d body, c, h, hn => by
      simp only [NP] at hn
      unfold Node.toCmd? at h
      split at h
      · rename_i bp ns
        simp only [Option.map_eq_some_iff] at h
        obtain ⟨parts, hp, rfl⟩ := h
        have hb := hn.2
        simp only [NP] at hb
        simp only [posCmd]
        exact allOK_cons hn.1 (toParts_pos ns parts hp hb.2)
      · exact absurd h (by simp)
    | .css p e s, c, h, hn => by
      simp only [Node.toCmd?, Option.some.injEq] at h; subst h
      simp only [NP] at hn; simp only [posCmd]; exact allOK_cons hn.1 (posOpt_ok e hn.2)
    | .debugger p, c, h, hn => by
      simp only [Node.toCmd?, Option.some.injEq] at h; subst h
      simp only [NP] at hn; simp only [posCmd]; exact allOK_single hn
    | .log p b, c, h, hn => by
      simp only [Node.toCmd?, Option.map_eq_some_iff] at h
      obtain ⟨b', hb, rfl⟩ := h
      simp only [NP] at hn; simp only [posCmd]; exact allOK_cons hn.1 (toBlock_pos b b' hb hn.2)
    | .ifc p conds, c, h, hn => by
      simp only [Node.toCmd?, Option.map_eq_some_iff] at h
      obtain ⟨cs, hc, rfl⟩ := h
      simp only [NP] at hn; simp only [posCmd]; exact allOK_cons hn.1 (toConds_pos conds cs hc hn.2)
    | .forc p v l b .nil, c, h, hn => by
      simp only [Node.toCmd?, Option.map_eq_some_iff] at h
      obtain ⟨b', hb, rfl⟩ := h
      simp only [NP] at hn; simp only [posCmd]
      exact allOK_cons hn.1 (allOK_append (posE_ok l hn.2.1) (allOK_append (toBlock_pos b b' hb hn.2.2.1) allOK_nil))
    | .forc p v l b (.cons e r), c, h, hn => by
      simp only [NP] at hn
      unfold Node.toCmd? at h
      split at h
      · rename_i b' e' hb he
        simp only [Option.some.injEq] at h; subst h
        have hie := hn.2.2.2
        simp only [NPL] at hie
        simp only [posCmd]
        exact allOK_cons hn.1 (allOK_append (posE_ok l hn.2.1)
          (allOK_append (toBlock_pos b b' hb hn.2.2.1) (toBlock_pos e e' he hie.1)))
      · exact absurd h (by simp)
    | .switch p v cases, c, h, hn => by
      simp only [Node.toCmd?, Option.map_eq_some_iff] at h
      obtain ⟨cs, hc, rfl⟩ := h
      simp only [NP] at hn; simp only [posCmd]
      exact allOK_cons hn.1 (allOK_append (posE_ok v hn.2.1) (toCases_pos cases cs hc hn.2.2))
    | .call p nm all d params, c, h, hn => by
      simp only [Node.toCmd?, Option.map_eq_some_iff] at h
      obtain ⟨ps, hp, rfl⟩ := h
      simp only [NP] at hn; simp only [posCmd]
      exact allOK_cons hn.1 (allOK_append (posOpt_ok d hn.2.1) (toParams_pos params ps hp hn.2.2))
    | .letValue p nm e, c, h, hn => by
      simp only [Node.toCmd?, Option.some.injEq] at h; subst h
      simp only [NP] at hn; simp only [posCmd]; exact allOK_cons hn.1 (posE_ok e hn.2)
    | .letContent p nm b, c, h, hn => by
      simp only [Node.toCmd?, Option.map_eq_some_iff] at h
      obtain ⟨b', hb, rfl⟩ := h
      simp only [NP] at hn; simp only [posCmd]; exact allOK_cons hn.1 (toBlock_pos b b' hb hn.2)
    | .headerParam p o nm tp t d, c, h, hn => by
      simp only [Node.toCmd?, Option.some.injEq] at h; subst h
      simp only [NP] at hn; simp only [posCmd]; exact allOK_single hn.1
    | .nspace p nm ae, c, h, hn => by
      simp only [Node.toCmd?, Option.some.injEq] at h; subst h
      simp only [NP] at hn; simp only [posCmd]; exact allOK_single hn
    | .template p nm b ae pr, c, h, hn => by
      simp only [Node.toCmd?, Option.map_eq_some_iff] at h
      obtain ⟨b', hb, rfl⟩ := h
      simp only [NP] at hn; simp only [posCmd]; exact allOK_single hn.1
    | .soyDoc p ps, c, h, hn => by
      simp only [Node.toCmd?, Option.some.injEq] at h; subst h
      simp only [NP] at hn; simp only [posCmd]; exact allOK_single hn
    | .ifCond .., _, h, _ | .switchCase .., _, h, _ | .paramValue .., _, h, _ | .paramContent .., _, h, _
    | .list .., _, h, _ | .plural .., _, h, _ | .pluralCase .., _, h, _ | .placeholder .., _, h, _
    | .htmlTag .., _, h, _ => by simp [Node.toCmd?] at h
  theorem toBlock_pos {S : Item → Prop} : ∀ (n : Node) (b : Block), toBlock? n = some b → NP S n → AllOK S (posBlock b)
    | .list p ns, b, h, hn => by
      simp only [toBlock?, Option.map_eq_some_iff] at h
      obtain ⟨cs, hc, rfl⟩ := h
      simp only [NP] at hn; simp only [posBlock]; exact allOK_cons hn.1 (toCmds_pos ns cs hc hn.2)
    | .rawText .., _, h, _ | .print .., _, h, _ | .msg .., _, h, _ | .css .., _, h, _ | .debugger .., _, h, _
    | .log .., _, h, _ | .ifc .., _, h, _ | .ifCond .., _, h, _ | .forc .., _, h, _ | .switch .., _, h, _
    | .switchCase .., _, h, _ | .call .., _, h, _ | .paramValue .., _, h, _ | .paramContent .., _, h, _
    | .letValue .., _, h, _ | .letContent .., _, h, _ | .headerParam .., _, h, _ | .nspace .., _, h, _
    | .template .., _, h, _ | .soyDoc .., _, h, _ | .plural .., _, h, _ | .pluralCase .., _, h, _
    | .placeholder .., _, h, _ | .htmlTag .., _, h, _ => by simp [toBlock?] at h
  theorem toCmds_pos {S : Item → Prop} : ∀ (ns : NodeList) (cs : CmdList), toCmds? ns = some cs → NPL S ns →
      AllOK S (posCmds cs)
    | .nil, cs, h, _ => by
      simp only [toCmds?, Option.some.injEq] at h; subst h; simp only [posCmds]; exact allOK_nil
    | .cons n r, cs, h, hn => by
      simp only [NPL] at hn
      unfold toCmds? at h
      split at h
      · rename_i c cs' hc hcs
        simp only [Option.some.injEq] at h; subst h
        simp only [posCmds]
        exact allOK_append (toCmd_pos n c hc hn.1) (toCmds_pos r cs' hcs hn.2)
      · exact absurd h (by simp)
  theorem toConds_pos {S : Item → Prop} : ∀ (ns : NodeList) (cs : CondList), toConds? ns = some cs → NPL S ns →
      AllOK S (posConds cs)
    | .nil, cs, h, _ => by
      simp only [toConds?, Option.some.injEq] at h; subst h; simp only [posConds]; exact allOK_nil
    | .cons n r, cs, h, hn => by
      simp only [NPL] at hn
      unfold toConds? at h
      split at h
      · rename_i p c b
        split at h
        · rename_i b' r' hb hr
          simp only [Option.some.injEq] at h; subst h
          have hc := hn.1
          simp only [NP] at hc
          simp only [posConds]
          exact allOK_append (posOpt_ok c hc.2.1) (allOK_append (toBlock_pos b b' hb hc.2.2) (toConds_pos r r' hr hn.2))
        · exact absurd h (by simp)
      · exact absurd h (by simp)
  theorem toCases_pos {S : Item → Prop} : ∀ (ns : NodeList) (cs : CaseList), toCases? ns = some cs → NPL S ns →
      AllOK S (posCases cs)
    | .nil, cs, h, _ => by
      simp only [toCases?, Option.some.injEq] at h; subst h; simp only [posCases]; exact allOK_nil
    | .cons n r, cs, h, hn => by
      simp only [NPL] at hn
      unfold toCases? at h
      split at h
      · rename_i p vs b
        split at h
        · rename_i b' r' hb hr
          simp only [Option.some.injEq] at h; subst h
          have hc := hn.1
          simp only [NP] at hc
          simp only [posCases]
          exact allOK_append (posList_ok vs hc.2.1) (allOK_append (toBlock_pos b b' hb hc.2.2) (toCases_pos r r' hr hn.2))
        · exact absurd h (by simp)
      · exact absurd h (by simp)
  theorem toParams_pos {S : Item → Prop} : ∀ (ns : NodeList) (ps : ParamList), toParams? ns = some ps → NPL S ns →
      AllOK S (posParams ps)
    | .nil, ps, h, _ => by
      simp only [toParams?, Option.some.injEq] at h; subst h; simp only [posParams]; exact allOK_nil
    | .cons n r, ps, h, hn => by
      simp only [NPL] at hn
      unfold toParams? at h
      split at h
      · rename_i p k e
        simp only [Option.map_eq_some_iff] at h
        obtain ⟨r', hr, rfl⟩ := h
        have hc := hn.1
        simp only [NP] at hc
        simp only [posParams]
        exact allOK_append (posE_ok e hc.2) (toParams_pos r r' hr hn.2)
      · rename_i p k b
        split at h
        · rename_i b' r' hb hr
          simp only [Option.some.injEq] at h; subst h
          have hc := hn.1
          simp only [NP] at hc
          simp only [posParams]
          exact allOK_append (toBlock_pos b b' hb hc.2) (toParams_pos r r' hr hn.2)
        · exact absurd h (by simp)
      · exact absurd h (by simp)
  theorem toParts_pos {S : Item → Prop} : ∀ (ns : NodeList) (ps : MsgParts), toParts? ns = some ps → NPL S ns →
      AllOK S (posParts ps)
    | .nil, ps, h, _ => by
      simp only [toParts?, Option.some.injEq] at h; subst h; simp only [posParts]; exact allOK_nil
    | .cons n r, ps, h, hn => by
      simp only [NPL] at hn
      unfold toParts? at h
      split at h
      · rename_i p t
        simp only [Option.map_eq_some_iff] at h
        obtain ⟨r', hr, rfl⟩ := h
        have hc := hn.1
        simp only [NP] at hc
        simp only [posParts]
        exact allOK_cons hc (toParts_pos r r' hr hn.2)
      · rename_i p body
        have hc := hn.1
        simp only [NP] at hc
        split at h
        · rename_i tp t
          simp only [Option.map_eq_some_iff] at h
          obtain ⟨r', hr, rfl⟩ := h
          have hb := hc.2
          simp only [NP] at hb
          simp only [posParts, posPh]
          exact allOK_append (allOK_single hb) (toParts_pos r r' hr hn.2)
        · split at h
          · rename_i c r' hcm hr
            simp only [Option.some.injEq] at h; subst h
            simp only [posParts, posPh]
            exact allOK_append (toCmd_pos body c hcm hc.2) (toParts_pos r r' hr hn.2)
          · exact absurd h (by simp)
      · rename_i p v cases dflt
        have hc := hn.1
        simp only [NP] at hc
        split at h
        · rename_i dp dns
          split at h
          · rename_i cs d r' hcs hd hr
            simp only [Option.some.injEq] at h; subst h
            have hdn := hc.2.2.2
            simp only [NP] at hdn
            simp only [posParts]
            exact allOK_append (posE_ok v hc.2.1) (allOK_append (toPlCases_pos cases cs hcs hc.2.2.1)
              (allOK_append (toParts_pos dns d hd hdn.2) (toParts_pos r r' hr hn.2)))
          · exact absurd h (by simp)
        · exact absurd h (by simp)
      · exact absurd h (by simp)
  theorem toPlCases_pos {S : Item → Prop} : ∀ (ns : NodeList) (cs : PluralCases), toPlCases? ns = some cs → NPL S ns →
      AllOK S (posPl cs)
    | .nil, cs, h, _ => by
      simp only [toPlCases?, Option.some.injEq] at h; subst h; simp only [posPl]; exact allOK_nil
    | .cons n r, cs, h, hn => by
      simp only [NPL] at hn
      unfold toPlCases? at h
      split at h
      · rename_i p v body
        have hc := hn.1
        simp only [NP] at hc
        split at h
        · rename_i bp bns
          split at h
          · rename_i b r' hb hr
            simp only [Option.some.injEq] at h; subst h
            have hbn := hc.2
            simp only [NP] at hbn
            simp only [posPl]
            exact allOK_append (toParts_pos bns b hb hbn.2) (toPlCases_pos r r' hr hn.2)
          · exact absurd h (by simp)
        · exact absurd h (by simp)
      · exact absurd h (by simp)
end

/-! ### the parser's output -/

theorem NPL_toList {S : Item → Prop} : ∀ ns : NodeList, NPL S ns → ∀ n ∈ ns.toList, NP S n
  | .nil, _, n, h => by simp [NodeList.toList] at h
  | .cons c r, hn, n, h => by
    simp only [NPL] at hn
    simp only [NodeList.toList, List.mem_cons] at h
    rcases h with h | h
    · rw [h]; exact hn.1
    · exact NPL_toList r hn.2 n h

/-- "at most `B`" as a token predicate -/
def Below (B : Nat) : Item → Prop := fun it => it.pos ≤ B

theorem posOK_below {B p : Nat} : PosOK (Below B) p ↔ p ≤ B :=
  ⟨fun ⟨it, h, e⟩ => e ▸ h, fun h => ⟨⟨.tInvalid, p, []⟩, h, rfl⟩⟩

/-- every node of the tree the file parser builds from tokens positioned at most `B` is
    positioned at most `B` -/
theorem parseFile_positions (pf : Bytes → Option UInt64) (items : List Item) (B : Nat)
    (hb : ∀ it ∈ items, it.pos ≤ B) (nodes : List Node)
    (h : parseFile pf (exprFuel items) items = .ok nodes) : ∀ n ∈ nodes, NP (Below B) n := by
  have hsafe := C05.top_safe pf True ⟨False, False⟩ (Below B) (Nat.zero_le B) items hb
    (fun _ _ => Or.inl trivial) (fun _ _ _ _ _ => Or.inl trivial) (fun h => absurd h id) (fun h => absurd h id)
  unfold FSafe at hsafe
  unfold parseFile at h
  simp only [StateT.run] at h
  split at h
  · rename_i p ns st' he
    rw [he] at hsafe
    simp only [Except.ok.injEq] at h
    subst h
    have hn := hsafe.2.2
    simp only [NP] at hn
    exact NPL_toList ns hn.2
  · exact absurd h (by simp)
  · exact absurd h (by simp)

/-- `parse.SoyFile(name, input)`: every node of the result — commands, lists, expressions, the
    expressions of quoted attributes, the pieces of message texts — is positioned inside the
    input.  No exception. -/
theorem parsed_positions_in_input (pf : Bytes → Option UInt64) (input : Bytes) (nodes : List Node)
    (h : parseSource pf input = .ok nodes) : ∀ n ∈ nodes, NP (Below input.length) n := by
  unfold parseSource at h
  obtain ⟨is, hl, _, hb, _⟩ := C05.lex_items input false
  rw [hl] at h
  exact parseFile_positions pf is input.length (fun it hit => by have := hb it hit; omega) nodes h

theorem soyFile_positions_in_input (input : Bytes) (nodes : List Node) (h : soyFile input = .ok nodes) :
    ∀ n ∈ nodes, NP (Below input.length) n := parsed_positions_in_input parseFloat64 input nodes h

/-- only a template node converts to a template command -/
theorem toCmd_template {n : Node} {p : Nat} {nm : Bytes} {b : Block} {ae : Autoescape} {pr : Bool}
    (hc : n.toCmd? = some (.template p nm b ae pr)) :
    ∃ body, n = .template p nm body ae pr ∧ toBlock? body = some b := by
  cases n with
  | template p' nm' body ae' pr' =>
    simp only [Node.toCmd?, Option.map_eq_some_iff, Option.some.injEq, Cmd.template.injEq] at hc
    obtain ⟨b', hb, rfl, rfl, rfl, rfl, rfl⟩ := hc
    exact ⟨body, rfl, hb⟩
  | msg p' m d body => cases body <;> simp [Node.toCmd?] at hc
  | forc p' v l body ie =>
    cases ie with
    | nil => simp [Node.toCmd?] at hc
    | cons e r =>
      unfold Node.toCmd? at hc
      split at hc <;> simp at hc
  | _ => simp [Node.toCmd?] at hc

/-- over the converted tree: exactly the positions `Eval.posCmd` collects, and for a template
    also those of its body (`posBlock`) -/
theorem toCmd_positions (input : Bytes) (nodes : List Node) (h : soyFile input = .ok nodes)
    (n : Node) (hn : n ∈ nodes) (c : Cmd) (hc : n.toCmd? = some c) :
    (∀ p ∈ posCmd c, p ≤ input.length) ∧
    (∀ p nm b ae pr, c = .template p nm b ae pr → ∀ q ∈ posBlock b, q ≤ input.length) := by
  have hnp := soyFile_positions_in_input input nodes h n hn
  refine ⟨fun p hp => posOK_below.mp (toCmd_pos n c hc hnp p hp), ?_⟩
  intro p nm b ae pr he q hq
  subst he
  obtain ⟨body, rfl, hb⟩ := toCmd_template hc
  simp only [NP] at hnp
  exact posOK_below.mp (toBlock_pos _ _ hb hnp.2 q hq)

/-! ### the registry: `posOk` for the templates of a parsed file -/

theorem mapM_some_mem {α β : Type} (f : α → Option β) : ∀ (l : List α) (r : List β), l.mapM f = some r →
    ∀ c ∈ r, ∃ n ∈ l, f n = some c
  | [], r, h, c, hc => by
    simp only [List.mapM_nil, Option.pure_def, Option.some.injEq] at h
    subst h; simp at hc
  | a :: l, r, h, c, hc => by
    simp only [List.mapM_cons, Option.pure_def, Option.bind_eq_bind] at h
    cases hfa : f a with
    | none => rw [hfa] at h; simp at h
    | some b =>
      rw [hfa] at h
      cases hl : l.mapM f with
      | none => rw [hl] at h; simp at h
      | some bs =>
        rw [hl] at h
        simp only [Option.bind_some, Option.some.injEq] at h
        subst h
        rcases List.mem_cons.mp hc with e | e
        · exact ⟨a, by simp, by rw [hfa, e]⟩
        · obtain ⟨n, hn, hfn⟩ := mapM_some_mem f l bs hl c e
          exact ⟨n, by simp [hn], hfn⟩

/-- a template command whose own position and whose body lie within `L` -/
def TmplWithin (L : Nat) (c : Cmd) : Prop :=
  ∀ p nm b ae pr, c = .template p nm b ae pr → p ≤ L ∧ ∀ q ∈ posBlock b, q ≤ L

theorem splitHeaderParams_pos : ∀ (cmds : CmdList) (q : Nat),
    q ∈ posCmds (Registry.splitHeaderParams cmds).2 → q ∈ posCmds cmds
  | .nil, q, h => by simpa [Registry.splitHeaderParams] using h
  | .cons c rest, q, h => by
    cases c with
    | headerParam p o nm tp t d =>
      simp only [Registry.splitHeaderParams] at h
      simp only [posCmds, List.mem_append]
      exact Or.inr (splitHeaderParams_pos rest q h)
    | rawText p txt =>
      simp only [Registry.splitHeaderParams] at h
      split at h
      · -- a blank: either it stays (no header param follows) or the result is that of the rest
        split at h
        · exact h
        · rename_i ps r _ heq
          simp only [posCmds, List.mem_append]
          exact Or.inr (splitHeaderParams_pos rest q (by rw [heq]; exact h))
      · exact h
    | _ => simpa [Registry.splitHeaderParams] using h

/-- `Registry.Add`'s template loop registers only templates with `posOk` when the file's template
    commands lie within its text -/
theorem addTemplates_posOk (fileName text nsName : Bytes) (nsAe : Autoescape) :
    ∀ (cmds : List Cmd) (prev : Option Cmd) (reg reg' : Registry.Reg),
      (∀ c ∈ cmds, TmplWithin text.length c) → (∀ t ∈ reg, posOk t = true) →
      Registry.addTemplates fileName text nsName nsAe cmds prev reg = some reg' → ∀ t ∈ reg', posOk t = true
  | [], prev, reg, reg', _, hreg, h => by
    simp only [Registry.addTemplates, Option.some.injEq] at h
    subst h; exact hreg
  | c :: rest, prev, reg, reg', hc, hreg, h => by
    unfold Registry.addTemplates at h
    split at h
    · rename_i pos name bpos cmds ae pr
      obtain ⟨hp, hb⟩ := hc _ (by simp) pos name (.mk bpos cmds) ae pr rfl
      have key : ∀ (ps : List Check.Param) (a : Autoescape) (n1 n2 n3 : Bytes) (a2 : Autoescape),
          posOk { name := n1, params := ps, body := .mk bpos (Registry.splitHeaderParams cmds).2, autoescape := a,
                  nsName := n2, nsAutoescape := a2, pos := pos, file := n3, text := text } = true := by
        intro ps a n1 n2 n3 a2
        simp only [posOk, List.all_cons, Bool.and_eq_true, decide_eq_true_eq, List.all_eq_true, posBlock]
        refine ⟨hp, hb bpos (by simp [posBlock]), ?_⟩
        intro q hq
        exact hb q (by simp only [posBlock, List.mem_cons]; exact Or.inr (splitHeaderParams_pos cmds q hq))
      have hstep : ∀ (prev' : Option Cmd) (t : Registry.Tmpl), posOk t = true →
          Registry.addTemplates fileName text nsName nsAe rest prev' (reg ++ [t]) = some reg' →
          ∀ t ∈ reg', posOk t = true := by
        intro prev' t hpt h'
        refine addTemplates_posOk fileName text nsName nsAe rest _ _ reg' (fun c' hc' => hc c' (by simp [hc'])) ?_ h'
        intro t' ht'
        rcases List.mem_append.mp ht' with ht' | ht'
        · exact hreg t' ht'
        · simp only [List.mem_singleton] at ht'
          subst ht'
          exact hpt
      simp only at h
      repeat' split at h
      all_goals first
        | exact hstep _ _ (key _ _ _ _ _ _) h
        | exact absurd h (by simp)
    · exact addTemplates_posOk fileName text nsName nsAe rest _ reg reg' (fun c' hc' => hc c' (by simp [hc'])) hreg h
    · exact addTemplates_posOk fileName text nsName nsAe rest _ reg reg' (fun c' hc' => hc c' (by simp [hc'])) hreg h
    · exact addTemplates_posOk fileName text nsName nsAe rest _ reg reg' (fun c' hc' => hc c' (by simp [hc'])) hreg h
    · cases h

/-- `Registry.Add(parse.SoyFile(name, input))`: every registered template satisfies `posOk` — the
    hypothesis of `Props/C06.execute_contract` — provided the templates registered before do. -/
theorem soyFile_posOk (name input : Bytes) (nodes : List Node) (f : SoyFile) (reg reg' : Registry.Reg)
    (hparse : soyFile input = .ok nodes) (hf : toSoyFile? name input nodes = some f)
    (hreg : ∀ t ∈ reg, posOk t = true) (hadd : Registry.add reg f = some reg') :
    ∀ t ∈ reg', posOk t = true := by
  unfold toSoyFile? at hf
  simp only [Option.map_eq_some_iff] at hf
  obtain ⟨cmds, hm, rfl⟩ := hf
  unfold Registry.add at hadd
  split at hadd
  · exact absurd hadd (by simp)
  · refine addTemplates_posOk _ _ _ _ cmds none reg reg' ?_ hreg hadd
    intro c hc p nm b ae pr he
    obtain ⟨n, hn, hcn⟩ := mapM_some_mem _ nodes cmds hm c hc
    have := toCmd_positions input nodes hparse n hn c hcn
    subst he
    exact ⟨this.1 p (by simp [posCmd]), this.2 p nm b ae pr rfl⟩

/-- a file as `parse.SoyFile` delivers it -/
def Parsed (f : SoyFile) : Prop :=
  ∃ nodes, soyFile f.text = .ok nodes ∧ toSoyFile? f.name f.text nodes = some f

theorem add_posOk (f : SoyFile) (hf : Parsed f) (reg reg' : Registry.Reg) (hreg : ∀ t ∈ reg, posOk t = true)
    (hadd : Registry.add reg f = some reg') : ∀ t ∈ reg', posOk t = true := by
  obtain ⟨nodes, hp, ht⟩ := hf
  exact soyFile_posOk f.name f.text nodes f reg reg' hp ht hreg hadd

/-- a registry filled with parsed files only: every template satisfies `posOk` -/
theorem addAll_posOk : ∀ (fs : List SoyFile) (reg reg' : Registry.Reg), (∀ f ∈ fs, Parsed f) →
    (∀ t ∈ reg, posOk t = true) → Registry.addAll reg fs = some reg' → ∀ t ∈ reg', posOk t = true
  | [], reg, reg', _, hreg, h => by
    simp only [Registry.addAll, Option.some.injEq] at h; subst h; exact hreg
  | f :: fs, reg, reg', hfs, hreg, h => by
    simp only [Registry.addAll] at h
    cases hadd : Registry.add reg f with
    | none => rw [hadd] at h; simp at h
    | some r =>
      rw [hadd] at h
      simp only [Option.bind_some] at h
      exact addAll_posOk fs r reg' (fun f' hf' => hfs f' (by simp [hf'])) (add_posOk f (hfs f (by simp)) reg r hreg hadd) h

/-- `Tofu.Render` on a bundle of PARSED files never panics: the last hypothesis of
    `Props/C06.execute_contract` is discharged — every failure is an error value -/
theorem execute_no_panic_of_parsed (g : GEnv) (fs : List SoyFile) (hfs : ∀ f ∈ fs, Parsed f)
    (hreg : Registry.addAll [] fs = some g.reg) (name : Bytes) (data : Frame) (fuel : Nat) :
    (execute g name data fuel).cls ≠ .panic := by
  apply (C06.execute_contract g name data fuel).2
  intro t ht
  have hall := addAll_posOk fs [] g.reg hfs (fun _ h => absurd h (by simp)) hreg
  exact hall t (List.mem_of_find?_eq_some ht)

/-! ### Non-vacuity -/

/-- `setPos`: the tree of `'a' - 1` parsed from an attribute (offsets 3, 4, 6 in the attribute
    text) moved to the attribute token at 7 -/
example : reposition 7 (.bin .sub 4 (.str 3 [39, 97, 39] [97]) (.int 6 1)) =
    .bin .sub 7 (.str 7 [39, 97, 39] [97]) (.int 7 1) := by rfl

example (e : Expr) : EP (Below 10) (reposition 7 e) := EP_reposition (posOK_below.mpr (by decide)) e

/-- the message text `aa<b>` of a Text token at 100: both pieces stay at 100 (before /repo
    a9dace7 the tag was put at 102) -/
example : (parseMsgRawText 10 100 [97, 97, 60, 98, 62]).toList.map Node.pos = [100, 100] := by rfl

/-- a successful parse: the tokens of `hi`; the one node sits at the Text token -/
example : parseFile (fun _ => none) (exprFuel [⟨.tText, 2, [104, 105]⟩, ⟨.tEOF, 2, []⟩])
    [⟨.tText, 2, [104, 105]⟩, ⟨.tEOF, 2, []⟩] = .ok [.rawText 2 [104, 105]] := by rfl

end SoyVerif.Props.C06pos
