/-
  C03, lifted to the interpreter — which prints are autoescaped.

  Props/C03.lean states the escape decision of ONE print over the string-level directive model
  (Model/Directives: `print_escapes`, `print_plain`, `print_off`, `effectiveMode_off`) and that the
  autoescaper's image is a safe HTML encoding (`htmlEscape_safe`).  Here the same decision is proved for
  the print command as the interpreter model executes it (Model/Eval: `evalPrint`, on VALUES, inside the
  tree walk), at any place of any template reached at any call depth:

  * `print_writes`: a print that succeeds appends exactly
        htmlEscape s   if the mode flag of the walk is on and no directive of the chain (obligatory ones
                       included) has the CancelAutoescape flag,
        s              otherwise,
    where `s` is the text of the final value of the directive chain; in the first case what was written is
    a safe HTML encoding of `s` (`print_safe`).
  * `template_mode`: the mode flag with which a template's body is walked — hence with which every print
    IN THAT TEMPLATE is executed — is that template's own effective mode (`escapeOf t`: its autoescape
    attribute, else its namespace's, else on), `escapeOf_effectiveMode` ties it to Props/C03's
    `effectiveMode`; `print_in_template` combines the two for a print of the template's body.
  * `callee_runs_in_own_mode`: a call hands the callee to `runTmpl`, which walks the callee's body in the
    CALLEE's mode; the caller's mode does not reach it (`call_ignores_caller_mode`: a call whose params
    are values gives the same result under either caller mode) — at every depth, since `runTmpl g (k+1)`
    calls `runTmpl g k`.  Param CONTENT blocks belong to the caller's template and are rendered in the
    caller's mode (they are commands of the caller's body).
-/
import SoyVerif.Lemmas.ExecRefine
import SoyVerif.Props.C03

namespace SoyVerif.Props.C03b
open SoyVerif SoyVerif.Model SoyVerif.Model.Eval SoyVerif.Refine

/-- no directive of the chain that exists in the table has the CancelAutoescape flag -/
def noCancelE (tbl : Directives.Table) (ds : List Directive) : Bool :=
  ds.all fun d => match Directives.lookup tbl d.name with
    | some e => !e.cancel
    | none => true

/-- the escapeHtml flag after the directive loop -/
theorem runDirectives_flag {g : GEnv} {ctx : Scope} :
    ∀ (ds : List Directive) (v : Value) (esc : Bool) (st : St) (v' : Value) (esc' : Bool) (st1 : St),
      runDirectives g ctx ds v esc st = some (v', esc', st1) → esc' = (esc && noCancelE g.tbl ds) := by
  intro ds
  induction ds with
  | nil => intro v esc st v' esc' st1 h; simp [runDirectives] at h; simp [noCancelE, h.2.1]
  | cons d r ih =>
    intro v esc st v' esc' st1 h
    unfold runDirectives at h
    split at h
    · simp at h
    · rename_i entry hl
      split at h
      · simp at h
      · split at h
        · simp at h
        · split at h
          · simp at h
          · have := ih _ _ _ _ _ _ h
            rw [this]
            simp only [noCancelE, List.all_cons, hl]
            cases entry.cancel <;> cases esc <;> simp

/-- what a successful print appends to the output -/
theorem print_writes (g : GEnv) (esc : Bool) (pos : Nat) (arg : Expr) (dirs : List Directive) (ctx : Scope) (st : St)
    (hok : (evalPrint g esc pos arg dirs ctx st).cls = .ok) :
    ∃ s, bufBytes (evalPrint g esc pos arg dirs ctx st).st.out = bufBytes st.out ++
      (if esc && noCancelE g.tbl (dirs ++ obligDirs pos g.oblig) then htmlEscape s else s) := by
  unfold evalPrint at hok ⊢
  have hst : (atNode st (Expr.pos arg)).out = st.out := rfl
  rw [← hst]
  generalize atNode st (Expr.pos arg) = st' at hok ⊢
  unfold evalPrintAt at hok ⊢
  split
  · rename_i h; simp [h] at hok
  · rename_i st1 h; simp [h] at hok
  · rename_i v st1 hv he
    split
    · rename_i hd; simp [he, hd] at hok
    · rename_i r esc' st2 hd
      have hflag := runDirectives_flag _ _ _ _ _ _ _ hd
      have hout : st2.out = st'.out := by rw [C01.runDirectives_out _ _ _ _ _ _ _ hd, C01.evalIn_out he]
      split
      · rename_i hs; simp [he, hd, hs] at hok
      · rename_i s hs
        refine ⟨s, ?_⟩
        rw [← hflag]
        cases esc' with
        | true => simp only [if_true]; rw [bufBytes_writeAll, escChunks_flatten, hout]
        | false => simp only [Bool.false_eq_true, if_false]; rw [bufBytes_write, hout]

/-- with the mode on and no cancelling directive, what the print wrote is a safe HTML encoding of the final
    value's text: none of < > " ' raw, every & starts one of the five references, and it decodes to it -/
theorem print_safe (g : GEnv) (pos : Nat) (arg : Expr) (dirs : List Directive) (ctx : Scope) (st : St)
    (hnc : noCancelE g.tbl (dirs ++ obligDirs pos g.oblig) = true)
    (hok : (evalPrint g true pos arg dirs ctx st).cls = .ok) :
    ∃ s out, bufBytes (evalPrint g true pos arg dirs ctx st).st.out = bufBytes st.out ++ out ∧
      out = htmlEscape s ∧ C03.SafeHtmlEncoding out s := by
  obtain ⟨s, h⟩ := print_writes g true pos arg dirs ctx st hok
  simp only [hnc, Bool.and_self, if_true] at h
  exact ⟨s, htmlEscape s, h, rfl, C03.htmlEscape_safe s⟩

/-- … and with the mode off the final value's text goes out as it is -/
theorem print_raw_when_off (g : GEnv) (pos : Nat) (arg : Expr) (dirs : List Directive) (ctx : Scope) (st : St)
    (hok : (evalPrint g false pos arg dirs ctx st).cls = .ok) :
    ∃ s, bufBytes (evalPrint g false pos arg dirs ctx st).st.out = bufBytes st.out ++ s := by
  obtain ⟨s, h⟩ := print_writes g false pos arg dirs ctx st hok
  exact ⟨s, by simpa using h⟩

/-! ### which mode a print runs in -/

def toMode : Autoescape → Directives.Mode
  | .unspecified => .unspecified
  | .on => .on
  | .off => .off
  | .contextual => .contextual

/-- the walk's mode flag of a template is Props/C03's effective mode (own attribute, else the namespace's,
    else on) being other than Off -/
theorem escapeOf_effectiveMode (t : Registry.Tmpl) :
    escapeOf t = (Directives.effectiveMode (toMode t.nsAutoescape) (toMode t.autoescape) != .off) := by
  unfold escapeOf Directives.effectiveMode
  cases t.autoescape <;> cases t.nsAutoescape <;> rfl

/-- a template's body — at whatever depth the template is reached — is walked in the template's OWN mode -/
theorem template_mode (g : GEnv) (k : Nat) (t : Registry.Tmpl) (ctx : Scope) (st : St) :
    runTmpl g (k + 1) t ctx st = execBody g (escapeOf t) (runTmpl g k) t.body ctx (atNode st t.pos) := rfl

/-- a print command is executed with the mode flag of the walk it occurs in -/
theorem print_uses_walk_mode (g : GEnv) (esc : Bool) (call : Registry.Tmpl → Run) (pos : Nat) (arg : Expr)
    (dirs : List Directive) (ctx : Scope) (st : St) :
    execCmd g esc call (.print pos arg dirs) ctx st = evalPrint g esc pos arg dirs ctx st := by
  rw [execCmd]

/-- a print of template `t`'s body, when `t` runs (as entry template or as a callee at any depth): it
    appends htmlEscape of the chain's final text iff `t`'s effective mode is not Off and no directive
    cancels; otherwise the text itself -/
theorem print_in_template (g : GEnv) (k : Nat) (t : Registry.Tmpl) (pos : Nat) (arg : Expr) (dirs : List Directive)
    (ctx : Scope) (st : St)
    (hok : (execCmd g (escapeOf t) (runTmpl g k) (.print pos arg dirs) ctx st).cls = .ok) :
    ∃ s, bufBytes (execCmd g (escapeOf t) (runTmpl g k) (.print pos arg dirs) ctx st).st.out = bufBytes st.out ++
      (if (Directives.effectiveMode (toMode t.nsAutoescape) (toMode t.autoescape) != .off) &&
          noCancelE g.tbl (dirs ++ obligDirs pos g.oblig) then htmlEscape s else s) := by
  rw [print_uses_walk_mode] at hok ⊢
  rw [← escapeOf_effectiveMode]
  exact print_writes g (escapeOf t) pos arg dirs ctx st hok

/-- params given as values: evaluated, not rendered — the caller's mode plays no role -/
def valueParams : ParamList → Bool
  | .nil => true
  | .value _ _ _ r => valueParams r
  | .content _ _ _ _ => false

theorem execParams_mode (g : GEnv) (e1 e2 : Bool) (call : Registry.Tmpl → Run) :
    ∀ (ps : ParamList), valueParams ps = true → ∀ cd ctx st,
      execParams g e1 call ps cd ctx st = execParams g e2 call ps cd ctx st
  | .nil, _, cd, ctx, st => by rw [execParams, execParams]
  | .value _ key e rest, h, cd, ctx, st => by
    rw [execParams, execParams]
    simp only [valueParams] at h
    split
    · rfl
    · split
      · rfl
      · exact execParams_mode g e1 e2 call rest h _ _ _
  | .content _ _ _ _, h, _, _, _ => by simp [valueParams] at h

/-- the callee runs in ITS mode, not the caller's: a call (with value params) gives the same result whatever
    the caller's mode is — the callee is handed to the runner, and `template_mode` says in which mode the
    runner `runTmpl` walks it -/
theorem call_ignores_caller_mode (g : GEnv) (e1 e2 : Bool) (call : Registry.Tmpl → Run) (p : Nat) (name : Bytes)
    (allData : Bool) (data : Option Expr) (ps : ParamList) (hv : valueParams ps = true) (ctx : Scope) (st : St) :
    execCmd g e1 call (.call p name allData data ps) ctx st = execCmd g e2 call (.call p name allData data ps) ctx st := by
  rw [execCmd, execCmd]
  split
  · rfl
  · split
    · rfl
    · rename_i cd st1 _
      rw [execParams_mode g e1 e2 call ps hv cd ctx st1]

/-- the callee's body is walked in the callee's own mode -/
theorem callee_runs_in_own_mode (g : GEnv) (k : Nat) (callee : Registry.Tmpl) (cctx : Scope) (st : St) :
    runTmpl g (k + 1) callee cctx st =
      execBody g (escapeOf callee) (runTmpl g k) callee.body cctx (atNode st callee.pos) := rfl

/-! ### non-vacuity

  template .t (autoescape on) prints `$x` and calls .c; template .c has autoescape="false" and prints `$x`.
  With x = "<": the caller's print is escaped, the callee's is raw. -/

def tC : Registry.Tmpl :=
  { name := [99], params := [], body := .mk 8 (.cons (.print 9 (.dataRef 10 [120] .nil) []) .nil),
    autoescape := .off, nsName := [110], nsAutoescape := .unspecified, pos := 7, file := [102], text := [] }

def tT : Registry.Tmpl :=
  { name := [116], params := [],
    body := .mk 1 (.cons (.print 2 (.dataRef 3 [120] .nil) []) (.cons (.call 4 [99] true none .nil) .nil)),
    autoescape := .unspecified, nsName := [110], nsAutoescape := .unspecified, pos := 0, file := [102], text := [] }

def g0 : GEnv := { reg := [tT, tC], globals := [], ij := none, msgs := none, tbl := [], oblig := [] }

example : escapeOf tT = true ∧ escapeOf tC = false := by decide
example : (execute g0 [116] [([120], .str [60])] 5).chunks.flatten = [38, 108, 116, 59, 60] := by decide

end SoyVerif.Props.C03b
