/-
  C03, lifted to the interpreter — which prints are autoescaped.

  Props/C03.lean states the escape decision of ONE print over the string-level directive model
  (Model/Directives: `print_escapes`, `print_plain`, `print_off`, `effectiveMode_off`) and that the
  autoescaper's image is a safe HTML encoding (`htmlEscape_safe`).  Here the same decision is proved for
  the print command as the interpreter model executes it (Model/Eval: `evalPrint`, on VALUES, inside the
  tree walk), at any place of any template reached at any call depth:

  * `print_writes`: a print that succeeds appends exactly
        htmlEscape s   if the mode flag of the walk is on and no directive of the chain (obligatory ones
                       included) has the CancelAutoescape flag,
        s              otherwise,
    where `s` is the text of the final value of the directive chain; in the first case what was written is
    a safe HTML encoding of `s` (`print_safe`).
  * `template_mode`: the mode flag with which a template's body is walked — hence with which every print
    IN THAT TEMPLATE is executed — is that template's own effective mode (`escapeOf t`: its autoescape
    attribute, else its namespace's, else on), `escapeOf_effectiveMode` ties it to Props/C03's
    `effectiveMode`; `print_in_template` combines the two for a print of the template's body.
  * `callee_runs_in_own_mode`: a call hands the callee to `runTmpl`, which walks the callee's body in the
    CALLEE's mode; the caller's mode does not reach it (`call_ignores_caller_mode`: a call whose params
    are values gives the same result under either caller mode) — at every depth, since `runTmpl g (k+1)`
    calls `runTmpl g k`.  Param CONTENT blocks belong to the caller's template and are rendered in the
    caller's mode (they are commands of the caller's body).

  Over the execution (second half of the file): `traceTmpl g fuel t ctx st` lists the print commands the
  invocation of `t` reaches — through blocks, loops, switch defaults, {msg} bodies and translations, content
  params and, at every depth, the callees — each with the template it stands in and the mode flag it runs
  with (`PrintEv`); `executeTrace` is the same from `execute`.
  * `prints_run_in_own_mode`: every event has `esc = escapeOf tmpl` — the mode of a print is that of the
    template it is written in, however that template was reached; the prints of a caller after a call
    returned are events of the same list (`local_or_called`).  A content block ({param k}…{/param},
    {let $k}…{/let}) belongs to the template it is written in: its prints are events of the CALLER in the
    caller's mode (`trParams` / `execParams`: `renderBlockOf (execBody g esc call body)` with the caller's
    `esc`); the callee only sees the resulting string.
  * `executed_prints_write` / `executed_prints_escaped` / `execute_prints_escaped`: the property's first
    sentence for every executed print: effective mode not Off and no cancelling directive ⟹ exactly
    `htmlEscape s` is appended, a `SafeHtmlEncoding` of `s`.
  NOT covered: a {template} tag written INSIDE a template body (the parser accepts it, the registry does not
  register it): Go walks its body in the current frame with the mode `the tag's autoescape attribute, else the
  enclosing mode` and restores the enclosing mode afterwards (/repo a6ffafc); Model/Eval answers `error` for
  such a node (the mode flag is a fixed parameter of the model's walk), so the statements here hold for it
  vacuously.  The oracle check C03 `nested-template-switches-escaping-off` covers that construct on the real
  code.
-/
import SoyVerif.Lemmas.ExecRefine
import SoyVerif.Props.C03

namespace SoyVerif.Props.C03b
open SoyVerif SoyVerif.Model SoyVerif.Model.Eval SoyVerif.Refine

/-- no directive of the chain that exists in the table has the CancelAutoescape flag -/
def noCancelE (tbl : Directives.Table) (ds : List Directive) : Bool :=
  ds.all fun d => match Directives.lookup tbl d.name with
    | some e => !e.cancel
    | none => true

/-- the escapeHtml flag after the directive loop -/
theorem runDirectives_flag {g : GEnv} {ctx : Scope} :
    ∀ (ds : List Directive) (v : Value) (esc : Bool) (st : St) (v' : Value) (esc' : Bool) (st1 : St),
      runDirectives g ctx ds v esc st = some (v', esc', st1) → esc' = (esc && noCancelE g.tbl ds) := by
  intro ds
  induction ds with
  | nil => intro v esc st v' esc' st1 h; simp [runDirectives] at h; simp [noCancelE, h.2.1]
  | cons d r ih =>
    intro v esc st v' esc' st1 h
    unfold runDirectives at h
    split at h
    · simp at h
    · rename_i entry hl
      split at h
      · simp at h
      · split at h
        · simp at h
        · split at h
          · simp at h
          · have := ih _ _ _ _ _ _ h
            rw [this]
            simp only [noCancelE, List.all_cons, hl]
            cases entry.cancel <;> cases esc <;> simp

/-- what a successful print appends to the output -/
theorem print_writes (g : GEnv) (esc : Bool) (pos : Nat) (arg : Expr) (dirs : List Directive) (ctx : Scope) (st : St)
    (hok : (evalPrint g esc pos arg dirs ctx st).cls = .ok) :
    ∃ s, bufBytes (evalPrint g esc pos arg dirs ctx st).st.out = bufBytes st.out ++
      (if esc && noCancelE g.tbl (dirs ++ obligDirs pos g.oblig) then htmlEscape s else s) := by
  unfold evalPrint at hok ⊢
  have hst : (atNode st (Expr.pos arg)).out = st.out := rfl
  rw [← hst]
  generalize atNode st (Expr.pos arg) = st' at hok ⊢
  unfold evalPrintAt at hok ⊢
  split
  · rename_i h; simp [h] at hok
  · rename_i st1 h; simp [h] at hok
  · rename_i v st1 hv he
    split
    · rename_i hd; simp [he, hd] at hok
    · rename_i r esc' st2 hd
      have hflag := runDirectives_flag _ _ _ _ _ _ _ hd
      have hout : st2.out = st'.out := by rw [C01.runDirectives_out _ _ _ _ _ _ _ hd, C01.evalIn_out he]
      split
      · rename_i hs; simp [he, hd, hs] at hok
      · rename_i s hs
        refine ⟨s, ?_⟩
        rw [← hflag]
        cases esc' with
        | true => simp only [if_true]; rw [bufBytes_writeAll, escChunks_flatten, hout]
        | false => simp only [Bool.false_eq_true, if_false]; rw [bufBytes_write, hout]

/-- with the mode on and no cancelling directive, what the print wrote is a safe HTML encoding of the final
    value's text: none of < > " ' raw, every & starts one of the five references, and it decodes to it -/
theorem print_safe (g : GEnv) (pos : Nat) (arg : Expr) (dirs : List Directive) (ctx : Scope) (st : St)
    (hnc : noCancelE g.tbl (dirs ++ obligDirs pos g.oblig) = true)
    (hok : (evalPrint g true pos arg dirs ctx st).cls = .ok) :
    ∃ s out, bufBytes (evalPrint g true pos arg dirs ctx st).st.out = bufBytes st.out ++ out ∧
      out = htmlEscape s ∧ C03.SafeHtmlEncoding out s := by
  obtain ⟨s, h⟩ := print_writes g true pos arg dirs ctx st hok
  simp only [hnc, Bool.and_self, if_true] at h
  exact ⟨s, htmlEscape s, h, rfl, C03.htmlEscape_safe s⟩

/-- … and with the mode off the final value's text goes out as it is -/
theorem print_raw_when_off (g : GEnv) (pos : Nat) (arg : Expr) (dirs : List Directive) (ctx : Scope) (st : St)
    (hok : (evalPrint g false pos arg dirs ctx st).cls = .ok) :
    ∃ s, bufBytes (evalPrint g false pos arg dirs ctx st).st.out = bufBytes st.out ++ s := by
  obtain ⟨s, h⟩ := print_writes g false pos arg dirs ctx st hok
  exact ⟨s, by simpa using h⟩

/-! ### which mode a print runs in -/

def toMode : Autoescape → Directives.Mode
  | .unspecified => .unspecified
  | .on => .on
  | .off => .off
  | .contextual => .contextual

/-- the walk's mode flag of a template is Props/C03's effective mode (own attribute, else the namespace's,
    else on) being other than Off -/
theorem escapeOf_effectiveMode (t : Registry.Tmpl) :
    escapeOf t = (Directives.effectiveMode (toMode t.nsAutoescape) (toMode t.autoescape) != .off) := by
  unfold escapeOf Directives.effectiveMode
  cases t.autoescape <;> cases t.nsAutoescape <;> rfl

/-- a template's body — at whatever depth the template is reached — is walked in the template's OWN mode -/
theorem template_mode (g : GEnv) (k : Nat) (t : Registry.Tmpl) (ctx : Scope) (st : St) :
    runTmpl g (k + 1) t ctx st = execBody g (escapeOf t) (runTmpl g k) t.body ctx (atNode st t.pos) := rfl

/-- a print command is executed with the mode flag of the walk it occurs in -/
theorem print_uses_walk_mode (g : GEnv) (esc : Bool) (call : Registry.Tmpl → Run) (pos : Nat) (arg : Expr)
    (dirs : List Directive) (ctx : Scope) (st : St) :
    execCmd g esc call (.print pos arg dirs) ctx st = evalPrint g esc pos arg dirs ctx st := by
  rw [execCmd]

/-- a print of template `t`'s body, when `t` runs (as entry template or as a callee at any depth): it
    appends htmlEscape of the chain's final text iff `t`'s effective mode is not Off and no directive
    cancels; otherwise the text itself -/
theorem print_in_template (g : GEnv) (k : Nat) (t : Registry.Tmpl) (pos : Nat) (arg : Expr) (dirs : List Directive)
    (ctx : Scope) (st : St)
    (hok : (execCmd g (escapeOf t) (runTmpl g k) (.print pos arg dirs) ctx st).cls = .ok) :
    ∃ s, bufBytes (execCmd g (escapeOf t) (runTmpl g k) (.print pos arg dirs) ctx st).st.out = bufBytes st.out ++
      (if (Directives.effectiveMode (toMode t.nsAutoescape) (toMode t.autoescape) != .off) &&
          noCancelE g.tbl (dirs ++ obligDirs pos g.oblig) then htmlEscape s else s) := by
  rw [print_uses_walk_mode] at hok ⊢
  rw [← escapeOf_effectiveMode]
  exact print_writes g (escapeOf t) pos arg dirs ctx st hok

/-- params given as values: evaluated, not rendered — the caller's mode plays no role -/
def valueParams : ParamList → Bool
  | .nil => true
  | .value _ _ _ r => valueParams r
  | .content _ _ _ _ => false

theorem execParams_mode (g : GEnv) (e1 e2 : Bool) (call : Registry.Tmpl → Run) :
    ∀ (ps : ParamList), valueParams ps = true → ∀ cd ctx st,
      execParams g e1 call ps cd ctx st = execParams g e2 call ps cd ctx st
  | .nil, _, cd, ctx, st => by rw [execParams, execParams]
  | .value _ key e rest, h, cd, ctx, st => by
    rw [execParams, execParams]
    simp only [valueParams] at h
    split
    · rfl
    · split
      · rfl
      · exact execParams_mode g e1 e2 call rest h _ _ _
  | .content _ _ _ _, h, _, _, _ => by simp [valueParams] at h

/-- the callee runs in ITS mode, not the caller's: a call (with value params) gives the same result whatever
    the caller's mode is — the callee is handed to the runner, and `template_mode` says in which mode the
    runner `runTmpl` walks it -/
theorem call_ignores_caller_mode (g : GEnv) (e1 e2 : Bool) (call : Registry.Tmpl → Run) (p : Nat) (name : Bytes)
    (allData : Bool) (data : Option Expr) (ps : ParamList) (hv : valueParams ps = true) (ctx : Scope) (st : St) :
    execCmd g e1 call (.call p name allData data ps) ctx st = execCmd g e2 call (.call p name allData data ps) ctx st := by
  rw [execCmd, execCmd]
  split
  · rfl
  · split
    · rfl
    · rename_i cd st1 _
      rw [execParams_mode g e1 e2 call ps hv cd ctx st1]

/-- the callee's body is walked in the callee's own mode -/
theorem callee_runs_in_own_mode (g : GEnv) (k : Nat) (callee : Registry.Tmpl) (cctx : Scope) (st : St) :
    runTmpl g (k + 1) callee cctx st =
      execBody g (escapeOf callee) (runTmpl g k) callee.body cctx (atNode st callee.pos) := rfl

/-! ### the prints an execution reaches, with the mode they run in

  `trCmd … c ctx st` lists, in order, the print commands that THE execution of `c` from `(ctx, st)` reaches —
  every successor state is the one the model computes (`execCmd`, `evalIn`, `set`, `push`, `enter`, …); the
  functions follow the clauses of `execCmd` one by one (as the `Safe…` predicates of Props/C07b do) and put an
  event where the clause calls `evalPrint`: the template whose body is being walked, the mode flag of that
  walk, the print node, and the state it starts from.  A {call} continues with the events of the callee
  (`tcall`, for `runTmpl`: `traceTmpl` one level down). -/

/-- a print command reached by the walk -/
structure PrintEv where
  tmpl : Registry.Tmpl      -- the template whose body is being walked
  esc : Bool                -- the mode flag of that walk (`s.autoescape != AutoescapeOff`)
  pos : Nat
  arg : Expr
  dirs : List Directive
  ctx : Scope               -- where the print starts
  st : St

/-- what the print does: the run of the model at that point -/
def PrintEv.run (g : GEnv) (ev : PrintEv) : R := evalPrint g ev.esc ev.pos ev.arg ev.dirs ev.ctx ev.st

section
variable (g : GEnv) (T : Registry.Tmpl) (esc : Bool) (call : Registry.Tmpl → Run)
  (tcall : Registry.Tmpl → Scope → St → List PrintEv)

/-- walkBlock -/
def trWalk (tb : Scope → St → List PrintEv) (ctx : Scope) (st : St) : List PrintEv :=
  tb (push ctx st).1 (push ctx st).2

/-- renderBlock -/
def trRender (tb : Scope → St → List PrintEv) (ctx : Scope) (st : St) : List PrintEv :=
  trWalk tb ctx { st with out := [] }

/-- `forLoop` -/
def trLoop (body : Run) (tb : Scope → St → List PrintEv) (var : Bytes) (last : Int) :
    List Value → Nat → Scope → St → List PrintEv
  | [], _, _, _ => []
  | item :: rest, i, ctx, st =>
    match set (push ctx st).1 (push ctx st).2 (var ++ sLastIndexSuffix) (.int (Int64.ofInt last)) with
    | none => []
    | some st2 =>
      match set (push ctx st).1 st2 var item with
      | none => []
      | some st3 =>
        match set (push ctx st).1 st3 (var ++ sIndexSuffix) (.int (Int64.ofInt i)) with
        | none => []
        | some st4 =>
          tb (push ctx st).1 st4 ++
          (if (body (push ctx st).1 st4).cls = .ok then
            match pop (body (push ctx st).1 st4).ctx with
            | none => []
            | some ctx2 => trLoop body tb var last rest (i + 1) ctx2 (body (push ctx st).1 st4).st
          else [])

/-- `pickDefault` -/
def pickTr (values : List Expr) (tb : Scope → St → List PrintEv) (sd : Option (Scope → St → List PrintEv)) :
    Option (Scope → St → List PrintEv) :=
  if values.isEmpty && sd.isNone then some tb else sd

mutual
/-- `evalMsgParts` -/
def trMParts (phs : List (Nat × Bytes × Run)) (tphs : List (Nat × Bytes × (Scope → St → List PrintEv))) (body : MsgParts) :
    MParts → Scope → St → List PrintEv
  | .nil, _, _ => []
  | .cons (.raw t) rest, ctx, st => trMParts phs tphs body rest ctx (write st t)
  | .cons (.ph name) rest, ctx, st =>
    match pickPh name phs none with
    | none => []
    | some run =>
      (match Spec.Eval.pickPhS name tphs none with
       | some tr => tr ctx st
       | none => []) ++
      (if (run ctx st).cls = .ok then trMParts phs tphs body rest (run ctx st).ctx (run ctx st).st else [])
  | .cons (.plural vn cases) rest, ctx, st =>
    match findPlural body vn with
    | none => []
    | some ve =>
      match evalIn g ve ctx st with
      | some (.int i, st1) =>
        match g.msgs with
        | none => []
        | some b =>
          if b.pluralCase i.toInt < 0 then []
          else
            trMCases phs tphs body cases (b.pluralCase i.toInt).toNat ctx st1 ++
            (if (evalMCases g phs body cases (b.pluralCase i.toInt).toNat ctx st1).cls = .ok then
              trMParts phs tphs body rest (evalMCases g phs body cases (b.pluralCase i.toInt).toNat ctx st1).ctx
                (evalMCases g phs body cases (b.pluralCase i.toInt).toNat ctx st1).st
            else [])
      | _ => []
def trMCases (phs : List (Nat × Bytes × Run)) (tphs : List (Nat × Bytes × (Scope → St → List PrintEv))) (body : MsgParts) :
    MCases → Nat → Scope → St → List PrintEv
  | .nil, _, _, _ => []
  | .cons parts _, 0, ctx, st => trMParts phs tphs body parts ctx st
  | .cons _ rest, n + 1, ctx, st => trMCases phs tphs body rest n ctx st
end

mutual
/-- `execCmd` -/
def trCmd : Cmd → Scope → St → List PrintEv
  | .print pos arg dirs, ctx, st => [⟨T, esc, pos, arg, dirs, ctx, st⟩]
  | .msg _ id _ _ _ body, ctx, st =>
    trWalk (fun ctx1 st1 =>
      match g.msgs with
      | none => trParts body ctx1 st1
      | some b =>
        match b.message id with
        | none => trParts body ctx1 st1
        | some parts => trMParts g (phAll g esc call body 0) (trPhAll body 0) body parts ctx1 st1) ctx st
  | .log _ body, ctx, st => trRender (trBody body) ctx st
  | .ifc _ conds, ctx, st => trConds conds ctx st
  | .forc _ var list body ifEmpty, ctx, st =>
    match evalIn g list ctx st with
    | some (.list _ xs, st1) =>
      if xs.isEmpty then
        match ifEmpty with
        | some b => trWalk (trBody b) ctx st1
        | none => []
      else trLoop (execBody g esc call body) (trBody body) var ((xs.length : Int) - 1) xs 0 ctx st1
    | _ => []
  | .switch _ value cases, ctx, st =>
    match evalIn g value ctx st with
    | none => []
    | some (sv, st1) => trCases cases none sv ctx st1
  -- evalCall: param content blocks are the CALLER's (its template, its mode); then the callee
  | .call _ name allData data params, ctx, st =>
    match Registry.lookup g.reg name with
    | none => []
    | some callee =>
      match callData g allData data ctx st with
      | none => []
      | some (cd, st1) =>
        trParams params cd ctx st1 ++
        (if (execParams g esc call params cd ctx st1).cls = .ok then
          match enter cd (execParams g esc call params cd ctx st1).st with
          | none => []
          | some (cctx, st2) => tcall callee cctx st2
        else [])
  | .letContent _ _ body, ctx, st => trRender (trBody body) ctx st
  | .rawText .., _, _ => []
  | .css .., _, _ => []
  | .debugger .., _, _ => []
  | .letValue .., _, _ => []
  | .headerParam .., _, _ => []
  | .namespace .., _, _ => []
  | .template .., _, _ => []
  | .soyDoc .., _, _ => []
/-- `execBody` -/
def trBody : Block → Scope → St → List PrintEv
  | .mk p cmds, ctx, st => trCmds cmds ctx (atNode st p)
/-- `execCmds` -/
def trCmds : CmdList → Scope → St → List PrintEv
  | .nil, _, _ => []
  | .cons c rest, ctx, st =>
    trCmd c ctx (atNode st (cmdPos c)) ++
    (if (execCmd g esc call c ctx (atNode st (cmdPos c))).cls = .ok then
      trCmds rest (execCmd g esc call c ctx (atNode st (cmdPos c))).ctx (execCmd g esc call c ctx (atNode st (cmdPos c))).st
    else [])
/-- `execConds` -/
def trConds : CondList → Scope → St → List PrintEv
  | .nil, _, _ => []
  | .cons _ cond body rest, ctx, st =>
    match cond with
    | none => trWalk (trBody body) ctx st
    | some c =>
      match evalIn g c ctx st with
      | none => []
      | some (v, st1) => if v.truthy then trWalk (trBody body) ctx st1 else trConds rest ctx st1
/-- `execCases` -/
def trCases : CaseList → Option (Scope → St → List PrintEv) → Value → Scope → St → List PrintEv
  | .nil, sd, _, ctx, st =>
    match sd with
    | some s => s ctx st
    | none => []
  | .cons _ values body rest, sd, sv, ctx, st =>
    match matchCase g ctx sv values st with
    | none => []
    | some (true, st1) => trWalk (trBody body) ctx st1
    | some (false, st1) => trCases rest (pickTr values (trWalk (trBody body)) sd) sv ctx st1
/-- `execParams` -/
def trParams : ParamList → Scope → Scope → St → List PrintEv
  | .nil, _, _, _ => []
  | .value _ key e rest, cd, ctx, st =>
    match evalIn g e ctx st with
    | none => []
    | some (v, st1) =>
      match set cd st1 key v with
      | none => []
      | some st2 => trParams rest cd ctx st2
  | .content _ key body rest, cd, ctx, st =>
    trRender (trBody body) ctx st ++
    (if (renderBlockOf (execBody g esc call body) ctx st).1.cls = .ok then
      match set cd (renderBlockOf (execBody g esc call body) ctx st).1.st key
          (.str (renderBlockOf (execBody g esc call body) ctx st).2) with
      | none => []
      | some st2 => trParams rest cd (renderBlockOf (execBody g esc call body) ctx st).1.ctx st2
    else [])
/-- `walkMsgBody` -/
def trParts : MsgParts → Scope → St → List PrintEv
  | .nil, _, _ => []
  | .text p t rest, ctx, st => trParts rest ctx (write (atNode st p) t)
  | .ph _ _ body rest, ctx, st =>
    trPh body ctx st ++
    (if (execPh g esc call body ctx st).cls = .ok then
      trParts rest (execPh g esc call body ctx st).ctx (execPh g esc call body ctx st).st
    else [])
  | .plural _ _ value cases _ dflt rest, ctx, st =>
    match evalIn g value ctx st with
    | some (.int i, st1) =>
      trPl cases (trParts dflt) i.toInt ctx st1 ++
      (if (walkPluralCases g esc call cases (walkMsgBody g esc call dflt) i.toInt ctx st1).cls = .ok then
        trParts rest (walkPluralCases g esc call cases (walkMsgBody g esc call dflt) i.toInt ctx st1).ctx
          (walkPluralCases g esc call cases (walkMsgBody g esc call dflt) i.toInt ctx st1).st
      else [])
    | _ => []
/-- `walkPluralCases` -/
def trPl : PluralCases → (Scope → St → List PrintEv) → Int → Scope → St → List PrintEv
  | .nil, sd, _, ctx, st => sd ctx st
  | .cons _ v _ body rest, sd, i, ctx, st =>
    if i == v then trParts body ctx st else trPl rest sd i ctx st
/-- `execPh` -/
def trPh : MsgPhBody → Scope → St → List PrintEv
  | .htmlTag .., _, _ => []
  | .cmd c, ctx, st => trCmd c ctx (atNode st (cmdPos c))
/-- `phAll` -/
def trPhAll : MsgParts → Nat → List (Nat × Bytes × (Scope → St → List PrintEv))
  | .nil, _ => []
  | .text _ _ rest, d => trPhAll rest d
  | .ph _ name body rest, d => (d, name, trPh body) :: trPhAll rest d
  | .plural _ _ _ cases _ dflt rest, d => trPhAllCases cases (d + 3) ++ trPhAll dflt (d + 2) ++ trPhAll rest d
def trPhAllCases : PluralCases → Nat → List (Nat × Bytes × (Scope → St → List PrintEv))
  | .nil, _ => []
  | .cons _ _ _ body rest, d => trPhAll body d ++ trPhAllCases rest d
end
end

/-- the prints reached by a template invocation (`runTmpl`): the body's, walked as `template_mode` says — as
    template `t`, in `t`'s own mode — and, through its calls, those of the callees one level down -/
def traceTmpl (g : GEnv) : Nat → Registry.Tmpl → Scope → St → List PrintEv
  | 0, _, _, _ => []
  | k + 1, t, ctx, st => trBody g t (escapeOf t) (runTmpl g k) (traceTmpl g k) t.body ctx (atNode st t.pos)

/-- the prints reached by `execute` -/
def executeTrace (g : GEnv) (name : Bytes) (data : Frame) (fuel : Nat) : List PrintEv :=
  match Registry.lookup g.reg name with
  | none => []
  | some t =>
    match enter (newScope data true { heap := [], out := [], next := freshBase g data, foreign := 0 }).1
        (newScope data true { heap := [], out := [], next := freshBase g data, foreign := 0 }).2 with
    | none => []
    | some (ctx, st2) => traceTmpl g fuel t ctx st2

/-! ### a property of every event -/

section
variable (Q : PrintEv → Prop)

def AllQ (l : List PrintEv) : Prop := ∀ ev ∈ l, Q ev
def AllTr (tb : Scope → St → List PrintEv) : Prop := ∀ ctx st, AllQ Q (tb ctx st)

theorem AllQ.nil : AllQ Q [] := fun _ h => by cases h

theorem AllQ.append {a b : List PrintEv} (ha : AllQ Q a) (hb : AllQ Q b) : AllQ Q (a ++ b) := by
  intro ev hev
  rcases List.mem_append.mp hev with h | h
  · exact ha ev h
  · exact hb ev h

local macro "tr_split" : tactic =>
  `(tactic| repeat' (first | exact AllQ.nil _ | apply AllQ.append | split))

theorem trWalk_all {tb : Scope → St → List PrintEv} (h : AllTr Q tb) : AllTr Q (trWalk tb) := fun _ _ => h _ _
theorem trRender_all {tb : Scope → St → List PrintEv} (h : AllTr Q tb) : AllTr Q (trRender tb) := fun _ _ => h _ _

theorem trLoop_all (body : Run) (tb : Scope → St → List PrintEv) (var : Bytes) (last : Int) (h : AllTr Q tb) :
    ∀ (xs : List Value) (i : Nat) (ctx : Scope) (st : St), AllQ Q (trLoop body tb var last xs i ctx st)
  | [], _, _, _ => by rw [trLoop]; exact AllQ.nil Q
  | x :: r, i, ctx, st => by
    rw [trLoop]
    generalize (push ctx st).1 = c1
    generalize (push ctx st).2 = s1
    cases Eval.set c1 s1 (var ++ sLastIndexSuffix) (.int (Int64.ofInt last)) with
    | none => exact AllQ.nil Q
    | some st2 =>
      simp only
      cases Eval.set c1 st2 var x with
      | none => exact AllQ.nil Q
      | some st3 =>
        simp only
        cases Eval.set c1 st3 (var ++ sIndexSuffix) (.int (Int64.ofInt i)) with
        | none => exact AllQ.nil Q
        | some st4 =>
          simp only
          refine AllQ.append Q (h _ _) ?_
          split
          · cases pop (body c1 st4).ctx with
            | none => exact AllQ.nil Q
            | some ctx2 => exact trLoop_all body tb var last h r _ _ _
          · exact AllQ.nil Q

theorem pickTr_all {values : List Expr} {tb : Scope → St → List PrintEv} {sd : Option (Scope → St → List PrintEv)}
    (h : AllTr Q tb) (hs : ∀ s, sd = some s → AllTr Q s) : ∀ s, pickTr values tb sd = some s → AllTr Q s := by
  intro s hp
  unfold pickTr at hp
  split at hp
  · cases hp; exact h
  · exact hs s hp

theorem pickPhS_all {α : Type} (P : α → Prop) (name : Bytes) : ∀ (l : List (Nat × Bytes × α)) (best : Option (Nat × α)),
    (∀ e ∈ l, P e.2.2) → (∀ b, best = some b → P b.2) → ∀ a, Spec.Eval.pickPhS name l best = some a → P a
  | [], best, _, hb, a, h => by
    simp only [Spec.Eval.pickPhS, Option.map_eq_some_iff] at h
    obtain ⟨b, hb', rfl⟩ := h
    exact hb b hb'
  | (d, n, f) :: r, best, hl, hb, a, h => by
    have hr : ∀ e ∈ r, P e.2.2 := fun e he => hl e (List.mem_cons_of_mem _ he)
    have hf : P f := hl (d, n, f) List.mem_cons_self
    have hnew : ∀ b, some (d, f) = some b → P b.2 := by intro b hb'; cases hb'; exact hf
    unfold Spec.Eval.pickPhS at h
    split at h
    · split at h
      · split at h
        · exact pickPhS_all P name r _ hr hnew a h
        · exact pickPhS_all P name r _ hr hb a h
      · exact pickPhS_all P name r _ hr hnew a h
    · exact pickPhS_all P name r _ hr hb a h

section
variable (g : GEnv) (phs : List (Nat × Bytes × Run)) (tphs : List (Nat × Bytes × (Scope → St → List PrintEv)))
  (body : MsgParts) (ht : ∀ e ∈ tphs, AllTr Q e.2.2)
include ht

mutual
theorem trMParts_all : ∀ (ps : MParts) (ctx : Scope) (st : St), AllQ Q (trMParts g phs tphs body ps ctx st)
  | .nil, _, _ => by rw [trMParts]; exact AllQ.nil Q
  | .cons (.raw t) rest, ctx, st => by rw [trMParts]; exact trMParts_all rest _ _
  | .cons (.ph name) rest, ctx, st => by
    rw [trMParts]
    tr_split
    · rename_i tr htr
      exact pickPhS_all (AllTr Q) name tphs none ht (by intro b hb; cases hb) tr htr ctx st
    · exact trMParts_all rest _ _
  | .cons (.plural vn cases) rest, ctx, st => by
    rw [trMParts]
    tr_split
    · exact trMCases_all cases _ _ _
    · exact trMParts_all rest _ _
theorem trMCases_all : ∀ (cs : MCases) (n : Nat) (ctx : Scope) (st : St), AllQ Q (trMCases g phs tphs body cs n ctx st)
  | .nil, _, _, _ => by rw [trMCases]; exact AllQ.nil Q
  | .cons parts _, 0, ctx, st => by rw [trMCases]; exact trMParts_all parts _ _
  | .cons _ rest, n + 1, ctx, st => by rw [trMCases]; exact trMCases_all rest n _ _
end
end

section
variable (g : GEnv) (T : Registry.Tmpl) (esc : Bool) (call : Registry.Tmpl → Run)
  (tcall : Registry.Tmpl → Scope → St → List PrintEv)
  (hq : ∀ pos arg dirs ctx st, Q ⟨T, esc, pos, arg, dirs, ctx, st⟩)
  (hcall : ∀ t, t ∈ g.reg → AllTr Q (tcall t))
include hq hcall

mutual
theorem trCmd_all : ∀ (c : Cmd) (ctx : Scope) (st : St), AllQ Q (trCmd g T esc call tcall c ctx st)
  | .print pos arg dirs, ctx, st => by
    rw [trCmd]; intro ev hev
    simp only [List.mem_singleton] at hev; subst hev; exact hq ..
  | .msg _ id _ _ _ body, ctx, st => by
    rw [trCmd]
    refine trWalk_all Q (fun ctx1 st1 => ?_) ctx st
    tr_split
    · exact trParts_all body _ _
    · exact trParts_all body _ _
    · exact trMParts_all Q g _ _ body (trPhAll_all body 0) _ _ _
  | .log _ body, ctx, st => by rw [trCmd]; exact trRender_all Q (fun c s => trBody_all body c s) _ _
  | .ifc _ conds, ctx, st => by rw [trCmd]; exact trConds_all conds _ _
  | .forc _ var list body ifEmpty, ctx, st => by
    rw [trCmd]
    tr_split
    · rename_i b; exact trWalk_all Q (fun c s => trBody_all b c s) _ _
    · exact trLoop_all Q _ _ _ _ (fun c s => trBody_all body c s) _ _ _ _
  | .switch _ value cases, ctx, st => by
    rw [trCmd]
    tr_split
    exact trCases_all cases none (by intro s hs; cases hs) _ _ _
  | .call _ name allData data params, ctx, st => by
    rw [trCmd]
    split
    · exact AllQ.nil Q
    · rename_i callee hl
      have hm : callee ∈ g.reg := List.mem_of_find?_eq_some hl
      tr_split
      · exact trParams_all params _ _ _
      · exact hcall callee hm _ _
  | .letContent _ _ body, ctx, st => by rw [trCmd]; exact trRender_all Q (fun c s => trBody_all body c s) _ _
  | .rawText .., _, _ => by rw [trCmd]; exact AllQ.nil Q
  | .css .., _, _ => by rw [trCmd]; exact AllQ.nil Q
  | .debugger .., _, _ => by rw [trCmd]; exact AllQ.nil Q
  | .letValue .., _, _ => by rw [trCmd]; exact AllQ.nil Q
  | .headerParam .., _, _ => by rw [trCmd]; exact AllQ.nil Q
  | .namespace .., _, _ => by rw [trCmd]; exact AllQ.nil Q
  | .template .., _, _ => by rw [trCmd]; exact AllQ.nil Q
  | .soyDoc .., _, _ => by rw [trCmd]; exact AllQ.nil Q
theorem trBody_all : ∀ (b : Block) (ctx : Scope) (st : St), AllQ Q (trBody g T esc call tcall b ctx st)
  | .mk p cmds, ctx, st => by rw [trBody]; exact trCmds_all cmds _ _
theorem trCmds_all : ∀ (cs : CmdList) (ctx : Scope) (st : St), AllQ Q (trCmds g T esc call tcall cs ctx st)
  | .nil, _, _ => by rw [trCmds]; exact AllQ.nil Q
  | .cons c rest, ctx, st => by
    rw [trCmds]
    tr_split
    · exact trCmd_all c _ _
    · exact trCmds_all rest _ _
theorem trConds_all : ∀ (cs : CondList) (ctx : Scope) (st : St), AllQ Q (trConds g T esc call tcall cs ctx st)
  | .nil, _, _ => by rw [trConds]; exact AllQ.nil Q
  | .cons _ cond body rest, ctx, st => by
    unfold trConds
    tr_split
    · exact trWalk_all Q (fun c s => trBody_all body c s) _ _
    · exact trWalk_all Q (fun c s => trBody_all body c s) _ _
    · exact trConds_all rest _ _
theorem trCases_all : ∀ (cs : CaseList) (sd : Option (Scope → St → List PrintEv)), (∀ s, sd = some s → AllTr Q s) →
    ∀ (sv : Value) (ctx : Scope) (st : St), AllQ Q (trCases g T esc call tcall cs sd sv ctx st)
  | .nil, sd, hs, _, ctx, st => by
    unfold trCases
    split
    · rename_i s; exact hs s rfl _ _
    · exact AllQ.nil Q
  | .cons _ values body rest, sd, hs, sv, ctx, st => by
    unfold trCases
    tr_split
    · exact trWalk_all Q (fun c s => trBody_all body c s) _ _
    · exact trCases_all rest _ (pickTr_all Q (trWalk_all Q (fun c s => trBody_all body c s)) hs) _ _ _
theorem trParams_all : ∀ (ps : ParamList) (cd ctx : Scope) (st : St), AllQ Q (trParams g T esc call tcall ps cd ctx st)
  | .nil, _, _, _ => by rw [trParams]; exact AllQ.nil Q
  | .value _ key e rest, cd, ctx, st => by
    rw [trParams]
    tr_split
    exact trParams_all rest _ _ _
  | .content _ key body rest, cd, ctx, st => by
    rw [trParams]
    tr_split
    · exact trRender_all Q (fun c s => trBody_all body c s) _ _
    · exact trParams_all rest _ _ _
theorem trParts_all : ∀ (ps : MsgParts) (ctx : Scope) (st : St), AllQ Q (trParts g T esc call tcall ps ctx st)
  | .nil, _, _ => by rw [trParts]; exact AllQ.nil Q
  | .text p t rest, ctx, st => by rw [trParts]; exact trParts_all rest _ _
  | .ph _ _ body rest, ctx, st => by
    rw [trParts]
    tr_split
    · exact trPh_all body _ _
    · exact trParts_all rest _ _
  | .plural _ _ value cases _ dflt rest, ctx, st => by
    rw [trParts]
    tr_split
    · exact trPl_all cases _ (fun c s => trParts_all dflt c s) _ _ _
    · exact trParts_all rest _ _
theorem trPl_all : ∀ (cs : PluralCases) (sd : Scope → St → List PrintEv), AllTr Q sd → ∀ (i : Int) (ctx : Scope) (st : St),
    AllQ Q (trPl g T esc call tcall cs sd i ctx st)
  | .nil, sd, hs, _, ctx, st => by rw [trPl]; exact hs _ _
  | .cons _ v _ body rest, sd, hs, i, ctx, st => by
    rw [trPl]
    tr_split
    · exact trParts_all body _ _
    · exact trPl_all rest sd hs _ _ _
theorem trPh_all : ∀ (b : MsgPhBody) (ctx : Scope) (st : St), AllQ Q (trPh g T esc call tcall b ctx st)
  | .htmlTag .., _, _ => by rw [trPh]; exact AllQ.nil Q
  | .cmd c, ctx, st => by rw [trPh]; exact trCmd_all c _ _
theorem trPhAll_all : ∀ (ps : MsgParts) (d : Nat), ∀ e ∈ trPhAll g T esc call tcall ps d, AllTr Q e.2.2
  | .nil, _, e, he => by rw [trPhAll] at he; cases he
  | .text _ _ rest, d, e, he => by rw [trPhAll] at he; exact trPhAll_all rest d e he
  | .ph _ name body rest, d, e, he => by
    rw [trPhAll] at he
    rcases List.mem_cons.mp he with rfl | h
    · exact fun c s => trPh_all body c s
    · exact trPhAll_all rest d e h
  | .plural _ _ _ cases _ dflt rest, d, e, he => by
    rw [trPhAll] at he
    rcases List.mem_append.mp he with h | h
    · rcases List.mem_append.mp h with h | h
      · exact trPhAllCases_all cases _ e h
      · exact trPhAll_all dflt _ e h
    · exact trPhAll_all rest d e h
theorem trPhAllCases_all : ∀ (cs : PluralCases) (d : Nat), ∀ e ∈ trPhAllCases g T esc call tcall cs d, AllTr Q e.2.2
  | .nil, _, e, he => by rw [trPhAllCases] at he; cases he
  | .cons _ _ _ body rest, d, e, he => by
    rw [trPhAllCases] at he
    rcases List.mem_append.mp he with h | h
    · exact trPhAll_all body d e h
    · exact trPhAllCases_all rest d e h
end
end
end

/-! ### the statements over the execution -/

/-- an event is a print command of the walk: executing it is `PrintEv.run` -/
theorem PrintEv.run_eq (g : GEnv) (call : Registry.Tmpl → Run) (ev : PrintEv) :
    execCmd g ev.esc call (.print ev.pos ev.arg ev.dirs) ev.ctx ev.st = ev.run g := by
  rw [execCmd]; rfl

/-- `template_mode` over the execution: whichever way template `t` was entered — by `execute`, or by a {call}
    of a caller in any mode, at any depth — every print the invocation reaches runs with the mode flag of
    the template IT stands in (`escapeOf`: that template's autoescape attribute, else its file's namespace
    attribute, else on), and that template is `t` itself or a registered template reached by calls.  The
    caller's mode does not reach the callee, and the prints of the caller after a call returns have the
    caller's mode again (they are events of the same list, under the same statement). -/
theorem prints_run_in_own_mode (g : GEnv) : ∀ (fuel : Nat) (t : Registry.Tmpl) (ctx : Scope) (st : St),
    ∀ ev ∈ traceTmpl g fuel t ctx st, ev.esc = escapeOf ev.tmpl ∧ (ev.tmpl = t ∨ ev.tmpl ∈ g.reg)
  | 0, _, _, _ => by intro ev hev; rw [traceTmpl] at hev; cases hev
  | k + 1, t, ctx, st => by
    rw [traceTmpl]
    exact trBody_all (fun ev => ev.esc = escapeOf ev.tmpl ∧ (ev.tmpl = t ∨ ev.tmpl ∈ g.reg)) g t (escapeOf t)
      (runTmpl g k) (traceTmpl g k) (fun _ _ _ _ _ => ⟨rfl, Or.inl rfl⟩)
      (fun t' ht' ctx' st' ev hev => by
        obtain ⟨h1, h2⟩ := prints_run_in_own_mode g k t' ctx' st' ev hev
        exact ⟨h1, Or.inr (h2.elim (fun h => h ▸ ht') id)⟩)
      t.body _ _

/-- inside one walk: an event is a print of THIS template in THIS mode, or comes from a callee — whatever
    came before it (a call that returned, a content block, a loop) -/
theorem local_or_called (g : GEnv) (T : Registry.Tmpl) (esc : Bool) (call : Registry.Tmpl → Run)
    (tcall : Registry.Tmpl → Scope → St → List PrintEv) (b : Block) (ctx : Scope) (st : St) :
    ∀ ev ∈ trBody g T esc call tcall b ctx st,
      (ev.tmpl = T ∧ ev.esc = esc) ∨ ∃ t ∈ g.reg, ∃ ctx' st', ev ∈ tcall t ctx' st' :=
  trBody_all _ g T esc call tcall (fun _ _ _ _ _ => Or.inl ⟨rfl, rfl⟩)
    (fun t ht ctx' st' ev hev => Or.inr ⟨t, ht, ctx', st', hev⟩) b ctx st

/-- what every executed print writes: htmlEscape of the final text of its directive chain iff the effective
    mode of the template it stands in is not Off and no directive (obligatory ones included) cancels -/
theorem executed_prints_write (g : GEnv) (fuel : Nat) (t : Registry.Tmpl) (ctx : Scope) (st : St) :
    ∀ ev ∈ traceTmpl g fuel t ctx st, (ev.run g).cls = .ok →
      ∃ s, bufBytes (ev.run g).st.out = bufBytes ev.st.out ++
        (if (Directives.effectiveMode (toMode ev.tmpl.nsAutoescape) (toMode ev.tmpl.autoescape) != .off) &&
            noCancelE g.tbl (ev.dirs ++ obligDirs ev.pos g.oblig) then htmlEscape s else s) := by
  intro ev hev hok
  have hm := (prints_run_in_own_mode g fuel t ctx st ev hev).1
  rw [← escapeOf_effectiveMode, ← hm]
  exact print_writes g ev.esc ev.pos ev.arg ev.dirs ev.ctx ev.st hok

/-- C03, first sentence, over the execution: for every registry, template, scope and state, at every call
    depth — every print command the execution reaches that stands in a template whose effective mode is
    on / contextual (not Off) and whose directive list, obligatory directives included, has no cancelling
    directive appends exactly `htmlEscape s` for the final text `s` of its chain: none of < > " ' raw, every
    & starts a character reference, and it decodes back to `s` -/
theorem executed_prints_escaped (g : GEnv) (fuel : Nat) (t : Registry.Tmpl) (ctx : Scope) (st : St) :
    ∀ ev ∈ traceTmpl g fuel t ctx st,
      Directives.effectiveMode (toMode ev.tmpl.nsAutoescape) (toMode ev.tmpl.autoescape) ≠ .off →
      noCancelE g.tbl (ev.dirs ++ obligDirs ev.pos g.oblig) = true →
      (ev.run g).cls = .ok →
      ∃ s out, bufBytes (ev.run g).st.out = bufBytes ev.st.out ++ out ∧ out = htmlEscape s ∧
        C03.SafeHtmlEncoding out s := by
  intro ev hev hmode hnc hok
  obtain ⟨s, h⟩ := executed_prints_write g fuel t ctx st ev hev hok
  have hb : (Directives.effectiveMode (toMode ev.tmpl.nsAutoescape) (toMode ev.tmpl.autoescape) != .off) = true := by
    simpa using hmode
  rw [hb, hnc] at h
  exact ⟨s, htmlEscape s, by simpa using h, rfl, C03.htmlEscape_safe s⟩

/-- … and from `execute`: every print reached by `Renderer.Execute` of any entry template on any data -/
theorem execute_prints_escaped (g : GEnv) (name : Bytes) (data : Frame) (fuel : Nat) :
    ∀ ev ∈ executeTrace g name data fuel,
      ev.esc = escapeOf ev.tmpl ∧ ev.tmpl ∈ g.reg ∧
      (Directives.effectiveMode (toMode ev.tmpl.nsAutoescape) (toMode ev.tmpl.autoescape) ≠ .off →
       noCancelE g.tbl (ev.dirs ++ obligDirs ev.pos g.oblig) = true →
       (ev.run g).cls = .ok →
       ∃ s out, bufBytes (ev.run g).st.out = bufBytes ev.st.out ++ out ∧ out = htmlEscape s ∧
         C03.SafeHtmlEncoding out s) := by
  intro ev hev
  unfold executeTrace at hev
  split at hev
  · cases hev
  · rename_i t hl
    have ht : t ∈ g.reg := List.mem_of_find?_eq_some hl
    split at hev
    · cases hev
    · rename_i ctx st2 _
      obtain ⟨h1, h2⟩ := prints_run_in_own_mode g fuel t ctx st2 ev hev
      exact ⟨h1, h2.elim (fun h => h ▸ ht) id, executed_prints_escaped g fuel t ctx st2 ev hev⟩

/-! ### non-vacuity

  template .t (autoescape on) prints `$x` and calls .c; template .c has autoescape="false" and prints `$x`.
  With x = "<": the caller's print is escaped, the callee's is raw. -/

def tC : Registry.Tmpl :=
  { name := [99], params := [], body := .mk 8 (.cons (.print 9 (.dataRef 10 [120] .nil) []) .nil),
    autoescape := .off, nsName := [110], nsAutoescape := .unspecified, pos := 7, file := [102], text := [] }

def tT : Registry.Tmpl :=
  { name := [116], params := [],
    body := .mk 1 (.cons (.print 2 (.dataRef 3 [120] .nil) []) (.cons (.call 4 [99] true none .nil) .nil)),
    autoescape := .unspecified, nsName := [110], nsAutoescape := .unspecified, pos := 0, file := [102], text := [] }

def g0 : GEnv := { reg := [tT, tC], globals := [], ij := none, msgs := none, tbl := [], oblig := [] }

example : escapeOf tT = true ∧ escapeOf tC = false := by decide
example : (execute g0 [116] [([120], .str [60])] 5).chunks.flatten = [38, 108, 116, 59, 60] := by decide

/-! ### non-vacuity of the trace statements

  file 1, `{namespace n autoescape="false"}`: template a with autoescape="true":
      {$x}{call b data="all"}{param k}{$x}{/param}{/call}{$x}
  file 2, `{namespace m}` (on): template b with autoescape="false":  {$x}{$k}{call c data="all"/}
  file 1 again: template c, no attribute (its namespace says false):  {$x}{call d data="all"/}
  file 2 again: template d, no attribute (on):  {$x}
  With x = "<": a escapes; the content of {param k} is a's block (a's mode: escaped); b prints `$x` and `$k`
  raw; c (mode off by its namespace) raw; d escapes again; back in a after the call: escaped. -/

def kx : Bytes := [120]
def pr (p : Nat) (k : Bytes) : Cmd := .print p (.dataRef p k .nil) []

def tA : Registry.Tmpl :=
  { name := [97], params := [],
    body := .mk 1 (.cons (pr 2 kx) (.cons (.call 3 [98] true none (.content 4 [107] (.mk 5 (.cons (pr 6 kx) .nil)) .nil))
      (.cons (pr 7 kx) .nil))),
    autoescape := .on, nsName := [110], nsAutoescape := .off, pos := 0, file := [49], text := [] }
def tB : Registry.Tmpl :=
  { name := [98], params := [],
    body := .mk 11 (.cons (pr 12 kx) (.cons (pr 13 [107]) (.cons (.call 14 [99] true none .nil) .nil))),
    autoescape := .off, nsName := [109], nsAutoescape := .unspecified, pos := 10, file := [50], text := [] }
def tC2 : Registry.Tmpl :=
  { name := [99], params := [], body := .mk 21 (.cons (pr 22 kx) (.cons (.call 23 [100] true none .nil) .nil)),
    autoescape := .unspecified, nsName := [110], nsAutoescape := .off, pos := 20, file := [49], text := [] }
def tD : Registry.Tmpl :=
  { name := [100], params := [], body := .mk 31 (.cons (pr 32 kx) .nil),
    autoescape := .unspecified, nsName := [109], nsAutoescape := .unspecified, pos := 30, file := [50], text := [] }

def g1 : GEnv := { reg := [tA, tB, tC2, tD], globals := [], ij := none, msgs := none, tbl := [], oblig := [] }

/-- the prints reached, in order: (template, mode flag, print node) -/
example : (executeTrace g1 [97] [(kx, .str [60])] 6).map (fun ev => (ev.tmpl.name, ev.esc, ev.pos)) =
    [([97], true, 2), ([97], true, 6), ([98], false, 12), ([98], false, 13), ([99], false, 22), ([100], true, 32),
     ([97], true, 7)] := by decide +kernel
/-- … and what the execution wrote: &lt; (a) · < (b, `$x`) · &lt; (b, `$k`: a's escaped content, raw) · < (c) ·
    &lt; (d) · &lt; (a again) -/
example : (execute g1 [97] [(kx, .str [60])] 6).chunks.flatten =
    [38, 108, 116, 59, 60, 38, 108, 116, 59, 60, 38, 108, 116, 59, 38, 108, 116, 59] := by decide +kernel
/-- the other way round: entered at b (mode off), the callee d of the callee c is escaped -/
example : (executeTrace g1 [98] [(kx, .str [60]), ([107], .str [62])] 6).map (fun ev => (ev.tmpl.name, ev.esc)) =
    [([98], false), ([98], false), ([99], false), ([100], true)] := by decide +kernel
example : (execute g1 [98] [(kx, .str [60]), ([107], .str [62])] 6).chunks.flatten = [60, 62, 60, 38, 108, 116, 59] := by
  decide +kernel

end SoyVerif.Props.C03b
