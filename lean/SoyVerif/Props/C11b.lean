/-
  C11, over the interpreter — the theorems of Props/C11.lean speak about Model/MsgRender.lean, a model of its
  own (`ρ` renders a placeholder from its source text).  This file ties Model/Eval's execution of a {msg}
  command with a bundle installed (`execCmd` → `evalMParts` / `pickPh` / `walkMsgBody`) to that model, for the
  shape

      FLAT messages: the body is raw text and placeholders (print commands, html tags, any command whose run
      only writes — `Writes`), no {plural}; the translation is raw text and placeholder parts.

  `src` labels a placeholder body with the "source text" Model/MsgRender identifies it by (any function: the
  printed source as in C11, the variable name for prints of variables); `ρ` is what that placeholder writes.
  * `evalMParts_eq_msgRender` / `walkMsgBody_eq_msgRender`: the body walk.
  * `execCmd_msg_eq_msgRender`: the {msg} command: with a translation the output grows by exactly
    `Msg.renderTranslated ρ ν sel R parts` (and the command fails where that is `none`: a placeholder the
    message does not have); without a bundle, or without a translation, by `Msg.renderSource ρ ν R`.
  * `print_var_writes`, `htmlTag_writes`: prints of variables (no directives) and html tags are such writers,
    with `ρ` = the escaped / plain text of the variable's value in the current scope.
  * the corollaries of C11 restated over `execCmd`: `msg_translation_renders_segments`, `msg_reorder_reorders`,
    `msg_unknown_placeholder`, and the identity headline: `msg_identity_translation` (the identity translation
    stated on the tree, `identityParts`: needs only `NamesAgree` — placeholders of one name write the same),
    `msg_identity_translation_po` (through `Msg.msgid` / `Msg.parts` as C11 states it, under C11's text and name
    guards), `msg_identity_same_as_no_catalogue` (the same bytes as the run without a bundle).
  Outside: {plural} messages (MsgRender finds placeholders breadth-first over its own queue, the interpreter by
  depth in the node tree: the two agree by the C11msg correspondence, not by a theorem here).
-/
import SoyVerif.Props.C11
import SoyVerif.Lemmas.ExecRefine

namespace SoyVerif.Props.C11b
open SoyVerif SoyVerif.Model SoyVerif.Model.Eval SoyVerif.Refine
open SoyVerif.Model.Msg (RPart TPart)

/-- the run writes `w` — whatever the buffer holds — and changes neither the scope nor the heap -/
def Writes (run : Run) (ctx : Scope) (heap : List Cell) (w : Bytes) : Prop :=
  ∀ st, st.heap = heap → (run ctx st).cls = .ok ∧ (run ctx st).ctx = ctx ∧ (run ctx st).st.heap = heap ∧
    bufBytes (run ctx st).st.out = bufBytes st.out ++ w

def flatBody : MsgParts → Bool
  | .nil => true
  | .text _ _ r => flatBody r
  | .ph _ _ _ r => flatBody r
  | .plural .. => false

def flatT : MParts → Bool
  | .nil => true
  | .cons (.raw _) r => flatT r
  | .cons (.ph _) r => flatT r
  | .cons (.plural _ _) _ => false

/-- the message body as Model/MsgRender sees it -/
def toR (src : MsgPhBody → Bytes) : MsgParts → List RPart
  | .nil => []
  | .text _ t r => .text t :: toR src r
  | .ph _ name b r => .ph name (src b) :: toR src r
  | .plural .. => []

/-- a translation as Model/MsgRender sees it -/
def toT : MParts → List TPart
  | .nil => []
  | .cons (.raw t) r => .text t :: toT r
  | .cons (.ph n) r => .ph n :: toT r
  | .cons (.plural _ _) r => toT r

def AllPh (P : MsgPhBody → Prop) : MsgParts → Prop
  | .nil => True
  | .text _ _ r => AllPh P r
  | .ph _ _ b r => P b ∧ AllPh P r
  | .plural .. => True

theorem isFlat_toR (src : MsgPhBody → Bytes) : ∀ body, Msg.isFlat (toR src body) = true
  | .nil => rfl
  | .text _ _ r => by simpa [toR, Msg.isFlat, Msg.RPart.isPlural] using isFlat_toR src r
  | .ph _ _ _ r => by simpa [toR, Msg.isFlat, Msg.RPart.isPlural] using isFlat_toR src r
  | .plural .. => rfl

theorem pickPh_best0 (name : Bytes) (run : Run) : ∀ (l : List (Nat × Bytes × Run)), pickPh name l (some (0, run)) = some run
  | [] => rfl
  | (d, n, r) :: l => by
    rw [pickPh]
    split
    · simp only [Nat.not_lt_zero, if_false]; exact pickPh_best0 name run l
    · exact pickPh_best0 name run l

section
variable (g : GEnv) (esc : Bool) (call : Registry.Tmpl → Run) (src : MsgPhBody → Bytes) (ρ : Bytes → Bytes)
  (ctx : Scope) (heap : List Cell)

/-- `MsgNode.Placeholder(name)` on a flat body: the interpreter picks the run of the first placeholder of that
    name, Model/MsgRender its source text -/
theorem pick_flat : ∀ (body : MsgParts), flatBody body = true →
    AllPh (fun b => Writes (execPh g esc call b) ctx heap (ρ (src b))) body → ∀ name,
    match Msg.findSrc name (toR src body) with
    | none => pickPh name (phAll g esc call body 0) none = none
    | some s => ∃ run, pickPh name (phAll g esc call body 0) none = some run ∧ Writes run ctx heap (ρ s)
  | .nil, _, _, name => by rw [phAll]; rfl
  | .text _ _ r, hf, hw, name => by
    rw [phAll]; simp only [toR, Msg.findSrc]
    exact pick_flat r (by simpa [flatBody] using hf) hw name
  | .ph _ n b r, hf, hw, name => by
    rw [phAll, pickPh]
    simp only [toR, Msg.findSrc]
    by_cases hn : (n == name) = true
    · simp only [hn, if_true]
      exact ⟨_, pickPh_best0 name _ _, hw.1⟩
    · simp only [hn, if_false, Bool.false_eq_true]
      exact pick_flat r (by simpa [flatBody] using hf) hw.2 name
  | .plural .., hf, _, _ => by simp [flatBody] at hf

variable (ν : Bytes → Int) (sel : Int → Int)

/-- `evalMsgParts` on a flat translation of a flat message = Model/MsgRender's `renderTs` -/
theorem evalMParts_eq_msgRender (body : MsgParts) (hfb : flatBody body = true)
    (hw : AllPh (fun b => Writes (execPh g esc call b) ctx heap (ρ (src b))) body) :
    ∀ (ps : MParts), flatT ps = true → ∀ st, st.heap = heap →
      match Msg.renderTs ρ ν sel (toR src body) (toT ps) with
      | some out =>
        (evalMParts g (phAll g esc call body 0) body ps ctx st).cls = .ok ∧
        (evalMParts g (phAll g esc call body 0) body ps ctx st).ctx = ctx ∧
        (evalMParts g (phAll g esc call body 0) body ps ctx st).st.heap = heap ∧
        bufBytes (evalMParts g (phAll g esc call body 0) body ps ctx st).st.out = bufBytes st.out ++ out
      | none => (evalMParts g (phAll g esc call body 0) body ps ctx st).cls = .err
  | .nil, _, st, hs => by
    rw [evalMParts]
    show (Cls.ok = Cls.ok) ∧ ctx = ctx ∧ st.heap = heap ∧ bufBytes st.out = bufBytes st.out ++ []
    exact ⟨rfl, rfl, hs, by simp⟩
  | .cons (.raw t) rest, hf, st, hs => by
    rw [evalMParts]
    have ih := evalMParts_eq_msgRender body hfb hw rest (by simpa [flatT] using hf) (write st t) hs
    simp only [toT, Msg.renderTs, Msg.renderT]
    cases hr : Msg.renderTs ρ ν sel (toR src body) (toT rest) with
    | none => rw [hr] at ih; exact ih
    | some o =>
      rw [hr] at ih
      simp only at ih ⊢
      refine ⟨ih.1, ih.2.1, ih.2.2.1, ?_⟩
      rw [ih.2.2.2, bufBytes_write, List.append_assoc]
  | .cons (.ph name) rest, hf, st, hs => by
    rw [evalMParts]
    simp only [toT, Msg.renderTs, Msg.renderT]
    rw [Msg.placeholder_flat name _ (isFlat_toR src body)]
    have hp := pick_flat g esc call src ρ ctx heap body hfb hw name
    cases hfs : Msg.findSrc name (toR src body) with
    | none =>
      rw [hfs] at hp
      simp only [hp, Option.map_none]
    | some s =>
      rw [hfs] at hp
      obtain ⟨run, hpick, hrun⟩ := hp
      obtain ⟨r1, r2, r3, r4⟩ := hrun st hs
      simp only [hpick, Option.map_some, r1]
      have ih := evalMParts_eq_msgRender body hfb hw rest (by simpa [flatT] using hf) (run ctx st).st r3
      rw [r2]
      cases hr : Msg.renderTs ρ ν sel (toR src body) (toT rest) with
      | none => rw [hr] at ih; exact ih
      | some o =>
        rw [hr] at ih
        simp only at ih ⊢
        refine ⟨ih.1, ih.2.1, ih.2.2.1, ?_⟩
        rw [ih.2.2.2, r4, List.append_assoc]
  | .cons (.plural _ _) _, hf, _, _ => by simp [flatT] at hf

/-- `walkMsgBody` on a flat message = Model/MsgRender's `renderSource` -/
theorem walkMsgBody_eq_msgRender : ∀ (body : MsgParts), flatBody body = true →
    AllPh (fun b => Writes (execPh g esc call b) ctx heap (ρ (src b))) body → ∀ st, st.heap = heap →
      (walkMsgBody g esc call body ctx st).cls = .ok ∧ (walkMsgBody g esc call body ctx st).ctx = ctx ∧
      (walkMsgBody g esc call body ctx st).st.heap = heap ∧
      bufBytes (walkMsgBody g esc call body ctx st).st.out = bufBytes st.out ++ Msg.renderSrcList ρ ν (toR src body)
  | .nil, _, _, st, hs => by
    rw [walkMsgBody]; exact ⟨rfl, rfl, hs, by simp [toR, Msg.renderSrcList]⟩
  | .text p t r, hf, hw, st, hs => by
    rw [walkMsgBody]
    obtain ⟨h1, h2, h3, h4⟩ := walkMsgBody_eq_msgRender r (by simpa [flatBody] using hf) hw (write (atNode st p) t) hs
    refine ⟨h1, h2, h3, ?_⟩
    rw [h4, bufBytes_write]
    simp [toR, Msg.renderSrcList, Msg.renderSrc, atNode]
  | .ph _ _ b r, hf, hw, st, hs => by
    rw [walkMsgBody]
    obtain ⟨r1, r2, r3, r4⟩ := hw.1 st hs
    simp only [r1]
    rw [r2]
    obtain ⟨h1, h2, h3, h4⟩ := walkMsgBody_eq_msgRender r (by simpa [flatBody] using hf) hw.2 _ r3
    refine ⟨h1, h2, h3, ?_⟩
    rw [h4, r4]
    simp [toR, Msg.renderSrcList, Msg.renderSrc]
  | .plural .., hf, _, _, _ => by simp [flatBody] at hf

end

theorem walkBlockOf_ok {body : Run} {ctx : Scope} {st : St}
    (h1 : (body (push ctx st).1 (push ctx st).2).cls = .ok) (h2 : (body (push ctx st).1 (push ctx st).2).ctx = (push ctx st).1) :
    (walkBlockOf body ctx st).cls = .ok ∧ (walkBlockOf body ctx st).ctx = ctx ∧
      (walkBlockOf body ctx st).st = (body (push ctx st).1 (push ctx st).2).st := by
  unfold walkBlockOf
  simp only [h1, h2]
  simp [push, pop]

theorem walkBlockOf_err {body : Run} {ctx : Scope} {st : St}
    (h1 : (body (push ctx st).1 (push ctx st).2).cls = .err) : (walkBlockOf body ctx st).cls = .err := by
  unfold walkBlockOf
  simp only [h1]

/-- the bridge: what a {msg} command appends, in Model/Eval, is what Model/MsgRender renders — for a flat
    message whose placeholders are writers (in the scope the message body runs in: the current scope under the
    block frame `evalMsg` pushes) -/
theorem execCmd_msg_eq_msgRender (g : GEnv) (esc : Bool) (call : Registry.Tmpl → Run) (src : MsgPhBody → Bytes)
    (ρ : Bytes → Bytes) (ν : Bytes → Int) (p id : Nat) (x : Bytes) (y : Bytes) (z : Nat) (body : MsgParts)
    (ctx : Scope) (st : St) (hfb : flatBody body = true)
    (hw : AllPh (fun b => Writes (execPh g esc call b) (push ctx st).1 (push ctx st).2.heap (ρ (src b))) body) :
    match g.msgs with
    | none =>
      (execCmd g esc call (.msg p id x y z body) ctx st).cls = .ok ∧
      bufBytes (execCmd g esc call (.msg p id x y z body) ctx st).st.out =
        bufBytes st.out ++ Msg.renderSource ρ ν (toR src body)
    | some b =>
      match b.message id with
      | none =>
        (execCmd g esc call (.msg p id x y z body) ctx st).cls = .ok ∧
        bufBytes (execCmd g esc call (.msg p id x y z body) ctx st).st.out =
          bufBytes st.out ++ Msg.renderSource ρ ν (toR src body)
      | some ps =>
        flatT ps = true →
        match Msg.renderTranslated ρ ν b.pluralCase (toR src body) (toT ps) with
        | some out =>
          (execCmd g esc call (.msg p id x y z body) ctx st).cls = .ok ∧
          bufBytes (execCmd g esc call (.msg p id x y z body) ctx st).st.out = bufBytes st.out ++ out
        | none => (execCmd g esc call (.msg p id x y z body) ctx st).cls = .err := by
  have hsrc := walkMsgBody_eq_msgRender g esc call src ρ _ _ ν body hfb hw (push ctx st).2 rfl
  have hout : (push ctx st).2.out = st.out := rfl
  rw [execCmd]
  cases hm : g.msgs with
  | none =>
    simp only
    obtain ⟨w1, w2, w3⟩ := walkBlockOf_ok (ctx := ctx) (st := st) hsrc.1 hsrc.2.1
    exact ⟨w1, by rw [w3, hsrc.2.2.2, hout]; rfl⟩
  | some b =>
    simp only
    cases hid : b.message id with
    | none =>
      simp only
      obtain ⟨w1, w2, w3⟩ := walkBlockOf_ok (ctx := ctx) (st := st) hsrc.1 hsrc.2.1
      exact ⟨w1, by rw [w3, hsrc.2.2.2, hout]; rfl⟩
    | some ps =>
      simp only
      intro hft
      have ht := evalMParts_eq_msgRender g esc call src ρ _ _ ν b.pluralCase body hfb hw ps hft (push ctx st).2 rfl
      unfold Msg.renderTranslated
      cases hr : Msg.renderTs ρ ν b.pluralCase (toR src body) (toT ps) with
      | none =>
        rw [hr] at ht
        exact walkBlockOf_err ht
      | some out =>
        rw [hr] at ht
        obtain ⟨w1, w2, w3⟩ := walkBlockOf_ok (ctx := ctx) (st := st) ht.1 ht.2.1
        exact ⟨w1, by rw [w3, ht.2.2.2, hout]⟩

/-! ### writers -/

theorem htmlTag_writes (g : GEnv) (esc : Bool) (call : Registry.Tmpl → Run) (p : Nat) (text : Bytes) (ctx : Scope)
    (heap : List Cell) : Writes (execPh g esc call (.htmlTag p text)) ctx heap text := by
  intro st hs
  rw [execPh]
  exact ⟨rfl, rfl, hs, by rw [bufBytes_write]; rfl⟩

/-- `{$k}` (no directives, none obligatory): it writes the text of the value `k` has in the scope, escaped iff
    the walk's mode flag is on -/
theorem print_var_writes (g : GEnv) (esc : Bool) (call : Registry.Tmpl → Run) (hob : g.oblig = []) (p q : Nat) (k : Bytes)
    (hk : (k == sIj) = false) (ctx : Scope) (heap : List Cell) (v : Value) (s : Bytes)
    (hv : lookup heap ctx k = v) (hu : v ≠ .undefined) (hs : str v = some s) :
    Writes (execPh g esc call (.cmd (.print p (.dataRef q k .nil) []))) ctx heap (if esc then htmlEscape s else s) := by
  intro st hst
  rw [execPh, execCmd]
  unfold evalPrint evalPrintAt evalIn
  have he : evalE (eenv g ctx (atNode (atNode st (cmdPos (.print p (.dataRef q k .nil) []))) (Expr.pos (.dataRef q k .nil))))
      (.dataRef q k .nil) (atNode (atNode st (cmdPos (.print p (.dataRef q k .nil) []))) (Expr.pos (.dataRef q k .nil))).next =
      .ok v st.next := by
    rw [evalE]
    simp only [hk, Bool.false_eq_true, if_false, evalAccesses, eenv, atNode, hst, hv]
  simp only [he]
  cases v with
  | undefined => exact absurd rfl hu
  | _ =>
    simp only [hob, obligDirs, List.map_nil, List.append_nil, runDirectives, hs]
    cases esc
    · simp [atNode, hst, write, bufBytes]
    · simp [bufBytes_writeAll, escChunks_flatten, atNode, hst, (writeAll_heap _ _).1]

/-! ### the corollaries of Props/C11 over the interpreter -/

/-- a flat translation (soymsg parts) as the interpreter's bundle holds it -/
def ofMsgParts : List Msg.MsgPart → MParts
  | [] => .nil
  | .text b :: r => .cons (.raw b) (ofMsgParts r)
  | .ph n :: r => .cons (.ph n) (ofMsgParts r)

theorem toT_ofMsgParts : ∀ ts, toT (ofMsgParts ts) = Msg.liftParts ts
  | [] => rfl
  | .text b :: r => by rw [ofMsgParts, toT, toT_ofMsgParts r]; rfl
  | .ph n :: r => by rw [ofMsgParts, toT, toT_ofMsgParts r]; rfl

theorem flatT_ofMsgParts : ∀ ts, flatT (ofMsgParts ts) = true
  | [] => rfl
  | .text _ :: r => by simpa [ofMsgParts, flatT] using flatT_ofMsgParts r
  | .ph _ :: r => by simpa [ofMsgParts, flatT] using flatT_ofMsgParts r

section
variable (g : GEnv) (esc : Bool) (call : Registry.Tmpl → Run) (src : MsgPhBody → Bytes) (ρ : Bytes → Bytes)
  (p id : Nat) (x y : Bytes) (z : Nat) (body : MsgParts) (ctx : Scope) (st : St) (hfb : flatBody body = true)
  (hw : AllPh (fun b => Writes (execPh g esc call b) (push ctx st).1 (push ctx st).2.heap (ρ (src b))) body)
  (b : MsgBundle) (hb : g.msgs = some b)
include hfb hw hb

/-- C11 `translation_renders_segments` over `execCmd`: a {msg} whose translation is the flat part list `ts`, all
    of whose placeholders the message has, appends — in the translation's order — the text segments and what the
    named placeholders write -/
theorem msg_translation_renders_segments (ts : List Msg.MsgPart) (hid : b.message id = some (ofMsgParts ts))
    (hts : ∀ t ∈ ts, (C11.segOut ρ (toR src body) t).isSome = true) :
    (execCmd g esc call (.msg p id x y z body) ctx st).cls = .ok ∧
    bufBytes (execCmd g esc call (.msg p id x y z body) ctx st).st.out =
      bufBytes st.out ++ (ts.map fun t => (C11.segOut ρ (toR src body) t).getD []).flatten := by
  have h := execCmd_msg_eq_msgRender g esc call src ρ (fun _ => 0) p id x y z body ctx st hfb hw
  rw [hb] at h
  simp only [hid] at h
  have h2 := h (flatT_ofMsgParts ts)
  rw [toT_ofMsgParts, C11.translation_renders_segments ρ (fun _ => 0) b.pluralCase (toR src body) ts hts] at h2
  exact h2

/-- C11 `reorder_reorders` over `execCmd`: a translation that reorders (repeats, omits) the segments `ts` —
    `idx` says which comes where — makes the {msg} append exactly the reordered sequence of what the segments
    write: a translation that reorders placeholders reorders exactly their rendered values -/
theorem msg_reorder_reorders (ts : List Msg.MsgPart) (hts : ∀ t ∈ ts, (C11.segOut ρ (toR src body) t).isSome = true)
    (idx : List Nat) (hidx : ∀ i ∈ idx, i < ts.length)
    (hid : b.message id = some (ofMsgParts (idx.map fun i => ts.getD i (.text [])))) :
    (execCmd g esc call (.msg p id x y z body) ctx st).cls = .ok ∧
    bufBytes (execCmd g esc call (.msg p id x y z body) ctx st).st.out =
      bufBytes st.out ++ (idx.map fun i => (C11.segOut ρ (toR src body) (ts.getD i (.text []))).getD []).flatten := by
  have h := execCmd_msg_eq_msgRender g esc call src ρ (fun _ => 0) p id x y z body ctx st hfb hw
  rw [hb] at h
  simp only [hid] at h
  have h2 := h (flatT_ofMsgParts _)
  rw [toT_ofMsgParts, C11.reorder_reorders ρ (fun _ => 0) b.pluralCase (toR src body) ts hts idx hidx] at h2
  exact h2

/-- a translation naming a placeholder the message does not have makes the {msg} command FAIL (C11
    `translation_unknown_placeholder`) -/
theorem msg_unknown_placeholder (ts₁ ts₂ : List Msg.MsgPart) (n : Bytes) (hn : Msg.placeholder n (toR src body) = none)
    (hid : b.message id = some (ofMsgParts (ts₁ ++ .ph n :: ts₂))) :
    (execCmd g esc call (.msg p id x y z body) ctx st).cls = .err := by
  have h := execCmd_msg_eq_msgRender g esc call src ρ (fun _ => 0) p id x y z body ctx st hfb hw
  rw [hb] at h
  simp only [hid] at h
  have h2 := h (flatT_ofMsgParts _)
  rw [toT_ofMsgParts, C11.translation_unknown_placeholder ρ (fun _ => 0) b.pluralCase (toR src body) ts₁ ts₂ n hn] at h2
  exact h2
end

/-! ### the identity translation -/

/-- the identity translation of a message, on the tree: its own text pieces and, for each placeholder, the
    placeholder part of the name the tree carries (assigned by `setPlaceholderNames`) -/
def identityParts : MsgParts → MParts
  | .nil => .nil
  | .text _ t r => .cons (.raw t) (identityParts r)
  | .ph _ name _ r => .cons (.ph name) (identityParts r)
  | .plural .. => .nil

theorem flatT_identityParts : ∀ body, flatT (identityParts body) = true
  | .nil => rfl
  | .text _ _ r => by simpa [identityParts, flatT] using flatT_identityParts r
  | .ph _ _ _ r => by simpa [identityParts, flatT] using flatT_identityParts r
  | .plural .. => rfl

/-- placeholders bearing one name write the same (C10 `names_distinct`: in a compiled message one name is one
    source text; here only what is needed — the same OUTPUT) -/
def NamesAgree (ρ : Bytes → Bytes) (R : List RPart) : Prop :=
  ∀ n s s', RPart.ph n s ∈ R → RPart.ph n s' ∈ R → ρ s = ρ s'

/-- Model/MsgRender: the identity translation renders what the source renders (on a sub-body of `R`) -/
theorem renderTs_identityParts (src : MsgPhBody → Bytes) (ρ : Bytes → Bytes) (ν : Bytes → Int) (sel : Int → Int)
    (R : List RPart) (hR : Msg.isFlat R = true) (hu : NamesAgree ρ R) :
    ∀ (rs : MsgParts), flatBody rs = true → (∀ x ∈ toR src rs, x ∈ R) →
      Msg.renderTs ρ ν sel R (toT (identityParts rs)) = some (Msg.renderSrcList ρ ν (toR src rs))
  | .nil, _, _ => rfl
  | .text _ t r, hf, hsub => by
    have ih := renderTs_identityParts src ρ ν sel R hR hu r (by simpa [flatBody] using hf)
      (fun x hx => hsub x (by simp [toR, hx]))
    simp only [identityParts, toT, toR, Msg.renderTs, Msg.renderT, ih, Msg.renderSrcList, Msg.renderSrc]
  | .ph _ name b r, hf, hsub => by
    have ih := renderTs_identityParts src ρ ν sel R hR hu r (by simpa [flatBody] using hf)
      (fun x hx => hsub x (by simp [toR, hx]))
    have hmem : RPart.ph name (src b) ∈ R := hsub _ (by simp [toR])
    obtain ⟨s', hs', hm'⟩ := Msg.findSrc_of_mem name (src b) R hmem
    simp only [identityParts, toT, toR, Msg.renderTs, Msg.renderT, ih, Msg.renderSrcList, Msg.renderSrc,
      Msg.placeholder_flat name R hR, hs', Option.map_some, hu name s' (src b) hm' hmem]
  | .plural .., hf, _ => by simp [flatBody] at hf

section
variable (g : GEnv) (esc : Bool) (call : Registry.Tmpl → Run) (src : MsgPhBody → Bytes) (ρ : Bytes → Bytes)
  (p id : Nat) (x y : Bytes) (z : Nat) (body : MsgParts) (ctx : Scope) (st : St) (hfb : flatBody body = true)
  (hw : AllPh (fun b => Writes (execPh g esc call b) (push ctx st).1 (push ctx st).2.heap (ρ (src b))) body)
  (hu : NamesAgree ρ (toR src body))
  (b : MsgBundle) (hb : g.msgs = some b)
include hfb hw hu hb

/-- C11 `identity_translation` over `execCmd`, on the tree: with the identity translation installed the {msg}
    command appends exactly the source rendering `Msg.renderSource` — which is what it appends without a
    catalogue (`msg_identity_same_as_no_catalogue`) -/
theorem msg_identity_translation (ν : Bytes → Int) (hid : b.message id = some (identityParts body)) :
    (execCmd g esc call (.msg p id x y z body) ctx st).cls = .ok ∧
    bufBytes (execCmd g esc call (.msg p id x y z body) ctx st).st.out =
      bufBytes st.out ++ Msg.renderSource ρ ν (toR src body) := by
  have h := execCmd_msg_eq_msgRender g esc call src ρ ν p id x y z body ctx st hfb hw
  rw [hb] at h
  simp only [hid] at h
  have h2 := h (flatT_identityParts body)
  unfold Msg.renderTranslated at h2
  rw [renderTs_identityParts src ρ ν b.pluralCase (toR src body) (isFlat_toR src body) hu body hfb (fun _ h => h)] at h2
  exact h2

/-- … and through the PO layer, as C11 states it: the catalogue entry whose msgstr is the message's msgid
    (`Msg.msgid`, split back into parts by `Msg.parts`: `newMessage [] [msgid]`), under C11's guards — no text run
    contains something of the shape `{[A-Z0-9_]+}`, the names are in `[A-Z0-9_]+` -/
theorem msg_identity_translation_po (ν : Bytes → Int)
    (hguard : Msg.NoMatch (Msg.leadText (Msg.toNList (toR src body)))) (hok : Msg.FlatOK (Msg.toNList (toR src body)))
    (ps : MParts) (hid : b.message id = some ps) (hft : flatT ps = true)
    (hps : ∃ msgid, Msg.msgid (toR src body) = some msgid ∧ toT ps = Msg.newMessage [] [msgid]) :
    (execCmd g esc call (.msg p id x y z body) ctx st).cls = .ok ∧
    bufBytes (execCmd g esc call (.msg p id x y z body) ctx st).st.out =
      bufBytes st.out ++ Msg.renderSource ρ ν (toR src body) := by
  have hR := isFlat_toR src body
  obtain ⟨mid, hmid, hps⟩ := hps
  rw [C11.msgid_flat _ hR] at hmid
  simp only [Option.some.injEq] at hmid
  subst hmid
  have h := execCmd_msg_eq_msgRender g esc call src ρ ν p id x y z body ctx st hfb hw
  rw [hb] at h
  simp only [hid] at h
  have h2 := h hft
  have hr : Msg.renderTranslated ρ ν b.pluralCase (toR src body) (toT ps) = some (Msg.renderSource ρ ν (toR src body)) := by
    rw [hps]
    show Msg.renderTs ρ ν b.pluralCase (toR src body) (Msg.liftParts (Msg.parts (Msg.writephList (toR src body)))) = _
    rw [Msg.writephList_flat _ hR, C10.parts_writeFP _ hguard hok]
    have := Msg.render_expected ρ ν b.pluralCase (toR src body) (toR src body)
      (fun n => Msg.placeholder_flat n _ hR) hu (toR src body) [] hR (fun _ h => h)
    simpa [Msg.renderSource] using this
  rw [hr] at h2
  exact h2
end

/-- the headline: a {msg} with the identity translation installed appends byte for byte what the same {msg}
    appends without a catalogue (`g0` = `g` with no bundle; the placeholders are the same writers in both) -/
theorem msg_identity_same_as_no_catalogue (g : GEnv) (esc : Bool) (call : Registry.Tmpl → Run) (src : MsgPhBody → Bytes)
    (ρ : Bytes → Bytes) (p id : Nat) (x y : Bytes) (z : Nat) (body : MsgParts) (ctx : Scope) (st : St)
    (hfb : flatBody body = true) (b : MsgBundle) (hb : g.msgs = some b) (hid : b.message id = some (identityParts body))
    (hw : AllPh (fun b => Writes (execPh g esc call b) (push ctx st).1 (push ctx st).2.heap (ρ (src b))) body)
    (hw0 : AllPh (fun b => Writes (execPh { g with msgs := none } esc call b) (push ctx st).1 (push ctx st).2.heap (ρ (src b))) body)
    (hu : NamesAgree ρ (toR src body)) :
    (execCmd g esc call (.msg p id x y z body) ctx st).cls = .ok ∧
    (execCmd { g with msgs := none } esc call (.msg p id x y z body) ctx st).cls = .ok ∧
    bufBytes (execCmd g esc call (.msg p id x y z body) ctx st).st.out =
      bufBytes (execCmd { g with msgs := none } esc call (.msg p id x y z body) ctx st).st.out := by
  have h1 := msg_identity_translation g esc call src ρ p id x y z body ctx st hfb hw hu b hb (fun _ => 0) hid
  have h0 := execCmd_msg_eq_msgRender { g with msgs := none } esc call src ρ (fun _ => 0) p id x y z body ctx st hfb hw0
  simp only at h0
  exact ⟨h1.1, h0.1, by rw [h1.2, h0.2]⟩

/-! ### non-vacuity: `{msg}<b>{$x}</b>{/msg}` (placeholders START_BOLD, X, END_BOLD) with the translation
    `{X}: {START_BOLD}{END_BOLD}` — the hypotheses are satisfiable (html tags and a print of a variable are
    writers) and the {msg} command appends the reordered values -/

def exBody : MsgParts :=
  .ph 1 [83] (.htmlTag 1 [60, 98, 62]) (.ph 2 [88] (.cmd (.print 2 (.dataRef 2 [120] .nil) []))
    (.ph 3 [69] (.htmlTag 3 [60, 47, 98, 62]) .nil))
def exSrc : MsgPhBody → Bytes
  | .htmlTag _ t => t
  | .cmd _ => [36, 120]
def exRho (s : Bytes) : Bytes := if s == [36, 120] then [38, 108, 116, 59] else s
def exBundle : MsgBundle := { message := fun _ => some (ofMsgParts [.ph [88], .text [58, 32], .ph [83], .ph [69]]), pluralCase := fun _ => 0 }
def exG : GEnv := { reg := [], globals := [], ij := none, msgs := some exBundle, tbl := [], oblig := [] }
def exSt : St := { heap := [⟨[([120], .str [60])], false⟩], out := [], next := 5, foreign := 0 }

example (call : Registry.Tmpl → Run) :
    (execCmd exG true call (.msg 0 7 [] [] 0 exBody) [⟨0, false⟩] exSt).cls = .ok ∧
    bufBytes (execCmd exG true call (.msg 0 7 [] [] 0 exBody) [⟨0, false⟩] exSt).st.out =
      [38, 108, 116, 59, 58, 32, 60, 98, 62, 60, 47, 98, 62] := by
  have hw : AllPh (fun b => Writes (execPh exG true call b) (push [⟨0, false⟩] exSt).1 (push [⟨0, false⟩] exSt).2.heap
      (exRho (exSrc b))) exBody :=
    ⟨htmlTag_writes _ _ _ _ _ _ _, print_var_writes exG true call rfl 2 2 [120] (by decide) _ _ (.str [60]) [60]
      rfl (fun h => by cases h) rfl, htmlTag_writes _ _ _ _ _ _ _, trivial⟩
  have h := msg_translation_renders_segments exG true call exSrc exRho 0 7 [] [] 0 exBody [⟨0, false⟩] exSt (by decide) hw
    exBundle rfl [.ph [88], .text [58, 32], .ph [83], .ph [69]] rfl (by decide)
  exact h

/-- the identity translation of the same message: `<b>&lt;</b>`, what it renders without a catalogue -/
def exBundleId : MsgBundle := { message := fun _ => some (identityParts exBody), pluralCase := fun _ => 0 }
def exGId : GEnv := { reg := [], globals := [], ij := none, msgs := some exBundleId, tbl := [], oblig := [] }

theorem exNames : NamesAgree exRho (toR exSrc exBody) := by
  intro n s s' h h'
  simp only [toR, exBody, exSrc, List.mem_cons, RPart.ph.injEq, List.not_mem_nil, or_false] at h h'
  rcases h with ⟨rfl, rfl⟩ | ⟨rfl, rfl⟩ | ⟨rfl, rfl⟩ <;> rcases h' with ⟨h1, rfl⟩ | ⟨h1, rfl⟩ | ⟨h1, rfl⟩ <;>
    first | rfl | (exact absurd h1 (by decide))

example (call : Registry.Tmpl → Run) :
    (execCmd exGId true call (.msg 0 7 [] [] 0 exBody) [⟨0, false⟩] exSt).cls = .ok ∧
    bufBytes (execCmd exGId true call (.msg 0 7 [] [] 0 exBody) [⟨0, false⟩] exSt).st.out =
      [60, 98, 62, 38, 108, 116, 59, 60, 47, 98, 62] := by
  have hw : AllPh (fun b => Writes (execPh exGId true call b) (push [⟨0, false⟩] exSt).1 (push [⟨0, false⟩] exSt).2.heap
      (exRho (exSrc b))) exBody :=
    ⟨htmlTag_writes _ _ _ _ _ _ _, print_var_writes exGId true call rfl 2 2 [120] (by decide) _ _ (.str [60]) [60]
      rfl (fun h => by cases h) rfl, htmlTag_writes _ _ _ _ _ _ _, trivial⟩
  exact msg_identity_translation exGId true call exSrc exRho 0 7 [] [] 0 exBody [⟨0, false⟩] exSt (by decide) hw exNames
    exBundleId rfl (fun _ => 0) rfl

end SoyVerif.Props.C11b
