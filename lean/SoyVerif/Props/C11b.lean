/-
  C11, over the interpreter — the theorems of Props/C11.lean speak about Model/MsgRender.lean, a model of its
  own (`ρ` renders a placeholder from its source text).  This file ties Model/Eval's execution of a {msg}
  command with a bundle installed (`execCmd` → `evalMParts` / `pickPh` / `walkMsgBody`) to that model, for the
  shape

      FLAT messages: the body is raw text and placeholders (print commands, html tags, any command whose run
      only writes — `Writes`), no {plural}; the translation is raw text and placeholder parts.

  `src` labels a placeholder body with the "source text" Model/MsgRender identifies it by (any function: the
  printed source as in C11, the variable name for prints of variables); `ρ` is what that placeholder writes.
  * `evalMParts_eq_msgRender` / `walkMsgBody_eq_msgRender`: the body walk.
  * `execCmd_msg_eq_msgRender`: the {msg} command: with a translation the output grows by exactly
    `Msg.renderTranslated ρ ν sel R parts` (and the command fails where that is `none`: a placeholder the
    message does not have); without a bundle, or without a translation, by `Msg.renderSource ρ ν R`.
  * `print_var_writes`, `htmlTag_writes`: prints of variables (no directives) and html tags are such writers,
    with `ρ` = the escaped / plain text of the variable's value in the current scope.
  * the corollaries of C11 restated over `execCmd`: `msg_translation_renders_segments`, `msg_reorder_reorders`,
    `msg_unknown_placeholder`, and the identity headline: `msg_identity_translation` (the identity translation
    stated on the tree, `identityParts`: needs only `NamesAgree` — placeholders of one name write the same),
    `msg_identity_translation_po` (through `Msg.msgid` / `Msg.parts` as C11 states it, under C11's text and name
    guards), `msg_identity_same_as_no_catalogue` (the same bytes as the run without a bundle).
  {plural}: `execCmd_msg_plural_eq_msgRender` for a message that is ONE {plural} with a flat case and a flat
  default (what `pomsg.Validate` accepts), with the agreement of the two placeholder searches as hypothesis
  `hpick : PickAgrees …`, which `pickAgrees_plural` proves for that shape.  The identity translation of such a message under the two-form
  selector: `msg_plural_identity_translation`, `msg_plural_identity_same_as_no_catalogue`.  Outside: other plural
  shapes; the PO-string form (msgid / msgid_plural through `Msg.parts`) of the plural identity.
-/
import SoyVerif.Props.C11
import SoyVerif.Lemmas.ExecRefine

namespace SoyVerif.Props.C11b
open SoyVerif SoyVerif.Model SoyVerif.Model.Eval SoyVerif.Refine
open SoyVerif.Model.Msg (RPart TPart)

/-- the run writes `w` — whatever the buffer holds — and changes neither the scope nor the heap -/
def Writes (run : Run) (ctx : Scope) (heap : List Cell) (w : Bytes) : Prop :=
  ∀ st, st.heap = heap → (run ctx st).cls = .ok ∧ (run ctx st).ctx = ctx ∧ (run ctx st).st.heap = heap ∧
    bufBytes (run ctx st).st.out = bufBytes st.out ++ w

def flatBody : MsgParts → Bool
  | .nil => true
  | .text _ _ r => flatBody r
  | .ph _ _ _ r => flatBody r
  | .plural .. => false

def flatT : MParts → Bool
  | .nil => true
  | .cons (.raw _) r => flatT r
  | .cons (.ph _) r => flatT r
  | .cons (.plural _ _) _ => false

/-- the message body as Model/MsgRender sees it -/
def toR (src : MsgPhBody → Bytes) : MsgParts → List RPart
  | .nil => []
  | .text _ t r => .text t :: toR src r
  | .ph _ name b r => .ph name (src b) :: toR src r
  | .plural .. => []

/-- a translation as Model/MsgRender sees it -/
def toT : MParts → List TPart
  | .nil => []
  | .cons (.raw t) r => .text t :: toT r
  | .cons (.ph n) r => .ph n :: toT r
  | .cons (.plural _ _) r => toT r

def AllPh (P : MsgPhBody → Prop) : MsgParts → Prop
  | .nil => True
  | .text _ _ r => AllPh P r
  | .ph _ _ b r => P b ∧ AllPh P r
  | .plural .. => True

theorem isFlat_toR (src : MsgPhBody → Bytes) : ∀ body, Msg.isFlat (toR src body) = true
  | .nil => rfl
  | .text _ _ r => by simpa [toR, Msg.isFlat, Msg.RPart.isPlural] using isFlat_toR src r
  | .ph _ _ _ r => by simpa [toR, Msg.isFlat, Msg.RPart.isPlural] using isFlat_toR src r
  | .plural .. => rfl

theorem pickPh_best0 (name : Bytes) (run : Run) : ∀ (l : List (Nat × Bytes × Run)), pickPh name l (some (0, run)) = some run
  | [] => rfl
  | (d, n, r) :: l => by
    rw [pickPh]
    split
    · simp only [Nat.not_lt_zero, if_false]; exact pickPh_best0 name run l
    · exact pickPh_best0 name run l

section
variable (g : GEnv) (esc : Bool) (call : Registry.Tmpl → Run) (src : MsgPhBody → Bytes) (ρ : Bytes → Bytes)
  (ctx : Scope) (heap : List Cell)

/-- `MsgNode.Placeholder(name)` on a flat body: the interpreter picks the run of the first placeholder of that
    name, Model/MsgRender its source text -/
theorem pick_flat : ∀ (body : MsgParts), flatBody body = true →
    AllPh (fun b => Writes (execPh g esc call b) ctx heap (ρ (src b))) body → ∀ name,
    match Msg.findSrc name (toR src body) with
    | none => pickPh name (phAll g esc call body 0) none = none
    | some s => ∃ run, pickPh name (phAll g esc call body 0) none = some run ∧ Writes run ctx heap (ρ s)
  | .nil, _, _, name => by rw [phAll]; rfl
  | .text _ _ r, hf, hw, name => by
    rw [phAll]; simp only [toR, Msg.findSrc]
    exact pick_flat r (by simpa [flatBody] using hf) hw name
  | .ph _ n b r, hf, hw, name => by
    rw [phAll, pickPh]
    simp only [toR, Msg.findSrc]
    by_cases hn : (n == name) = true
    · simp only [hn, if_true]
      exact ⟨_, pickPh_best0 name _ _, hw.1⟩
    · simp only [hn, if_false, Bool.false_eq_true]
      exact pick_flat r (by simpa [flatBody] using hf) hw.2 name
  | .plural .., hf, _, _ => by simp [flatBody] at hf

variable (ν : Bytes → Int) (sel : Int → Int)

/-- `evalMsgParts` on a flat translation of a flat message = Model/MsgRender's `renderTs` -/
theorem evalMParts_eq_msgRender (body : MsgParts) (hfb : flatBody body = true)
    (hw : AllPh (fun b => Writes (execPh g esc call b) ctx heap (ρ (src b))) body) :
    ∀ (ps : MParts), flatT ps = true → ∀ st, st.heap = heap →
      match Msg.renderTs ρ ν sel (toR src body) (toT ps) with
      | some out =>
        (evalMParts g (phAll g esc call body 0) body ps ctx st).cls = .ok ∧
        (evalMParts g (phAll g esc call body 0) body ps ctx st).ctx = ctx ∧
        (evalMParts g (phAll g esc call body 0) body ps ctx st).st.heap = heap ∧
        bufBytes (evalMParts g (phAll g esc call body 0) body ps ctx st).st.out = bufBytes st.out ++ out
      | none => (evalMParts g (phAll g esc call body 0) body ps ctx st).cls = .err
  | .nil, _, st, hs => by
    rw [evalMParts]
    show (Cls.ok = Cls.ok) ∧ ctx = ctx ∧ st.heap = heap ∧ bufBytes st.out = bufBytes st.out ++ []
    exact ⟨rfl, rfl, hs, by simp⟩
  | .cons (.raw t) rest, hf, st, hs => by
    rw [evalMParts]
    have ih := evalMParts_eq_msgRender body hfb hw rest (by simpa [flatT] using hf) (write st t) hs
    simp only [toT, Msg.renderTs, Msg.renderT]
    cases hr : Msg.renderTs ρ ν sel (toR src body) (toT rest) with
    | none => rw [hr] at ih; exact ih
    | some o =>
      rw [hr] at ih
      simp only at ih ⊢
      refine ⟨ih.1, ih.2.1, ih.2.2.1, ?_⟩
      rw [ih.2.2.2, bufBytes_write, List.append_assoc]
  | .cons (.ph name) rest, hf, st, hs => by
    rw [evalMParts]
    simp only [toT, Msg.renderTs, Msg.renderT]
    rw [Msg.placeholder_flat name _ (isFlat_toR src body)]
    have hp := pick_flat g esc call src ρ ctx heap body hfb hw name
    cases hfs : Msg.findSrc name (toR src body) with
    | none =>
      rw [hfs] at hp
      simp only [hp, Option.map_none]
    | some s =>
      rw [hfs] at hp
      obtain ⟨run, hpick, hrun⟩ := hp
      obtain ⟨r1, r2, r3, r4⟩ := hrun st hs
      simp only [hpick, Option.map_some, r1]
      have ih := evalMParts_eq_msgRender body hfb hw rest (by simpa [flatT] using hf) (run ctx st).st r3
      rw [r2]
      cases hr : Msg.renderTs ρ ν sel (toR src body) (toT rest) with
      | none => rw [hr] at ih; exact ih
      | some o =>
        rw [hr] at ih
        simp only at ih ⊢
        refine ⟨ih.1, ih.2.1, ih.2.2.1, ?_⟩
        rw [ih.2.2.2, r4, List.append_assoc]
  | .cons (.plural _ _) _, hf, _, _ => by simp [flatT] at hf

/-- `walkMsgBody` on a flat message = Model/MsgRender's `renderSource` -/
theorem walkMsgBody_eq_msgRender : ∀ (body : MsgParts), flatBody body = true →
    AllPh (fun b => Writes (execPh g esc call b) ctx heap (ρ (src b))) body → ∀ st, st.heap = heap →
      (walkMsgBody g esc call body ctx st).cls = .ok ∧ (walkMsgBody g esc call body ctx st).ctx = ctx ∧
      (walkMsgBody g esc call body ctx st).st.heap = heap ∧
      bufBytes (walkMsgBody g esc call body ctx st).st.out = bufBytes st.out ++ Msg.renderSrcList ρ ν (toR src body)
  | .nil, _, _, st, hs => by
    rw [walkMsgBody]; exact ⟨rfl, rfl, hs, by simp [toR, Msg.renderSrcList]⟩
  | .text p t r, hf, hw, st, hs => by
    rw [walkMsgBody]
    obtain ⟨h1, h2, h3, h4⟩ := walkMsgBody_eq_msgRender r (by simpa [flatBody] using hf) hw (write (atNode st p) t) hs
    refine ⟨h1, h2, h3, ?_⟩
    rw [h4, bufBytes_write]
    simp [toR, Msg.renderSrcList, Msg.renderSrc, atNode]
  | .ph _ _ b r, hf, hw, st, hs => by
    rw [walkMsgBody]
    obtain ⟨r1, r2, r3, r4⟩ := hw.1 st hs
    simp only [r1]
    rw [r2]
    obtain ⟨h1, h2, h3, h4⟩ := walkMsgBody_eq_msgRender r (by simpa [flatBody] using hf) hw.2 _ r3
    refine ⟨h1, h2, h3, ?_⟩
    rw [h4, r4]
    simp [toR, Msg.renderSrcList, Msg.renderSrc]
  | .plural .., hf, _, _, _ => by simp [flatBody] at hf

end

theorem walkBlockOf_ok {body : Run} {ctx : Scope} {st : St}
    (h1 : (body (push ctx st).1 (push ctx st).2).cls = .ok) (h2 : (body (push ctx st).1 (push ctx st).2).ctx = (push ctx st).1) :
    (walkBlockOf body ctx st).cls = .ok ∧ (walkBlockOf body ctx st).ctx = ctx ∧
      (walkBlockOf body ctx st).st = (body (push ctx st).1 (push ctx st).2).st := by
  unfold walkBlockOf
  simp only [h1, h2]
  simp [push, pop]

theorem walkBlockOf_err {body : Run} {ctx : Scope} {st : St}
    (h1 : (body (push ctx st).1 (push ctx st).2).cls = .err) : (walkBlockOf body ctx st).cls = .err := by
  unfold walkBlockOf
  simp only [h1]

/-- the bridge: what a {msg} command appends, in Model/Eval, is what Model/MsgRender renders — for a flat
    message whose placeholders are writers (in the scope the message body runs in: the current scope under the
    block frame `evalMsg` pushes) -/
theorem execCmd_msg_eq_msgRender (g : GEnv) (esc : Bool) (call : Registry.Tmpl → Run) (src : MsgPhBody → Bytes)
    (ρ : Bytes → Bytes) (ν : Bytes → Int) (p id : Nat) (x : Bytes) (y : Bytes) (z : Nat) (body : MsgParts)
    (ctx : Scope) (st : St) (hfb : flatBody body = true)
    (hw : AllPh (fun b => Writes (execPh g esc call b) (push ctx st).1 (push ctx st).2.heap (ρ (src b))) body) :
    match g.msgs with
    | none =>
      (execCmd g esc call (.msg p id x y z body) ctx st).cls = .ok ∧
      bufBytes (execCmd g esc call (.msg p id x y z body) ctx st).st.out =
        bufBytes st.out ++ Msg.renderSource ρ ν (toR src body)
    | some b =>
      match b.message id with
      | none =>
        (execCmd g esc call (.msg p id x y z body) ctx st).cls = .ok ∧
        bufBytes (execCmd g esc call (.msg p id x y z body) ctx st).st.out =
          bufBytes st.out ++ Msg.renderSource ρ ν (toR src body)
      | some ps =>
        flatT ps = true →
        match Msg.renderTranslated ρ ν b.pluralCase (toR src body) (toT ps) with
        | some out =>
          (execCmd g esc call (.msg p id x y z body) ctx st).cls = .ok ∧
          bufBytes (execCmd g esc call (.msg p id x y z body) ctx st).st.out = bufBytes st.out ++ out
        | none => (execCmd g esc call (.msg p id x y z body) ctx st).cls = .err := by
  have hsrc := walkMsgBody_eq_msgRender g esc call src ρ _ _ ν body hfb hw (push ctx st).2 rfl
  have hout : (push ctx st).2.out = st.out := rfl
  rw [execCmd]
  cases hm : g.msgs with
  | none =>
    simp only
    obtain ⟨w1, w2, w3⟩ := walkBlockOf_ok (ctx := ctx) (st := st) hsrc.1 hsrc.2.1
    exact ⟨w1, by rw [w3, hsrc.2.2.2, hout]; rfl⟩
  | some b =>
    simp only
    cases hid : b.message id with
    | none =>
      simp only
      obtain ⟨w1, w2, w3⟩ := walkBlockOf_ok (ctx := ctx) (st := st) hsrc.1 hsrc.2.1
      exact ⟨w1, by rw [w3, hsrc.2.2.2, hout]; rfl⟩
    | some ps =>
      simp only
      intro hft
      have ht := evalMParts_eq_msgRender g esc call src ρ _ _ ν b.pluralCase body hfb hw ps hft (push ctx st).2 rfl
      unfold Msg.renderTranslated
      cases hr : Msg.renderTs ρ ν b.pluralCase (toR src body) (toT ps) with
      | none =>
        rw [hr] at ht
        exact walkBlockOf_err ht
      | some out =>
        rw [hr] at ht
        obtain ⟨w1, w2, w3⟩ := walkBlockOf_ok (ctx := ctx) (st := st) ht.1 ht.2.1
        exact ⟨w1, by rw [w3, ht.2.2.2, hout]⟩

/-! ### writers -/

theorem htmlTag_writes (g : GEnv) (esc : Bool) (call : Registry.Tmpl → Run) (p : Nat) (text : Bytes) (ctx : Scope)
    (heap : List Cell) : Writes (execPh g esc call (.htmlTag p text)) ctx heap text := by
  intro st hs
  rw [execPh]
  exact ⟨rfl, rfl, hs, by rw [bufBytes_write]; rfl⟩

/-- `{$k}` (no directives, none obligatory): it writes the text of the value `k` has in the scope, escaped iff
    the walk's mode flag is on -/
theorem print_var_writes (g : GEnv) (esc : Bool) (call : Registry.Tmpl → Run) (hob : g.oblig = []) (p q : Nat) (k : Bytes)
    (hk : (k == sIj) = false) (ctx : Scope) (heap : List Cell) (v : Value) (s : Bytes)
    (hv : lookup heap ctx k = v) (hu : v ≠ .undefined) (hs : str v = some s) :
    Writes (execPh g esc call (.cmd (.print p (.dataRef q k .nil) []))) ctx heap (if esc then htmlEscape s else s) := by
  intro st hst
  rw [execPh, execCmd]
  unfold evalPrint evalPrintAt evalIn
  have he : evalE (eenv g ctx (atNode (atNode st (cmdPos (.print p (.dataRef q k .nil) []))) (Expr.pos (.dataRef q k .nil))))
      (.dataRef q k .nil) (atNode (atNode st (cmdPos (.print p (.dataRef q k .nil) []))) (Expr.pos (.dataRef q k .nil))).next =
      .ok v st.next := by
    rw [evalE]
    simp only [hk, Bool.false_eq_true, if_false, evalAccesses, eenv, atNode, hst, hv]
  simp only [he]
  cases v with
  | undefined => exact absurd rfl hu
  | _ =>
    simp only [hob, obligDirs, List.map_nil, List.append_nil, runDirectives, hs]
    cases esc
    · simp [atNode, hst, write, bufBytes]
    · simp [bufBytes_writeAll, escChunks_flatten, atNode, hst, (writeAll_heap _ _).1]

/-! ### the corollaries of Props/C11 over the interpreter -/

/-- a flat translation (soymsg parts) as the interpreter's bundle holds it -/
def ofMsgParts : List Msg.MsgPart → MParts
  | [] => .nil
  | .text b :: r => .cons (.raw b) (ofMsgParts r)
  | .ph n :: r => .cons (.ph n) (ofMsgParts r)

theorem toT_ofMsgParts : ∀ ts, toT (ofMsgParts ts) = Msg.liftParts ts
  | [] => rfl
  | .text b :: r => by rw [ofMsgParts, toT, toT_ofMsgParts r]; rfl
  | .ph n :: r => by rw [ofMsgParts, toT, toT_ofMsgParts r]; rfl

theorem flatT_ofMsgParts : ∀ ts, flatT (ofMsgParts ts) = true
  | [] => rfl
  | .text _ :: r => by simpa [ofMsgParts, flatT] using flatT_ofMsgParts r
  | .ph _ :: r => by simpa [ofMsgParts, flatT] using flatT_ofMsgParts r

section
variable (g : GEnv) (esc : Bool) (call : Registry.Tmpl → Run) (src : MsgPhBody → Bytes) (ρ : Bytes → Bytes)
  (p id : Nat) (x y : Bytes) (z : Nat) (body : MsgParts) (ctx : Scope) (st : St) (hfb : flatBody body = true)
  (hw : AllPh (fun b => Writes (execPh g esc call b) (push ctx st).1 (push ctx st).2.heap (ρ (src b))) body)
  (b : MsgBundle) (hb : g.msgs = some b)
include hfb hw hb

/-- C11 `translation_renders_segments` over `execCmd`: a {msg} whose translation is the flat part list `ts`, all
    of whose placeholders the message has, appends — in the translation's order — the text segments and what the
    named placeholders write -/
theorem msg_translation_renders_segments (ts : List Msg.MsgPart) (hid : b.message id = some (ofMsgParts ts))
    (hts : ∀ t ∈ ts, (C11.segOut ρ (toR src body) t).isSome = true) :
    (execCmd g esc call (.msg p id x y z body) ctx st).cls = .ok ∧
    bufBytes (execCmd g esc call (.msg p id x y z body) ctx st).st.out =
      bufBytes st.out ++ (ts.map fun t => (C11.segOut ρ (toR src body) t).getD []).flatten := by
  have h := execCmd_msg_eq_msgRender g esc call src ρ (fun _ => 0) p id x y z body ctx st hfb hw
  rw [hb] at h
  simp only [hid] at h
  have h2 := h (flatT_ofMsgParts ts)
  rw [toT_ofMsgParts, C11.translation_renders_segments ρ (fun _ => 0) b.pluralCase (toR src body) ts hts] at h2
  exact h2

/-- C11 `reorder_reorders` over `execCmd`: a translation that reorders (repeats, omits) the segments `ts` —
    `idx` says which comes where — makes the {msg} append exactly the reordered sequence of what the segments
    write: a translation that reorders placeholders reorders exactly their rendered values -/
theorem msg_reorder_reorders (ts : List Msg.MsgPart) (hts : ∀ t ∈ ts, (C11.segOut ρ (toR src body) t).isSome = true)
    (idx : List Nat) (hidx : ∀ i ∈ idx, i < ts.length)
    (hid : b.message id = some (ofMsgParts (idx.map fun i => ts.getD i (.text [])))) :
    (execCmd g esc call (.msg p id x y z body) ctx st).cls = .ok ∧
    bufBytes (execCmd g esc call (.msg p id x y z body) ctx st).st.out =
      bufBytes st.out ++ (idx.map fun i => (C11.segOut ρ (toR src body) (ts.getD i (.text []))).getD []).flatten := by
  have h := execCmd_msg_eq_msgRender g esc call src ρ (fun _ => 0) p id x y z body ctx st hfb hw
  rw [hb] at h
  simp only [hid] at h
  have h2 := h (flatT_ofMsgParts _)
  rw [toT_ofMsgParts, C11.reorder_reorders ρ (fun _ => 0) b.pluralCase (toR src body) ts hts idx hidx] at h2
  exact h2

/-- a translation naming a placeholder the message does not have makes the {msg} command FAIL (C11
    `translation_unknown_placeholder`) -/
theorem msg_unknown_placeholder (ts₁ ts₂ : List Msg.MsgPart) (n : Bytes) (hn : Msg.placeholder n (toR src body) = none)
    (hid : b.message id = some (ofMsgParts (ts₁ ++ .ph n :: ts₂))) :
    (execCmd g esc call (.msg p id x y z body) ctx st).cls = .err := by
  have h := execCmd_msg_eq_msgRender g esc call src ρ (fun _ => 0) p id x y z body ctx st hfb hw
  rw [hb] at h
  simp only [hid] at h
  have h2 := h (flatT_ofMsgParts _)
  rw [toT_ofMsgParts, C11.translation_unknown_placeholder ρ (fun _ => 0) b.pluralCase (toR src body) ts₁ ts₂ n hn] at h2
  exact h2
end

/-! ### the identity translation -/

/-- the identity translation of a message, on the tree: its own text pieces and, for each placeholder, the
    placeholder part of the name the tree carries (assigned by `setPlaceholderNames`) -/
def identityParts : MsgParts → MParts
  | .nil => .nil
  | .text _ t r => .cons (.raw t) (identityParts r)
  | .ph _ name _ r => .cons (.ph name) (identityParts r)
  | .plural .. => .nil

theorem flatT_identityParts : ∀ body, flatT (identityParts body) = true
  | .nil => rfl
  | .text _ _ r => by simpa [identityParts, flatT] using flatT_identityParts r
  | .ph _ _ _ r => by simpa [identityParts, flatT] using flatT_identityParts r
  | .plural .. => rfl

/-- placeholders bearing one name write the same (C10 `names_distinct`: in a compiled message one name is one
    source text; here only what is needed — the same OUTPUT) -/
def NamesAgree (ρ : Bytes → Bytes) (R : List RPart) : Prop :=
  ∀ n s s', RPart.ph n s ∈ R → RPart.ph n s' ∈ R → ρ s = ρ s'

/-- Model/MsgRender: the identity translation renders what the source renders (on a sub-body of `R`) -/
theorem renderTs_identityParts (src : MsgPhBody → Bytes) (ρ : Bytes → Bytes) (ν : Bytes → Int) (sel : Int → Int)
    (R : List RPart) (hR : Msg.isFlat R = true) (hu : NamesAgree ρ R) :
    ∀ (rs : MsgParts), flatBody rs = true → (∀ x ∈ toR src rs, x ∈ R) →
      Msg.renderTs ρ ν sel R (toT (identityParts rs)) = some (Msg.renderSrcList ρ ν (toR src rs))
  | .nil, _, _ => rfl
  | .text _ t r, hf, hsub => by
    have ih := renderTs_identityParts src ρ ν sel R hR hu r (by simpa [flatBody] using hf)
      (fun x hx => hsub x (by simp [toR, hx]))
    simp only [identityParts, toT, toR, Msg.renderTs, Msg.renderT, ih, Msg.renderSrcList, Msg.renderSrc]
  | .ph _ name b r, hf, hsub => by
    have ih := renderTs_identityParts src ρ ν sel R hR hu r (by simpa [flatBody] using hf)
      (fun x hx => hsub x (by simp [toR, hx]))
    have hmem : RPart.ph name (src b) ∈ R := hsub _ (by simp [toR])
    obtain ⟨s', hs', hm'⟩ := Msg.findSrc_of_mem name (src b) R hmem
    simp only [identityParts, toT, toR, Msg.renderTs, Msg.renderT, ih, Msg.renderSrcList, Msg.renderSrc,
      Msg.placeholder_flat name R hR, hs', Option.map_some, hu name s' (src b) hm' hmem]
  | .plural .., hf, _ => by simp [flatBody] at hf

section
variable (g : GEnv) (esc : Bool) (call : Registry.Tmpl → Run) (src : MsgPhBody → Bytes) (ρ : Bytes → Bytes)
  (p id : Nat) (x y : Bytes) (z : Nat) (body : MsgParts) (ctx : Scope) (st : St) (hfb : flatBody body = true)
  (hw : AllPh (fun b => Writes (execPh g esc call b) (push ctx st).1 (push ctx st).2.heap (ρ (src b))) body)
  (hu : NamesAgree ρ (toR src body))
  (b : MsgBundle) (hb : g.msgs = some b)
include hfb hw hu hb

/-- C11 `identity_translation` over `execCmd`, on the tree: with the identity translation installed the {msg}
    command appends exactly the source rendering `Msg.renderSource` — which is what it appends without a
    catalogue (`msg_identity_same_as_no_catalogue`) -/
theorem msg_identity_translation (ν : Bytes → Int) (hid : b.message id = some (identityParts body)) :
    (execCmd g esc call (.msg p id x y z body) ctx st).cls = .ok ∧
    bufBytes (execCmd g esc call (.msg p id x y z body) ctx st).st.out =
      bufBytes st.out ++ Msg.renderSource ρ ν (toR src body) := by
  have h := execCmd_msg_eq_msgRender g esc call src ρ ν p id x y z body ctx st hfb hw
  rw [hb] at h
  simp only [hid] at h
  have h2 := h (flatT_identityParts body)
  unfold Msg.renderTranslated at h2
  rw [renderTs_identityParts src ρ ν b.pluralCase (toR src body) (isFlat_toR src body) hu body hfb (fun _ h => h)] at h2
  exact h2

/-- … and through the PO layer, as C11 states it: the catalogue entry whose msgstr is the message's msgid
    (`Msg.msgid`, split back into parts by `Msg.parts`: `newMessage [] [msgid]`), under C11's guards — no text run
    contains something of the shape `{[A-Z0-9_]+}`, the names are in `[A-Z0-9_]+` -/
theorem msg_identity_translation_po (ν : Bytes → Int)
    (hguard : Msg.NoMatch (Msg.leadText (Msg.toNList (toR src body)))) (hok : Msg.FlatOK (Msg.toNList (toR src body)))
    (ps : MParts) (hid : b.message id = some ps) (hft : flatT ps = true)
    (hps : ∃ msgid, Msg.msgid (toR src body) = some msgid ∧ toT ps = Msg.newMessage [] [msgid]) :
    (execCmd g esc call (.msg p id x y z body) ctx st).cls = .ok ∧
    bufBytes (execCmd g esc call (.msg p id x y z body) ctx st).st.out =
      bufBytes st.out ++ Msg.renderSource ρ ν (toR src body) := by
  have hR := isFlat_toR src body
  obtain ⟨mid, hmid, hps⟩ := hps
  rw [C11.msgid_flat _ hR] at hmid
  simp only [Option.some.injEq] at hmid
  subst hmid
  have h := execCmd_msg_eq_msgRender g esc call src ρ ν p id x y z body ctx st hfb hw
  rw [hb] at h
  simp only [hid] at h
  have h2 := h hft
  have hr : Msg.renderTranslated ρ ν b.pluralCase (toR src body) (toT ps) = some (Msg.renderSource ρ ν (toR src body)) := by
    rw [hps]
    show Msg.renderTs ρ ν b.pluralCase (toR src body) (Msg.liftParts (Msg.parts (Msg.writephList (toR src body)))) = _
    rw [Msg.writephList_flat _ hR, C10.parts_writeFP _ hguard hok]
    have := Msg.render_expected ρ ν b.pluralCase (toR src body) (toR src body)
      (fun n => Msg.placeholder_flat n _ hR) hu (toR src body) [] hR (fun _ h => h)
    simpa [Msg.renderSource] using this
  rw [hr] at h2
  exact h2
end

/-- the headline: a {msg} with the identity translation installed appends byte for byte what the same {msg}
    appends without a catalogue (`g0` = `g` with no bundle; the placeholders are the same writers in both) -/
theorem msg_identity_same_as_no_catalogue (g : GEnv) (esc : Bool) (call : Registry.Tmpl → Run) (src : MsgPhBody → Bytes)
    (ρ : Bytes → Bytes) (p id : Nat) (x y : Bytes) (z : Nat) (body : MsgParts) (ctx : Scope) (st : St)
    (hfb : flatBody body = true) (b : MsgBundle) (hb : g.msgs = some b) (hid : b.message id = some (identityParts body))
    (hw : AllPh (fun b => Writes (execPh g esc call b) (push ctx st).1 (push ctx st).2.heap (ρ (src b))) body)
    (hw0 : AllPh (fun b => Writes (execPh { g with msgs := none } esc call b) (push ctx st).1 (push ctx st).2.heap (ρ (src b))) body)
    (hu : NamesAgree ρ (toR src body)) :
    (execCmd g esc call (.msg p id x y z body) ctx st).cls = .ok ∧
    (execCmd { g with msgs := none } esc call (.msg p id x y z body) ctx st).cls = .ok ∧
    bufBytes (execCmd g esc call (.msg p id x y z body) ctx st).st.out =
      bufBytes (execCmd { g with msgs := none } esc call (.msg p id x y z body) ctx st).st.out := by
  have h1 := msg_identity_translation g esc call src ρ p id x y z body ctx st hfb hw hu b hb (fun _ => 0) hid
  have h0 := execCmd_msg_eq_msgRender { g with msgs := none } esc call src ρ (fun _ => 0) p id x y z body ctx st hfb hw0
  simp only at h0
  exact ⟨h1.1, h0.1, by rw [h1.2, h0.2]⟩

/-! ### {plural} messages: one {plural} with flat cases and default (what the PO format represents)

  `PickAgrees`: the interpreter's placeholder search (`pickPh` over `phAll`: smallest depth in the node tree,
  first in document order) and Model/MsgRender's (`Msg.placeholder`: breadth-first over its queue) find the
  same placeholder.  For flat bodies this is `pick_flat`; for the one-plural shape both visit the default
  before the cases (`Msg.placeholder_poPlural`; `phAll`: default at depth 2, cases at depth 3): it is a NAMED
  HYPOTHESIS of the bridge (`hpick`), discharged for that shape by `pickAgrees_plural` below. -/

def PickAgrees (ρ : Bytes → Bytes) (ctx : Scope) (heap : List Cell) (phs : List (Nat × Bytes × Run)) (R : List RPart) : Prop :=
  ∀ name, match Msg.placeholder name R with
    | none => pickPh name phs none = none
    | some s => ∃ run, pickPh name phs none = some run ∧ Writes run ctx heap (ρ s)

theorem evalIn_keeps {g : GEnv} {e : Expr} {ctx : Scope} {st st1 : St} {v : Value}
    (h : evalIn g e ctx st = some (v, st1)) : st1.heap = st.heap ∧ st1.out = st.out := by
  unfold evalIn at h
  split at h
  · simp only [Option.some.injEq, Prod.mk.injEq] at h; rw [← h.2]; exact ⟨rfl, rfl⟩
  · cases h

def flatCases : MCases → Bool
  | .nil => true
  | .cons ps r => flatT ps && flatCases r

def toTCases : MCases → List (List TPart)
  | .nil => []
  | .cons ps r => toT ps :: toTCases r

section
variable (g : GEnv) (phs : List (Nat × Bytes × Run)) (body : MsgParts) (R : List RPart) (ρ : Bytes → Bytes)
  (ν : Bytes → Int) (sel : Int → Int) (ctx : Scope) (heap : List Cell) (hp : PickAgrees ρ ctx heap phs R)
include hp

/-- `evalMsgParts` on a flat part list, for any message whose placeholder searches agree -/
theorem evalMParts_flatT : ∀ (ps : MParts), flatT ps = true → ∀ st, st.heap = heap →
      match Msg.renderTs ρ ν sel R (toT ps) with
      | some out =>
        (evalMParts g phs body ps ctx st).cls = .ok ∧ (evalMParts g phs body ps ctx st).ctx = ctx ∧
        (evalMParts g phs body ps ctx st).st.heap = heap ∧
        bufBytes (evalMParts g phs body ps ctx st).st.out = bufBytes st.out ++ out
      | none => (evalMParts g phs body ps ctx st).cls = .err
  | .nil, _, st, hs => by
    rw [evalMParts]
    show (Cls.ok = Cls.ok) ∧ ctx = ctx ∧ st.heap = heap ∧ bufBytes st.out = bufBytes st.out ++ []
    exact ⟨rfl, rfl, hs, by simp⟩
  | .cons (.raw t) rest, hf, st, hs => by
    rw [evalMParts]
    have ih := evalMParts_flatT rest (by simpa [flatT] using hf) (write st t) hs
    simp only [toT, Msg.renderTs, Msg.renderT]
    cases hr : Msg.renderTs ρ ν sel R (toT rest) with
    | none => rw [hr] at ih; exact ih
    | some o =>
      rw [hr] at ih
      simp only at ih ⊢
      refine ⟨ih.1, ih.2.1, ih.2.2.1, ?_⟩
      rw [ih.2.2.2, bufBytes_write, List.append_assoc]
  | .cons (.ph name) rest, hf, st, hs => by
    rw [evalMParts]
    simp only [toT, Msg.renderTs, Msg.renderT]
    have hpn := hp name
    cases hfs : Msg.placeholder name R with
    | none =>
      rw [hfs] at hpn
      simp only [hpn, Option.map_none]
    | some s =>
      rw [hfs] at hpn
      obtain ⟨run, hpick, hrun⟩ := hpn
      obtain ⟨r1, r2, r3, r4⟩ := hrun st hs
      simp only [hpick, Option.map_some, r1]
      have ih := evalMParts_flatT rest (by simpa [flatT] using hf) (run ctx st).st r3
      rw [r2]
      cases hr : Msg.renderTs ρ ν sel R (toT rest) with
      | none => rw [hr] at ih; exact ih
      | some o =>
        rw [hr] at ih
        simp only at ih ⊢
        refine ⟨ih.1, ih.2.1, ih.2.2.1, ?_⟩
        rw [ih.2.2.2, r4, List.append_assoc]
  | .cons (.plural _ _) _, hf, _, _ => by simp [flatT] at hf

/-- `part.Cases[pluralCaseIndex]` -/
theorem evalMCases_eq : ∀ (cs : MCases) (n : Nat), flatCases cs = true → ∀ st, st.heap = heap →
      match Msg.renderTCase ρ ν sel R (toTCases cs) n with
      | some out =>
        (evalMCases g phs body cs n ctx st).cls = .ok ∧ (evalMCases g phs body cs n ctx st).ctx = ctx ∧
        (evalMCases g phs body cs n ctx st).st.heap = heap ∧
        bufBytes (evalMCases g phs body cs n ctx st).st.out = bufBytes st.out ++ out
      | none => (evalMCases g phs body cs n ctx st).cls = .err
  | .nil, n, _, st, _ => by rw [evalMCases]; simp [toTCases, Msg.renderTCase]
  | .cons ps r, 0, hf, st, hs => by
    rw [evalMCases]
    simp only [toTCases, Msg.renderTCase]
    exact evalMParts_flatT g phs body R ρ ν sel ctx heap hp ps (by simp [flatCases] at hf; exact hf.1) st hs
  | .cons ps r, n + 1, hf, st, hs => by
    rw [evalMCases]
    simp only [toTCases, Msg.renderTCase]
    exact evalMCases_eq r n (by simp [flatCases] at hf; exact hf.2) st hs

/-- the plural clause of `evalMsgParts`: the value of the plural variable is `evalIn` of the source {plural}'s
    expression (`ν s = i`), the form is the one the bundle's `pluralCase` selects (`sel`) -/
theorem evalMParts_plural (b : MsgBundle) (hb : g.msgs = some b) (hsel : sel = b.pluralCase)
    (vn : Bytes) (ve : Expr) (s : Bytes) (hfp : findPlural body vn = some ve) (hfn : Msg.findPluralNode vn R = some s)
    (i : Int64) (hval : ∀ st, st.heap = heap → ∃ st1, evalIn g ve ctx st = some (.int i, st1)) (hν : ν s = i.toInt)
    (mcs : MCases) (hflat : flatCases mcs = true) (st : St) (hs : st.heap = heap) :
    match Msg.renderT ρ ν sel R (.plural vn (toTCases mcs)) with
    | some out =>
      (evalMParts g phs body (.cons (.plural vn mcs) .nil) ctx st).cls = .ok ∧
      (evalMParts g phs body (.cons (.plural vn mcs) .nil) ctx st).ctx = ctx ∧
      (evalMParts g phs body (.cons (.plural vn mcs) .nil) ctx st).st.heap = heap ∧
      bufBytes (evalMParts g phs body (.cons (.plural vn mcs) .nil) ctx st).st.out = bufBytes st.out ++ out
    | none => (evalMParts g phs body (.cons (.plural vn mcs) .nil) ctx st).cls = .err := by
  obtain ⟨st1, he⟩ := hval st hs
  obtain ⟨k1, k2⟩ := evalIn_keeps he
  rw [evalMParts, Msg.renderT]
  simp only [hfp, hfn, he, hb, hν, hsel]
  by_cases hneg : b.pluralCase i.toInt < 0
  · simp only [hneg, if_true]
  · simp only [hneg, if_false]
    have hc := evalMCases_eq g phs body R ρ ν sel ctx heap hp mcs (b.pluralCase i.toInt).toNat hflat st1 (k1.trans hs)
    rw [hsel] at hc
    cases hr : Msg.renderTCase ρ ν b.pluralCase R (toTCases mcs) (b.pluralCase i.toInt).toNat with
    | none => rw [hr] at hc; simp only [hc]
    | some out =>
      rw [hr] at hc
      obtain ⟨c1, c2, c3, c4⟩ := hc
      simp only [c1]
      rw [evalMParts]
      exact ⟨rfl, c2, c3, by rw [c4, k2]⟩
end

/-- `{plural $e}{case k}C{default}D{/plural}` as the whole body of a message -/
def pluralBody (pp : Nat) (vn : Bytes) (ve : Expr) (cp : Nat) (k : Int) (cbp : Nat) (C : MsgParts) (dp : Nat) (D : MsgParts) : MsgParts :=
  .plural pp vn ve (.cons cp k cbp C .nil) dp D .nil

/-- … as Model/MsgRender sees it (`s`: the label of the plural's expression) -/
def pluralR (src : MsgPhBody → Bytes) (vn s : Bytes) (k : Int) (C D : MsgParts) : List RPart :=
  [.plural vn s [(k, toR src C)] (toR src D)]

section
variable (g : GEnv) (esc : Bool) (call : Registry.Tmpl → Run) (src : MsgPhBody → Bytes) (ρ : Bytes → Bytes) (ν : Bytes → Int)
  (ctx : Scope) (heap : List Cell)
  (pp : Nat) (vn : Bytes) (ve : Expr) (cp : Nat) (k : Int) (cbp : Nat) (C : MsgParts) (dp : Nat) (D : MsgParts) (s : Bytes)
  (hC : flatBody C = true) (hD : flatBody D = true)
  (hwC : AllPh (fun b => Writes (execPh g esc call b) ctx heap (ρ (src b))) C)
  (hwD : AllPh (fun b => Writes (execPh g esc call b) ctx heap (ρ (src b))) D)
  (i : Int64) (hval : ∀ st, st.heap = heap → ∃ st1, evalIn g ve ctx st = some (.int i, st1)) (hν : ν s = i.toInt)
include hC hD hwC hwD hval hν

/-- `walkPlural` on the one-plural message = Model/MsgRender's `renderSource` -/
theorem walkMsgBody_plural (st : St) (hs : st.heap = heap) :
    (walkMsgBody g esc call (pluralBody pp vn ve cp k cbp C dp D) ctx st).cls = .ok ∧
    (walkMsgBody g esc call (pluralBody pp vn ve cp k cbp C dp D) ctx st).ctx = ctx ∧
    (walkMsgBody g esc call (pluralBody pp vn ve cp k cbp C dp D) ctx st).st.heap = heap ∧
    bufBytes (walkMsgBody g esc call (pluralBody pp vn ve cp k cbp C dp D) ctx st).st.out =
      bufBytes st.out ++ Msg.renderSource ρ ν (pluralR src vn s k C D) := by
  obtain ⟨st1, he⟩ := hval st hs
  obtain ⟨k1, k2⟩ := evalIn_keeps he
  have hs1 : st1.heap = heap := k1.trans hs
  unfold pluralBody
  rw [walkMsgBody]
  simp only [he]
  rw [walkPluralCases]
  simp only [Msg.renderSource, pluralR, Msg.renderSrcList, Msg.renderSrc, Msg.renderSrcCases, hν, List.append_nil]
  by_cases hk : (i.toInt == k) = true
  · simp only [hk, if_true]
    obtain ⟨h1, h2, h3, h4⟩ := walkMsgBody_eq_msgRender g esc call src ρ ctx heap ν C hC hwC st1 hs1
    simp only [h1]
    rw [walkMsgBody]
    exact ⟨rfl, h2, h3, by rw [h4, k2]⟩
  · simp only [hk, if_false, Bool.false_eq_true]
    rw [walkPluralCases]
    obtain ⟨h1, h2, h3, h4⟩ := walkMsgBody_eq_msgRender g esc call src ρ ctx heap ν D hD hwD st1 hs1
    simp only [h1]
    rw [walkMsgBody]
    exact ⟨rfl, h2, h3, by rw [h4, k2]⟩
end

/-- the bridge for a message that is ONE {plural} with a flat case and a flat default (the shape
    `pomsg.Validate` accepts): what the {msg} command appends in Model/Eval is what Model/MsgRender renders.
    Hypotheses: the placeholders of the case and of the default are writers; the plural's expression evaluates
    to the integer `i` in the message's scope, `ν s = i`; and `hpick`, the agreement of the two placeholder
    searches (see `PickAgrees`). -/
theorem execCmd_msg_plural_eq_msgRender (g : GEnv) (esc : Bool) (call : Registry.Tmpl → Run) (src : MsgPhBody → Bytes)
    (ρ : Bytes → Bytes) (ν : Bytes → Int) (p id : Nat) (x y : Bytes) (z : Nat) (ctx : Scope) (st : St)
    (pp : Nat) (vn : Bytes) (ve : Expr) (cp : Nat) (k : Int) (cbp : Nat) (C : MsgParts) (dp : Nat) (D : MsgParts) (s : Bytes)
    (hC : flatBody C = true) (hD : flatBody D = true)
    (hwC : AllPh (fun b => Writes (execPh g esc call b) (push ctx st).1 (push ctx st).2.heap (ρ (src b))) C)
    (hwD : AllPh (fun b => Writes (execPh g esc call b) (push ctx st).1 (push ctx st).2.heap (ρ (src b))) D)
    (i : Int64) (hval : ∀ st', st'.heap = (push ctx st).2.heap → ∃ st1, evalIn g ve (push ctx st).1 st' = some (.int i, st1))
    (hν : ν s = i.toInt)
    (hpick : PickAgrees ρ (push ctx st).1 (push ctx st).2.heap
      (phAll g esc call (pluralBody pp vn ve cp k cbp C dp D) 0) (pluralR src vn s k C D)) :
    match g.msgs with
    | none =>
      (execCmd g esc call (.msg p id x y z (pluralBody pp vn ve cp k cbp C dp D)) ctx st).cls = .ok ∧
      bufBytes (execCmd g esc call (.msg p id x y z (pluralBody pp vn ve cp k cbp C dp D)) ctx st).st.out =
        bufBytes st.out ++ Msg.renderSource ρ ν (pluralR src vn s k C D)
    | some b =>
      match b.message id with
      | none =>
        (execCmd g esc call (.msg p id x y z (pluralBody pp vn ve cp k cbp C dp D)) ctx st).cls = .ok ∧
        bufBytes (execCmd g esc call (.msg p id x y z (pluralBody pp vn ve cp k cbp C dp D)) ctx st).st.out =
          bufBytes st.out ++ Msg.renderSource ρ ν (pluralR src vn s k C D)
      | some ps =>
        ∀ mcs, ps = .cons (.plural vn mcs) .nil → flatCases mcs = true →
        match Msg.renderTranslated ρ ν b.pluralCase (pluralR src vn s k C D) [.plural vn (toTCases mcs)] with
        | some out =>
          (execCmd g esc call (.msg p id x y z (pluralBody pp vn ve cp k cbp C dp D)) ctx st).cls = .ok ∧
          bufBytes (execCmd g esc call (.msg p id x y z (pluralBody pp vn ve cp k cbp C dp D)) ctx st).st.out =
            bufBytes st.out ++ out
        | none => (execCmd g esc call (.msg p id x y z (pluralBody pp vn ve cp k cbp C dp D)) ctx st).cls = .err := by
  have hsrc := walkMsgBody_plural g esc call src ρ ν _ _ pp vn ve cp k cbp C dp D s hC hD hwC hwD i hval hν (push ctx st).2 rfl
  have hout : (push ctx st).2.out = st.out := rfl
  rw [execCmd]
  cases hm : g.msgs with
  | none =>
    simp only
    obtain ⟨w1, w2, w3⟩ := walkBlockOf_ok (ctx := ctx) (st := st) hsrc.1 hsrc.2.1
    exact ⟨w1, by rw [w3, hsrc.2.2.2, hout]⟩
  | some b =>
    simp only
    cases hid : b.message id with
    | none =>
      simp only
      obtain ⟨w1, w2, w3⟩ := walkBlockOf_ok (ctx := ctx) (st := st) hsrc.1 hsrc.2.1
      exact ⟨w1, by rw [w3, hsrc.2.2.2, hout]⟩
    | some ps =>
      simp only
      intro mcs hps hfl
      subst hps
      have hfp : findPlural (pluralBody pp vn ve cp k cbp C dp D) vn = some ve := by simp [pluralBody, findPlural]
      have hfn : Msg.findPluralNode vn (pluralR src vn s k C D) = some s := by simp [pluralR, Msg.findPluralNode]
      have ht := evalMParts_plural g _ (pluralBody pp vn ve cp k cbp C dp D) (pluralR src vn s k C D) ρ ν b.pluralCase _ _ hpick
        b hm rfl vn ve s hfp hfn i hval hν mcs hfl (push ctx st).2 rfl
      have hrt : Msg.renderTranslated ρ ν b.pluralCase (pluralR src vn s k C D) [.plural vn (toTCases mcs)] =
          (Msg.renderT ρ ν b.pluralCase (pluralR src vn s k C D) (.plural vn (toTCases mcs))).map (· ++ []) := by
        unfold Msg.renderTranslated
        rw [Msg.renderTs, Msg.renderTs]
        cases Msg.renderT ρ ν b.pluralCase (pluralR src vn s k C D) (.plural vn (toTCases mcs)) <;> rfl
      rw [hrt]
      cases hr : Msg.renderT ρ ν b.pluralCase (pluralR src vn s k C D) (.plural vn (toTCases mcs)) with
      | none =>
        rw [hr] at ht
        exact walkBlockOf_err ht
      | some out =>
        rw [hr] at ht
        obtain ⟨w1, w2, w3⟩ := walkBlockOf_ok (ctx := ctx) (st := st) ht.1 ht.2.1
        simp only [Option.map_some, List.append_nil]
        exact ⟨w1, by rw [w3, ht.2.2.2, hout]⟩

/-! ### `PickAgrees` for the one-plural shape -/

/-- the state of `pickPh`'s loop -/
def pickSt (name : Bytes) : List (Nat × Bytes × Run) → Option (Nat × Run) → Option (Nat × Run)
  | [], best => best
  | (d, n, run) :: r, best =>
    if n == name then
      match best with
      | some (bd, _) => if d < bd then pickSt name r (some (d, run)) else pickSt name r best
      | none => pickSt name r (some (d, run))
    else pickSt name r best

theorem pickPh_eq_pickSt (name : Bytes) : ∀ l best, pickPh name l best = (pickSt name l best).map (·.2)
  | [], best => rfl
  | (d, n, run) :: r, best => by
    cases best with
    | none =>
      simp only [pickPh, pickSt]
      split <;> exact pickPh_eq_pickSt name r _
    | some br =>
      obtain ⟨bd, r0⟩ := br
      simp only [pickPh, pickSt]
      split
      · split <;> exact pickPh_eq_pickSt name r _
      · exact pickPh_eq_pickSt name r _

theorem pickSt_append (name : Bytes) : ∀ a b best, pickSt name (a ++ b) best = pickSt name b (pickSt name a best)
  | [], b, best => rfl
  | (d, n, run) :: r, b, best => by
    simp only [List.cons_append, pickSt]
    split
    · split
      · split <;> exact pickSt_append name r b _
      · exact pickSt_append name r b _
    · exact pickSt_append name r b _

section
variable (g : GEnv) (esc : Bool) (call : Registry.Tmpl → Run) (src : MsgPhBody → Bytes) (ρ : Bytes → Bytes)
  (ctx : Scope) (heap : List Cell) (name : Bytes)

/-- `pickPh`'s loop over the placeholders of a flat list at depth `d`: the best so far stays when it is at depth
    ≤ `d` or the list has no placeholder of that name, else the first one of that name replaces it -/
theorem pickSt_flat (d : Nat) : ∀ (B : MsgParts), flatBody B = true →
    AllPh (fun b => Writes (execPh g esc call b) ctx heap (ρ (src b))) B → ∀ (best : Option (Nat × Run)),
    (∀ bd r, best = some (bd, r) → bd ≤ d → pickSt name (phAll g esc call B d) best = best) ∧
    (∀ (hb : ∀ bd r, best = some (bd, r) → d < bd),
      match Msg.findSrc name (toR src B) with
      | none => pickSt name (phAll g esc call B d) best = best
      | some s => ∃ run, pickSt name (phAll g esc call B d) best = some (d, run) ∧ Writes run ctx heap (ρ s))
  | .nil, _, _, best => by rw [phAll]; exact ⟨fun _ _ _ _ => rfl, fun _ => rfl⟩
  | .text _ _ r, hf, hw, best => by
    rw [phAll]; simp only [toR, Msg.findSrc]
    exact pickSt_flat d r (by simpa [flatBody] using hf) hw best
  | .ph _ n b r, hf, hw, best => by
    rw [phAll]
    simp only [pickSt, toR, Msg.findSrc]
    have ihr := pickSt_flat d r (by simpa [flatBody] using hf) hw.2
    by_cases hn : (n == name) = true
    · simp only [hn, if_true]
      refine ⟨fun bd r0 hb hle => ?_, fun hb => ?_⟩
      · subst hb
        simp only [Nat.not_lt.mpr hle, if_false]
        exact (ihr _).1 bd r0 rfl hle
      · cases best with
        | none => exact ⟨_, (ihr _).1 d _ rfl (Nat.le_refl _), hw.1⟩
        | some br =>
          obtain ⟨bd, r0⟩ := br
          simp only [hb bd r0 rfl, if_true]
          exact ⟨_, (ihr _).1 d _ rfl (Nat.le_refl _), hw.1⟩
    · simp only [hn, if_false, Bool.false_eq_true]
      exact ihr best
  | .plural .., hf, _, _ => by simp [flatBody] at hf
end

/-- the two placeholder searches agree on the one-plural shape: both look in the default first, then in the
    case (`Msg.placeholder_poPlural`; `phAll`: the default's placeholders at depth 2, the case's at depth 3) -/
theorem pickAgrees_plural (g : GEnv) (esc : Bool) (call : Registry.Tmpl → Run) (src : MsgPhBody → Bytes) (ρ : Bytes → Bytes)
    (ctx : Scope) (heap : List Cell)
    (pp : Nat) (vn : Bytes) (ve : Expr) (cp : Nat) (k : Int) (cbp : Nat) (C : MsgParts) (dp : Nat) (D : MsgParts) (s : Bytes)
    (hC : flatBody C = true) (hD : flatBody D = true)
    (hwC : AllPh (fun b => Writes (execPh g esc call b) ctx heap (ρ (src b))) C)
    (hwD : AllPh (fun b => Writes (execPh g esc call b) ctx heap (ρ (src b))) D) :
    PickAgrees ρ ctx heap (phAll g esc call (pluralBody pp vn ve cp k cbp C dp D) 0) (pluralR src vn s k C D) := by
  intro name
  unfold pluralBody pluralR
  rw [Msg.placeholder_poPlural name vn s k _ _ (isFlat_toR src C) (isFlat_toR src D)]
  rw [phAll, phAllCases, phAllCases, phAll, List.append_nil, List.append_nil, pickPh_eq_pickSt, pickSt_append]
  have hCc := (pickSt_flat g esc call src ρ ctx heap name 3 C hC hwC none).2 (fun _ _ h => by cases h)
  have findApp : Msg.findSrc name (toR src D ++ toR src C) =
      (match Msg.findSrc name (toR src D) with | some x => some x | none => Msg.findSrc name (toR src C)) := by
    induction toR src D with
    | nil => rfl
    | cons a l ih =>
      cases a with
      | ph n s0 => simp only [List.cons_append, Msg.findSrc]; split <;> simp [ih]
      | text _ => simpa [Msg.findSrc] using ih
      | plural _ _ _ _ => simpa [Msg.findSrc] using ih
  rw [findApp]
  cases hfC : Msg.findSrc name (toR src C) with
  | none =>
    rw [hfC] at hCc
    rw [hCc]
    have hDd := (pickSt_flat g esc call src ρ ctx heap name 2 D hD hwD none).2 (fun _ _ h => by cases h)
    cases hfD : Msg.findSrc name (toR src D) with
    | none => rw [hfD] at hDd; simp only [hDd]; rfl
    | some sd =>
      rw [hfD] at hDd
      obtain ⟨run, h1, h2⟩ := hDd
      exact ⟨run, by rw [h1]; rfl, h2⟩
  | some sc =>
    rw [hfC] at hCc
    obtain ⟨runC, hc1, hc2⟩ := hCc
    rw [hc1]
    have hDd := (pickSt_flat g esc call src ρ ctx heap name 2 D hD hwD (some (3, runC))).2
      (fun bd r h => by simp only [Option.some.injEq, Prod.mk.injEq] at h; omega)
    cases hfD : Msg.findSrc name (toR src D) with
    | none => rw [hfD] at hDd; simp only [hDd]; exact ⟨runC, rfl, hc2⟩
    | some sd =>
      rw [hfD] at hDd
      obtain ⟨run, h1, h2⟩ := hDd
      exact ⟨run, by rw [h1]; rfl, h2⟩

/-! ### the identity translation of a plural message -/

/-- `renderTs_identityParts` when the placeholder search of `R` is the search in a flat list `L` -/
theorem renderTs_identityParts_in (src : MsgPhBody → Bytes) (ρ : Bytes → Bytes) (ν : Bytes → Int) (sel : Int → Int)
    (R L : List RPart) (hlook : ∀ n, Msg.placeholder n R = Msg.findSrc n L) (hu : NamesAgree ρ L) :
    ∀ (rs : MsgParts), flatBody rs = true → (∀ x ∈ toR src rs, x ∈ L) →
      Msg.renderTs ρ ν sel R (toT (identityParts rs)) = some (Msg.renderSrcList ρ ν (toR src rs))
  | .nil, _, _ => rfl
  | .text _ t r, hf, hsub => by
    have ih := renderTs_identityParts_in src ρ ν sel R L hlook hu r (by simpa [flatBody] using hf)
      (fun x hx => hsub x (by simp [toR, hx]))
    simp only [identityParts, toT, toR, Msg.renderTs, Msg.renderT, ih, Msg.renderSrcList, Msg.renderSrc]
  | .ph _ name b r, hf, hsub => by
    have ih := renderTs_identityParts_in src ρ ν sel R L hlook hu r (by simpa [flatBody] using hf)
      (fun x hx => hsub x (by simp [toR, hx]))
    have hmem : RPart.ph name (src b) ∈ L := hsub _ (by simp [toR])
    obtain ⟨s', hs', hm'⟩ := Msg.findSrc_of_mem name (src b) L hmem
    simp only [identityParts, toT, toR, Msg.renderTs, Msg.renderT, ih, Msg.renderSrcList, Msg.renderSrc,
      hlook name, hs', Option.map_some, hu name s' (src b) hm' hmem]
  | .plural .., hf, _ => by simp [flatBody] at hf

/-- the identity translation of `{plural $e}{case 1}C{default}D{/plural}`: one plural part with the two forms
    [identity of C, identity of D] -/
def pluralIdentity (vn : Bytes) (C D : MsgParts) : MParts :=
  .cons (.plural vn (.cons (identityParts C) (.cons (identityParts D) .nil))) .nil

/-- the two-form selector: n = 1 → form 0, else form 1 -/
def twoForm (n : Int) : Int := if n == 1 then 0 else 1

/-- Model/MsgRender: the identity translation of the one-plural message under the two-form selector renders
    what the source renders -/
theorem render_plural_identity (src : MsgPhBody → Bytes) (ρ : Bytes → Bytes) (ν : Bytes → Int) (vn s : Bytes) (C D : MsgParts)
    (hC : flatBody C = true) (hD : flatBody D = true) (hu : NamesAgree ρ (toR src D ++ toR src C))
    (sel : Int → Int) (hsel : ∀ n, sel n = twoForm n) :
    Msg.renderTranslated ρ ν sel (pluralR src vn s 1 C D)
        [.plural vn (toTCases (.cons (identityParts C) (.cons (identityParts D) .nil)))] =
      some (Msg.renderSource ρ ν (pluralR src vn s 1 C D)) := by
  have hlook : ∀ n, Msg.placeholder n (pluralR src vn s 1 C D) = Msg.findSrc n (toR src D ++ toR src C) :=
    fun n => Msg.placeholder_poPlural n vn s 1 _ _ (isFlat_toR src C) (isFlat_toR src D)
  have hc := renderTs_identityParts_in src ρ ν sel _ _ hlook hu C hC (fun x hx => by simp [hx])
  have hd := renderTs_identityParts_in src ρ ν sel _ _ hlook hu D hD (fun x hx => by simp [hx])
  have hfn : Msg.findPluralNode vn (pluralR src vn s 1 C D) = some s := by simp [pluralR, Msg.findPluralNode]
  unfold Msg.renderTranslated
  rw [Msg.renderTs, Msg.renderTs, Msg.renderT]
  simp only [hfn, hsel, twoForm, toTCases]
  simp only [Msg.renderSource, pluralR, Msg.renderSrcList, Msg.renderSrc, Msg.renderSrcCases, List.append_nil] at hc hd ⊢
  by_cases h1 : (ν s == 1) = true
  · simp only [h1, if_true, Int.lt_irrefl, if_false, Int.toNat_zero, Msg.renderTCase]
    rw [hc]
    simp
  · simp only [h1, if_false, Bool.false_eq_true]
    have : ¬ ((1 : Int) < 0) := by decide
    simp only [this, if_false]
    show (match Msg.renderTCase ρ ν sel _ _ (1 : Int).toNat, some [] with | some a, some b => some (a ++ b) | _, _ => none) = _
    have e : (1 : Int).toNat = 1 := rfl
    rw [e, Msg.renderTCase, Msg.renderTCase, hd]
    simp

/-- C11 `identity_translation_plural` over `execCmd`: with the identity translation of the one-plural message
    installed and the two-form selector, the {msg} command appends exactly `Msg.renderSource` — what it appends
    with no bundle (`execCmd_msg_plural_eq_msgRender`, `none` branch) -/
theorem msg_plural_identity_translation (g : GEnv) (esc : Bool) (call : Registry.Tmpl → Run) (src : MsgPhBody → Bytes)
    (ρ : Bytes → Bytes) (ν : Bytes → Int) (p id : Nat) (x y : Bytes) (z : Nat) (ctx : Scope) (st : St)
    (pp : Nat) (vn : Bytes) (ve : Expr) (cp cbp : Nat) (C : MsgParts) (dp : Nat) (D : MsgParts) (s : Bytes)
    (hC : flatBody C = true) (hD : flatBody D = true)
    (hwC : AllPh (fun b => Writes (execPh g esc call b) (push ctx st).1 (push ctx st).2.heap (ρ (src b))) C)
    (hwD : AllPh (fun b => Writes (execPh g esc call b) (push ctx st).1 (push ctx st).2.heap (ρ (src b))) D)
    (i : Int64) (hval : ∀ st', st'.heap = (push ctx st).2.heap → ∃ st1, evalIn g ve (push ctx st).1 st' = some (.int i, st1))
    (hν : ν s = i.toInt) (hu : NamesAgree ρ (toR src D ++ toR src C))
    (b : MsgBundle) (hb : g.msgs = some b) (hid : b.message id = some (pluralIdentity vn C D))
    (hsel : ∀ n, b.pluralCase n = twoForm n) :
    (execCmd g esc call (.msg p id x y z (pluralBody pp vn ve cp 1 cbp C dp D)) ctx st).cls = .ok ∧
    bufBytes (execCmd g esc call (.msg p id x y z (pluralBody pp vn ve cp 1 cbp C dp D)) ctx st).st.out =
      bufBytes st.out ++ Msg.renderSource ρ ν (pluralR src vn s 1 C D) := by
  have hpick := pickAgrees_plural g esc call src ρ (push ctx st).1 (push ctx st).2.heap pp vn ve cp 1 cbp C dp D s hC hD hwC hwD
  have h := execCmd_msg_plural_eq_msgRender g esc call src ρ ν p id x y z ctx st pp vn ve cp 1 cbp C dp D s hC hD hwC hwD
    i hval hν hpick
  rw [hb] at h
  simp only [hid] at h
  have h2 := h _ rfl (by simp [flatCases, flatT_identityParts])
  rw [render_plural_identity src ρ ν vn s C D hC hD hu b.pluralCase hsel] at h2
  exact h2

/-- the headline for plural messages: with the identity translation and the two-form selector installed the
    {msg} appends byte for byte what it appends without a catalogue (`g` with no bundle) -/
theorem msg_plural_identity_same_as_no_catalogue (g : GEnv) (esc : Bool) (call : Registry.Tmpl → Run) (src : MsgPhBody → Bytes)
    (ρ : Bytes → Bytes) (ν : Bytes → Int) (p id : Nat) (x y : Bytes) (z : Nat) (ctx : Scope) (st : St)
    (pp : Nat) (vn : Bytes) (ve : Expr) (cp cbp : Nat) (C : MsgParts) (dp : Nat) (D : MsgParts) (s : Bytes)
    (hC : flatBody C = true) (hD : flatBody D = true)
    (hwC : AllPh (fun b => Writes (execPh g esc call b) (push ctx st).1 (push ctx st).2.heap (ρ (src b))) C)
    (hwD : AllPh (fun b => Writes (execPh g esc call b) (push ctx st).1 (push ctx st).2.heap (ρ (src b))) D)
    (hwC0 : AllPh (fun b => Writes (execPh { g with msgs := none } esc call b) (push ctx st).1 (push ctx st).2.heap (ρ (src b))) C)
    (hwD0 : AllPh (fun b => Writes (execPh { g with msgs := none } esc call b) (push ctx st).1 (push ctx st).2.heap (ρ (src b))) D)
    (i : Int64) (hval : ∀ st', st'.heap = (push ctx st).2.heap → ∃ st1, evalIn g ve (push ctx st).1 st' = some (.int i, st1))
    (hval0 : ∀ st', st'.heap = (push ctx st).2.heap →
      ∃ st1, evalIn { g with msgs := none } ve (push ctx st).1 st' = some (.int i, st1))
    (hν : ν s = i.toInt) (hu : NamesAgree ρ (toR src D ++ toR src C))
    (b : MsgBundle) (hb : g.msgs = some b) (hid : b.message id = some (pluralIdentity vn C D))
    (hsel : ∀ n, b.pluralCase n = twoForm n) :
    (execCmd g esc call (.msg p id x y z (pluralBody pp vn ve cp 1 cbp C dp D)) ctx st).cls = .ok ∧
    (execCmd { g with msgs := none } esc call (.msg p id x y z (pluralBody pp vn ve cp 1 cbp C dp D)) ctx st).cls = .ok ∧
    bufBytes (execCmd g esc call (.msg p id x y z (pluralBody pp vn ve cp 1 cbp C dp D)) ctx st).st.out =
      bufBytes (execCmd { g with msgs := none } esc call (.msg p id x y z (pluralBody pp vn ve cp 1 cbp C dp D)) ctx st).st.out := by
  have h1 := msg_plural_identity_translation g esc call src ρ ν p id x y z ctx st pp vn ve cp cbp C dp D s hC hD hwC hwD
    i hval hν hu b hb hid hsel
  have hpick0 := pickAgrees_plural { g with msgs := none } esc call src ρ (push ctx st).1 (push ctx st).2.heap
    pp vn ve cp 1 cbp C dp D s hC hD hwC0 hwD0
  have h0 := execCmd_msg_plural_eq_msgRender { g with msgs := none } esc call src ρ ν p id x y z ctx st pp vn ve cp 1 cbp C dp D s
    hC hD hwC0 hwD0 i hval0 hν hpick0
  simp only at h0
  exact ⟨h1.1, h0.1, by rw [h1.2, h0.2]⟩

/-- `s.eval($k)`: the value of the variable, the state unchanged but for the counter -/
theorem evalIn_var (g : GEnv) (q : Nat) (k : Bytes) (hk : (k == sIj) = false) (ctx : Scope) (st : St) :
    evalIn g (.dataRef q k .nil) ctx st = some (lookup st.heap ctx k, { st with next := st.next }) := by
  unfold evalIn
  rw [evalE]
  simp only [hk, Bool.false_eq_true, if_false, evalAccesses, eenv]

/-! ### non-vacuity: `{msg}<b>{$x}</b>{/msg}` (placeholders START_BOLD, X, END_BOLD) with the translation
    `{X}: {START_BOLD}{END_BOLD}` — the hypotheses are satisfiable (html tags and a print of a variable are
    writers) and the {msg} command appends the reordered values -/

def exBody : MsgParts :=
  .ph 1 [83] (.htmlTag 1 [60, 98, 62]) (.ph 2 [88] (.cmd (.print 2 (.dataRef 2 [120] .nil) []))
    (.ph 3 [69] (.htmlTag 3 [60, 47, 98, 62]) .nil))
def exSrc : MsgPhBody → Bytes
  | .htmlTag _ t => t
  | .cmd _ => [36, 120]
def exRho (s : Bytes) : Bytes := if s == [36, 120] then [38, 108, 116, 59] else s
def exBundle : MsgBundle := { message := fun _ => some (ofMsgParts [.ph [88], .text [58, 32], .ph [83], .ph [69]]), pluralCase := fun _ => 0 }
def exG : GEnv := { reg := [], globals := [], ij := none, msgs := some exBundle, tbl := [], oblig := [] }
def exSt : St := { heap := [⟨[([120], .str [60])], false⟩], out := [], next := 5, foreign := 0 }

example (call : Registry.Tmpl → Run) :
    (execCmd exG true call (.msg 0 7 [] [] 0 exBody) [⟨0, false⟩] exSt).cls = .ok ∧
    bufBytes (execCmd exG true call (.msg 0 7 [] [] 0 exBody) [⟨0, false⟩] exSt).st.out =
      [38, 108, 116, 59, 58, 32, 60, 98, 62, 60, 47, 98, 62] := by
  have hw : AllPh (fun b => Writes (execPh exG true call b) (push [⟨0, false⟩] exSt).1 (push [⟨0, false⟩] exSt).2.heap
      (exRho (exSrc b))) exBody :=
    ⟨htmlTag_writes _ _ _ _ _ _ _, print_var_writes exG true call rfl 2 2 [120] (by decide) _ _ (.str [60]) [60]
      rfl (fun h => by cases h) rfl, htmlTag_writes _ _ _ _ _ _ _, trivial⟩
  have h := msg_translation_renders_segments exG true call exSrc exRho 0 7 [] [] 0 exBody [⟨0, false⟩] exSt (by decide) hw
    exBundle rfl [.ph [88], .text [58, 32], .ph [83], .ph [69]] rfl (by decide)
  exact h

/-- the identity translation of the same message: `<b>&lt;</b>`, what it renders without a catalogue -/
def exBundleId : MsgBundle := { message := fun _ => some (identityParts exBody), pluralCase := fun _ => 0 }
def exGId : GEnv := { reg := [], globals := [], ij := none, msgs := some exBundleId, tbl := [], oblig := [] }

theorem exNames : NamesAgree exRho (toR exSrc exBody) := by
  intro n s s' h h'
  simp only [toR, exBody, exSrc, List.mem_cons, RPart.ph.injEq, List.not_mem_nil, or_false] at h h'
  rcases h with ⟨rfl, rfl⟩ | ⟨rfl, rfl⟩ | ⟨rfl, rfl⟩ <;> rcases h' with ⟨h1, rfl⟩ | ⟨h1, rfl⟩ | ⟨h1, rfl⟩ <;>
    first | rfl | (exact absurd h1 (by decide))

example (call : Registry.Tmpl → Run) :
    (execCmd exGId true call (.msg 0 7 [] [] 0 exBody) [⟨0, false⟩] exSt).cls = .ok ∧
    bufBytes (execCmd exGId true call (.msg 0 7 [] [] 0 exBody) [⟨0, false⟩] exSt).st.out =
      [60, 98, 62, 38, 108, 116, 59, 60, 47, 98, 62] := by
  have hw : AllPh (fun b => Writes (execPh exGId true call b) (push [⟨0, false⟩] exSt).1 (push [⟨0, false⟩] exSt).2.heap
      (exRho (exSrc b))) exBody :=
    ⟨htmlTag_writes _ _ _ _ _ _ _, print_var_writes exGId true call rfl 2 2 [120] (by decide) _ _ (.str [60]) [60]
      rfl (fun h => by cases h) rfl, htmlTag_writes _ _ _ _ _ _ _, trivial⟩
  exact msg_identity_translation exGId true call exSrc exRho 0 7 [] [] 0 exBody [⟨0, false⟩] exSt (by decide) hw exNames
    exBundleId rfl (fun _ => 0) rfl

/-! a plural message through the theorem: `{msg}{plural $n}{case 1}one{default}{$n}s{/plural}{/msg}` with the identity
    translation [one | {N}s] and the two-form selector: n = 1 gives "one", n = 5 gives "5s" -/

def plC : MsgParts := .text 3 [111, 110, 101] .nil
def plD : MsgParts := .ph 5 [78] (.cmd (.print 5 (.dataRef 5 [110] .nil) [])) (.text 6 [115] .nil)
def plBundle : MsgBundle := { message := fun _ => some (pluralIdentity [78] plC plD), pluralCase := twoForm }
def plG : GEnv := { reg := [], globals := [], ij := none, msgs := some plBundle, tbl := [], oblig := [] }
def plSt (n : Int64) : St := { heap := [⟨[([110], .int n)], false⟩], out := [], next := 5, foreign := 0 }
def plSrc : MsgPhBody → Bytes := fun _ => [36, 110]

theorem plNames (ρ : Bytes → Bytes) : NamesAgree ρ (toR plSrc plD ++ toR plSrc plC) := by
  intro n s s' h h'
  simp only [toR, plD, plC, plSrc, List.mem_append, List.mem_cons, RPart.ph.injEq, List.not_mem_nil, or_false,
    reduceCtorEq, false_or] at h h'
  rw [h.2, h'.2]

theorem plExample (call : Registry.Tmpl → Run) (n : Int64) (txt : Bytes) (hs : str (.int n) = some txt) :
    (execCmd plG true call (.msg 0 7 [] [] 0 (pluralBody 1 [78] (.dataRef 2 [110] .nil) 3 1 3 plC 4 plD)) [⟨0, false⟩] (plSt n)).cls = .ok ∧
    bufBytes (execCmd plG true call (.msg 0 7 [] [] 0 (pluralBody 1 [78] (.dataRef 2 [110] .nil) 3 1 3 plC 4 plD)) [⟨0, false⟩] (plSt n)).st.out =
      Msg.renderSource (fun _ => htmlEscape txt) (fun _ => n.toInt) (pluralR plSrc [78] [36, 110] 1 plC plD) := by
  have hwD : AllPh (fun b => Writes (execPh plG true call b) (push [⟨0, false⟩] (plSt n)).1 (push [⟨0, false⟩] (plSt n)).2.heap
      ((fun _ => htmlEscape txt) (plSrc b))) plD :=
    ⟨print_var_writes plG true call rfl 5 5 [110] (by decide) _ _ (.int n) txt rfl (fun h => by cases h) hs, trivial⟩
  have h := msg_plural_identity_translation plG true call plSrc (fun _ => htmlEscape txt) (fun _ => n.toInt) 0 7 [] [] 0
    [⟨0, false⟩] (plSt n) 1 [78] (.dataRef 2 [110] .nil) 3 3 plC 4 plD [36, 110] (by decide) (by decide) trivial hwD n
    (fun st' h' => ⟨_, by rw [evalIn_var plG 2 [110] (by decide), h']; rfl⟩) rfl (plNames _) plBundle rfl rfl (fun _ => rfl)
  simpa [plSt, bufBytes] using h

example (call : Registry.Tmpl → Run) :
    bufBytes (execCmd plG true call (.msg 0 7 [] [] 0 (pluralBody 1 [78] (.dataRef 2 [110] .nil) 3 1 3 plC 4 plD)) [⟨0, false⟩] (plSt 1)).st.out
      = [111, 110, 101] ∧
    bufBytes (execCmd plG true call (.msg 0 7 [] [] 0 (pluralBody 1 [78] (.dataRef 2 [110] .nil) 3 1 3 plC 4 plD)) [⟨0, false⟩] (plSt 5)).st.out
      = [53, 115] := by
  refine ⟨?_, ?_⟩
  · rw [(plExample call 1 [49] (by decide)).2]; decide
  · rw [(plExample call 5 [53] (by decide)).2]; decide

end SoyVerif.Props.C11b
