/-
  C18, file mode: `parse.SoyFile` leaves no lexer goroutine behind — neither the one it starts
  for the file nor the nested ones `parseQuotedExpr` starts for quoted attribute expressions.

  Real code (parse.go): `SoyFile` starts `lex(name, text)` and defers `t.recover`; on a
  non-runtime panic (every `t.errorf`) `recover` calls `t.lex.drain()`; after a successful
  `itemList(itemEOF)` the parser has received the EOF item, the last thing the lexer sends before
  it closes the channel — and since /repo d0c22f5 `SoyFile` drains there too, so the scanner is
  gone (not merely about to exit) when the call returns: `fileEntry_drained`, which needs NO
  assumption on the token list.  `parseQuotedExpr` starts
  `lexExpr("", str)` and `defer tt.lex.drain()`s it on every way out.

  With the channel transition system of Model/Conc.lean (`producer_exits_iff`, Props/C18.lean:
  the producer exits iff the consumer received at least as many items as were produced, or
  drained):
  * `fileEntry_drains` — on a token list whose EOF item is only ever the last one, every
    normal return of `SoyFile` (a tree, or an error at any token — lexer error items and errors
    re-raised from a quoted expression included) either called drain or received every item;
  * `fileEntry_no_leak` — hence the lexer goroutine exits under every interleaving;
  * `soyFile_no_leak` — for EVERY input: the lexer model's token list has that shape
    (`lex_eof_last`), and `SoyFile` returns normally (`parse_source_no_panic`,
    `parse_source_total`);
  * `quotedEntry_no_leak` — the nested lexer of a quoted expression is always drained, whether
    the nested parser succeeds or fails, and `parseQuotedExpr` is `quotedEntry` on the nested
    lexer's items (`parseQuotedExpr_eq`).
-/
import SoyVerif.Props.C18
import SoyVerif.Props.C05parse

namespace SoyVerif.Props.C18
open SoyVerif SoyVerif.Model SoyVerif.Model.Conc SoyVerif.Model.Parser SoyVerif.Model.FileParser
open SoyVerif.Lemmas.ParserSafe SoyVerif.Props.C05

/-- the EOF item, if any, is the last item of the list -/
def EOFLast (items : List Item) : Prop := ∀ x ∈ items.dropLast, x.typ ≠ .tEOF

/-- the outcome of the file parser's top loop, as `fileEntry` classifies it -/
theorem fileEntry_cases (pf : Bytes → Option UInt64) (items : List Item) (hel : EOFLast items) :
    let o := fileEntry pf (exprFuel items) items
    (∃ ns, o.result = .ok ns ∧ o.received = items.length) ∨
    (∃ p, o.result = .error (.err p) ∧ o.drainCalled = true) ∨ o.result = .error .panic := by
  have h := top_safe pf True ⟨True, False⟩ (fun _ => True) trivial items (fun _ _ => trivial)
    (fun _ _ => Or.inl trivial) (fun _ _ _ _ _ => Or.inl trivial) (fun _ => hel) (fun h => absurd h id)
  unfold FSafe at h
  simp only
  unfold fileEntry
  simp only [StateT.run]
  split
  · rename_i pos nodes st he
    rw [he] at h
    have hr := h.2.1 trivial
    left
    exact ⟨_, rfl, by simp [hr]⟩
  · right; right; rfl
  · right; left; exact ⟨_, rfl, rfl⟩
  · right; right; rfl
  · rename_i he
    rw [he] at h
    exact absurd h id

/-- every normal return of `parse.SoyFile` has drained the channel or received every item -/
theorem fileEntry_drains (pf : Bytes → Option UInt64) (items : List Item) (hel : EOFLast items)
    (hres : (∃ ns, (fileEntry pf (exprFuel items) items).result = .ok ns) ∨
      (∃ p, (fileEntry pf (exprFuel items) items).result = .error (.err p))) :
    (fileEntry pf (exprFuel items) items).drainCalled = true ∨
      items.length ≤ (fileEntry pf (exprFuel items) items).received := by
  rcases fileEntry_cases pf items hel with ⟨ns, _, hr⟩ | ⟨p, _, hd⟩ | hp
  · exact Or.inr (by omega)
  · exact Or.inl hd
  · rcases hres with ⟨ns, h⟩ | ⟨p, h⟩ <;> rw [hp] at h <;> simp at h

/-- every normal return of `parse.SoyFile` — a tree or an error — HAS CALLED drain, on any token list
    whatever (since /repo d0c22f5 also after a successful parse) -/
theorem fileEntry_drained (pf : Bytes → Option UInt64) (ef : Nat) (items : List Item)
    (hres : (∃ ns, (fileEntry pf ef items).result = .ok ns) ∨ (∃ p, (fileEntry pf ef items).result = .error (.err p))) :
    (fileEntry pf ef items).drainCalled = true ∧ (fileEntry pf ef items).drained = true := by
  unfold fileEntry at hres ⊢
  simp only [StateT.run] at hres ⊢
  split
  · exact ⟨rfl, rfl⟩
  · rename_i he; simp only [he] at hres; rcases hres with ⟨_, h⟩ | ⟨_, h⟩ <;> simp at h
  · exact ⟨rfl, rfl⟩
  · rename_i he; simp only [he] at hres; rcases hres with ⟨_, h⟩ | ⟨_, h⟩ <;> simp at h
  · rename_i he; simp only [he] at hres; rcases hres with ⟨_, h⟩ | ⟨_, h⟩ <;> simp at h

/-- … hence, by `producer_exits_iff`, the lexer goroutine of that call has exited in every
    interleaving (`k` = the receives the parser performed, at least `received`) -/
theorem fileEntry_no_leak (pf : Bytes → Option UInt64) (items : List Item) (hel : EOFLast items)
    (hres : (∃ ns, (fileEntry pf (exprFuel items) items).result = .ok ns) ∨
      (∃ p, (fileEntry pf (exprFuel items) items).result = .error (.err p)))
    (k : Nat) (hk : (fileEntry pf (exprFuel items) items).received ≤ k) (t : St)
    (hr : Reach ⟨items.length, false, program k (fileEntry pf (exprFuel items) items).drainCalled⟩ t)
    (hs : Stuck t) : producerDone t = true := by
  have h := (producer_exits_iff items.length k _ t hr hs).2
  apply h.2
  rcases fileEntry_drains pf items hel hres with hd | hn
  · exact Or.inr hd
  · exact Or.inl (by omega)

/-- the nested lexer of a quoted attribute expression is drained on every way out -/
theorem quotedEntry_drains (pf : Bytes → Option UInt64) (items : List Item) :
    (quotedEntry pf items).drainCalled = true := by
  unfold quotedEntry
  split <;> rfl

theorem quotedEntry_no_leak (pf : Bytes → Option UInt64) (items : List Item) (k : Nat) (t : St)
    (hr : Reach ⟨items.length, false, program k (quotedEntry pf items).drainCalled⟩ t) (hs : Stuck t) :
    producerDone t = true := by
  rw [quotedEntry_drains] at hr
  exact ((producer_exits_iff items.length k true t hr hs).2).2 (Or.inr rfl)

/-- `parseQuotedExpr(str)` is `quotedEntry` on the items of the nested lexer: the tree on
    success (moved to the enclosing parser's current token, `setPos`), `t.errorf` of the
    enclosing parser on a nested error -/
theorem parseQuotedExpr_eq (pf : Bytes → Option UInt64) (str : Bytes) (is : List Item) (st : FState)
    (hl : Lex.lexAll str true = .items is) :
    parseQuotedExpr pf str st =
      match (quotedEntry pf is).result with
      | .ok e =>
        (match Parser.errPos st.p with
         | .ok p => .ok (reposition p e, st)
         | .error _ => .error .panic)
      | .error (.err _) => (FileParser.errorf : FP Expr) st
      | .error .panic => .error .panic
      | .error .fuelOut => .error .fuelOut := by
  unfold parseQuotedExpr quotedEntry
  rw [hl]
  simp only
  cases (Parser.parseExpr pf (Parser.fuelFor is.length) 0).run (Parser.initState is) with
  | ok r => rfl
  | error e => cases e <;> rfl

/-- for EVERY input: `parse.SoyFile` returns a tree or a positioned error, and in either case
    its lexer goroutine can finish -/
theorem soyFile_no_leak (pf : Bytes → Option UInt64) (input : Bytes) :
    ∃ is, Lex.lexAll input false = .items is ∧
      ((∃ ns, (fileEntry pf (exprFuel is) is).result = .ok ns) ∨
        (∃ p, (fileEntry pf (exprFuel is) is).result = .error (.err p))) ∧
      ((fileEntry pf (exprFuel is) is).drainCalled = true ∨
        is.length ≤ (fileEntry pf (exprFuel is) is).received) := by
  obtain ⟨is, hl, _⟩ := lex_items input false
  have hel : EOFLast is := lex_eof_last input false is hl
  refine ⟨is, hl, ?_, ?_⟩
  · rcases fileEntry_cases pf is hel with ⟨ns, h, _⟩ | ⟨p, h, _⟩ | hp
    · exact Or.inl ⟨ns, h⟩
    · exact Or.inr ⟨p, h⟩
    · -- a panic is impossible: the same run is `parseFile`, which never panics on lexer output
      exfalso
      have hnp := parse_no_panic_of_wf pf is (lex_wf input false is hl) lexWF
      apply hnp
      unfold fileEntry at hp
      unfold parseFile
      simp only [StateT.run] at hp ⊢
      split at hp <;> simp_all
  · rcases fileEntry_cases pf is hel with ⟨ns, _, hr⟩ | ⟨p, _, hd⟩ | hp
    · exact Or.inr (by omega)
    · exact Or.inl hd
    · exfalso
      have hnp := parse_no_panic_of_wf pf is (lex_wf input false is hl) lexWF
      apply hnp
      unfold fileEntry at hp
      unfold parseFile
      simp only [StateT.run] at hp ⊢
      split at hp <;> simp_all

/- Non-vacuity.  A quoted expression whose nested parser FAILS after one receive (the real
   `{call .u data="$x +"/}`: items `$x`, `+`, then the lexer's Error item "unclosed tag"):
   the nested lexer has 3 items, the nested parser received 3 of them … or only 1 — with the
   deferred drain the producer exits either way, without it (program 1 false) it would not. -/
example : ∃ t, Reach ⟨3, false, program 1 true⟩ t ∧ Stuck t ∧ producerDone t = true :=
  ⟨⟨0, true, []⟩,
   Reach.step (Step.sendRecv 2 _) (Reach.step (Step.sendDrain 1 _) (Reach.step (Step.sendDrain 0 _)
     (Reach.step (Step.close _) (Reach.step (Step.drainClosed _) (Reach.refl _))))),
   stuck_nil_closed, rfl⟩

example : ∃ t, Reach ⟨3, false, program 1 false⟩ t ∧ Stuck t ∧ producerDone t = false :=
  ⟨⟨2, false, []⟩, Reach.step (Step.sendRecv 2 _) (Reach.refl _), stuck_nil_open 1, rfl⟩

/-- the nested parse of `$x +` on its token list fails, and is drained -/
example : ∃ pf : Bytes → Option UInt64,
    (quotedEntry pf [⟨.tDollarIdent, 2, [36, 120]⟩, ⟨.tAdd, 4, [43]⟩, ⟨.tError, 4, []⟩]).result = .error (.err 4) ∧
    (quotedEntry pf [⟨.tDollarIdent, 2, [36, 120]⟩, ⟨.tAdd, 4, [43]⟩, ⟨.tError, 4, []⟩]).drainCalled = true :=
  ⟨fun _ => none, by rfl, by rfl⟩

set_option maxHeartbeats 4000000 in
/-- `{$x +}`: the parser fails at `}`; `recover` drains -/
example : (fileEntry (fun _ => none) 104 [⟨.tLeftDelim, 1, [123]⟩, ⟨.tDollarIdent, 3, [36, 120]⟩, ⟨.tAdd, 5, [43]⟩,
      ⟨.tRightDelim, 6, [125]⟩, ⟨.tEOF, 6, []⟩]).result = .error (.err 6) ∧
    (fileEntry (fun _ => none) 104 [⟨.tLeftDelim, 1, [123]⟩, ⟨.tDollarIdent, 3, [36, 120]⟩, ⟨.tAdd, 5, [43]⟩,
      ⟨.tRightDelim, 6, [125]⟩, ⟨.tEOF, 6, []⟩]).drainCalled = true := ⟨by rfl, by rfl⟩

/-- `hi`: success — every item received, and the channel drained before SoyFile returns (/repo d0c22f5) -/
example : (fileEntry (fun _ => none) 80 [⟨.tText, 2, [104, 105]⟩, ⟨.tEOF, 2, []⟩]).drainCalled = true ∧
    (fileEntry (fun _ => none) 80 [⟨.tText, 2, [104, 105]⟩, ⟨.tEOF, 2, []⟩]).received = 2 := ⟨by rfl, by rfl⟩

end SoyVerif.Props.C18
