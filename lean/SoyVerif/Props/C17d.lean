/-
  C17 — a print command INSIDE A BODY, at byte level: `text₁ ++ PrintNode.String() ++ text₂`.

  The lexer layer of C17b/C17c (`L tg …`, now parameterised by `tagStart`) lexes the print tag at ANY offset
  (`C17c.print_tag_run`); the text runs around it are lexed by the cut theorems of C15b/C15c (`lexText_text_open`,
  `lexText_text_eof`).  Text pieces are C15c's: empty, or `textOK` (ASCII, no braces, no comment opener).

  * `print_cmd_in_body_roundtrip`: one command between two text runs.
  * `body_source_spec_cmds`: the sibling of C15c's `body_source_spec` for bodies of text runs and ARBITRARY print commands,
    any number of them (`CBody`): `lexAll` = the exact items (`itemsOfC`, END offsets), `parseSource` = the RawText / Print
    nodes in order, print nodes modulo positions (`NodesMatch`).  Steps: `seg_run_cmd`, `lex_cbody`; `loop_text`,
    `loop_print`, `loop_eof`, `parse_cbody`.
  * `template_frame_spec`: the same inside `{template .name}` … `{/template}`: the exact items of the frame (`lex_frame`:
    `open_tag_run`, `lex_cbody_open`, `close_tag_run`) and the template node whose body list matches (`template_body`,
    `parse_cbody_until`, `loop_close`).
  * `namespace_frame_spec`: a complete minimal file `{namespace ns}⏎{template .nm}` body `{/template}⏎` (`lex_nsfile`:
    `ns_tag_run`, `frame_run`; `namespace_tag`, `textOrTag_begin`).  Not covered: a soydoc `/** */` in front of the template
    (no exact lemmas for `lexSoyDoc`).
-/
import SoyVerif.Props.C17c
import SoyVerif.Props.C15c

set_option linter.unusedVariables false
set_option linter.unusedSectionVars false
set_option linter.unusedSimpArgs false

namespace SoyVerif.Props.C17d
open SoyVerif SoyVerif.Model SoyVerif.Model.Lex SoyVerif.Model.Parser SoyVerif.Model.PrintTokens
open SoyVerif.Model.Printer SoyVerif.Lemmas.LexPrint SoyVerif.Lemmas.ParserBasic
open SoyVerif.Props.C17c
open SoyVerif.Props.C15c (Holds textOK textItem TextByte dropped)
open SoyVerif.Props.C15b (textItems)

/-! ## the two views of "the input from `q` on" -/

theorem holds_of_inpAt {inp : Array UInt8} {q : Nat} {s post : Bytes} (h : InpAt inp q (s ++ post)) : Holds inp q s := by
  obtain ⟨pre, rfl, rfl⟩ := h
  intro i hi
  refine ⟨by simp; omega, ?_⟩
  unfold byteAt
  simp [Array.getD_eq_getD_getElem?, List.getD_eq_getElem?_getD, List.getElem?_append_right, List.getElem?_append_left, hi]

theorem byteAt_of_inpAt {inp : Array UInt8} {q : Nat} {b : UInt8} {s : Bytes} (h : InpAt inp q (b :: s)) :
    q < inp.size ∧ byteAt inp q = b.toNat := by
  have ⟨h1, h2⟩ := inpAt_get h
  exact ⟨h1, by unfold byteAt; rw [h2]⟩

/-- `lexLeftDelim` on ANY lexer record at a single `{` (C15c's `lexLeftDelim_mk` for an arbitrary next byte) -/
theorem lexLeftDelim_any (inp : Array UInt8) (q : Nat) (w : Int) (dd : Bool) (ts : Int) (le : Item) (its : Array Item)
    (c : Nat) (hq : q + 1 < inp.size) (hb0 : byteAt inp q = 123) (hb1 : byteAt inp (q + 1) = c) (hc : c < 128) (hne : c ≠ 123) :
    lexLeftDelim (Lexer.mk inp q q w dd ts le its) =
      some (some .beginTag, Lexer.mk inp ((q + 1 : Nat) : Int) ((q + 1 : Nat) : Int) 1 false q
        ⟨.tLeftDelim, q + 1, (inp.extract q (q + 1)).toList⟩
        (its.push ⟨.tLeftDelim, q + 1, (inp.extract q (q + 1)).toList⟩)) := by
  unfold lexLeftDelim
  simp only [bind, Option.bind]
  rw [C15c.next_mk inp q q w dd q le its 123 (by omega) hb0 (by omega)]
  simp only
  rw [C15c.next_mk inp (q + 1) q 1 dd q le its c (by omega) hb1 hc]
  simp only [Int.cast_ofNat_Int, show ¬ ((c : Int) = 123) by omega, if_false]
  rw [C15c.backup_mk]
  simp only
  rw [C15c.emit_mk inp q (q + 1) 1 false q le its .tLeftDelim (by omega) (by omega)]
  rfl

section
variable (ff : UInt64 → Bytes) (LT : LexTableOK)
include LT

/-- the items `lex` sends for `t1 ++ {print command} ++ t2` -/
def bodyItems (t1 t2 : Bytes) (arg : Expr) (dirs : List Directive) : List Item :=
  textItem t1 t1.length ++ tagItems ff t1.length arg dirs ++
    textItem t2 (t1.length + (printPrint ff arg dirs).length + t2.length) ++
    [⟨.tEOF, t1.length + (printPrint ff arg dirs).length + t2.length, []⟩]

/-- BYTE LEVEL, a print command between two text runs: the Text item of `t1` (none if it is empty or all whitespace with
    a line break), the items of the tag (positions shifted by `t1.length`), the Text item of `t2`, EOF -/
theorem lex_text_cmd_text (t1 t2 : Bytes) (h1 : t1 = [] ∨ textOK t1) (h2 : t2 = [] ∨ textOK t2)
    (arg : Expr) (dirs : List Directive) (h : CmdOk ff arg dirs) :
    lexAll (t1 ++ printPrint ff arg dirs ++ t2) false = .items (bodyItems ff t1 t2 arg dirs) := by
  obtain ⟨c, s, hB, hc, hc1, hc2, hc3⟩ := body_first_byte ff LT arg dirs h
  let inp := (t1 ++ printPrint ff arg dirs ++ t2).toArray
  have hI0 : InpAt inp 0 (t1 ++ (printPrint ff arg dirs ++ t2)) := ⟨[], by simp [inp], rfl⟩
  have hIq : InpAt inp (0 + t1.length) (printPrint ff arg dirs ++ t2) := inpAt_append hI0
  rw [Nat.zero_add] at hIq
  have hIq' : InpAt inp t1.length (123 :: c :: (s ++ 125 :: t2)) := by
    have := hIq; rw [spell_body, hB] at this; simpa using this
  have hlenP : (printPrint ff arg dirs).length = 1 + (spell (piecesBody ff arg dirs)).length + 1 := by
    rw [spell_body]; simp; omega
  have hIe : InpAt inp (t1.length + 1 + (spell (piecesBody ff arg dirs)).length + 1) (t2 ++ []) := by
    have := inpAt_append hIq; rw [hlenP] at this; simpa [Nat.add_assoc] using this
  have hsize : inp.size = t1.length + (printPrint ff arg dirs).length + t2.length := by simp [inp]; omega
  obtain ⟨hq0, hb0⟩ := byteAt_of_inpAt hIq'
  obtain ⟨hq1, hb1⟩ := byteAt_of_inpAt (inpAt_tail hIq')
  have hH1 : Holds inp 0 t1 := holds_of_inpAt hI0
  have hH2 : Holds inp (t1.length + 1 + (spell (piecesBody ff arg dirs)).length + 1) t2 := holds_of_inpAt hIe
  -- text 1
  obtain ⟨w1, dd1, ts1, le1, its1, hlx, hits1⟩ := C15c.lexText_text_open inp 0 t1.length 0 false 0 Item.zero #[]
    (by omega) (C15c.text_bytes hH1 h1 (Or.inr (by simp only [Nat.zero_add]; rw [hb0]; decide)))
    (by simp only [Nat.zero_add]; rw [hb0]; rfl)
  simp only [Nat.zero_add] at hlx hits1
  -- `{`
  have hld := lexLeftDelim_any inp t1.length w1 dd1 ts1 le1 its1 c.toNat (by omega) (by rw [hb0]; rfl) hb1
    (by have : c.toNat < 128 := hc; exact this)
    (by intro e; apply hc1; apply UInt8.toNat_inj.mp; simpa using e)
  have hex : (inp.extract t1.length (t1.length + 1)).toList = [123] :=
    inpAt_extract (v := [123]) (s := c :: (s ++ 125 :: t2)) hIq'
  rw [hex] at hld
  -- the tag
  have hadj := adj_body ff LT arg dirs h (125 :: t2) (closer_rbrace t2)
  have hchain := chain_body ff arg dirs
  have hin1 : InpAt inp (t1.length + 1) (spell (piecesBody ff arg dirs) ++ 125 :: t2) := by
    have := inpAt_tail hIq'; rw [hB]; simpa using this
  have hin1' : InpAt inp (t1.length + 1) (c :: (s ++ 125 :: t2)) := inpAt_tail hIq'
  have hinq : InpAt inp (t1.length + 1 + (spell (piecesBody ff arg dirs)).length) (125 :: t2) := inpAt_append hin1
  have hlen := adj_length _ _ hadj
  obtain ⟨k, hk, hrun⟩ := lex_pieces_tail (tg := (t1.length : Int)) LT (inp := inp) (125 :: t2) (piecesBody ff arg dirs)
    (t1.length + 1) ⟨.tLeftDelim, t1.length + 1, [123]⟩ (its1.push ⟨.tLeftDelim, t1.length + 1, [123]⟩) hin1 hadj hchain
  -- text 2 and EOF
  have hb2 : byteAt inp (t1.length + 1 + (spell (piecesBody ff arg dirs)).length + 1 + t2.length) = 0 :=
    C15c.byteAt_beyond (by omega)
  unfold lexAll
  simp only [Bool.false_eq_true, if_false]
  obtain ⟨F, hF⟩ : ∃ F, Lex.fuelFor (t1 ++ printPrint ff arg dirs ++ t2).length = ((((F + 1) + 2 + k) + 1) + 1) + 1 := by
    refine ⟨Lex.fuelFor (t1 ++ printPrint ff arg dirs ++ t2).length - (k + 6), ?_⟩
    unfold Lex.fuelFor
    simp only [List.length_append, hlenP]
    omega
  rw [hF]
  have e0 : initLexer (t1 ++ printPrint ff arg dirs ++ t2) = Lexer.mk inp ((0 : Nat) : Int) ((0 : Nat) : Int) 0 false 0 Item.zero #[] := rfl
  rw [e0, C15c.run_succ (show step .text _ = _ from hlx), C15c.run_succ (show step .leftDelim _ = _ from hld)]
  have e1 : Lexer.mk inp ((t1.length + 1 : Nat) : Int) ((t1.length + 1 : Nat) : Int) 1 false (t1.length : Int)
      ⟨.tLeftDelim, t1.length + 1, [123]⟩ (its1.push ⟨.tLeftDelim, t1.length + 1, [123]⟩) =
      L (t1.length : Int) inp (t1.length + 1) (t1.length + 1) 1 ⟨.tLeftDelim, t1.length + 1, [123]⟩
        (its1.push ⟨.tLeftDelim, t1.length + 1, [123]⟩) := rfl
  rw [e1, run_step (step_beginTag hin1' hc hc2 hc3 1 _ _)]
  obtain ⟨w', le', its', hr1, hr2⟩ := hrun 1 (F + 1 + 2)
  rw [hr1, run_step (step_rbrace hinq w' le' its'), run_step (step_rightDelim hinq le' its')]
  obtain ⟨lf, hl1, hl2⟩ := C15c.lexText_text_eof inp (t1.length + 1 + (spell (piecesBody ff arg dirs)).length + 1) t2.length 1 false
    (t1.length : Int) ⟨.tRightDelim, t1.length + 1 + (spell (piecesBody ff arg dirs)).length + 1, [125]⟩
    (its'.push ⟨.tRightDelim, t1.length + 1 + (spell (piecesBody ff arg dirs)).length + 1, [125]⟩) (by omega)
    (C15c.text_bytes hH2 h2 (Or.inr (by rw [hb2]; decide)))
  have e2 : L (t1.length : Int) inp (t1.length + 1 + (spell (piecesBody ff arg dirs)).length + 1)
      (t1.length + 1 + (spell (piecesBody ff arg dirs)).length + 1) 1
      ⟨.tRightDelim, t1.length + 1 + (spell (piecesBody ff arg dirs)).length + 1, [125]⟩
      (its'.push ⟨.tRightDelim, t1.length + 1 + (spell (piecesBody ff arg dirs)).length + 1, [125]⟩) =
      Lexer.mk inp ((t1.length + 1 + (spell (piecesBody ff arg dirs)).length + 1 : Nat) : Int)
        ((t1.length + 1 + (spell (piecesBody ff arg dirs)).length + 1 : Nat) : Int) 1 false (t1.length : Int)
        ⟨.tRightDelim, t1.length + 1 + (spell (piecesBody ff arg dirs)).length + 1, [125]⟩
        (its'.push ⟨.tRightDelim, t1.length + 1 + (spell (piecesBody ff arg dirs)).length + 1, [125]⟩) := rfl
  rw [e2, C15c.run_end (show step .text _ = _ from hl1), hl2, C15c.textItems_holds hH2]
  have ht1 := C15c.textItems_holds hH1
  simp only [Nat.zero_add] at ht1
  simp only [Array.toList_push, hr2, hits1, ht1]
  simp [bodyItems, tagItems, hlenP, Nat.add_assoc, Nat.add_comm, Nat.add_left_comm]

end

/-! ## the parser on these items -/

section
open SoyVerif.Model.FileParser (FState FP Node NodeList textOrTag itemListLoop skipComments collectText rawtextP parseFile parseSource)
open SoyVerif.Spec (joinLines)
open SoyVerif.Props.C15c (textNodes toList_append)

/-- the token of a text piece (none for the empty and the dropped ones) -/
def textTk (t : Bytes) : List Tk := if 0 < t.length ∧ dropped t = false then [⟨.tText, t⟩] else []

theorem textTk_len (t : Bytes) : (textTk t).length ≤ 1 := by
  unfold textTk; split <;> simp

theorem textItem_tk (t : Bytes) (e : Nat) : (textItem t e).map Item.tk = textTk t := by
  unfold textItem textTk
  split <;> rfl

variable (pf : Bytes → Option UInt64)

/-- `textOrTag` handed a single Text token that is followed by a token `nx` of another type: the RawText node of the
    normalised text (none if that is empty); `nx` stays unread -/
theorem textOrTag_text1 (ef fuel : Nat) (untl : List ItemType) (hu : untl.contains .tText = false) (t : Item)
    (ht : t.typ = .tText) (nx : Tk) (hnx : nx.typ ≠ .tText) (s : List Tk) (st : FState) (hst : At st.p (nx :: s)) :
    ∃ p', textOrTag pf ef (fuel + 2) t untl st =
        .ok ((if (joinLines t.val false (nx.typ == .tComment)).isEmpty then none
              else some (.rawText t.pos (joinLines t.val false (nx.typ == .tComment))), false), { st with p := p' }) ∧
      At p' (nx :: s) := by
  obtain ⟨n1, p1, hn1, hty1, hv1, hj1⟩ := fnext_at hst
  obtain ⟨p2, hb2, ha2⟩ := fbackup_just (st := { st with p := p1 }) hj1
  rw [tk_eq hty1 hv1] at ha2
  obtain ⟨n3, p3, hn3, hty3, hv3, hj3⟩ := fnext_at (st := { st with p := p2 }) ha2.at
  obtain ⟨p4, hb4, ha4⟩ := fbackup_just (st := { st with p := p3 }) hj3
  rw [tk_eq hty3 hv3] at ha4
  refine ⟨p4, ?_, ha4.at⟩
  have hct : collectText (fuel + 1) t.val { st with p := p2 } = .ok ((t.val, n3), { st with p := p3 }) := by
    unfold collectText
    rw [fbind_ok hn3]
    have : (n3.typ != ItemType.tText) = true := by rw [hty3]; simpa using hnx
    simp only [this, if_true]
    rfl
  unfold textOrTag
  simp only
  rw [fbind_ok (skipComments_id fuel t st (by rw [ht]; decide))]
  simp only [ht, hu, Bool.false_eq_true, if_false]
  rw [fbind_ok hn1]
  simp only [show (ItemType.tText == ItemType.tLeftDelim) = false by decide, Bool.false_and, Bool.false_eq_true, if_false]
  rw [fbind_ok hb2]
  simp only [beq_self_eq_true, if_true]
  rw [fbind_ok hct]
  simp only
  rw [fbind_ok hb4]
  simp only
  unfold rawtextP
  rw [SoyVerif.Props.C15.rawtext_spec]
  simp only [show (ItemType.tText == ItemType.tComment) = false by decide, hty3]
  rw [fbind_ok (show (pure (joinLines t.val false (nx.typ == ItemType.tComment)) : FP Bytes) { st with p := p4 } =
    .ok (_, { st with p := p4 }) from rfl)]
  by_cases hj : (joinLines t.val false (nx.typ == ItemType.tComment)).isEmpty = true
  · rw [if_pos hj, if_pos hj]; rfl
  · rw [if_neg hj, if_neg hj]; rfl

/-- one round of `itemList` over the (possible) Text token of a text piece -/
theorem loop_text (ef : Nat) (untl : List ItemType) (hu : untl.contains .tText = false) (t : Bytes) (nx : Tk)
    (hnx : nx.typ ≠ .tText) (hnc : nx.typ ≠ .tComment) (s : List Tk) (F : Nat) (hF : 4 ≤ F) (lpos : Option Nat)
    (nodes : NodeList) (st : FState) (hst : At st.p (textTk t ++ nx :: s)) :
    ∃ F' lpos' nodes' p' pos, F ≤ F' + (textTk t).length ∧ F' ≤ F ∧
      itemListLoop pf ef F untl lpos nodes st = itemListLoop pf ef F' untl lpos' nodes' { st with p := p' } ∧
      nodes'.toList = nodes.toList ++ textNodes t pos ∧ At p' (nx :: s) := by
  by_cases hd : 0 < t.length ∧ dropped t = false
  · have hlen1 : (textTk t).length = 1 := by simp [textTk, hd]
    rw [hlen1]
    simp only [textTk, hd, and_self, if_true, List.cons_append, List.nil_append] at hst
    obtain ⟨g, rfl⟩ : ∃ g, F = g + 3 := ⟨F - 3, by omega⟩
    obtain ⟨ti, p1, hn1, hty, hv, hj1⟩ := fnext_at hst
    have hty' : ti.typ = .tText := hty
    have hv' : ti.val = t := hv
    obtain ⟨p2, hto, ha2⟩ := textOrTag_text1 pf ef g untl hu ti hty' nx hnx s { st with p := p1 } hj1.at
    have hcm : (nx.typ == ItemType.tComment) = false := by simpa using hnc
    rw [hcm, hv'] at hto
    by_cases hj : (joinLines t false false).isEmpty = true
    · rw [if_pos hj] at hto
      refine ⟨g + 2, some (lpos.getD ti.pos), nodes, p2, 0, by omega, by omega, ?_, ?_, ha2⟩
      · show itemListLoop pf ef ((g + 2) + 1) untl lpos nodes st = _
        conv => lhs; unfold itemListLoop
        rw [fbind_ok hn1]
        simp only
        rw [fbind_ok hto]
        simp only [Bool.false_eq_true, if_false]
      · simp [textNodes, hj]
    · rw [if_neg hj] at hto
      refine ⟨g + 2, some (lpos.getD ti.pos), nodes.append (.cons (.rawText ti.pos (joinLines t false false)) .nil), p2, ti.pos,
        by omega, by omega, ?_, ?_, ha2⟩
      · show itemListLoop pf ef ((g + 2) + 1) untl lpos nodes st = _
        conv => lhs; unfold itemListLoop
        rw [fbind_ok hn1]
        simp only
        rw [fbind_ok hto]
        simp only [Bool.false_eq_true, if_false]
      · have hj' : (joinLines t false false).isEmpty = false := by simpa using hj
        rw [toList_append]
        simp [textNodes, hj', hd.2, NodeList.toList]
  · simp only [textTk, hd, if_false, List.nil_append] at hst
    refine ⟨F, lpos, nodes, st.p, 0, by omega, by omega, rfl, ?_, hst⟩
    have : textNodes t 0 = [] := by
      unfold textNodes
      by_cases h0 : 0 < t.length
      · have : dropped t = true := by simpa [h0] using hd
        simp [this]
      · have : t = [] := List.eq_nil_of_length_eq_zero (by omega)
        subst this
        have hj0 : (joinLines [] false false).isEmpty = true := by decide
        rw [if_neg (by rw [hj0]; simp)]
    rw [this]; simp

end

section
open SoyVerif.Model.FileParser (FState FP Node NodeList textOrTag itemListLoop skipComments parseFile parseSource)
open SoyVerif.Spec (joinLines)
open SoyVerif.Props.C15c (textNodes toList_append)
variable (ff : UInt64 → Bytes) (pf : Bytes → Option UInt64) (T : TableOK)

/-- the round of `itemList(itemEOF)` that reads EOF -/
theorem loop_eof (ef g : Nat) (lpos : Option Nat) (nodes : NodeList) (s : List Tk) (st : FState)
    (hst : At st.p (⟨.tEOF, []⟩ :: s)) :
    ∃ lp st', itemListLoop pf ef (g + 3) [.tEOF] lpos nodes st = .ok (.list lp nodes, st') := by
  obtain ⟨eo, p1, hn, het, _, _⟩ := fnext_at hst
  have het' : eo.typ = .tEOF := het
  have hun : textOrTag pf ef (g + 1 + 1) eo [.tEOF] { st with p := p1 } = .ok ((none, true), { st with p := p1 }) := by
    unfold textOrTag
    simp only
    rw [fbind_ok (skipComments_id g eo _ (by rw [het']; decide))]
    simp only [het']
    rfl
  refine ⟨lpos.getD eo.pos, { st with p := p1 }, ?_⟩
  unfold itemListLoop
  rw [fbind_ok hn]
  simp only
  rw [fbind_ok hun]
  rfl

include T

/-- one round of `itemList` over a printed print command -/
theorem loop_print (arg : Expr) (dirs : List Directive) (hC : CmdCanon ff pf arg dirs) (ef fuel : Nat)
    (hE : ExprFuel ff ef arg dirs) (hf : ∀ d ∈ dirs, d.args.length + dirs.length + 1 < fuel) (hf' : dirs.length < fuel)
    (untl : List ItemType) (hu1 : untl.contains .tLeftDelim = false) (hu2 : ∀ t ∈ headTypes, untl.contains t = false)
    (lpos : Option Nat) (nodes : NodeList) (rest : List Tk) (st : FState)
    (hst : At st.p (⟨.tLeftDelim, [123]⟩ :: (unsp (piecesBody ff arg dirs) ++ tRD :: rest))) :
    ∃ lpos' pos e' ds' p', itemListLoop pf ef (fuel + 3) untl lpos nodes st =
        itemListLoop pf ef (fuel + 2) untl lpos' (nodes.append (.cons (Node.print pos e' ds') .nil)) { st with p := p' } ∧
      erase e' = erase arg ∧ ds'.map eraseDir = dirs.map eraseDir ∧ At p' rest := by
  obtain ⟨ld, p1, hn1, hlt, _, hj1⟩ := fnext_at hst
  obtain ⟨pos, e', ds', p2, hto, he, hd, ha⟩ := textOrTag_print ff pf T arg dirs hC ef fuel hE hf hf' untl
    hu1 hu2 ld hlt rest { st with p := p1 } hj1.at
  refine ⟨some (lpos.getD ld.pos), pos, e', ds', p2, ?_, he, hd, ha⟩
  conv => lhs; unfold itemListLoop
  rw [fbind_ok hn1]
  simp only
  rw [fbind_ok hto]
  simp only [Bool.false_eq_true, if_false]

end

section
open SoyVerif.Model.FileParser (Node NodeList parseFile parseSource)
open SoyVerif.Props.C15c (textNodes toList_append)
variable (ff : UInt64 → Bytes) (pf : Bytes → Option UInt64) (LT : LexTableOK) (T : TableOK)
include LT T

/-- C17 for a print command INSIDE A BODY, from bytes to tree: `parse.SoyFile` on `t1 ++ PrintNode.String() ++ t2`
    (text pieces as in C15c: empty, or ASCII without braces and comment openers) returns the RawText node of `t1` (if it
    is not dropped by the lexer and does not normalise to nothing), the print node — the printed one modulo positions —
    and the RawText node of `t2` -/
theorem print_cmd_in_body_roundtrip (t1 t2 : Bytes) (h1 : t1 = [] ∨ textOK t1) (h2 : t2 = [] ∨ textOK t2)
    (arg : Expr) (dirs : List Directive) (hN : CmdOk ff arg dirs) (hC : CmdCanon ff pf arg dirs) :
    ∃ p1 pos p2 e' ds', parseSource pf (t1 ++ printPrint ff arg dirs ++ t2) =
        .ok (textNodes t1 p1 ++ [Node.print pos e' ds'] ++ textNodes t2 p2) ∧
      erase e' = erase arg ∧ ds'.map eraseDir = dirs.map eraseDir := by
  have hl := lex_text_cmd_text ff LT t1 t2 h1 h2 arg dirs hN
  have htk : (bodyItems ff t1 t2 arg dirs).map Item.tk =
      textTk t1 ++ ⟨.tLeftDelim, [123]⟩ :: (unsp (piecesBody ff arg dirs) ++ tRD :: (textTk t2 ++ ⟨.tEOF, []⟩ :: [])) := by
    simp [bodyItems, tagItems, textItem_tk, emitT_tk, Item.tk, tRD]
  have hlen : (unsp (piecesBody ff arg dirs)).length ≤ (bodyItems ff t1 t2 arg dirs).length := by
    have := congrArg List.length htk
    simp at this; omega
  obtain ⟨f1, f2, f3⟩ := fuel_ok ff arg dirs (bodyItems ff t1 t2 arg dirs).length hlen
  have hE : ExprFuel ff (FileParser.exprFuel (bodyItems ff t1 t2 arg dirs)) arg dirs := by
    simp only [FileParser.exprFuel, Parser.fuelFor]
    exact ⟨by have := f1.1; omega, fun d hd a ha => by have := f1.2 d hd a ha; omega⟩
  have hst0 := at_init (bodyItems ff t1 t2 arg dirs)
  rw [htk] at hst0
  -- text 1
  obtain ⟨F1, lp1, n1, q1, pos1, hF1a, hF1b, hr1, hn1, ha1⟩ := loop_text pf (FileParser.exprFuel (bodyItems ff t1 t2 arg dirs))
    [.tEOF] (by decide) t1 ⟨.tLeftDelim, [123]⟩ (by decide) (by decide) _
    (FileParser.fuelFor (bodyItems ff t1 t2 arg dirs).length) (by simp [FileParser.fuelFor]) none .nil
    { p := initState (bodyItems ff t1 t2 arg dirs) } hst0
  have htl1 := textTk_len t1
  have htl2 := textTk_len t2
  obtain ⟨g, rfl⟩ : ∃ g, F1 = g + 3 := ⟨F1 - 3, by simp [FileParser.fuelFor] at hF1a; omega⟩
  have hg : 2 * (bodyItems ff t1 t2 arg dirs).length + 2 ≤ g := by simp [FileParser.fuelFor] at hF1a; omega
  -- the tag
  obtain ⟨lp2, pos, e', ds', q2, hr2, he, hd, ha2⟩ := loop_print ff pf T arg dirs hC _ g hE
    (fun d hd => by have := f2 d hd; omega) (by omega) [.tEOF] (by decide) (by decide) lp1 n1 _ { p := q1 } ha1
  -- text 2
  obtain ⟨F3, lp3, n3, q3, pos3, hF3a, hF3b, hr3, hn3, ha3⟩ := loop_text pf (FileParser.exprFuel (bodyItems ff t1 t2 arg dirs))
    [.tEOF] (by decide) t2 ⟨.tEOF, []⟩ (by decide) (by decide) [] (g + 2) (by omega) lp2 _ { p := q2 } ha2
  obtain ⟨g3, rfl⟩ : ∃ g3, F3 = g3 + 3 := ⟨F3 - 3, by omega⟩
  obtain ⟨lp4, st4, hr4⟩ := loop_eof pf (FileParser.exprFuel (bodyItems ff t1 t2 arg dirs)) g3 lp3 n3 [] { p := q3 } ha3
  refine ⟨pos1, pos, pos3, e', ds', ?_, he, hd⟩
  unfold parseSource
  rw [hl]
  simp only
  unfold parseFile
  simp only [StateT.run]
  rw [hr1, hr2, hr3, hr4]
  simp only [hn3, toList_append, hn1, NodeList.toList, List.nil_append]

end

/-! # bodies: text runs and ARBITRARY print commands, any number of them (sibling of C15c's `body_source_spec`) -/

/-- a piece of a body: a stretch of text, or a print command -/
inductive BPiece where
  | text (t : Bytes)
  | cmd (arg : Expr) (dirs : List Directive)

abbrev CBody := List BPiece

def BPiece.isText : BPiece → Bool
  | .text _ => true
  | .cmd _ _ => false

section
variable (ff : UInt64 → Bytes)

/-- the source text of a body: the text pieces as they are, the print commands as `PrintNode.String()` writes them -/
def srcOfC : CBody → Bytes
  | [] => []
  | .text t :: r => t ++ srcOfC r
  | .cmd a d :: r => printPrint ff a d ++ srcOfC r

/-- well-formed: text pieces are C15c's `textOK` and never adjacent; print commands are `CmdOk` -/
def WFL : CBody → Prop
  | [] => True
  | .text t :: r => textOK t ∧ (∀ p ∈ r.head?, p.isText = false) ∧ WFL r
  | .cmd a d :: r => CmdOk ff a d ∧ WFL r

/-- the items `lex` sends for a body that begins at byte `q` (exact END offsets) -/
def itemsOfC : Nat → CBody → List Item
  | q, [] => [⟨.tEOF, q, []⟩]
  | q, .text t :: r => textItem t (q + t.length) ++ itemsOfC (q + t.length) r
  | q, .cmd a d :: r => tagItems ff q a d ++ itemsOfC (q + 1 + (spell (piecesBody ff a d)).length + 1) r

/-- … position-free -/
def tksOfC : CBody → List Tk
  | [] => [⟨.tEOF, []⟩]
  | .text t :: r => textTk t ++ tksOfC r
  | .cmd a d :: r => ⟨.tLeftDelim, [123]⟩ :: (unsp (piecesBody ff a d) ++ tRD :: tksOfC r)

theorem itemsOfC_tk : ∀ (b : CBody) (q : Nat), (itemsOfC ff q b).map Item.tk = tksOfC ff b
  | [], _ => rfl
  | .text t :: r, q => by simp [itemsOfC, tksOfC, textItem_tk, itemsOfC_tk r]
  | .cmd a d :: r, q => by simp [itemsOfC, tksOfC, tagItems, emitT_tk, itemsOfC_tk r, Item.tk, tRD]

theorem printPrint_length (a : Expr) (d : List Directive) :
    (printPrint ff a d).length = 1 + (spell (piecesBody ff a d)).length + 1 := by
  rw [spell_body]; simp; omega

end

section
variable (ff : UInt64 → Bytes) (LT : LexTableOK)
include LT

/-- a text run `t` (possibly empty) and a print command behind it, anywhere in the input, from any lexer record in
    `lexText`: `m` state functions later the machine is back in `lexText` behind the tag -/
theorem seg_run_cmd {inp : Array UInt8} {q : Nat} (t : Bytes) (ht : t = [] ∨ textOK t) (arg : Expr) (dirs : List Directive)
    (h : CmdOk ff arg dirs) (post : Bytes) (hin : InpAt inp q (t ++ (printPrint ff arg dirs ++ post)))
    (w : Int) (dd : Bool) (ts : Int) (le : Item) (its : Array Item) :
    ∃ m, m ≤ 2 * (printPrint ff arg dirs).length + 5 ∧ ∀ f, ∃ (w' : Int) (le' : Item) (its' : Array Item),
      run (f + m) .text (Lexer.mk inp q q w dd ts le its) =
        run f .text (Lexer.mk inp ((q + t.length + 1 + (spell (piecesBody ff arg dirs)).length + 1 : Nat) : Int)
          ((q + t.length + 1 + (spell (piecesBody ff arg dirs)).length + 1 : Nat) : Int) w' false ((q + t.length : Nat) : Int) le' its') ∧
      its'.toList = its.toList ++ textItem t (q + t.length) ++ tagItems ff (q + t.length) arg dirs := by
  obtain ⟨c, s, hB, hc, hc1, hc2, hc3⟩ := body_first_byte ff LT arg dirs h
  have hIq : InpAt inp (q + t.length) (printPrint ff arg dirs ++ post) := inpAt_append hin
  have hIq' : InpAt inp (q + t.length) (123 :: c :: (s ++ 125 :: post)) := by
    have := hIq; rw [spell_body, hB] at this; simpa using this
  have hlenP := printPrint_length ff arg dirs
  obtain ⟨hq0, hb0⟩ := byteAt_of_inpAt hIq'
  obtain ⟨hq1, hb1⟩ := byteAt_of_inpAt (inpAt_tail hIq')
  have hH1 : Holds inp q t := holds_of_inpAt hin
  obtain ⟨w1, dd1, ts1, le1, its1, hlx, hits1⟩ := C15c.lexText_text_open inp q t.length w dd ts le its
    (by omega) (C15c.text_bytes hH1 ht (Or.inr (by rw [hb0]; decide))) (by rw [hb0]; rfl)
  have hld := lexLeftDelim_any inp (q + t.length) w1 dd1 ts1 le1 its1 c.toNat (by omega) (by rw [hb0]; rfl) hb1
    (by have : c.toNat < 128 := hc; exact this)
    (by intro e; apply hc1; apply UInt8.toNat_inj.mp; simpa using e)
  have hex : (inp.extract (q + t.length) (q + t.length + 1)).toList = [123] :=
    inpAt_extract (v := [123]) (s := c :: (s ++ 125 :: post)) hIq'
  rw [hex] at hld
  have hadj := adj_body ff LT arg dirs h (125 :: post) (closer_rbrace post)
  have hchain := chain_body ff arg dirs
  have hin1 : InpAt inp (q + t.length + 1) (spell (piecesBody ff arg dirs) ++ 125 :: post) := by
    have := inpAt_tail hIq'; rw [hB]; simpa using this
  have hin1' : InpAt inp (q + t.length + 1) (c :: (s ++ 125 :: post)) := inpAt_tail hIq'
  have hinq : InpAt inp (q + t.length + 1 + (spell (piecesBody ff arg dirs)).length) (125 :: post) := inpAt_append hin1
  have hlen := adj_length _ _ hadj
  obtain ⟨k, hk, hrun⟩ := lex_pieces_tail (tg := ((q + t.length : Nat) : Int)) LT (inp := inp) (125 :: post) (piecesBody ff arg dirs)
    (q + t.length + 1) ⟨.tLeftDelim, q + t.length + 1, [123]⟩ (its1.push ⟨.tLeftDelim, q + t.length + 1, [123]⟩) hin1 hadj hchain
  refine ⟨k + 5, by omega, fun f => ?_⟩
  obtain ⟨w', le', its', hr1, hr2⟩ := hrun 1 (f + 2)
  refine ⟨1, ⟨.tRightDelim, q + t.length + 1 + (spell (piecesBody ff arg dirs)).length + 1, [125]⟩,
    its'.push ⟨.tRightDelim, q + t.length + 1 + (spell (piecesBody ff arg dirs)).length + 1, [125]⟩, ?_, ?_⟩
  · rw [show f + (k + 5) = ((((f + 2 + k) + 1) + 1) + 1) by omega,
      C15c.run_succ (show step .text _ = _ from hlx), C15c.run_succ (show step .leftDelim _ = _ from hld)]
    have e1 : Lexer.mk inp ((q + t.length + 1 : Nat) : Int) ((q + t.length + 1 : Nat) : Int) 1 false ((q + t.length : Nat) : Int)
        ⟨.tLeftDelim, q + t.length + 1, [123]⟩ (its1.push ⟨.tLeftDelim, q + t.length + 1, [123]⟩) =
        L ((q + t.length : Nat) : Int) inp (q + t.length + 1) (q + t.length + 1) 1 ⟨.tLeftDelim, q + t.length + 1, [123]⟩
          (its1.push ⟨.tLeftDelim, q + t.length + 1, [123]⟩) := rfl
    rw [e1, run_step (step_beginTag hin1' hc hc2 hc3 1 _ _), hr1, run_step (step_rbrace hinq w' le' its'),
      run_step (step_rightDelim hinq le' its')]
    all_goals rfl
  · simp only [Array.toList_push, hr2, hits1, C15c.textItems_holds hH1]
    simp [tagItems]

/-- **lexer.**  The machine on a well-formed body that stands at `q`, from any lexer record in `lexText` -/
theorem lex_cbody : ∀ (b : CBody), WFL ff b → ∀ (inp : Array UInt8) (q : Nat) (w : Int) (dd : Bool) (ts : Int) (le : Item)
    (its : Array Item) (fuel : Nat), InpAt inp q (srcOfC ff b) → 7 * (srcOfC ff b).length + 1 ≤ fuel →
    run fuel .text (Lexer.mk inp q q w dd ts le its) = .items (its.toList ++ itemsOfC ff q b)
  | [], _, inp, q, w, dd, ts, le, its, fuel, hin, hf => by
    obtain ⟨f, rfl⟩ : ∃ f, fuel = f + 1 := ⟨fuel - 1, by omega⟩
    have hsz := inpAt_len hin
    simp only [srcOfC, List.length_nil] at hsz
    obtain ⟨lf, h1, h2⟩ := C15c.lexText_text_eof inp q 0 w dd ts le its hsz (fun i hi => absurd hi (by omega))
    rw [C15c.run_end (show step .text _ = _ from h1), h2, C15c.textItems_nat]
    simp [itemsOfC]
  | .cmd a d :: r, hwf, inp, q, w, dd, ts, le, its, fuel, hin, hf => by
    have hin' : InpAt inp q ([] ++ (printPrint ff a d ++ srcOfC ff r)) := hin
    obtain ⟨m, hm, hrun⟩ := seg_run_cmd ff LT [] (Or.inl rfl) a d hwf.1 (srcOfC ff r) hin' w dd ts le its
    have hlenP := printPrint_length ff a d
    simp only [srcOfC, List.length_append] at hf
    obtain ⟨f, rfl⟩ : ∃ f, fuel = f + m := ⟨fuel - m, by omega⟩
    obtain ⟨w', le', its', hr, hits⟩ := hrun f
    simp only [List.length_nil, Nat.add_zero] at hr hits
    have hnext : InpAt inp (q + 1 + (spell (piecesBody ff a d)).length + 1) (srcOfC ff r) := by
      have := inpAt_append (a := printPrint ff a d) hin; rw [hlenP] at this; simpa [Nat.add_assoc] using this
    rw [hr, lex_cbody r hwf.2 inp _ w' false _ le' its' f hnext (by omega), hits]
    simp [itemsOfC, textItem]
  | [.text t], hwf, inp, q, w, dd, ts, le, its, fuel, hin, hf => by
    obtain ⟨f, rfl⟩ : ∃ f, fuel = f + 1 := ⟨fuel - 1, by omega⟩
    have hin' : InpAt inp q (t ++ []) := by simpa [srcOfC] using hin
    have hsz : q + t.length = inp.size := by have := inpAt_len hin'; simpa using this
    have hH : Holds inp q t := holds_of_inpAt hin'
    have hb0 := C15c.byteAt_beyond (inp := inp) (i := q + t.length) (by omega)
    obtain ⟨lf, h1, h2⟩ := C15c.lexText_text_eof inp q t.length w dd ts le its hsz
      (C15c.text_bytes hH (Or.inr hwf.1) (Or.inr (by rw [hb0]; decide)))
    rw [C15c.run_end (show step .text _ = _ from h1), h2, C15c.textItems_holds hH]
    simp [itemsOfC]
  | .text t :: .cmd a d :: r, hwf, inp, q, w, dd, ts, le, its, fuel, hin, hf => by
    have hin' : InpAt inp q (t ++ (printPrint ff a d ++ srcOfC ff r)) := hin
    obtain ⟨m, hm, hrun⟩ := seg_run_cmd ff LT t (Or.inr hwf.1) a d hwf.2.2.1 (srcOfC ff r) hin' w dd ts le its
    have hlenP := printPrint_length ff a d
    simp only [srcOfC, List.length_append] at hf
    obtain ⟨f, rfl⟩ : ∃ f, fuel = f + m := ⟨fuel - m, by omega⟩
    obtain ⟨w', le', its', hr, hits⟩ := hrun f
    have hnext : InpAt inp (q + t.length + 1 + (spell (piecesBody ff a d)).length + 1) (srcOfC ff r) := by
      have := inpAt_append (a := printPrint ff a d) (inpAt_append hin'); rw [hlenP] at this; simpa [Nat.add_assoc] using this
    rw [hr, lex_cbody r hwf.2.2.2 inp _ w' false _ le' its' f hnext (by omega), hits]
    simp [itemsOfC]
  | .text _ :: .text t2 :: _, hwf, _, _, _, _, _, _, _, _, _, _ => by
    have := hwf.2.1 (.text t2) (by simp)
    simp [BPiece.isText] at this

/-- **lexer.**  The items `lex` sends for the source of a well-formed body -/
theorem lexAll_cbody (b : CBody) (h : WFL ff b) : lexAll (srcOfC ff b) false = .items (itemsOfC ff 0 b) := by
  unfold lexAll Lex.fuelFor
  simp only [Bool.false_eq_true, if_false]
  have := lex_cbody ff LT b h (srcOfC ff b).toArray 0 0 false 0 Item.zero #[] (7 * (srcOfC ff b).length + 8)
    (inpAt_zero _) (by omega)
  simpa [initLexer] using this

end

/-! ## the parser on the items of a body -/

section
open SoyVerif.Model.FileParser (FState Node NodeList itemListLoop parseFile parseSource)
open SoyVerif.Props.C15c (textNodes toList_append)
variable (ff : UInt64 → Bytes) (pf : Bytes → Option UInt64)

/-- every print command of the body is canonical (what the expression parser returns) -/
def CanonB : CBody → Prop
  | [] => True
  | .text _ :: r => CanonB r
  | .cmd a d :: r => CmdCanon ff pf a d ∧ CanonB r

/-- the node list of a body, MODULO POSITIONS: per text piece the RawText node of its normalised text (none if the lexer
    drops the piece or the text normalises to nothing), per print command its print node -/
def NodesMatch : List Node → CBody → Prop
  | nl, [] => nl = []
  | nl, .text t :: r => ∃ p rest, nl = textNodes t p ++ rest ∧ NodesMatch rest r
  | nl, .cmd a d :: r => ∃ pos e' ds' rest, nl = Node.print pos e' ds' :: rest ∧ erase e' = erase a ∧
      ds'.map eraseDir = d.map eraseDir ∧ NodesMatch rest r

/-- the fuel side conditions of every print command of the body -/
def FuelB (ef G : Nat) : CBody → Prop
  | [] => True
  | .text _ :: r => FuelB ef G r
  | .cmd a d :: r => (ExprFuel ff ef a d ∧ (∀ x ∈ d, x.args.length + d.length + 1 < G) ∧ d.length < G) ∧ FuelB ef G r

theorem tks_head (r : CBody) (h : ∀ p ∈ r.head?, p.isText = false) :
    ∃ nx s, tksOfC ff r = nx :: s ∧ nx.typ ≠ .tText ∧ nx.typ ≠ .tComment := by
  match r, h with
  | [], _ => exact ⟨_, _, rfl, by simp, by simp⟩
  | .cmd a d :: r, _ => exact ⟨_, _, rfl, by simp, by simp⟩
  | .text t :: r, h => have := h (.text t) (by simp); simp [BPiece.isText] at this

variable (T : TableOK)
include T

/-- **parser.**  `itemList(itemEOF)` on the tokens of a well-formed body -/
theorem parse_cbody (ef G : Nat) : ∀ (b : CBody), WFL ff b → CanonB ff pf b → FuelB ff ef G b →
    ∀ (F : Nat) (lpos : Option Nat) (nodes : NodeList) (st : FState), At st.p (tksOfC ff b) → G + (tksOfC ff b).length + 3 ≤ F →
    ∃ lp nl st' tail, itemListLoop pf ef F [.tEOF] lpos nodes st = .ok (.list lp nl, st') ∧
      nl.toList = nodes.toList ++ tail ∧ NodesMatch tail b
  | [], _, _, _, F, lpos, nodes, st, hst, hF => by
    obtain ⟨g, rfl⟩ : ∃ g, F = g + 3 := ⟨F - 3, by simp [tksOfC] at hF; omega⟩
    obtain ⟨lp, st', hr⟩ := loop_eof pf ef g lpos nodes [] st hst
    exact ⟨lp, nodes, st', [], hr, by simp, rfl⟩
  | .text t :: r, hwf, hcan, hfu, F, lpos, nodes, st, hst, hF => by
    obtain ⟨nx, s, hnx, h1, h2⟩ := tks_head ff r hwf.2.1
    have hst' : At st.p (textTk t ++ nx :: s) := by rw [← hnx]; exact hst
    have hl1 : 1 ≤ (tksOfC ff r).length := by rw [hnx]; simp
    have hF' : G + ((textTk t).length + (tksOfC ff r).length) + 3 ≤ F := by
      simpa only [tksOfC, List.length_append] using hF
    obtain ⟨F', lp1, n1, q1, pos1, hFa, hFb, hr1, hn1, ha1⟩ := loop_text pf ef [.tEOF] (by decide) t nx h1 h2 s F
      (by omega) lpos nodes st hst'
    rw [← hnx] at ha1
    obtain ⟨lp, nl, st', tail, hr, hnl, hm⟩ := parse_cbody ef G r hwf.2.2 hcan hfu F' lp1 n1 { st with p := q1 } ha1
      (by omega)
    refine ⟨lp, nl, st', textNodes t pos1 ++ tail, by rw [hr1]; exact hr, by rw [hnl, hn1]; simp, pos1, tail, rfl, hm⟩
  | .cmd a d :: r, hwf, hcan, hfu, F, lpos, nodes, st, hst, hF => by
    simp only [tksOfC, List.length_cons, List.length_append] at hF
    obtain ⟨g, rfl⟩ : ∃ g, F = g + 3 := ⟨F - 3, by omega⟩
    have hg : G ≤ g := by omega
    obtain ⟨lp2, pos, e', ds', q2, hr2, he, hd, ha2⟩ := loop_print ff pf T a d hcan.1 ef g hfu.1.1
      (fun x hx => by have := hfu.1.2.1 x hx; omega) (by have := hfu.1.2.2; omega) [.tEOF] (by decide) (by decide)
      lpos nodes (tksOfC ff r) st hst
    obtain ⟨lp, nl, st', tail, hr, hnl, hm⟩ := parse_cbody ef G r hwf.2 hcan.2 hfu.2 (g + 2) lp2 _ { st with p := q2 } ha2
      (by omega)
    refine ⟨lp, nl, st', Node.print pos e' ds' :: tail, by rw [hr2]; exact hr, ?_, pos, e', ds', tail, rfl, he, hd, hm⟩
    rw [hnl, toList_append]
    simp [NodeList.toList]

omit T in
/-- every print command's tokens are among the tokens of the body: the fuel of `parse.SoyFile` suffices -/
theorem fuelB_of_len : ∀ (b : CBody) (n : Nat), (tksOfC ff b).length ≤ n → FuelB ff (8 * n + 64) (2 * n + 2) b
  | [], _, _ => trivial
  | .text t :: r, n, h => fuelB_of_len r n (by simp [tksOfC] at h; omega)
  | .cmd a d :: r, n, h => by
    simp only [tksOfC, List.length_cons, List.length_append] at h
    obtain ⟨f1, f2, f3⟩ := fuel_ok ff a d n (by omega)
    exact ⟨⟨⟨by have := f1.1; omega, fun x hx y hy => by have := f1.2 x hx y hy; omega⟩, f2, f3⟩,
      fuelB_of_len r n (by omega)⟩

end

section
open SoyVerif.Model.FileParser (Node NodeList parseFile parseSource)
variable (ff : UInt64 → Bytes) (pf : Bytes → Option UInt64) (LT : LexTableOK) (T : TableOK)
include LT T

/-- **`body_source_spec_cmds`** — C15c's `body_source_spec` with ARBITRARY print commands.  For every well-formed body
    `b` (text pieces — C15c's `textOK`, no two adjacent — and print commands `{expr|dir:args…}` that are `CmdOk` and
    `CmdCanon`, any number of them), `parse.SoyFile` on the source text `srcOfC ff b` (the commands as
    `PrintNode.String()` writes them):

    * the lexer sends exactly `itemsOfC ff 0 b` — one Text item per text piece that is not dropped, LeftDelim, the
      printed tokens and RightDelim per command, EOF — every item at its exact END offset;
    * the parser returns, in source order, `RawText (joinLines t false false)` for every text piece that is not dropped
      and does not normalise to nothing, and for every command its print node — the expression and every directive with
      its name and arguments, modulo positions (`NodesMatch`). -/
theorem body_source_spec_cmds (b : CBody) (hw : WFL ff b) (hc : CanonB ff pf b) :
    lexAll (srcOfC ff b) false = .items (itemsOfC ff 0 b) ∧
      ∃ nl, parseSource pf (srcOfC ff b) = .ok nl ∧ NodesMatch nl b := by
  have hl := lexAll_cbody ff LT b hw
  refine ⟨hl, ?_⟩
  have hlen : (tksOfC ff b).length = (itemsOfC ff 0 b).length := by rw [← itemsOfC_tk ff b 0]; simp
  have hfu := fuelB_of_len ff b (itemsOfC ff 0 b).length (by omega)
  have hst0 := at_init (itemsOfC ff 0 b)
  rw [itemsOfC_tk] at hst0
  obtain ⟨lp, nl, st', tail, hr, hnl, hm⟩ := parse_cbody ff pf T (8 * (itemsOfC ff 0 b).length + 64)
    (2 * (itemsOfC ff 0 b).length + 2) b hw hc hfu (8 * (itemsOfC ff 0 b).length + 64) none .nil
    { p := initState (itemsOfC ff 0 b) } hst0 (by omega)
  refine ⟨tail, ?_, hm⟩
  unfold parseSource
  rw [hl]
  simp only
  unfold parseFile
  simp only [StateT.run, FileParser.fuelFor, FileParser.exprFuel, Parser.fuelFor]
  rw [hr]
  simp only [hnl, NodeList.toList, List.nil_append]

end

/-! # the `{template .t}` … `{/template}` FRAME around a body, at byte level -/

/-- `template` -/
def kwT : Bytes := [116, 101, 109, 112, 108, 97, 116, 101]

/-- `{template .` name `}` -/
def openTag (nm : Bytes) : Bytes := 123 :: (kwT ++ 32 :: ((46 :: nm) ++ [125]))

/-- `{/template}` -/
def closeTag : Bytes := 123 :: ((47 :: kwT) ++ [125])

/-- a template name as `lexIdent` reads it behind the `.`: a letter or `_`, then letters, digits, `_` (any script) -/
def NameOk (nm : Bytes) : Prop :=
  ∃ c k, nm = c :: k ∧ alnumBytes (c :: k) = true ∧ isDig c = false ∧ ∀ r w, runeAt (c :: k) = some (r, w) → letterR r = true

/-- the items of `{template .name}` at offset `q` -/
def openItems (q : Nat) (nm : Bytes) : List Item :=
  [⟨.tLeftDelim, q + 1, [123]⟩, ⟨.tTemplate, q + 1 + kwT.length, kwT⟩,
   ⟨.tDotIdent, q + 1 + kwT.length + 1 + (46 :: nm).length, 46 :: nm⟩,
   ⟨.tRightDelim, q + 1 + kwT.length + 1 + (46 :: nm).length + 1, [125]⟩]

/-- the items of `{/template}` at offset `e` -/
def closeItems (e : Nat) : List Item :=
  [⟨.tLeftDelim, e + 1, [123]⟩, ⟨.tTemplateEnd, e + 1 + (47 :: kwT).length, 47 :: kwT⟩,
   ⟨.tRightDelim, e + 1 + (47 :: kwT).length + 1, [125]⟩]

section
variable (LT : LexTableOK)
include LT

/-- `{template .name}` anywhere in the input, from any lexer record in `lexLeftDelim`: nine state functions -/
theorem open_tag_run {inp : Array UInt8} {q : Nat} (nm post : Bytes) (hnm : NameOk nm)
    (hin : InpAt inp q (openTag nm ++ post)) (w : Int) (dd : Bool) (ts : Int) (le : Item) (its : Array Item) (f : Nat) :
    ∃ (w' : Int) (le' : Item) (its' : Array Item),
      run (f + 9) .leftDelim (Lexer.mk inp q q w dd ts le its) =
        run f .text (Lexer.mk inp ((q + 1 + kwT.length + 1 + (46 :: nm).length + 1 : Nat) : Int)
          ((q + 1 + kwT.length + 1 + (46 :: nm).length + 1 : Nat) : Int) w' false (q : Int) le' its') ∧
      its'.toList = its.toList ++ openItems q nm := by
  obtain ⟨c, k, rfl, hk, hdg, hl⟩ := hnm
  have h0 : InpAt inp q (123 :: 116 :: ([101, 109, 112, 108, 97, 116, 101] ++ 32 :: ((46 :: c :: k) ++ 125 :: post))) := by
    simpa [openTag, kwT] using hin
  have h1 : InpAt inp (q + 1) (kwT ++ (32 :: ((46 :: c :: k) ++ 125 :: post))) := by
    have := inpAt_tail h0; simpa [kwT] using this
  have h1' : InpAt inp (q + 1) (116 :: ([101, 109, 112, 108, 97, 116, 101] ++ 32 :: ((46 :: c :: k) ++ 125 :: post))) := inpAt_tail h0
  have h2 : InpAt inp (q + 1 + kwT.length) (32 :: ((46 :: c :: k) ++ 125 :: post)) := inpAt_append h1
  have h3 : InpAt inp (q + 1 + kwT.length + 1) ((46 :: c :: k) ++ 125 :: post) := inpAt_tail h2
  have h4 : InpAt inp (q + 1 + kwT.length + 1 + (46 :: c :: k).length) (125 :: post) := inpAt_append h3
  obtain ⟨hq0, hb0⟩ := byteAt_of_inpAt h0
  obtain ⟨hq1, hb1⟩ := byteAt_of_inpAt (inpAt_tail h0)
  have hld := lexLeftDelim_any inp q w dd ts le its 116 (by omega) (by rw [hb0]; rfl) (by rw [hb1]; rfl) (by omega) (by omega)
  have hex : (inp.extract q (q + 1)).toList = [123] := inpAt_extract (v := [123]) h0
  rw [hex] at hld
  have hw1 : Step2 (q : Int) inp (q + 1) ⟨.tLeftDelim, q + 1, [123]⟩ (its.push ⟨.tLeftDelim, q + 1, [123]⟩) ⟨.tTemplate, kwT⟩ :=
    step_word LT (c := 116) (k := [101, 109, 112, 108, 97, 116, 101]) (rest := 32 :: ((46 :: c :: k) ++ 125 :: post))
      (by simpa [kwT] using h1) (by decide) (by decide) ⟨by decide, by decide⟩ .tTemplate
      (Or.inl ⟨by decide, by decide, by decide⟩) _ _
  obtain ⟨w1, hr1⟩ := run_of_step2 hw1 1 (f + 5)
  have hw2 := step_dot (tg := (q : Int)) LT h3 hk (fun _ => hl) (rest := 125 :: post) ⟨by decide, by decide⟩
    (itemOf ⟨.tTemplate, kwT⟩ (q + 1 + kwT.length)) ((its.push ⟨.tLeftDelim, q + 1, [123]⟩).push (itemOf ⟨.tTemplate, kwT⟩ (q + 1 + kwT.length)))
  rw [hdg] at hw2
  obtain ⟨w2, hr2⟩ := run_of_step2 hw2 1 (f + 2)
  refine ⟨1, ⟨.tRightDelim, q + 1 + kwT.length + 1 + (46 :: c :: k).length + 1, [125]⟩,
    ((((its.push ⟨.tLeftDelim, q + 1, [123]⟩).push (itemOf ⟨.tTemplate, kwT⟩ (q + 1 + kwT.length))).push
      (itemOf ⟨.tDotIdent, 46 :: c :: k⟩ (q + 1 + kwT.length + 1 + (46 :: c :: k).length))).push
      ⟨.tRightDelim, q + 1 + kwT.length + 1 + (46 :: c :: k).length + 1, [125]⟩), ?_, ?_⟩
  · rw [show f + 9 = (((f + 5) + 2) + 1) + 1 by omega, C15c.run_succ (show step .leftDelim _ = _ from hld)]
    have e1 : Lexer.mk inp ((q + 1 : Nat) : Int) ((q + 1 : Nat) : Int) 1 false (q : Int)
        ⟨.tLeftDelim, q + 1, [123]⟩ (its.push ⟨.tLeftDelim, q + 1, [123]⟩) =
        L (q : Int) inp (q + 1) (q + 1) 1 ⟨.tLeftDelim, q + 1, [123]⟩ (its.push ⟨.tLeftDelim, q + 1, [123]⟩) := rfl
    rw [e1, run_step (step_beginTag h1' (by decide) (by decide) (by decide) 1 _ _), hr1]
    unfold After
    rw [show f + 5 = ((f + 2) + 2) + 1 by omega, run_step (step_space h2 w1 _ _), hr2]
    unfold After
    rw [show f + 2 = (f + 1) + 1 by omega, run_step (step_rbrace h4 w2 _ _), run_step (step_rightDelim h4 _ _)]
    rfl
  · simp [openItems, itemOf]

omit LT in
/-- `lexBeginTag` at `/`: on to `lexIdent` -/
theorem step_beginTag_close {tg : Int} {inp q} {s : Bytes} (h : InpAt inp q (47 :: s)) (w le its) :
    step .beginTag (L tg inp q q w le its) = some (some .ident, L tg inp q q 1 le its) := by
  have hp := peek_hd (tg := tg) h (asciiHd_cons (by decide)) q w le its
  simp only [step, lexBeginTag, hp, Option.bind_eq_bind, Option.bind_some, hdRune, hdW]
  rfl

/-- `{/template}` anywhere in the input, from any lexer record in `lexLeftDelim`: five state functions -/
theorem close_tag_run {inp : Array UInt8} {e : Nat} (post : Bytes) (hin : InpAt inp e (closeTag ++ post))
    (w : Int) (dd : Bool) (ts : Int) (le : Item) (its : Array Item) (f : Nat) :
    ∃ (w' : Int) (le' : Item) (its' : Array Item),
      run (f + 5) .leftDelim (Lexer.mk inp e e w dd ts le its) =
        run f .text (Lexer.mk inp ((e + 1 + (47 :: kwT).length + 1 : Nat) : Int) ((e + 1 + (47 :: kwT).length + 1 : Nat) : Int)
          w' false (e : Int) le' its') ∧
      its'.toList = its.toList ++ closeItems e := by
  have h0 : InpAt inp e (123 :: 47 :: (kwT ++ 125 :: post)) := by simpa [closeTag] using hin
  have h1 : InpAt inp (e + 1) (([47] ++ kwT) ++ 125 :: post) := by have := inpAt_tail h0; simpa using this
  have h1' : InpAt inp (e + 1) (47 :: (kwT ++ 125 :: post)) := inpAt_tail h0
  have h4 : InpAt inp (e + 1 + ([47] ++ kwT).length) (125 :: post) := inpAt_append h1
  obtain ⟨hq0, hb0⟩ := byteAt_of_inpAt h0
  obtain ⟨hq1, hb1⟩ := byteAt_of_inpAt (inpAt_tail h0)
  have hld := lexLeftDelim_any inp e w dd ts le its 47 (by omega) (by rw [hb0]; rfl) (by rw [hb1]; rfl) (by omega) (by omega)
  have hex : (inp.extract e (e + 1)).toList = [123] := inpAt_extract (v := [123]) h0
  rw [hex] at hld
  have hir := identRest_word (tg := (e : Int)) LT (pre := [47]) (k := kwT) (rest := 125 :: post) (st := e + 1) h1 (by decide)
    ⟨by decide, by decide⟩ .tCommandEnd .tTemplateEnd (Or.inl ⟨by decide, by decide, by decide⟩) 1
    ⟨.tLeftDelim, e + 1, [123]⟩ (its.push ⟨.tLeftDelim, e + 1, [123]⟩)
  have hid : step .ident (L (e : Int) inp (e + 1) (e + 1) 1 ⟨.tLeftDelim, e + 1, [123]⟩ (its.push ⟨.tLeftDelim, e + 1, [123]⟩)) =
      some (some .insideTag, L (e : Int) inp (e + 1 + ([47] ++ kwT).length) (e + 1 + ([47] ++ kwT).length) (hdW (125 :: post))
        ⟨.tTemplateEnd, e + 1 + ([47] ++ kwT).length, [47] ++ kwT⟩
        ((its.push ⟨.tLeftDelim, e + 1, [123]⟩).push ⟨.tTemplateEnd, e + 1 + ([47] ++ kwT).length, [47] ++ kwT⟩)) := by
    simp only [step, lexIdent, next_L h1' (by decide), Option.bind_eq_bind, Option.bind_some]
    simp only [show ¬ (((47 : UInt8).toNat : Int) = 46) by decide, show ¬ (((47 : UInt8).toNat : Int) = 36) by decide, if_false,
      show (((47 : UInt8).toNat : Int) = 47) by decide, if_true]
    exact hir
  refine ⟨1, ⟨.tRightDelim, e + 1 + ([47] ++ kwT).length + 1, [125]⟩,
    (((its.push ⟨.tLeftDelim, e + 1, [123]⟩).push ⟨.tTemplateEnd, e + 1 + ([47] ++ kwT).length, [47] ++ kwT⟩).push
      ⟨.tRightDelim, e + 1 + ([47] ++ kwT).length + 1, [125]⟩), ?_, ?_⟩
  · rw [show f + 5 = ((((f + 1) + 1) + 1) + 1) + 1 by omega, C15c.run_succ (show step .leftDelim _ = _ from hld)]
    have e1 : Lexer.mk inp ((e + 1 : Nat) : Int) ((e + 1 : Nat) : Int) 1 false (e : Int)
        ⟨.tLeftDelim, e + 1, [123]⟩ (its.push ⟨.tLeftDelim, e + 1, [123]⟩) =
        L (e : Int) inp (e + 1) (e + 1) 1 ⟨.tLeftDelim, e + 1, [123]⟩ (its.push ⟨.tLeftDelim, e + 1, [123]⟩) := rfl
    rw [e1, run_step (step_beginTag_close h1' 1 _ _), run_step hid, run_step (step_rbrace h4 (hdW (125 :: post)) _ _),
      run_step (step_rightDelim h4 _ _)]
    rfl
  · simp [closeItems]

end

section
variable (ff : UInt64 → Bytes)

/-- the items of a body that begins at byte `q`, without the EOF item -/
def itemsB : Nat → CBody → List Item
  | _, [] => []
  | q, .text t :: r => textItem t (q + t.length) ++ itemsB (q + t.length) r
  | q, .cmd a d :: r => tagItems ff q a d ++ itemsB (q + 1 + (spell (piecesBody ff a d)).length + 1) r

/-- … position-free -/
def tksB : CBody → List Tk
  | [] => []
  | .text t :: r => textTk t ++ tksB r
  | .cmd a d :: r => ⟨.tLeftDelim, [123]⟩ :: (unsp (piecesBody ff a d) ++ tRD :: tksB r)

theorem itemsB_tk : ∀ (b : CBody) (q : Nat), (itemsB ff q b).map Item.tk = tksB ff b
  | [], _ => rfl
  | .text t :: r, q => by simp [itemsB, tksB, textItem_tk, itemsB_tk r]
  | .cmd a d :: r, q => by simp [itemsB, tksB, tagItems, emitT_tk, itemsB_tk r, Item.tk, tRD]

variable (LT : LexTableOK)
include LT

/-- **lexer**, a body in front of a `{` (the closing command of the block it stands in): back in `lexLeftDelim` at that `{` -/
theorem lex_cbody_open : ∀ (b : CBody), WFL ff b → ∀ (inp : Array UInt8) (q : Nat) (w : Int) (dd : Bool) (ts : Int) (le : Item)
    (its : Array Item) (post : Bytes) (fuel : Nat), InpAt inp q (srcOfC ff b ++ 123 :: post) →
    7 * (srcOfC ff b).length + 1 ≤ fuel →
    ∃ (f' : Nat) (w' : Int) (dd' : Bool) (ts' : Int) (le' : Item) (its' : Array Item), fuel ≤ f' + (7 * (srcOfC ff b).length + 1) ∧
      run fuel .text (Lexer.mk inp q q w dd ts le its) =
        run f' .leftDelim (Lexer.mk inp ((q + (srcOfC ff b).length : Nat) : Int) ((q + (srcOfC ff b).length : Nat) : Int)
          w' dd' ts' le' its') ∧
      its'.toList = its.toList ++ itemsB ff q b
  | [], _, inp, q, w, dd, ts, le, its, post, fuel, hin, hf => by
    have hin' : InpAt inp q (123 :: post) := by simpa [srcOfC] using hin
    obtain ⟨hq0, hb0⟩ := byteAt_of_inpAt hin'
    obtain ⟨w1, dd1, ts1, le1, its1, hlx, hits1⟩ := C15c.lexText_text_open inp q 0 w dd ts le its (by omega)
      (fun i hi => absurd hi (by omega)) (by rw [Nat.add_zero, hb0]; rfl)
    obtain ⟨f, rfl⟩ : ∃ f, fuel = f + 1 := ⟨fuel - 1, by omega⟩
    refine ⟨f, w1, dd1, ts1, le1, its1, by simp [srcOfC], ?_, ?_⟩
    · rw [C15c.run_succ (show step .text _ = _ from hlx)]; rfl
    · rw [hits1, C15c.textItems_nat]; simp [itemsB]
  | .cmd a d :: r, hwf, inp, q, w, dd, ts, le, its, post, fuel, hin, hf => by
    have hin' : InpAt inp q ([] ++ (printPrint ff a d ++ (srcOfC ff r ++ 123 :: post))) := by simpa [srcOfC] using hin
    obtain ⟨m, hm, hrun⟩ := seg_run_cmd ff LT [] (Or.inl rfl) a d hwf.1 (srcOfC ff r ++ 123 :: post) hin' w dd ts le its
    have hlenP := printPrint_length ff a d
    have hnext : InpAt inp (q + 1 + (spell (piecesBody ff a d)).length + 1) (srcOfC ff r ++ 123 :: post) := by
      have := inpAt_append (a := printPrint ff a d) (s := srcOfC ff r ++ 123 :: post) (by simpa using hin')
      rw [hlenP] at this; simpa [Nat.add_assoc] using this
    simp only [srcOfC, List.length_append] at hf ⊢
    obtain ⟨f, rfl⟩ : ∃ f, fuel = f + m := ⟨fuel - m, by omega⟩
    obtain ⟨w', le', its', hr, hits⟩ := hrun f
    simp only [List.length_nil, Nat.add_zero] at hr hits
    obtain ⟨f', w2, dd2, ts2, le2, its2, hf2, hr2, hits2⟩ := lex_cbody_open r hwf.2 inp _ w' false _ le' its' post f hnext (by omega)
    have hpos : q + 1 + (spell (piecesBody ff a d)).length + 1 + (srcOfC ff r).length =
        q + ((printPrint ff a d).length + (srcOfC ff r).length) := by omega
    rw [hpos] at hr2
    refine ⟨f', w2, dd2, ts2, le2, its2, by omega, by rw [hr, hr2], ?_⟩
    rw [hits2, hits]; simp [itemsB, textItem]
  | [.text t], hwf, inp, q, w, dd, ts, le, its, post, fuel, hin, hf => by
    have hin' : InpAt inp q (t ++ 123 :: post) := by simpa [srcOfC] using hin
    have hnx : InpAt inp (q + t.length) (123 :: post) := inpAt_append hin'
    obtain ⟨hq0, hb0⟩ := byteAt_of_inpAt hnx
    have hH : Holds inp q t := holds_of_inpAt hin'
    obtain ⟨w1, dd1, ts1, le1, its1, hlx, hits1⟩ := C15c.lexText_text_open inp q t.length w dd ts le its (by omega)
      (C15c.text_bytes hH (Or.inr hwf.1) (Or.inr (by rw [hb0]; decide))) (by rw [hb0]; rfl)
    obtain ⟨f, rfl⟩ : ∃ f, fuel = f + 1 := ⟨fuel - 1, by omega⟩
    refine ⟨f, w1, dd1, ts1, le1, its1, by omega, ?_, ?_⟩
    · rw [C15c.run_succ (show step .text _ = _ from hlx)]; simp [srcOfC]
    · rw [hits1, C15c.textItems_holds hH]; simp [itemsB]
  | .text t :: .cmd a d :: r, hwf, inp, q, w, dd, ts, le, its, post, fuel, hin, hf => by
    have hin' : InpAt inp q (t ++ (printPrint ff a d ++ (srcOfC ff r ++ 123 :: post))) := by simpa [srcOfC] using hin
    obtain ⟨m, hm, hrun⟩ := seg_run_cmd ff LT t (Or.inr hwf.1) a d hwf.2.2.1 (srcOfC ff r ++ 123 :: post) hin' w dd ts le its
    have hlenP := printPrint_length ff a d
    have hnext : InpAt inp (q + t.length + 1 + (spell (piecesBody ff a d)).length + 1) (srcOfC ff r ++ 123 :: post) := by
      have := inpAt_append (a := printPrint ff a d) (inpAt_append hin'); rw [hlenP] at this; simpa [Nat.add_assoc] using this
    simp only [srcOfC, List.length_append] at hf ⊢
    obtain ⟨f, rfl⟩ : ∃ f, fuel = f + m := ⟨fuel - m, by omega⟩
    obtain ⟨w', le', its', hr, hits⟩ := hrun f
    obtain ⟨f', w2, dd2, ts2, le2, its2, hf2, hr2, hits2⟩ := lex_cbody_open r hwf.2.2.2 inp _ w' false _ le' its' post f hnext (by omega)
    have hpos : q + t.length + 1 + (spell (piecesBody ff a d)).length + 1 + (srcOfC ff r).length =
        q + (t.length + ((printPrint ff a d).length + (srcOfC ff r).length)) := by omega
    rw [hpos] at hr2
    refine ⟨f', w2, dd2, ts2, le2, its2, by omega, by rw [hr, hr2], ?_⟩
    rw [hits2, hits]; simp [itemsB]
  | .text _ :: .text t2 :: _, hwf, _, _, _, _, _, _, _, _, _, _, _ => by
    have := hwf.2.1 (.text t2) (by simp)
    simp [BPiece.isText] at this

end

section
variable (ff : UInt64 → Bytes)

/-- `{template .name}` body `{/template}` -/
def frameSrc (nm : Bytes) (b : CBody) : Bytes := openTag nm ++ (srcOfC ff b ++ closeTag)

/-- the offset of the body -/
def bodyStart (nm : Bytes) : Nat := 0 + 1 + kwT.length + 1 + (46 :: nm).length + 1

/-- the items `lex` sends for the framed body (exact END offsets) -/
def frameItems (nm : Bytes) (b : CBody) : List Item :=
  openItems 0 nm ++ itemsB ff (bodyStart nm) b ++ closeItems (bodyStart nm + (srcOfC ff b).length) ++
    [⟨.tEOF, bodyStart nm + (srcOfC ff b).length + 1 + (47 :: kwT).length + 1, []⟩]

theorem openTag_length (nm : Bytes) : (openTag nm).length = bodyStart nm := by
  simp [openTag, bodyStart]; omega

variable (LT : LexTableOK)
include LT

/-- BYTE LEVEL, the template frame: `lex` on `{template .name}` ++ body ++ `{/template}` sends LeftDelim Template DotIdent
    RightDelim, the items of the body (`itemsB`), LeftDelim TemplateEnd RightDelim, EOF — all at their exact offsets -/
theorem lex_frame (nm : Bytes) (hnm : NameOk nm) (b : CBody) (hw : WFL ff b) :
    lexAll (frameSrc ff nm b) false = .items (frameItems ff nm b) := by
  let inp := (frameSrc ff nm b).toArray
  have hI0 : InpAt inp 0 (openTag nm ++ (srcOfC ff b ++ closeTag)) := ⟨[], by simp [inp, frameSrc], rfl⟩
  have hIB : InpAt inp (bodyStart nm) (srcOfC ff b ++ 123 :: ((47 :: kwT) ++ [125])) := by
    have := inpAt_append hI0; rw [Nat.zero_add, openTag_length] at this; simpa [closeTag] using this
  have hIC : InpAt inp (bodyStart nm + (srcOfC ff b).length) (closeTag ++ []) := by
    have := inpAt_append hIB; simpa [closeTag] using this
  have hIE : InpAt inp (bodyStart nm + (srcOfC ff b).length + 1 + (47 :: kwT).length + 1) [] := by
    have := inpAt_append hIC
    have e : bodyStart nm + (srcOfC ff b).length + closeTag.length =
        bodyStart nm + (srcOfC ff b).length + 1 + (47 :: kwT).length + 1 := by simp [closeTag]; omega
    rw [e] at this; exact this
  have hsz := inpAt_end hIE
  have h00 : InpAt inp 0 (123 :: (kwT ++ 32 :: ((46 :: nm) ++ [125]) ++ (srcOfC ff b ++ closeTag))) := by
    simpa [openTag] using hI0
  obtain ⟨hq0, hb0⟩ := byteAt_of_inpAt h00
  obtain ⟨w1, dd1, ts1, le1, its1, hlx, hits1⟩ := C15c.lexText_text_open inp 0 0 0 false 0 Item.zero #[] (by omega)
    (fun i hi => absurd hi (by omega)) (by rw [hb0]; rfl)
  unfold lexAll
  simp only [Bool.false_eq_true, if_false]
  have hN : (frameSrc ff nm b).length = bodyStart nm + (srcOfC ff b).length + 1 + (47 :: kwT).length + 1 := by
    simp [frameSrc, openTag_length, closeTag]; omega
  have hbs : 4 ≤ bodyStart nm := by simp [bodyStart]; omega
  obtain ⟨F, hF⟩ : ∃ F, Lex.fuelFor (frameSrc ff nm b).length = (F + 9) + 1 := ⟨Lex.fuelFor (frameSrc ff nm b).length - 10, by
    unfold Lex.fuelFor; omega⟩
  have hFb : 7 * (srcOfC ff b).length + 1 + 30 ≤ F := by
    unfold Lex.fuelFor at hF; rw [hN] at hF; simp at hF; omega
  have e0 : initLexer (frameSrc ff nm b) = Lexer.mk inp ((0 : Nat) : Int) ((0 : Nat) : Int) 0 false 0 Item.zero #[] := rfl
  rw [hF, e0, C15c.run_succ (show step .text _ = _ from hlx)]
  obtain ⟨w2, le2, its2, hr2, hits2⟩ := open_tag_run LT nm (srcOfC ff b ++ closeTag) hnm hI0 w1 dd1 ts1 le1 its1 F
  simp only [Nat.add_zero] at hr2 ⊢
  rw [hr2]
  obtain ⟨f', w3, dd3, ts3, le3, its3, hf3, hr3, hits3⟩ := lex_cbody_open ff LT b hw inp (bodyStart nm) w2 false _ le2 its2
    ((47 :: kwT) ++ [125]) F hIB (by omega)
  have hr3' := hr3
  unfold bodyStart at hr3'
  rw [hr3']
  obtain ⟨g, rfl⟩ : ∃ g, f' = (g + 1) + 5 := ⟨f' - 6, by omega⟩
  obtain ⟨w4, le4, its4, hr4, hits4⟩ := close_tag_run LT [] hIC w3 dd3 ts3 le3 its3 (g + 1)
  have hr4' := hr4
  unfold bodyStart at hr4'
  rw [hr4']
  obtain ⟨lf, hl1, hl2⟩ := C15c.lexText_text_eof inp (bodyStart nm + (srcOfC ff b).length + 1 + (47 :: kwT).length + 1) 0 w4 false
    ((bodyStart nm + (srcOfC ff b).length : Nat) : Int) le4 its4 (by omega) (fun i hi => absurd hi (by omega))
  have hl1' := hl1
  unfold bodyStart at hl1'
  rw [C15c.run_end (show step .text _ = _ from hl1'), hl2, C15c.textItems_nat, hits4, hits3, hits2, hits1, C15c.textItems_nat]
  simp [frameItems]

end

/-! ## the parser on the framed body -/

section
open SoyVerif.Model.FileParser (FState FP Node NodeList textOrTag itemListLoop skipComments beginTag parseFile parseSource)
open SoyVerif.Props.C15c (textNodes toList_append)
variable (ff : UInt64 → Bytes) (pf : Bytes → Option UInt64)

/-- the round of `itemList(untl…)` that reads the closing command `{` `cl` of the block -/
theorem loop_close (ef g : Nat) (untl : List ItemType) (hu1 : untl.contains .tLeftDelim = false) (cl : Tk)
    (hcl : untl.contains cl.typ = true) (lpos : Option Nat) (nodes : NodeList) (rest : List Tk) (st : FState)
    (hst : At st.p (⟨.tLeftDelim, [123]⟩ :: cl :: rest)) :
    ∃ lp p', itemListLoop pf ef (g + 3) untl lpos nodes st = .ok (.list lp nodes, { st with p := p' }) ∧ At p' rest := by
  obtain ⟨l2, p3, hn2, hl2, _, hj3⟩ := fnext_at hst
  have hl2' : l2.typ = .tLeftDelim := hl2
  obtain ⟨c, p4, hn3, hct, _, hj4⟩ := fnext_at (st := { st with p := p3 }) hj3.at
  have hun : textOrTag pf ef (g + 1 + 1) l2 untl { st with p := p3 } = .ok ((none, true), { st with p := p4 }) := by
    unfold textOrTag
    simp only
    rw [fbind_ok (skipComments_id g l2 _ (by rw [hl2']; decide))]
    simp only [hl2', hu1, Bool.false_eq_true, if_false]
    rw [fbind_ok hn3]
    simp only [hct, hcl, beq_self_eq_true, Bool.and_self, if_true]
    rfl
  refine ⟨lpos.getD l2.pos, p4, ?_, hj4.at⟩
  unfold itemListLoop
  rw [fbind_ok hn2]
  simp only
  rw [fbind_ok hun]
  rfl

theorem tksB_head (r : CBody) (h : ∀ p ∈ r.head?, p.isText = false) (tl : List Tk) :
    ∃ s, tksB ff r ++ ⟨.tLeftDelim, [123]⟩ :: tl = ⟨.tLeftDelim, [123]⟩ :: s := by
  match r, h with
  | [], _ => exact ⟨_, rfl⟩
  | .cmd a d :: r, _ => exact ⟨_, rfl⟩
  | .text t :: r, h => have := h (.text t) (by simp); simp [BPiece.isText] at this

theorem fuelB_of_lenB : ∀ (b : CBody) (n : Nat), (tksB ff b).length ≤ n → FuelB ff (8 * n + 64) (2 * n + 2) b
  | [], _, _ => trivial
  | .text t :: r, n, h => fuelB_of_lenB r n (by simp [tksB] at h; omega)
  | .cmd a d :: r, n, h => by
    simp only [tksB, List.length_cons, List.length_append] at h
    obtain ⟨f1, f2, f3⟩ := fuel_ok ff a d n (by omega)
    exact ⟨⟨⟨by have := f1.1; omega, fun x hx y hy => by have := f1.2 x hx y hy; omega⟩, f2, f3⟩,
      fuelB_of_lenB r n (by omega)⟩

variable (T : TableOK)
include T

/-- **parser.**  `itemList(untl…)` on the tokens of a well-formed body that stands in a block closed by `{` `cl` -/
theorem parse_cbody_until (ef G : Nat) (untl : List ItemType) (hu : untl.contains .tText = false)
    (hu1 : untl.contains .tLeftDelim = false) (hu2 : ∀ t ∈ headTypes, untl.contains t = false) (cl : Tk)
    (hcl : untl.contains cl.typ = true) (rest : List Tk) :
    ∀ (b : CBody), WFL ff b → CanonB ff pf b → FuelB ff ef G b →
    ∀ (F : Nat) (lpos : Option Nat) (nodes : NodeList) (st : FState),
    At st.p (tksB ff b ++ ⟨.tLeftDelim, [123]⟩ :: cl :: rest) → G + (tksB ff b).length + 4 ≤ F →
    ∃ lp nl p' tail, itemListLoop pf ef F untl lpos nodes st = .ok (.list lp nl, { st with p := p' }) ∧
      nl.toList = nodes.toList ++ tail ∧ NodesMatch tail b ∧ At p' rest
  | [], _, _, _, F, lpos, nodes, st, hst, hF => by
    obtain ⟨g, rfl⟩ : ∃ g, F = g + 3 := ⟨F - 3, by omega⟩
    obtain ⟨lp, p', hr, ha⟩ := loop_close pf ef g untl hu1 cl hcl lpos nodes rest st hst
    exact ⟨lp, nodes, p', [], hr, by simp, rfl, ha⟩
  | .text t :: r, hwf, hcan, hfu, F, lpos, nodes, st, hst, hF => by
    obtain ⟨s, hnx⟩ := tksB_head ff r hwf.2.1 (cl :: rest)
    have hst' : At st.p (textTk t ++ ⟨.tLeftDelim, [123]⟩ :: s) := by
      rw [← hnx]; simpa [tksB] using hst
    have hF' : G + ((textTk t).length + (tksB ff r).length) + 4 ≤ F := by
      simpa only [tksB, List.length_append] using hF
    obtain ⟨F', lp1, n1, q1, pos1, hFa, hFb, hr1, hn1, ha1⟩ := loop_text pf ef untl hu t ⟨.tLeftDelim, [123]⟩ (by decide) (by decide)
      s F (by omega) lpos nodes st hst'
    rw [← hnx] at ha1
    obtain ⟨lp, nl, p', tail, hr, hnl, hm, ha⟩ := parse_cbody_until ef G untl hu hu1 hu2 cl hcl rest r hwf.2.2 hcan hfu F' lp1 n1
      { st with p := q1 } ha1 (by omega)
    exact ⟨lp, nl, p', textNodes t pos1 ++ tail, by rw [hr1]; exact hr, by rw [hnl, hn1]; simp, ⟨pos1, tail, rfl, hm⟩, ha⟩
  | .cmd a d :: r, hwf, hcan, hfu, F, lpos, nodes, st, hst, hF => by
    simp only [tksB, List.length_cons, List.length_append] at hF
    obtain ⟨g, rfl⟩ : ∃ g, F = g + 3 := ⟨F - 3, by omega⟩
    have hg : G ≤ g := by omega
    have hst' : At st.p (⟨.tLeftDelim, [123]⟩ :: (unsp (piecesBody ff a d) ++ tRD :: (tksB ff r ++ ⟨.tLeftDelim, [123]⟩ :: cl :: rest))) := by
      simpa [tksB] using hst
    obtain ⟨lp2, pos, e', ds', q2, hr2, he, hd, ha2⟩ := loop_print ff pf T a d hcan.1 ef g hfu.1.1
      (fun x hx => by have := hfu.1.2.1 x hx; omega) (by have := hfu.1.2.2; omega) untl hu1 hu2
      lpos nodes _ st hst'
    obtain ⟨lp, nl, p', tail, hr, hnl, hm, ha⟩ := parse_cbody_until ef G untl hu hu1 hu2 cl hcl rest r hwf.2 hcan.2 hfu.2 (g + 2) lp2 _
      { st with p := q2 } ha2 (by omega)
    refine ⟨lp, nl, p', Node.print pos e' ds' :: tail, by rw [hr2]; exact hr, ?_, ⟨pos, e', ds', tail, rfl, he, hd, hm⟩, ha⟩
    rw [hnl, toList_append]
    simp [NodeList.toList]

/-- the TEMPLATE around a body, token level: `beginTag` on `template` `.name` `}` body `{` `/template` `}` -/
theorem template_body (ef G y : Nat) (b : CBody) (hw : WFL ff b) (hc : CanonB ff pf b) (hfu : FuelB ff ef G b)
    (hy : G + (tksB ff b).length + 4 ≤ y) (tv ev name : Bytes) (rest : List Tk) (st : FState)
    (hst : At st.p (⟨.tTemplate, tv⟩ :: ⟨.tDotIdent, name⟩ :: tRD ::
      (tksB ff b ++ ⟨.tLeftDelim, [123]⟩ :: ⟨.tTemplateEnd, ev⟩ :: tRD :: rest))) :
    ∃ tpos lp nl p', beginTag pf ef (y + 2) st =
        .ok (some (Node.template tpos (st.ns ++ name) (.list lp nl) .unspecified false), { st with p := p' }) ∧
      NodesMatch nl.toList b ∧ At p' rest := by
  obtain ⟨tt, p1, hn1, htt, _, hj1⟩ := fnext_at hst
  have htt' : tt.typ = .tTemplate := htt
  obtain ⟨di, p2, hx2, _, hdv, hj2⟩ := fexpect_at (st := { st with p := p1 }) hj1.at
  have hdv' : di.val = name := hdv
  obtain ⟨r1, p3, hn3, hr1, hr1v, hj3⟩ := fnext_at (st := { st with p := p2 }) hj2.at
  have hr1' : r1.typ = .tRightDelim := hr1
  obtain ⟨p4, hb4, ha4⟩ := fbackup_just (st := { st with p := p3 }) hj3
  rw [tk_eq hr1 hr1v] at ha4
  obtain ⟨_, p5, hx5, _, _, hj5⟩ := fexpect_at (st := { st with p := p4 }) ha4.at
  obtain ⟨lp, nl, p6, tail, hil, hnl, hm, ha6⟩ := parse_cbody_until ff pf T ef G [.tTemplateEnd] (by decide) (by decide) (by decide)
    ⟨.tTemplateEnd, ev⟩ (by simp) (tRD :: rest) b hw hc hfu y none .nil { st with p := p5 } hj5.at hy
  obtain ⟨_, p7, hx7, _, _, hj7⟩ := fexpect_at (st := { st with p := p6 }) ha6
  have hnl' : nl.toList = tail := by simpa [NodeList.toList] using hnl
  refine ⟨tt.pos, lp, nl, p7, ?_, by rw [hnl']; exact hm, hj7.at⟩
  obtain ⟨y', rfl⟩ : ∃ y', y = y' + 1 := ⟨y - 1, by omega⟩
  have hpa : FileParser.parseAttrs [FileParser.kAutoescape, FileParser.kPrivate, FileParser.kKind] (y' + 1) []
      { st with p := p2 } = .ok ([], { st with p := p4 }) := by
    unfold FileParser.parseAttrs
    rw [fbind_ok hn3]
    simp only [hr1', show (ItemType.tRightDelim == ItemType.tIdent) = false by decide, Bool.false_eq_true, if_false,
      beq_self_eq_true, Bool.true_or, if_true]
    rw [fbind_ok hb4]
    rfl
  have hx2' : FileParser.expect .tDotIdent { st with p := p1 } = .ok (di, { st with p := p2 }) := hx2
  have hx5' : FileParser.expect .tRightDelim { st with p := p4 } = .ok (_, { st with p := p5 }) := hx5
  have hx7' : FileParser.expect .tRightDelim { st with p := p6 } = .ok (_, { st with p := p7 }) := hx7
  have hpt : FileParser.parseTemplate pf ef (y' + 1 + 1) tt { st with p := p1 } =
      .ok (Node.template tt.pos (st.ns ++ name) (.list lp nl) .unspecified false, { st with p := p7 }) := by
    unfold FileParser.parseTemplate
    rw [fbind_ok hx2', fbind_ok hpa]
    simp only [FileParser.parseAutoescape, FileParser.boolAttr, FileParser.lookup, List.find?_nil, Option.map_none,
      Option.getD_none, beq_self_eq_true, if_true]
    rw [fbind_ok (show (pure _ : FP Autoescape) { st with p := p4 } = .ok (_, { st with p := p4 }) from rfl)]
    rw [fbind_ok (show (pure false : FP Bool) { st with p := p4 } = .ok (_, { st with p := p4 }) from rfl)]
    rw [fbind_ok hx5', fbind_ok hil]
    rw [fbind_ok (show (get : FP FState) { st with p := p6 } = .ok ({ st with p := p6 }, { st with p := p6 }) from rfl)]
    rw [fbind_ok hx7', hdv']
    rfl
  unfold beginTag
  rw [fbind_ok hn1]
  simp only [htt']
  rw [fbind_ok hpt]
  rfl

end

section
open SoyVerif.Model.FileParser (FState FP Node NodeList textOrTag itemListLoop skipComments beginTag parseFile parseSource)
variable (ff : UInt64 → Bytes) (pf : Bytes → Option UInt64) (LT : LexTableOK) (T : TableOK)
include LT T

/-- **`template_frame_spec`** — `body_source_spec_cmds` inside a template: for a template name `nm` (`NameOk`) and a
    well-formed body `b` (text runs and arbitrary print commands), `parse.SoyFile` on
    `{template .nm}` ++ `srcOfC ff b` ++ `{/template}`:

    * the lexer sends exactly `frameItems ff nm b` — LeftDelim Template DotIdent RightDelim, the items of the body,
      LeftDelim TemplateEnd RightDelim, EOF — every item at its exact END offset;
    * the parser returns the one template node, named `.nm` (no namespace), autoescape unspecified, not private, whose
      body list is the RawText / Print nodes of the body in order, print nodes modulo positions (`NodesMatch`). -/
theorem template_frame_spec (nm : Bytes) (hnm : NameOk nm) (b : CBody) (hw : WFL ff b) (hc : CanonB ff pf b) :
    lexAll (frameSrc ff nm b) false = .items (frameItems ff nm b) ∧
      ∃ tpos lp nl, parseSource pf (frameSrc ff nm b) =
          .ok [Node.template tpos (46 :: nm) (.list lp nl) .unspecified false] ∧ NodesMatch nl.toList b := by
  have hl := lex_frame ff LT nm hnm b hw
  refine ⟨hl, ?_⟩
  have htk : (frameItems ff nm b).map Item.tk = ⟨.tLeftDelim, [123]⟩ :: ⟨.tTemplate, kwT⟩ :: ⟨.tDotIdent, 46 :: nm⟩ :: tRD ::
      (tksB ff b ++ ⟨.tLeftDelim, [123]⟩ :: ⟨.tTemplateEnd, 47 :: kwT⟩ :: tRD :: [⟨.tEOF, []⟩]) := by
    simp [frameItems, openItems, closeItems, itemsB_tk, Item.tk, tRD]
  have hlen : (tksB ff b).length + 8 = (frameItems ff nm b).length := by
    have := congrArg List.length htk
    simp at this; omega
  have hfu := fuelB_of_lenB ff b (frameItems ff nm b).length (by omega)
  have hst0 := at_init (frameItems ff nm b)
  rw [htk] at hst0
  obtain ⟨ld, p1, hn1, hlt, _, hj1⟩ := fnext_at (st := { p := initState (frameItems ff nm b) }) hst0
  have hlt' : ld.typ = .tLeftDelim := hlt
  obtain ⟨t2, p2, hn2, ht2, hv2, hj2⟩ := fnext_at (st := { p := p1 }) hj1.at
  have ht2' : t2.typ = .tTemplate := ht2
  obtain ⟨p3, hb3, ha3⟩ := fbackup_just (st := { p := p2 }) hj2
  rw [tk_eq ht2 hv2] at ha3
  obtain ⟨tpos, lp, nl, p4, hbt, hm, ha4⟩ := template_body ff pf T (8 * (frameItems ff nm b).length + 64)
    (2 * (frameItems ff nm b).length + 2) (8 * (frameItems ff nm b).length + 60) b hw hc hfu (by omega) kwT (47 :: kwT) (46 :: nm)
    [⟨.tEOF, []⟩] { p := p3 } ha3.at
  have hto : textOrTag pf (8 * (frameItems ff nm b).length + 64) (8 * (frameItems ff nm b).length + 60 + 2 + 1) ld [.tEOF] { p := p1 } =
      .ok ((some (Node.template tpos (46 :: nm) (.list lp nl) .unspecified false), false), { p := p4 }) := by
    unfold textOrTag
    simp only
    rw [fbind_ok (skipComments_id _ ld _ (by rw [hlt']; decide))]
    simp only [hlt', show ([ItemType.tEOF].contains ItemType.tLeftDelim) = false by decide, Bool.false_eq_true, if_false]
    rw [fbind_ok hn2]
    simp only [ht2', show ([ItemType.tEOF].contains ItemType.tTemplate) = false by decide, Bool.and_false, Bool.false_eq_true, if_false]
    rw [fbind_ok hb3]
    simp only [show (ItemType.tLeftDelim == ItemType.tText) = false by decide, Bool.false_eq_true, if_false,
      beq_self_eq_true, if_true]
    rw [fbind_ok hbt]
    rfl
  obtain ⟨lp2, st5, hr5⟩ := loop_eof pf (8 * (frameItems ff nm b).length + 64) (8 * (frameItems ff nm b).length + 60)
    (some ((none : Option Nat).getD ld.pos)) (NodeList.nil.append (.cons (Node.template tpos (46 :: nm) (.list lp nl) .unspecified false) .nil))
    [] { p := p4 } ha4
  have hrun : itemListLoop pf (8 * (frameItems ff nm b).length + 64) ((8 * (frameItems ff nm b).length + 60 + 2 + 1) + 1) [.tEOF]
      none .nil { p := initState (frameItems ff nm b) } =
      .ok (.list lp2 (NodeList.nil.append (.cons (Node.template tpos (46 :: nm) (.list lp nl) .unspecified false) .nil)), st5) := by
    unfold itemListLoop
    rw [fbind_ok hn1]
    simp only
    rw [fbind_ok hto]
    simp only [Bool.false_eq_true, if_false]
    exact hr5
  refine ⟨tpos, lp, nl, ?_, hm⟩
  unfold parseSource
  rw [hl]
  simp only
  unfold parseFile
  simp only [StateT.run, FileParser.fuelFor, FileParser.exprFuel, Parser.fuelFor]
  rw [show 8 * (frameItems ff nm b).length + 64 = (8 * (frameItems ff nm b).length + 60 + 2 + 1) + 1 by omega] at hrun ⊢
  rw [hrun]
  rfl

end

/-! # `{namespace n}` in front of the frame: a complete minimal file (without soydoc) -/

/-- `namespace` -/
def kwN : Bytes := [110, 97, 109, 101, 115, 112, 97, 99, 101]

/-- `{namespace ` name `}` -/
def nsTag (ns : Bytes) : Bytes := 123 :: (kwN ++ 32 :: (ns ++ [125]))

/-- a (one-part) namespace name: an identifier that is no word of `builtinIdents` -/
def IdentOk (ns : Bytes) : Prop :=
  ∃ c k, ns = c :: k ∧ isIdStart c = true ∧ alnumBytes k = true ∧ Gen.builtinIdents.lookup (c :: k) = none

/-- the items of `{namespace n}` at offset `q` -/
def nsItems (q : Nat) (ns : Bytes) : List Item :=
  [⟨.tLeftDelim, q + 1, [123]⟩, ⟨.tNamespace, q + 1 + kwN.length, kwN⟩,
   ⟨.tIdent, q + 1 + kwN.length + 1 + ns.length, ns⟩,
   ⟨.tRightDelim, q + 1 + kwN.length + 1 + ns.length + 1, [125]⟩]

section
variable (LT : LexTableOK)
include LT

/-- `{namespace n}` anywhere in the input, from any lexer record in `lexLeftDelim`: nine state functions -/
theorem ns_tag_run {inp : Array UInt8} {q : Nat} (ns post : Bytes) (hns : IdentOk ns)
    (hin : InpAt inp q (nsTag ns ++ post)) (w : Int) (dd : Bool) (ts : Int) (le : Item) (its : Array Item) (f : Nat) :
    ∃ (w' : Int) (le' : Item) (its' : Array Item),
      run (f + 9) .leftDelim (Lexer.mk inp q q w dd ts le its) =
        run f .text (Lexer.mk inp ((q + 1 + kwN.length + 1 + ns.length + 1 : Nat) : Int)
          ((q + 1 + kwN.length + 1 + ns.length + 1 : Nat) : Int) w' false (q : Int) le' its') ∧
      its'.toList = its.toList ++ nsItems q ns := by
  obtain ⟨c, k, rfl, hc, hk, hlook⟩ := hns
  have h0 : InpAt inp q (123 :: 110 :: ([97, 109, 101, 115, 112, 97, 99, 101] ++ 32 :: ((c :: k) ++ 125 :: post))) := by
    simpa [nsTag, kwN] using hin
  have h1 : InpAt inp (q + 1) (kwN ++ (32 :: ((c :: k) ++ 125 :: post))) := by
    have := inpAt_tail h0; simpa [kwN] using this
  have h1' : InpAt inp (q + 1) (110 :: ([97, 109, 101, 115, 112, 97, 99, 101] ++ 32 :: ((c :: k) ++ 125 :: post))) := inpAt_tail h0
  have h2 : InpAt inp (q + 1 + kwN.length) (32 :: ((c :: k) ++ 125 :: post)) := inpAt_append h1
  have h3 : InpAt inp (q + 1 + kwN.length + 1) ((c :: k) ++ 125 :: post) := inpAt_tail h2
  have h4 : InpAt inp (q + 1 + kwN.length + 1 + (c :: k).length) (125 :: post) := inpAt_append h3
  obtain ⟨hq0, hb0⟩ := byteAt_of_inpAt h0
  obtain ⟨hq1, hb1⟩ := byteAt_of_inpAt (inpAt_tail h0)
  have hld := lexLeftDelim_any inp q w dd ts le its 110 (by omega) (by rw [hb0]; rfl) (by rw [hb1]; rfl) (by omega) (by omega)
  have hex : (inp.extract q (q + 1)).toList = [123] := inpAt_extract (v := [123]) h0
  rw [hex] at hld
  have hw1 : Step2 (q : Int) inp (q + 1) ⟨.tLeftDelim, q + 1, [123]⟩ (its.push ⟨.tLeftDelim, q + 1, [123]⟩) ⟨.tNamespace, kwN⟩ :=
    step_word LT (c := 110) (k := [97, 109, 101, 115, 112, 97, 99, 101]) (rest := 32 :: ((c :: k) ++ 125 :: post))
      (by simpa [kwN] using h1) (by decide) (by decide) ⟨by decide, by decide⟩ .tNamespace
      (Or.inl ⟨by decide, by decide, by decide⟩) _ _
  obtain ⟨w1, hr1⟩ := run_of_step2 hw1 1 (f + 5)
  have hw2 := step_word (tg := (q : Int)) LT h3 hc hk (rest := 125 :: post) ⟨by decide, by decide⟩ .tIdent (Or.inr ⟨hlook, rfl⟩)
    (itemOf ⟨.tNamespace, kwN⟩ (q + 1 + kwN.length)) ((its.push ⟨.tLeftDelim, q + 1, [123]⟩).push (itemOf ⟨.tNamespace, kwN⟩ (q + 1 + kwN.length)))
  obtain ⟨w2, hr2⟩ := run_of_step2 hw2 1 (f + 2)
  refine ⟨1, ⟨.tRightDelim, q + 1 + kwN.length + 1 + (c :: k).length + 1, [125]⟩,
    ((((its.push ⟨.tLeftDelim, q + 1, [123]⟩).push (itemOf ⟨.tNamespace, kwN⟩ (q + 1 + kwN.length))).push
      (itemOf ⟨.tIdent, c :: k⟩ (q + 1 + kwN.length + 1 + (c :: k).length))).push
      ⟨.tRightDelim, q + 1 + kwN.length + 1 + (c :: k).length + 1, [125]⟩), ?_, ?_⟩
  · rw [show f + 9 = (((f + 5) + 2) + 1) + 1 by omega, C15c.run_succ (show step .leftDelim _ = _ from hld)]
    have e1 : Lexer.mk inp ((q + 1 : Nat) : Int) ((q + 1 : Nat) : Int) 1 false (q : Int)
        ⟨.tLeftDelim, q + 1, [123]⟩ (its.push ⟨.tLeftDelim, q + 1, [123]⟩) =
        L (q : Int) inp (q + 1) (q + 1) 1 ⟨.tLeftDelim, q + 1, [123]⟩ (its.push ⟨.tLeftDelim, q + 1, [123]⟩) := rfl
    rw [e1, run_step (step_beginTag h1' (by decide) (by decide) (by decide) 1 _ _), hr1]
    unfold After
    rw [show f + 5 = ((f + 2) + 2) + 1 by omega, run_step (step_space h2 w1 _ _), hr2]
    unfold After
    rw [show f + 2 = (f + 1) + 1 by omega, run_step (step_rbrace h4 w2 _ _), run_step (step_rightDelim h4 _ _)]
    rfl
  · simp [nsItems, itemOf]

variable (ff : UInt64 → Bytes)

/-- the frame `{template .nm}` body `{/template}` ANYWHERE in the input, from any lexer record in `lexLeftDelim` -/
theorem frame_run (nm : Bytes) (hnm : NameOk nm) (b : CBody) (hw : WFL ff b) {inp : Array UInt8} {q : Nat} (post : Bytes)
    (hin : InpAt inp q (openTag nm ++ (srcOfC ff b ++ (closeTag ++ post)))) (w : Int) (dd : Bool) (ts : Int) (le : Item)
    (its : Array Item) (fuel : Nat) (hf : 7 * (srcOfC ff b).length + 1 + 14 ≤ fuel) :
    ∃ (f' : Nat) (w' : Int) (tg' : Int) (le' : Item) (its' : Array Item), fuel ≤ f' + (7 * (srcOfC ff b).length + 1 + 14) ∧
      run fuel .leftDelim (Lexer.mk inp q q w dd ts le its) =
        run f' .text (Lexer.mk inp
          ((q + 1 + kwT.length + 1 + (46 :: nm).length + 1 + (srcOfC ff b).length + 1 + (47 :: kwT).length + 1 : Nat) : Int)
          ((q + 1 + kwT.length + 1 + (46 :: nm).length + 1 + (srcOfC ff b).length + 1 + (47 :: kwT).length + 1 : Nat) : Int)
          w' false tg' le' its') ∧
      its'.toList = its.toList ++ openItems q nm ++ itemsB ff (q + 1 + kwT.length + 1 + (46 :: nm).length + 1) b ++
        closeItems (q + 1 + kwT.length + 1 + (46 :: nm).length + 1 + (srcOfC ff b).length) := by
  have hol : (openTag nm).length = 1 + kwT.length + 1 + (46 :: nm).length + 1 := by simp [openTag]; omega
  have hIB : InpAt inp (q + 1 + kwT.length + 1 + (46 :: nm).length + 1) (srcOfC ff b ++ 123 :: ((47 :: kwT) ++ [125] ++ post)) := by
    have := inpAt_append hin; rw [hol] at this; simpa [closeTag, Nat.add_assoc] using this
  have hIC : InpAt inp (q + 1 + kwT.length + 1 + (46 :: nm).length + 1 + (srcOfC ff b).length) (closeTag ++ post) := by
    have := inpAt_append hIB; simpa [closeTag] using this
  obtain ⟨F, rfl⟩ : ∃ F, fuel = F + 9 := ⟨fuel - 9, by omega⟩
  obtain ⟨w2, le2, its2, hr2, hits2⟩ := open_tag_run LT nm (srcOfC ff b ++ (closeTag ++ post)) hnm hin w dd ts le its F
  obtain ⟨f', w3, dd3, ts3, le3, its3, hf3, hr3, hits3⟩ := lex_cbody_open ff LT b hw inp _ w2 false _ le2 its2
    ((47 :: kwT) ++ [125] ++ post) F hIB (by omega)
  obtain ⟨g, rfl⟩ : ∃ g, f' = g + 5 := ⟨f' - 5, by omega⟩
  obtain ⟨w4, le4, its4, hr4, hits4⟩ := close_tag_run LT post hIC w3 dd3 ts3 le3 its3 g
  refine ⟨g, w4, _, le4, its4, by omega, by rw [hr2, hr3, hr4], ?_⟩
  rw [hits4, hits3, hits2]

end

section
variable (ff : UInt64 → Bytes)

/-- `{namespace ns}⏎{template .nm}` body `{/template}⏎` -/
def nsSrc (ns nm : Bytes) (b : CBody) : Bytes :=
  nsTag ns ++ (10 :: (openTag nm ++ (srcOfC ff b ++ (closeTag ++ [10]))))

/-- the offset of the `{` of the template tag -/
def tplStart (ns : Bytes) : Nat := 0 + 1 + kwN.length + 1 + ns.length + 1 + 1

/-- the items `lex` sends for that file (exact END offsets; the two line breaks are dropped) -/
def nsFileItems (ns nm : Bytes) (b : CBody) : List Item :=
  nsItems 0 ns ++ openItems (tplStart ns) nm ++ itemsB ff (tplStart ns + 1 + kwT.length + 1 + (46 :: nm).length + 1) b ++
    closeItems (tplStart ns + 1 + kwT.length + 1 + (46 :: nm).length + 1 + (srcOfC ff b).length) ++
    [⟨.tEOF, tplStart ns + 1 + kwT.length + 1 + (46 :: nm).length + 1 + (srcOfC ff b).length + 1 + (47 :: kwT).length + 1 + 1, []⟩]

variable (LT : LexTableOK)
include LT

theorem lex_nsfile (ns nm : Bytes) (hns : IdentOk ns) (hnm : NameOk nm) (b : CBody) (hw : WFL ff b) :
    lexAll (nsSrc ff ns nm b) false = .items (nsFileItems ff ns nm b) := by
  let inp := (nsSrc ff ns nm b).toArray
  have hI0 : InpAt inp 0 (nsTag ns ++ (10 :: (openTag nm ++ (srcOfC ff b ++ (closeTag ++ [10]))))) := ⟨[], by simp [inp, nsSrc], rfl⟩
  have hnl : (nsTag ns).length = 1 + kwN.length + 1 + ns.length + 1 := by simp [nsTag]; omega
  have hI1 : InpAt inp (0 + 1 + kwN.length + 1 + ns.length + 1) (10 :: (openTag nm ++ (srcOfC ff b ++ (closeTag ++ [10])))) := by
    have := inpAt_append hI0; rw [hnl] at this; simpa [Nat.add_assoc] using this
  have hI2 : InpAt inp (tplStart ns) (openTag nm ++ (srcOfC ff b ++ (closeTag ++ [10]))) := inpAt_tail hI1
  have hol : (openTag nm).length = 1 + kwT.length + 1 + (46 :: nm).length + 1 := by simp [openTag]; omega
  have hcl : closeTag.length = 1 + (47 :: kwT).length + 1 := by simp [closeTag]; omega
  have hIE : InpAt inp (tplStart ns + 1 + kwT.length + 1 + (46 :: nm).length + 1 + (srcOfC ff b).length + 1 + (47 :: kwT).length + 1) [10] := by
    have := inpAt_append (inpAt_append (inpAt_append hI2)); rw [hol, hcl] at this; simpa [Nat.add_assoc] using this
  have hsz := inpAt_len hIE
  simp only [List.length_cons, List.length_nil] at hsz
  have h00 : InpAt inp 0 (123 :: (kwN ++ 32 :: (ns ++ [125]) ++ (10 :: (openTag nm ++ (srcOfC ff b ++ (closeTag ++ [10])))))) := by
    simpa [nsTag] using hI0
  obtain ⟨hq0, hb0⟩ := byteAt_of_inpAt h00
  obtain ⟨hq1, hb1⟩ := byteAt_of_inpAt hI1
  have hI2' : InpAt inp (tplStart ns) (123 :: (kwT ++ 32 :: ((46 :: nm) ++ [125]) ++ (srcOfC ff b ++ (closeTag ++ [10])))) := by
    simpa [openTag] using hI2
  obtain ⟨hq2, hb2⟩ := byteAt_of_inpAt hI2'
  obtain ⟨hq3, hb3⟩ := byteAt_of_inpAt hIE
  have hdrop : allSpaceWithNewline [10] = true := by
    simp [allSpaceWithNewline, allSpaceLoop, Lex.decodeRune, byteAt, Lex.isSpaceEOL, Lex.isSpace, Lex.isEndOfLine]
  have hc1 : (46 :: nm).length = nm.length + 1 := rfl
  have hc2 : (47 :: kwT).length = kwT.length + 1 := rfl
  have e2 : byteAt inp (0 + 1 + kwN.length + 1 + ns.length + 1 + 1) = 123 := by
    have := hb2; unfold tplStart at this; simpa using this
  -- `{` at 0
  obtain ⟨w1, dd1, ts1, le1, its1, hlx, hits1⟩ := C15c.lexText_text_open inp 0 0 0 false 0 Item.zero #[] (by omega)
    (fun i hi => absurd hi (by omega)) (by rw [hb0]; rfl)
  unfold lexAll
  simp only [Bool.false_eq_true, if_false]
  have hN : (nsSrc ff ns nm b).length =
      tplStart ns + 1 + kwT.length + 1 + (46 :: nm).length + 1 + (srcOfC ff b).length + 1 + (47 :: kwT).length + 1 + 1 := by
    have : inp.size = (nsSrc ff ns nm b).length := by simp [inp]
    omega
  obtain ⟨F, hF⟩ : ∃ F, Lex.fuelFor (nsSrc ff ns nm b).length = ((F + 1) + 9) + 1 := ⟨Lex.fuelFor (nsSrc ff ns nm b).length - 11, by
    unfold Lex.fuelFor; omega⟩
  have hFb : 7 * (srcOfC ff b).length + 1 + 14 + 30 ≤ F := by
    unfold Lex.fuelFor at hF; rw [hN] at hF; simp [tplStart] at hF; omega
  have e0 : initLexer (nsSrc ff ns nm b) = Lexer.mk inp ((0 : Nat) : Int) ((0 : Nat) : Int) 0 false 0 Item.zero #[] := rfl
  rw [hF, e0, C15c.run_succ (show step .text _ = _ from hlx)]
  obtain ⟨w2, le2, its2, hr2, hits2⟩ := ns_tag_run LT ns _ hns hI0 w1 dd1 ts1 le1 its1 (F + 1)
  simp only [Nat.add_zero] at hr2 ⊢
  rw [hr2]
  -- the line break
  obtain ⟨w3, dd3, ts3, le3, its3, hlx3, hits3⟩ := C15c.lexText_text_open inp (0 + 1 + kwN.length + 1 + ns.length + 1) 1 w2 false
    ((0 : Nat) : Int) le2 its2 (by unfold tplStart at hq2; omega)
    (fun i hi => by
      have : i = 0 := by omega
      subst this
      rw [Nat.add_zero, hb1, e2]; unfold C15c.TextByte; decide)
    e2
  rw [C15c.run_succ (show step .text _ = _ from hlx3)]
  -- the frame
  obtain ⟨f', w4, tg4, le4, its4, hf4, hr4, hits4⟩ := frame_run LT ff nm hnm b hw [10] hI2 w3 dd3 ts3 le3 its3 F (by omega)
  have hr4' := hr4
  unfold tplStart at hr4'
  rw [hr4']
  obtain ⟨g, rfl⟩ : ∃ g, f' = g + 1 := ⟨f' - 1, by omega⟩
  obtain ⟨lf, hl1, hl2⟩ := C15c.lexText_text_eof inp
    (tplStart ns + 1 + kwT.length + 1 + (46 :: nm).length + 1 + (srcOfC ff b).length + 1 + (47 :: kwT).length + 1) 1 w4 false tg4 le4 its4
    (by omega)
    (fun i hi => by
      have : i = 0 := by omega
      subst this
      rw [Nat.add_zero, hb3, C15c.byteAt_beyond (by omega)]; unfold C15c.TextByte; decide)
  have hl1' := hl1
  unfold tplStart at hl1'
  rw [C15c.run_end (show step .text _ = _ from hl1'), hl2, C15c.textItems_nat, hits4, hits3, hits2, hits1, C15c.textItems_nat,
    C15c.textItems_nat]
  have ex1 : (inp.extract (0 + 1 + kwN.length + 1 + ns.length + 1) (0 + 1 + kwN.length + 1 + ns.length + 1 + 1)).toList = [10] :=
    inpAt_extract (v := [10]) hI1
  have ex2 : (inp.extract (tplStart ns + 1 + kwT.length + 1 + (46 :: nm).length + 1 + (srcOfC ff b).length + 1 + (47 :: kwT).length + 1)
      (tplStart ns + 1 + kwT.length + 1 + (46 :: nm).length + 1 + (srcOfC ff b).length + 1 + (47 :: kwT).length + 1 + 1)).toList = [10] :=
    inpAt_extract (v := [10]) (s := []) hIE
  rw [ex1, ex2]
  simp [nsFileItems, hdrop]

end

section
open SoyVerif.Model.FileParser (FState FP Node NodeList textOrTag itemListLoop skipComments beginTag parseFile parseSource)
variable (ff : UInt64 → Bytes) (pf : Bytes → Option UInt64)

/-- `textOrTag` handed a `{` whose command token is no until token: it is `beginTag`'s business -/
theorem textOrTag_begin (ef f : Nat) (untl : List ItemType) (hu1 : untl.contains .tLeftDelim = false) (ld : Item)
    (hld : ld.typ = .tLeftDelim) (t2 : Tk) (ht2 : untl.contains t2.typ = false) (s : List Tk) (st : FState)
    (hst : At st.p (t2 :: s)) :
    ∃ p3, At p3 (t2 :: s) ∧ ∀ (n : Option Node) (st' : FState), beginTag pf ef (f + 1) { st with p := p3 } = .ok (n, st') →
      textOrTag pf ef (f + 2) ld untl st = .ok ((n, false), st') := by
  obtain ⟨x2, p2, hn2, hty, hv, hj2⟩ := fnext_at hst
  obtain ⟨p3, hb3, ha3⟩ := fbackup_just (st := { st with p := p2 }) hj2
  rw [tk_eq hty hv] at ha3
  refine ⟨p3, ha3.at, fun n st' hbt => ?_⟩
  unfold textOrTag
  simp only
  rw [fbind_ok (skipComments_id f ld st (by rw [hld]; decide))]
  simp only [hld, hu1, Bool.false_eq_true, if_false]
  rw [fbind_ok hn2]
  simp only [hty, ht2, Bool.and_false, Bool.false_eq_true, if_false]
  rw [fbind_ok hb3]
  simp only [show (ItemType.tLeftDelim == ItemType.tText) = false by decide, Bool.false_eq_true, if_false,
    beq_self_eq_true, if_true]
  rw [fbind_ok hbt]
  rfl

/-- `beginTag` on `namespace` name `}` (no namespace yet): the namespace node; the state remembers the name -/
theorem namespace_tag (ef y : Nat) (nv name : Bytes) (rest : List Tk) (st : FState) (hns : st.ns = [])
    (hst : At st.p (⟨.tNamespace, nv⟩ :: ⟨.tIdent, name⟩ :: tRD :: rest)) :
    ∃ pos p', beginTag pf ef (y + 3) st = .ok (some (Node.nspace pos name .unspecified), { st with p := p', ns := name }) ∧
      At p' rest := by
  obtain ⟨sp, sns, sal, sim⟩ := st
  simp only at hns hst
  subst hns
  obtain ⟨tt, p1, hn1, htt, _, hj1⟩ := fnext_at (st := { p := sp, ns := [], aliases := sal, inmsg := sim }) hst
  have htt' : tt.typ = .tNamespace := htt
  obtain ⟨idt, p2, hx2, _, hdv, hj2⟩ := fexpect_at (st := ({ p := p1, ns := [], aliases := sal, inmsg := sim } : FState)) hj1.at
  have hdv' : idt.val = name := hdv
  obtain ⟨r1, p3, hn3, hr1, hr1v, hj3⟩ := fnext_at (st := ({ p := p2, ns := [], aliases := sal, inmsg := sim } : FState)) hj2.at
  have hr1' : r1.typ = .tRightDelim := hr1
  obtain ⟨p4, hb4, ha4⟩ := fbackup_just (st := ({ p := p3, ns := [], aliases := sal, inmsg := sim } : FState)) hj3
  rw [tk_eq hr1 hr1v] at ha4
  obtain ⟨r2, p5, hn5, hr2, hr2v, hj5⟩ := fnext_at (st := ({ p := p4, ns := [], aliases := sal, inmsg := sim } : FState)) ha4.at
  have hr2' : r2.typ = .tRightDelim := hr2
  obtain ⟨p6, hb6, ha6⟩ := fbackup_just (st := ({ p := p5, ns := [], aliases := sal, inmsg := sim } : FState)) hj5
  rw [tk_eq hr2 hr2v] at ha6
  obtain ⟨_, p7, hx7, _, _, hj7⟩ := fexpect_at (st := ({ p := p6, ns := [], aliases := sal, inmsg := sim } : FState)) ha6.at
  refine ⟨tt.pos, p7, ?_, hj7.at⟩
  have hpa : FileParser.parseAttrs [FileParser.kAutoescape] (y + 1) [] ({ p := p4, ns := [], aliases := sal, inmsg := sim } : FState) = .ok ([], ({ p := p6, ns := [], aliases := sal, inmsg := sim } : FState)) := by
    unfold FileParser.parseAttrs
    rw [fbind_ok hn5]
    simp only [hr2', show (ItemType.tRightDelim == ItemType.tIdent) = false by decide, Bool.false_eq_true, if_false,
      beq_self_eq_true, Bool.true_or, if_true]
    rw [fbind_ok hb6]
    rfl
  have hx2' : FileParser.expect .tIdent ({ p := p1, ns := [], aliases := sal, inmsg := sim } : FState) = .ok (idt, ({ p := p2, ns := [], aliases := sal, inmsg := sim } : FState)) := hx2
  have hx7' : FileParser.expect .tRightDelim ({ p := p6, ns := [], aliases := sal, inmsg := sim } : FState) = .ok (_, ({ p := p7, ns := [], aliases := sal, inmsg := sim } : FState)) := hx7
  have hloop : FileParser.namespaceLoop tt.pos (y + 1 + 1) idt.val ({ p := p2, ns := [], aliases := sal, inmsg := sim } : FState) =
      .ok (Node.nspace tt.pos name .unspecified, { p := p7, ns := name, aliases := sal, inmsg := sim }) := by
    unfold FileParser.namespaceLoop
    rw [fbind_ok hn3]
    simp only [hr1', show (ItemType.tRightDelim == ItemType.tDotIdent) = false by decide, Bool.false_eq_true, if_false]
    rw [fbind_ok hb4, fbind_ok hpa]
    simp only [FileParser.parseAutoescape, FileParser.lookup, List.find?_nil, Option.map_none, Option.getD_none,
      beq_self_eq_true, if_true]
    rw [fbind_ok (show (pure _ : FP Autoescape) ({ p := p6, ns := [], aliases := sal, inmsg := sim } : FState) = .ok (_, ({ p := p6, ns := [], aliases := sal, inmsg := sim } : FState)) from rfl)]
    rw [fbind_ok hx7', hdv']
    rfl
  have hpn : FileParser.parseNamespace (y + 2) tt ({ p := p1, ns := [], aliases := sal, inmsg := sim } : FState) =
      .ok (Node.nspace tt.pos name .unspecified, { p := p7, ns := name, aliases := sal, inmsg := sim }) := by
    unfold FileParser.parseNamespace
    rw [fbind_ok (show (get : FP FState) ({ p := p1, ns := [], aliases := sal, inmsg := sim } : FState) = .ok (({ p := p1, ns := [], aliases := sal, inmsg := sim } : FState), ({ p := p1, ns := [], aliases := sal, inmsg := sim } : FState)) from rfl)]
    simp only [bne_self_eq_false, Bool.false_eq_true, if_false]
    rw [fbind_ok hx2']
    exact hloop
  unfold beginTag
  rw [fbind_ok hn1]
  simp only [htt']
  rw [fbind_ok hpn]
  rfl

end

section
open SoyVerif.Model.FileParser (FState FP Node NodeList textOrTag itemListLoop skipComments beginTag parseFile parseSource)
variable (ff : UInt64 → Bytes) (pf : Bytes → Option UInt64) (LT : LexTableOK) (T : TableOK)
include LT T

/-- **`namespace_frame_spec`** — a complete minimal Soy file (without soydoc): `parse.SoyFile` on
    `{namespace ns}⏎{template .nm}` ++ `srcOfC ff b` ++ `{/template}⏎`:

    * the lexer sends exactly `nsFileItems ff ns nm b` — LeftDelim Namespace Ident RightDelim, LeftDelim Template DotIdent
      RightDelim, the items of the body, LeftDelim TemplateEnd RightDelim, EOF (the two line breaks are dropped) — every
      item at its exact END offset;
    * the parser returns the namespace node and the template node named `ns.nm`, whose body list is the RawText / Print
      nodes of the body in order, print nodes modulo positions (`NodesMatch`). -/
theorem namespace_frame_spec (ns nm : Bytes) (hns : IdentOk ns) (hnm : NameOk nm) (b : CBody) (hw : WFL ff b)
    (hc : CanonB ff pf b) :
    lexAll (nsSrc ff ns nm b) false = .items (nsFileItems ff ns nm b) ∧
      ∃ npos tpos lp nl, parseSource pf (nsSrc ff ns nm b) =
          .ok [Node.nspace npos ns .unspecified, Node.template tpos (ns ++ 46 :: nm) (.list lp nl) .unspecified false] ∧
        NodesMatch nl.toList b := by
  have hl := lex_nsfile ff LT ns nm hns hnm b hw
  refine ⟨hl, ?_⟩
  have htk : (nsFileItems ff ns nm b).map Item.tk = ⟨.tLeftDelim, [123]⟩ :: ⟨.tNamespace, kwN⟩ :: ⟨.tIdent, ns⟩ :: tRD ::
      ⟨.tLeftDelim, [123]⟩ :: ⟨.tTemplate, kwT⟩ :: ⟨.tDotIdent, 46 :: nm⟩ :: tRD ::
      (tksB ff b ++ ⟨.tLeftDelim, [123]⟩ :: ⟨.tTemplateEnd, 47 :: kwT⟩ :: tRD :: [⟨.tEOF, []⟩]) := by
    simp [nsFileItems, nsItems, openItems, closeItems, itemsB_tk, Item.tk, tRD]
  have hlen : (tksB ff b).length + 12 = (nsFileItems ff ns nm b).length := by
    have := congrArg List.length htk
    simp at this; omega
  have hfu := fuelB_of_lenB ff b (nsFileItems ff ns nm b).length (by omega)
  have hst0 := at_init (nsFileItems ff ns nm b)
  rw [htk] at hst0
  generalize hY : 8 * (nsFileItems ff ns nm b).length + 59 = Y at *
  have hEF : 8 * (nsFileItems ff ns nm b).length + 64 = Y + 2 + 2 + 1 := by omega
  -- round 1: the namespace tag
  obtain ⟨ld1, p1, hn1, hlt1, _, hj1⟩ := fnext_at (st := { p := initState (nsFileItems ff ns nm b) }) hst0
  obtain ⟨p3, ha3, H1⟩ := textOrTag_begin pf (8 * (nsFileItems ff ns nm b).length + 64) (Y + 2) [.tEOF] (by decide) ld1 hlt1
    ⟨.tNamespace, kwN⟩ (by decide) _ { p := p1 } hj1.at
  obtain ⟨npos, p4, hbt1, ha4⟩ := namespace_tag pf (8 * (nsFileItems ff ns nm b).length + 64) Y kwN ns _ { p := p3 } rfl ha3
  have hto1 := H1 _ _ hbt1
  -- round 2: the template
  obtain ⟨ld2, p5, hn2, hlt2, _, hj5⟩ := fnext_at (st := { p := p4, ns := ns }) ha4
  obtain ⟨p6, ha6, H2⟩ := textOrTag_begin pf (8 * (nsFileItems ff ns nm b).length + 64) (Y + 1) [.tEOF] (by decide) ld2 hlt2
    ⟨.tTemplate, kwT⟩ (by decide) _ { p := p5, ns := ns } hj5.at
  obtain ⟨tpos, lp, nl, p7, hbt2, hm, ha7⟩ := template_body ff pf T (8 * (nsFileItems ff ns nm b).length + 64)
    (2 * (nsFileItems ff ns nm b).length + 2) Y b hw hc hfu (by omega) kwT (47 :: kwT) (46 :: nm)
    [⟨.tEOF, []⟩] { p := p6, ns := ns } ha6
  have hto2 := H2 _ _ hbt2
  -- round 3: EOF
  have hrun2 : ∀ (lposA : Option Nat) (nodesA : NodeList), ∃ lp2 st',
      itemListLoop pf (8 * (nsFileItems ff ns nm b).length + 64) ((Y + 1 + 2) + 1) [.tEOF] lposA nodesA { p := p4, ns := ns } =
        .ok (.list lp2 (nodesA.append (.cons (Node.template tpos (ns ++ 46 :: nm) (.list lp nl) .unspecified false) .nil)), st') := by
    intro lposA nodesA
    obtain ⟨lp2, st5, hr5⟩ := loop_eof pf (8 * (nsFileItems ff ns nm b).length + 64) Y (some (lposA.getD ld2.pos))
      (nodesA.append (.cons (Node.template tpos (ns ++ 46 :: nm) (.list lp nl) .unspecified false) .nil)) [] { p := p7, ns := ns } ha7
    refine ⟨lp2, st5, ?_⟩
    unfold itemListLoop
    rw [fbind_ok hn2]
    simp only
    rw [fbind_ok hto2]
    simp only [Bool.false_eq_true, if_false]
    exact hr5
  obtain ⟨lp2, st', hr2⟩ := hrun2 (some ((none : Option Nat).getD ld1.pos))
    (NodeList.nil.append (.cons (Node.nspace npos ns .unspecified) .nil))
  have hrun1 : itemListLoop pf (8 * (nsFileItems ff ns nm b).length + 64) ((Y + 2 + 2) + 1) [.tEOF] none .nil
      { p := initState (nsFileItems ff ns nm b) } =
      .ok (.list lp2 ((NodeList.nil.append (.cons (Node.nspace npos ns .unspecified) .nil)).append
        (.cons (Node.template tpos (ns ++ 46 :: nm) (.list lp nl) .unspecified false) .nil)), st') := by
    unfold itemListLoop
    rw [fbind_ok hn1]
    simp only
    rw [fbind_ok hto1]
    simp only [Bool.false_eq_true, if_false]
    exact hr2
  refine ⟨npos, tpos, lp, nl, ?_, hm⟩
  unfold parseSource
  rw [hl]
  simp only
  unfold parseFile
  simp only [StateT.run, FileParser.fuelFor, FileParser.exprFuel, Parser.fuelFor]
  rw [hEF] at hrun1 ⊢
  rw [hrun1]
  rfl

end

end SoyVerif.Props.C17d
