/-
  C15 (glue): WHICH text and WHICH flags the parser hands to `rawtext`.

  Props/C15 proves `rawtext s tb ta = some (joinLines s tb ta)` for every byte string and both
  flags.  This file ties the arguments, over the file-parser model (Model/FileParser.lean,
  itself tied to parse.go by C05parse) and the lexer model (Model/Lexer.lean, C05lex):

  * `textOrTag_text_spec` — when `textOrTag` is handed a token sequence
    `comments ++ t :: texts ++ nxt :: s` (`comments` Comment tokens, `t` and `texts` Text tokens,
    `nxt` not a Text token), it consumes exactly `comments ++ t :: texts`, leaves `nxt :: s`,
    and the node it builds is
        RawTextNode{ pos := t.pos,
                     value := joinLines (t.val ++ texts' values) (comments ≠ []) (nxt is a Comment) }
    — or no node at all if that value is empty.  Nothing else reaches `rawtext`: the flag
    `trimBefore` is "the token textOrTag was called with is a Comment" (so only a Comment
    IMMEDIATELY before the run counts), `trimAfter` is "the token that ends the run is a Comment".
  * lexer side (`lexText`): see the second part.
-/
import SoyVerif.Props.C05parse
import SoyVerif.Props.C15

namespace SoyVerif.Props.C15b
open SoyVerif SoyVerif.Model SoyVerif.Model.Parser SoyVerif.Model.FileParser SoyVerif.Lemmas.ParserSafe
open SoyVerif.Spec

/-! ### the token-level primitives on the stream view of the state -/

/-- `t.next()` delivers the head of the stream -/
theorem next_stream {st : PState} {x : Item} {s : List Item} (hpc : st.peekCount ≤ 2) (h : stream st = x :: s) :
    ∃ st', Parser.next st = .ok (x, st') ∧ stream st' = s ∧ top st' = x ∧ st'.peekCount = st.peekCount - 1 := by
  by_cases hp0 : st.peekCount = 0
  · have hr : st.rest = x :: s := by simpa [stream, pending, hp0] using h
    exact ⟨_, next_run0 hp0 hr, by simp [stream, pending, hp0], by simp [top, hp0], by simp [hp0]⟩
  · by_cases hp1 : st.peekCount = 1
    · have hx : st.tok0 = x ∧ st.rest = s := by simpa [stream, pending, hp1] using h
      refine ⟨{ st with peekCount := 0 }, ?_, by simp [stream, pending, hx.2], by simp [top, hx.1], by simp [hp1]⟩
      simp [Parser.next, bind, StateT.bind, get, getThe, MonadStateOf.get, StateT.get, set, StateT.set, MonadStateOf.set,
        modify, modifyGet, MonadStateOf.modifyGet, StateT.modifyGet, pure, StateT.pure, Except.pure, Except.bind, nextItem,
        tokenAt, hp1, hx.1]
    · have hp2 : st.peekCount = 2 := by omega
      have hx : st.tok1 = x ∧ st.tok0 :: st.rest = s := by simpa [stream, pending, hp2] using h
      refine ⟨{ st with peekCount := 1 }, ?_, by simp [stream, pending, hx.2], by simp [top, hx.1], by simp [hp2]⟩
      simp [Parser.next, bind, StateT.bind, get, getThe, MonadStateOf.get, StateT.get, set, StateT.set, MonadStateOf.set,
        modify, modifyGet, MonadStateOf.modifyGet, StateT.modifyGet, pure, StateT.pure, Except.pure, Except.bind, nextItem,
        tokenAt, hp2, hx.1]

/-- `t.backup()` pushes the token `next` returned last back onto the stream -/
theorem backup_stream {st : PState} (hpc : st.peekCount ≤ 1) :
    ∃ st', Parser.backup st = .ok ((), st') ∧ stream st' = top st :: stream st ∧ st'.peekCount = st.peekCount + 1 := by
  refine ⟨{ st with peekCount := st.peekCount + 1 }, rfl, ?_, rfl⟩
  by_cases hp0 : st.peekCount = 0
  · simp [stream, pending, hp0, top]
  · have hp1 : st.peekCount = 1 := by omega
    simp [stream, pending, hp1, top]

/-- the part of the file-parser state the token-level actions leave alone -/
def Fr (st st' : FState) : Prop := st'.ns = st.ns ∧ st'.aliases = st.aliases ∧ st'.inmsg = st.inmsg

theorem Fr.refl (st : FState) : Fr st st := ⟨rfl, rfl, rfl⟩

theorem Fr.trans {a b c : FState} (h1 : Fr a b) (h2 : Fr b c) : Fr a c :=
  ⟨h2.1.trans h1.1, h2.2.1.trans h1.2.1, h2.2.2.trans h1.2.2⟩

theorem fnext_stream' {st : FState} {x : Item} {s : List Item} (hpc : st.p.peekCount ≤ 2) (h : stream st.p = x :: s) :
    ∃ st', FileParser.next st = .ok (x, st') ∧ stream st'.p = s ∧ top st'.p = x ∧
      st'.p.peekCount = st.p.peekCount - 1 ∧ Fr st st' := by
  obtain ⟨p', hn, a, b, c⟩ := next_stream hpc h
  exact ⟨{ st with p := p' }, by simp [FileParser.next, liftP, hn], a, b, c, rfl, rfl, rfl⟩

theorem fnext_stream {st : FState} {x : Item} {s : List Item} (hpc : st.p.peekCount ≤ 2) (h : stream st.p = x :: s) :
    ∃ st', FileParser.next st = .ok (x, st') ∧ stream st'.p = s ∧ top st'.p = x ∧
      st'.p.peekCount = st.p.peekCount - 1 := by
  obtain ⟨st', a, b, c, d, _⟩ := fnext_stream' hpc h
  exact ⟨st', a, b, c, d⟩

theorem fbackup_stream' {st : FState} (hpc : st.p.peekCount ≤ 1) :
    ∃ st', FileParser.backup st = .ok ((), st') ∧ stream st'.p = top st.p :: stream st.p ∧
      st'.p.peekCount = st.p.peekCount + 1 ∧ Fr st st' := by
  obtain ⟨p', hn, a, b⟩ := backup_stream hpc
  exact ⟨{ st with p := p' }, by simp [FileParser.backup, liftP, hn], a, b, rfl, rfl, rfl⟩

theorem fbackup_stream {st : FState} (hpc : st.p.peekCount ≤ 1) :
    ∃ st', FileParser.backup st = .ok ((), st') ∧ stream st'.p = top st.p :: stream st.p ∧
      st'.p.peekCount = st.p.peekCount + 1 := by
  obtain ⟨st', a, b, c, _⟩ := fbackup_stream' hpc
  exact ⟨st', a, b, c⟩

/-! ### the two loops -/

/-- `for token.typ == itemComment { token = t.next() }` runs over the Comment tokens -/
theorem skipComments_spec' : ∀ (comments : List Item) (fuel : Nat) (token t : Item) (s : List Item) (st : FState),
    comments.length + 1 ≤ fuel → st.p.peekCount ≤ 1 → top st.p = token →
    token :: stream st.p = comments ++ t :: s → (∀ c ∈ comments, c.typ = .tComment) → t.typ ≠ .tComment →
    ∃ st', skipComments fuel token st = .ok (t, st') ∧ stream st'.p = s ∧ top st'.p = t ∧ st'.p.peekCount ≤ 1 ∧ Fr st st' := by
  intro comments
  induction comments with
  | nil =>
    intro fuel token t s st hf hpc htop hs _ ht
    simp only [List.nil_append, List.cons.injEq] at hs
    obtain ⟨rfl, hs⟩ := hs
    obtain ⟨f, rfl⟩ : ∃ f, fuel = f + 1 := ⟨fuel - 1, by simp at hf; omega⟩
    refine ⟨st, ?_, hs, htop, hpc, Fr.refl st⟩
    unfold skipComments
    have : (token.typ == ItemType.tComment) = false := by simpa using ht
    simp [this, pure, StateT.pure, Except.pure]
  | cons c cs ih =>
    intro fuel token t s st hf hpc htop hs hc ht
    simp only [List.cons_append, List.cons.injEq] at hs
    obtain ⟨rfl, hs⟩ := hs
    obtain ⟨f, rfl⟩ : ∃ f, fuel = f + 1 := ⟨fuel - 1, by simp at hf; omega⟩
    have hty : (token.typ == ItemType.tComment) = true := by simpa using hc token (by simp)
    -- the stream is not empty: it holds at least `t`
    obtain ⟨x, s1, hx⟩ : ∃ x s1, stream st.p = x :: s1 := by
      cases hst : stream st.p with
      | nil => rw [hst] at hs; cases cs <;> simp at hs
      | cons x s1 => exact ⟨x, s1, rfl⟩
    obtain ⟨st1, hn, hs1, ht1, hp1, hfr1⟩ := fnext_stream' (by omega) hx
    obtain ⟨st', hr, a, b, c, hfr2⟩ := ih f x t s st1 (by simp at hf ⊢; omega) (by omega) ht1
      (by rw [hs1, ← hx]; exact hs) (fun c' hc' => hc c' (by simp [hc'])) ht
    refine ⟨st', ?_, a, b, c, hfr1.trans hfr2⟩
    unfold skipComments
    simp only [hty, if_true]
    show (FileParser.next >>= fun t => skipComments f t) st = _
    rw [fbind_run, hn]
    exact hr

theorem skipComments_spec (comments : List Item) (fuel : Nat) (token t : Item) (s : List Item) (st : FState)
    (hf : comments.length + 1 ≤ fuel) (hpc : st.p.peekCount ≤ 1) (htop : top st.p = token)
    (hs : token :: stream st.p = comments ++ t :: s) (hc : ∀ c ∈ comments, c.typ = .tComment) (ht : t.typ ≠ .tComment) :
    ∃ st', skipComments fuel token st = .ok (t, st') ∧ stream st'.p = s ∧ top st'.p = t ∧ st'.p.peekCount ≤ 1 := by
  obtain ⟨st', a, b, c, d, _⟩ := skipComments_spec' comments fuel token t s st hf hpc htop hs hc ht
  exact ⟨st', a, b, c, d⟩

/-- the text-merging loop appends the values of the Text tokens that follow -/
theorem collectText_spec' : ∀ (texts : List Item) (fuel : Nat) (acc : Bytes) (nxt : Item) (s : List Item) (st : FState),
    texts.length + 1 ≤ fuel → st.p.peekCount ≤ 1 → stream st.p = texts ++ nxt :: s →
    (∀ x ∈ texts, x.typ = .tText) → nxt.typ ≠ .tText →
    ∃ st', collectText fuel acc st = .ok ((acc ++ texts.flatMap (·.val), nxt), st') ∧ stream st'.p = s ∧
      top st'.p = nxt ∧ st'.p.peekCount ≤ 1 ∧ Fr st st' := by
  intro texts
  induction texts with
  | nil =>
    intro fuel acc nxt s st hf hpc hs _ hn
    obtain ⟨f, rfl⟩ : ∃ f, fuel = f + 1 := ⟨fuel - 1, by simp at hf; omega⟩
    obtain ⟨st1, hnx, hs1, ht1, hp1, hfr1⟩ := fnext_stream' (st := st) (by omega) (by simpa using hs)
    refine ⟨st1, ?_, hs1, ht1, by omega, hfr1⟩
    unfold collectText
    rw [fbind_run, hnx]
    have : (nxt.typ != ItemType.tText) = true := by simpa using hn
    simp [this, pure, StateT.pure, Except.pure]
  | cons x xs ih =>
    intro fuel acc nxt s st hf hpc hs hx hn
    obtain ⟨f, rfl⟩ : ∃ f, fuel = f + 1 := ⟨fuel - 1, by simp at hf; omega⟩
    obtain ⟨st1, hnx, hs1, ht1, hp1, hfr1⟩ := fnext_stream' (st := st) (by omega) (by simpa using hs)
    obtain ⟨st', hr, a, b, c, hfr2⟩ := ih f (acc ++ x.val) nxt s st1 (by simp at hf ⊢; omega) (by omega) hs1
      (fun y hy => hx y (by simp [hy])) hn
    refine ⟨st', ?_, a, b, c, hfr1.trans hfr2⟩
    unfold collectText
    rw [fbind_run, hnx]
    have : (x.typ != ItemType.tText) = false := by simpa using hx x (by simp)
    simp only [this, Bool.false_eq_true, if_false]
    rw [hr]
    simp [List.flatMap_cons, List.append_assoc]

theorem collectText_spec (texts : List Item) (fuel : Nat) (acc : Bytes) (nxt : Item) (s : List Item) (st : FState)
    (hf : texts.length + 1 ≤ fuel) (hpc : st.p.peekCount ≤ 1) (hs : stream st.p = texts ++ nxt :: s)
    (hx : ∀ x ∈ texts, x.typ = .tText) (hn : nxt.typ ≠ .tText) :
    ∃ st', collectText fuel acc st = .ok ((acc ++ texts.flatMap (·.val), nxt), st') ∧ stream st'.p = s ∧
      top st'.p = nxt ∧ st'.p.peekCount ≤ 1 := by
  obtain ⟨st', a, b, c, d, _⟩ := collectText_spec' texts fuel acc nxt s st hf hpc hs hx hn
  exact ⟨st', a, b, c, d⟩

/-! ### the text case of textOrTag -/

/-- the RawTextNode of a text run (none if the normalised text is empty) -/
def textNode (comments : List Item) (t : Item) (texts : List Item) (nxt : Item) : Option Node :=
  let v := joinLines (t.val ++ texts.flatMap (·.val)) (!comments.isEmpty) (nxt.typ == .tComment)
  if v.isEmpty then none else some (.rawText t.pos v)

/-- The text-run case of `textOrTag`.  `token` is the token the caller (`itemList`) has just
    read; together with the tokens ahead it forms `comments ++ t :: texts ++ nxt :: s`: Comment
    tokens, then the Text token `t` and the Text tokens `texts` that follow it directly, then a
    token `nxt` of another type.  `textOrTag` consumes `comments`, `t` and `texts`, leaves
    `nxt :: s` unread, does not end the list, and returns `textNode`:
    the value is `joinLines (concatenated text) (a Comment came immediately before) (a Comment
    comes immediately after)`, positioned at the first Text token; no node if it is empty. -/
theorem textOrTag_text_spec' (pf : Bytes → Option UInt64) (ef fuel : Nat) (untl : List ItemType)
    (token : Item) (st : FState) (comments : List Item) (t : Item) (texts : List Item) (nxt : Item) (s : List Item)
    (hpc : st.p.peekCount ≤ 1) (htop : top st.p = token)
    (hs : token :: stream st.p = comments ++ t :: (texts ++ nxt :: s))
    (hc : ∀ c ∈ comments, c.typ = .tComment) (ht : t.typ = .tText) (hts : ∀ x ∈ texts, x.typ = .tText)
    (hn : nxt.typ ≠ .tText) (hu : untl.contains .tText = false)
    (hf : comments.length + texts.length + 2 ≤ fuel) :
    ∃ st', textOrTag pf ef (fuel + 1) token untl st = .ok ((textNode comments t texts nxt, false), st') ∧
      stream st'.p = nxt :: s ∧ st'.p.peekCount ≤ 2 ∧ Fr st st' := by
  -- seenComment: the token handed over is a Comment iff `comments` is not empty
  have hseen : (token.typ == ItemType.tComment) = !comments.isEmpty := by
    cases comments with
    | nil =>
      simp only [List.nil_append, List.cons.injEq] at hs
      rw [hs.1, ht]; rfl
    | cons c cs =>
      simp only [List.cons_append, List.cons.injEq] at hs
      rw [hs.1, hc c (by simp)]; rfl
  -- skip the comments
  obtain ⟨st1, hsk, hs1, ht1, hp1, hfr1⟩ := skipComments_spec' comments fuel token t (texts ++ nxt :: s) st (by omega) hpc htop hs hc
    (by rw [ht]; decide)
  -- the look-ahead token2 and its backup
  obtain ⟨x2, s2, hx2⟩ : ∃ x2 s2, stream st1.p = x2 :: s2 := by
    rw [hs1]; cases texts with
    | nil => exact ⟨_, _, rfl⟩
    | cons y ys => exact ⟨_, _, rfl⟩
  obtain ⟨st2, hn2, hs2, ht2, hp2, hfr2⟩ := fnext_stream' (by omega) hx2
  obtain ⟨st3, hb3, hs3, hp3, hfr3⟩ := fbackup_stream' (st := st2) (by omega)
  rw [ht2, hs2, ← hx2, hs1] at hs3
  -- the Text tokens that follow
  obtain ⟨st4, hct, hs4, ht4, hp4, hfr4⟩ := collectText_spec' texts fuel t.val nxt s st3 (by omega) (by omega) hs3 hts hn
  obtain ⟨st5, hb5, hs5, hp5, hfr5⟩ := fbackup_stream' (st := st4) hp4
  rw [ht4, hs4] at hs5
  refine ⟨st5, ?_, hs5, by omega, (((hfr1.trans hfr2).trans hfr3).trans hfr4).trans hfr5⟩
  have hnu : untl.contains t.typ = false := by rw [ht]; exact hu
  have htx : (t.typ == ItemType.tText) = true := by rw [ht]; rfl
  have hld : (t.typ == ItemType.tLeftDelim) = false := by rw [ht]; rfl
  unfold textOrTag
  simp only
  rw [fbind_run, hsk]
  simp only [hnu, Bool.false_eq_true, if_false]
  rw [fbind_run, hn2]
  simp only [hld, Bool.false_and, Bool.false_eq_true, if_false]
  rw [fbind_run, hb3]
  simp only [htx, if_true]
  rw [fbind_run, hct]
  simp only
  rw [fbind_run, hb5]
  simp only
  rw [fbind_run]
  unfold rawtextP
  rw [C15.rawtext_spec]
  simp only [pure, StateT.pure, Except.pure, hseen, textNode]
  split <;> rfl

theorem textOrTag_text_spec (pf : Bytes → Option UInt64) (ef fuel : Nat) (untl : List ItemType)
    (token : Item) (st : FState) (comments : List Item) (t : Item) (texts : List Item) (nxt : Item) (s : List Item)
    (hpc : st.p.peekCount ≤ 1) (htop : top st.p = token)
    (hs : token :: stream st.p = comments ++ t :: (texts ++ nxt :: s))
    (hc : ∀ c ∈ comments, c.typ = .tComment) (ht : t.typ = .tText) (hts : ∀ x ∈ texts, x.typ = .tText)
    (hn : nxt.typ ≠ .tText) (hu : untl.contains .tText = false)
    (hf : comments.length + texts.length + 2 ≤ fuel) :
    ∃ st', textOrTag pf ef (fuel + 1) token untl st = .ok ((textNode comments t texts nxt, false), st') ∧
      stream st'.p = nxt :: s ∧ st'.p.peekCount ≤ 2 := by
  obtain ⟨st', a, b, c, _⟩ := textOrTag_text_spec' pf ef fuel untl token st comments t texts nxt s hpc htop hs hc ht hts hn hu hf
  exact ⟨st', a, b, c⟩

/-! ## the lexer side: where `lexText` cuts a text run

  `lexTextLoop l lastChar` reads one rune after the other (`lastChar` = the rune read before, `noChar` at
  the start of the run).  The theorems below make its decision rule explicit:

  * `lexTextLoop_some` — one iteration, as a plain case distinction on the rune read;
  * `lexTextLoop_plain` / `lexTextLoop_slash` — a rune that is NOT a cut is consumed, nothing is
    sent, and the loop goes on with that rune as `lastChar`.  Not a cut: anything but `{`, `}`,
    the end of input and `/`; a `/` unless it is followed by `*`, or by a second `/` while the
    text before it is empty-or-whitespace (`LineStart`).  In particular a `//` that follows a
    non-space character stays in the text — and so does a `//` right after a block comment
    (`a /* c *///b`: there `lastChar = noChar` and the last byte sent is `/`), the case the seeded
    change C15-5 broke;
  * `PlainRun` / `lexTextLoop_run` — hence the loop skips a whole run of such runes at once: the
    text run is cut at the FIRST rune at which one of the cut conditions holds;
  * `lexText_cut_open`, `lexText_cut_eof`, `lexText_cut_close` — at `{` / the end of input the
    pending text `input[start, q)` is sent as ONE Text item positioned at `q` (unless it is empty,
    or all whitespace with a line break: `textItems`), then `lexLeftDelim` takes over / the EOF
    item follows; at `}` the pending text is dropped and an Error item ends the scan;
  * `lexText_cut_block`, `lexText_cut_line` — at `/*` the text before it is sent the same way
    and the comment scanner starts; at a line comment the text WITHOUT the one whitespace
    character before `//` is sent.
  * `lexText_plain_then_open` — the readable special case: ASCII text without `/`, `{`, `}`
    followed by `{` is sent as ONE Text item positioned at that `{`.
  (Partial with respect to `lexAll`: these are statements about the state function `lexText`;
  that the items it sends remain the first items of `lexAll`'s list needs "`run` only appends
  to `items`", which the lexer lemmas do not carry.  The examples at the end are full `lexAll`
  evaluations.) -/

section lexer
open Lex

theorem next_width (l : Lexer) (w : Int) : ({ l with width := w } : Lexer).next = l.next := by
  unfold Lexer.next
  simp only [Lexer.len]

/-- what `lexText` does after `/*` (the text before it has been sent): `/**/` is an empty block
    comment (/repo 73e5662), `/**` otherwise starts a soydoc comment, anything else a block
    comment -/
def afterSlashStar (l3 : Lexer) : Res :=
  match l3.next with
  | none => none
  | some (r3, l4) =>
    if r3 = 42 then
      match l4.peek with
      | none => none
      | some (p4, l5) =>
        if p4 = 47 then
          match l5.next with
          | none => none
          | some (_, l6) =>
            match l6.emit .tComment with
            | none => none
            | some l7 => some (some .text, l7)
        else lexSoyDoc l5
    else lexBlockComment l4.backup false

/-- one iteration of the loop of `lexText`, given the rune `next` delivers -/
theorem lexTextLoop_some {l l1 : Lexer} {lc r : Int} (hn : l.next = some (r, l1)) :
    lexTextLoop l lc =
      if r = 47 then
        match l1.next with
        | none => none
        | some (r2, l2) =>
          if r2 = 47 then
            let lce : Int := if lc = noChar ∧ l2.lastEmit.val ≠ [] then ((l2.lastEmit.val.getLast?.getD 0).toNat : Int) else lc
            if lce = noChar ∨ isSpaceEOL lce = true then
              match maybeEmitText l2 3 with
              | none => none
              | some l3 => lexLineComment (if lc ≠ noChar then { l3 with start := l3.start + 1 } else l3)
            else lexTextLoop l2.backup r
          else if r2 = 42 then
            match maybeEmitText l2 2 with
            | none => none
            | some l3 =>
              afterSlashStar l3
          else lexTextLoop l2.backup r
      else if r = 123 then
        match maybeEmitText l1.backup 0 with
        | none => none
        | some l2 => some (some .leftDelim, l2)
      else if r = 125 then errorf l1
      else if r = eof then
        match maybeEmitText l1.backup 0 with
        | none => none
        | some l2 =>
          match l2.emit .tEOF with
          | none => none
          | some l3 => some (none, l3)
      else lexTextLoop l1 r := by
  rw [lexTextLoop]
  split
  · rename_i h; rw [hn] at h; exact absurd h (by simp)
  · rename_i r' l1' h
    rw [hn] at h
    simp only [Option.some.injEq, Prod.mk.injEq] at h
    obtain ⟨rfl, rfl⟩ := h
    split
    · rename_i h47
      subst h47
      simp only
      split
      · rename_i h2; simp only [h2]
      · rename_i r2 l2 h2; simp only [h2]; rfl
    · rfl

theorem lexTextLoop_none {l : Lexer} {lc : Int} (hn : l.next = none) : lexTextLoop l lc = none := by
  rw [lexTextLoop]
  split
  · rfl
  · rename_i h; rw [hn] at h; exact absurd h (by simp)

/-- the loop does not look at `l.width` -/
theorem lexTextLoop_width (l : Lexer) (w : Int) (lc : Int) :
    lexTextLoop { l with width := w } lc = lexTextLoop l lc := by
  cases hn : l.next with
  | none => rw [lexTextLoop_none hn, lexTextLoop_none (by rw [next_width]; exact hn)]
  | some x =>
    obtain ⟨r, l1⟩ := x
    rw [lexTextLoop_some hn, lexTextLoop_some (by rw [next_width]; exact hn)]

/-- `next` then `backup` is where it was (but for `width`) -/
theorem next_backup {l l' : Lexer} {r : Int} (h : l.next = some (r, l')) :
    l'.backup = { l with width := l'.width } := by
  unfold Lexer.next at h
  split at h
  · simp only [Option.some.injEq, Prod.mk.injEq] at h
    obtain ⟨_, rfl⟩ := h
    simp [Lexer.backup]
  · split at h
    · exact absurd h (by simp)
    · simp only [Option.some.injEq, Prod.mk.injEq] at h
      obtain ⟨_, rfl⟩ := h
      simp [Lexer.backup]

theorem next_lastEmit {l l' : Lexer} {r : Int} (h : l.next = some (r, l')) :
    l'.lastEmit = l.lastEmit ∧ l'.items = l.items ∧ l'.start = l.start ∧ l'.input = l.input := by
  unfold Lexer.next at h
  split at h
  · simp only [Option.some.injEq, Prod.mk.injEq] at h
    obtain ⟨_, rfl⟩ := h
    exact ⟨rfl, rfl, rfl, rfl⟩
  · split at h
    · exact absurd h (by simp)
    · simp only [Option.some.injEq, Prod.mk.injEq] at h
      obtain ⟨_, rfl⟩ := h
      exact ⟨rfl, rfl, rfl, rfl⟩

/-- `//` begins a line comment only here: the text before it is empty — nothing read in this
    run (`lastChar = noChar`) and nothing sent before, or what was sent last ends with whitespace —
    or the character before it is whitespace.  (`lastChar = noChar` with a last item: the byte that
    ended that item decides.) -/
def LineStart (lastChar : Int) (lastEmit : Item) : Prop :=
  (if lastChar = noChar ∧ lastEmit.val ≠ [] then ((lastEmit.val.getLast?.getD 0).toNat : Int) else lastChar) = noChar ∨
  isSpaceEOL (if lastChar = noChar ∧ lastEmit.val ≠ [] then ((lastEmit.val.getLast?.getD 0).toNat : Int) else lastChar) = true

/-- a rune other than `/`, `{`, `}` and the end of input is consumed; nothing is sent -/
theorem lexTextLoop_plain {l l1 : Lexer} {lc r : Int} (hn : l.next = some (r, l1))
    (h1 : r ≠ 47) (h2 : r ≠ 123) (h3 : r ≠ 125) (h4 : r ≠ eof) :
    lexTextLoop l lc = lexTextLoop l1 r := by
  rw [lexTextLoop_some hn]
  simp only [h1, h2, h3, h4, if_false]

/-- a `/` that is followed neither by `*` nor by a `/` at a `LineStart` stays in the text -/
theorem lexTextLoop_slash {l l1 l2 : Lexer} {lc r2 : Int} (hn : l.next = some (47, l1))
    (hn2 : l1.next = some (r2, l2)) (h1 : r2 ≠ 42) (h2 : r2 = 47 → ¬ LineStart lc l.lastEmit) :
    lexTextLoop l lc = lexTextLoop l1 47 := by
  rw [lexTextLoop_some hn]
  simp only [if_true, hn2]
  have hle : l2.lastEmit = l.lastEmit := by rw [(next_lastEmit hn2).1, (next_lastEmit hn).1]
  have hb : lexTextLoop l2.backup 47 = lexTextLoop l1 47 := by rw [next_backup hn2, lexTextLoop_width]
  by_cases h47 : r2 = 47
  · have := h2 h47
    unfold LineStart at this
    simp only [h47, if_true, hle, this, if_false, hb]
  · simp only [h47, h1, if_false, hb]

/-- a run of runes none of which is a cut -/
inductive PlainRun : Lexer → Int → Lexer → Int → Prop where
  | refl (l : Lexer) (lc : Int) : PlainRun l lc l lc
  | plain {l l1 l' : Lexer} {lc r lc' : Int} : l.next = some (r, l1) → r ≠ 47 → r ≠ 123 → r ≠ 125 → r ≠ eof →
      PlainRun l1 r l' lc' → PlainRun l lc l' lc'
  | slash {l l1 l2 l' : Lexer} {lc r2 lc' : Int} : l.next = some (47, l1) → l1.next = some (r2, l2) → r2 ≠ 42 →
      (r2 = 47 → ¬ LineStart lc l.lastEmit) → PlainRun l1 47 l' lc' → PlainRun l lc l' lc'

/-- the loop skips a plain run: it behaves as if started behind it; nothing was sent, the
    pending text still begins at `l.start` -/
theorem lexTextLoop_run {l l' : Lexer} {lc lc' : Int} (h : PlainRun l lc l' lc') :
    lexTextLoop l lc = lexTextLoop l' lc' ∧ l'.items = l.items ∧ l'.start = l.start ∧ l'.input = l.input ∧
      l'.lastEmit = l.lastEmit := by
  induction h with
  | refl l lc => exact ⟨rfl, rfl, rfl, rfl, rfl⟩
  | plain hn h1 h2 h3 h4 _ ih =>
    obtain ⟨a, b, c, d⟩ := next_lastEmit hn
    exact ⟨(lexTextLoop_plain hn h1 h2 h3 h4).trans ih.1, ih.2.1.trans b, ih.2.2.1.trans c, ih.2.2.2.1.trans d,
      ih.2.2.2.2.trans a⟩
  | slash hn hn2 h1 h2 _ ih =>
    obtain ⟨a, b, c, d⟩ := next_lastEmit hn
    exact ⟨(lexTextLoop_slash hn hn2 h1 h2).trans ih.1, ih.2.1.trans b, ih.2.2.1.trans c, ih.2.2.2.1.trans d,
      ih.2.2.2.2.trans a⟩

/-- the Text item `maybeEmitText` sends for the pending text `input[start, q)`: none if it is
    empty or consists of whitespace with a line break -/
def textItems (input : Array UInt8) (start q : Int) : List Item :=
  if q > start ∧ allSpaceWithNewline (input.extract start.toNat q.toNat).toList = false then
    [{ typ := .tText, pos := q.toNat, val := (input.extract start.toNat q.toNat).toList }]
  else []

/-- `l.emit(t)` with the usual bounds: the pending token is sent -/
theorem emit_eq {l : Lexer} (t : ItemType) (h0 : 0 ≤ l.start) (h1 : l.start ≤ l.pos) (h2 : l.pos ≤ l.len) :
    l.emit t = some { l with
      lastEmit := ⟨t, l.pos.toNat, (l.input.extract l.start.toNat l.pos.toNat).toList⟩,
      items := l.items.push ⟨t, l.pos.toNat, (l.input.extract l.start.toNat l.pos.toNat).toList⟩,
      start := l.pos } := by
  unfold Lexer.emit
  simp only [if_neg (show ¬ l.pos > l.len by omega)]
  unfold sliceOf
  simp only [Lexer.len] at h2
  rw [if_pos ⟨h0, h1, h2⟩]

/-- `maybeEmitText(l, k)`: the pending text up to `pos - k` is sent (or skipped); `pos` stays -/
theorem maybeEmitText_items {l : Lexer} {k : Int} (h0 : 0 ≤ l.start) (hp : l.pos - k ≤ l.len) :
    ∃ l', maybeEmitText l k = some l' ∧ l'.items.toList = l.items.toList ++ textItems l.input l.start (l.pos - k) ∧
      l'.pos = l.pos ∧ l'.input = l.input ∧ (l.start < l.pos - k → l'.start = l.pos - k) ∧
      (l.pos - k ≤ l.start → l' = l) := by
  unfold maybeEmitText textItems
  by_cases hgt : l.pos - k > l.start
  · simp only [hgt, if_true, true_and]
    have hp' := hp
    unfold sliceOf
    simp only [Lexer.len] at hp
    rw [if_pos ⟨h0, by omega, hp⟩]
    simp only
    by_cases hsp : allSpaceWithNewline (l.input.extract l.start.toNat (l.pos - k).toNat).toList = true
    · simp only [hsp, if_true, Bool.true_eq_false, if_false, List.append_nil]
      refine ⟨_, rfl, rfl, ?_, rfl, fun _ => ?_, fun h => absurd h (by omega)⟩
      · simp only [Lexer.addPos, Lexer.ignore]; omega
      · simp only [Lexer.addPos, Lexer.ignore]; omega
    · have hsp' : allSpaceWithNewline (l.input.extract l.start.toNat (l.pos - k).toNat).toList = false := by
        simpa using hsp
      simp only [hsp', Bool.false_eq_true, if_false, if_true]
      rw [emit_eq (l := l.addPos (-k)) .tText (by simpa using h0) (by simp only [Lexer.addPos]; omega)
        (by simp only [Lexer.addPos, Lexer.len]; omega)]
      refine ⟨_, rfl, ?_, ?_, rfl, fun _ => ?_, fun h => absurd h (by omega)⟩
      · simp only [Lexer.addPos, Array.toList_push, List.append_cancel_left_eq, List.cons.injEq, and_true]
        have : l.pos + -k = l.pos - k := by omega
        rw [this]
      · simp only [Lexer.addPos]; omega
      · simp only [Lexer.addPos]; omega
  · simp only [hgt, if_false, false_and, List.append_nil]
    exact ⟨l, rfl, rfl, rfl, rfl, fun h => h.elim, fun _ => rfl⟩

/-- facts about the position after a plain run, given the usual bounds -/
theorem PlainRun.pos_le {l l' : Lexer} {lc lc' : Int} (h : PlainRun l lc l' lc') (h0 : 0 ≤ l.pos) :
    l.pos ≤ l'.pos ∧ (l.pos ≤ l.len → l'.pos ≤ l'.len) := by
  induction h with
  | refl => exact ⟨Int.le_refl _, id⟩
  | plain hn _ _ _ _ _ ih =>
    have hf := next_facts hn h0
    have hl := hf.1.1
    have hf := hf.2.2
    unfold NextFacts at hf
    have := ih (by omega)
    exact ⟨by omega, fun _ => this.2 (by omega)⟩
  | slash hn _ _ _ _ ih =>
    have hf := next_facts hn h0
    have hl := hf.1.1
    have hf := hf.2.2
    unfold NextFacts at hf
    have := ih (by omega)
    exact ⟨by omega, fun _ => this.2 (by omega)⟩

/-- CUT at `{`: after a plain run from `l` the next rune is `{` at `q`.  The pending text
    `input[start, q)` is sent as one Text item (`textItems`) and `lexLeftDelim` goes on at `q`. -/
theorem lexText_cut_open {l l' l1 : Lexer} {lc lc' : Int} (hrun : PlainRun l lc l' lc')
    (hn : l'.next = some (123, l1)) (h0 : 0 ≤ l.start) (h1 : l.start ≤ l.pos) :
    ∃ lf, lexTextLoop l lc = some (some .leftDelim, lf) ∧
      lf.items.toList = l.items.toList ++ textItems l.input l.start l'.pos ∧ lf.pos = l'.pos ∧ lf.start = l'.pos ∧
      lf.input = l.input := by
  obtain ⟨he, hi, hs, hin, _⟩ := lexTextLoop_run hrun
  have hple := (hrun.pos_le (by omega)).1
  have hf := (next_facts hn (by omega)).2.2
  unfold NextFacts at hf
  rw [he, lexTextLoop_some hn]
  simp only [show (123 : Int) ≠ 47 by decide, if_false, if_true]
  rw [next_backup hn]
  obtain ⟨lf, hm, hit, hp, hinf, hst, heq⟩ := maybeEmitText_items (l := { l' with width := l1.width }) (k := 0)
    (by show 0 ≤ l'.start; omega) (by show l'.pos - 0 ≤ (l'.input.size : Int); simp only [Lexer.len] at hf; omega)
  rw [hm]
  refine ⟨lf, rfl, ?_, hp, ?_, hinf.trans hin⟩
  · rw [hit]; show l'.items.toList ++ textItems l'.input l'.start (l'.pos - 0) = _
    rw [hi, hin, hs, Int.sub_zero]
  · by_cases hlt : l'.start < l'.pos
    · have := hst (by show l'.start < l'.pos - 0; omega); simpa using this
    · have := heq (by show l'.pos - 0 ≤ l'.start; omega)
      rw [this]; show l'.start = l'.pos; omega

/-- CUT at the end of input: the pending text is sent, then the EOF item; the scan ends. -/
theorem lexText_cut_eof {l l' l1 : Lexer} {lc lc' : Int} (hrun : PlainRun l lc l' lc')
    (hn : l'.next = some (eof, l1)) (h0 : 0 ≤ l.start) (h1 : l.start ≤ l.pos) (h2 : l.pos ≤ l.len) :
    ∃ lf, lexTextLoop l lc = some (none, lf) ∧
      lf.items.toList = l.items.toList ++ textItems l.input l.start l'.pos ++ [⟨.tEOF, l'.pos.toNat, []⟩] := by
  obtain ⟨he, hi, hs, hin, _⟩ := lexTextLoop_run hrun
  have hple := (hrun.pos_le (by omega)).1
  have hplen := (hrun.pos_le (by omega)).2 h2
  simp only [Lexer.len] at hplen
  have hf := (next_facts hn (by omega)).2.2
  unfold NextFacts at hf
  simp only [eof, Lexer.len] at hf
  rw [he, lexTextLoop_some hn]
  simp only [eof, show (-1 : Int) ≠ 47 by decide, show (-1 : Int) ≠ 123 by decide, show (-1 : Int) ≠ 125 by decide,
    if_false, if_true]
  rw [next_backup hn]
  obtain ⟨lm, hm, hit, hp, hinm, hst, heq⟩ := maybeEmitText_items (l := { l' with width := l1.width }) (k := 0)
    (by show 0 ≤ l'.start; omega) (by show l'.pos - 0 ≤ (l'.input.size : Int); omega)
  rw [hm]
  simp only
  have hpm : lm.pos = l'.pos := hp
  have hsm : lm.start = l'.pos := by
    by_cases hlt : l'.start < l'.pos
    · have := hst (by show l'.start < l'.pos - 0; omega); simpa using this
    · have := heq (by show l'.pos - 0 ≤ l'.start; omega)
      rw [this]; show l'.start = l'.pos; omega
  have hinm' : lm.input = l'.input := hinm
  rw [emit_eq .tEOF (by rw [hsm]; omega) (by rw [hsm, hpm]; exact Int.le_refl _) (by simp only [Lexer.len]; rw [hpm, hinm']; have := hf; omega)]
  refine ⟨_, rfl, ?_⟩
  simp only [Array.toList_push, hit, hsm, hpm]
  show l'.items.toList ++ textItems l'.input l'.start (l'.pos - 0) ++ _ = _
  rw [hi, hin, hs, Int.sub_zero]
  congr 2
  simp

/-- CUT at `}`: the pending text is NOT sent; an Error item positioned behind the `}` ends
    the scan ("unexpected closing delimiter"). -/
theorem lexText_cut_close {l l' l1 : Lexer} {lc lc' : Int} (hrun : PlainRun l lc l' lc')
    (hn : l'.next = some (125, l1)) :
    ∃ lf, lexTextLoop l lc = some (none, lf) ∧ lf.items.toList = l.items.toList ++ [⟨.tError, l1.pos.toNat, []⟩] := by
  obtain ⟨he, hi, _, _, _⟩ := lexTextLoop_run hrun
  rw [he, lexTextLoop_some hn]
  simp only [show (125 : Int) ≠ 47 by decide, show (125 : Int) ≠ 123 by decide, if_false, if_true]
  refine ⟨_, rfl, ?_⟩
  simp [(next_lastEmit hn).2.1, hi]

/-- CUT at `/*`: the text before it is sent, then the comment scanners take over from a lexer
    whose pending token starts at the `/*` -/
theorem lexText_cut_block {l l' l1 l2 : Lexer} {lc lc' : Int} (hrun : PlainRun l lc l' lc')
    (hn : l'.next = some (47, l1)) (hn2 : l1.next = some (42, l2)) (h0 : 0 ≤ l.start) (h1 : l.start ≤ l.pos) :
    ∃ l3 : Lexer, l3.items.toList = l.items.toList ++ textItems l.input l.start l'.pos ∧ l3.pos = l2.pos ∧
      l3.input = l.input ∧
      lexTextLoop l lc = afterSlashStar l3 ∧ l3.start = l'.pos := by
  obtain ⟨he, hi, hs, hin, _⟩ := lexTextLoop_run hrun
  have hple := (hrun.pos_le (by omega)).1
  have hf := (next_facts hn (by omega)).2.2
  unfold NextFacts at hf
  have hf2 := (next_facts hn2 (by omega)).2.2
  unfold NextFacts at hf2
  obtain ⟨_, hi1, hs1, hin1⟩ := next_lastEmit hn
  obtain ⟨_, hi2, hs2, hin2⟩ := next_lastEmit hn2
  have hl1 := (next_facts hn (by omega)).1.1
  have hl2 := (next_facts hn2 (by omega)).1.1
  simp only [Lexer.len] at hf hf2 hl1 hl2
  obtain ⟨l3, hm, hit, hp, hinm, hst, heq⟩ := maybeEmitText_items (l := l2) (k := 2) (by omega) (by simp only [Lexer.len]; omega)
  refine ⟨l3, ?_, hp, by rw [hinm, hin2, hin1, hin], ?_, ?_⟩
  · rw [hit, hi2, hi1, hi, hin2, hin1, hin, hs2, hs1, hs]
    congr 2; omega
  · rw [he, lexTextLoop_some hn]
    simp only [if_true, hn2, show (42 : Int) ≠ 47 by decide, if_false, hm]
  · by_cases hlt : l2.start < l2.pos - 2
    · rw [hst hlt]; omega
    · rw [heq (by omega)]; omega

/-- CUT at a line comment: `//` at a `LineStart`.  The text before it — without the
    whitespace character that precedes the `//`, if any was read in this run — is sent, then
    `lexLineComment` scans to the end of the line. -/
theorem lexText_cut_line {l l' l1 l2 : Lexer} {lc lc' : Int} (hrun : PlainRun l lc l' lc')
    (hn : l'.next = some (47, l1)) (hn2 : l1.next = some (47, l2)) (hls : LineStart lc' l.lastEmit)
    (h0 : 0 ≤ l.start) (h1 : l.start ≤ l.pos) :
    ∃ l3 : Lexer, l3.items.toList = l.items.toList ++ textItems l.input l.start (l'.pos - 1) ∧ l3.pos = l2.pos ∧
      lexTextLoop l lc = lexLineComment (if lc' ≠ noChar then { l3 with start := l3.start + 1 } else l3) := by
  obtain ⟨he, hi, hs, hin, hle⟩ := lexTextLoop_run hrun
  have hple := (hrun.pos_le (by omega)).1
  have hf := (next_facts hn (by omega)).2.2
  unfold NextFacts at hf
  have hf2 := (next_facts hn2 (by omega)).2.2
  unfold NextFacts at hf2
  obtain ⟨hle1, hi1, hs1, hin1⟩ := next_lastEmit hn
  obtain ⟨hle2, hi2, hs2, hin2⟩ := next_lastEmit hn2
  have hl1 := (next_facts hn (by omega)).1.1
  have hl2 := (next_facts hn2 (by omega)).1.1
  simp only [Lexer.len] at hf hf2 hl1 hl2
  obtain ⟨l3, hm, hit, hp, _, _, _⟩ := maybeEmitText_items (l := l2) (k := 3) (by omega) (by simp only [Lexer.len]; omega)
  refine ⟨l3, ?_, hp, ?_⟩
  · rw [hit, hi2, hi1, hi, hin2, hin1, hin, hs2, hs1, hs]
    congr 2; omega
  · rw [he, lexTextLoop_some hn]
    unfold LineStart at hls
    rw [← hle, ← hle1, ← hle2] at hls
    simp only [if_true, hn2, hls, hm]

/-- an ASCII byte is the rune `next` delivers, one byte wide (so on ASCII text the runes of
    `PlainRun` and the cut conditions are simply the bytes) -/
theorem next_ascii {l : Lexer} (h0 : 0 ≤ l.pos) (h1 : l.pos < l.len) (hb : byteAt l.input l.pos.toNat < 128) :
    l.next = some ((byteAt l.input l.pos.toNat : Int), { l with width := 1, pos := l.pos + 1 }) := by
  unfold Lexer.next
  rw [if_neg (by omega), if_neg (by omega)]
  have : decodeRune l.input l.pos.toNat = (byteAt l.input l.pos.toNat, 1) := by
    unfold decodeRune
    simp only [hb, if_true]
  simp only [this]
  rfl

theorem next_eof {l : Lexer} (h1 : l.len ≤ l.pos) : l.next = some (eof, { l with width := 0 }) := by
  unfold Lexer.next
  rw [if_pos (by omega)]

/-! ### ASCII text: the runes are the bytes -/

/-- a stretch of ASCII bytes other than `/`, `{`, `}` is a plain run -/
theorem plainRun_ascii : ∀ (k : Nat) (l : Lexer) (lc : Int), 0 ≤ l.pos → l.pos + k ≤ l.len →
    (∀ i, i < k → byteAt l.input (l.pos.toNat + i) < 128 ∧ byteAt l.input (l.pos.toNat + i) ≠ 47 ∧
      byteAt l.input (l.pos.toNat + i) ≠ 123 ∧ byteAt l.input (l.pos.toNat + i) ≠ 125) →
    ∃ l' lc', PlainRun l lc l' lc' ∧ l'.pos = l.pos + k := by
  intro k
  induction k with
  | zero => intro l lc _ _ _; exact ⟨l, lc, PlainRun.refl l lc, by simp⟩
  | succ k ih =>
    intro l lc h0 h1 hb
    have hb0 := hb 0 (by omega)
    simp only [Nat.add_zero] at hb0
    have hn := next_ascii (l := l) h0 (by omega) hb0.1
    obtain ⟨l', lc', hr, hp⟩ := ih { l with width := 1, pos := l.pos + 1 } (byteAt l.input l.pos.toNat : Int)
      (by show 0 ≤ l.pos + 1; omega) (by show l.pos + 1 + (k : Int) ≤ (l.input.size : Int); simp only [Lexer.len] at h1; omega)
      (by
        intro i hi
        have := hb (i + 1) (by omega)
        have e : (l.pos + 1).toNat + i = l.pos.toNat + (i + 1) := by omega
        show byteAt l.input ((l.pos + 1).toNat + i) < 128 ∧ _
        rw [e]; exact this)
    refine ⟨l', lc', PlainRun.plain hn (by omega) (by omega) (by omega) (by simp only [eof]; omega) hr, ?_⟩
    rw [hp]; show l.pos + 1 + (k : Int) = l.pos + ((k + 1 : Nat) : Int); omega

theorem byteAt_append_left (pre post : Bytes) (i : Nat) (h : i < pre.length) :
    byteAt (pre ++ post).toArray i = (pre[i]).toNat := by
  unfold byteAt
  simp [Array.getD_eq_getD_getElem?, List.getElem?_append_left h, List.getElem?_eq_getElem h]

theorem byteAt_append_mid (pre : Bytes) (b : UInt8) (post : Bytes) :
    byteAt (pre ++ b :: post).toArray pre.length = b.toNat := by
  unfold byteAt
  simp [Array.getD_eq_getD_getElem?]

/-- Text made of ASCII bytes other than `/`, `{`, `}`, followed by `{`: `lexText`, started on
    the whole input, sends that text as one Text item positioned at the `{` (nothing if it is
    empty or only whitespace with a line break) and hands over to `lexLeftDelim` there. -/
theorem lexText_plain_then_open (pre post : Bytes)
    (hpre : ∀ b ∈ pre, b.toNat < 128 ∧ b ≠ 47 ∧ b ≠ 123 ∧ b ≠ 125) :
    ∃ lf, lexText (initLexer (pre ++ 123 :: post)) = some (some .leftDelim, lf) ∧
      lf.items.toList = textItems (pre ++ 123 :: post).toArray 0 pre.length ∧ lf.pos = pre.length ∧
      lf.start = pre.length := by
  have hlen : (initLexer (pre ++ 123 :: post)).len = (pre.length + 1 + post.length : Nat) := by
    simp [initLexer, Lexer.len]; omega
  obtain ⟨l', lc', hr, hp⟩ := plainRun_ascii pre.length (initLexer (pre ++ 123 :: post)) noChar (by simp [initLexer])
    (by rw [hlen]; simp [initLexer]; omega)
    (by
      intro i hi
      have hb := hpre pre[i] (List.getElem_mem hi)
      have e : byteAt (initLexer (pre ++ 123 :: post)).input ((initLexer (pre ++ 123 :: post)).pos.toNat + i) = (pre[i]).toNat := by
        simp only [initLexer, Int.toNat_zero, Nat.zero_add]
        exact byteAt_append_left pre _ i hi
      rw [e]
      refine ⟨hb.1, ?_, ?_, ?_⟩ <;> (intro h; first | exact hb.2.1 (UInt8.toNat_inj.mp h) | exact hb.2.2.1 (UInt8.toNat_inj.mp h) | exact hb.2.2.2 (UInt8.toNat_inj.mp h)))
  have hp' : l'.pos = pre.length := by rw [hp]; simp [initLexer]
  obtain ⟨_, _, _, hin, _⟩ := lexTextLoop_run hr
  have hb : byteAt l'.input l'.pos.toNat = 123 := by
    rw [hin, hp']
    simp only [initLexer, Int.toNat_natCast]
    exact byteAt_append_mid pre 123 post
  have hn := next_ascii (l := l') (by omega) (by
    have : l'.len = (initLexer (pre ++ 123 :: post)).len := by simp only [Lexer.len, hin]
    rw [this, hlen, hp']; omega) (by omega)
  rw [hb] at hn
  obtain ⟨lf, h1, h2, h3, h4, _⟩ := lexText_cut_open hr hn (by simp [initLexer]) (by simp [initLexer])
  refine ⟨lf, h1, ?_, by rw [h3, hp'], by rw [h4, hp']⟩
  rw [h2, hp']
  simp [initLexer]

/-! ### what `maybeEmitText` drops

  A pending text that is "all whitespace with a line break" is not sent.  Since /repo dbf6196 the
  test is `isSpaceEOL` on every rune — space, tab, CR, LF, exactly `Spec.isWs`, the whitespace of
  the line-joining rule — so no character that line joining would keep is ever dropped by the
  lexer (before, `unicode.IsSpace`: a no-break space, form feed, U+2028 … with a line break
  between two tags vanished). -/

theorem isSpaceEOL_cases {r : Int} (h : Lex.isSpaceEOL r = true) : r = 32 ∨ r = 9 ∨ r = 13 ∨ r = 10 := by
  simp only [Lex.isSpaceEOL, Lex.isSpace, Lex.isEndOfLine, Bool.or_eq_true, beq_iff_eq] at h
  omega

theorem allSpaceLoop_bytes : ∀ (n : Nat) (a : Array UInt8) (i : Nat) (sn : Bool), a.size - i = n →
    allSpaceLoop a i sn = true →
    ∀ j, i ≤ j → j < a.size → byteAt a j = 32 ∨ byteAt a j = 9 ∨ byteAt a j = 13 ∨ byteAt a j = 10 := by
  intro n
  induction n using Nat.strongRecOn with
  | _ n ih =>
    intro a i sn hn h j hij hj
    rw [allSpaceLoop] at h
    have hi : i < a.size := by omega
    simp only [hi, dite_true] at h
    split at h
    · exact absurd h (by simp)
    · rename_i hsp
      have hsp' : Lex.isSpaceEOL ((decodeRune a i).1 : Int) = true := by simpa using hsp
      have hc := isSpaceEOL_cases hsp'
      have hsmall : (decodeRune a i).1 < 128 := by omega
      have hb := decodeRune_small a i hsmall
      have hw : (decodeRune a i).2 = 1 := by
        rcases decodeRune_ascii a i with h1 | h1
        · exact h1
        · omega
      by_cases hji : j = i
      · subst hji; omega
      · rw [hw] at h
        exact ih (a.size - (i + 1)) (by omega) a (i + 1) _ rfl h j (by omega) hj

/-- a text run the lexer drops consists of the whitespace bytes of the line-joining rule only -/
theorem dropped_run_is_whitespace (s : Bytes) (h : allSpaceWithNewline s = true) :
    ∀ b ∈ s, Spec.isWs b = true := by
  intro b hb
  obtain ⟨j, hj, rfl⟩ := List.getElem_of_mem hb
  have := allSpaceLoop_bytes _ s.toArray 0 false rfl h j (Nat.zero_le _) (by simpa using hj)
  have e : byteAt s.toArray j = (s[j]).toNat := by
    have := byteAt_append_left s [] j hj
    simpa using this
  rw [e] at this
  simp only [Spec.isWs, Bool.or_eq_true, beq_iff_eq]
  rcases this with h | h | h | h
  · exact Or.inl (Or.inl (Or.inl (UInt8.toNat_inj.mp h)))
  · exact Or.inl (Or.inl (Or.inr (UInt8.toNat_inj.mp h)))
  · exact Or.inl (Or.inr (UInt8.toNat_inj.mp h))
  · exact Or.inr (UInt8.toNat_inj.mp h)

/-- in terms of `textItems`: when a non-empty pending text yields no Text item, all its bytes
    are `isWs` -/
theorem textItems_nil_whitespace (input : Array UInt8) (start q : Int) (hq : q > start)
    (h : textItems input start q = []) :
    ∀ b ∈ (input.extract start.toNat q.toNat).toList, Spec.isWs b = true := by
  unfold textItems at h
  by_cases hs : allSpaceWithNewline (input.extract start.toNat q.toNat).toList = true
  · exact dropped_run_is_whitespace _ hs
  · have hs' : allSpaceWithNewline (input.extract start.toNat q.toNat).toList = false := by simpa using hs
    rw [if_pos ⟨hq, hs'⟩] at h
    exact absurd h (by simp)

/-! ### lifted to `lexAll` where the scan ends in `lexText`

  When the first text run ends the scan — at the end of the input, or at a stray `}` — the
  items `lexText` sends ARE the item list of `lexAll`: no other state function runs. -/

/-- the run ends with the first state function: its items are the result -/
theorem lexAll_of_lexText_end {input : Bytes} {lf : Lexer}
    (h : lexText (initLexer input) = some (none, lf)) : lexAll input false = .items lf.items.toList := by
  unfold lexAll Lex.fuelFor
  simp only [Bool.false_eq_true, if_false]
  show run (7 * input.length + 7 + 1) .text (initLexer input) = _
  unfold run
  simp only [step, h]

/-- ASCII text without `/`, `{`, `}`, to the end of the input: `lexAll` is that text as ONE
    Text item (none if it is empty or whitespace with a line break) and the EOF item -/
theorem lexAll_plain_text (txt : Bytes) (htxt : ∀ b ∈ txt, b.toNat < 128 ∧ b ≠ 47 ∧ b ≠ 123 ∧ b ≠ 125) :
    lexAll txt false = .items (textItems txt.toArray 0 txt.length ++ [⟨.tEOF, txt.length, []⟩]) := by
  have hlen : (initLexer txt).len = (txt.length : Nat) := by simp [initLexer, Lexer.len]
  obtain ⟨l', lc', hr, hp⟩ := plainRun_ascii txt.length (initLexer txt) noChar (by simp [initLexer])
    (by rw [hlen]; simp [initLexer])
    (by
      intro i hi
      have hb := htxt txt[i] (List.getElem_mem hi)
      have e : byteAt (initLexer txt).input ((initLexer txt).pos.toNat + i) = (txt[i]).toNat := by
        simp only [initLexer, Int.toNat_zero, Nat.zero_add]
        have := byteAt_append_left txt [] i hi
        simpa using this
      rw [e]
      refine ⟨hb.1, ?_, ?_, ?_⟩ <;> (intro h; first | exact hb.2.1 (UInt8.toNat_inj.mp h) | exact hb.2.2.1 (UInt8.toNat_inj.mp h) | exact hb.2.2.2 (UInt8.toNat_inj.mp h)))
  have hp' : l'.pos = txt.length := by rw [hp]; simp [initLexer]
  obtain ⟨_, _, _, hin, _⟩ := lexTextLoop_run hr
  have hn := next_eof (l := l') (by
    have : l'.len = (initLexer txt).len := by simp only [Lexer.len, hin]
    rw [this, hlen, hp']; exact Int.le_refl _)
  obtain ⟨lf, h1, h2⟩ := lexText_cut_eof hr hn (by simp [initLexer]) (by simp [initLexer]) (by rw [hlen]; simp [initLexer])
  rw [lexAll_of_lexText_end (lf := lf) h1, h2, hp']
  simp [initLexer]

/-! ### Non-vacuity -/

set_option maxRecDepth 20000

/-- `a /* c *///b` (the input the seeded change C15-5 mis-lexed): the `//` right after the block
    comment is NOT a line comment — `//b` is text -/
theorem lex_slashes_after_comment :
    lexAll [97, 32, 47, 42, 32, 99, 32, 42, 47, 47, 47, 98] false =
      .items [⟨.tText, 2, [97, 32]⟩, ⟨.tComment, 9, [47, 42, 32, 99, 32, 42, 47]⟩,
        ⟨.tText, 12, [47, 47, 98]⟩, ⟨.tEOF, 12, []⟩] := by
  simp [lexAll, Lex.fuelFor, run, step, lexText, lexTextLoop, lexBlockComment, Lexer.next, initLexer, Lexer.len,
    decodeRune, byteAt, maybeEmitText, Lexer.backup, eof, noChar, Lexer.emit, sliceOf, Lexer.addPos, allSpaceWithNewline,
    allSpaceLoop, Lex.isSpaceEOL, Lex.isSpace, Lex.isEndOfLine]

/-- `a/**/b`: `/**/` is an empty block comment (before /repo 73e5662 it began a soydoc comment and
    the scan failed with "unexpected eof when scanning soydoc") -/
theorem lex_empty_block_comment :
    lexAll [97, 47, 42, 42, 47, 98] false =
      .items [⟨.tText, 1, [97]⟩, ⟨.tComment, 5, [47, 42, 42, 47]⟩, ⟨.tText, 6, [98]⟩, ⟨.tEOF, 6, []⟩] := by
  simp [lexAll, Lex.fuelFor, run, step, lexText, lexTextLoop, Lexer.next, Lexer.peek, initLexer, Lexer.len,
    decodeRune, byteAt, maybeEmitText, Lexer.backup, eof, noChar, Lexer.emit, sliceOf, Lexer.addPos, allSpaceWithNewline,
    allSpaceLoop, Lex.isSpaceEOL, Lex.isSpace, Lex.isEndOfLine]

/-- `a //b`: whitespace before `//` — a line comment; the Text item is `a` without the space -/
theorem lex_line_comment_after_space :
    lexAll [97, 32, 47, 47, 98] false =
      .items [⟨.tText, 1, [97]⟩, ⟨.tComment, 5, [47, 47, 98]⟩, ⟨.tEOF, 5, []⟩] := by
  simp [lexAll, Lex.fuelFor, run, step, lexText, lexTextLoop, lexLineComment, scanWhile, Lexer.next, initLexer, Lexer.len,
    decodeRune, byteAt, maybeEmitText, Lexer.backup, eof, noChar, Lexer.emit, sliceOf, Lexer.addPos, allSpaceWithNewline,
    allSpaceLoop, Lex.isSpaceEOL, Lex.isSpace, Lex.isEndOfLine]

/-- `a//b`: no whitespace before `//` — it stays in the text -/
theorem lex_slashes_in_text :
    lexAll [97, 47, 47, 98] false = .items [⟨.tText, 4, [97, 47, 47, 98]⟩, ⟨.tEOF, 4, []⟩] := by
  simp [lexAll, Lex.fuelFor, run, step, lexText, lexTextLoop, Lexer.next, initLexer, Lexer.len,
    decodeRune, byteAt, maybeEmitText, Lexer.backup, eof, noChar, Lexer.emit, sliceOf, Lexer.addPos, allSpaceWithNewline,
    allSpaceLoop, Lex.isSpaceEOL, Lex.isSpace, Lex.isEndOfLine]

/-- `a\x00//b`: a NUL before `//` is a character like any other — the text goes on (/repo 67d6dd1; before, the
    scanner took the NUL for "nothing read yet" and `\x00//b` became a comment) -/
theorem lex_nul_before_slashes :
    lexAll [97, 0, 47, 47, 98] false = .items [⟨.tText, 5, [97, 0, 47, 47, 98]⟩, ⟨.tEOF, 5, []⟩] := by
  simp [lexAll, Lex.fuelFor, run, step, lexText, lexTextLoop, Lexer.next, initLexer, Lexer.len,
    decodeRune, byteAt, maybeEmitText, Lexer.backup, eof, noChar, Lexer.emit, sliceOf, Lexer.addPos, allSpaceWithNewline,
    allSpaceLoop, Lex.isSpaceEOL, Lex.isSpace, Lex.isEndOfLine]

end lexer

/-- parser side: a Comment token, the Text token ` a⏎ b` and a tag.  The comment immediately
    before the run makes `trimBefore` true: the leading space is dropped, the line break and the
    indentation are joined away — the node is `RawText "a b"` at the Text token's position -/
example : textNode [⟨.tComment, 7, [47, 42, 120, 42, 47]⟩] ⟨.tText, 13, [32, 97, 10, 32, 98]⟩ [] ⟨.tLeftDelim, 14, [123]⟩ =
    some (.rawText 13 [97, 32, 98]) := by rfl

/-- … while without the comment the leading space stays -/
example : textNode [] ⟨.tText, 13, [32, 97, 10, 32, 98]⟩ [] ⟨.tLeftDelim, 14, [123]⟩ =
    some (.rawText 13 [32, 97, 32, 98]) := by rfl

/-- the hypotheses of `textOrTag_text_spec` are satisfiable: `/*x*/ a⏎ b{` seen by `itemList` -/
example : ∃ st', textOrTag (fun _ => none) 0 (5 + 1) ⟨.tComment, 7, [47, 42, 120, 42, 47]⟩ [.tEOF]
      { p := { rest := [⟨.tText, 13, [32, 97, 10, 32, 98]⟩, ⟨.tLeftDelim, 14, [123]⟩, ⟨.tEOF, 14, []⟩],
               tok0 := ⟨.tComment, 7, [47, 42, 120, 42, 47]⟩, tok1 := Item.zero, peekCount := 0 } } =
      .ok ((some (.rawText 13 [97, 32, 98]), false), st') ∧
      stream st'.p = [⟨.tLeftDelim, 14, [123]⟩, ⟨.tEOF, 14, []⟩] ∧ st'.p.peekCount ≤ 2 :=
  textOrTag_text_spec (fun _ => none) 0 5 [.tEOF] _ _ [⟨.tComment, 7, [47, 42, 120, 42, 47]⟩]
    ⟨.tText, 13, [32, 97, 10, 32, 98]⟩ [] ⟨.tLeftDelim, 14, [123]⟩ [⟨.tEOF, 14, []⟩]
    (by decide) rfl rfl (by decide) rfl (by decide) (by decide) rfl (by decide)


/-! ## lexer ∘ parser on a source that is one run of text

  The two sides composed where the lexer lemmas reach `lexAll`: a source consisting of plain
  text only.  (For bodies with tags and comments the composition needs "`run` only appends to
  `items`" through the lexer lemmas; see the note at the lexer part.) -/

/-- the until-token ends the list: nothing is consumed -/
theorem textOrTag_until (pf : Bytes → Option UInt64) (ef fuel : Nat) (untl : List ItemType) (token : Item) (st : FState)
    (hc : token.typ ≠ .tComment) (hu : untl.contains token.typ = true) :
    textOrTag pf ef (fuel + 2) token untl st = .ok ((none, true), st) := by
  unfold textOrTag
  simp only
  rw [fbind_run]
  have hsk : skipComments (fuel + 1) token st = .ok (token, st) := by
    unfold skipComments
    have : (token.typ == ItemType.tComment) = false := by simpa using hc
    simp [this, pure, StateT.pure, Except.pure]
  rw [hsk]
  simp only [hu, if_true]
  rfl

/-- the top-level list over the two tokens `t` (Text) and `e` (EOF) -/
theorem itemListLoop_text_only (pf : Bytes → Option UInt64) (ef f : Nat) (t e : Item) (ht : t.typ = .tText) (he : e.typ = .tEOF) :
    ∃ st', itemListLoop pf ef (f + 4) [.tEOF] none .nil { p := initState [t, e] } =
      .ok (.list t.pos (match textNode [] t [] e with | some n => .cons n .nil | none => .nil), st') := by
  obtain ⟨st1, hn1, hs1, ht1, hp1⟩ := fnext_stream (st := { p := initState [t, e] }) (x := t) (s := [e]) (by simp [initState])
    (by simp [stream, pending, initState])
  obtain ⟨st2, hto, hs2, hp2⟩ := textOrTag_text_spec pf ef (f + 2) [.tEOF] t st1 [] t [] e []
    (by rw [hp1]; simp [initState]) ht1 (by rw [hs1]; rfl) (fun _ h => absurd h (by simp)) ht (fun _ h => absurd h (by simp))
    (by rw [he]; decide) (by decide) (by simp)
  obtain ⟨st3, hn3, hs3, ht3, hp3⟩ := fnext_stream (st := st2) (x := e) (s := []) hp2 hs2
  have hun := textOrTag_until pf ef f [.tEOF] e st3 (by rw [he]; decide) (by rw [he]; decide)
  refine ⟨st3, ?_⟩
  show itemListLoop pf ef ((f + 3) + 1) [.tEOF] none .nil { p := initState [t, e] } = _
  unfold itemListLoop
  rw [fbind_run, hn1]
  simp only [Option.getD_none]
  rw [fbind_run, hto]
  simp only [Bool.false_eq_true, if_false]
  cases hnode : textNode [] t [] e with
  | none =>
    simp only
    show itemListLoop pf ef ((f + 2) + 1) [.tEOF] (some t.pos) .nil st2 = _
    unfold itemListLoop
    rw [fbind_run, hn3]
    simp only [Option.getD_some]
    rw [fbind_run, hun]
    rfl
  | some n =>
    simp only
    show itemListLoop pf ef ((f + 2) + 1) [.tEOF] (some t.pos) _ st2 = _
    unfold itemListLoop
    rw [fbind_run, hn3]
    simp only [Option.getD_some]
    rw [fbind_run, hun]
    rfl

/-- only the EOF token: an empty body -/
theorem itemListLoop_eof_only (pf : Bytes → Option UInt64) (ef f : Nat) (e : Item) (he : e.typ = .tEOF) :
    ∃ st', itemListLoop pf ef (f + 3) [.tEOF] none .nil { p := initState [e] } = .ok (.list e.pos .nil, st') := by
  obtain ⟨st1, hn1, hs1, ht1, hp1⟩ := fnext_stream (st := { p := initState [e] }) (x := e) (s := []) (by simp [initState])
    (by simp [stream, pending, initState])
  have hun := textOrTag_until pf ef f [.tEOF] e st1 (by rw [he]; decide) (by rw [he]; decide)
  refine ⟨st1, ?_⟩
  show itemListLoop pf ef ((f + 2) + 1) [.tEOF] none .nil { p := initState [e] } = _
  unfold itemListLoop
  rw [fbind_run, hn1]
  simp only [Option.getD_none]
  rw [fbind_run, hun]
  rfl

theorem extract_full (txt : Bytes) : (txt.toArray.extract (0 : Int).toNat (txt.length : Int).toNat).toList = txt := by
  simp

/-- A source that is ONE run of plain text (ASCII, no `/`, `{`, `}`): lexer ∘ parser give the
    single RawText node `joinLines txt false false`, positioned at the end of the text (the Text
    token's position) — no node if the text is empty, is whitespace with a line break (the lexer
    drops it), or normalises to nothing. -/
theorem plain_text_source (pf : Bytes → Option UInt64) (txt : Bytes)
    (htxt : ∀ b ∈ txt, b.toNat < 128 ∧ b ≠ 47 ∧ b ≠ 123 ∧ b ≠ 125) :
    parseSource pf txt = .ok
      (if txt ≠ [] ∧ Lex.allSpaceWithNewline txt = false ∧ (joinLines txt false false).isEmpty = false
       then [.rawText txt.length (joinLines txt false false)] else []) := by
  unfold parseSource
  rw [lexAll_plain_text txt htxt]
  simp only
  unfold textItems
  rw [extract_full]
  by_cases hemit : ((txt.length : Int) > 0 ∧ Lex.allSpaceWithNewline txt = false)
  · rw [if_pos hemit]
    have hne : txt ≠ [] := by intro h; rw [h] at hemit; simp at hemit
    simp only [List.cons_append, List.nil_append, Int.toNat_natCast]
    obtain ⟨st', hl⟩ := itemListLoop_text_only pf (exprFuel [⟨.tText, txt.length, txt⟩, ⟨.tEOF, txt.length, []⟩]) 76
      ⟨.tText, txt.length, txt⟩ ⟨.tEOF, txt.length, []⟩ rfl rfl
    unfold parseFile
    simp only [StateT.run]
    have hfu : FileParser.fuelFor [(⟨.tText, txt.length, txt⟩ : Item), ⟨.tEOF, txt.length, []⟩].length = 76 + 4 := rfl
    rw [hfu, hl]
    simp only [textNode, List.flatMap_nil, List.append_nil, List.isEmpty_nil, Bool.not_true]
    have hcm : (ItemType.tEOF == ItemType.tComment) = false := rfl
    rw [hcm]
    by_cases hj : joinLines txt false false = []
    · simp [hj, NodeList.toList]
    · simp [hj, hne, hemit.2, NodeList.toList]
  · rw [if_neg hemit]
    simp only [List.nil_append, Int.toNat_natCast]
    obtain ⟨st', hl⟩ := itemListLoop_eof_only pf (exprFuel [⟨.tEOF, txt.length, []⟩]) 69 ⟨.tEOF, txt.length, []⟩ rfl
    unfold parseFile
    simp only [StateT.run]
    have hfu : FileParser.fuelFor [(⟨.tEOF, txt.length, []⟩ : Item)].length = 69 + 3 := rfl
    rw [hfu, hl]
    have : ¬ (txt ≠ [] ∧ Lex.allSpaceWithNewline txt = false ∧ (joinLines txt false false).isEmpty = false) := by
      intro ⟨h1, h2, _⟩
      apply hemit
      refine ⟨?_, h2⟩
      cases txt with
      | nil => exact absurd rfl h1
      | cons b r => simp
    rw [if_neg this]
    rfl

/-- the hypothesis is satisfiable: `a⏎ b` as a whole source (the result is `RawText 4 "a b"`,
    as the driver's `parsesrc` shows; the `if` is not evaluated here because `allSpaceWithNewline`
    is defined by well-founded recursion) -/
example (pf : Bytes → Option UInt64) := plain_text_source pf [97, 10, 32, 98] (by decide)

example : joinLines [97, 10, 32, 98] false false = [97, 32, 98] := by rfl

end SoyVerif.Props.C15b
