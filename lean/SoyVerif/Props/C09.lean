/-
  C09 — One compiled bundle can be rendered from many goroutines at once (PARTIAL by nature).

  What is proved: for any number of threads whose steps leave the shared state unchanged
  (the frame property that C08 establishes for the interpreter model: rendering never
  modifies registry, trees, data, ij or the message bundle), under EVERY schedule the
  shared state never changes — so no step ever writes shared memory and there is no pair
  of conflicting accesses, which is the Go memory model's definition of a data race —
  and every thread's observations are exactly those of its solo run.

  What no theorem about this model can exhibit: the Go scheduler and memory model
  themselves, and writes that are undone before an operation ends.  Those are covered by
  the tie: `cmd racer` (the harness built with -race) runs G goroutines x R renders / JS
  generations / compilations over generated bundles and compares every goroutine's output
  with the sequential output.
-/
import SoyVerif.Model.Interleave

namespace SoyVerif.Props.C09
open SoyVerif.Model.Interleave

variable {σ Obs : Type}

/-- all pending steps of all threads are read-only at state `s` -/
def AllReadOnly (s : σ) (pending : List (List (Step σ Obs))) : Prop :=
  ∀ t ∈ pending, ∀ f ∈ t, ReadOnly s f

theorem runSolo_readonly (s : σ) : ∀ (t : List (Step σ Obs)), (∀ f ∈ t, ReadOnly s f) →
    runSolo s t = (s, t.map (fun f => (f s).2))
  | [], _ => rfl
  | f :: rest, h => by
    have hf : (f s).1 = s := h f (by simp)
    have ih := runSolo_readonly s rest (fun g hg => h g (by simp [hg]))
    simp only [runSolo]
    rw [show f s = (s, (f s).2) from Prod.ext hf rfl]
    simp [ih]

theorem stepThread_shared (sys : Sys σ Obs) (i : Nat) (h : AllReadOnly sys.shared sys.pending) :
    (stepThread sys i).shared = sys.shared ∧ AllReadOnly sys.shared (stepThread sys i).pending := by
  unfold stepThread
  cases hp : sys.pending[i]? with
  | none => exact ⟨rfl, h⟩
  | some t =>
    cases t with
    | nil => exact ⟨rfl, h⟩
    | cons f rest =>
      have hmem : (f :: rest) ∈ sys.pending := List.mem_of_getElem? hp
      have hf : (f sys.shared).1 = sys.shared := h _ hmem f (by simp)
      refine ⟨hf, ?_⟩
      intro t ht g hg
      simp only at ht
      rcases List.mem_or_eq_of_mem_set ht with h1 | h1
      · exact h t h1 g hg
      · subst h1; exact h _ hmem g (by simp [hg])

/-- FULL (for the model): read-only threads never change the shared state, under every schedule. -/
theorem shared_unchanged (sys : Sys σ Obs) (h : AllReadOnly sys.shared sys.pending) :
    ∀ sched : List Nat, (runSched sys sched).shared = sys.shared ∧
      AllReadOnly sys.shared (runSched sys sched).pending
  | [] => ⟨rfl, h⟩
  | i :: rest => by
    have ⟨h1, h2⟩ := stepThread_shared sys i h
    have ih := shared_unchanged (stepThread sys i) (by rw [h1]; exact h2) rest
    simp only [runSched]
    rw [h1] at ih
    exact ih

/-- every observation any thread makes under any schedule is the observation the same
    step makes on the initial state — i.e. what it makes when the thread runs alone -/
theorem obs_schedule_independent (s : σ) (threads : List (List (Step σ Obs)))
    (h : AllReadOnly s threads) (sched : List Nat) (i : Nat) (f : Step σ Obs) (rest : List (Step σ Obs))
    (hp : (runSched (init s threads) sched).pending[i]? = some (f :: rest)) :
    -- the next step of thread i, wherever the schedule has got to, sees exactly `s`
    (f (runSched (init s threads) sched).shared) = (s, (f s).2) := by
  have ⟨h1, h2⟩ := shared_unchanged (init s threads) (by simpa [init] using h) sched
  simp only [init] at h1 h2
  have hmem : (f :: rest) ∈ (runSched (init s threads) sched).pending := List.mem_of_getElem? hp
  have hf : (f s).1 = s := h2 _ hmem f (by simp)
  simp only [init]
  rw [h1]
  exact Prod.ext hf rfl

/- Non-vacuity: two reader threads over a counter, any schedule leaves it alone. -/
example : (runSched (init (7 : Nat) [[fun s => (s, s + 1), fun s => (s, s * 2)], [fun s => (s, s)]]) [1, 0, 0, 1, 0]).shared = 7 := by
  decide
example : (runSched (init (7 : Nat) [[fun s => (s, s + 1), fun s => (s, s * 2)], [fun s => (s, s)]]) [1, 0, 0]).obs = [[8, 14], [7]] := by
  decide

end SoyVerif.Props.C09
