/-
  C12, lifted to the interpreter model: `Eval.execute` returns the exact sequence of Write
  calls a fault-free run makes on the caller's writer (nested block output goes to buffers
  and is not part of it) and its outcome class.  The real renderer issues these writes as
  checked writes and aborts at the first failure, i.e. it runs `Writer.render` on that
  sequence (this is what the C12 correspondence validates at every fault point, and what
  the C02/C06 correspondences validate for the chunk sequence itself).  Hence, for EVERY
  registry, template, data, fuel, and EVERY writer obeying the io.Writer contract:
-/
import SoyVerif.Props.C12
import SoyVerif.Model.Eval

namespace SoyVerif.Props.C12
open SoyVerif SoyVerif.Model SoyVerif.Model.Writer SoyVerif.Model.Eval

/-- a render of template `name` against writer `w` started in writer state `s`:
    what the writer accepted, and whether the render returns nil -/
def renderW {σ : Type} (w : Writer σ) (g : GEnv) (name : Bytes) (data : Frame) (fuel : Nat) (s : σ) : Bytes × Bool :=
  let o := execute g name data fuel
  let r := render w o.chunks s []
  (r.accepted, r.ok && o.cls == Cls.ok)

/-- nil error ⇒ the interpreter succeeded AND every byte of its output was accepted -/
theorem exec_nil_implies_all_accepted {σ : Type} (w : Writer σ) (hc : Contract w)
    (g : GEnv) (name : Bytes) (data : Frame) (fuel : Nat) (s : σ)
    (h : (renderW w g name data fuel s).2 = true) :
    (execute g name data fuel).cls = Cls.ok ∧
    (renderW w g name data fuel s).1 = (execute g name data fuel).chunks.flatten := by
  unfold renderW at h ⊢
  simp only [Bool.and_eq_true, beq_iff_eq] at h
  exact ⟨h.2, nil_error_implies_all_accepted w hc _ s h.1⟩

/-- whatever fails — a write or the template itself — the accepted bytes are a prefix of
    what the fault-free run writes -/
theorem exec_accepted_is_prefix {σ : Type} (w : Writer σ) (hc : Contract w)
    (g : GEnv) (name : Bytes) (data : Frame) (fuel : Nat) (s : σ) :
    ∃ tail, (renderW w g name data fuel s).1 ++ tail = (execute g name data fuel).chunks.flatten :=
  accepted_is_prefix w hc _ s

end SoyVerif.Props.C12
