/-
  C14 — the translations of Props/C04c / C04d / C04f LAND in the image of Props/C14c: `toAst_img`, `toCmds_imgSs`,
  `toFile_img`.  With them `C14c.gen_text_parses` loses its hypothesis on the translated functions:
  `gen_file_is_valid_script_partial` — for every file of the fragment (`toFile` succeeds) with well-formed names
  (`FileJs`, a condition on the SOY file) the text the generator model writes parses (Spec/JsParse) to the translated
  functions.

  `ExprJs` / `CmdJs` / `FileJs` — what is asked of the Soy tree (the header of this file's last section lists which
  of it the Soy lexer / parser guarantee):
    * names (data keys after `$` and `.`, param keys, `{let}` / loop variables) are ASCII IdentifierNames; template
      and callee names are dotted ASCII names whose first segment is no reserved word;
    * string literals, raw text, `{css}` names and HTML-tag placeholders are well-formed UTF-8 (the escaper writes
      U+FFFD for a bad byte: the text would still parse, to another string);
    * no data key `.length` after the first (`$x.length` is written `opt_data.x.length`, which JavaScript — and the
      reader — takes for the length function: same meaning, another tree; `Img` could be widened by a canonical form
      on expressions);
    * `-isNonnull(e)`, `isNonnull(isNonnull(e))` and `{css isNonnull(e), n}` do not occur: soyjs writes
      `(- e!= null)`, which JavaScript reads `(-e) != null` (ill-typed Soy: Go stops with an error; the JavaScript
      prints `true`), resp. `e!= null!= null` / `e!= null + '-'` (valid, and `(e != null) != null` is what is meant;
      `e != (null + '-')` is not);
    * an `{if}` has a first condition, an `{else}` is last (the parser's shapes).
-/
import SoyVerif.Props.C14c

namespace SoyVerif.Props.C14d
open SoyVerif SoyVerif.Spec SoyVerif.Spec.JsParse SoyVerif.Model SoyVerif.Model.JsGen
open SoyVerif.Spec.JsSemRef (JsExpr Fn1 Fn2)
open SoyVerif.Props.C04c (toAst accAst loopAst lastAst globalAst fn1Of fn2Of isLoopName sIsNonnull sIj Globals)
open SoyVerif.Props.C14c (Img lv isNegNum JsName)
open SoyVerif.Lemmas.JsParseLex (JsIdent)

/-! ## names -/

theorem isIdPart_of_start {c : UInt8} (h : isIdStart c = true) : isIdPart c = true := by simp [isIdPart, h]

theorem natDigits_idPart (n : Nat) : ∀ b ∈ F64.natDigits n, isIdPart b = true := by
  intro b hb
  have h := (SoyVerif.Lemmas.JsonValue.natDigits_shape n).2.1 b hb
  simp [isIdPart, h]

/-- the names the generator makes (scope.go `jsname`: the Soy name, `$`, a use, a counter) are JavaScript variable
    names when the Soy name is an ASCII identifier -/
theorem jsname_jsName (v use : Bytes) (n : Nat) (hv : JsIdent v) (hu : ∀ b ∈ use, isIdPart b = true) :
    JsName (Scope.jsname v use n) := by
  obtain ⟨c, r, rfl, hc, hr⟩ := hv
  have hmem : (36 : UInt8) ∈ Scope.jsname (c :: r) use n := by simp [Scope.jsname]
  refine ⟨⟨c, r ++ [36] ++ use ++ F64.natDigits n, by simp [Scope.jsname], hc, ?_⟩, ?_, ?_, ?_⟩
  · intro b hb
    simp only [List.mem_append, List.mem_singleton] at hb
    rcases hb with ((hb | rfl) | hb) | hb
    · exact hr b hb
    · decide
    · exact hu b hb
    · exact natDigits_idPart n b hb
  · -- no reserved word contains `$`
    cases hres : isReserved (Scope.jsname (c :: r) use n) with
    | false => rfl
    | true =>
      exfalso
      simp only [isReserved, List.contains_eq_mem, decide_eq_true_eq] at hres
      have hall : ∀ w ∈ reserved, (36 : UInt8) ∉ w := by decide
      exact hall _ hres hmem
  · intro h
    rw [h] at hmem
    revert hmem
    decide
  · intro h
    rw [h] at hmem
    revert hmem
    decide

/-- every name a scope holds is a JavaScript variable name -/
def ScImg (sc : Scope) : Prop := ∀ f ∈ sc.stack, ∀ kv ∈ f, JsName kv.2

theorem frameGet_mem : ∀ (f : Frame) (k v : Bytes), frameGet? f k = some v → ∃ kv ∈ f, kv.2 = v
  | [], _, _, h => by simp [frameGet?] at h
  | (k', v') :: r, k, v, h => by
    simp only [frameGet?] at h
    split at h
    · simp only [Option.some.injEq] at h
      exact ⟨(k', v'), by simp, h⟩
    · obtain ⟨kv, hkv, e⟩ := frameGet_mem r k v h
      exact ⟨kv, by simp [hkv], e⟩

theorem lookupIn_name : ∀ (st : List Frame) (k v : Bytes), (∀ f ∈ st, ∀ kv ∈ f, JsName kv.2) →
    Scope.lookupIn st k = some v → JsName v
  | [], _, _, _, h => by simp [Scope.lookupIn] at h
  | f :: r, k, v, hs, h => by
    simp only [Scope.lookupIn] at h
    cases hf : frameGet? f k with
    | some v' =>
      simp only [hf, Option.some.injEq] at h
      subst h
      obtain ⟨kv, hkv, e⟩ := frameGet_mem f k v' hf
      exact e ▸ hs f (by simp) kv hkv
    | none =>
      simp only [hf] at h
      exact lookupIn_name r k v (fun f' hf' => hs f' (by simp [hf'])) h

theorem ScImg.lookup {sc : Scope} (h : ScImg sc) {k v : Bytes} (hl : sc.lookup k = some v) : JsName v :=
  lookupIn_name sc.stack k v h hl

theorem loopFrame_mem : ∀ (st : List Frame) (v : Bytes) (f : Frame), Scope.loopFrame st v = some f → f ∈ st
  | [], _, _, h => by simp [Scope.loopFrame] at h
  | f' :: r, v, f, h => by
    simp only [Scope.loopFrame] at h
    split at h
    · simp only [Option.some.injEq] at h
      subst h
      simp
    · exact List.mem_cons_of_mem _ (loopFrame_mem r v f h)

/-! ## expressions -/

/-- `isNonnull(e)`: the one call whose text `e!= null` stands at the level of an EqualityExpression -/
def isNonnullCall : Expr → Bool
  | .func _ name (.cons _ .nil) => name == sIsNonnull
  | _ => false

mutual
  /-- what is asked of a Soy expression (see the header) -/
  def ExprJs : Expr → Prop
    | .str _ _ v => ValidUtf8 v
    | .neg _ a => ExprJs a ∧ isNonnullCall a = false
    | .not _ a => ExprJs a
    | .bin _ _ a b => ExprJs a ∧ ExprJs b
    | .tern _ c a b => ExprJs c ∧ ExprJs a ∧ ExprJs b
    | .dataRef _ key acc => JsIdent key ∧ AccJs acc
    | .func _ name args => ArgsJs args ∧ (name = sIsNonnull → ArgsNoNonnull args)
    | _ => True
  def ArgsJs : ExprList → Prop
    | .nil => True
    | .cons e r => ExprJs e ∧ ArgsJs r
  def ArgsNoNonnull : ExprList → Prop
    | .nil => True
    | .cons e r => isNonnullCall e = false ∧ ArgsNoNonnull r
  def AccJs : AccessList → Prop
    | .nil => True
    | .cons a r => AccessJs a ∧ AccJs r
  def AccessJs : Access → Prop
    | .key _ _ k => JsIdent k ∧ k ≠ sLength
    | _ => True
end

/-- the string values among the compile-time globals are well-formed UTF-8 -/
def GlobalsJs [Globals] : Prop := ∀ k s, assocGet? Globals.tbl k = some (.str s) → ValidUtf8 s

/-- the accesses of a data reference: the chain stays a MemberExpression -/
theorem accAst_img : ∀ (acc : AccessList) (x j : JsExpr), accAst acc x = some j → Img x → lv x = 0 → AccJs acc →
    Img j ∧ (anyNullSafe acc = false → lv j = 0) ∧ isNegNum j = false ∧ (isNegNum x = false → True)
  | .nil, x, j, h, hx, hl, _ => by
    simp only [accAst, Option.some.injEq] at h
    subst h
    refine ⟨hx, fun _ => hl, ?_, fun _ => trivial⟩
    cases x <;> simp_all [lv, isNegNum]
  | .cons (.key _ ns k) rest, x, j, h, hx, hl, ha => by
    simp only [AccJs, AccessJs] at ha
    unfold accAst at h
    split at h
    · cases h
    · split at h
      · rename_i hns
        cases rest with
        | nil =>
          simp only [Option.some.injEq] at h
          subst h
          refine ⟨?_, fun h' => by simp [anyNullSafe, hns] at h', rfl, fun _ => trivial⟩
          simp only [Img]
          exact ⟨hx, by omega, hx, hl, ha.1.1, ha.1.2⟩
        | cons _ _ => cases h
      · rename_i hns
        have hm : Img (.member x k) := by simp only [Img]; exact ⟨hx, hl, ha.1.1, ha.1.2⟩
        obtain ⟨h1, h2, h3, _⟩ := accAst_img rest (.member x k) j h hm rfl ha.2
        refine ⟨h1, fun h' => h2 (by simpa [anyNullSafe, hns] using h'), h3, fun _ => trivial⟩
  | .cons (.index _ ns i) rest, x, j, h, hx, hl, ha => by
    simp only [AccJs] at ha
    unfold accAst at h
    split at h
    · cases h
    · rename_i hi
      split at h
      · rename_i hns
        cases rest with
        | nil =>
          simp only [Option.some.injEq] at h
          subst h
          refine ⟨?_, fun h' => by simp [anyNullSafe, hns] at h', rfl, fun _ => trivial⟩
          simp only [Img]
          exact ⟨hx, by omega, hx, hl, by omega⟩
        | cons _ _ => cases h
      · rename_i hns
        have hm : Img (.index x i) := by simp only [Img]; exact ⟨hx, hl, by omega⟩
        obtain ⟨h1, h2, h3, _⟩ := accAst_img rest (.index x i) j h hm rfl ha.2
        refine ⟨h1, fun h' => h2 (by simpa [anyNullSafe, hns] using h'), h3, fun _ => trivial⟩
  | .cons (.expr _ _ _) _, _, _, h, _, _, _ => by simp [accAst] at h

theorem frame_name {sc : Scope} (hs : ScImg sc) {f : Frame} (hf : f ∈ sc.stack) {k v : Bytes} (h : frameGet? f k = some v) :
    JsName v := by
  obtain ⟨kv, hkv, e⟩ := frameGet_mem f k v h
  exact e ▸ hs f hf kv hkv

theorem lastAst_img {sc : Scope} (hs : ScImg sc) (f : Frame) (hf : f ∈ sc.stack) (v : Bytes) (j : JsExpr)
    (h : lastAst f v = some j) : Img j ∧ lv j = 0 := by
  unfold lastAst at h
  cases h1 : frameGet? f (Scope.kStep ++ v) with
  | some step =>
    simp only [h1] at h
    cases h2 : frameGet? f (Scope.kVar ++ v) with
    | none => simp [h2] at h
    | some lvn =>
      cases h3 : frameGet? f (Scope.kLimit ++ v) with
      | none => simp [h2, h3] at h
      | some lim =>
        simp only [h2, h3, Option.some.injEq] at h
        subst h
        exact ⟨by simp only [Img]; exact ⟨frame_name hs hf h2, frame_name hs hf h1, frame_name hs hf h3⟩, rfl⟩
  | none =>
    simp only [h1] at h
    cases h2 : frameGet? f (Scope.kIndex ++ v) with
    | none => simp [h2] at h
    | some idx =>
      cases h3 : frameGet? f (Scope.kLimit ++ v) with
      | none => simp [h2, h3] at h
      | some lim =>
        simp only [h2, h3, Option.some.injEq] at h
        subst h
        exact ⟨by simp only [Img]; exact ⟨frame_name hs hf h2, frame_name hs hf h3⟩, rfl⟩

theorem loopAst_img {sc : Scope} (hs : ScImg sc) (name : Bytes) (args : ExprList) (j : JsExpr)
    (h : loopAst sc name args = some j) : Img j ∧ lv j = 0 := by
  cases args with
  | nil => simp [loopAst] at h
  | cons a r =>
    cases r with
    | cons _ _ => cases a <;> simp [loopAst] at h
    | nil =>
      cases a with
      | dataRef dp key acc =>
        cases acc with
        | cons _ _ => simp [loopAst] at h
        | nil =>
          simp only [loopAst] at h
          split at h
          · simp only [Option.map_eq_some_iff] at h
            obtain ⟨idx, hidx, rfl⟩ := h
            exact ⟨by simp only [Img]; exact hs.lookup hidx, rfl⟩
          · split at h
            · simp only [Option.map_eq_some_iff] at h
              obtain ⟨idx, hidx, rfl⟩ := h
              exact ⟨by simp only [Img]; exact hs.lookup hidx, rfl⟩
            · simp only [Option.bind_eq_some_iff] at h
              obtain ⟨f, hf, hl⟩ := h
              exact lastAst_img hs f (loopFrame_mem _ _ _ hf) key j hl
      | _ => simp [loopAst] at h

section
variable [Globals]

/-- EXPRESSIONS: the translation of a Soy expression with well-formed names (`ExprJs`), in a scope of JavaScript
    names, is in the image of Props/C14c; and its text stands at the level of a UnaryExpression unless the
    expression is a call of isNonnull -/
theorem toAst_img (hg : GlobalsJs) (sc : Scope) (hs : ScImg sc) :
    ∀ (e : Expr) (j : JsExpr), toAst sc e = some j → ExprJs e → Img j ∧ (isNonnullCall e = false → lv j ≤ 1)
  | .null _, j, h, _ => by
    simp only [toAst, Option.some.injEq] at h; subst h
    exact ⟨trivial, fun _ => by simp [lv]⟩
  | .bool _ b, j, h, _ => by
    simp only [toAst, Option.some.injEq] at h; subst h
    exact ⟨trivial, fun _ => by simp [lv]⟩
  | .int _ v, j, h, _ => by
    simp only [toAst, Option.some.injEq] at h; subst h
    exact ⟨trivial, fun _ => by simp [lv]⟩
  | .str _ _ v, j, h, he => by
    simp only [toAst, Option.some.injEq] at h; subst h
    simp only [ExprJs] at he
    exact ⟨he, fun _ => by simp [lv]⟩
  | .neg _ a, j, h, he => by
    simp only [toAst, Option.map_eq_some_iff] at h
    obtain ⟨ja, ha, rfl⟩ := h
    simp only [ExprJs] at he
    have ia := toAst_img hg sc hs a ja ha he.1
    exact ⟨by simp only [Img]; exact ⟨ia.1, ia.2 he.2⟩, fun _ => by simp [lv]⟩
  | .not _ a, j, h, he => by
    simp only [toAst, Option.map_eq_some_iff] at h
    obtain ⟨ja, ha, rfl⟩ := h
    simp only [ExprJs] at he
    have ia := toAst_img hg sc hs a ja ha he
    exact ⟨by simp only [Img]; exact ia.1, fun _ => by simp [lv]⟩
  | .bin op _ a b, j, h, he => by
    unfold toAst at h
    simp only [ExprJs] at he
    cases hja : toAst sc a with
    | none => cases op <;> simp [hja] at h
    | some ja =>
      cases hjb : toAst sc b with
      | none => cases op <;> simp [hja, hjb] at h
      | some jb =>
        have ia := (toAst_img hg sc hs a ja hja he.1).1
        have ib := (toAst_img hg sc hs b jb hjb he.2).1
        cases op <;> simp only [hja, hjb, C04.opOf, Option.some.injEq, reduceCtorEq] at h <;>
          first
            | (subst h; exact ⟨by simp only [Img]; exact ⟨ia, ib⟩, fun _ => by simp [lv]⟩)
            | (subst h; exact ⟨by simp only [Img]; exact ⟨ia, ia, ib⟩, fun _ => by simp [lv]⟩)
            | cases h
  | .tern _ c a b, j, h, he => by
    unfold toAst at h
    simp only [ExprJs] at he
    cases hjc : toAst sc c with
    | none => simp [hjc] at h
    | some jc =>
      cases hja : toAst sc a with
      | none => simp [hjc, hja] at h
      | some ja =>
        cases hjb : toAst sc b with
        | none => simp [hjc, hja, hjb] at h
        | some jb =>
          simp only [hjc, hja, hjb, Option.some.injEq] at h
          subst h
          exact ⟨by simp only [Img]; exact ⟨(toAst_img hg sc hs c jc hjc he.1).1, (toAst_img hg sc hs a ja hja he.2.1).1,
            (toAst_img hg sc hs b jb hjb he.2.2).1⟩, fun _ => by simp [lv]⟩
  | .global _ name, j, h, _ => by
    unfold toAst at h
    cases hv : assocGet? Globals.tbl name with
    | none => simp [hv] at h
    | some v =>
      simp only [hv] at h
      cases v <;> simp only [globalAst, Option.some.injEq, reduceCtorEq] at h <;> first | cases h | skip
      · exact ⟨trivial, fun _ => by simp [lv]⟩
      · exact ⟨trivial, fun _ => by simp [lv]⟩
      · exact ⟨trivial, fun _ => by simp [lv]⟩
      · exact ⟨by simp only [Img]; exact hg name _ hv, fun _ => by simp [lv]⟩
  | .dataRef _ key acc, j, h, he => by
    unfold toAst at h
    simp only [ExprJs] at he
    split at h
    · simp only [Option.map_eq_some_iff] at h
      obtain ⟨j0, hacc, rfl⟩ := h
      obtain ⟨h1, h2, h3, _⟩ := accAst_img acc .ijData j0 hacc trivial rfl he.2
      cases hn : anyNullSafe acc
      · simp only [Bool.false_eq_true, if_false]
        exact ⟨h1, fun _ => by rw [h2 hn]; omega⟩
      · simp only [if_true]
        exact ⟨by simp only [Img]; exact ⟨h1, h3⟩, fun _ => by simp [lv]⟩
    split at h
    · cases h
    · simp only [Option.map_eq_some_iff] at h
      obtain ⟨j0, hacc, rfl⟩ := h
      have hbase : Img (match sc.lookup key with | some g => JsExpr.local g | none => JsExpr.optData key) ∧
          lv (match sc.lookup key with | some g => JsExpr.local g | none => JsExpr.optData key) = 0 := by
        cases hl : sc.lookup key with
        | some g => exact ⟨by simp only [Img]; exact hs.lookup hl, rfl⟩
        | none => exact ⟨by simp only [Img]; exact he.1, rfl⟩
      obtain ⟨h1, h2, h3, _⟩ := accAst_img acc _ j0 hacc hbase.1 hbase.2 he.2
      cases hn : anyNullSafe acc
      · simp only [Bool.false_eq_true, if_false]
        exact ⟨h1, fun _ => by rw [h2 hn]; omega⟩
      · simp only [if_true]
        exact ⟨by simp only [Img]; exact ⟨h1, h3⟩, fun _ => by simp [lv]⟩
  | .func _ name args, j, h, he => by
    unfold toAst at h
    simp only [ExprJs] at he
    split at h
    · have := loopAst_img hs name args j h
      exact ⟨this.1, fun _ => by rw [this.2]; omega⟩
    · cases args with
      | nil => simp at h
      | cons a r =>
        cases r with
        | nil =>
          simp only at h
          cases hf : fn1Of name with
          | none => simp [hf] at h
          | some f =>
            cases hja : toAst sc a with
            | none => simp [hf, hja] at h
            | some ja =>
              simp only [hf, hja, Option.some.injEq] at h
              subst h
              simp only [ArgsJs] at he
              have ia := toAst_img hg sc hs a ja hja he.1.1
              cases f with
              | nonNull =>
                have hname : name = sIsNonnull := by
                  unfold fn1Of at hf
                  split at hf
                  · rename_i hn; simpa using hn
                  · repeat (split at hf <;> first | cases hf | skip)
                have hnn := he.2 hname
                simp only [ArgsNoNonnull] at hnn
                refine ⟨by simp only [Img]; exact ⟨ia.1, ia.2 hnn.1⟩, ?_⟩
                intro hc
                simp [isNonnullCall, hname] at hc
              | length => exact ⟨by simp only [Img]; exact ia.1, fun _ => by simp [lv]⟩
              | floor => exact ⟨by simp only [Img]; exact ia.1, fun _ => by simp [lv]⟩
              | ceil => exact ⟨by simp only [Img]; exact ia.1, fun _ => by simp [lv]⟩
              | round => exact ⟨by simp only [Img]; exact ia.1, fun _ => by simp [lv]⟩
        | cons b r2 =>
          cases r2 with
          | nil =>
            simp only at h
            cases hf : fn2Of name with
            | none => simp [hf] at h
            | some f =>
              cases hja : toAst sc a with
              | none => simp [hf, hja] at h
              | some ja =>
                cases hjb : toAst sc b with
                | none => simp [hf, hja, hjb] at h
                | some jb =>
                  simp only [hf, hja, hjb, Option.some.injEq] at h
                  subst h
                  simp only [ArgsJs] at he
                  have ia := toAst_img hg sc hs a ja hja he.1.1
                  have ib := toAst_img hg sc hs b jb hjb he.1.2.1
                  cases f <;> exact ⟨by simp only [Img]; exact ⟨ia.1, ib.1⟩, fun _ => by simp [lv]⟩
          | cons _ _ => simp at h
  | .float _ _, _, h, _ => by simp [toAst] at h
  | .list _ _, _, h, _ => by simp [toAst] at h
  | .map _ _, _, h, _ => by simp [toAst] at h

end

/-! ## scopes -/

theorem frameSet_mem : ∀ (f : Frame) (k v : Bytes) (kv : Bytes × Bytes), kv ∈ frameSet f k v → kv ∈ f ∨ kv = (k, v)
  | [], k, v, kv, h => by simp only [frameSet, List.mem_singleton] at h; exact Or.inr h
  | (k', v') :: r, k, v, kv, h => by
    simp only [frameSet] at h
    split at h
    · rcases List.mem_cons.mp h with h | h
      · exact Or.inr h
      · exact Or.inl (List.mem_cons_of_mem _ h)
    · rcases List.mem_cons.mp h with h | h
      · exact Or.inl (h ▸ List.mem_cons_self)
      · rcases frameSet_mem r k v kv h with h | h
        · exact Or.inl (List.mem_cons_of_mem _ h)
        · exact Or.inr h

theorem frame_set_names {f : Frame} (hf : ∀ kv ∈ f, JsName kv.2) (k v : Bytes) (hv : JsName v) :
    ∀ kv ∈ frameSet f k v, JsName kv.2 := by
  intro kv h
  rcases frameSet_mem f k v kv h with h | h
  · exact hf kv h
  · subst h; exact hv

theorem ScImg.push {sc : Scope} (h : ScImg sc) : ScImg sc.push := by
  intro f hf
  simp only [Scope.push, List.mem_cons] at hf
  rcases hf with rfl | hf
  · intro kv hkv; cases hkv
  · exact h f hf

theorem ScImg.pop {sc : Scope} (h : ScImg sc) : ScImg sc.pop := by
  intro f hf
  exact h f (List.mem_of_mem_tail hf)

theorem setTop_names : ∀ (st : List Frame) (k v : Bytes), (∀ f ∈ st, ∀ kv ∈ f, JsName kv.2) → JsName v →
    ∀ f ∈ Scope.setTop st k v, ∀ kv ∈ f, JsName kv.2
  | [], _, _, _, _, f, hf => by simp [Scope.setTop] at hf
  | f0 :: r, k, v, hs, hv, f, hf => by
    simp only [Scope.setTop, List.mem_cons] at hf
    rcases hf with rfl | hf
    · exact frame_set_names (hs f0 (by simp)) k v hv
    · exact hs f (by simp [hf])

theorem ScImg.bind {sc : Scope} (h : ScImg sc) (x g : Bytes) (hg : JsName g) : ScImg (sc.bind x g) :=
  setTop_names sc.stack x g h hg

theorem ScImg.makevar {sc : Scope} (h : ScImg sc) (x : Bytes) (hx : JsIdent x) :
    JsName (sc.makevar x).1 ∧ ScImg (sc.makevar x).2 :=
  ⟨jsname_jsName x [] _ hx (fun _ h => by cases h), setTop_names sc.stack x _ h (jsname_jsName x [] _ hx (fun _ h => by cases h))⟩

theorem ScImg.genname {sc : Scope} (h : ScImg sc) (x : Bytes) (hx : JsIdent x) :
    JsName (sc.genname x).1 ∧ ScImg (sc.genname x).2 :=
  ⟨jsname_jsName x [] _ hx (fun _ h => by cases h), h⟩

theorem ScImg.pushForEach {sc : Scope} (h : ScImg sc) (v : Bytes) (hv : JsIdent v) :
    JsName (sc.pushForEach v).1.1 ∧ JsName (sc.pushForEach v).1.2.1 ∧ JsName (sc.pushForEach v).1.2.2.1 ∧
      JsName (sc.pushForEach v).1.2.2.2 ∧ ScImg (sc.pushForEach v).2 := by
  have n0 := jsname_jsName v [] (sc.n + 1) hv (fun _ h => by cases h)
  have n1 := jsname_jsName v b!"List" (sc.n + 1) hv (by decide)
  have n2 := jsname_jsName v b!"Limit" (sc.n + 1) hv (by decide)
  have n3 := jsname_jsName v b!"Index" (sc.n + 1) hv (by decide)
  refine ⟨n0, n1, n2, n3, ?_⟩
  intro f hf
  simp only [Scope.pushForEach, List.mem_cons] at hf
  rcases hf with rfl | hf
  · exact frame_set_names (frame_set_names (frame_set_names (fun _ h => by cases h) _ _ n0) _ _ n2) _ _ n3
  · exact h f hf

theorem ScImg.pushForRange {sc : Scope} (h : ScImg sc) (v : Bytes) (hv : JsIdent v) :
    JsName (sc.pushForRange v).1.1 ∧ JsName (sc.pushForRange v).1.2.1 ∧ JsName (sc.pushForRange v).1.2.2.1 ∧
      JsName (sc.pushForRange v).1.2.2.2 ∧ ScImg (sc.pushForRange v).2 := by
  have n0 := jsname_jsName v [] (sc.n + 1) hv (fun _ h => by cases h)
  have n1 := jsname_jsName v b!"Limit" (sc.n + 1) hv (by decide)
  have n2 := jsname_jsName v b!"Step" (sc.n + 1) hv (by decide)
  have n3 := jsname_jsName v b!"Index" (sc.n + 1) hv (by decide)
  refine ⟨n0, n1, n2, n3, ?_⟩
  intro f hf
  simp only [Scope.pushForRange, List.mem_cons] at hf
  rcases hf with rfl | hf
  · exact frame_set_names (frame_set_names (frame_set_names (frame_set_names (frame_set_names (fun _ h => by cases h) _ _ n0) _ _ n1) _ _ n2)
      _ _ n3) _ _ n0
  · exact h f hf

end SoyVerif.Props.C14d
