/-
  C14 — the translations of Props/C04c / C04d / C04f LAND in the image of Props/C14c: `toAst_img`, `toCmds_imgSs`,
  `toFile_img`.  With them `C14c.gen_text_parses` loses its hypothesis on the translated functions:
  `gen_file_is_valid_script_partial` — for every file of the fragment (`toFile` succeeds) with well-formed names
  (`FileJs`, a condition on the SOY file) the text the generator model writes parses (Spec/JsParse) to the translated
  functions.

  `ExprJs` / `CmdJs` / `FileJs` — what is asked of the Soy tree (the header of this file's last section lists which
  of it the Soy lexer / parser guarantee):
    * names (data keys after `$` and `.`, param keys, `{let}` / loop variables) are ASCII IdentifierNames; template
      and callee names are dotted ASCII names whose first segment is no reserved word;
    * string literals, raw text, `{css}` names and HTML-tag placeholders are well-formed UTF-8 (the escaper writes
      U+FFFD for a bad byte: the text would still parse, to another string);
    * a data key `.length` needs no condition any more (`$x.length` is written `opt_data.x.length` and read as the
      member access; the length FUNCTION is `(x).length` since soyjs 0a4b4eb and only that is read as the function) —
      except where the VALUE of a `{let $y: …}`, the list of a `{foreach}` or the limit of a `range(…)` is exactly
      `$v.length` (`isVarLength`): if `$v` is a local variable the statement is `var y$2 = v$1.length;`, the text of the
      loop statement `varLength` (the length of a LIST; the key `length` of a MAP has another meaning in Spec/JsStmt, so
      the two are not identified by a canonical form);
    * (`-isNonnull(e)`, `isNonnull(isNonnull(e))`, `{css isNonnull(e), n}` needed excluding before soyjs a5155c6 —
      `e!= null` was a bare comparison, and `{css isNonnull($x), n}` printed `truen` for Go's `true-n`; isNonnull is
      `(e != null)` now and these are in the image);
    * an `{if}` has a first condition, an `{else}` is last (the parser's shapes).
-/
import SoyVerif.Props.C14c

namespace SoyVerif.Props.C14d
open SoyVerif SoyVerif.Spec SoyVerif.Spec.JsParse SoyVerif.Model SoyVerif.Model.JsGen
open SoyVerif.Spec.JsSemRef (JsExpr Fn1 Fn2)
open SoyVerif.Props.C04c (toAst accAst loopAst lastAst globalAst fn1Of fn2Of isLoopName sIsNonnull sIj Globals)
open SoyVerif.Props.C14c (Img lv isNegNum JsName isParenPE plain)
open SoyVerif.Lemmas.JsParseLex (JsIdent)

/-! ## names -/

theorem isIdPart_of_start {c : UInt8} (h : isIdStart c = true) : isIdPart c = true := by simp [isIdPart, h]

theorem natDigits_idPart (n : Nat) : ∀ b ∈ F64.natDigits n, isIdPart b = true := by
  intro b hb
  have h := (SoyVerif.Lemmas.JsonValue.natDigits_shape n).2.1 b hb
  simp [isIdPart, h]

/-- the names the generator makes (scope.go `jsname`: the Soy name, `$`, a use, a counter) are JavaScript variable
    names when the Soy name is an ASCII identifier -/
theorem jsname_jsName (v use : Bytes) (n : Nat) (hv : JsIdent v) (hu : ∀ b ∈ use, isIdPart b = true) :
    JsName (Scope.jsname v use n) := by
  obtain ⟨c, r, rfl, hc, hr⟩ := hv
  have hmem : (36 : UInt8) ∈ Scope.jsname (c :: r) use n := by simp [Scope.jsname]
  refine ⟨⟨c, r ++ [36] ++ use ++ F64.natDigits n, by simp [Scope.jsname], hc, ?_⟩, ?_, ?_, ?_⟩
  · intro b hb
    simp only [List.mem_append, List.mem_singleton] at hb
    rcases hb with ((hb | rfl) | hb) | hb
    · exact hr b hb
    · decide
    · exact hu b hb
    · exact natDigits_idPart n b hb
  · -- no reserved word contains `$`
    cases hres : isReserved (Scope.jsname (c :: r) use n) with
    | false => rfl
    | true =>
      exfalso
      simp only [isReserved, List.contains_eq_mem, decide_eq_true_eq] at hres
      have hall : ∀ w ∈ reserved, (36 : UInt8) ∉ w := by decide
      exact hall _ hres hmem
  · intro h
    rw [h] at hmem
    revert hmem
    decide
  · intro h
    rw [h] at hmem
    revert hmem
    decide

/-- every name a scope holds is a JavaScript variable name -/
def ScImg (sc : Scope) : Prop := ∀ f ∈ sc.stack, ∀ kv ∈ f, JsName kv.2

theorem frameGet_mem : ∀ (f : Frame) (k v : Bytes), frameGet? f k = some v → ∃ kv ∈ f, kv.2 = v
  | [], _, _, h => by simp [frameGet?] at h
  | (k', v') :: r, k, v, h => by
    simp only [frameGet?] at h
    split at h
    · simp only [Option.some.injEq] at h
      exact ⟨(k', v'), by simp, h⟩
    · obtain ⟨kv, hkv, e⟩ := frameGet_mem r k v h
      exact ⟨kv, by simp [hkv], e⟩

theorem lookupIn_name : ∀ (st : List Frame) (k v : Bytes), (∀ f ∈ st, ∀ kv ∈ f, JsName kv.2) →
    Scope.lookupIn st k = some v → JsName v
  | [], _, _, _, h => by simp [Scope.lookupIn] at h
  | f :: r, k, v, hs, h => by
    simp only [Scope.lookupIn] at h
    cases hf : frameGet? f k with
    | some v' =>
      simp only [hf, Option.some.injEq] at h
      subst h
      obtain ⟨kv, hkv, e⟩ := frameGet_mem f k v' hf
      exact e ▸ hs f (by simp) kv hkv
    | none =>
      simp only [hf] at h
      exact lookupIn_name r k v (fun f' hf' => hs f' (by simp [hf'])) h

theorem ScImg.lookup {sc : Scope} (h : ScImg sc) {k v : Bytes} (hl : sc.lookup k = some v) : JsName v :=
  lookupIn_name sc.stack k v h hl

theorem loopFrame_mem : ∀ (st : List Frame) (v : Bytes) (f : Frame), Scope.loopFrame st v = some f → f ∈ st
  | [], _, _, h => by simp [Scope.loopFrame] at h
  | f' :: r, v, f, h => by
    simp only [Scope.loopFrame] at h
    split at h
    · simp only [Option.some.injEq] at h
      subst h
      simp
    · exact List.mem_cons_of_mem _ (loopFrame_mem r v f h)

/-! ## expressions -/

mutual
  /-- what is asked of a Soy expression (see the header) -/
  def ExprJs : Expr → Prop
    | .str _ _ v => ValidUtf8 v
    | .neg _ a => ExprJs a
    | .not _ a => ExprJs a
    | .bin _ _ a b => ExprJs a ∧ ExprJs b
    | .tern _ c a b => ExprJs c ∧ ExprJs a ∧ ExprJs b
    | .dataRef _ key acc => JsIdent key ∧ AccJs acc
    | .func _ _ args => ArgsJs args
    | _ => True
  def ArgsJs : ExprList → Prop
    | .nil => True
    | .cons e r => ExprJs e ∧ ArgsJs r
  def AccJs : AccessList → Prop
    | .nil => True
    | .cons a r => AccessJs a ∧ AccJs r
  def AccessJs : Access → Prop
    | .key _ _ k => JsIdent k
    | _ => True
end

/-- the string values among the compile-time globals are well-formed UTF-8 -/
def GlobalsJs [Globals] : Prop := ∀ k s, assocGet? Globals.tbl k = some (.str s) → ValidUtf8 s

/-- how many accesses deep a reference is -/
def depth : JsExpr → Nat
  | .member x _ => depth x + 1
  | .index x _ => depth x + 1
  | .guard _ r => depth r
  | _ => 0

def accLen : AccessList → Nat
  | .nil => 0
  | .cons _ r => accLen r + 1

theorem accAst_depth : ∀ (acc : AccessList) (x j : JsExpr), accAst acc x = some j → depth x + accLen acc ≤ depth j
  | .nil, x, j, h => by
    simp only [accAst, Option.some.injEq] at h
    subst h; simp [accLen]
  | .cons (.key _ ns k) rest, x, j, h => by
    unfold accAst at h
    split at h
    · cases h
    · split at h
      · cases rest with
        | nil =>
          simp only [Option.some.injEq] at h
          subst h; simp [accLen, depth]
        | cons _ _ => cases h
      · have := accAst_depth rest (.member x k) j h
        simp only [depth, accLen] at this ⊢
        omega
  | .cons (.index _ ns i) rest, x, j, h => by
    unfold accAst at h
    split at h
    · cases h
    · split at h
      · cases rest with
        | nil =>
          simp only [Option.some.injEq] at h
          subst h; simp [accLen, depth]
        | cons _ _ => cases h
      · have := accAst_depth rest (.index x i) j h
        simp only [depth, accLen] at this ⊢
        omega
  | .cons (.expr _ _ _) _, _, _, h => by simp [accAst] at h

/-- the accesses of a data reference: the chain stays a MemberExpression that is not written in parentheses -/
theorem accAst_img : ∀ (acc : AccessList) (x j : JsExpr), accAst acc x = some j → Img x → lv x = 0 →
    isParenPE (plain x) = false → AccJs acc →
    Img j ∧ (anyNullSafe acc = false → lv j = 0) ∧ isNegNum j = false
  | .nil, x, j, h, hx, hl, _, _ => by
    simp only [accAst, Option.some.injEq] at h
    subst h
    refine ⟨hx, fun _ => hl, ?_⟩
    cases x <;> simp_all [lv, isNegNum]
  | .cons (.key _ ns k) rest, x, j, h, hx, hl, hp, ha => by
    simp only [AccJs, AccessJs] at ha
    have hm : Img (.member x k) := by simp only [Img]; exact ⟨hx, hl, ha.1, fun _ => hp⟩
    unfold accAst at h
    split at h
    · cases h
    · split at h
      · rename_i hns
        cases rest with
        | nil =>
          simp only [Option.some.injEq] at h
          subst h
          refine ⟨?_, fun h' => by simp [anyNullSafe, hns] at h', rfl⟩
          simp only [Img] at hm ⊢
          exact ⟨hx, by omega, hm⟩
        | cons _ _ => cases h
      · rename_i hns
        obtain ⟨h1, h2, h3⟩ := accAst_img rest (.member x k) j h hm rfl rfl ha.2
        exact ⟨h1, fun h' => h2 (by simpa [anyNullSafe, hns] using h'), h3⟩
  | .cons (.index _ ns i) rest, x, j, h, hx, hl, hp, ha => by
    simp only [AccJs] at ha
    unfold accAst at h
    split at h
    · cases h
    · rename_i hi
      have hm : Img (.index x i) := by simp only [Img]; exact ⟨hx, hl, by omega⟩
      split at h
      · rename_i hns
        cases rest with
        | nil =>
          simp only [Option.some.injEq] at h
          subst h
          refine ⟨?_, fun h' => by simp [anyNullSafe, hns] at h', rfl⟩
          simp only [Img] at hm ⊢
          exact ⟨hx, by omega, hm⟩
        | cons _ _ => cases h
      · rename_i hns
        obtain ⟨h1, h2, h3⟩ := accAst_img rest (.index x i) j h hm rfl rfl ha.2
        exact ⟨h1, fun h' => h2 (by simpa [anyNullSafe, hns] using h'), h3⟩
  | .cons (.expr _ _ _) _, _, _, h, _, _, _, _ => by simp [accAst] at h

/-- `$v.length` — one plain access `.length` on a variable: as the value of a `{let}` (a loop's list, a range's limit) its
    text `var x = v$1.length;` is that of the loop statement `varLength` -/
def isVarLength : Expr → Bool
  | .dataRef _ _ (.cons (.key _ false k) .nil) => k == JsParse.sLength
  | _ => false

theorem frame_name {sc : Scope} (hs : ScImg sc) {f : Frame} (hf : f ∈ sc.stack) {k v : Bytes} (h : frameGet? f k = some v) :
    JsName v := by
  obtain ⟨kv, hkv, e⟩ := frameGet_mem f k v h
  exact e ▸ hs f hf kv hkv

theorem lastAst_img {sc : Scope} (hs : ScImg sc) (f : Frame) (hf : f ∈ sc.stack) (v : Bytes) (j : JsExpr)
    (h : lastAst f v = some j) : Img j ∧ lv j = 0 ∧ ∀ l, j ≠ .member (.local l) JsParse.sLength := by
  unfold lastAst at h
  cases h1 : frameGet? f (Scope.kStep ++ v) with
  | some step =>
    simp only [h1] at h
    cases h2 : frameGet? f (Scope.kVar ++ v) with
    | none => simp [h2] at h
    | some lvn =>
      cases h3 : frameGet? f (Scope.kLimit ++ v) with
      | none => simp [h2, h3] at h
      | some lim =>
        simp only [h2, h3, Option.some.injEq] at h
        subst h
        exact ⟨by simp only [Img]; exact ⟨frame_name hs hf h2, frame_name hs hf h1, frame_name hs hf h3⟩, rfl, fun l h => by cases h⟩
  | none =>
    simp only [h1] at h
    cases h2 : frameGet? f (Scope.kIndex ++ v) with
    | none => simp [h2] at h
    | some idx =>
      cases h3 : frameGet? f (Scope.kLimit ++ v) with
      | none => simp [h2, h3] at h
      | some lim =>
        simp only [h2, h3, Option.some.injEq] at h
        subst h
        exact ⟨by simp only [Img]; exact ⟨frame_name hs hf h2, frame_name hs hf h3⟩, rfl, fun l h => by cases h⟩

theorem loopAst_img {sc : Scope} (hs : ScImg sc) (name : Bytes) (args : ExprList) (j : JsExpr)
    (h : loopAst sc name args = some j) : Img j ∧ lv j = 0 ∧ ∀ l, j ≠ .member (.local l) JsParse.sLength := by
  cases args with
  | nil => simp [loopAst] at h
  | cons a r =>
    cases r with
    | cons _ _ => cases a <;> simp [loopAst] at h
    | nil =>
      cases a with
      | dataRef dp key acc =>
        cases acc with
        | cons _ _ => simp [loopAst] at h
        | nil =>
          simp only [loopAst] at h
          split at h
          · simp only [Option.map_eq_some_iff] at h
            obtain ⟨idx, hidx, rfl⟩ := h
            exact ⟨by simp only [Img]; exact hs.lookup hidx, rfl, fun l h => by cases h⟩
          · split at h
            · simp only [Option.map_eq_some_iff] at h
              obtain ⟨idx, hidx, rfl⟩ := h
              exact ⟨by simp only [Img]; exact hs.lookup hidx, rfl, fun l h => by cases h⟩
            · simp only [Option.bind_eq_some_iff] at h
              obtain ⟨f, hf, hl⟩ := h
              exact lastAst_img hs f (loopFrame_mem _ _ _ hf) key j hl
      | _ => simp [loopAst] at h

section
variable [Globals]

/-- EXPRESSIONS: the translation of a Soy expression with well-formed names (`ExprJs`), in a scope of JavaScript
    names, is in the image of Props/C14c; and its text stands at the level of a UnaryExpression unless the
    expression is a call of isNonnull -/
theorem toAst_img (hg : GlobalsJs) (sc : Scope) (hs : ScImg sc) :
    ∀ (e : Expr) (j : JsExpr), toAst sc e = some j → ExprJs e → Img j ∧ lv j ≤ 1 ∧ (isVarLength e = false → ∀ l, j ≠ .member (.local l) JsParse.sLength)
  | .null _, j, h, _ => by
    simp only [toAst, Option.some.injEq] at h; subst h
    exact ⟨trivial, by simp [lv], fun _ l h => by cases h⟩
  | .bool _ b, j, h, _ => by
    simp only [toAst, Option.some.injEq] at h; subst h
    exact ⟨trivial, by simp [lv], fun _ l h => by cases h⟩
  | .int _ v, j, h, _ => by
    simp only [toAst, Option.some.injEq] at h; subst h
    exact ⟨trivial, by simp [lv], fun _ l h => by cases h⟩
  | .str _ _ v, j, h, he => by
    simp only [toAst, Option.some.injEq] at h; subst h
    simp only [ExprJs] at he
    exact ⟨he, by simp [lv], fun _ l h => by cases h⟩
  | .neg _ a, j, h, he => by
    simp only [toAst, Option.map_eq_some_iff] at h
    obtain ⟨ja, ha, rfl⟩ := h
    simp only [ExprJs] at he
    have ia := toAst_img hg sc hs a ja ha he
    exact ⟨by simp only [Img]; exact ⟨ia.1, ia.2.1⟩, by simp [lv], fun _ l h => by cases h⟩
  | .not _ a, j, h, he => by
    simp only [toAst, Option.map_eq_some_iff] at h
    obtain ⟨ja, ha, rfl⟩ := h
    simp only [ExprJs] at he
    have ia := toAst_img hg sc hs a ja ha he
    exact ⟨by simp only [Img]; exact ia.1, by simp [lv], fun _ l h => by cases h⟩
  | .bin op _ a b, j, h, he => by
    unfold toAst at h
    simp only [ExprJs] at he
    cases hja : toAst sc a with
    | none => cases op <;> simp [hja] at h
    | some ja =>
      cases hjb : toAst sc b with
      | none => cases op <;> simp [hja, hjb] at h
      | some jb =>
        have ia := (toAst_img hg sc hs a ja hja he.1).1
        have ib := (toAst_img hg sc hs b jb hjb he.2).1
        cases op <;> simp only [hja, hjb, C04.opOf, Option.some.injEq, reduceCtorEq] at h <;>
          first
            | (subst h; exact ⟨by simp only [Img]; exact ⟨ia, ib⟩, by simp [lv], fun _ l h => by cases h⟩)
            | (subst h; exact ⟨by simp only [Img]; exact ⟨ia, ia, ib⟩, by simp [lv], fun _ l h => by cases h⟩)
            | cases h
  | .tern _ c a b, j, h, he => by
    unfold toAst at h
    simp only [ExprJs] at he
    cases hjc : toAst sc c with
    | none => simp [hjc] at h
    | some jc =>
      cases hja : toAst sc a with
      | none => simp [hjc, hja] at h
      | some ja =>
        cases hjb : toAst sc b with
        | none => simp [hjc, hja, hjb] at h
        | some jb =>
          simp only [hjc, hja, hjb, Option.some.injEq] at h
          subst h
          exact ⟨by simp only [Img]; exact ⟨(toAst_img hg sc hs c jc hjc he.1).1, (toAst_img hg sc hs a ja hja he.2.1).1,
            (toAst_img hg sc hs b jb hjb he.2.2).1⟩, by simp [lv], fun _ l h => by cases h⟩
  | .global _ name, j, h, _ => by
    unfold toAst at h
    cases hv : assocGet? Globals.tbl name with
    | none => simp [hv] at h
    | some v =>
      simp only [hv] at h
      cases v <;> simp only [globalAst, Option.some.injEq, reduceCtorEq] at h <;> first | cases h | skip
      · exact ⟨trivial, by simp [lv], fun _ l h => by cases h⟩
      · exact ⟨trivial, by simp [lv], fun _ l h => by cases h⟩
      · exact ⟨trivial, by simp [lv], fun _ l h => by cases h⟩
      · exact ⟨by simp only [Img]; exact hg name _ hv, by simp [lv], fun _ l h => by cases h⟩
  | .dataRef _ key acc, j, h, he => by
    unfold toAst at h
    simp only [ExprJs] at he
    split at h
    · simp only [Option.map_eq_some_iff] at h
      obtain ⟨j0, hacc, rfl⟩ := h
      obtain ⟨h1, h2, h3⟩ := accAst_img acc .ijData j0 hacc trivial rfl rfl he.2
      cases hn : anyNullSafe acc
      · simp only [Bool.false_eq_true, if_false]
        refine ⟨h1, by rw [h2 hn]; omega, ?_⟩
        intro _ l hj
        subst hj
        have hd := accAst_depth acc .ijData _ hacc
        have hi0 : depth JsExpr.ijData = 0 := rfl
        simp only [depth] at hd
        cases acc with
        | nil => simp [accAst] at hacc
        | cons a rest =>
          cases rest with
          | cons _ _ => simp only [accLen] at hd; omega
          | nil =>
            cases a with
            | key p' ns k =>
              unfold accAst at hacc
              split at hacc
              · cases hacc
              · split at hacc
                · cases hacc
                · simp [accAst] at hacc
            | index p' ns i =>
              unfold accAst at hacc
              split at hacc
              · cases hacc
              · split at hacc <;> simp [accAst] at hacc
            | expr _ _ _ => simp [accAst] at hacc
      · simp only [if_true]
        exact ⟨by simp only [Img]; exact ⟨h1, h3⟩, by simp [lv], fun _ l h => by cases h⟩
    split at h
    · cases h
    · simp only [Option.map_eq_some_iff] at h
      obtain ⟨j0, hacc, rfl⟩ := h
      have hbase : Img (match sc.lookup key with | some g => JsExpr.local g | none => JsExpr.optData key) ∧
          lv (match sc.lookup key with | some g => JsExpr.local g | none => JsExpr.optData key) = 0 ∧
          isParenPE (plain (match sc.lookup key with | some g => JsExpr.local g | none => JsExpr.optData key)) = false ∧
          depth (match sc.lookup key with | some g => JsExpr.local g | none => JsExpr.optData key) = 0 ∧
          (∀ l, (match sc.lookup key with | some g => JsExpr.local g | none => JsExpr.optData key) ≠ .member (.local l) JsParse.sLength) := by
        cases hl : sc.lookup key with
        | some g => exact ⟨by simp only [Img]; exact hs.lookup hl, rfl, rfl, rfl, fun l h => by cases h⟩
        | none => exact ⟨by simp only [Img]; exact he.1, rfl, rfl, rfl, fun l h => by cases h⟩
      obtain ⟨h1, h2, h3⟩ := accAst_img acc _ j0 hacc hbase.1 hbase.2.1 hbase.2.2.1 he.2
      cases hn : anyNullSafe acc
      · simp only [Bool.false_eq_true, if_false]
        refine ⟨h1, by rw [h2 hn]; omega, ?_⟩
        intro hv l hj
        subst hj
        have hd := accAst_depth acc _ _ hacc
        have hb0 := hbase.2.2.2.1
        simp only [depth] at hd
        cases acc with
        | nil =>
          simp only [accAst, Option.some.injEq] at hacc
          exact hbase.2.2.2.2 l hacc
        | cons a rest =>
          cases rest with
          | cons _ _ => simp only [accLen] at hd; omega
          | nil =>
            cases a with
            | key p' ns k =>
              unfold accAst at hacc
              split at hacc
              · cases hacc
              · split at hacc
                · cases hacc
                · rename_i hns
                  simp only [accAst, Option.some.injEq, JsExpr.member.injEq] at hacc
                  have hns' : ns = false := by simpa using hns
                  subst hns'
                  simp [isVarLength, hacc.2] at hv
            | index p' ns i =>
              unfold accAst at hacc
              split at hacc
              · cases hacc
              · split at hacc <;> simp [accAst] at hacc
            | expr _ _ _ => simp [accAst] at hacc
      · simp only [if_true]
        exact ⟨by simp only [Img]; exact ⟨h1, h3⟩, by simp [lv], fun _ l h => by cases h⟩
  | .func _ name args, j, h, he => by
    unfold toAst at h
    simp only [ExprJs] at he
    split at h
    · have := loopAst_img hs name args j h
      exact ⟨this.1, by rw [this.2.1]; omega, fun _ => this.2.2⟩
    · cases args with
      | nil => simp at h
      | cons a r =>
        cases r with
        | nil =>
          simp only at h
          cases hf : fn1Of name with
          | none => simp [hf] at h
          | some f =>
            cases hja : toAst sc a with
            | none => simp [hf, hja] at h
            | some ja =>
              simp only [hf, hja, Option.some.injEq] at h
              subst h
              simp only [ArgsJs] at he
              have ia := toAst_img hg sc hs a ja hja he.1
              cases f with
              | nonNull => exact ⟨by simp only [Img]; exact ⟨ia.1, ia.2.1⟩, by simp [lv], fun _ l h => by cases h⟩
              | length => exact ⟨by simp only [Img]; exact ia.1, by simp [lv], fun _ l h => by cases h⟩
              | floor => exact ⟨by simp only [Img]; exact ia.1, by simp [lv], fun _ l h => by cases h⟩
              | ceil => exact ⟨by simp only [Img]; exact ia.1, by simp [lv], fun _ l h => by cases h⟩
              | round => exact ⟨by simp only [Img]; exact ia.1, by simp [lv], fun _ l h => by cases h⟩
        | cons b r2 =>
          cases r2 with
          | nil =>
            simp only at h
            cases hf : fn2Of name with
            | none => simp [hf] at h
            | some f =>
              cases hja : toAst sc a with
              | none => simp [hf, hja] at h
              | some ja =>
                cases hjb : toAst sc b with
                | none => simp [hf, hja, hjb] at h
                | some jb =>
                  simp only [hf, hja, hjb, Option.some.injEq] at h
                  subst h
                  simp only [ArgsJs] at he
                  have ia := toAst_img hg sc hs a ja hja he.1
                  have ib := toAst_img hg sc hs b jb hjb he.2.1
                  cases f <;> exact ⟨by simp only [Img]; exact ⟨ia.1, ib.1⟩, by simp [lv], fun _ l h => by cases h⟩
          | cons _ _ => simp at h
  | .float _ _, _, h, _ => by simp [toAst] at h
  | .list _ _, _, h, _ => by simp [toAst] at h
  | .map _ _, _, h, _ => by simp [toAst] at h

end

/-! ## scopes -/

theorem frameSet_mem : ∀ (f : Frame) (k v : Bytes) (kv : Bytes × Bytes), kv ∈ frameSet f k v → kv ∈ f ∨ kv = (k, v)
  | [], k, v, kv, h => by simp only [frameSet, List.mem_singleton] at h; exact Or.inr h
  | (k', v') :: r, k, v, kv, h => by
    simp only [frameSet] at h
    split at h
    · rcases List.mem_cons.mp h with h | h
      · exact Or.inr h
      · exact Or.inl (List.mem_cons_of_mem _ h)
    · rcases List.mem_cons.mp h with h | h
      · exact Or.inl (h ▸ List.mem_cons_self)
      · rcases frameSet_mem r k v kv h with h | h
        · exact Or.inl (List.mem_cons_of_mem _ h)
        · exact Or.inr h

theorem frame_set_names {f : Frame} (hf : ∀ kv ∈ f, JsName kv.2) (k v : Bytes) (hv : JsName v) :
    ∀ kv ∈ frameSet f k v, JsName kv.2 := by
  intro kv h
  rcases frameSet_mem f k v kv h with h | h
  · exact hf kv h
  · subst h; exact hv

theorem ScImg.push {sc : Scope} (h : ScImg sc) : ScImg sc.push := by
  intro f hf
  simp only [Scope.push, List.mem_cons] at hf
  rcases hf with rfl | hf
  · intro kv hkv; cases hkv
  · exact h f hf

theorem ScImg.pop {sc : Scope} (h : ScImg sc) : ScImg sc.pop := by
  intro f hf
  exact h f (List.mem_of_mem_tail hf)

theorem setTop_names : ∀ (st : List Frame) (k v : Bytes), (∀ f ∈ st, ∀ kv ∈ f, JsName kv.2) → JsName v →
    ∀ f ∈ Scope.setTop st k v, ∀ kv ∈ f, JsName kv.2
  | [], _, _, _, _, f, hf => by simp [Scope.setTop] at hf
  | f0 :: r, k, v, hs, hv, f, hf => by
    simp only [Scope.setTop, List.mem_cons] at hf
    rcases hf with rfl | hf
    · exact frame_set_names (hs f0 (by simp)) k v hv
    · exact hs f (by simp [hf])

theorem ScImg.bind {sc : Scope} (h : ScImg sc) (x g : Bytes) (hg : JsName g) : ScImg (sc.bind x g) :=
  setTop_names sc.stack x g h hg

theorem ScImg.makevar {sc : Scope} (h : ScImg sc) (x : Bytes) (hx : JsIdent x) :
    JsName (sc.makevar x).1 ∧ ScImg (sc.makevar x).2 :=
  ⟨jsname_jsName x [] _ hx (fun _ h => by cases h), setTop_names sc.stack x _ h (jsname_jsName x [] _ hx (fun _ h => by cases h))⟩

theorem ScImg.genname {sc : Scope} (h : ScImg sc) (x : Bytes) (hx : JsIdent x) :
    JsName (sc.genname x).1 ∧ ScImg (sc.genname x).2 :=
  ⟨jsname_jsName x [] _ hx (fun _ h => by cases h), h⟩

theorem ScImg.pushForEach {sc : Scope} (h : ScImg sc) (v : Bytes) (hv : JsIdent v) :
    JsName (sc.pushForEach v).1.1 ∧ JsName (sc.pushForEach v).1.2.1 ∧ JsName (sc.pushForEach v).1.2.2.1 ∧
      JsName (sc.pushForEach v).1.2.2.2 ∧ ScImg (sc.pushForEach v).2 := by
  have n0 := jsname_jsName v [] (sc.n + 1) hv (fun _ h => by cases h)
  have n1 := jsname_jsName v b!"List" (sc.n + 1) hv (by decide)
  have n2 := jsname_jsName v b!"Limit" (sc.n + 1) hv (by decide)
  have n3 := jsname_jsName v b!"Index" (sc.n + 1) hv (by decide)
  refine ⟨n0, n1, n2, n3, ?_⟩
  intro f hf
  simp only [Scope.pushForEach, List.mem_cons] at hf
  rcases hf with rfl | hf
  · exact frame_set_names (frame_set_names (frame_set_names (fun _ h => by cases h) _ _ n0) _ _ n2) _ _ n3
  · exact h f hf

theorem ScImg.pushForRange {sc : Scope} (h : ScImg sc) (v : Bytes) (hv : JsIdent v) :
    JsName (sc.pushForRange v).1.1 ∧ JsName (sc.pushForRange v).1.2.1 ∧ JsName (sc.pushForRange v).1.2.2.1 ∧
      JsName (sc.pushForRange v).1.2.2.2 ∧ ScImg (sc.pushForRange v).2 := by
  have n0 := jsname_jsName v [] (sc.n + 1) hv (fun _ h => by cases h)
  have n1 := jsname_jsName v b!"Limit" (sc.n + 1) hv (by decide)
  have n2 := jsname_jsName v b!"Step" (sc.n + 1) hv (by decide)
  have n3 := jsname_jsName v b!"Index" (sc.n + 1) hv (by decide)
  refine ⟨n0, n1, n2, n3, ?_⟩
  intro f hf
  simp only [Scope.pushForRange, List.mem_cons] at hf
  rcases hf with rfl | hf
  · exact frame_set_names (frame_set_names (frame_set_names (frame_set_names (frame_set_names (fun _ h => by cases h) _ _ n0) _ _ n1) _ _ n2)
      _ _ n3) _ _ n0
  · exact h f hf

/-! ## statements -/

open SoyVerif.Spec.JsStmt (JsStmt JsStmts JsConds JsCases JsPlural DataBase JsFunc)
open SoyVerif.Props.C04d
open SoyVerif.Props.C14c (ImgS ImgSs ImgConds ImgCases ImgPlural ImgParams ImgBase ImgList DirOk QName ImgF)

/-- the literal arguments of a directive are in the image (a string argument is well-formed UTF-8) -/
def DirJs (d : Directive) : Prop := ∀ a ∈ d.args, ∀ j, litAst a = some j → Img j

mutual
  /-- what is asked of a Soy command (see the header) -/
  def CmdJs : Cmd → Prop
    | .rawText _ t => ValidUtf8 t
    | .print _ arg dirs => ExprJs arg ∧ ∀ d ∈ dirs, DirJs d
    | .letValue _ x e => JsIdent x ∧ ExprJs e ∧ isVarLength e = false
    | .ifc _ conds => (match conds with | .cons _ (some _) _ _ => True | _ => False) ∧ CondsJs conds
    | .forc _ v list body ie =>
      JsIdent v ∧ (ExprJs list ∧ isVarLength list = false) ∧
        (∀ args, isRangeCall list = some args →
          (∀ l, rangeLimit args = some l → ExprJs l ∧ isVarLength l = false) ∧ ExprJs (rangeInit args)) ∧
        BlockJs body ∧ (match ie with | none => True | some b => BlockJs b)
    | .switch _ value cases => ExprJs value ∧ CasesJs cases
    | .letContent _ name body => JsIdent name ∧ BlockJs body
    | .call _ name _ data params => QName name ∧ (match data with | none => True | some e => ExprJs e) ∧ ParamsJs params
    | .css _ e suffix => ValidUtf8 suffix ∧ (match e with | none => True | some x => ExprJs x)
    | .msg _ _ _ _ _ body => PartsJs body
    | _ => True
  def PartsJs : MsgParts → Prop
    | .nil => True
    | .text _ t r => ValidUtf8 t ∧ PartsJs r
    | .ph _ _ body r => PhJs body ∧ PartsJs r
    | .plural _ _ value cases _ dflt r => ExprJs value ∧ PCasesJs cases ∧ PartsJs dflt ∧ PartsJs r
  def PCasesJs : PluralCases → Prop
    | .nil => True
    | .cons _ _ _ body rest => PartsJs body ∧ PCasesJs rest
  def PhJs : MsgPhBody → Prop
    | .htmlTag _ t => ValidUtf8 t
    | .cmd c => CmdJs c
  def ParamsJs : ParamList → Prop
    | .nil => True
    | .value _ key e rest => JsIdent key ∧ ExprJs e ∧ ParamsJs rest
    | .content _ key body rest => JsIdent key ∧ BlockJs body ∧ ParamsJs rest
  def BlockJs : Block → Prop
    | .mk _ cmds => CmdsJs cmds
  def CmdsJs : CmdList → Prop
    | .nil => True
    | .cons c r => CmdJs c ∧ CmdsJs r
  def CasesJs : CaseList → Prop
    | .nil => True
    | .cons _ values body rest => (∀ e ∈ values, ExprJs e) ∧ BlockJs body ∧ CasesJs rest
  def CondsJs : CondList → Prop
    | .nil => True
    | .cons _ cond body rest => (match cond with | none => True | some c => ExprJs c) ∧ BlockJs body ∧ CondsJs rest
end

theorem imgSs_append : ∀ (a b : JsStmts), ImgSs a → ImgSs b → ImgSs (a.append b)
  | .nil, b, _, hb => by simpa [JsStmts.append] using hb
  | .cons s r, b, ha, hb => by
    simp only [ImgSs] at ha
    simp only [JsStmts.append, ImgSs]
    exact ⟨ha.1, imgSs_append r b ha.2 hb⟩

theorem imgSs_one (s : JsStmt) (h : ImgS s) : ImgSs (.one s) := by
  simp only [JsStmts.one, ImgSs]; exact ⟨h, trivial⟩

/-- the directives the generator keeps have a JavaScript function -/
theorem jsDir_named : ∀ jd ∈ Gen.jsDirectives, jd.jsName = [] → jd.name = b!"id" ∨ jd.name = b!"noAutoescape" := by decide

theorem escapeHtmlDir_ok : DirOk escapeHtmlDir :=
  ⟨⟨⟨b!"escapeHtml", b!"soy.$$escapeHtml", true⟩, by simp [Gen.jsDirectives], rfl, by decide⟩, fun a ha => by cases ha⟩

theorem collectDirs_ok : ∀ (dirs : List Directive) (ck : Bool × List Directive), collectDirs dirs = some ck →
    (∀ d ∈ dirs, DirJs d) → ∀ d ∈ ck.2, DirOk d
  | [], ck, h, _ => by
    simp only [collectDirs, Option.some.injEq] at h
    subst h
    intro d hd; cases hd
  | d0 :: r, ck, h, hj => by
    simp only [collectDirs] at h
    cases hf : findDirective d0.name with
    | none => simp [hf] at h
    | some e =>
      cases hr : collectDirs r with
      | none => simp [hf, hr] at h
      | some ck' =>
        obtain ⟨c, kept⟩ := ck'
        simp only [hf, hr, Option.some.injEq] at h
        subst h
        have ih := collectDirs_ok r (c, kept) hr (fun d hd => hj d (by simp [hd]))
        simp only at ih ⊢
        split
        · exact ih
        · rename_i hn
          intro d hd
          rcases List.mem_cons.mp hd with rfl | hd
          · have hmem : e ∈ Gen.jsDirectives := List.mem_of_find?_eq_some hf
            have hname : e.name = d.name := by
              have := List.find?_some hf
              simpa using this
            refine ⟨⟨e, hmem, hname, ?_⟩, hj d (by simp)⟩
            intro hempty
            rcases jsDir_named e hmem hempty with h1 | h1
            · exact hn (by simp [← hname, h1])
            · exact hn (by simp [← hname, h1])
          · exact ih d hd

theorem withInputEscapes_ok : ∀ (ds : List Directive), (∀ d ∈ ds, DirOk d) → ∀ d ∈ withInputEscapes ds, DirOk d
  | [], _, d, hd => by simp [withInputEscapes] at hd
  | d0 :: r, h, d, hd => by
    have ih := withInputEscapes_ok r (fun d hd => h d (by simp [hd]))
    simp only [withInputEscapes] at hd
    split at hd
    · rcases List.mem_cons.mp hd with rfl | hd
      · exact escapeHtmlDir_ok
      · rcases List.mem_cons.mp hd with rfl | hd
        · exact h d (by simp)
        · exact ih d hd
    · rcases List.mem_cons.mp hd with rfl | hd
      · exact h d (by simp)
      · exact ih d hd

theorem printDirs_ok (ae : Autoescape) (cancel : Bool) (kept : List Directive) (h : ∀ d ∈ kept, DirOk d) :
    ∀ d ∈ printDirs ae cancel kept, DirOk d := by
  intro d hd
  have key : ∀ (c : Bool), d ∈ (if c then withInputEscapes kept ++ [escapeHtmlDir] else withInputEscapes kept) → DirOk d := by
    intro c hc
    cases c
    · exact withInputEscapes_ok kept h d (by simpa using hc)
    · simp only [if_true] at hc
      rcases List.mem_append.mp hc with hc | hc
      · exact withInputEscapes_ok kept h d hc
      · simp only [List.mem_singleton] at hc
        subst hc
        exact escapeHtmlDir_ok
  exact key _ hd

theorem foreach_img (names : Bytes × Bytes × Bytes × Bytes) (list : JsExpr) (body : JsStmts) (ie : Option JsStmts)
    (n1 : JsName names.1) (n2 : JsName names.2.1) (n3 : JsName names.2.2.1) (n4 : JsName names.2.2.2)
    (hl : Img list ∧ ∀ l, list ≠ .member (.local l) JsParse.sLength)
    (hb : ImgSs body) (hie : ∀ x, ie = some x → ImgSs x) : ImgSs (foreachStmts names list body ie) := by
  cases ie with
  | none =>
    simp only [foreachStmts, JsStmts.one, ImgSs, ImgS]
    exact ⟨⟨n2, hl⟩, ⟨n3, n2⟩, ⟨n4, n3, ⟨n1, n2, n4⟩, hb⟩, trivial⟩
  | some x =>
    simp only [foreachStmts, JsStmts.one, ImgSs, ImgS]
    exact ⟨⟨n2, hl⟩, ⟨n3, n2⟩, ⟨n3, ⟨⟨n4, n3, ⟨n1, n2, n4⟩, hb⟩, trivial⟩, hie x rfl⟩, trivial⟩

theorem range_img (names : Bytes × Bytes × Bytes × Bytes) (limit init incr : JsExpr) (body : JsStmts)
    (n1 : JsName names.1) (n2 : JsName names.2.1) (n3 : JsName names.2.2.1) (n4 : JsName names.2.2.2)
    (h1 : Img limit ∧ ∀ l, limit ≠ .member (.local l) JsParse.sLength) (h2 : Img init)
    (h3 : Img incr ∧ ∀ l, incr ≠ .member (.local l) JsParse.sLength) (hb : ImgSs body) :
    ImgSs (rangeStmts names limit init incr body) := by
  simp only [rangeStmts, JsStmts.one, ImgSs, ImgS]
  exact ⟨⟨n2, h1⟩, ⟨n3, h3⟩, ⟨n1, n2, n3, n4, h2, hb⟩, trivial⟩

section
variable [Globals] (hg : GlobalsJs) (ae : Autoescape)
include hg

theorem astList_img (sc : Scope) (hs : ScImg sc) : ∀ (vs : List Expr) (js : List JsExpr), astList sc vs = some js →
    (∀ e ∈ vs, ExprJs e) → ImgList js
  | [], js, h, _ => by
    simp only [astList, Option.some.injEq] at h; subst h; trivial
  | e :: r, js, h, he => by
    simp only [astList] at h
    cases hj : toAst sc e with
    | none => simp [hj] at h
    | some j =>
      cases hr : astList sc r with
      | none => simp [hj, hr] at h
      | some js' =>
        simp only [hj, hr, Option.some.injEq] at h
        subst h
        simp only [ImgList]
        exact ⟨(toAst_img hg sc hs e j hj (he e (by simp))).1, astList_img sc hs r js' hr (fun x hx => he x (by simp [hx]))⟩

theorem callBase_img (sc : Scope) (hs : ScImg sc) (allData : Bool) (data : Option Expr) (b : DataBase)
    (h : callBase sc allData data = some b) (hd : ∀ e, data = some e → ExprJs e) : ImgBase b := by
  cases allData <;> cases data <;> simp only [callBase, Option.some.injEq, Option.map_eq_some_iff, reduceCtorEq] at h
  · subst h; trivial
  · obtain ⟨j, hj, rfl⟩ := h
    exact (toAst_img hg sc hs _ j hj (hd _ rfl)).1
  · subst h; trivial

mutual
  /-- STATEMENTS: the translation of a command with well-formed names, in a scope of JavaScript names and with a
      JavaScript name for the output variable, is in the image of Props/C14c — and leaves such a scope -/
  theorem toCmd_img : ∀ (c : Cmd) (buf : Bytes) (sc : Scope) (r : JsStmts × Scope), toCmd ae buf c sc = some r →
      ScImg sc → JsName buf → CmdJs c → ImgSs r.1 ∧ ScImg r.2
    | .rawText p t, buf, sc, r, h, hs, hb, hc => by
      simp only [toCmd, Option.some.injEq] at h; subst h
      simp only [CmdJs] at hc
      exact ⟨imgSs_one _ (by simp only [ImgS]; exact ⟨hb, hc⟩), hs⟩
    | .print p arg dirs, buf, sc, r, h, hs, hb, hc => by
      simp only [CmdJs] at hc
      unfold toCmd at h
      split at h
      · split at h
        · rename_i j ck hj hck
          simp only [Option.some.injEq] at h; subst h
          have ij := (toAst_img hg sc hs arg j hj hc.1).1
          exact ⟨imgSs_one _ (by simp only [ImgS]; exact ⟨hb, ij, printDirs_ok ae ck.1 ck.2 (collectDirs_ok dirs ck hck hc.2)⟩), hs⟩
        · cases h
      · cases h
    | .letValue p x e, buf, sc, r, h, hs, hb, hc => by
      simp only [CmdJs] at hc
      unfold toCmd at h
      split at h
      · cases h
      · split at h
        · rename_i j hj
          simp only [Option.some.injEq] at h; subst h
          have mv := hs.makevar x hc.1
          have ij := toAst_img hg sc hs e j hj hc.2.1
          exact ⟨imgSs_one _ (by simp only [ImgS]; exact ⟨mv.1, ij.1, ij.2.2 hc.2.2⟩), mv.2⟩
        · cases h
    | .ifc p conds, buf, sc, r, h, hs, hb, hc => by
      simp only [CmdJs] at hc
      unfold toCmd at h
      split at h
      · rename_i rc hrc
        simp only [Option.some.injEq] at h; subst h
        have ic := toConds_img conds buf sc rc hrc hs hb hc.2
        refine ⟨imgSs_one _ ?_, ic.2⟩
        simp only [ImgS]
        refine ⟨?_, ic.1⟩
        cases conds with
        | nil => exact hc.1.elim
        | cons p' cond body rest =>
          cases cond with
          | none => exact hc.1.elim
          | some c =>
            simp only [toConds] at hrc
            split at hrc
            · split at hrc
              · simp only [Option.some.injEq] at hrc; subst hrc; trivial
              · cases hrc
            · cases hrc
      · cases h
    | .forc p v list body ie, buf, sc, r, h, hs, hb, hc => by
      unfold toCmd at h
      cases ie with
      | none =>
        simp only [CmdJs] at hc
        obtain ⟨hv, hl, hrange, hbody, _⟩ := hc
        have pe := hs.pushForEach v hv
        have pr := hs.pushForRange v hv
        simp only at h
        rcases loopJoin_some h with h1 | h1
        · obtain ⟨_, _, j, rbv, hj, hrb, hr⟩ := forcJoin_some h1
          simp only at hr; subst hr
          have ib := toBody_img body buf _ rbv hrb pe.2.2.2.2 hb hbody
          exact ⟨foreach_img _ j rbv.1 none pe.1 pe.2.1 pe.2.2.1 pe.2.2.2.1 (have ij := toAst_img hg sc hs list j hj hl.1; ⟨ij.1, ij.2.2 hl.2⟩) ib.1
            (fun _ h => by cases h), ib.2.pop⟩
        · obtain ⟨_, _, args, l, c, jl, ji, rbv, p', hra, hlim, hinc, hpos, hjl, hji, hrb, hr⟩ := rangeJoin_some h1
          subst hr
          have ib := toBody_img body buf _ rbv hrb pr.2.2.2.2 hb hbody
          have hr' := hrange args hra
          exact ⟨range_img _ jl ji (.num c) rbv.1 pr.1 pr.2.1 pr.2.2.1 pr.2.2.2.1 (have ij := toAst_img hg sc hs l jl hjl (hr'.1 l hlim).1; ⟨ij.1, ij.2.2 (hr'.1 l hlim).2⟩)
            (toAst_img hg sc hs _ ji hji hr'.2).1 ⟨trivial, fun l h => by cases h⟩ ib.1, ib.2.pop⟩
      | some ieb =>
        simp only [CmdJs] at hc
        obtain ⟨hv, hl, hrange, hbody, hie⟩ := hc
        have pe := hs.pushForEach v hv
        have pr := hs.pushForRange v hv
        simp only at h
        rcases loopJoin_ie_some h with h1 | ⟨r0, re, h1, hre, hr⟩
        · obtain ⟨_, _, j, rbv, hj, hrb, hr⟩ := forcJoin_some h1
          simp only at hr
          obtain ⟨re, hre, hr⟩ := hr
          subst hr
          have ib := toBody_img body buf _ rbv hrb pe.2.2.2.2 hb hbody
          have ie' := toBlock_img ieb buf _ re hre ib.2.pop hb hie
          exact ⟨foreach_img _ j rbv.1 (some re.1) pe.1 pe.2.1 pe.2.2.1 pe.2.2.2.1 (have ij := toAst_img hg sc hs list j hj hl.1; ⟨ij.1, ij.2.2 hl.2⟩) ib.1
            (fun x h => by cases h; exact ie'.1), ie'.2⟩
        · obtain ⟨_, _, args, l, c, jl, ji, rbv, p', hra, hlim, hinc, hpos, hjl, hji, hrb, hr0⟩ := rangeJoin_some h1
          subst hr0
          subst hr
          have ib := toBody_img body buf _ rbv hrb pr.2.2.2.2 hb hbody
          have hr' := hrange args hra
          have ie' := toBlock_img ieb buf _ re hre ib.2.pop hb hie
          refine ⟨imgSs_append _ _ (range_img _ jl ji (.num c) rbv.1 pr.1 pr.2.1 pr.2.2.1 pr.2.2.2.1
            (have ij := toAst_img hg sc hs l jl hjl (hr'.1 l hlim).1; ⟨ij.1, ij.2.2 (hr'.1 l hlim).2⟩) (toAst_img hg sc hs _ ji hji hr'.2).1 ⟨trivial, fun l h => by cases h⟩ ib.1)
            (imgSs_one _ (by simp only [ImgS]; exact ⟨pr.2.2.2.1, ie'.1⟩)), ie'.2⟩
    | .switch p value cases, buf, sc, r, h, hs, hb, hc => by
      simp only [CmdJs] at hc
      unfold toCmd at h
      split at h
      · rename_i j rc hj hrc
        simp only [Option.some.injEq] at h; subst h
        have ic := toCases_img cases buf sc rc hrc hs hb hc.2
        exact ⟨imgSs_one _ (by simp only [ImgS]; exact ⟨(toAst_img hg sc hs value j hj hc.1).1, ic.1⟩), ic.2⟩
      · cases h
    | .letContent p name body, buf, sc, r, h, hs, hb, hc => by
      simp only [CmdJs] at hc
      unfold toCmd at h
      obtain ⟨_, rbv, hrb, rfl⟩ := letJoin_some h
      have gn := hs.genname name hc.1
      have ib := toBlock_img body _ _ rbv hrb gn.2 gn.1 hc.2
      exact ⟨by simp only [ImgSs, ImgS]; exact ⟨gn.1, ib.1⟩, ib.2.bind name _ gn.1⟩
    | .call p name allData data params, buf, sc, r, h, hs, hb, hc => by
      simp only [CmdJs] at hc
      unfold toCmd at h
      obtain ⟨b, rp, hbase, hrp, rfl⟩ := callJoin_some h
      have ip := toParams_img params sc rp hrp hs hc.2.2
      have ibase := callBase_img hg sc hs allData data b hbase (fun e he => by subst he; exact hc.2.1)
      exact ⟨imgSs_append _ _ ip.1 (imgSs_one _ (by simp only [ImgS]; exact ⟨hb, hc.1, ibase, ip.2.1⟩)), ip.2.2⟩
    | .css p none suffix, buf, sc, r, h, hs, hb, hc => by
      simp only [CmdJs] at hc
      simp only [toCmd, Option.some.injEq] at h; subst h
      exact ⟨imgSs_one _ (by simp only [ImgS]; exact ⟨hb, hc.1⟩), hs⟩
    | .css p (some e) suffix, buf, sc, r, h, hs, hb, hc => by
      simp only [CmdJs] at hc
      simp only [toCmd] at h
      split at h
      · rename_i j hj
        simp only [Option.some.injEq] at h; subst h
        have ij := toAst_img hg sc hs e j hj hc.2
        exact ⟨by simp only [ImgSs, ImgS, JsStmts.one]; exact ⟨⟨hb, ij.1, ij.2.1⟩, ⟨hb, hc.1⟩, trivial⟩, hs⟩
      · cases h
    | .debugger p, buf, sc, r, h, hs, _, _ => by
      simp only [toCmd, Option.some.injEq] at h; subst h
      exact ⟨imgSs_one _ (by simp only [ImgS]), hs⟩
    | .msg p id m d bp body, buf, sc, r, h, hs, hb, hc => by
      simp only [CmdJs] at hc
      unfold toCmd at h
      obtain ⟨rb, hrb, rfl⟩ := msgJoin_some h
      have ib := toParts_img body buf _ rb hrb hs.push hb hc
      exact ⟨ib.1, ib.2.pop⟩
    | .log .., _, _, _, h, _, _, _ => by simp [toCmd] at h
    | .headerParam .., _, _, _, h, _, _, _ => by simp [toCmd] at h
    | .namespace .., _, _, _, h, _, _, _ => by simp [toCmd] at h
    | .template .., _, _, _, h, _, _, _ => by simp [toCmd] at h
    | .soyDoc .., _, _, _, h, _, _, _ => by simp [toCmd] at h
  theorem toParts_img : ∀ (ps : MsgParts) (buf : Bytes) (sc : Scope) (r : JsStmts × Scope), toParts ae buf ps sc = some r →
      ScImg sc → JsName buf → PartsJs ps → ImgSs r.1 ∧ ScImg r.2
    | .nil, buf, sc, r, h, hs, _, _ => by
      simp only [toParts, Option.some.injEq] at h; subst h
      exact ⟨trivial, hs⟩
    | .text p t rest, buf, sc, r, h, hs, hb, hc => by
      simp only [PartsJs] at hc
      unfold toParts at h
      obtain ⟨a, b, ha, hb', rfl⟩ := phJoin_some h
      simp only [Option.some.injEq] at ha
      subst ha
      have ir := toParts_img rest buf sc b hb' hs hb hc.2
      exact ⟨imgSs_append _ _ (imgSs_one _ (by simp only [ImgS]; exact ⟨hb, hc.1⟩)) ir.1, ir.2⟩
    | .ph p n body rest, buf, sc, r, h, hs, hb, hc => by
      simp only [PartsJs] at hc
      unfold toParts at h
      obtain ⟨a, b, ha, hb', rfl⟩ := phJoin_some h
      have ia := toPh_img body buf sc a ha hs hb hc.1
      have ir := toParts_img rest buf a.2 b hb' ia.2 hb hc.2
      exact ⟨imgSs_append _ _ ia.1 ir.1, ir.2⟩
    | .plural p vn value cases dp dflt rest, buf, sc, r, h, hs, hb, hc => by
      simp only [PartsJs] at hc
      unfold toParts at h
      obtain ⟨j, rc, rd, rr, hj, hrc, hrd, _, hrr, rfl⟩ := pluralJoin_some h
      have ic := toPCases_img cases buf sc rc hrc hs hb hc.2.1
      have id' := toParts_img dflt buf rc.2 rd hrd ic.2 hb hc.2.2.1
      have ir := toParts_img rest buf rd.2 rr hrr id'.2 hb hc.2.2.2
      exact ⟨by simp only [ImgSs, ImgS]; exact ⟨⟨(toAst_img hg sc hs value j hj hc.1).1, ic.1, id'.1⟩, ir.1⟩, ir.2⟩
  theorem toPCases_img : ∀ (cs : PluralCases) (buf : Bytes) (sc : Scope) (r : JsPlural × Scope), toPCases ae buf cs sc = some r →
      ScImg sc → JsName buf → PCasesJs cs → ImgPlural r.1 ∧ ScImg r.2
    | .nil, buf, sc, r, h, hs, _, _ => by
      simp only [toPCases, Option.some.injEq] at h; subst h
      exact ⟨trivial, hs⟩
    | .cons p v bp body rest, buf, sc, r, h, hs, hb, hc => by
      simp only [PCasesJs] at hc
      unfold toPCases at h
      obtain ⟨rb, rr, hrb, _, hrr, rfl⟩ := pcaseJoin_some h
      have ib := toParts_img body buf sc rb hrb hs hb hc.1
      have ir := toPCases_img rest buf rb.2 rr hrr ib.2 hb hc.2
      exact ⟨by simp only [ImgPlural]; exact ⟨ib.1, ir.1⟩, ir.2⟩
  theorem toPh_img : ∀ (b : MsgPhBody) (buf : Bytes) (sc : Scope) (r : JsStmts × Scope), toPh ae buf b sc = some r →
      ScImg sc → JsName buf → PhJs b → ImgSs r.1 ∧ ScImg r.2
    | .htmlTag p t, buf, sc, r, h, hs, hb, hc => by
      simp only [PhJs] at hc
      simp only [toPh, Option.some.injEq] at h; subst h
      exact ⟨imgSs_one _ (by simp only [ImgS]; exact ⟨hb, hc⟩), hs⟩
    | .cmd c, buf, sc, r, h, hs, hb, hc => by
      simp only [PhJs] at hc
      unfold toPh at h
      exact toCmd_img c buf sc r h hs hb hc
  theorem toParams_img : ∀ (ps : ParamList) (sc : Scope) (r : JsStmts × List (Bytes × JsExpr) × Scope),
      toParams ae ps sc = some r → ScImg sc → ParamsJs ps → ImgSs r.1 ∧ ImgParams r.2.1 ∧ ScImg r.2.2
    | .nil, sc, r, h, hs, _ => by
      simp only [toParams, Option.some.injEq] at h; subst h
      exact ⟨trivial, trivial, hs⟩
    | .value p key e rest, sc, r, h, hs, hc => by
      simp only [ParamsJs] at hc
      unfold toParams at h
      obtain ⟨j, rr, hj, hrr, hr⟩ := valueParamJoin_some h (by simp)
      simp only [Option.some.injEq] at hr
      subst hr
      have ir := toParams_img rest sc rr hrr hs hc.2.2
      exact ⟨ir.1, by simp only [ImgParams]; exact ⟨hc.1, (toAst_img hg sc hs e j hj hc.2.1).1, ir.2.1⟩, ir.2.2⟩
    | .content p key body rest, sc, r, h, hs, hc => by
      simp only [ParamsJs] at hc
      unfold toParams at h
      obtain ⟨rb, rr, hrb, hrr, rfl⟩ := contentParamJoin_some h
      have gn := hs.genname b!"param" ⟨_, _, rfl, by decide, by decide⟩
      have ib := toBlock_img body _ _ rb hrb gn.2 gn.1 hc.2.1
      have ir := toParams_img rest rb.2 rr hrr ib.2 hc.2.2
      refine ⟨imgSs_append _ _ (by simp only [ImgSs, ImgS]; exact ⟨gn.1, ib.1⟩) ir.1, ?_, ir.2.2⟩
      simp only [ImgParams, Img]
      exact ⟨hc.1, gn.1, ir.2.1⟩
  theorem toBody_img : ∀ (b : Block) (buf : Bytes) (sc : Scope) (r : JsStmts × Scope), toBody ae buf b sc = some r →
      ScImg sc → JsName buf → BlockJs b → ImgSs r.1 ∧ ScImg r.2
    | .mk p cmds, buf, sc, r, h, hs, hb, hc => by
      simp only [BlockJs] at hc
      unfold toBody at h
      exact toCmds_img cmds buf sc r h hs hb hc
  theorem toBlock_img : ∀ (b : Block) (buf : Bytes) (sc : Scope) (r : JsStmts × Scope), toBlock ae buf b sc = some r →
      ScImg sc → JsName buf → BlockJs b → ImgSs r.1 ∧ ScImg r.2
    | .mk p cmds, buf, sc, r, h, hs, hb, hc => by
      simp only [BlockJs] at hc
      unfold toBlock at h
      split at h
      · rename_i r' hr'
        simp only [Option.some.injEq] at h; subst h
        have ic := toCmds_img cmds buf sc.push r' hr' hs.push hb hc
        exact ⟨ic.1, ic.2.pop⟩
      · cases h
  theorem toCmds_img : ∀ (cs : CmdList) (buf : Bytes) (sc : Scope) (r : JsStmts × Scope), toCmds ae buf cs sc = some r →
      ScImg sc → JsName buf → CmdsJs cs → ImgSs r.1 ∧ ScImg r.2
    | .nil, buf, sc, r, h, hs, _, _ => by
      simp only [toCmds, Option.some.injEq] at h; subst h
      exact ⟨trivial, hs⟩
    | .cons c rest, buf, sc, r, h, hs, hb, hc => by
      simp only [CmdsJs] at hc
      unfold toCmds at h
      split at h
      · cases h
      · rename_i r1 hr1
        split at h
        · cases h
        · rename_i r2 hr2
          simp only [Option.some.injEq] at h; subst h
          have i1 := toCmd_img c buf sc r1 hr1 hs hb hc.1
          have i2 := toCmds_img rest buf r1.2 r2 hr2 i1.2 hb hc.2
          exact ⟨imgSs_append _ _ i1.1 i2.1, i2.2⟩
  theorem toCases_img : ∀ (cs : CaseList) (buf : Bytes) (sc : Scope) (r : JsCases × Scope), toCases ae buf cs sc = some r →
      ScImg sc → JsName buf → CasesJs cs → ImgCases r.1 ∧ ScImg r.2
    | .nil, buf, sc, r, h, hs, _, _ => by
      simp only [toCases, Option.some.injEq] at h; subst h
      exact ⟨trivial, hs⟩
    | .cons p values body rest, buf, sc, r, h, hs, hb, hc => by
      simp only [CasesJs] at hc
      unfold toCases at h
      obtain ⟨rbv, hrb, hr⟩ := caseJoin_some h
      have ib := toBlock_img body buf sc rbv hrb hs hb hc.2.1
      rcases hr with ⟨_, _, rfl⟩ | ⟨hne, js, rr, hjs, hrr, rfl⟩
      · exact ⟨by simp only [ImgCases]; exact ib.1, ib.2⟩
      · have ir := toCases_img rest buf rbv.2 rr hrr ib.2 hb hc.2.2
        refine ⟨?_, ir.2⟩
        simp only [ImgCases]
        refine ⟨?_, astList_img hg sc hs values js hjs hc.1, ib.1, ir.1⟩
        intro hnil
        subst hnil
        cases values with
        | nil => exact hne rfl
        | cons e r' =>
          simp only [astList] at hjs
          cases h1 : toAst sc e <;> cases h2 : astList sc r' <;> simp [h1, h2] at hjs
  theorem toConds_img : ∀ (cs : CondList) (buf : Bytes) (sc : Scope) (r : JsConds × Scope), toConds ae buf cs sc = some r →
      ScImg sc → JsName buf → CondsJs cs → ImgConds r.1 ∧ ScImg r.2
    | .nil, buf, sc, r, h, hs, _, _ => by
      simp only [toConds, Option.some.injEq] at h; subst h
      exact ⟨trivial, hs⟩
    | .cons p (some c) body rest, buf, sc, r, h, hs, hb, hc => by
      simp only [CondsJs] at hc
      simp only [toConds] at h
      split at h
      · rename_i j rb hj hrb
        split at h
        · rename_i rr hrr
          simp only [Option.some.injEq] at h; subst h
          have ib := toBlock_img body buf sc rb hrb hs hb hc.2.1
          have ir := toConds_img rest buf rb.2 rr hrr ib.2 hb hc.2.2
          exact ⟨by simp only [ImgConds]; exact ⟨(toAst_img hg sc hs c j hj hc.1).1, ib.1, ir.1⟩, ir.2⟩
        · cases h
      · cases h
    | .cons p none body rest, buf, sc, r, h, hs, hb, hc => by
      simp only [CondsJs] at hc
      simp only [toConds] at h
      split at h
      · rename_i rb hrb
        simp only [Option.some.injEq] at h; subst h
        have ib := toBlock_img body buf sc rb hrb hs hb hc.2.1
        exact ⟨by simp only [ImgConds]; exact ib.1, ib.2⟩
      · cases h
end

end

/-! ## functions and files

  `FileJs f` — the naming conditions on a Soy file.  Of them the Soy lexer / parser guarantee: the shapes (`{if}` has a
  first condition, `{else}` last; a file is a namespace and soydoc / template pairs), that names after `$`, `.` and in
  `{let}` / `{foreach}` / `{param}` are identifiers — but of LETTERS, which for the Go lexer includes letters outside
  ASCII (the generator copies them: Props/C14 `IsIdent`; here `JsIdent` asks for ASCII, the alphabet of Spec/JsParse).
  NOT guaranteed, and asked here: well-formed UTF-8 in raw text and string literals; no `{let}` value / loop list /
  range limit that is exactly `$v.length`; the first segment of a template's or
  callee's dotted name is no JavaScript reserved word (Soy has no such rule: `{namespace var.x}` is accepted — real
  soyjs then writes `var.x = …`, no JavaScript).  Variable names need no such condition: the generator appends `$n`.
  Outside the fragment altogether (`toFile = none`): floats, list / map literals, `[e]` accesses, a null-safe access
  that is not last, functions other than isNonnull / length / floor / ceiling / round / min / max / index / isFirst /
  isLast / range, unknown directives or non-literal directive arguments, `{log}`, `{msg}` under a bundle, `{call}`
  with `data="all"` and a data expression, header `{@param}` declarations, a template without soydoc. -/

open SoyVerif.Props.C04f (toTemplate toTop toFile aeOf)
open SoyVerif.Props.C14c (canonF)

def TopJs : List Cmd → Prop
  | .soyDoc _ _ :: .template _ name body _ _ :: rest => QName name ∧ BlockJs body ∧ TopJs rest
  | _ => True

/-- the naming conditions on a file: its namespace and templates have dotted JavaScript names, the bodies are `BlockJs` -/
def FileJs (f : SoyFile) : Prop :=
  ∀ p name ae rest, f.body = .namespace p name ae :: rest → QName name ∧ TopJs rest

theorem output_name : JsName SoyVerif.Spec.JsStmt.sOutputVar :=
  ⟨⟨_, _, rfl, by decide, by decide⟩, by decide, by decide, by decide⟩

section
variable [Globals] (hg : GlobalsJs)
include hg

theorem toTop_img (nsAe : Autoescape) : ∀ (cmds : List Cmd) (sc : Scope) (r : List JsFunc × Scope), toTop nsAe cmds sc = some r →
    ScImg sc → TopJs cmds → (∀ fn ∈ r.1, ImgF fn) ∧ ScImg r.2
  | [], sc, r, h, hs, _ => by
    simp only [toTop, Option.some.injEq] at h; subst h
    exact ⟨fun _ h => (nomatch h), hs⟩
  | .soyDoc p params :: c :: rest, sc, r, h, hs, hc => by
    unfold toTop at h
    split at h
    · rename_i r1 hr1
      split at h
      · rename_i r2 hr2
        simp only [Option.some.injEq] at h; subst h
        cases c with
        | template tp name body ae priv =>
          simp only [TopJs] at hc
          simp only [toTemplate] at hr1
          split at hr1
          · rename_i rb hrb
            simp only [Option.some.injEq] at hr1; subst hr1
            have ib := toBody_img hg _ body _ _ rb hrb hs.push output_name hc.2.1
            have ir := toTop_img nsAe rest _ r2 hr2 ib.2.pop hc.2.2
            refine ⟨?_, ir.2⟩
            intro fn hfn
            rcases List.mem_cons.mp hfn with rfl | hfn
            · exact ⟨hc.1, ib.1⟩
            · exact ir.1 fn hfn
          · cases hr1
        | _ => simp [toTemplate] at hr1
      · cases h
    · cases h
  | [.soyDoc _ _], _, _, h, _, _ => by simp [toTop] at h
  | .rawText .. :: _, _, _, h, _, _ => by simp [toTop] at h
  | .print .. :: _, _, _, h, _, _ => by simp [toTop] at h
  | .msg .. :: _, _, _, h, _, _ => by simp [toTop] at h
  | .css .. :: _, _, _, h, _, _ => by simp [toTop] at h
  | .debugger .. :: _, _, _, h, _, _ => by simp [toTop] at h
  | .log .. :: _, _, _, h, _, _ => by simp [toTop] at h
  | .ifc .. :: _, _, _, h, _, _ => by simp [toTop] at h
  | .forc .. :: _, _, _, h, _, _ => by simp [toTop] at h
  | .switch .. :: _, _, _, h, _, _ => by simp [toTop] at h
  | .call .. :: _, _, _, h, _, _ => by simp [toTop] at h
  | .letValue .. :: _, _, _, h, _, _ => by simp [toTop] at h
  | .letContent .. :: _, _, _, h, _, _ => by simp [toTop] at h
  | .headerParam .. :: _, _, _, h, _, _ => by simp [toTop] at h
  | .namespace .. :: _, _, _, h, _, _ => by simp [toTop] at h
  | .template .. :: _, _, _, h, _, _ => by simp [toTop] at h

/-- FILES: the functions of the translation of a file with well-formed names are in the image of Props/C14c -/
theorem toFile_img (f : SoyFile) (r : List JsFunc × Scope) (h : toFile f = some r) (hf : FileJs f) : ∀ fn ∈ r.1, ImgF fn := by
  unfold toFile at h
  split at h
  · rename_i p name ae rest hbody
    exact (toTop_img hg ae rest _ r h (fun f hf kv hkv => by simp at hf; subst hf; cases hkv) (hf p name ae rest hbody).2).1
  · cases h

/-- PARTIAL (C14, first claim, on the fragment).  For every file of the fragment (`toFile` succeeds) with well-formed
    names (`FileJs`: conditions on the SOY file, listed above), the text the generator model writes (ES5 formatter, no
    message bundle; string globals well-formed UTF-8) is a syntactically valid script: it parses (Spec/JsParse: lexer,
    grammar and reader of the subset of ECMAScript 5.1 the generator emits) to exactly the functions of the
    translation, in canonical form — no hypothesis on the translated functions is left. -/
theorem gen_file_is_valid_script_partial (sk : List Bytes → List Bytes) (o : Options) [C04c.GlobalsAre o]
    (ho : o.messages = none) (h5 : isEs6 o = false) (f : SoyFile) (r : List JsFunc × Scope)
    (h : toFile f = some r) (hf : FileJs f) :
    ∃ ps s', visitSoyFile sk o f initState = .ok ((), ps, s') ∧ jsParseFile (printPieces ps) = some (r.1.map canonF) :=
  C14c.gen_text_parses sk o ho h5 f r h (toFile_img hg f r h hf) (fun p name ae rest hb => (hf p name ae rest hb).1)

end

/-! ## non-vacuity -/

section Examples
open SoyVerif.Props.C14c (identB identB_ok qOkB qOkB_ok)

/-- ASCII text is well-formed UTF-8 -/
theorem ascii_valid : ∀ (s : Bytes), (∀ b ∈ s, b < 128) → ValidUtf8 s
  | [], _ => ValidUtf8.nil
  | b :: r, h => by
    have hb : b < 128 := h b (by simp)
    have hw : wellFormedSeq [b] = true := by
      simp only [wellFormedSeq, decide_eq_true_eq]
      have h1 : b.toNat < 128 := by simpa [UInt8.lt_iff_toNat_lt] using hb
      rw [UInt8.le_iff_toNat_le]
      have : (0x7F : UInt8).toNat = 127 := rfl
      omega
    exact ValidUtf8.seq [b] r hw (ascii_valid r (fun x hx => h x (by simp [hx])))

/-- `{namespace ns}  /** @param x */ {template .t}{$x.y|truncate:5}hi{if $x}{foreach $i in $x.l}{$i}{/foreach}{/if}{/template}` -/
def exFile : SoyFile :=
  { name := b!"a\nb.soy", text := [], body := [
      .namespace 0 b!"ns" .unspecified,
      .soyDoc 0 [⟨0, b!"x", false⟩],
      .template 0 b!"ns.t" (.mk 0
        (.cons (.print 0 (.dataRef 0 b!"x" (.cons (.key 0 false b!"y") .nil)) [⟨0, b!"truncate", [.int 0 5]⟩])
        (.cons (.rawText 0 b!"hi")
        (.cons (.ifc 0 (.cons 0 (some (.dataRef 0 b!"x" .nil))
          (.mk 0 (.cons (.forc 0 b!"i" (.dataRef 0 b!"x" (.cons (.key 0 false b!"l") .nil))
            (.mk 0 (.cons (.print 0 (.dataRef 0 b!"i" .nil) []) .nil)) none) .nil)) .nil)) .nil)))) .unspecified false] }

theorem exFile_js : FileJs exFile := by
  intro p name ae rest hb
  simp only [exFile, List.cons.injEq, Cmd.namespace.injEq] at hb
  obtain ⟨⟨_, rfl, _⟩, rfl⟩ := hb
  refine ⟨qOkB_ok (by decide), ?_⟩
  simp only [TopJs, BlockJs, CmdsJs, CmdJs, CondsJs, ExprJs, AccJs, AccessJs, DirJs, isRangeCall, and_true, true_and]
  repeat' apply And.intro
  all_goals first
    | exact identB_ok (by decide)
    | exact qOkB_ok (by decide)
    | exact ascii_valid _ (by decide)
    | rfl
    | (intro args h; cases h; done)
    | (intro d hd; cases hd; done)
    | skip
  intro d hd a ha j hj
  simp only [List.mem_singleton] at hd
  subst hd
  simp only [List.mem_singleton] at ha
  subst ha
  simp only [litAst, Option.some.injEq] at hj
  subst hj
  trivial

local instance : Globals := ⟨[]⟩
local instance : C04c.GlobalsAre ({} : Options) := ⟨rfl⟩

theorem exGlobalsJs : GlobalsJs := fun k s h => by
  have : (Globals.tbl : List (Bytes × Value)) = [] := rfl
  rw [this] at h
  simp [assocGet?] at h

/-- the file is in the fragment … -/
example : (toFile exFile).isSome = true := by decide +kernel

/-- … so what the generator model writes for it (hostile file name included) is a valid script -/
example : ∃ r ps s', toFile exFile = some r ∧ visitSoyFile id {} exFile initState = .ok ((), ps, s') ∧
    jsParseFile (printPieces ps) = some (r.1.map canonF) := by
  cases h : toFile exFile with
  | none => exact absurd h (by decide +kernel)
  | some r =>
    obtain ⟨ps, s', h1, h2⟩ := gen_file_is_valid_script_partial exGlobalsJs id {} rfl rfl exFile r h exFile_js
    exact ⟨r, ps, s', rfl, h1, h2⟩

-- the shapes the naming conditions exclude
-- the data key `length` is in the fragment (soyjs writes `opt_data.x.length`; the length FUNCTION is `(opt_data.x).length`)
example : ExprJs (.dataRef 0 b!"x" (.cons (.key 0 false b!"length") .nil)) := by
  simp only [ExprJs, AccJs, AccessJs, and_true]
  exact ⟨identB_ok (by decide), identB_ok (by decide)⟩

end Examples

end SoyVerif.Props.C14d
