/-
  C17 / C01 — the BYTE-LEVEL link: lexing the printer's bytes yields exactly the printer's tokens,
  so the round trip of Props/C17.lean holds from bytes to tree.

    printExpr ff e  --lexAll … true-->  items  --parseExprEntry-->  e'      erase e' = erase e

  * `lexAll input true` is the model of `lexExpr` (Model/Lexer.lean, tied to parse/lexer.go by the
    correspondence C05lex and proved total and panic-free in Props/C05.lean); `parseExprEntry` is
    the model of `parse.Expr` on that item list (correspondence C01parse).
  * THE LAST ITEM IS NOT EOF.  In expression mode the lexer starts in `lexInsideTag`, i.e. inside a
    "tag" that never closes: at the end of a well-formed expression it sends the Error item
    "unclosed tag" (`case r == eof: return l.errorfAt(l.tagStart, …)`, position `tagStart = 0`; the
    model records the class of the message, `clsTag`, not its text) and stops.  `parse.Expr` has returned before reading it — the
    parser stops in front of any token that does not continue the expression.  The theorems are
    stated with this ACTUAL final item (`errTk`), and the token-level theorem is used in its
    variant for an arbitrary terminating follower (`Lemmas.ParserRound.parse_slot_entry_term`).
  * Hypotheses on the tree: `NamesOk ff e` (Lemmas/LexPrintNames.lean; a decidable `Bool`): names are
    identifiers as the lexer reads them (letters / digits / `_` of any script in UTF-8, with the
    first-character rule of each token kind) and not keywords where the lexer would read a keyword,
    index accesses are not negative, string literals are well quoted, float literals have the shape
    `scanNumber` accepts as a float (a hypothesis on the parameter `ff`); for the parse step in
    addition `Canon ff pf e` (Props/C17.lean).  Both are meant to hold of every tree `parse.Expr` returns
    (each clause mirrors what the lexer can emit; that inclusion itself is not a theorem).
  * The facts about the GENERATED tables enter as `LexTableOK` (lexer: symbols, keywords, the set
    after which `-` is unary, `unicode.IsLetter/IsDigit` on ASCII) and `TableOK` (parser);
    `Inst/C17b.lean` discharges both by `decide` and restates the theorems without them.
-/
import SoyVerif.Lemmas.LexPrintAdj
import SoyVerif.Lemmas.F64Shape
import SoyVerif.Props.C17

set_option linter.unusedVariables false
set_option linter.unusedSectionVars false

namespace SoyVerif.Props.C17b
open SoyVerif SoyVerif.Model SoyVerif.Model.Lex SoyVerif.Model.Parser SoyVerif.Model.PrintTokens
open SoyVerif.Model.Printer SoyVerif.Lemmas.LexPrint SoyVerif.Lemmas.ParserBasic

/-- the token of the Error item that ends every item list of `lexExpr` on a complete expression
    ("unclosed tag"; the model keeps the class of the message, `clsTag`, in `val`) -/
def errTk : Tk := ⟨.tError, [clsTag]⟩

section
variable (ff : UInt64 → Bytes) (pf : Bytes → Option UInt64)
variable (LT : LexTableOK)
include LT

/-- per token, strings: `stringLexer` reads the printer's quoting of ANY byte string (escapes,
    multi-byte runes, invalid UTF-8) back as one String token with that spelling -/
theorem lex_quoted_string (v : Bytes) :
    lexAll (quoteString v) true =
      .items [⟨.tString, (quoteString v).length, quoteString v⟩, errItem] := by
  have h := lexAll_pieces LT [.tok (tString (quoteString v))]
    ⟨.str _ _ (strOk_quoteString v), trivial⟩ (by simp [unsp, SoyVerif.Lemmas.ParserAdj.typs, SoyVerif.Lemmas.ParserAdj.chainOK,
      SoyVerif.Lemmas.ParserAdj.pairOK, tString])
  simpa [spell, emitAll, itemOf, tString] using h

/-- per token, integers: `scanNumber` reads `strconv.FormatInt(v, 10)` back as one Integer token -/
theorem lex_int (v : Int) :
    lexAll (fmtInt v) true = .items [⟨.tInteger, (fmtInt v).length, fmtInt v⟩, errItem] := by
  have h := lexAll_pieces LT [.tok ⟨.tInteger, fmtInt v⟩]
    ⟨tok_int v (closer_numEnd closer_nil), trivial⟩
    (by simp [unsp, SoyVerif.Lemmas.ParserAdj.typs, SoyVerif.Lemmas.ParserAdj.chainOK,
      SoyVerif.Lemmas.ParserAdj.pairOK, SoyVerif.Lemmas.ParserAdj.beforeOperand])
  simpa [spell, emitAll, itemOf] using h

/-- per token, floats: any spelling of the float shape (`floatSpelling`) is read back as one Float token -/
theorem lex_float (val : Bytes) (h : floatSpelling val = true) :
    lexAll val true = .items [⟨.tFloat, val.length, val⟩, errItem] := by
  have h := lexAll_pieces LT [.tok ⟨.tFloat, val⟩]
    ⟨tok_float h (closer_numEnd closer_nil), trivial⟩
    (by simp [unsp, SoyVerif.Lemmas.ParserAdj.typs, SoyVerif.Lemmas.ParserAdj.chainOK,
      SoyVerif.Lemmas.ParserAdj.pairOK, SoyVerif.Lemmas.ParserAdj.beforeOperand])
  simpa [spell, emitAll, itemOf] using h

/-- BYTE LEVEL (FULL): lexing the printed text of a tree yields exactly its printed tokens — each
    with its spelling, in order, spaces skipped — followed by the Error item of the end of input.
    With positions: `emitAll 0 (pieces ff e)` (every item carries its END offset, as in lexer.go). -/
theorem lex_print_items (e : Expr) (hN : NamesOk ff e = true) :
    lexAll (printExpr ff e) true = .items (emitAll 0 (pieces ff e)) := by
  have h := lexAll_pieces LT (pieces ff e) (adjE LT ff e hN [] closer_nil)
    (SoyVerif.Lemmas.ParserAdj.good_toks ff e .tInvalid (by simp [SoyVerif.Lemmas.ParserAdj.beforeOperand])).1
  rwa [SoyVerif.Lemmas.ParserToks.spell_pieces] at h

/-- … position-free: the tokens are `toks ff e`, then the Error token -/
theorem lex_print (e : Expr) (hN : NamesOk ff e = true) :
    ∃ items, lexAll (printExpr ff e) true = .items items ∧ items.map Item.tk = toks ff e ++ [errTk] :=
  ⟨_, lex_print_items ff LT e hN, emitAll_tk 0 (pieces ff e)⟩

variable (T : TableOK)
include T

/-- C17 from bytes to tree (FULL): the printed text of a canonical tree, lexed by `lexExpr` and
    parsed by `parse.Expr` (models), gives the tree back modulo positions -/
theorem print_parse_roundtrip_bytes (e : Expr) (hC : Canon ff pf e) (hN : NamesOk ff e = true) :
    ∃ items e', lexAll (printExpr ff e) true = .items items ∧ parseExprEntry pf items = .ok e' ∧
      erase e' = erase e := by
  obtain ⟨items, hl, ht⟩ := lex_print ff LT e hN
  obtain ⟨e', hp, he⟩ := SoyVerif.Lemmas.ParserRound.parse_slot_entry_term pf T e (toks ff e) errTk items
    (SoyVerif.Lemmas.ParserToks.slot_plain ff pf e (SoyVerif.Lemmas.ParserToks.renders_toks ff pf e hC))
    (Or.inr (Or.inr (Or.inr (Or.inr rfl)))) ht
  exact ⟨items, e', hl, hp, he⟩

/-- C01, parser completeness from BYTES: any text that spells a rendering of `e` — minimal or
    redundant parentheses (`RendersTop`), any spelling of the literals, spaces wherever the piece list
    `ps` has them — in which every token is followed by bytes that do not extend it (`Adj`) and every
    `-` stands after a token that decides unary/binary as intended (`chainOK`), is lexed and parsed
    to `e` modulo positions.  (`print_parse_roundtrip_bytes` is the instance `ps = pieces ff e`.) -/
theorem parse_complete_bytes (e : Expr) (ps : List Piece) (ha : Adj ps [])
    (hc : SoyVerif.Lemmas.ParserAdj.chainOK .tInvalid (SoyVerif.Lemmas.ParserAdj.typs (unsp ps)) = true)
    (hR : SoyVerif.Props.C17.RendersTop pf e (unsp ps)) :
    ∃ items e', lexAll (spell ps) true = .items items ∧ parseExprEntry pf items = .ok e' ∧ erase e' = erase e := by
  obtain ⟨e', hp, he⟩ := SoyVerif.Lemmas.ParserRound.parse_slot_entry_term pf T e (unsp ps) errTk (emitAll 0 ps)
    hR (Or.inr (Or.inr (Or.inr (Or.inr rfl)))) (emitAll_tk 0 ps)
  exact ⟨_, e', lexAll_pieces LT ps ha hc, hp, he⟩

/-- C17, the statement of the property: two canonical trees that print the same TEXT are the same
    tree (modulo positions) -/
theorem print_injective_bytes (a b : Expr) (ha : Canon ff pf a) (hb : Canon ff pf b)
    (hna : NamesOk ff a = true) (hnb : NamesOk ff b = true) (h : printExpr ff a = printExpr ff b) :
    erase a = erase b := by
  obtain ⟨i1, e1, hl1, hp1, he1⟩ := print_parse_roundtrip_bytes ff pf LT T a ha hna
  obtain ⟨i2, e2, hl2, hp2, he2⟩ := print_parse_roundtrip_bytes ff pf LT T b hb hnb
  rw [h, hl2] at hl1
  injection hl1 with hi
  subst hi
  rw [hp2] at hp1
  injection hp1 with hp1
  rw [← he1, ← he2, hp1]

end

/-! ### with Go's float formatting: the float hypothesis discharged (Lemmas/F64Shape.lean) -/

/-- `strconv.FormatFloat(v, 'g', -1, 64)` on the bits of a float node: the soft-float formatter -/
def ffGo : UInt64 → Bytes := fun b => F64.format ⟨b⟩

mutual
  /-- every float literal of the tree is finite (decidable) -/
  def floatsFinite : Expr → Bool
    | .float _ bits => !(F64.mk bits).isNaN && !(F64.mk bits).isInf
    | .func _ _ args => floatsFiniteL args
    | .list _ items => floatsFiniteL items
    | .map _ items => floatsFiniteM items
    | .dataRef _ _ acc => floatsFiniteAL acc
    | .not _ a => floatsFinite a
    | .neg _ a => floatsFinite a
    | .bin _ _ a b => floatsFinite a && floatsFinite b
    | .tern _ c a b => floatsFinite c && floatsFinite a && floatsFinite b
    | _ => true
  def floatsFiniteL : ExprList → Bool
    | .nil => true
    | .cons e r => floatsFinite e && floatsFiniteL r
  def floatsFiniteM : MapItems → Bool
    | .nil => true
    | .cons _ e r => floatsFinite e && floatsFiniteM r
  def floatsFiniteAL : AccessList → Bool
    | .nil => true
    | .cons a r => floatsFiniteA a && floatsFiniteAL r
  def floatsFiniteA : Access → Bool
    | .expr _ _ e => floatsFinite e
    | _ => true
end

/-- a formatter under which every float literal is trivially fine: `NamesOk ff1 e` is the condition on
    names, string spellings and indices alone -/
def ff1 : UInt64 → Bytes := fun _ => [49, 46, 53]

mutual
  /-- with Go's formatting the float clause of `NamesOk` holds of every finite float -/
  theorem namesOk_go : (e : Expr) → floatsFinite e = true → NamesOk ff1 e = true → NamesOk ffGo e = true
    | .null _, _, _ => by rw [NamesOk]
    | .bool _ _, _, _ => by rw [NamesOk]
    | .int _ _, _, _ => by rw [NamesOk]
    | .float _ bits, hf, _ => by
        rw [floatsFinite] at hf
        simp only [Bool.and_eq_true, Bool.not_eq_true'] at hf
        rw [NamesOk]
        exact SoyVerif.Lemmas.F64Shape.floatSpelling_finite bits hf.1 hf.2
    | .str _ q _, _, hn => by rw [NamesOk] at hn ⊢; exact hn
    | .global _ n, _, hn => by rw [NamesOk] at hn ⊢; exact hn
    | .func _ n args, hf, hn => by
        rw [floatsFinite] at hf
        rw [NamesOk] at hn ⊢
        simp only [Bool.and_eq_true] at hn ⊢
        exact ⟨hn.1, namesOkL_go args hf hn.2⟩
    | .list _ items, hf, hn => by
        rw [floatsFinite] at hf
        rw [NamesOk] at hn ⊢
        exact namesOkL_go items hf hn
    | .map _ items, hf, hn => by
        rw [floatsFinite] at hf
        rw [NamesOk] at hn ⊢
        exact namesOkM_go items hf hn
    | .dataRef _ k acc, hf, hn => by
        rw [floatsFinite] at hf
        rw [NamesOk] at hn ⊢
        simp only [Bool.and_eq_true] at hn ⊢
        exact ⟨hn.1, namesOkAL_go acc hf hn.2⟩
    | .not _ a, hf, hn => by
        rw [floatsFinite] at hf
        rw [NamesOk] at hn ⊢
        exact namesOk_go a hf hn
    | .neg _ a, hf, hn => by
        rw [floatsFinite] at hf
        rw [NamesOk] at hn ⊢
        exact namesOk_go a hf hn
    | .bin _ _ a b, hf, hn => by
        rw [floatsFinite] at hf
        rw [NamesOk] at hn ⊢
        simp only [Bool.and_eq_true] at hf hn ⊢
        exact ⟨namesOk_go a hf.1 hn.1, namesOk_go b hf.2 hn.2⟩
    | .tern _ c a b, hf, hn => by
        rw [floatsFinite] at hf
        rw [NamesOk] at hn ⊢
        simp only [Bool.and_eq_true] at hf hn ⊢
        exact ⟨⟨namesOk_go c hf.1.1 hn.1.1, namesOk_go a hf.1.2 hn.1.2⟩, namesOk_go b hf.2 hn.2⟩
  theorem namesOkL_go : (l : ExprList) → floatsFiniteL l = true → NamesOkL ff1 l = true → NamesOkL ffGo l = true
    | .nil, _, _ => by rw [NamesOkL]
    | .cons e r, hf, hn => by
        rw [floatsFiniteL] at hf
        rw [NamesOkL] at hn ⊢
        simp only [Bool.and_eq_true] at hf hn ⊢
        exact ⟨namesOk_go e hf.1 hn.1, namesOkL_go r hf.2 hn.2⟩
  theorem namesOkM_go : (m : MapItems) → floatsFiniteM m = true → NamesOkM ff1 m = true → NamesOkM ffGo m = true
    | .nil, _, _ => by rw [NamesOkM]
    | .cons _ e r, hf, hn => by
        rw [floatsFiniteM] at hf
        rw [NamesOkM] at hn ⊢
        simp only [Bool.and_eq_true] at hf hn ⊢
        exact ⟨namesOk_go e hf.1 hn.1, namesOkM_go r hf.2 hn.2⟩
  theorem namesOkAL_go : (l : AccessList) → floatsFiniteAL l = true → NamesOkAL ff1 l = true → NamesOkAL ffGo l = true
    | .nil, _, _ => by rw [NamesOkAL]
    | .cons a r, hf, hn => by
        rw [floatsFiniteAL] at hf
        rw [NamesOkAL] at hn ⊢
        simp only [Bool.and_eq_true] at hf hn ⊢
        exact ⟨namesOkA_go a hf.1 hn.1, namesOkAL_go r hf.2 hn.2⟩
  theorem namesOkA_go : (a : Access) → floatsFiniteA a = true → NamesOkA ff1 a = true → NamesOkA ffGo a = true
    | .key _ _ k, _, hn => by rw [NamesOkA] at hn ⊢; exact hn
    | .index _ _ i, _, hn => by rw [NamesOkA] at hn ⊢; exact hn
    | .expr _ _ e, hf, hn => by
        rw [floatsFiniteA] at hf
        rw [NamesOkA] at hn ⊢
        exact namesOk_go e hf hn
end

section
variable (LT : LexTableOK)
include LT

/-- per token, floats, WITHOUT hypothesis on the spelling: `FloatNode.String()` of every finite double
    is read back by the lexer as one Float token -/
theorem lex_float_finite (bits : UInt64) (hn : (F64.mk bits).isNaN = false) (hi : (F64.mk bits).isInf = false) :
    lexAll (fmtFloatLit ffGo bits) true =
      .items [⟨.tFloat, (fmtFloatLit ffGo bits).length, fmtFloatLit ffGo bits⟩, errItem] :=
  lex_float LT _ (SoyVerif.Lemmas.F64Shape.floatSpelling_finite bits hn hi)

/-- `lex_print` with Go's float formatting: the hypothesis on floats is finiteness -/
theorem lex_print_go (e : Expr) (hF : floatsFinite e = true) (hN : NamesOk ff1 e = true) :
    ∃ items, lexAll (printExpr ffGo e) true = .items items ∧ items.map Item.tk = toks ffGo e ++ [errTk] :=
  lex_print ffGo LT e (namesOk_go e hF hN)

end

end SoyVerif.Props.C17b
