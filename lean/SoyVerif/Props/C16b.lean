/-
  C16, the `json` directive — "json output parses to a value structurally equal to the input".

  Specification side: Spec/Json.lean, the JSON grammar of RFC 8259 / ECMA-404 written from the
  standard (strings with all escapes and surrogate pairs, numbers, arrays, objects, whitespace).
  Model side: `Model.jsonString` (encoding/json's string encoder in HTML-safe mode, Model/Escape.lean,
  tied to /repo by the correspondence C16dir `jsonstr` / `dir json`).

  Strings — for EVERY byte string `s`:
  * `jsonString_sanitize`: the output is a JSON string literal that denotes `sanitize s`, i.e. `s` with
    each byte that begins no well-formed UTF-8 sequence replaced by U+FFFD;
  * `jsonString_roundtrip`: it denotes `s` itself when `s` is valid UTF-8;
  * `jsonString_safe`: the literal can be embedded in a <script> element / HTML: no control byte, no raw
    `<` `>` `&`, no raw U+2028 / U+2029, and no unescaped quotation mark between the two delimiters.
-/
import SoyVerif.Lemmas.JsonString

namespace SoyVerif.Props.C16b
open SoyVerif SoyVerif.Model SoyVerif.Spec SoyVerif.Spec.Json SoyVerif.Lemmas.JsonString

/-- for EVERY byte string: the output is a JSON string literal (RFC 8259 §7) and denotes the input
    with every invalid byte replaced by U+FFFD -/
theorem jsonString_sanitize (s : Bytes) : jsonDecodeString (jsonString s) = some (sanitize s) := by
  have h := roundtrip_body [] s.length s (Nat.le_refl _)
  simp only [jsonString, jsonDecodeString, List.cons_append, List.nil_append, List.append_assoc, sanitize]
  rw [h]

/-- valid UTF-8 comes back exactly -/
theorem jsonString_roundtrip (s : Bytes) (hs : ValidUtf8 s) : jsonDecodeString (jsonString s) = some s := by
  rw [jsonString_sanitize, sanitize_valid s hs]

/-- embedding safety, for EVERY byte string: the literal is `"` body `"` where the body has no control
    byte, no raw `<` `>` `&`, no raw U+2028 / U+2029 and no unescaped `"` (and no dangling backslash) -/
theorem jsonString_safe (s : Bytes) :
    ∃ body, jsonString s = [34] ++ body ++ [34] ∧ (∀ b ∈ body, byteSafe b = true) ∧
      quotesEscaped body = true ∧ noLineSep body = true := by
  have h := bytes_safe s 0
  refine ⟨jsonStringGo 0 s, rfl, h.1, ?_, lineSep_safe s 0⟩
  have := h.2 []
  simpa [quotesEscaped, quotesEscapedGo] using this

/-- the sanitised text is always valid UTF-8, and it is the input when the input is valid -/
theorem sanitize_id (s : Bytes) (hs : ValidUtf8 s) : sanitize s = s := sanitize_valid s hs

/-! ### non-vacuity -/

/- `a<"\é😀` + U+2028 + an invalid byte FF + control character 01 -/
example : jsonString [97, 60, 34, 92, 195, 169, 240, 159, 152, 128, 226, 128, 168, 255, 1] =
    [34, 97, 92, 117, 48, 48, 51, 99, 92, 34, 92, 92, 195, 169, 240, 159, 152, 128, 92, 117, 50, 48, 50, 56,
     92, 117, 102, 102, 102, 100, 92, 117, 48, 48, 48, 49, 34] := by decide
example : jsonDecodeString (jsonString [97, 60, 34, 92, 195, 169, 240, 159, 152, 128, 226, 128, 168, 255, 1]) =
    some [97, 60, 34, 92, 195, 169, 240, 159, 152, 128, 226, 128, 168, 239, 191, 189, 1] := by decide
/- `</script>` -/
example : jsonString [60, 47, 115, 99, 114, 105, 112, 116, 62] =
    [34, 92, 117, 48, 48, 51, 99, 47, 115, 99, 114, 105, 112, 116, 92, 117, 48, 48, 51, 101, 34] := by decide
/- the decoder is the RFC's: surrogate pairs, `\/`, upper-case hex; it rejects raw control characters, lone
   surrogates, a raw quote, a truncated literal, invalid UTF-8 -/
example : jsonDecodeString [34, 92, 117, 68, 56, 51, 68, 92, 117, 68, 69, 48, 48, 92, 47, 34] = some [240, 159, 152, 128, 47] := by decide
example : jsonDecodeString [34, 10, 34] = none ∧ jsonDecodeString [34, 92, 117, 68, 56, 51, 68, 34] = none ∧
    jsonDecodeString [34, 97, 34, 98, 34] = none ∧ jsonDecodeString [34, 97] = none ∧
    jsonDecodeString [34, 255, 34] = none ∧ jsonDecodeString [34, 92, 120, 34] = none := by decide
example : sanitize [97, 255, 226, 130, 172, 226, 130] = [97, 239, 191, 189, 226, 130, 172, 239, 191, 189, 239, 191, 189] := by decide

end SoyVerif.Props.C16b
