/-
  C16, the `json` directive — "json output parses to a value structurally equal to the input".

  Specification side: Spec/Json.lean, the JSON grammar of RFC 8259 / ECMA-404 written from the
  standard (strings with all escapes and surrogate pairs, numbers, arrays, objects, whitespace).
  Model side: `Model.jsonString` (encoding/json's string encoder in HTML-safe mode, Model/Escape.lean,
  tied to /repo by the correspondence C16dir `jsonstr` / `dir json`).

  Strings — for EVERY byte string `s`:
  * `jsonString_sanitize`: the output is a JSON string literal that denotes `sanitize s`, i.e. `s` with
    each byte that begins no well-formed UTF-8 sequence replaced by U+FFFD;
  * `jsonString_roundtrip`: it denotes `s` itself when `s` is valid UTF-8;
  * `jsonString_safe`: the literal can be embedded in a <script> element / HTML: no control byte, no raw
    `<` `>` `&`, no raw U+2028 / U+2029, and no unescaped quotation mark between the two delimiters.

  Values — `Model.JsonMarshal.jsonMarshal` is the model of `json.Marshal` on every Soy value (tied to
  /repo by the correspondence C16json):
  * `json_roundtrip`: the marshalled text is a JSON text (RFC 8259) and denotes `toJ v` — the same
    structure: undefined / null / nil list / nil map ↦ null, booleans, numbers with their literal, strings
    (sanitised), lists elementwise, maps as objects whose members are sorted by key (`json_keys_sorted`);
    `json_int_exact`: the literal of an int denotes exactly that int.
  * `json_roundtrip_total`: the same WITHOUT hypothesis — `FloatsOk` follows from the success of
    `jsonMarshal` and the output shape of the soft-float formatter (Lemmas/F64Shape.lean, Props/C20b.lean).
  * In `json_roundtrip` floats enter through the hypothesis `FloatsOk v`: every float is finite and its text (ES6 layout of the
    shortest digits, `F64.formatJS`) has the shape of a JSON number — a statement about the soft-float
    formatter that the correspondence validates and no theorem proves; `json_roundtrip_nofloat` is the
    unconditional theorem for values without floats.  That the float literal parses back to the same
    float is C20's format/parse tie, not part of this file.
-/
import SoyVerif.Lemmas.JsonString
import SoyVerif.Lemmas.JsonValue
import SoyVerif.Lemmas.F64Shape

namespace SoyVerif.Props.C16b
open SoyVerif SoyVerif.Model SoyVerif.Spec SoyVerif.Spec.Json SoyVerif.Lemmas.JsonString
open SoyVerif.Model.JsonMarshal SoyVerif.Lemmas.JsonValue

/-- for EVERY byte string: the output is a JSON string literal (RFC 8259 §7) and denotes the input
    with every invalid byte replaced by U+FFFD -/
theorem jsonString_sanitize (s : Bytes) : jsonDecodeString (jsonString s) = some (sanitize s) := by
  have h := roundtrip_body [] s.length s (Nat.le_refl _)
  simp only [jsonString, jsonDecodeString, List.cons_append, List.nil_append, List.append_assoc, sanitize]
  rw [h]

/-- valid UTF-8 comes back exactly -/
theorem jsonString_roundtrip (s : Bytes) (hs : ValidUtf8 s) : jsonDecodeString (jsonString s) = some s := by
  rw [jsonString_sanitize, sanitize_valid s hs]

/-- embedding safety, for EVERY byte string: the literal is `"` body `"` where the body has no control
    byte, no raw `<` `>` `&`, no raw U+2028 / U+2029 and no unescaped `"` (and no dangling backslash) -/
theorem jsonString_safe (s : Bytes) :
    ∃ body, jsonString s = [34] ++ body ++ [34] ∧ (∀ b ∈ body, byteSafe b = true) ∧
      quotesEscaped body = true ∧ noLineSep body = true := by
  have h := bytes_safe s 0
  refine ⟨jsonStringGo 0 s, rfl, h.1, ?_, lineSep_safe s 0⟩
  have := h.2 []
  simpa [quotesEscaped, quotesEscapedGo] using this

/-- the sanitised text is always valid UTF-8, and it is the input when the input is valid -/
theorem sanitize_id (s : Bytes) (hs : ValidUtf8 s) : sanitize s = s := sanitize_valid s hs

/-! ### values -/

/-- the marshalled text of a value is a JSON text and denotes the same structure -/
theorem json_roundtrip (v : Value) (out : Bytes) (h : jsonMarshal v = some out) (hf : FloatsOk v) :
    jsonDecode out = some (toJ v) := by
  have hp := parsesV v out h hf [] (out.length + 1) (Or.inl rfl) (Nat.le_succ_of_le (need_le v out h hf))
  simp only [List.append_nil] at hp
  simp [jsonDecode, hp, skipWs]

mutual
  /-- no float anywhere in the value (decidable) -/
  def floatFree : Value → Bool
    | .float _ => false
    | .list _ xs => floatFreeL xs
    | .map _ kvs => floatFreeM kvs
    | _ => true
  def floatFreeL : List Value → Bool
    | [] => true
    | x :: r => floatFree x && floatFreeL r
  def floatFreeM : List (Bytes × Value) → Bool
    | [] => true
    | (_, v) :: r => floatFree v && floatFreeM r
end

mutual
  theorem floatsOk_of_free : (v : Value) → floatFree v = true → FloatsOk v
    | .undefined, _ => by rw [FloatsOk] <;> first | trivial | (intros; contradiction)
    | .null, _ => by rw [FloatsOk] <;> first | trivial | (intros; contradiction)
    | .bool _, _ => by rw [FloatsOk] <;> first | trivial | (intros; contradiction)
    | .int _, _ => by rw [FloatsOk] <;> first | trivial | (intros; contradiction)
    | .str _, _ => by rw [FloatsOk] <;> first | trivial | (intros; contradiction)
    | .float _, h => by rw [floatFree] at h; exact absurd h (by simp)
    | .list _ xs, h => by rw [floatFree] at h; rw [FloatsOk]; exact Or.inr (floatsOkL_of_free xs h)
    | .map _ kvs, h => by rw [floatFree] at h; rw [FloatsOk]; exact Or.inr (floatsOkM_of_free kvs h)
  theorem floatsOkL_of_free : (xs : List Value) → floatFreeL xs = true → FloatsOkL xs
    | [], _ => by rw [FloatsOkL]; trivial
    | x :: r, h => by
        rw [floatFreeL, Bool.and_eq_true] at h
        rw [FloatsOkL]; exact ⟨floatsOk_of_free x h.1, floatsOkL_of_free r h.2⟩
  theorem floatsOkM_of_free : (kvs : List (Bytes × Value)) → floatFreeM kvs = true → FloatsOkM kvs
    | [], _ => by rw [FloatsOkM]; trivial
    | (_, v) :: r, h => by
        rw [floatFreeM, Bool.and_eq_true] at h
        rw [FloatsOkM]; exact ⟨floatsOk_of_free v h.1, floatsOkM_of_free r h.2⟩
end

/-- without floats there is no hypothesis (and `jsonMarshal` cannot fail): strings, ints, booleans,
    null / undefined, lists and maps of these, to any depth -/
theorem json_roundtrip_nofloat (v : Value) (out : Bytes) (h : jsonMarshal v = some out) (hf : floatFree v = true) :
    jsonDecode out = some (toJ v) :=
  json_roundtrip v out h (floatsOk_of_free v hf)

theorem jsonFloat_some_finite {f : F64} {lit : Bytes} (h : jsonFloat f = some lit) : f.isNaN = false ∧ f.isInf = false := by
  unfold jsonFloat at h
  cases hn : f.isNaN <;> cases hi : f.isInf <;> simp [hn, hi] at h ⊢

mutual
  /-- the float hypothesis is no hypothesis: a value that `json.Marshal` accepts has only finite floats
      (where it looks), and every finite float is written as a JSON number
      (`Lemmas.F64Shape.jsonFloat_finite`, the output shape of the soft-float formatter) -/
  theorem floatsOk_of_marshal : (v : Value) → ∀ out, jsonMarshal v = some out → FloatsOk v
    | .undefined, _, _ => by rw [FloatsOk] <;> first | trivial | (intros; contradiction)
    | .null, _, _ => by rw [FloatsOk] <;> first | trivial | (intros; contradiction)
    | .bool _, _, _ => by rw [FloatsOk] <;> first | trivial | (intros; contradiction)
    | .int _, _, _ => by rw [FloatsOk] <;> first | trivial | (intros; contradiction)
    | .str _, _, _ => by rw [FloatsOk] <;> first | trivial | (intros; contradiction)
    | .float f, out, h => by
        rw [jsonMarshal] at h
        rw [FloatsOk]
        obtain ⟨hn, hi⟩ := jsonFloat_some_finite h
        exact SoyVerif.Lemmas.F64Shape.jsonFloat_finite f hn hi
    | .list id xs, out, h => by
        rw [jsonMarshal] at h
        rw [FloatsOk]
        by_cases hid : (id == 0) = true
        · exact Or.inl (by simpa using hid)
        · simp only [hid, if_false, Bool.false_eq_true] at h
          split at h
          · rename_i body hb; exact Or.inr (floatsOkL_of_marshal xs body hb)
          · exact absurd h (by simp)
    | .map id kvs, out, h => by
        rw [jsonMarshal] at h
        rw [FloatsOk]
        by_cases hid : (id == 0) = true
        · exact Or.inl (by simpa using hid)
        · simp only [hid, if_false, Bool.false_eq_true] at h
          split at h
          · rename_i ms hm; exact Or.inr (floatsOkM_of_marshal kvs ms hm)
          · exact absurd h (by simp)
  theorem floatsOkL_of_marshal : (xs : List Value) → ∀ body, marshalElems xs = some body → FloatsOkL xs
    | [], _, _ => by rw [FloatsOkL]; trivial
    | [x], body, h => by
        rw [marshalElems] at h
        rw [FloatsOkL, FloatsOkL]; exact ⟨floatsOk_of_marshal x body h, trivial⟩
    | x :: y :: r, body, h => by
        rw [marshalElems] at h
        rw [FloatsOkL]
        split at h
        · rename_i a b ha hb
          exact ⟨floatsOk_of_marshal x a ha, floatsOkL_of_marshal (y :: r) b hb⟩
        · exact absurd h (by simp)
  theorem floatsOkM_of_marshal : (kvs : List (Bytes × Value)) → ∀ ms, marshalMembers kvs = some ms → FloatsOkM kvs
    | [], _, _ => by rw [FloatsOkM]; trivial
    | (k, v) :: r, ms, h => by
        rw [marshalMembers] at h
        rw [FloatsOkM]
        split at h
        · rename_i a ms' ha hm
          exact ⟨floatsOk_of_marshal v a ha, floatsOkM_of_marshal r ms' hm⟩
        · exact absurd h (by simp)
end

/-- C16, the json directive, WITHOUT hypothesis: whenever `json.Marshal` produces text for a Soy value
    (it fails exactly on a NaN or an infinity it meets), the text is JSON (RFC 8259) and denotes the same
    structure — floats included -/
theorem json_roundtrip_total (v : Value) (out : Bytes) (h : jsonMarshal v = some out) :
    jsonDecode out = some (toJ v) :=
  json_roundtrip v out h (floatsOk_of_marshal v out h)

/-- ints exactly: the number literal written for an int denotes that int -/
theorem json_int_exact (i : Int64) : toJ (.int i) = .num (F64.intDigits i.toInt) ∧ numInt (F64.intDigits i.toInt) = some i.toInt := by
  refine ⟨by rw [toJ], numInt_intDigits _⟩

/-- the members of an object are written in nondecreasing bytewise key order -/
theorem json_keys_sorted (kvs : List (Bytes × Value)) : SortedKeys (sortByKey (toJM kvs)) :=
  sorted_sortByKey _

/-! ### non-vacuity -/

/- `a<"\é😀` + U+2028 + an invalid byte FF + control character 01 -/
example : jsonString [97, 60, 34, 92, 195, 169, 240, 159, 152, 128, 226, 128, 168, 255, 1] =
    [34, 97, 92, 117, 48, 48, 51, 99, 92, 34, 92, 92, 195, 169, 240, 159, 152, 128, 92, 117, 50, 48, 50, 56,
     92, 117, 102, 102, 102, 100, 92, 117, 48, 48, 48, 49, 34] := by decide
example : jsonDecodeString (jsonString [97, 60, 34, 92, 195, 169, 240, 159, 152, 128, 226, 128, 168, 255, 1]) =
    some [97, 60, 34, 92, 195, 169, 240, 159, 152, 128, 226, 128, 168, 239, 191, 189, 1] := by decide
/- `</script>` -/
example : jsonString [60, 47, 115, 99, 114, 105, 112, 116, 62] =
    [34, 92, 117, 48, 48, 51, 99, 47, 115, 99, 114, 105, 112, 116, 92, 117, 48, 48, 51, 101, 34] := by decide
/- the decoder is the RFC's: surrogate pairs, `\/`, upper-case hex; it rejects raw control characters, lone
   surrogates, a raw quote, a truncated literal, invalid UTF-8 -/
example : jsonDecodeString [34, 92, 117, 68, 56, 51, 68, 92, 117, 68, 69, 48, 48, 92, 47, 34] = some [240, 159, 152, 128, 47] := by decide
example : jsonDecodeString [34, 10, 34] = none ∧ jsonDecodeString [34, 92, 117, 68, 56, 51, 68, 34] = none ∧
    jsonDecodeString [34, 97, 34, 98, 34] = none ∧ jsonDecodeString [34, 97] = none ∧
    jsonDecodeString [34, 255, 34] = none ∧ jsonDecodeString [34, 92, 120, 34] = none := by decide
example : sanitize [97, 255, 226, 130, 172, 226, 130] = [97, 239, 191, 189, 226, 130, 172, 239, 191, 189, 239, 191, 189] := by decide


/- values: {"b": [1, -2, "x<"], "a": null, "é": true} with a nil list inside -/
def exV : Value :=
  .map 5 [([98], .list 2 [.int 1, .int (-2), .str [120, 60]]), ([97], .null), ([195, 169], .bool true), ([99], .list 0 [])]

example : jsonMarshal exV = some [123, 34, 97, 34, 58, 110, 117, 108, 108, 44, 34, 98, 34, 58, 91, 49, 44, 45, 50, 44, 34, 120, 92, 117, 48, 48,
    51, 99, 34, 93, 44, 34, 99, 34, 58, 110, 117, 108, 108, 44, 34, 195, 169, 34, 58, 116, 114, 117, 101, 125] := by decide
  -- {"a":null,"b":[1,-2,"x\u003c"],"c":null,"é":true}
example : floatFree exV = true := by decide
example : (jsonDecode [123, 34, 97, 34, 58, 110, 117, 108, 108, 44, 34, 98, 34, 58, 91, 49, 44, 45, 50, 44, 34, 120, 92, 117, 48, 48,
    51, 99, 34, 93, 44, 34, 99, 34, 58, 110, 117, 108, 108, 44, 34, 195, 169, 34, 58, 116, 114, 117, 101, 125]).map
      (JVal.beq (.obj [([97], .null), ([98], .arr [.num [49], .num [45, 50], .str [120, 60]]), ([99], .null), ([195, 169], .bool true)])) =
    some true := by decide
def exOut : Bytes := [123, 34, 97, 34, 58, 110, 117, 108, 108, 44, 34, 98, 34, 58, 91, 49, 44, 45, 50, 44, 34, 120, 92, 117, 48, 48,
    51, 99, 34, 93, 44, 34, 99, 34, 58, 110, 117, 108, 108, 44, 34, 195, 169, 34, 58, 116, 114, 117, 101, 125]
example : jsonDecode exOut = some (toJ exV) := json_roundtrip_nofloat exV exOut (by decide) (by decide)

/- the specification decoder is the RFC's: whitespace, nested arrays, exponents; it rejects trailing commas,
   leading zeros, unquoted keys, a bare minus -/
example : (jsonDecode [32, 91, 49, 44, 32, 91, 93, 44, 10, 123, 34, 107, 34, 32, 58, 32, 50, 46, 53, 69, 43, 51, 125, 93, 32]).map
    (JVal.beq (.arr [.num [49], .arr [], .obj [([107], .num [50, 46, 53, 69, 43, 51])]])) = some true := by decide
example : jsonDecode [91, 49, 44, 93] = none ∧ jsonDecode [48, 49] = none ∧ jsonDecode [123, 107, 58, 49, 125] = none ∧
    jsonDecode [45] = none ∧ jsonDecode [49, 32, 50] = none := by decide


/- floats: 1.5, 1e+22 (exponent layout), -0, and NaN (no JSON form: the directive fails) — the hypothesis
   `FloatsOk` discharged for concrete floats by evaluating the soft-float formatter -/
def f15 : F64 := ⟨0x3ff8000000000000⟩
def f1e22 : F64 := ⟨0x4480f0cf064dd592⟩
def fneg0 : F64 := ⟨0x8000000000000000⟩
def exF : Value := .list 2 [.float f15, .float f1e22, .float fneg0, .int 7]

theorem exF_floats : jsonFloat f15 = some [49, 46, 53] ∧ jsonFloat f1e22 = some [49, 101, 43, 50, 50] ∧
    jsonFloat fneg0 = some [45, 48] ∧ jsonFloat ⟨0x7ff8000000000001⟩ = none ∧ jsonFloat ⟨0x7ff0000000000000⟩ = none := by
  decide +kernel

theorem exF_ok : FloatsOk exF := by
  obtain ⟨h1, h2, h3, _⟩ := exF_floats
  have d1 : AllDigits [49] := by intro b hb; simp at hb; subst hb; decide
  have d53 : AllDigits [53] := by intro b hb; simp at hb; subst hb; decide
  have d22 : AllDigits [50, 50] := by intro b hb; simp at hb; subst hb; decide
  have d0 : AllDigits [48] := by intro b hb; simp at hb; subst hb; decide
  simp only [exF, FloatsOk, FloatsOkL]
  refine Or.inr ⟨⟨_, h1, [], [49], [46, 53], [], rfl, Or.inl rfl, by simp, d1, Or.inr (by simp), Or.inr ⟨[53], rfl, by simp, d53⟩, Or.inl rfl⟩,
    ⟨_, h2, [], [49], [], [101, 43, 50, 50], rfl, Or.inl rfl, by simp, d1, Or.inr (by simp), Or.inl rfl,
      Or.inr ⟨101, [43], [50, 50], rfl, Or.inl rfl, Or.inr (Or.inl rfl), by simp, d22⟩⟩,
    ⟨_, h3, [45], [48], [], [], rfl, Or.inr rfl, by simp, d0, Or.inl rfl, Or.inl rfl, Or.inl rfl⟩, trivial, trivial⟩

example : jsonMarshal exF = some [91, 49, 46, 53, 44, 49, 101, 43, 50, 50, 44, 45, 48, 44, 55, 93] := by decide +kernel  -- [1.5,1e+22,-0,7]
example : jsonDecode [91, 49, 46, 53, 44, 49, 101, 43, 50, 50, 44, 45, 48, 44, 55, 93] = some (toJ exF) :=
  json_roundtrip exF _ (by decide +kernel) exF_ok
example : jsonDecode [91, 49, 46, 53, 44, 49, 101, 43, 50, 50, 44, 45, 48, 44, 55, 93] = some (toJ exF) :=
  json_roundtrip_total exF _ (by decide +kernel)
example : jsonMarshal (.list 3 [.float ⟨0x7ff8000000000001⟩]) = none := by decide +kernel

end SoyVerif.Props.C16b
