/-
  C19 (render half) — a render error carries the file that defines the ENTRY template and a line of that
  file: the line of the node the entry template's own walk was at when the failure occurred.

  The model (Model/Eval.lean) tracks `s.node` as the Go code does: `walk` moves it to every node it visits
  (`s.at`), `eval` restores it only on a normal return, `evalCall` runs the callee in a NEW state — so
  while a callee's panic propagates, the caller's `s.node` stays where the caller left it: at the call
  node (`renderBlock` restores `s.node` after a param content block that ended normally,
  `call_reports_call_node`) — and the top-level recover
  handler reports `Registry.Filename / LineNumber` of the entry state.  The exec correspondences
  (C01eval, C02exec, C06total) compare the reported line and file with the real code's
  `errortypes.ToErrFilePos(err)` on every failing case (multi-line tags and expressions, failures inside
  callees at depth, after content blocks, in messages, loops, switch cases, directive arguments).

  Theorems, for every registry, data, fuel:
  * `err_pos_in_entry_template` (a): on an error the reported position is the position of a node of the
    entry template — of its body (expression, command, block, raw text, html tag), never of a callee
    (`call_keeps_node`: a call command leaves `s.node` where the evaluation of the call's own params left
    it, whatever the callee did);
  * `err_file_is_entry_file`, `err_line_in_range` (b): the file is the entry template's; 1 ≤ line ≤ number
    of lines of that file; with `posOk` the position lies inside the source (so the slice of LineNumber
    is in range) and the line is the line of that position;
  * `failing_command_reported` (c): when a command list fails, the reported node is a node OF THE FIRST
    FAILING COMMAND of the list (the command itself or a node inside it: an expression, a nested command,
    a block) — not of an earlier or later command; `walk_ends_in_command`: after walking a command (ok or
    not) the state is at a node of that command.
  Full (c) — "the LAST node visited before the failure" — would need the visit trace in the model; the
  statement above pins the node to the failing command's subtree, which is what the reported line needs.
-/
import SoyVerif.Lemmas.EvalPos

namespace SoyVerif.Props.C19b
open SoyVerif SoyVerif.Model SoyVerif.Model.Eval

/-- after walking a block the state is at a node of that block -/
theorem execBody_node_mem (g : GEnv) (esc : Bool) (call : Registry.Tmpl → Run) (b : Block) (ctx : Scope) (st : St) :
    (execBody g esc call b ctx st).st.node ∈ posBlock b := by
  have h := execBody_tracks (S := fun p => p ∈ posBlock b) g esc call b (fun _ hp => hp)
  obtain ⟨p, cmds⟩ := b
  have hp : p ∈ posBlock (.mk p cmds) := by rw [posBlock]; exact List.mem_cons_self
  rw [execBody]
  have hc := execCmds_tracks (S := fun q => q ∈ posBlock (.mk p cmds)) g esc call cmds
    (fun q hq => by rw [posBlock]; exact List.mem_cons_of_mem _ hq) ctx (atNode st p)
  rcases hc with hc | hc
  · rw [hc]; exact hp
  · exact hc

/-- (c) after walking a command — successfully or not — the state is at a node of that command -/
theorem walk_ends_in_command (g : GEnv) (esc : Bool) (call : Registry.Tmpl → Run) (c : Cmd) (ctx : Scope) (st : St) :
    (execCmd g esc call c ctx (atNode st (cmdPos c))).st.node ∈ posCmd c := by
  rcases execCmd_tracks (S := fun p => p ∈ posCmd c) g esc call c (fun _ hp => hp) ctx (atNode st (cmdPos c)) with h | h
  · rw [h]; exact cmdPos_mem c
  · exact h

/-- a call leaves the caller's `s.node` at a node of the CALL COMMAND (where the evaluation of its own data
    / params left it), whatever the callee — any runner — did with its own state -/
theorem call_keeps_node (g : GEnv) (esc : Bool) (call : Registry.Tmpl → Run) (p : Nat) (name : Bytes) (allData : Bool)
    (data : Option Expr) (params : ParamList) (ctx : Scope) (st : St) :
    (execCmd g esc call (.call p name allData data params) ctx (atNode st p)).st.node ∈
      posCmd (.call p name allData data params) :=
  walk_ends_in_command g esc call (.call p name allData data params) ctx st

/-- (c) when a command list fails, the reported node belongs to the first failing command -/
theorem failing_command_reported (g : GEnv) (esc : Bool) (call : Registry.Tmpl → Run) :
    ∀ (cs : CmdList) (ctx : Scope) (st : St), (execCmds g esc call cs ctx st).cls = .err →
      ∃ pre c post, cs.toList = pre ++ c :: post ∧ (execCmds g esc call cs ctx st).st.node ∈ posCmd c ∧
        ∃ ctx' st', (execCmds g esc call cs ctx st) = execCmd g esc call c ctx' (atNode st' (cmdPos c)) ∧
          (execCmd g esc call c ctx' (atNode st' (cmdPos c))).cls = .err
  | .nil, ctx, st, h => by rw [execCmds] at h; simp at h
  | .cons c rest, ctx, st, h => by
    rw [execCmds] at h ⊢
    split at h
    · rename_i hok
      obtain ⟨pre, c', post, h1, h2, ctx', st', h3, h4⟩ := failing_command_reported g esc call rest _ _ h
      exact ⟨c :: pre, c', post, by rw [CmdList.toList, h1]; rfl, h2, ctx', st', h3, h4⟩
    · exact ⟨[], c, rest.toList, rfl, walk_ends_in_command g esc call c ctx st, ctx, st, rfl, h⟩

/-! ### a {call} whose params were evaluated without error reports the CALL node

  `renderBlock` restores `s.node` when the block ends normally, `eval` does too: after the params of a call
  — values and content blocks — the caller's state is at the node it was at before them, the call node. -/

theorem renderBlockOf_ok_node {body : Run} {ctx : Scope} {st : St} (h : (renderBlockOf body ctx st).1.cls = .ok) :
    (renderBlockOf body ctx st).1.st.node = st.node := by
  unfold renderBlockOf at h ⊢
  simp only at h ⊢
  simp [restoreNode, h, atNode]

/-- the params of a call, all evaluated / rendered without error: `s.node` is where it was -/
theorem execParams_ok_node (g : GEnv) (esc : Bool) (call : Registry.Tmpl → Run) :
    ∀ (ps : ParamList) (cd ctx : Scope) (st : St), (execParams g esc call ps cd ctx st).cls = .ok →
      (execParams g esc call ps cd ctx st).st.node = st.node
  | .nil, _, _, _, _ => by rw [execParams]
  | .value _ key e rest, cd, ctx, st, h => by
    rw [execParams] at h ⊢
    cases he : evalIn g e ctx st with
    | none => rw [he] at h; simp at h
    | some r =>
      obtain ⟨v, st1⟩ := r
      rw [he] at h
      simp only at h ⊢
      cases hs : set cd st1 key v with
      | none => rw [hs] at h; simp at h
      | some st2 =>
        rw [hs] at h
        simp only at h ⊢
        rw [execParams_ok_node g esc call rest cd ctx st2 h, set_node hs, evalIn_node he]
  | .content _ key body rest, cd, ctx, st, h => by
    rw [execParams] at h ⊢
    cases hc : (renderBlockOf (execBody g esc call body) ctx st).1.cls with
    | ok =>
      simp only [hc] at h ⊢
      cases hs : set cd (renderBlockOf (execBody g esc call body) ctx st).1.st key
          (.str (renderBlockOf (execBody g esc call body) ctx st).2) with
      | none => rw [hs] at h; simp at h
      | some st2 =>
        rw [hs] at h
        simp only at h ⊢
        rw [execParams_ok_node g esc call rest cd _ st2 h, set_node hs, renderBlockOf_ok_node hc]
    | err => simp [hc] at h
    | panic => simp [hc] at h
    | fuelOut => simp [hc] at h

/-- (c), for calls: once the data expression and the params of a {call} have been evaluated / rendered
    without error, whatever happens next — the callee fails at any depth, or succeeds — the caller's state is
    at the {call} NODE ITSELF: that is the node (file, line) an error of the callee is reported at, also
    when the call has {param}…{/param} content blocks -/
theorem call_reports_call_node (g : GEnv) (esc : Bool) (call : Registry.Tmpl → Run) (p : Nat) (name : Bytes)
    (allData : Bool) (data : Option Expr) (params : ParamList) (ctx : Scope) (st : St) (callee : Registry.Tmpl)
    (cd : Scope) (st1 : St) (hl : Registry.lookup g.reg name = some callee)
    (hcd : callData g allData data ctx (atNode st p) = some (cd, st1))
    (hps : (execParams g esc call params cd ctx st1).cls = .ok) :
    (execCmd g esc call (.call p name allData data params) ctx (atNode st p)).st.node = p := by
  have hn : (execParams g esc call params cd ctx st1).st.node = p := by
    rw [execParams_ok_node g esc call params cd ctx st1 hps, callData_node hcd]; rfl
  rw [execCmd, hl]
  simp only [hcd, hps]
  split
  · exact hn
  · exact hn

/-- a template invocation ends at a node of that template's body -/
theorem runTmpl_node_mem (g : GEnv) (fuel : Nat) (t : Registry.Tmpl) (ctx : Scope) (st : St) :
    (runTmpl g (fuel + 1) t ctx st).st.node ∈ posBlock t.body := by
  rw [runTmpl]; exact execBody_node_mem g _ _ t.body ctx _

/-- the number of lines of a source text -/
def lineCount (text : Bytes) : Nat := 1 + text.count 10

/-- (a) on an error, the reported position is the position of a node of the ENTRY template's body -/
theorem err_pos_in_entry_template (g : GEnv) (name : Bytes) (data : Frame) (fuel : Nat) (t : Registry.Tmpl)
    (ht : Registry.lookup g.reg name = some t)
    (herr : (execute g name data fuel).cls = .err ∨ (execute g name data fuel).cls = .panic) :
    (execute g name data fuel).pos ∈ posBlock t.body := by
  unfold execute at herr ⊢
  rw [ht] at herr ⊢
  simp only at herr ⊢
  cases fuel with
  | zero =>
    -- out of call depth at once: neither err nor panic
    simp [enter, newScope, push, runTmpl] at herr
  | succ n =>
    simp only [enter, newScope, push]
    exact runTmpl_node_mem g n t _ _

/-- (b) the reported file is the file that defines the entry template -/
theorem err_file_is_entry_file (g : GEnv) (name : Bytes) (data : Frame) (fuel : Nat) (t : Registry.Tmpl)
    (ht : Registry.lookup g.reg name = some t) : (execute g name data fuel).file = t.file := by
  unfold execute
  rw [ht]
  simp [enter, newScope, push]

/-- (b) the reported line is a line of the entry template's file … -/
theorem err_line_in_range (g : GEnv) (name : Bytes) (data : Frame) (fuel : Nat) (t : Registry.Tmpl)
    (ht : Registry.lookup g.reg name = some t) :
    (execute g name data fuel).line = lineNumber t.text (execute g name data fuel).pos ∧
    1 ≤ (execute g name data fuel).line ∧ (execute g name data fuel).line ≤ lineCount t.text := by
  unfold execute
  rw [ht]
  simp only [enter, newScope, push]
  refine ⟨trivial, by simp [lineNumber], ?_⟩
  simp only [lineNumber, lineCount]
  exact Nat.add_le_add_left ((List.take_sublist _ _).count_le _) 1

/-- … and under `posOk` the reported position lies inside the source: the slice `src[:pos]` of
    Registry.LineNumber / ColNumber is in range -/
theorem err_pos_in_source (g : GEnv) (name : Bytes) (data : Frame) (fuel : Nat) (t : Registry.Tmpl)
    (ht : Registry.lookup g.reg name = some t) (hp : posOk t = true)
    (herr : (execute g name data fuel).cls = .err) : (execute g name data fuel).pos ≤ t.text.length := by
  have hm := err_pos_in_entry_template g name data fuel t ht (Or.inl herr)
  simp only [posOk, List.all_eq_true, decide_eq_true_eq] at hp
  exact hp _ (List.mem_cons_of_mem _ hm)

/-! ### non-vacuity

  file f (text "\n\n{call}\nxx"): template .t = `{call .c /}` at position 2 (line 3); template .c prints an
  undefined value at its own position 9.  The error is reported at the CALL node of .t, line 3 — not at
  the callee's failing print. -/

def tC : Registry.Tmpl :=
  { name := [99], params := [], body := .mk 8 (.cons (.print 9 (.dataRef 10 [117] .nil) []) .nil),
    autoescape := .unspecified, nsName := [110], nsAutoescape := .unspecified, pos := 7, file := [103], text := [0, 0, 0, 0, 0, 0, 0, 0, 0, 0, 0, 0] }

def tT : Registry.Tmpl :=
  { name := [116], params := [], body := .mk 1 (.cons (.call 2 [99] false none .nil) .nil),
    autoescape := .unspecified, nsName := [110], nsAutoescape := .unspecified, pos := 0, file := [102], text := [10, 10, 123, 125, 10, 120, 120] }

def g0 : GEnv := { reg := [tT, tC], globals := [], ij := none, msgs := none, tbl := [], oblig := [] }

example : (execute g0 [116] [] 5).cls = .err := by decide
example : (execute g0 [116] [] 5).pos = 2 ∧ (execute g0 [116] [] 5).line = 3 ∧ (execute g0 [116] [] 5).file = [102] := by decide
/-- rendered directly, the callee reports its own node -/
example : (execute g0 [99] [] 5).pos = 10 ∧ (execute g0 [99] [] 5).file = [103] := by decide

/-! a call with a content block: template .p = `{call .c}{param x}⏎line⏎{/param}{/call}` — call node at
    position 2 (line 3), the param's block at 10…16 (lines 4–5).  The callee fails: reported at the CALL
    node, line 3, not at the last node of the param body. -/
def tP : Registry.Tmpl :=
  { name := [112], params := [],
    body := .mk 1 (.cons (.call 2 [99] false none (.content 5 [120] (.mk 10 (.cons (.rawText 12 [108]) .nil)) .nil)) .nil),
    autoescape := .unspecified, nsName := [110], nsAutoescape := .unspecified, pos := 0, file := [102],
    text := [10, 10, 123, 99, 125, 123, 112, 125, 10, 108, 10, 123, 47, 112, 125, 123, 47, 99, 125] }

def g1 : GEnv := { reg := [tP, tC], globals := [], ij := none, msgs := none, tbl := [], oblig := [] }

example : (execute g1 [112] [] 5).cls = .err ∧ (execute g1 [112] [] 5).pos = 2 ∧ (execute g1 [112] [] 5).line = 3 := by
  decide

/-- the same by the theorem: the params ended ok, so the node is the call node -/
example : (execCmd g1 true (runTmpl g1 4) (.call 2 [99] false none (.content 5 [120] (.mk 10 (.cons (.rawText 12 [108]) .nil)) .nil))
    [⟨1, false⟩, ⟨0, true⟩] (atNode { heap := [⟨[], true⟩, ⟨[], false⟩], out := [], next := 2, foreign := 0 } 2)).st.node = 2 :=
  call_reports_call_node g1 true (runTmpl g1 4) 2 [99] false none _ _ _ tC _ _ rfl rfl (by decide)

end SoyVerif.Props.C19b
