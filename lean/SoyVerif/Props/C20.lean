/-
  C20 — Go values convert faithfully to Soy data and the value laws hold.

  Theorems about the models of data/value.go (Model/Value.lean) and data/convert.go
  (Model/Convert.lean); the models are tied to the code by the correspondences C20f64 / C20val /
  C20conv.  `Spec.JsonLike` / `Spec.Shape` (Spec/Convert.lean) state "JSON-like input" and "same
  structure and scalar values" from the property text.
-/
import SoyVerif.Lemmas.Value
import SoyVerif.Lemmas.Convert

namespace SoyVerif.C20
open SoyVerif SoyVerif.Spec SoyVerif.Convert

/-! ## value laws (for ALL values) -/

/-- equality is symmetric -/
theorem equals_symm (a b : Value) : a.equals b = b.equals a := by
  cases a <;> cases b <;> simp [Value.equals, F64.eq_comm, BEq.comm]

/-- equality across int/float is the IEEE comparison of the converted integer, in both directions -/
theorem equals_int_float_numeric (i : Int64) (f : F64) :
    Value.equals (.int i) (.float f) = F64.eq (F64.ofInt64 i) f ∧
    Value.equals (.float f) (.int i) = F64.eq (F64.ofInt64 i) f := by
  constructor
  · rfl
  · simp [Value.equals, F64.eq_comm]

/-- NaN equals nothing, not even itself -/
theorem equals_nan (f : F64) (h : f.isNaN = true) (v : Value) : Value.equals (.float f) v = false := by
  cases v <;> simp [Value.equals, F64.eq_nan_left _ _ h]

/-- values of different kinds (other than int/float) are never equal: no coercion -/
theorem equals_no_coercion (s : Bytes) (i : Int64) (b : Bool) (f : F64) :
    Value.equals (.str s) (.int i) = false ∧ Value.equals (.str s) (.float f) = false ∧
    Value.equals (.bool b) (.int i) = false ∧ Value.equals .null .undefined = false ∧
    Value.equals (.str s) (.bool b) = false ∧ Value.equals .null (.int i) = false := by
  simp [Value.equals]

/-- the truthiness table, exactly: undefined, null, false, 0, ±0.0, NaN and "" are falsy and nothing else is.
    `isZero`/`isNaN` are the concrete bit-level predicates of the soft-float (see `F64.isNaN_iff`). -/
theorem truthy_table (v : Value) :
    v.truthy = false ↔
      v = .undefined ∨ v = .null ∨ v = .bool false ∨ v = .int 0 ∨
      (∃ f, v = .float f ∧ (f.isZero = true ∨ f.isNaN = true)) ∨ v = .str [] := by
  cases v with
  | undefined => simp [Value.truthy]
  | null => simp [Value.truthy]
  | bool b => cases b <;> simp [Value.truthy]
  | int i => simp [Value.truthy]
  | float f =>
    simp only [Value.truthy]
    constructor
    · intro h
      refine Or.inr (Or.inr (Or.inr (Or.inr (Or.inl ⟨f, rfl, ?_⟩))))
      cases hz : F64.eq f F64.zero
      · simp [hz] at h
        exact Or.inr h
      · exact Or.inl ((F64.eq_zero_iff f).1 hz)
    · rintro (h | h | h | h | ⟨g, hg, h⟩ | h)
      · cases h
      · cases h
      · cases h
      · cases h
      · cases hg
        rcases h with h | h
        · simp [(F64.eq_zero_iff f).2 h]
        · simp [h]
      · cases h
  | str s => cases s <;> simp [Value.truthy]
  | list i xs => simp [Value.truthy]
  | map i kvs => simp [Value.truthy]

/-- NaN is falsy (the concrete NaN predicate: exponent all ones, fraction non-zero) -/
theorem nan_falsy (f : F64) (h : F64.infMag < f.bits.toNat % F64.two63) : Value.truthy (.float f) = false :=
  (truthy_table _).2 (Or.inr (Or.inr (Or.inr (Or.inr (Or.inl ⟨f, rfl, Or.inr ((F64.isNaN_iff f).2 h)⟩)))))

/-- every list and map is truthy, the empty ones included -/
theorem collections_truthy (i : Nat) (xs : List Value) (kvs : List (Bytes × Value)) :
    Value.truthy (.list i xs) = true ∧ Value.truthy (.map i kvs) = true := ⟨rfl, rfl⟩

/-- printing is deterministic: whatever order the runtime ranges over the maps in (any permutation,
    chosen per map and even per call), `String()` returns the same bytes or panics the same way -/
theorem toString_order_independent (o₁ o₂ : List Bytes → List Bytes)
    (h₁ : ∀ l, (o₁ l).Perm l) (h₂ : ∀ l, (o₂ l).Perm l) (v : Value) :
    v.toString o₁ = v.toString o₂ :=
  Value.toString_oi o₁ o₂ h₁ h₂ v

/-- printing fails only on undefined outside a map -/
theorem toString_undefined (o : List Bytes → List Bytes) : Value.toString o .undefined = none := by
  simp [Value.toString]

/-! ## conversion -/

/-- an existing Soy value is returned as is … -/
theorem convert_idempotent (lc : Bool) (v : Value) : convert lc (.value v) = some v := by
  simp [convert, convM]

/-- … hence converting the result of a conversion again changes nothing -/
theorem convert_twice (lc : Bool) (g : GoVal) (v : Value) (_ : convert lc g = some v) :
    convert lc (.value v) = some v :=
  convert_idempotent lc v

/-- JSON-like values never panic and convert to a value of the same shape with the same scalars;
    struct fields appear under `fieldKey lc name` and unexported fields do not appear. -/
theorem convert_shape (lc : Bool) (g : GoVal) (h : JsonLike (fieldKey lc) g = true) :
    ∃ v, convert lc g = some v ∧ Shape (fieldKey lc) g v := by
  obtain ⟨v, n', e, s, _⟩ := shapeM lc g (freshBase g) (by unfold freshBase; omega) h
  exact ⟨v, by simp [convert, e], s⟩

/-- the same, read from the result -/
theorem convert_shape_of_result (lc : Bool) (g : GoVal) (v : Value) (h : JsonLike (fieldKey lc) g = true)
    (e : convert lc g = some v) : Shape (fieldKey lc) g v := by
  obtain ⟨v', e', s⟩ := convert_shape lc g h
  rw [e] at e'
  cases e'
  exact s

/-- scalars, kind by kind -/
theorem convert_scalars (lc : Bool) :
    convert lc .nil = some .null ∧ convert lc .nilPtr = some .null ∧
    (∀ b, convert lc (.bool b) = some (.bool b)) ∧
    (∀ k i, convert lc (.int k i) = some (.int i)) ∧
    (∀ f, convert lc (.float32 f) = some (.float f)) ∧ (∀ f, convert lc (.float64 f) = some (.float f)) ∧
    (∀ s, convert lc (.string s) = some (.str s)) ∧ (∀ s, convert lc (.time s) = some (.str s)) ∧
    convert lc .nilSlice = some (.list 0 []) := by
  simp [convert, convM, convK]

/-- unsigned integers keep their value exactly under the guard `u < 2^63` … -/
theorem convert_uint (lc : Bool) (k : UintKind) (u : UInt64) (h : u.toNat < 2 ^ 63) :
    ∃ i : Int64, convert lc (.uint k u) = some (.int i) ∧ i.toInt = (u.toNat : Int) :=
  ⟨u.toInt64, by simp [convert, convM, convK], uint_guard u h⟩

/-- … and the guard is needed: `uint64(2^63)` becomes a negative Int (the known quirk of `Int(v.Uint())`) -/
theorem convert_uint_guard_needed :
    ∃ i : Int64, convert true (.uint .uint64 9223372036854775808) = some (.int i) ∧ i.toInt < 0 :=
  ⟨(9223372036854775808 : UInt64).toInt64, by simp [convert, convM, convK], by decide⟩

/-- pointers and interface holders are transparent on JSON-like values -/
theorem convert_ptr (lc : Bool) (g : GoVal) (h : JsonLike (fieldKey lc) g = true) :
    ∃ v, convert lc (.ptr g) = some v ∧ Shape (fieldKey lc) g v := by
  obtain ⟨v, e, s⟩ := convert_shape lc (.ptr g) (by simpa [JsonLike] using h)
  cases s with
  | ptr s' => exact ⟨v, e, s'⟩

/-- the conversions that panic: unsupported kinds, non-empty maps with non-string keys; a nil pointer to a
    marshaler type is null like every nil pointer -/
theorem convert_panics (lc : Bool) (n : Nat) :
    convert lc .unsupported = none ∧ convert lc (.keyedMap (n + 1)) = none ∧
    convert lc .nilMarshalerPtr = some .null ∧ convert lc (.slice [.unsupported]) = none := by
  simp [convert, convM, convK, convList]

/-- a Marshaler converts to what it marshals to; so does a pointer to one -/
theorem convert_marshaler (lc : Bool) (r : Value) (u : GoVal) (pr : Bool) :
    convert lc (.marshaler false r u) = some r ∧ convert lc (.ptr (.marshaler pr r u)) = some r := by
  simp [convert, convM]

/-- struct fields appear under their lowerCamel names: the key of a field is `lowerFirst name` when
    the option is set and the name itself otherwise, and for a name starting with an ASCII byte this is
    the name with that first letter lower-cased. -/
theorem lowerCamel_keys :
    (∀ name, fieldKey true name = lowerFirst name) ∧ (∀ name, fieldKey false name = name) ∧
    (∀ (c : UInt8) (rest : Bytes), c < 128 → lowerFirst (c :: rest) = asciiLowerFirst (c :: rest)) := by
  refine ⟨fun _ => rfl, fun _ => rfl, ?_⟩
  intro c rest h
  have hc : c.toNat < 128 := by simpa [UInt8.lt_iff_toNat_lt] using h
  have hd : decodeRune (c :: rest) = (c.toNat, 1) := by simp [decodeRune, h]
  unfold lowerFirst
  rw [hd]
  simp only [lower_ascii c h, asciiLowerFirst, List.drop_succ_cons, List.drop_zero, List.cons_append, List.nil_append]

/-- a converted struct lists its exported fields, in order, under those keys -/
theorem lowerCamel_struct (lc : Bool) (fs : List (Bytes × Bool × GoVal))
    (h : JsonLike (fieldKey lc) (.struct fs) = true) :
    ∃ id m, convert lc (.struct fs) = some (.map id m) ∧ ShapeFields (fieldKey lc) fs m := by
  obtain ⟨v, e, s⟩ := convert_shape lc (.struct fs) h
  cases s with
  | struct _ sf => exact ⟨_, _, e, sf⟩

/-! ## non-vacuity -/

-- "Foo": int8(5), unexported "bar": chan  ⟶  {foo: 5}
example : convert true (.struct [([70,111,111], true, .int .int8 5), ([98,97,114], false, .unsupported)])
    = some (.map 2 [([102,111,111], .int 5)]) := by
  simp [convert, convM, convK, convFields, freshBase, maxId, maxIdFields, Value.insert, fieldKey, lowerFirst,
    decodeRune, toLower, encodeRune]

example : JsonLike (fieldKey true)
    (.struct [([70,111,111], true, .ptr (.slice [.nil, .uint .uint8 200])), ([98,97,114], false, .unsupported)]) = true := by
  simp [JsonLike, JsonLikeFields, JsonLikeList]

example : JsonLike (fieldKey true) (.slice [.value .null]) = false := by simp [JsonLike, JsonLikeList]

example : Value.equals (.int 3) (.float (F64.ofInt64 3)) = true := by decide
example : Value.equals (.float F64.nan) (.float F64.nan) = false := by decide
example : Value.truthy (.float F64.nan) = false := by decide
example : Value.truthy (.float F64.negZero) = false := by decide
example : Value.truthy (.str [48]) = true := by decide
example : Value.equals (.list 0 []) (.list 1 []) = false := by decide

-- {b: undefined, a: [1, true]} printed under two iteration orders
example : (Value.map 2 [([98], .undefined), ([97], .list 3 [.int 1, .bool true])]).toString id
    = some [123, 97, 58, 32, 91, 49, 44, 32, 116, 114, 117, 101, 93, 44, 32, 98, 58, 32, 117, 110, 100, 101, 102, 105, 110, 101, 100, 125] := by
  decide
example : (Value.map 2 [([98], .undefined), ([97], .list 3 [.int 1, .bool true])]).toString List.reverse
    = (Value.map 2 [([98], .undefined), ([97], .list 3 [.int 1, .bool true])]).toString id :=
  toString_order_independent _ _ (fun l => List.reverse_perm l) (fun l => List.Perm.refl l) _

end SoyVerif.C20
