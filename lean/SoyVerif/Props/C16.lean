/-
  C16 — Print directives encode faithfully.

  Theorems over the byte-level models of Model/Escape.lean and Model/Directives.lean (tied to
  /repo by the correspondence C16dir and the generated directive table).  Specification side:
  Spec/Percent.lean (percent-decoding, URL-safe alphabet), Spec/Html.lean (reference decoder,
  removal of an inserted tag).  All statements hold for ALL byte strings.
-/
import SoyVerif.Lemmas.EscapeQuery

namespace SoyVerif.Props.C16
open SoyVerif SoyVerif.Model SoyVerif.Spec
open SoyVerif.Lemmas.EscapeQuery

/-- (5) escapeUri = net/url.QueryEscape: the output consists of unreserved characters
    [A-Za-z0-9-_.~], `+` and `%` only, and percent-decodes back to exactly the value. -/
theorem queryEscape_roundtrip_safe (s : Bytes) :
    (∀ b ∈ queryEscape s, isUnreserved b = true ∨ b = 43 ∨ b = 37) ∧
    queryUnescape (queryEscape s) = some s :=
  ⟨(urlSafe_iff _).1 (queryEscape_urlSafe s), queryUnescape_queryEscape s⟩

example : queryEscape [97, 32, 47, 38, 255, 126] = [97, 43, 37, 50, 70, 37, 50, 54, 37, 70, 70, 126] := by decide
example : queryUnescape [97, 43, 37, 50, 70, 37, 102, 102] = some [97, 32, 47, 255] := by decide
example : queryUnescape [37, 50] = none := by decide
example : urlSafe [47] = false := by decide

end SoyVerif.Props.C16
