/-
  C16 — Print directives encode faithfully.

  Theorems over the byte-level models of Model/Escape.lean and Model/Directives.lean (tied to
  /repo by the correspondence C16dir and the generated directive table).  Specification side:
  Spec/Percent.lean (percent-decoding, URL-safe alphabet), Spec/Html.lean (reference decoder,
  removal of an inserted tag).  All statements hold for ALL byte strings.
-/
import SoyVerif.Lemmas.EscapeQuery
import SoyVerif.Lemmas.EscapeBreaks
import SoyVerif.Lemmas.Truncate
import SoyVerif.Lemmas.JsEscapeB

namespace SoyVerif.Props.C16
open SoyVerif SoyVerif.Model SoyVerif.Spec SoyVerif.Model.Directives
open SoyVerif.Lemmas.EscapeQuery SoyVerif.Lemmas.EscapeBreaks SoyVerif.Lemmas.EscapeHtml SoyVerif.Lemmas.Truncate

/-- (5) escapeUri = net/url.QueryEscape: the output consists of unreserved characters
    [A-Za-z0-9-_.~], `+` and `%` only, and percent-decodes back to exactly the value. -/
theorem queryEscape_roundtrip_safe (s : Bytes) :
    (∀ b ∈ queryEscape s, isUnreserved b = true ∨ b = 43 ∨ b = 37) ∧
    queryUnescape (queryEscape s) = some s :=
  ⟨(urlSafe_iff _).1 (queryEscape_urlSafe s), queryUnescape_queryEscape s⟩

example : queryEscape [97, 32, 47, 38, 255, 126] = [97, 43, 37, 50, 70, 37, 50, 54, 37, 70, 70, 126] := by decide
example : queryUnescape [97, 43, 37, 50, 70, 37, 102, 102] = some [97, 32, 47, 255] := by decide
example : queryUnescape [37, 50] = none := by decide
example : urlSafe [47] = false := by decide

/-- (4a) changeNewlineToBr changes nothing but line breaks: with the inserted `<br>` removed the
    output is exactly the escaped text of the value without its CR / LF bytes (so no data byte
    passes raw), and in the output as written every `&` still begins a complete character
    reference (no reference is cut by a `<br>`). -/
theorem changeNewlineToBr_only_breaks (s : Bytes) :
    removeTag brTag (changeNewlineToBr s) = htmlEscape (s.filter notNL) ∧
    (∀ pre post, changeNewlineToBr s = pre ++ 38 :: post → (matchRef (38 :: post)).isSome = true) := by
  refine ⟨?_, (ampsStartRefs_iff _).1 (nl_amps s false)⟩
  unfold removeTag changeNewlineToBr
  rw [removeBr_nlToBr _ (fun b hb => ((noRawSpecial_iff _).1 (htmlEscape_noRaw s) b hb).1), filter_notNL_htmlEscape]

example : changeNewlineToBr [60, 13, 10, 97, 10] = [38, 108, 116, 59, 60, 98, 114, 62, 97, 60, 98, 114, 62] := by decide
example : removeTag brTag [38, 108, 116, 59, 60, 98, 114, 62, 97, 60, 98, 114, 62] = [38, 108, 116, 59, 97] := by decide

/-- (4b) insertWordBreaks changes nothing but break opportunities, for every limit `n` (in range
    or not): with the inserted `<wbr>` removed the output is exactly the escaped text of the value,
    and in the output as written every `&` still begins a complete character reference — a
    `<wbr>` is never put inside a reference (`wordBreaks_keeps_entities`). -/
theorem insertWordBreaks_only_breaks (s : Bytes) (n : Int) :
    removeTag wbrTag (insertWordBreaks s n) = htmlEscape s ∧
    (∀ pre post, insertWordBreaks s n = pre ++ 38 :: post → (matchRef (38 :: post)).isSome = true) := by
  refine ⟨?_, (ampsStartRefs_iff _).1 (wb_amps n s 0 0 (by simp))⟩
  unfold removeTag insertWordBreaks
  exact removeWbr_wordBreaks n _ (fun b hb => ((noRawSpecial_iff _).1 (htmlEscape_noRaw s) b hb).1) 0 0 false

/- "<<<<" with n = 2: the break falls between two references, not inside one -/
example : insertWordBreaks [60, 60, 60, 60] 2 =
    [38, 108, 116, 59, 38, 108, 116, 59, 60, 119, 98, 114, 62, 38, 108, 116, 59, 38, 108, 116, 59] := by decide
example : insertWordBreaks [97, 98, 99] 1 = [97, 60, 119, 98, 114, 62, 98, 60, 119, 98, 114, 62, 99] := by decide
/- a four-byte rune counts as one character and is not split -/
example : insertWordBreaks [240, 159, 152, 128, 97] 1 = [240, 159, 152, 128, 60, 119, 98, 114, 62, 97] := by decide

/-- (6) truncate(n) / truncate(n, e) with an in-range limit n ≥ 0, exactly as the code behaves
    (`truncArgs n none` = one argument, ellipsis defaults to true; `truncCut` = n-3 if the ellipsis
    is on and n > 3, else n; `truncEll` = "..." in that case, else nothing):

    * the call never panics;
    * a value that fits is returned unchanged;
    * otherwise the result is `str[:k] ++ truncEll` where k is the LAST rune start at or before
      the cut position — the byte at k is not a continuation byte and every byte after it up to
      the cut is — or k = 0 (the empty prefix) when there is no rune start there (text that
      begins with continuation bytes, i.e. not UTF-8); it is at most n bytes long;
    * on well-formed UTF-8 the result is well-formed UTF-8. -/
theorem truncate_spec (str : Bytes) (n : Nat) (oe : Option Bool) :
    (str.length ≤ n → truncate str (truncArgs n oe) = .ok str) ∧
    (n < str.length →
      ∃ k, truncate str (truncArgs n oe) = .ok (str.take k ++ truncEll n (oe.getD true)) ∧
          k ≤ truncCut n (oe.getD true) ∧ (k = 0 ∨ startAt str k) ∧
          (∀ j, k < j → j ≤ truncCut n (oe.getD true) → contAt str j) ∧
          (str.take k ++ truncEll n (oe.getD true)).length ≤ n) ∧
    (∃ out, truncate str (truncArgs n oe) = .ok out ∧ (ValidUtf8 str → ValidUtf8 out)) := by
  have hcut : truncCut n (oe.getD true) ≤ n := by unfold truncCut; split <;> omega
  have hlen : ∀ k, k ≤ truncCut n (oe.getD true) → n < str.length →
      (str.take k ++ truncEll n (oe.getD true)).length ≤ n := by
    intro k hk hl
    simp only [List.length_append, List.length_take]
    unfold truncCut at hk
    unfold truncEll
    by_cases hc : (oe.getD true && decide (n > 3)) = true
    · rw [if_pos hc] at hk ⊢
      simp only [Bool.and_eq_true, decide_eq_true_eq] at hc
      simp only [ellipsisBytes, List.length_cons, List.length_nil]
      omega
    · rw [if_neg hc] at hk ⊢
      simp only [List.length_nil]
      omega
  have hcase : n < str.length →
      ∃ k, truncate str (truncArgs n oe) = .ok (str.take k ++ truncEll n (oe.getD true)) ∧
          k ≤ truncCut n (oe.getD true) ∧ (k = 0 ∨ startAt str k) ∧
          (∀ j, k < j → j ≤ truncCut n (oe.getD true) → contAt str j) ∧
          (str.take k ++ truncEll n (oe.getD true)).length ≤ n := by
    intro hl
    rw [truncate_unfold, if_neg (by omega)]
    obtain ⟨k, hs⟩ := scanBack_isSome str (truncCut n (oe.getD true)) (by omega)
    obtain ⟨h1, h2, h3⟩ := scanBack_some str _ k hs
    exact ⟨k, by rw [hs], h1, h2, h3, hlen k h1 hl⟩
  refine ⟨fun hl => by rw [truncate_unfold, if_pos hl], hcase, ?_⟩
  by_cases hl : str.length ≤ n
  · exact ⟨str, by rw [truncate_unfold, if_pos hl], id⟩
  · obtain ⟨k, hk, _, hst, _, _⟩ := hcase (by omega)
    refine ⟨_, hk, fun hv => ValidUtf8.append ?_ ?_⟩
    · rcases hst with rfl | hst
      · simp; exact ValidUtf8.nil
      · exact ValidUtf8.take hv k (Or.inr hst)
    · unfold truncEll
      split
      · exact ValidUtf8.seq [46] _ (by decide) (ValidUtf8.seq [46] _ (by decide) (ValidUtf8.seq [46] _ (by decide) ValidUtf8.nil))
      · exact ValidUtf8.nil

/- "héllo" style cases: the cut falls inside é (C3 A9) and moves back to its start -/
example : truncate [104, 195, 169, 108, 108, 111] (truncArgs 2 (some false)) = .ok [104] := by decide
example : truncate [104, 195, 169, 108, 108, 111] (truncArgs 5 none) = .ok [104, 46, 46, 46] := by decide
example : truncate [104, 195, 169] (truncArgs 3 none) = .ok [104, 195, 169] := by decide
/- text that starts with continuation bytes (not UTF-8): the empty prefix, no panic any more -/
example : truncate [128, 128] (truncArgs 1 none) = .ok [] := by decide
example : truncate [183] (truncArgs 0 none) = .ok [] := by decide
example : truncate [128, 128, 128, 128, 128, 128] (truncArgs 5 none) = .ok [46, 46, 46] := by decide
example : ValidUtf8 [104, 195, 169] :=
  ValidUtf8.seq [104] _ (by decide) (ValidUtf8.seq [195, 169] _ (by decide) ValidUtf8.nil)

/-- (7) the JavaScript string escaper proposed for soy (`Model/JsEscape2.lean`:
    text/template.JSEscape with astral runes as surrogate pairs), for EVERY table `isPrint`:

    safety, for every byte string (UTF-8 or not) — the output
    * has no control byte (so no LF / CR) and none of  < > & = ,
    * has every ' and " directly behind an escaping backslash, and no dangling backslash,
    * has no raw U+2028 / U+2029;

    round trip, for every well-formed UTF-8 string — the strict evaluator of JavaScript string
    literal text (`Spec.jsUnescape`: four-digit \u escapes, surrogate pairs, \\ \' \"; rejects
    anything unsafe or ill-formed) accepts the output and yields exactly the value. -/
theorem jsEscapeFixed_roundtrip_safe (isPrint : Nat → Bool) (s : Bytes) :
    (∀ b ∈ jsEscapeFixedWith isPrint s, jsByteSafe b = true) ∧
    jsQuotesEscaped (jsEscapeFixedWith isPrint s) = true ∧
    noLineSep (jsEscapeFixedWith isPrint s) = true ∧
    (ValidUtf8 s → jsUnescape (jsEscapeFixedWith isPrint s) = some s) := by
  have h := SoyVerif.Lemmas.JsEscapeB.bytes_safe isPrint s 0
  refine ⟨h.1, ?_, SoyVerif.Lemmas.JsEscapeB.lineSep_safe isPrint s 0, SoyVerif.Lemmas.JsEscapeB.roundtrip isPrint s⟩
  have := h.2 []
  simpa [jsQuotesEscaped, jsEscapeFixedWith, jsQuotesEscapedGo] using this

/-- … in particular with unicode.IsPrint of the toolchain in use -/
theorem jsEscapeFixed_roundtrip (s : Bytes) (h : ValidUtf8 s) : jsUnescape (jsEscapeFixed s) = some s :=
  (jsEscapeFixed_roundtrip_safe Model.isPrint s).2.2.2 h

/- U+F0000 (private use, not printable): `\uDB80\uDC00`, which evaluates back to F3 B0 80 80;
   text/template.JSEscape writes `\uF0000` = U+F000 followed by "0" -/
example : jsEscapeFixedWith (fun _ => false) [243, 176, 128, 128] =
    [92, 117, 68, 66, 56, 48, 92, 117, 68, 67, 48, 48] := by decide
example : jsUnescape [92, 117, 68, 66, 56, 48, 92, 117, 68, 67, 48, 48] = some [243, 176, 128, 128] := by decide
example : jsUnescape [92, 117, 70, 48, 48, 48, 48] = some [239, 128, 128, 48] := by decide
/- `</script>'` and U+2028 -/
example : jsEscapeFixedWith (fun _ => true) [60, 47, 39, 226, 128, 168] =
    [92, 117, 48, 48, 51, 67, 47, 92, 39, 92, 117, 50, 48, 50, 56] := by decide
/- the evaluator is strict: raw quote, raw <, lone surrogate, five-digit leftovers are what they are -/
example : jsUnescape [39] = none := by decide
example : jsUnescape [60] = none := by decide
example : jsUnescape [92, 117, 68, 56, 48, 48] = none := by decide
example : jsUnescape [226, 128, 168] = none := by decide
example : jsUnescape [195, 169, 92, 92] = some [195, 169, 92] := by decide

end SoyVerif.Props.C16
