/-
  C16 — Print directives encode faithfully.

  Theorems over the byte-level models of Model/Escape.lean and Model/Directives.lean (tied to
  /repo by the correspondence C16dir and the generated directive table).  Specification side:
  Spec/Percent.lean (percent-decoding, URL-safe alphabet), Spec/Html.lean (reference decoder,
  removal of an inserted tag).  All statements hold for ALL byte strings.
-/
import SoyVerif.Lemmas.EscapeQuery
import SoyVerif.Lemmas.EscapeBreaks

namespace SoyVerif.Props.C16
open SoyVerif SoyVerif.Model SoyVerif.Spec SoyVerif.Model.Directives
open SoyVerif.Lemmas.EscapeQuery SoyVerif.Lemmas.EscapeBreaks SoyVerif.Lemmas.EscapeHtml

/-- (5) escapeUri = net/url.QueryEscape: the output consists of unreserved characters
    [A-Za-z0-9-_.~], `+` and `%` only, and percent-decodes back to exactly the value. -/
theorem queryEscape_roundtrip_safe (s : Bytes) :
    (∀ b ∈ queryEscape s, isUnreserved b = true ∨ b = 43 ∨ b = 37) ∧
    queryUnescape (queryEscape s) = some s :=
  ⟨(urlSafe_iff _).1 (queryEscape_urlSafe s), queryUnescape_queryEscape s⟩

example : queryEscape [97, 32, 47, 38, 255, 126] = [97, 43, 37, 50, 70, 37, 50, 54, 37, 70, 70, 126] := by decide
example : queryUnescape [97, 43, 37, 50, 70, 37, 102, 102] = some [97, 32, 47, 255] := by decide
example : queryUnescape [37, 50] = none := by decide
example : urlSafe [47] = false := by decide

/-- (4a) changeNewlineToBr changes nothing but line breaks: with the inserted `<br>` removed the
    output is exactly the escaped text of the value without its CR / LF bytes (so no data byte
    passes raw), and in the output as written every `&` still begins a complete character
    reference (no reference is cut by a `<br>`). -/
theorem changeNewlineToBr_only_breaks (s : Bytes) :
    removeTag brTag (changeNewlineToBr s) = goHtmlEscape (s.filter notNL) ∧
    (∀ pre post, changeNewlineToBr s = pre ++ 38 :: post → (matchRef (38 :: post)).isSome = true) := by
  refine ⟨?_, (ampsStartRefs_iff _).1 (nl_amps s false)⟩
  unfold removeTag changeNewlineToBr
  rw [removeBr_nlToBr _ (fun b hb => ((noRawSpecial_iff _).1 (goHtmlEscape_noRaw s) b hb).1), filter_notNL_goHtmlEscape]

example : changeNewlineToBr [60, 13, 10, 97, 10] = [38, 108, 116, 59, 60, 98, 114, 62, 97, 60, 98, 114, 62] := by decide
example : removeTag brTag [38, 108, 116, 59, 60, 98, 114, 62, 97, 60, 98, 114, 62] = [38, 108, 116, 59, 97] := by decide

/-- (4b) insertWordBreaks changes nothing but break opportunities, for every limit `n` (in range
    or not): with the inserted `<wbr>` removed the output is exactly the escaped text of the value,
    and in the output as written every `&` still begins a complete character reference — a
    `<wbr>` is never put inside a reference (`wordBreaks_keeps_entities`). -/
theorem insertWordBreaks_only_breaks (s : Bytes) (n : Int) :
    removeTag wbrTag (insertWordBreaks s n) = goHtmlEscape s ∧
    (∀ pre post, insertWordBreaks s n = pre ++ 38 :: post → (matchRef (38 :: post)).isSome = true) := by
  refine ⟨?_, (ampsStartRefs_iff _).1 (wb_amps n s 0 0 (by simp))⟩
  unfold removeTag insertWordBreaks
  exact removeWbr_wordBreaks n _ (fun b hb => ((noRawSpecial_iff _).1 (goHtmlEscape_noRaw s) b hb).1) 0 0 false

/- "<<<<" with n = 2: the break falls between two references, not inside one -/
example : insertWordBreaks [60, 60, 60, 60] 2 =
    [38, 108, 116, 59, 38, 108, 116, 59, 60, 119, 98, 114, 62, 38, 108, 116, 59, 38, 108, 116, 59] := by decide
example : insertWordBreaks [97, 98, 99] 1 = [97, 60, 119, 98, 114, 62, 98, 60, 119, 98, 114, 62, 99] := by decide
/- a four-byte rune counts as one character and is not split -/
example : insertWordBreaks [240, 159, 152, 128, 97] 1 = [240, 159, 152, 128, 60, 119, 98, 114, 62, 97] := by decide

end SoyVerif.Props.C16
