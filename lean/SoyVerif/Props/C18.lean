/-
  C18 — No parse leaves a goroutine behind.

  Part 1 (this file, abstract): for the lexer goroutine / unbuffered channel transition
  system of Model/Conc.lean, under EVERY interleaving, when nothing more can happen the
  consumer has returned, and the producer goroutine has exited if and only if the
  consumer received at least as many items as the producer had, or drained the channel.
  Part 2: every return path of the parser entry points either consumed all items or
  drains (`Parser.exprEntry_drains`, below, for `parse.Expr`; the file-level entry point
  is tied by the leak probe only until the file parser model lands).
-/
import SoyVerif.Model.Conc
import SoyVerif.Model.Parser

namespace SoyVerif.Props.C18
open SoyVerif.Model.Conc

/-- the producer will eventually have exited -/
def willClose (s : St) : Prop := s.closed = true ∨ s.toSend ≤ recvs s.prog ∨ drains s.prog = true

/-- well-formed states: a producer that has closed has nothing left to send -/
def WF (s : St) : Prop := s.closed = true → s.toSend = 0

theorem drains_cons_recv (p : List Act) : drains (.recv :: p) = drains p := by
  simp [drains, List.contains_cons]

theorem drains_cons_drain (p : List Act) : drains (.drain :: p) = true := by
  simp [drains, List.contains_cons]

theorem step_preserves {a b : St} (h : Step a b) : (WF a → WF b) ∧ (willClose a ↔ willClose b) := by
  cases h with
  | sendRecv n p =>
    refine ⟨fun _ => by simp [WF], ?_⟩
    simp [willClose, recvs, drains_cons_recv]
  | sendDrain n p =>
    refine ⟨fun _ => by simp [WF], ?_⟩
    simp [willClose, drains_cons_drain]
  | close p =>
    refine ⟨fun _ => by simp [WF], ?_⟩
    simp [willClose]
  | recvClosed p =>
    refine ⟨fun _ => by simp [WF], ?_⟩
    simp [willClose]
  | drainClosed p =>
    refine ⟨fun _ => by simp [WF], ?_⟩
    simp [willClose]

theorem reach_preserves {a b : St} (h : Reach a b) : WF a → (WF b ∧ (willClose a ↔ willClose b)) := by
  induction h with
  | refl s => intro hw; exact ⟨hw, Iff.rfl⟩
  | step hs _ ih =>
    intro hw
    have ⟨h1, h2⟩ := step_preserves hs
    have ⟨h3, h4⟩ := ih (h1 hw)
    exact ⟨h3, h2.trans h4⟩

theorem stuck_prog_nil (t : St) (hw : WF t) (hs : Stuck t) : t.prog = [] := by
  obtain ⟨n, c, p⟩ := t
  cases p with
  | nil => rfl
  | cons a p =>
    exfalso
    cases c with
    | true =>
      have hn : n = 0 := hw rfl
      subst hn
      cases a with
      | recv => exact hs _ (Step.recvClosed p)
      | drain => exact hs _ (Step.drainClosed p)
    | false =>
      cases n with
      | zero => exact hs _ (Step.close (a :: p))
      | succ n =>
        cases a with
        | recv => exact hs _ (Step.sendRecv n p)
        | drain => exact hs _ (Step.sendDrain n p)

theorem stuck_closed_iff (t : St) (hw : WF t) (hs : Stuck t) : willClose t ↔ t.closed = true := by
  have hp := stuck_prog_nil t hw hs
  obtain ⟨n, c, p⟩ := t
  simp only at hp
  subst hp
  constructor
  · intro h
    rcases h with h | h | h
    · exact h
    · simp [recvs] at h
      subst h
      cases c with
      | true => rfl
      | false => exact absurd (Step.close []) (hs _)
    · simp [drains] at h
  · intro h; exact Or.inl h

theorem recvs_program (k : Nat) (d : Bool) : recvs (program k d) = k := by
  induction k with
  | zero => cases d <;> simp [program, recvs]
  | succ k ih => simpa [program, List.replicate_succ, recvs] using ih

theorem drains_program (k : Nat) (d : Bool) : drains (program k d) = d := by
  unfold program drains
  cases d <;> simp [List.contains_iff_mem, List.mem_replicate]

theorem stuck_nil_closed : Stuck ⟨0, true, []⟩ := by intro t h; cases h
theorem stuck_nil_open (n : Nat) : Stuck ⟨n + 1, false, []⟩ := by intro t h; cases h

/-- FULL: under every interleaving, once nothing more can happen, the parser has
    returned, and the lexer goroutine has exited iff the parser received at least as
    many items as the lexer produced or drained the channel. -/
theorem producer_exits_iff (n k : Nat) (d : Bool) (t : St)
    (hr : Reach ⟨n, false, program k d⟩ t) (hs : Stuck t) :
    consumerDone t = true ∧ (producerDone t = true ↔ (n ≤ k ∨ d = true)) := by
  have hw0 : WF ⟨n, false, program k d⟩ := by simp [WF]
  have ⟨hw, hiff⟩ := reach_preserves hr hw0
  have hp := stuck_prog_nil t hw hs
  refine ⟨by simp [consumerDone, hp], ?_⟩
  have h1 := stuck_closed_iff t hw hs
  have hrec := recvs_program k d
  have hdr := drains_program k d
  unfold producerDone
  rw [← h1, ← hiff]
  simp [willClose, hrec, hdr]

/-- a maximal execution exists from every state (so the theorem above is not vacuous):
    the consumer's program always runs to completion -/
theorem run_exists : ∀ (p : List Act) (n : Nat), ∃ t, Reach ⟨n, false, p⟩ t ∧ Stuck t ∧ t.prog = []
  | [], 0 => ⟨⟨0, true, []⟩, Reach.step (Step.close []) (Reach.refl _), stuck_nil_closed, rfl⟩
  | [], n + 1 => ⟨⟨n + 1, false, []⟩, Reach.refl _, stuck_nil_open n, rfl⟩
  | .recv :: p, 0 => by
    -- close, then the receives return zero items
    have : ∀ q : List Act, ∃ t, Reach ⟨0, true, q⟩ t ∧ Stuck t ∧ t.prog = [] := by
      intro q
      induction q with
      | nil => exact ⟨_, Reach.refl _, stuck_nil_closed, rfl⟩
      | cons a q ih =>
        obtain ⟨t, hr, hs, hp⟩ := ih
        cases a with
        | recv => exact ⟨t, Reach.step (Step.recvClosed q) hr, hs, hp⟩
        | drain => exact ⟨t, Reach.step (Step.drainClosed q) hr, hs, hp⟩
    obtain ⟨t, hr, hs, hp⟩ := this (.recv :: p)
    exact ⟨t, Reach.step (Step.close _) hr, hs, hp⟩
  | .drain :: p, 0 => by
    have : ∀ q : List Act, ∃ t, Reach ⟨0, true, q⟩ t ∧ Stuck t ∧ t.prog = [] := by
      intro q
      induction q with
      | nil => exact ⟨_, Reach.refl _, stuck_nil_closed, rfl⟩
      | cons a q ih =>
        obtain ⟨t, hr, hs, hp⟩ := ih
        cases a with
        | recv => exact ⟨t, Reach.step (Step.recvClosed q) hr, hs, hp⟩
        | drain => exact ⟨t, Reach.step (Step.drainClosed q) hr, hs, hp⟩
    obtain ⟨t, hr, hs, hp⟩ := this (.drain :: p)
    exact ⟨t, Reach.step (Step.close _) hr, hs, hp⟩
  | .recv :: p, n + 1 => by
    obtain ⟨t, hr, hs, hp⟩ := run_exists p n
    exact ⟨t, Reach.step (Step.sendRecv n p) hr, hs, hp⟩
  | .drain :: p, n + 1 => by
    obtain ⟨t, hr, hs, hp⟩ := run_exists (.drain :: p) n
    exact ⟨t, Reach.step (Step.sendDrain n p) hr, hs, hp⟩
termination_by p n => (p.length, n)

/- Non-vacuity: `parse.Expr("1 2 3")` before the fix — 4 items (1, 2, 3, EOF), one received
   plus one look-ahead, no drain: the lexer goroutine never exits. -/
example : ∃ t, Reach ⟨4, false, program 2 false⟩ t ∧ Stuck t ∧ producerDone t = false :=
  ⟨⟨2, false, []⟩, Reach.step (Step.sendRecv 3 _) (Reach.step (Step.sendRecv 2 _) (Reach.refl _)),
   stuck_nil_open 1, rfl⟩

/-! ### Part 2: the parser entry points -/

open SoyVerif.Model SoyVerif.Model.Parser in
/-- Every normal return of `parse.Expr` (a tree or an error value) has drained the channel,
    whatever the input and however much of it was left unread. -/
theorem exprEntry_drains (pf : Bytes → Option UInt64) (items : List Item) :
    (∃ e, (exprEntry pf items).result = Except.ok e) ∨ (∃ p, (exprEntry pf items).result = Except.error (PErr.err p)) →
    (exprEntry pf items).drained = true := by
  unfold exprEntry
  split <;> simp

open SoyVerif.Model SoyVerif.Model.Parser in
/-- … hence, by `producer_exits_iff`, the lexer goroutine of that call has exited in every
    interleaving: a consumer program that ends in `drain` lets the producer finish. -/
theorem exprEntry_no_leak (pf : Bytes → Option UInt64) (items : List Item) (k : Nat) (t : St)
    (hres : (∃ e, (exprEntry pf items).result = Except.ok e) ∨ (∃ p, (exprEntry pf items).result = Except.error (PErr.err p)))
    (hr : Reach ⟨items.length, false, program k (exprEntry pf items).drained⟩ t) (hs : Stuck t) :
    producerDone t = true := by
  have hd := exprEntry_drains pf items hres
  rw [hd] at hr
  exact ((producer_exits_iff items.length k true t hr hs).2).2 (Or.inr rfl)

end SoyVerif.Props.C18
