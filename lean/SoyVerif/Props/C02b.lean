/-
  C02 — `scope.alldata` never fails inside a run started by `Execute`.

  `data="all"` passes the caller's frames from the innermost ENTERED frame down (Props/C02
  `callee_env_all`).  The Go code has a `panic("impossible")` for a scope without an entered frame; the
  model counts those failures in the ghost field `St.impossible`.  Every scope the walk reaches is
  `Shaped` (unmarked frames above an entered one): a run starts on the result of `enter`, every sub-run
  is started on the current scope or on a `push` of it, every callee on the result of `enter`
  (Lemmas/EvalShaped.lean threads this through the mutual induction).  Hence:

  * `alldata_total_in_runs`: a render — succeeding, failing, or out of call depth — never hits the
    impossible case;
  * `walk_keeps_counter`: the same for any template invocation on a shaped scope;
  * `data_all_scope_exists`: on a shaped scope the data scope of a `data="all"` call exists and is the
    fresh param frame on top of exactly the frames from the entered one down — `callee_env_all` with
    its shape hypothesis discharged by the invariant.
-/
import SoyVerif.Lemmas.EvalShaped

namespace SoyVerif.Props.C02b
open SoyVerif SoyVerif.Model SoyVerif.Model.Eval
open SoyVerif.Props.C02 (Shaped shaped_enter)

theorem walk_keeps_counter (g : GEnv) (fuel : Nat) (t : Registry.Tmpl) (ctx : Scope) (st : St)
    (hown : Own ctx st) (hs : Shaped ctx) : (runTmpl g fuel t ctx st).st.impossible = st.impossible :=
  runTmpl_noimp g fuel t ctx st hown hs

/-- a render never reaches `panic("impossible")` of scope.alldata -/
theorem alldata_total_in_runs (g : GEnv) (name : Bytes) (data : Frame) (fuel : Nat) :
    (execute g name data fuel).impossible = 0 := by
  unfold execute
  split
  · rfl
  · rename_i t _
    obtain ⟨cctx, s2, hent, ownc, _, _, hshape⟩ := enter_cons ⟨0, false⟩ []
      (newScope data true { heap := [], out := [], next := freshBase g data, foreign := 0 }).2
    have hsc : (newScope data true { heap := [], out := [], next := freshBase g data, foreign := 0 }).1 = [⟨0, false⟩] := rfl
    simp only [hsc, hent]
    have hs : Shaped cctx := shaped_enter _ _ _ cctx s2 hent
    have := runTmpl_noimp g fuel t cctx s2 ownc hs
    simp only [this, enter_imp hent]
    rfl

/-- on a shaped scope the data scope of a data="all" call exists: unmarked frames are dropped, the callee
    gets a fresh frame on top of the frames from the entered one down -/
theorem data_all_scope_exists (g : GEnv) (d : Option Expr) (ctx : Scope) (st : St) (hs : Shaped ctx) :
    ∃ locals f rest, ctx = locals ++ f :: rest ∧ (∀ x ∈ locals, x.entered = false) ∧ f.entered = true ∧
      callData g true d ctx st =
        some (⟨st.heap.length, false⟩ :: f :: rest, { st with heap := st.heap ++ [⟨[], false⟩] }) := by
  obtain ⟨l, f, r, rfl, hl, hf⟩ := hs
  exact ⟨l, f, r, rfl, hl, hf, C02.callee_env_all g d l f r st hl hf⟩

/-! ### non-vacuity: on a scope WITHOUT an entered frame the counter does move -/

def tC : Registry.Tmpl :=
  { name := [99], params := [], body := .mk 0 .nil, autoescape := .unspecified, nsName := [110],
    nsAutoescape := .unspecified, pos := 0, file := [102], text := [] }

def g0 : GEnv := { reg := [tC], globals := [], ij := none, msgs := none, tbl := [], oblig := [] }

example : (execCmd g0 true (fun _ ctx st => ⟨.ok, ctx, st⟩) (.call 0 [99] true none .nil) [⟨0, false⟩]
    { heap := [⟨[], false⟩], out := [], next := 2, foreign := 0 }).st.impossible = 1 := by decide
/-- … whereas a render through `execute` keeps it at 0 (the theorem), e.g. `{call .c data="all" /}` -/
example : (execute { g0 with reg := [{ tC with name := [116], body := .mk 0 (.cons (.call 1 [99] true none .nil) .nil) }, tC] }
    [116] [] 3).cls = .ok := by decide

end SoyVerif.Props.C02b
