/-
  C05, "the parser returns in time PROPORTIONAL TO THE INPUT": the budgets of the model are linear
  in the BYTE length of the source, for every byte string (valid or not).

  What is counted.  The models of the lexer and of the parser are total functions that run on
  budgets ("fuel"); a run that exhausts its budget yields `fuelOut`.  One STEP is one unit of such a
  budget:
    * lexer (`Lex.run`): one call of a state function (`lexText`, `lexInsideTag`, …) — one iteration of
      `for l.state != nil { l.state = l.state(l) }`;
    * file parser (`itemListLoop` … of Model/FileParser.lean): one loop iteration of a parsing loop or
      one level of nesting of the recursive descent (the fuel goes down by one on every recursive call
      and on every iteration);
    * expression parser (`ef`): the same, for ONE embedded expression (each expression of a tag is
      parsed with the budget `ef`; it is a bound on depth + iterations of that parse, not a sum over
      all expressions of the file).

  What is proved, with `n = |input|` in bytes:
    * `lexAll_items_le` (Props/C05.lean): the lexer sends at most `2n + 1` items;
    * `lex_total` (Props/C05.lean): `7n + 8` state-function calls suffice (`Lex.fuelFor`);
    * `parse_total_fuel`: on ANY token list `is`, any budgets `ef, fuel ≥ 8·|is| + 64` suffice;
    * `parse_source_linear`: the whole pipeline, run with the budget `16n + 72` for the file parser and
      for each expression (and `7n + 8` for the lexer), never answers `fuelOut`;
    * `parse_source_budgets`: the budgets that `parseSource` — the function the correspondence checks run
      against the real code — hands out are at most `16n + 72`, and it never answers `fuelOut`;
    * `parseFileFuel_mono` / `parseExprFuel_mono` (from Lemmas/FuelMono.lean): a larger budget gives the
      same answer, hence `parseSourceFuel_eq`: the pipeline on the budget `16n + 72` IS `parseSource`
      (`parse_source_linear'`), and `parseExprSourceFuel_eq` for the standalone expression;
    * `parse_expr_linear`: the same end-to-end statement for `parse.Expr(str)` (lexer in expression
      mode, expression parser, drain);
    * `runPos_sorted`, `lexAll_positions_sorted`: the positions at which the state functions of a run
      are entered never go back.

  What is NOT counted.
    * The rune reads INSIDE one state function.  Each state function's inner loop (`scanWhile`,
      `lexTextLoop`, `lexBlockComment`, `lexString`, `lexSoyDocLoop`, `headerTypeLoop`) is a well-founded
      recursion on the remaining input `len - pos` and every iteration advances `pos` (`next_rem_lt`);
      `pos` moves back only by `backup` (at most once per `next`, by the width of that rune), by the
      `l.pos--` of lexSoyDoc (once per line) and by the look-ahead of `maybeEmitText`.  The state
      lemmas show `pos` never decreases across a state call (`runPos_sorted`, below), so the advances of
      the calls sum to at most `n`; that the reads of one call are its advance plus a constant of
      look-ahead is prose, not a theorem: the models carry no read counter.
    * String building: the cost of `tok.val` concatenation, `strings.Join`, the `String()` builders (the
      quadratic defects found at /repo 96546c0 and c3ff971 were there).  A count over state calls and
      tokens cannot see it; it is covered by the C05scale allocation probe only.
    * The nested lexer and parser of a quoted expression are bounded one by one
      (`parseQuotedExpr_budget`: `7·|str| + 8` and `16·|str| + 72`) and, given that the strings come from
      distinct tokens, in sum (`quoted_budgets_sum_le`, `229·n + 149`); that premise is read off the model,
      not proved (last section).
    * The SUM of the budgets handed to the embedded expression parses of a file is not linear (each gets
      the budget of the whole token stream); what they consume is not stated (last section).
-/
import SoyVerif.Props.C05parse
import SoyVerif.Lemmas.FuelMono

namespace SoyVerif.Props.C05
open SoyVerif SoyVerif.Model SoyVerif.Model.Parser SoyVerif.Model.FileParser SoyVerif.Lemmas.ParserSafe

/-- `parseFile` with the budget of the file parser made a parameter -/
def parseFileFuel (pf : Bytes → Option UInt64) (ef fuel : Nat) (items : List Item) : Except FErr (List Node) :=
  let init : FState := { p := Parser.initState items }
  match (itemListLoop pf ef fuel [.tEOF] none .nil).run init with
  | .ok (.list _ nodes, _) => .ok nodes.toList
  | .ok (_, _) => .error .panic
  | .error e => .error e

theorem parseFile_eq (pf : Bytes → Option UInt64) (ef : Nat) (items : List Item) :
    parseFile pf ef items = parseFileFuel pf ef (FileParser.fuelFor items.length) items := rfl

/-- on ANY token list, budgets of `8·|items| + 64` steps — or more — suffice -/
theorem parse_total_fuel (pf : Bytes → Option UInt64) (ef fuel : Nat) (items : List Item)
    (hef : 8 * items.length + 64 ≤ ef) (hfuel : 8 * items.length + 64 ≤ fuel) :
    parseFileFuel pf ef fuel items ≠ .error .fuelOut := by
  obtain ⟨f, rfl⟩ : ∃ f, fuel = f + 1 := ⟨fuel - 1, by omega⟩
  have hmu := mu_init items
  have ih := fileSpecs_all True ⟨False, False⟩ (fun _ => True) pf ef items.length trivial
      (by omega) (fun _ _ => Or.inl trivial) (fun _ _ _ _ _ => Or.inl trivial) f
  have h := itemListLoop_ok0 True ⟨False, False⟩ (fun _ => True) pf ef items.length trivial
      (by omega) (fun _ _ => Or.inl trivial) (fun _ _ _ _ _ => Or.inl trivial) ih
      [.tEOF] none .nil { p := Parser.initState items } ⟨childrenOK_nil, NPL_nil, fun p h => by cases h⟩
      (inv_init (fun _ => True) items trivial (fun _ _ => trivial) (fun h => absurd h id) (fun h => absurd h id)) hmu
      (by show 8 * mu (Parser.initState items) + 20 ≤ _; omega)
  unfold FSafe at h
  unfold parseFileFuel
  simp only [StateT.run]
  intro hc
  split at hc
  · exact absurd hc (by simp)
  · exact absurd hc (by simp)
  · rename_i e he
    rw [he] at h
    simp only [Except.error.injEq] at hc
    subst hc
    exact h

/-- lexer ∘ parser with ONE budget `F` for the file parser and for each embedded expression
    (the lexer runs on its own budget `Lex.fuelFor |input| = 7·|input| + 8`) -/
def parseSourceFuel (pf : Bytes → Option UInt64) (F : Nat) (input : Bytes) : Except FErr (List Node) :=
  match Lex.lexAll input false with
  | .items is => parseFileFuel pf F F is
  | .panic => .error .panic
  | .fuelOut => .error .fuelOut

/-- the budget of the whole pipeline for a source of `n` bytes: `8·(2n + 1) + 64` -/
def sourceFuel (n : Nat) : Nat := 16 * n + 72

/-- END TO END OVER BYTES: for every byte string, valid or not, the pipeline ends within
    `7n + 8` state-function calls of the lexer and a parser budget of `16n + 72` -/
theorem parse_source_linear (pf : Bytes → Option UInt64) (input : Bytes) :
    Lex.fuelFor input.length = 7 * input.length + 8 ∧
    Lex.lexAll input false ≠ .fuelOut ∧
    parseSourceFuel pf (sourceFuel input.length) input ≠ .error .fuelOut := by
  refine ⟨rfl, lex_total input false, ?_⟩
  unfold parseSourceFuel
  obtain ⟨is, hl, _⟩ := lex_items input false
  have hle := lexAll_items_le input false is hl
  rw [hl]
  exact parse_total_fuel pf _ _ is (by unfold sourceFuel; omega) (by unfold sourceFuel; omega)

/-- the same for `parseSource`, the function the correspondence checks compare with the real
    `parse.SoyFile`: it lexes into at most `2n + 1` items, the budgets it then hands to the file
    parser and to each expression parse are at most `16n + 72`, and it never runs out of them -/
theorem parse_source_budgets (pf : Bytes → Option UInt64) (input : Bytes) :
    ∃ is, Lex.lexAll input false = .items is ∧ is.length ≤ 2 * input.length + 1 ∧
      FileParser.fuelFor is.length ≤ sourceFuel input.length ∧ exprFuel is ≤ sourceFuel input.length ∧
      parseSource pf input = parseFileFuel pf (exprFuel is) (FileParser.fuelFor is.length) is ∧
      parseSource pf input ≠ .error .fuelOut := by
  obtain ⟨is, hl, _⟩ := lex_items input false
  have hle := lexAll_items_le input false is hl
  refine ⟨is, hl, hle, ?_, ?_, ?_, parse_source_total pf input⟩
  · unfold FileParser.fuelFor sourceFuel; omega
  · unfold exprFuel Parser.fuelFor sourceFuel; omega
  · unfold parseSource; rw [hl]; rfl

/-! ## The standalone expression entry, `parse.Expr(str)` -/

/-- `parseExprEntry` with the budget made a parameter -/
def parseExprFuel (pf : Bytes → Option UInt64) (fuel : Nat) (items : List Item) : Except PErr Expr :=
  match (Parser.parseExpr pf fuel 0).run (Parser.initState items) with
  | Except.ok (e, _) => Except.ok e
  | Except.error err => Except.error err

theorem parseExprEntry_eq (pf : Bytes → Option UInt64) (items : List Item) :
    parseExprEntry pf items = parseExprFuel pf (Parser.fuelFor items.length) items := rfl

/-- on ANY token list a budget of `8·|items| + 10` steps — or more — suffices for the expression parser -/
theorem parse_expr_total_fuel (pf : Bytes → Option UInt64) (fuel : Nat) (items : List Item)
    (hfuel : 8 * items.length + 10 ≤ fuel) : parseExprFuel pf fuel items ≠ .error .fuelOut := by
  have hmu := mu_init items
  have hi : Inv ⟨False, False⟩ (fun _ => True) (Parser.initState items) :=
    (inv_init (fun _ => True) items trivial (fun _ _ => trivial) (fun h => absurd h id) (fun h => absurd h id)).crude (fun h => h)
  have h := (Lemmas.ParserSafe.exprSpecs_all pf True ⟨False, False⟩ (fun _ => True) trivial (fun _ _ => Or.inl trivial) fuel).parseExpr
    0 (Parser.initState items) hi (by omega)
  unfold PSafe at h
  unfold parseExprFuel
  simp only [StateT.run]
  intro hc
  split at hc
  · exact absurd hc (by simp)
  · rename_i e he
    rw [he] at h
    simp only [Except.error.injEq] at hc
    subst hc
    exact h

/-- `parse.Expr(str)`: the lexer model in expression mode composed with the expression parser and
    the drain of `Expr` / `tree.recover` (`Parser.exprEntry`) -/
def parseExprSource (pf : Bytes → Option UInt64) (input : Bytes) : EntryOutcome :=
  match Lex.lexAll input true with
  | .items is => exprEntry pf is
  | .panic => { result := .error .panic, drained := false }
  | .fuelOut => { result := .error .fuelOut, drained := false }

/-- … with the parser's budget a parameter -/
def parseExprSourceFuel (pf : Bytes → Option UInt64) (F : Nat) (input : Bytes) : Except PErr Expr :=
  match Lex.lexAll input true with
  | .items is => parseExprFuel pf F is
  | .panic => .error .panic
  | .fuelOut => .error .fuelOut

theorem exprEntry_result (pf : Bytes → Option UInt64) (items : List Item) :
    (exprEntry pf items).result = parseExprEntry pf items := by
  unfold exprEntry parseExprEntry
  split <;> simp_all

/-- END TO END OVER BYTES, standalone expression: for every byte string, valid or not, `parse.Expr`
    ends within `7n + 8` state-function calls of the lexer and a parser budget of `16n + 72`; the
    budget `parse.Expr`'s model hands out is at most that, it never runs out of it, and unless the
    parser panics the lexer goroutine is drained -/
theorem parse_expr_linear (pf : Bytes → Option UInt64) (input : Bytes) :
    Lex.lexAll input true ≠ .fuelOut ∧
    parseExprSourceFuel pf (sourceFuel input.length) input ≠ .error .fuelOut ∧
    ∃ is, Lex.lexAll input true = .items is ∧ is.length ≤ 2 * input.length + 1 ∧
      Parser.fuelFor is.length ≤ sourceFuel input.length ∧
      (parseExprSource pf input).result = parseExprFuel pf (Parser.fuelFor is.length) is ∧
      (parseExprSource pf input).result ≠ .error .fuelOut ∧
      ((parseExprSource pf input).result ≠ .error .panic → (parseExprSource pf input).drained = true) := by
  obtain ⟨is, hl, _⟩ := lex_items input true
  have hle := lexAll_items_le input true is hl
  have htot : parseExprFuel pf (Parser.fuelFor is.length) is ≠ .error .fuelOut :=
    parse_expr_total_fuel pf _ is (by unfold Parser.fuelFor; omega)
  have hres : (parseExprSource pf input).result = parseExprFuel pf (Parser.fuelFor is.length) is := by
    unfold parseExprSource; rw [hl]; exact exprEntry_result pf is
  refine ⟨lex_total input true, ?_, is, hl, hle, by unfold Parser.fuelFor sourceFuel; omega, hres, by rw [hres]; exact htot, ?_⟩
  · unfold parseExprSourceFuel
    rw [hl]
    exact parse_expr_total_fuel pf _ is (by unfold sourceFuel; omega)
  · intro hnp
    have hd : (parseExprSource pf input).drained = (exprEntry pf is).drained := by
      unfold parseExprSource; rw [hl]
    have hr : (parseExprSource pf input).result = (exprEntry pf is).result := by
      unfold parseExprSource; rw [hl]
    rw [hd]
    rw [hr] at hnp
    have hnf : (exprEntry pf is).result ≠ .error .fuelOut := by rw [exprEntry_result]; exact htot
    revert hnp hnf
    unfold exprEntry
    split <;> simp

/-! ## Fuel monotonicity: a larger budget gives the same answer

  (`Lemmas/FuelMono.lean`: every function of the expression parser and of the file parser, run on a
  larger budget, returns the same result AND state unless the smaller run ended in `fuelOut`.) -/

theorem parseFileFuel_mono (pf : Bytes → Option UInt64) {e e' a b : Nat} (he : e ≤ e') (hab : a ≤ b)
    (items : List Item) (h : parseFileFuel pf e a items ≠ .error .fuelOut) :
    parseFileFuel pf e' b items = parseFileFuel pf e a items := by
  have hm := ((Lemmas.FuelMono.fileMono pf e e' he a b hab).itemListLoop [.tEOF] none .nil).le
    { p := Parser.initState items }
  unfold parseFileFuel at h ⊢
  simp only [StateT.run] at h ⊢
  rw [hm]
  intro hc
  rw [hc] at h
  exact h rfl

theorem parseExprFuel_mono (pf : Bytes → Option UInt64) {a b : Nat} (hab : a ≤ b)
    (items : List Item) (h : parseExprFuel pf a items ≠ .error .fuelOut) :
    parseExprFuel pf b items = parseExprFuel pf a items := by
  have hm := ((Lemmas.FuelMono.exprMono pf a b hab).parseExpr 0).le (Parser.initState items)
  unfold parseExprFuel at h ⊢
  simp only [StateT.run] at h ⊢
  rw [hm]
  intro hc
  rw [hc] at h
  exact h rfl

/-- the pipeline on the byte-linear budget IS `parseSource`, the function the correspondence checks tie
    to the real `parse.SoyFile` -/
theorem parseSourceFuel_eq (pf : Bytes → Option UInt64) (input : Bytes) :
    parseSourceFuel pf (sourceFuel input.length) input = parseSource pf input := by
  obtain ⟨is, hl, hle, hf1, hf2, heq, hne⟩ := parse_source_budgets pf input
  rw [heq]
  unfold parseSourceFuel
  rw [hl]
  exact parseFileFuel_mono pf hf2 hf1 is (by rw [← heq]; exact hne)

/-- … and on any larger budget -/
theorem parseSourceFuel_eq_of_le (pf : Bytes → Option UInt64) (input : Bytes) (F : Nat)
    (hF : sourceFuel input.length ≤ F) : parseSourceFuel pf F input = parseSource pf input := by
  obtain ⟨is, hl, hle, hf1, hf2, heq, hne⟩ := parse_source_budgets pf input
  rw [heq]
  unfold parseSourceFuel
  rw [hl]
  exact parseFileFuel_mono pf (by omega) (by omega) is (by rw [← heq]; exact hne)

/-- the same for the standalone expression: the byte-linear budget gives the result of `parse.Expr`'s model -/
theorem parseExprSourceFuel_eq (pf : Bytes → Option UInt64) (input : Bytes) :
    parseExprSourceFuel pf (sourceFuel input.length) input = (parseExprSource pf input).result := by
  obtain ⟨_, _, is, hl, _, hf, hres, hne, _⟩ := parse_expr_linear pf input
  rw [hres]
  unfold parseExprSourceFuel
  rw [hl]
  exact parseExprFuel_mono pf hf is (by rw [← hres]; exact hne)

/-- `parse.SoyFile`'s model returns within a budget LINEAR in the byte length — stated about `parseSource` itself -/
theorem parse_source_linear' (pf : Bytes → Option UInt64) (input : Bytes) :
    parseSource pf input = parseSourceFuel pf (16 * input.length + 72) input ∧
    parseSource pf input ≠ .error .fuelOut :=
  ⟨(parseSourceFuel_eq pf input).symm, parse_source_total pf input⟩

/-! ## What one state-function call reads (no counter: over the existing invariant)

  `runPos` lists the position `pos` of the lexer at the ENTRY of each state-function call of a run.
  The list is sorted and stays inside `[0, n]`: a state function never hands over to the next one
  behind the position it was entered at.  So the advances `pos_(i+1) - pos_i` of the calls are
  non-negative and sum to at most `n` (they telescope); the look-ahead a call reads beyond the position
  it hands over is what its `backup`s give back — at most one rune per `next` (`Lexer.backup`:
  `pos - width`), two bytes in `maybeEmitText(l, 2)`, six in `lexSoyDocParam`.  That last part is prose:
  the model has no read counter. -/

/-- the positions at which the state functions of a run are entered -/
def runPos : Nat → Lex.St → Lex.Lexer → List Int
  | 0, _, l => [l.pos]
  | k + 1, s, l =>
    match Lex.step s l with
    | some (some s', l') => l.pos :: runPos k s' l'
    | _ => [l.pos]

theorem pos_le_of_phi_lt {n : Int} {s s' : Lex.St} {l l' : Lex.Lexer} (h1 : l.pos ≤ n) (h2 : l'.pos ≤ n)
    (h : Lex.phi n s' l' < Lex.phi n s l) : l.pos ≤ l'.pos := by
  have a := Lex.rankA_le s
  have b := Lex.rankB_le s
  unfold Lex.phi at h
  by_cases hlt : l'.pos < l.pos
  · rw [if_pos (show l'.pos < n by omega)] at h
    split at h <;> omega
  · omega

/-- every state function is entered at or behind the position the one before it was entered at, inside the input -/
theorem runPos_sorted (n : Int) : ∀ (k : Nat) (s : Lex.St) (l : Lex.Lexer), Lex.Good n l → Lex.Extra s l →
    (∀ p ∈ runPos k s l, l.pos ≤ p ∧ p ≤ n) ∧ (runPos k s l).Pairwise (· ≤ ·) := by
  intro k
  induction k with
  | zero =>
    intro s l hg _
    simp only [runPos, List.mem_singleton, forall_eq, List.pairwise_cons, List.not_mem_nil, false_implies,
      implies_true, List.Pairwise.nil, and_self, and_true]
    exact ⟨Int.le_refl _, hg.2.2.2⟩
  | succ k ih =>
    intro s l hg hx
    obtain ⟨⟨s', l'⟩, hstep, hpost⟩ := Lex.step_ok s hg hx
    unfold runPos
    rw [hstep]
    cases s' with
    | none =>
      simp only [List.mem_singleton, forall_eq, List.pairwise_cons, List.not_mem_nil, false_implies,
        implies_true, List.Pairwise.nil, and_self, and_true]
      exact ⟨Int.le_refl _, hg.2.2.2⟩
    | some s'' =>
      obtain ⟨⟨hg', hx'⟩, hlt⟩ := hpost.1 s'' rfl
      dsimp only at hg' hx' hlt
      have hle : l.pos ≤ l'.pos := pos_le_of_phi_lt hg.2.2.2 hg'.2.2.2 hlt
      obtain ⟨hall, hpw⟩ := ih s'' l' hg' hx'
      refine ⟨?_, ?_⟩
      · intro p hp
        simp only [List.mem_cons] at hp
        rcases hp with rfl | hp
        · exact ⟨Int.le_refl _, hg.2.2.2⟩
        · have := hall p hp
          exact ⟨by omega, this.2⟩
      · rw [List.pairwise_cons]
        refine ⟨fun p hp => ?_, hpw⟩
        have := hall p hp
        omega

/-- for the run of `lexAll`: the entry positions of its (at most `7n + 8`) state-function calls are sorted, in `[0, n]` -/
theorem lexAll_positions_sorted (input : Bytes) (exprMode : Bool) :
    let ps := runPos (Lex.fuelFor input.length) (if exprMode then .insideTag else .text) (Lex.initLexer input)
    ps.Pairwise (· ≤ ·) ∧ (∀ p ∈ ps, 0 ≤ p ∧ p ≤ input.length) ∧ ps.length ≤ Lex.fuelFor input.length + 1 := by
  intro ps
  obtain ⟨hall, hpw⟩ := runPos_sorted (input.length : Int) (Lex.fuelFor input.length)
    (if exprMode then .insideTag else .text) (Lex.initLexer input) (init_good input) (init_extra input exprMode)
  refine ⟨hpw, fun p hp => ?_, ?_⟩
  · have := hall p hp
    have h0 : (Lex.initLexer input).pos = 0 := rfl
    omega
  · have hlen : ∀ (k : Nat) (s : Lex.St) (l : Lex.Lexer), (runPos k s l).length ≤ k + 1 := by
      intro k
      induction k with
      | zero => intro s l; simp [runPos]
      | succ k ih =>
        intro s l
        unfold runPos
        split
        · rename_i s' l' _; simp only [List.length_cons]; have := ih s' l'; omega
        · simp
    exact hlen _ _ _

/-! ## The nested lexer and parser of a quoted attribute expression

  `data="…"`, `value="…"` and the expression of `{css e, x}` are lexed and parsed by a NEW lexer and a
  new parser (`parseQuotedExpr str`).  Their budgets are those of a standalone expression of `|str|`
  bytes: `7·|str| + 8` state-function calls and a parser budget of at most `16·|str| + 72`
  (`parseQuotedExpr_budget`).

  The strings: `str` is `strconv.Unquote` of ONE String token (`parseAttrs`; an attribute is looked up
  at most once per tag) or a trimmed prefix of ONE Text token (`parseCss`).  The tokens of a file are
  disjoint pieces of the input (`lex_items_slice`, `lexAll_vals_le`: their values sum to at most `n + 1`
  bytes), so the quoted strings of one file together are linear in `n`: `quoted_budgets_sum_le` — for any
  choice of strings, one per token of a SUB-list of the token stream and at most 3 times as long as
  that token (an unquoted string is at most as long as its quoted form EXCEPT that a byte that is not
  valid UTF-8 becomes the 3 bytes of U+FFFD), the budgets `23·|str| + 80` sum to at most
  `69·(n + 1) + 80·(2n + 1) = 229·n + 149`.
  That each quoted string of a run comes from a token of its own is read off the model
  (`parseAttrs`, `parseCallHead`, `callParamsLoop`, `parseCss`); it is NOT a theorem: the run of the
  model leaves no trace of its calls.

  What is NOT linear as a SUM OF BUDGETS: every embedded expression of a file is parsed on the budget
  `ef = 8·|is| + 64` of the WHOLE token stream (it is a limit on depth + iterations, sufficient
  whatever remains of the stream); a file has up to `|is| / 3` expressions, so the budgets handed out add
  up to a quadratic number although each parse can only consume the tokens in front of it.  The steps
  CONSUMED cannot be stated without a counter in the model. -/

/-- the budget of one quoted expression of `m` bytes: nested lexer + nested parser -/
def quotedBudget (m : Nat) : Nat := Lex.fuelFor m + sourceFuel m

theorem quotedBudget_eq (m : Nat) : quotedBudget m = 23 * m + 80 := by
  unfold quotedBudget Lex.fuelFor sourceFuel; omega

/-- one quoted expression: the nested lexer ends within `7·|str| + 8` state calls, sends at most
    `2·|str| + 1` items, the nested parser's budget is at most `16·|str| + 72`, and
    `parseQuotedExpr` never answers `fuelOut` -/
theorem parseQuotedExpr_budget (pf : Bytes → Option UInt64) (str : Bytes) :
    Lex.lexAll str true ≠ .fuelOut ∧
    (∃ is, Lex.lexAll str true = .items is ∧ is.length ≤ 2 * str.length + 1 ∧
      Parser.fuelFor is.length ≤ sourceFuel str.length) ∧
    ∀ st, parseQuotedExpr pf str st ≠ .error .fuelOut := by
  obtain ⟨is, hl, _⟩ := lex_items str true
  have hle := lexAll_items_le str true is hl
  refine ⟨lex_total str true, ⟨is, hl, hle, by unfold Parser.fuelFor sourceFuel; omega⟩, ?_⟩
  intro st
  have htot : parseExprFuel pf (Parser.fuelFor is.length) is ≠ .error .fuelOut :=
    parse_expr_total_fuel pf _ is (by unfold Parser.fuelFor; omega)
  unfold parseExprFuel at htot
  unfold parseQuotedExpr
  rw [hl]
  simp only
  split
  · split <;> simp
  · show (liftP Parser.errorf : FP Expr) st ≠ _
    unfold liftP Parser.errorf
    split
    · simp
    · simp
    · simp
    · rename_i heq
      exfalso
      unfold Parser.errPos at heq
      split at heq
      · simp at heq
      · rename_i _ e hpe
        simp only [Except.error.injEq] at heq
        subst heq
        repeat' split at hpe
        all_goals simp at hpe
  · simp
  · rename_i he
    rw [he] at htot
    exact absurd rfl htot

theorem sum_map_le_of_sublist (g : Item → Nat) {ts is : List Item} (h : ts.Sublist is) :
    (ts.map g).sum ≤ (is.map g).sum := by
  induction h with
  | slnil => simp
  | cons a _ ih => simp only [List.map_cons, List.sum_cons]; omega
  | cons_cons a _ ih => simp only [List.map_cons, List.sum_cons]; omega

theorem sum_map_le_of_le (g h : Item → Nat) (ts : List Item) (hgh : ∀ t, g t ≤ h t) :
    (ts.map g).sum ≤ (ts.map h).sum := by
  induction ts with
  | nil => simp
  | cons t r ih => simp only [List.map_cons, List.sum_cons]; have := hgh t; omega

theorem sum_map_affine (c d : Nat) (is : List Item) :
    (is.map (fun t => c * t.val.length + d)).sum = c * (is.map (·.val.length)).sum + d * is.length := by
  induction is with
  | nil => simp
  | cons t r ih =>
    simp only [List.map_cons, List.sum_cons, List.length_cons, ih, Nat.mul_add, Nat.mul_one]
    omega

/-- the quoted expressions of one file: strings taken one per token of a sub-list of the token stream,
    each at most 3 times as long as its token — their budgets together are linear in the byte length -/
theorem quoted_budgets_sum_le (input : Bytes) (is : List Item) (hl : Lex.lexAll input false = .items is)
    (ts : List Item) (hsub : ts.Sublist is) (str : Item → Bytes)
    (hstr : ∀ t, (str t).length ≤ 3 * t.val.length) :
    (ts.map (fun t => quotedBudget (str t).length)).sum ≤ 229 * input.length + 149 := by
  have h1 := lexAll_items_le input false is hl
  have h2 := lexAll_vals_le input false is hl
  have h3 : (ts.map (fun t => quotedBudget (str t).length)).sum ≤ (ts.map (fun t => 69 * t.val.length + 80)).sum :=
    sum_map_le_of_le _ _ ts (fun t => by rw [quotedBudget_eq]; have := hstr t; omega)
  have h4 := sum_map_le_of_sublist (fun t => 69 * t.val.length + 80) hsub
  have h5 := sum_map_affine 69 80 is
  omega

/-! ### the length premise, discharged

  The strings the model hands to `parseQuotedExpr` are `goUnquote tok.val` of a String token
  (`parseAttrs`) and `trimSpace (tok.val.take lastComma)` of a Text token (`parseCss`).  Both are at
  most 3 times as long as the token (`goUnquote_length_le`, `css_expr_length_le`), so
  `quoted_budgets_sum_le_model` needs no length hypothesis: what remains as prose is only that each
  quoted string of a run comes from a token of its own. -/

theorem trimLeftSpace_length_le : ∀ (f : Nat) (s : Bytes), (trimLeftSpace f s).length ≤ s.length := by
  intro f
  induction f with
  | zero => intro s; simp [trimLeftSpace]
  | succ f ih =>
    intro s
    cases s with
    | nil => simp [trimLeftSpace]
    | cons b r =>
      rw [trimLeftSpace]
      · simp only
        split
        · have := ih ((b :: r).drop (Utf8.decodeRune (b :: r)).2)
          simp only [List.length_drop] at this
          omega
        · exact Nat.le_refl _
      · simp

theorem trimRightSpace_length_le : ∀ (f : Nat) (s : Bytes), (trimRightSpace f s).length ≤ s.length := by
  intro f
  induction f with
  | zero => intro s; simp [trimRightSpace]
  | succ f ih =>
    intro s
    rw [trimRightSpace]
    split
    · exact Nat.le_refl _
    · simp only
      split
      · have := ih (s.take (s.length - (decodeLastRune s).2))
        simp only [List.length_take] at this
        omega
      · exact Nat.le_refl _

theorem trimSpace_length_le (s : Bytes) : (trimSpace s).length ≤ s.length := by
  unfold trimSpace
  have h1 := trimLeftSpace_length_le s.length s
  have h2 := trimRightSpace_length_le (trimLeftSpace s.length s).length (trimLeftSpace s.length s)
  exact Nat.le_trans h2 h1

theorem encodeRune_length_le (r : Int) : (Utf8.encodeRune r).length ≤ 4 := by
  unfold Utf8.encodeRune
  simp only
  generalize (if Utf8.validRune r = true then r.toNat else Utf8.runeError) = n
  repeat' split
  all_goals simp

theorem takeHex_length : ∀ (n : Nat) (s : Bytes) (acc v : Nat) (r : Bytes),
    takeHex n s acc = some (v, r) → r.length + n = s.length := by
  intro n
  induction n with
  | zero => intro s acc v r h; simp [takeHex] at h; rw [h.2]; simp
  | succ n ih =>
    intro s acc v r h
    cases s with
    | nil => simp [takeHex] at h
    | cons b t =>
      rw [takeHex] at h
      cases hv : hexVal b with
      | none => rw [hv] at h; simp at h
      | some x =>
        rw [hv] at h
        simp only [Option.bind_some] at h
        have := ih t _ v r h
        simp only [List.length_cons]; omega


/-- the bytes `unquoteLoop` appends for one character -/
def outLen (r : Nat) (mb : Bool) : Nat := if r < 0x80 || !mb then 1 else (Utf8.encodeRune r).length

theorem outLen_false (r : Nat) : outLen r false = 1 := by simp [outLen]
theorem outLen_le4 (r : Nat) (mb : Bool) : outLen r mb ≤ 4 := by
  unfold outLen; split
  · omega
  · exact encodeRune_length_le _

theorem decodeRune_cases (b0 : UInt8) (rest : Bytes) :
    (Utf8.decodeRune (b0 :: rest)).2 ≤ (b0 :: rest).length ∧
    (((Utf8.decodeRune (b0 :: rest)).2 = 1 ∧
        ((Utf8.decodeRune (b0 :: rest)).1 < 0x80 ∨ (Utf8.decodeRune (b0 :: rest)).1 = Utf8.runeError)) ∨
      2 ≤ (Utf8.decodeRune (b0 :: rest)).2) := by
  unfold Utf8.decodeRune
  simp only
  repeat' split
  all_goals first
    | exact ⟨by simp, Or.inr (Nat.le_refl 2)⟩
    | exact ⟨by simp, Or.inr (by show 2 ≤ 3; omega)⟩
    | exact ⟨by simp, Or.inr (by show 2 ≤ 4; omega)⟩
    | exact ⟨by simp, Or.inl ⟨rfl, Or.inl (by assumption)⟩⟩
    | exact ⟨by simp, Or.inl ⟨rfl, Or.inr rfl⟩⟩

theorem outLen_runeError : outLen Utf8.runeError true = 3 := by
  decide

theorem outLen_decode (b0 : UInt8) (rest : Bytes) :
    outLen (Utf8.decodeRune (b0 :: rest)).1 true + 3 * ((b0 :: rest).drop (Utf8.decodeRune (b0 :: rest)).2).length
      ≤ 3 * (b0 :: rest).length := by
  obtain ⟨hw, hc⟩ := decodeRune_cases b0 rest
  simp only [List.length_drop]
  rcases hc with ⟨h1, h2 | h2⟩ | h2
  · have : outLen (Utf8.decodeRune (b0 :: rest)).1 true = 1 := by simp [outLen, h2]
    omega
  · rw [h2, outLen_runeError]; omega
  · have := outLen_le4 (Utf8.decodeRune (b0 :: rest)).1 true
    omega


/-- close a branch of `unquoteChar`: the result is a literal triple -/
macro "uq_fin" h:ident : tactic => `(tactic| (
  simp only [Option.some.injEq, Prod.mk.injEq] at $h:ident
  rcases $h:ident with ⟨h1, h2, h3⟩
  subst h1; subst h2; subst h3
  simp only [List.length_cons]
  first
    | (rw [outLen_false]; omega)
    | (have := outLen_le4 _ true; omega)))

set_option maxRecDepth 100000 in
theorem unquoteChar_le (s : Bytes) (q : UInt8) (r : Nat) (mb : Bool) (rem : Bytes)
    (h : unquoteChar s q = some (r, mb, rem)) : outLen r mb + 3 * rem.length ≤ 3 * s.length := by
  cases s with
  | nil => simp [unquoteChar] at h
  | cons c rest =>
    unfold unquoteChar at h
    simp only at h
    split at h
    · exact absurd h (by simp)
    split at h
    · simp only [Option.some.injEq, Prod.mk.injEq] at h
      obtain ⟨rfl, rfl, rfl⟩ := h
      exact outLen_decode c rest
    split at h
    · uq_fin h
    split at h
    · exact absurd h (by simp)
    · rename_i e r2
      split at h
      any_goals uq_fin h
      · -- \xhh
        cases ht : takeHex 2 r2 0 with
        | none => rw [ht] at h; simp at h
        | some p =>
          rw [ht] at h
          have hl := takeHex_length 2 r2 0 p.1 p.2 ht
          simp only [Option.map_some] at h
          uq_fin h
      · -- \uhhhh
        cases ht : takeHex 4 r2 0 with
        | none => rw [ht] at h; simp at h
        | some p =>
          rw [ht] at h
          have hl := takeHex_length 4 r2 0 p.1 p.2 ht
          simp only [Option.bind_some] at h
          split at h
          · simp only [Option.some.injEq, Prod.mk.injEq] at h
            rcases h with ⟨h1, h2, h3⟩
            subst h1; subst h2; subst h3
            have := outLen_le4 p.1 true
            simp only [List.length_cons]; omega
          · exact absurd h (by simp)
      · -- \Uhhhhhhhh
        cases ht : takeHex 8 r2 0 with
        | none => rw [ht] at h; simp at h
        | some p =>
          rw [ht] at h
          have hl := takeHex_length 8 r2 0 p.1 p.2 ht
          simp only [Option.bind_some] at h
          split at h
          · simp only [Option.some.injEq, Prod.mk.injEq] at h
            rcases h with ⟨h1, h2, h3⟩
            subst h1; subst h2; subst h3
            have := outLen_le4 p.1 true
            simp only [List.length_cons]; omega
          · exact absurd h (by simp)
      · split at h
        · uq_fin h
        · exact absurd h (by simp)
      · split at h
        · uq_fin h
        · exact absurd h (by simp)
      · split at h
        · split at h
          · split at h
            · split at h
              · exact absurd h (by simp)
              · uq_fin h
            · exact absurd h (by simp)
          · exact absurd h (by simp)
        · exact absurd h (by simp)


theorem unquoteLoop_le : ∀ (fuel : Nat) (s : Bytes) (q : UInt8) (buf out rem : Bytes),
    unquoteLoop fuel s q buf = some (out, rem) → out.length + 3 * rem.length ≤ buf.length + 3 * s.length := by
  intro fuel
  induction fuel with
  | zero => intro s q buf out rem h; simp [unquoteLoop] at h
  | succ fuel ih =>
    intro s q buf out rem h
    unfold unquoteLoop at h
    split at h
    · exact absurd h (by simp)
    · rename_i c rest
      split at h
      · simp only [Option.some.injEq, Prod.mk.injEq] at h
        rcases h with ⟨h1, h2⟩
        subst h1; subst h2
        simp only [List.length_cons]; omega
      · split at h
        · exact absurd h (by simp)
        · rename_i r mb rm huc
          have hc := unquoteChar_le _ _ _ _ _ huc
          split at h
          · exact absurd h (by simp)
          · have hb : (if (r < 0x80 || !mb) = true then buf ++ [UInt8.ofNat r] else buf ++ Utf8.encodeRune r).length
                = buf.length + outLen r mb := by
              unfold outLen
              split <;> simp
            simp only at h
            split at h
            · split at h
              · split at h
                · simp only [Option.some.injEq, Prod.mk.injEq] at h
                  rcases h with ⟨h1, h2⟩
                  subst h1; subst h2
                  rw [hb]
                  simp only [List.length_cons] at hc ⊢
                  omega
                · exact absurd h (by simp)
              · exact absurd h (by simp)
            · have := ih _ _ _ _ _ h
              rw [hb] at this
              omega

theorem indexByte_lt {s : Bytes} {b : UInt8} {i : Nat} (h : indexByte s b = some i) : i < s.length := by
  unfold indexByte at h
  simp only at h
  split at h
  · simp only [Option.some.injEq] at h; omega
  · exact absurd h (by simp)

/-- `strconv.Unquote` at most triples the length: escapes only shrink, but in the slow path a byte
    that is not valid UTF-8 becomes the 3 bytes of U+FFFD -/
theorem goUnquote_length_le (s r : Bytes) (h : goUnquote s = some r) : r.length ≤ 3 * s.length := by
  unfold goUnquote at h
  split at h
  · exact absurd h (by simp)
  · exact absurd h (by simp)
  · rename_i quote body _
    split at h
    · split at h
      · exact absurd h (by simp)
      · split at h
        · simp only [Option.some.injEq] at h
          subst h
          have := List.length_filter_le (fun x : UInt8 => x != 13) (List.take ‹Nat› body)
          simp only [List.length_take, List.length_cons] at this ⊢
          omega
        · exact absurd h (by simp)
    · split at h
      · exact absurd h (by simp)
      · split at h
        · exact absurd h (by simp)
        · rename_i endIdx _
          simp only at h
          split at h
          · rename_i out hfast
            split at h
            · simp only [Option.some.injEq] at h
              subst h
              have hout : out = body.take endIdx := by
                revert hfast
                repeat' split
                all_goals simp
                all_goals (intro e; exact e.symm)
              rw [hout]
              simp only [List.length_take, List.length_cons]
              omega
            · exact absurd h (by simp)
          · split at h
            · split at h
              · simp only [Option.some.injEq] at h
                subst h
                rename_i out rem hloop _
                have := unquoteLoop_le _ _ _ _ _ _ hloop
                simp only [List.length_nil, List.length_cons] at this ⊢
                omega
              · exact absurd h (by simp)
            · exact absurd h (by simp)

/-- the expression string of `{css e, x}` is not longer than the Text token it is cut from -/
theorem css_expr_length_le (v : Bytes) (k : Nat) : (trimSpace (v.take k)).length ≤ v.length := by
  have := trimSpace_length_le (v.take k)
  simp only [List.length_take] at this
  omega

/-- the string the model hands to `parseQuotedExpr` for a token: `strconv.Unquote` of a String token's
    value (`parseAttrs`), the trimmed text in front of the last comma of a Text token (`parseCss`) -/
def quotedStr (t : Item) : Bytes :=
  if t.typ = .tString then (goUnquote t.val).getD []
  else match lastIndexByte t.val 44 with
    | some k => trimSpace (t.val.take k)
    | none => []

theorem quotedStr_length_le (t : Item) : (quotedStr t).length ≤ 3 * t.val.length := by
  unfold quotedStr
  split
  · cases h : goUnquote t.val with
    | none => simp
    | some r => simpa using goUnquote_length_le t.val r h
  · split
    · have := css_expr_length_le t.val ‹Nat›
      omega
    · simp

/-- the quoted expressions of one file, with the strings the MODEL computes from the tokens: for any
    sub-list of the token stream the budgets sum to at most `229·n + 149` -/
theorem quoted_budgets_sum_le_model (input : Bytes) (is : List Item) (hl : Lex.lexAll input false = .items is)
    (ts : List Item) (hsub : ts.Sublist is) :
    (ts.map (fun t => quotedBudget (quotedStr t).length)).sum ≤ 229 * input.length + 149 :=
  quoted_budgets_sum_le input is hl ts hsub quotedStr quotedStr_length_le

end SoyVerif.Props.C05
