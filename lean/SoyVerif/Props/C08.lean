/-
  C08 — Rendering is pure: it changes neither caller data nor compiled templates.

  The model threads the state that more than one render can reach explicitly:

    Shared = the compiled bundle and the extension registries (registry, globals, message bundle,
             directive table, obligatory directives) and the pool of caller-owned maps
             (data maps, injected-data maps), plus `foreignWrites`, the number of interpreter
             writes that ever reached a caller-owned map through an alias (a map value used as
             a scope frame by `data="$e"`).

  Frames of a scope are references into a heap (Model/Eval.lean); `set` really writes the referenced
  cell.  The caller's data map is cell 0 of every render.  `exec_frame` says a render — succeeding,
  failing, or out of call depth, for every configuration of the registries — returns the shared state
  unchanged: the data map is bit-for-bit what it was, no aliasing write happened.  `history_independent`
  follows by induction over any sequence of renders.

  The tree itself: the model's interpreter has no operation that writes the tree (the one the Go code
  had — appending the obligatory directives to `PrintNode.Directives` — is now an append to a copy:
  `dirs ++ obligDirs …` in `evalPrint`), so the registry component is unchanged by construction;
  the theorems below cover the part that is NOT by construction, the maps reached through references.
-/
import SoyVerif.Lemmas.EvalGood

namespace SoyVerif.Props.C08
open SoyVerif SoyVerif.Model SoyVerif.Model.Eval

/-- everything more than one render can reach -/
structure Shared where
  reg : Registry.Reg
  globals : Frame
  msgs : Option MsgBundle
  tbl : Directives.Table
  oblig : List Bytes
  maps : List Frame          -- caller-owned maps
  foreignWrites : Nat

/-- one render request: template, which maps are the data and the $ij, the call-depth bound -/
structure Input where
  name : Bytes
  data : Nat
  ij : Option Nat
  fuel : Nat

structure Result where
  cls : Cls
  chunks : List Bytes

def genv (sh : Shared) (inp : Input) : GEnv :=
  { reg := sh.reg, globals := sh.globals, msgs := sh.msgs, tbl := sh.tbl, oblig := sh.oblig,
    ij := inp.ij.map fun i => (i + 2, sh.maps.getD i []) }

/-- a render on the shared state: the data map is written back as the interpreter left it -/
def exec (sh : Shared) (inp : Input) : Shared × Result :=
  let o := execute (genv sh inp) inp.name (sh.maps.getD inp.data []) inp.fuel
  ({ sh with maps := if inp.data < sh.maps.length then sh.maps.set inp.data o.data else sh.maps,
             foreignWrites := sh.foreignWrites + o.foreign },
   { cls := o.cls, chunks := o.chunks })

/-- rendering leaves the shared state exactly as it was -/
theorem exec_frame (sh : Shared) (inp : Input) : (exec sh inp).1 = sh := by
  obtain ⟨_, hd, hf⟩ := execute_spec (genv sh inp) inp.name (sh.maps.getD inp.data []) inp.fuel
  unfold exec
  simp only [hd, hf, Nat.add_zero]
  split
  · rename_i hlt
    have : sh.maps.set inp.data (sh.maps.getD inp.data []) = sh.maps := by
      apply List.ext_getElem?
      intro i
      by_cases hi : inp.data = i
      · subst hi
        simp [hlt, List.getD_eq_getElem?_getD]
      · simp [hi]
    rw [this]
  · rfl

/-- the caller's data map and the injected data are what they were (the `maps` component alone) -/
theorem caller_maps_untouched (sh : Shared) (inp : Input) : (exec sh inp).1.maps = sh.maps := by
  rw [exec_frame]

/-- no `set` reached a caller-owned map through an alias -/
theorem no_foreign_write (sh : Shared) (inp : Input) : (exec sh inp).1.foreignWrites = sh.foreignWrites := by
  rw [exec_frame]

/-- a history of renders (of any templates, with any data, failing ones included) -/
def runAll (sh : Shared) : List Input → Shared
  | [] => sh
  | i :: r => runAll (exec sh i).1 r

theorem runAll_frame (sh : Shared) (hist : List Input) : runAll sh hist = sh := by
  induction hist generalizing sh with
  | nil => rfl
  | cons i r ih => simp only [runAll, exec_frame, ih]

/-- the outcome of a render does not depend on what was rendered before it -/
theorem history_independent (sh : Shared) (hist : List Input) (inp : Input) :
    (exec (runAll sh hist) inp).2 = (exec sh inp).2 := by
  rw [runAll_frame]

/-- in particular the n-th repetition of a render gives what the first gave -/
theorem repeat_same (sh : Shared) (inp : Input) (n : Nat) :
    (exec (runAll sh (List.replicate n inp)) inp).2 = (exec sh inp).2 :=
  history_independent sh _ inp

/-- inside a render: a template invocation (hence a call) changes no cell that existed before except
    the invocation's own top frame — the callee pushes its own frame before any `set`, and shared
    frames (`data="all"`) are never written -/
theorem callee_writes_only_own_frame (g : GEnv) (fuel : Nat) (t : Registry.Tmpl) (ctx : Scope) (st : St)
    (hown : Own ctx st) (i : Nat) (c : Cell) (hc : st.heap[i]? = some c) (hi : i ≠ top ctx) :
    ∃ c', (runTmpl g fuel t ctx st).st.heap[i]? = some c' ∧ c'.vars = c.vars ∧ c'.ro = c.ro := by
  obtain ⟨c', h1, h2, h3⟩ := (runTmpl_good g fuel t ctx st hown).ext.keep i c hc
  exact ⟨c', h1, h3 hi, h2⟩

/-! ### non-vacuity: an obligatory directive is configured, the template binds, loops and fails -/

/-- `{let $x: 'a' /}{$x}{$u}` -/
def tmpl : Registry.Tmpl :=
  { name := [116], params := [],
    body := .mk 0 (.cons (.letValue 1 [120] (.str 1 [] [97]))
      (.cons (.print 3 (.dataRef 3 [120] .nil) [])
      (.cons (.print 4 (.dataRef 4 [117] .nil) []) .nil))),
    autoescape := .unspecified, nsName := [110], nsAutoescape := .unspecified, pos := 0, file := [102], text := [0, 0, 0, 0, 0] }

def sh0 : Shared :=
  { reg := [tmpl], globals := [], msgs := none, tbl := [], oblig := [], maps := [[([120], .str [98])]], foreignWrites := 0 }

def inp0 : Input := { name := [116], data := 0, ij := none, fuel := 3 }

/-- the render writes "a", then fails on the undefined `$u`; the caller's `x` is untouched although the
    template bound its own `x` (exec_frame), and the same request gives the same result afterwards -/
example : (exec sh0 inp0).2.cls = .err := by decide
example : (exec sh0 inp0).2.chunks = [[97]] := by decide
example : (exec (runAll sh0 [inp0, inp0]) inp0).2.chunks = [[97]] := by rw [history_independent]; decide

end SoyVerif.Props.C08
