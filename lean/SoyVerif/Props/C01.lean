/-
  C01 — Expressions evaluate exactly as the Soy language defines.

  `eval_refines_spec_partial` / `eval_refines_spec_ordering`: on the fragment below the interpreter model
  (Model/Eval.lean `evalE`, which is tied to soyhtml/exec.go by the C01eval correspondence) refines the
  denotational semantics of Appendix A (Spec/Eval.lean `eval`): wherever the specification gives a value the
  model gives the same value (`absV`: identities of lists / maps dropped, int64 read as an integer, nested
  values related member by member), and wherever the specification gives an error the model gives an error.
  Where the specification is open (`unspec`: int overflow, division by zero, float print form outside the
  pinned window, `==` with an undefined operand or on two collections — identity —, a negative list index,
  an empty or non-string key on a map, printing a map with two or more entries, …) nothing is claimed.

  The fragment (`frag` / `fragO true`), nested arbitrarily, over environments binding ANY values (scalars,
  lists, maps, nested):
    * null / boolean / integer (within int64) / float / string literals, globals;
    * variable references and `$ij` WITH ACCESS CHAINS: `$x`, `.k`, `.N`, `[e]` and the null-safe `?.k`, `?[e]`, on maps
      and lists — including the error cases (an access on null / undefined / a scalar, a key on a list, a
      non-integer index) and the values (`undefined` for an absent key or an index past the end, `null`
      for a null-safe LAST access on null / undefined);
    * list literals and map literals (pairwise different keys) as VALUES;
    * `not`, unary minus, `and`, `or`, `?:`, the ternary, `==`, `!=`, `+` (integer, float, string
      concatenation — of any printable values, lists included), `-`, `*`, `/`, `%`; `< > <= >=` in
      `eval_refines_spec_ordering` (`ordExact` is a theorem);
    * the builtins isNonnull, length, strContains, hasData, range, min, max, keys (sorted, on both sides),
      augmentMap, floor and ceiling (`Lemmas/FuncRefine.lean`; floor / ceiling of a float: `Lemmas/F64Floor.lean`).

  Still outside — why the theorems keep `_partial`:
    * names ending in a loop's bookkeeping suffix (`x.index`, `x.lastIndex` — no variable name contains a
      '.', so this excludes nothing a parser produces); (`$ij` with its access chains is inside: `EnvRel.ij`)
    * (the loop functions index / isFirst / isLast are inside under `LoopRel`: `eval_refines_spec_loops`,
      `fragO true true`; the C02 refinement does not supply `LoopRel` yet — the bound on the loop length is a
      fact about the execution.)  Formerly: the specification gives `index($x)` as the integer `i`
      whatever its size, the interpreter keeps it as an int64 — the two differ for a loop over more than
      2^63 items, and the specification's clause is pinned by Props/C04c (`hspec`); it would need a guard
      on the loop length there;
    * round (floor and ceiling are inside now): it needs exactness lemmas about the soft-float (decode ∘ round-to-nearest on
      integers below 2^53, exact products by powers of ten) that are not proved; randomInt (a PRNG);
    * a map literal whose TREE repeats a key — no parser produces one: `parseMapLiteral` keeps the last value
      of a repeated key and the tree is sorted by key (`mapFragO_of_sorted`).
  These stay decided by the exhaustive C01eval matrix against Spec.eval.
-/
import SoyVerif.Lemmas.EvalRefine
import SoyVerif.Lemmas.FuncRefine
import SoyVerif.Lemmas.F64Order
import SoyVerif.Model.PrintTokens

namespace SoyVerif.Props.C01
open SoyVerif SoyVerif.Model SoyVerif.Model.Eval SoyVerif.Refine
open SoyVerif.Spec.Eval (Val Out)

/-- are the ordering comparisons part of the fragment? -/
def opOk (ord : Bool) : BinOp → Bool
  | .lt | .le | .gt | .ge => ord
  | _ => true

/-- is `k` the name of a loop helper (`x.index`, `x.lastIndex`)?  The interpreter keeps those in the loop's
    frame as ordinary bindings; the specification keeps them apart (they are reachable through `index` /
    `isFirst` / `isLast` only), so the fragment does not read variables of such names. -/
def isHelper (k : Bytes) : Bool := sIndexSuffix.isSuffixOf k || sLastIndexSuffix.isSuffixOf k

/-- the keys of a map literal -/
def itemKeys : MapItems → List Bytes
  | .nil => []
  | .cons k _ r => k :: itemKeys r

mutual
/-- the expression fragment, with (`ord = true`) or without the four ordering comparisons -/
def fragO (ord lf : Bool) : Expr → Bool
  | .null _ => true
  | .bool _ _ => true
  | .int _ v => decide (-2 ^ 63 ≤ v ∧ v < 2 ^ 63)
  | .float _ _ => true
  | .str _ _ _ => true
  | .global _ _ => true
  | .dataRef _ key acc => (key == sIj || !isHelper key) && accFrag ord lf acc
  | .not _ a => fragO ord lf a
  | .neg _ a => fragO ord lf a
  | .bin op _ a b => opOk ord op && fragO ord lf a && fragO ord lf b
  | .tern _ c a b => fragO ord lf c && fragO ord lf a && fragO ord lf b
  | .list _ items => listFragO ord lf items
  | .map _ items => mapFragO ord lf items
  | .func _ name args => (lf && isLoopFunc name) || (fnOk name && listFragO ord lf args)
/-- access chains: `.k`, `.N`, `[e]` and the null-safe forms, the key expressions in the fragment -/
def accFrag (ord lf : Bool) : AccessList → Bool
  | .nil => true
  | .cons (.key _ _ _) r => accFrag ord lf r
  | .cons (.index _ _ _) r => accFrag ord lf r
  | .cons (.expr _ _ e) r => fragO ord lf e && accFrag ord lf r
/-- the items of a list literal (the arguments of a function) -/
def listFragO (ord lf : Bool) : ExprList → Bool
  | .nil => true
  | .cons e r => fragO ord lf e && listFragO ord lf r
/-- the items of a map literal: pairwise different keys -/
def mapFragO (ord lf : Bool) : MapItems → Bool
  | .nil => true
  | .cons k e r => fragO ord lf e && !(itemKeys r).contains k && mapFragO ord lf r
end

/-- the values of a map literal are in the fragment (nothing about its keys) -/
def mapValsFrag (ord lf : Bool) : MapItems → Bool
  | .nil => true
  | .cons _ e r => fragO ord lf e && mapValsFrag ord lf r

theorem bytes_lt_irrefl : (a : Bytes) → Bytes.lt a a = false
  | [] => rfl
  | x :: r => by simp [Bytes.lt, bytes_lt_irrefl r]

theorem itemKeys_eq_keysOf : (items : MapItems) → itemKeys items = PrintTokens.keysOf items
  | .nil => rfl
  | .cons k _ r => by simp [itemKeys, PrintTokens.keysOf, itemKeys_eq_keysOf r]

/-- "pairwise different keys" excludes no map literal a parser produces: `parseMapLiteral` collects the items
    in a Go map — a repeated key keeps the LAST value — and the tree holds them in sorted key order
    (`MapItems.set` in Model/Parser.lean; `PrintTokens.SortedKeys` is part of C17's canonical trees); keys in
    strictly increasing order are pairwise different -/
theorem mapFragO_of_sorted (ord lf : Bool) : (items : MapItems) → PrintTokens.SortedKeys items →
    mapValsFrag ord lf items = true → mapFragO ord lf items = true
  | .nil, _, _ => rfl
  | .cons k e r, hs, hv => by
    simp only [mapValsFrag, Bool.and_eq_true] at hv
    simp only [PrintTokens.SortedKeys] at hs
    have hk : (itemKeys r).contains k = false := by
      cases hc : (itemKeys r).contains k with
      | false => rfl
      | true =>
        rw [itemKeys_eq_keysOf] at hc
        have := hs.1 k (by simpa using hc)
        rw [bytes_lt_irrefl] at this
        cases this
    simp only [mapFragO, hv.1, hk, mapFragO_of_sorted ord lf r hs.2 hv.2, Bool.not_false, Bool.and_self]

/-- the fragment without `< > <= >=` (no hypothesis about the soft-float needed) -/
def frag (e : Expr) : Bool := fragO false false e

/-- the model's environment and the specification's bind the same values — scalars, except under the names
    `coll` -/
structure EnvRel (m : EEnv) (s : Spec.Eval.Env) : Prop where
  vars : ∀ k, isHelper k = false → absV (m.lookup k) = s.lookup k
  globals : ∀ k, match Frame.find m.globals k with
    | some v => Spec.Eval.find s.globals k = some (absV v)
    | none => Spec.Eval.find s.globals k = none
  /-- the injected data: present on both sides or on neither, the same bindings -/
  ij : (m.ij.map fun p => absK p.2) = s.ij

/-- on `e` the model agrees with the specification wherever the specification is defined -/
def Sim (m : EEnv) (s : Spec.Eval.Env) (e : Expr) : Prop :=
  ∀ n, (∀ v, Spec.Eval.eval s e = .val v → ∃ mv n', evalE m e n = .ok mv n' ∧ absV mv = v) ∧
       (Spec.Eval.eval s e = .error → evalE m e n = .err)

/-- the enclosing loops: the interpreter keeps the index and the last index of the loop over `x` under the
    names `x.index` / `x.lastIndex`, as int64 — and the loop is shorter than 2^63 (a list that fits in memory is;
    Go's `len` is an int.  This is where that is stated: the specification's `index($x)` is the unbounded natural) -/
def LoopRel (m : EEnv) (s : Spec.Eval.Env) : Prop :=
  ∀ x i l, Spec.Eval.findLoop s.loops x = some (i, l) →
    m.lookup (x ++ sIndexSuffix) = .int (Int64.ofInt i) ∧ m.lookup (x ++ sLastIndexSuffix) = .int (Int64.ofInt l) ∧
      i ≤ l ∧ (l : Int) < 2 ^ 63

theorem ofNat_toInt (i : Nat) (h : (i : Int) < 2 ^ 63) : (Int64.ofInt i).toInt = i :=
  Int64.toInt_ofInt_of_le (by omega) h

theorem ofNat_beq (i l : Nat) (hi : (i : Int) < 2 ^ 63) (hl : (l : Int) < 2 ^ 63) :
    (Int64.ofInt (i : Int) == Int64.ofInt (l : Int)) = (i == l) := by
  rw [Bool.eq_iff_iff]
  simp only [beq_iff_eq]
  constructor
  · intro h
    have := congrArg Int64.toInt h
    rw [ofNat_toInt i hi, ofNat_toInt l hl] at this
    exact Int.ofNat_inj.mp this
  · intro h; rw [h]

/-- the loop functions: where the specification gives a value — the argument is the variable of an
    enclosing loop — the interpreter gives the same value (the specification never says `error` here) -/
theorem loopFn_sim {m : EEnv} {s : Spec.Eval.Env} (hr : LoopRel m s) (p : Nat) (name : Bytes)
    (hL : isLoopFunc name = true) (args : ExprList) : Sim m s (.func p name args) := by
  intro n
  have hS : Spec.Eval.isLoopFn name = true := hL
  rw [Spec.Eval.eval.eq_def, evalE.eq_def]
  simp only [hL, hS, if_true]
  have none_case : ∀ (r : ERes), (∀ v, (Out.unspec : Out Val) = .val v → ∃ mv n', r = .ok mv n' ∧ absV mv = v) ∧
      ((Out.unspec : Out Val) = .error → r = .err) := fun r => ⟨fun v h => (by cases h), fun h => (by cases h)⟩
  cases args with
  | nil => exact none_case _
  | cons a rest =>
    cases a with
    | dataRef q key acc =>
      cases acc with
      | cons _ _ => exact none_case _
      | nil =>
        cases rest with
        | cons _ _ => exact none_case _
        | nil =>
          simp only
          cases hf : Spec.Eval.findLoop s.loops key with
          | none => exact none_case _
          | some il =>
            obtain ⟨i, l⟩ := il
            obtain ⟨hidx, hlast, hil, hl⟩ := hr key i l hf
            have hi : (i : Int) < 2 ^ 63 := by omega
            simp only [applyLoopFunc, hidx, hlast]
            have e1 : (name == Spec.Eval.nIndex) = (name == fIndex) := rfl
            have e2 : (name == Spec.Eval.nIsFirst) = (name == fIsFirst) := rfl
            rw [e1, e2]
            refine ⟨fun v hv => ?_, fun herr => ?_⟩
            · by_cases h1 : (name == fIndex) = true
              · simp only [h1, if_true, Out.val.injEq] at hv ⊢
                exact ⟨_, _, rfl, by rw [← hv, absV, ofNat_toInt i hi]⟩
              · simp only [h1, Bool.false_eq_true, if_false] at hv ⊢
                by_cases h2 : (name == fIsFirst) = true
                · simp only [h2, if_true, Out.val.injEq] at hv ⊢
                  refine ⟨_, _, rfl, ?_⟩
                  rw [← hv, absV]
                  have := ofNat_beq i 0 hi (by decide)
                  exact congrArg Val.bool (by simpa using this)
                · simp only [h2, Bool.false_eq_true, if_false, Out.val.injEq] at hv ⊢
                  refine ⟨_, _, rfl, ?_⟩
                  rw [← hv, absV]
                  exact congrArg Val.bool (ofNat_beq i l hi hl)
            · by_cases h1 : (name == fIndex) = true
              · simp [h1] at herr
              · by_cases h2 : (name == fIsFirst) = true
                · simp [h1, h2] at herr
                · simp [h1, h2] at herr
    | _ => exact none_case _

theorem bind_val {α β : Type} {o : Out α} {f : α → Out β} {b : β} (h : o.bind f = .val b) :
    ∃ a, o = .val a ∧ f a = .val b := by
  cases o <;> simp [Spec.Eval.Out.bind] at h ⊢; exact h

theorem bind_err {α β : Type} {o : Out α} {f : α → Out β} (h : o.bind f = .error) :
    o = .error ∨ ∃ a, o = .val a ∧ f a = .error := by
  cases o <;> simp [Spec.Eval.Out.bind] at h ⊢; exact h

/-- the keys of the value of a map literal are keys of the literal -/
theorem evalMap_keys (s : Spec.Eval.Env) : ∀ (items : MapItems) (B : Spec.Eval.Binds), Spec.Eval.evalMap s items = .val B →
    ∀ kv ∈ B, kv.1 ∈ itemKeys items
  | .nil, B, h => by
    rw [Spec.Eval.evalMap] at h; simp only [Out.val.injEq] at h; subst h; intro kv hkv; cases hkv
  | .cons k e r, B, h => by
    rw [Spec.Eval.evalMap] at h
    obtain ⟨v, _, h⟩ := bind_val h
    obtain ⟨Br, hr, h⟩ := bind_val h
    simp only [Out.val.injEq] at h
    subst h
    intro kv hkv
    rcases List.mem_cons.mp hkv with rfl | hkv
    · simp [itemKeys]
    · have := evalMap_keys s r Br hr kv (List.mem_filter.mp hkv).1
      simp [itemKeys, this]

theorem filter_ne_self (B : Spec.Eval.Binds) (k : Bytes) (h : ∀ kv ∈ B, kv.1 ≠ k) :
    (B.filter fun kv => kv.1 != k) = B :=
  List.filter_eq_self.mpr fun kv hkv => by simpa using h kv hkv

/-- one access step, then the rest of the chain -/
theorem step_cont {m : EEnv} {s : Spec.Eval.Env} (rest : AccessList) {ms : AStep} {ss : Spec.Eval.Step}
    (hs : StepAgree ms ss) (n : Nat)
    (ih : ∀ (ref : Value) (n : Nat),
      (∀ v, Spec.Eval.evalAcc s rest (absV ref) = .val v → ∃ mv n', evalAccesses m rest ref n = .ok mv n' ∧ absV mv = v) ∧
      (Spec.Eval.evalAcc s rest (absV ref) = .error → evalAccesses m rest ref n = .err)) :
    (∀ v, (match ss with | .next v => Spec.Eval.evalAcc s rest v | .stop o => o) = .val v →
      ∃ mv n', (match ms with | .cont v => evalAccesses m rest v n | .ret v => .ok v n | .err => .err) = .ok mv n' ∧ absV mv = v) ∧
    ((match ss with | .next v => Spec.Eval.evalAcc s rest v | .stop o => o) = .error →
      (match ms with | .cont v => evalAccesses m rest v n | .ret v => .ok v n | .err => .err) = .err) := by
  cases ss with
  | next v =>
    obtain ⟨mv, rfl, rfl⟩ := hs
    exact ih mv n
  | stop o =>
    cases o with
    | val v =>
      obtain ⟨mv, rfl, rfl⟩ := hs
      exact ⟨fun v' h => by simp only [Out.val.injEq] at h; exact ⟨mv, n, rfl, h⟩, fun h => by simp at h⟩
    | error =>
      simp only [StepAgree] at hs
      subst hs
      exact ⟨fun v' h => by simp at h, fun _ => rfl⟩
    | unspec => exact ⟨fun v' h => by simp at h, fun h => by simp at h⟩

section
variable {m : EEnv} {s : Spec.Eval.Env} (hr : EnvRel m s)
include hr

/-- the strict operators (`+ - * / %`) given the two operands' simulations -/
theorem strict_sim (op : BinOp) (p : Nat) (a b : Expr)
    (hop : op = .add ∨ op = .sub ∨ op = .mul ∨ op = .div ∨ op = .mod ∨ op = .lt ∨ op = .le ∨ op = .gt ∨ op = .ge)
    (harith : ∀ x y, ArithSpec op x y)
    (ha : Sim m s a) (hb : Sim m s b) : Sim m s (.bin op p a b) := by
  intro n
  have hS : Spec.Eval.eval s (.bin op p a b) =
      (Spec.Eval.eval s a).bind fun va => (Spec.Eval.eval s b).bind fun vb => Spec.Eval.binop op va vb := by
    rcases hop with rfl | rfl | rfl | rfl | rfl | rfl | rfl | rfl | rfl <;> rw [Spec.Eval.eval] <;> first | rfl | (intro h; cases h)
  have hM : evalE m (.bin op p a b) n =
      (match evalE m a n with
       | .ok .undefined _ => .err
       | .ok va n1 =>
         match evalE m b n1 with
         | .ok .undefined _ => .err
         | .ok vb n2 =>
           match arith op va vb with
           | some v => .ok v n2
           | none => .err
         | .err => .err
       | .err => .err) := by
    rcases hop with rfl | rfl | rfl | rfl | rfl | rfl | rfl | rfl | rfl <;> rw [evalE] <;> first | rfl | (intro h; cases h)
  rw [hS, hM]
  refine ⟨fun v hv => ?_, fun herr => ?_⟩
  · obtain ⟨va, hva, hv⟩ := bind_val hv
    obtain ⟨vb, hvb, hv⟩ := bind_val hv
    obtain ⟨ma, n1, hma, habs⟩ := (ha n).1 va hva
    obtain ⟨mb, n2, hmb, hbbs⟩ := (hb n1).1 vb hvb
    have := (harith ma mb).1 v (by rw [habs, hbbs]; exact hv)
    obtain ⟨hna, hnb, mv, hmv, hmabs, hmsc⟩ := this
    refine ⟨mv, n2, ?_, hmabs⟩
    rw [hma]
    cases ma <;> simp_all
    all_goals (cases mb <;> simp_all)
  · rcases bind_err herr with h | ⟨va, hva, herr⟩
    · rw [(ha n).2 h]
    · obtain ⟨ma, n1, hma, habs⟩ := (ha n).1 va hva
      rw [hma]
      rcases bind_err herr with h | ⟨vb, hvb, herr⟩
      · have hb' := (hb n1).2 h
        cases ma <;> simp [hb']
      · obtain ⟨mb, n2, hmb, hbbs⟩ := (hb n1).1 vb hvb
        have := (harith ma mb).2 (by rw [habs, hbbs]; exact herr)
        rcases this with h | h | h
        · subst h; simp
        · subst h; cases ma <;> simp [hmb]
        · cases ma <;> simp [hmb] <;> cases mb <;> simp_all

mutual
/-- the model refines the specification on the fragment -/
theorem eval_refines_spec_ord (ord : Bool) (hord : ord = true → OrdExact) (lf : Bool) (hlf : lf = true → LoopRel m s) : (e : Expr) → fragO ord lf e = true → Sim m s e
  | .null _, _ => by intro n; simp [Spec.Eval.eval, evalE, absV, Scalar]
  | .bool _ b, _ => by intro n; simp [Spec.Eval.eval, evalE, absV, Scalar]
  | .int _ v, hf => by
    intro n
    simp only [fragO, decide_eq_true_eq] at hf
    simp [Spec.Eval.eval, evalE, absV, Scalar, Int64.toInt_ofInt_of_le hf.1 hf.2]
  | .float _ bits, _ => by intro n; simp [Spec.Eval.eval, evalE, absV, Scalar]
  | .str _ _ v, _ => by intro n; simp [Spec.Eval.eval, evalE, absV, Scalar]
  | .global _ name, _ => by
    intro n
    have hg := hr.globals name
    rw [Spec.Eval.eval, evalE]
    split at hg
    · rename_i v hv
      rw [hv, hg]
      simp
    · rename_i hv
      rw [hv, hg]
      simp
  | .dataRef _ key acc, hf => by
    intro n
    simp only [fragO, Bool.and_eq_true, Bool.or_eq_true, Bool.not_eq_true'] at hf
    rw [Spec.Eval.eval, evalE]
    by_cases h1 : (key == sIj) = true
    · have h2 : (key == Spec.Eval.sIj) = true := h1
      simp only [h1, h2, if_true]
      have hij := hr.ij
      cases hm : m.ij with
      | none =>
        rw [hm] at hij
        simp only [Option.map_none] at hij
        rw [← hij]
        exact ⟨fun v h => by simp at h, fun _ => rfl⟩
      | some p =>
        obtain ⟨id, kvs⟩ := p
        rw [hm] at hij
        simp only [Option.map_some] at hij
        rw [← hij]
        have := acc_sim ord hord lf hlf acc hf.2 (.map id kvs) n
        rw [absV] at this
        exact this
    · have h1' : (key == sIj) = false := by simpa using h1
      have h2 : (key == Spec.Eval.sIj) = false := h1'
      simp only [h1', h2, Bool.false_eq_true, if_false]
      have hh : isHelper key = false := by
        rcases hf.1 with h | h
        · rw [h] at h1'; cases h1'
        · exact h
      rw [← hr.vars key hh]
      exact acc_sim ord hord lf hlf acc hf.2 (m.lookup key) n
  | .not _ a, hf => by
    intro n
    have ih := eval_refines_spec_ord ord hord lf hlf a (by simpa [fragO] using hf) n
    rw [Spec.Eval.eval, evalE]
    refine ⟨fun v hv => ?_, fun herr => ?_⟩
    · obtain ⟨va, hva, hv⟩ := bind_val hv
      obtain ⟨ma, n1, hma, habs⟩ := ih.1 va hva
      rw [hma]
      simp only [Out.val.injEq] at hv
      exact ⟨_, _, rfl, by rw [← hv, ← habs, truthy_abs ma]; rfl⟩
    · rcases bind_err herr with h | ⟨va, _, h⟩
      · rw [ih.2 h]
      · simp at h
  | .neg _ a, hf => by
    intro n
    have ih := eval_refines_spec_ord ord hord lf hlf a (by simpa [fragO] using hf) n
    rw [Spec.Eval.eval, evalE]
    refine ⟨fun v hv => ?_, fun herr => ?_⟩
    · obtain ⟨va, hva, hv⟩ := bind_val hv
      obtain ⟨ma, n1, hma, habs⟩ := ih.1 va hva
      rw [hma]
      subst habs
      cases ma with
      | int i =>
        simp only [absV, Spec.Eval.intRes] at hv
        split at hv
        · rename_i hin
          simp only [Out.val.injEq] at hv
          exact ⟨.int (-i), n1, rfl, by rw [← hv]; simp [absV, toInt_neg_of _ hin]⟩
        · simp at hv
      | float f =>
        simp only [absV, Out.val.injEq] at hv
        exact ⟨.float (F64.neg f), n1, rfl, by rw [← hv]; simp [absV]⟩
      | undefined => simp [absV] at hv
      | null => simp [absV] at hv
      | bool _ => simp [absV] at hv
      | str _ => simp [absV] at hv
      | list _ _ => simp [absV] at hv
      | map _ _ => simp [absV] at hv
    · rcases bind_err herr with h | ⟨va, hva, h⟩
      · rw [ih.2 h]
      · obtain ⟨ma, n1, hma, habs⟩ := ih.1 va hva
        rw [hma]
        subst habs
        cases ma with
        | int i =>
          simp only [absV, Spec.Eval.intRes] at h
          split at h <;> simp at h
        | float f => simp [absV] at h
        | _ => rfl
  | .tern _ c a b, hf => by
    intro n
    simp only [fragO, Bool.and_eq_true] at hf
    have ihc := eval_refines_spec_ord ord hord lf hlf c hf.1.1 n
    rw [Spec.Eval.eval, evalE]
    refine ⟨fun v hv => ?_, fun herr => ?_⟩
    · obtain ⟨vc, hvc, hv⟩ := bind_val hv
      obtain ⟨mc, n1, hmc, habs⟩ := ihc.1 vc hvc
      rw [hmc]
      simp only
      rw [← habs, truthy_abs mc] at hv
      split at hv
      · rename_i ht; simp only [ht, if_true]; exact (eval_refines_spec_ord ord hord lf hlf a hf.1.2 n1).1 v hv
      · rename_i ht; simp only [ht, if_false]; exact (eval_refines_spec_ord ord hord lf hlf b hf.2 n1).1 v hv
    · rcases bind_err herr with h | ⟨vc, hvc, h⟩
      · rw [ihc.2 h]
      · obtain ⟨mc, n1, hmc, habs⟩ := ihc.1 vc hvc
        rw [hmc]
        simp only
        rw [← habs, truthy_abs mc] at h
        split at h
        · rename_i ht; simp only [ht, if_true]; exact (eval_refines_spec_ord ord hord lf hlf a hf.1.2 n1).2 h
        · rename_i ht; simp only [ht, if_false]; exact (eval_refines_spec_ord ord hord lf hlf b hf.2 n1).2 h
  | .bin op p a b, hf => by
    simp only [fragO, Bool.and_eq_true] at hf
    have iha := eval_refines_spec_ord ord hord lf hlf a hf.1.2
    have ihb := eval_refines_spec_ord ord hord lf hlf b hf.2
    cases op with
    | add => exact strict_sim hr .add p a b (by simp) add_refines iha ihb
    | sub => exact strict_sim hr .sub p a b (by simp) sub_refines iha ihb
    | mul => exact strict_sim hr .mul p a b (by simp) mul_refines iha ihb
    | div => exact strict_sim hr .div p a b (by simp) div_refines iha ihb
    | mod => exact strict_sim hr .mod p a b (by simp) mod_refines iha ihb
    | lt =>
      have ho : ord = true := by simpa [opOk] using hf.1.1
      exact strict_sim hr .lt p a b (by simp) (cmp_refines (hord ho) .lt (by simp)) iha ihb
    | le =>
      have ho : ord = true := by simpa [opOk] using hf.1.1
      exact strict_sim hr .le p a b (by simp) (cmp_refines (hord ho) .le (by simp)) iha ihb
    | gt =>
      have ho : ord = true := by simpa [opOk] using hf.1.1
      exact strict_sim hr .gt p a b (by simp) (cmp_refines (hord ho) .gt (by simp)) iha ihb
    | ge =>
      have ho : ord = true := by simpa [opOk] using hf.1.1
      exact strict_sim hr .ge p a b (by simp) (cmp_refines (hord ho) .ge (by simp)) iha ihb
    | eq =>
      intro n
      have hS : Spec.Eval.eval s (.bin .eq p a b) =
          (Spec.Eval.eval s a).bind fun va => (Spec.Eval.eval s b).bind fun vb => Spec.Eval.binop .eq va vb := by
        rw [Spec.Eval.eval] <;> first | rfl | (intro h; cases h)
      rw [hS, evalE]
      refine ⟨fun v hv => ?_, fun herr => ?_⟩
      · obtain ⟨va, hva, hv⟩ := bind_val hv
        obtain ⟨vb, hvb, hv⟩ := bind_val hv
        obtain ⟨ma, n1, hma, habs⟩ := (iha n).1 va hva
        obtain ⟨mb, n2, hmb, hbbs⟩ := (ihb n1).1 vb hvb
        simp only [Spec.Eval.binop] at hv
        obtain ⟨r, hr', hv⟩ := bind_val hv
        have he := (equals_refines ma mb).1 r (by rw [habs, hbbs]; exact hr')
        simp only [Out.val.injEq] at hv
        rw [hma]
        simp only [hmb]
        exact ⟨_, n2, rfl, by rw [he, ← hv]; simp [absV]⟩
      · rcases bind_err herr with h | ⟨va, hva, herr⟩
        · rw [(iha n).2 h]
        · obtain ⟨ma, n1, hma, habs⟩ := (iha n).1 va hva
          rw [hma]
          rcases bind_err herr with h | ⟨vb, hvb, herr⟩
          · simp only [(ihb n1).2 h]
          · obtain ⟨mb, n2, hmb, hbbs⟩ := (ihb n1).1 vb hvb
            simp only [Spec.Eval.binop] at herr
            rcases bind_err herr with h | ⟨r, _, h⟩
            · exact absurd (by rw [habs, hbbs]; exact h) (equals_refines ma mb).2
            · simp at h
    | ne =>
      intro n
      have hS : Spec.Eval.eval s (.bin .ne p a b) =
          (Spec.Eval.eval s a).bind fun va => (Spec.Eval.eval s b).bind fun vb => Spec.Eval.binop .ne va vb := by
        rw [Spec.Eval.eval] <;> first | rfl | (intro h; cases h)
      rw [hS, evalE]
      refine ⟨fun v hv => ?_, fun herr => ?_⟩
      · obtain ⟨va, hva, hv⟩ := bind_val hv
        obtain ⟨vb, hvb, hv⟩ := bind_val hv
        obtain ⟨ma, n1, hma, habs⟩ := (iha n).1 va hva
        obtain ⟨mb, n2, hmb, hbbs⟩ := (ihb n1).1 vb hvb
        simp only [Spec.Eval.binop] at hv
        obtain ⟨r, hr', hv⟩ := bind_val hv
        have he := (equals_refines ma mb).1 r (by rw [habs, hbbs]; exact hr')
        simp only [Out.val.injEq] at hv
        rw [hma]
        simp only [hmb]
        exact ⟨_, n2, rfl, by rw [he, ← hv]; simp [absV]⟩
      · rcases bind_err herr with h | ⟨va, hva, herr⟩
        · rw [(iha n).2 h]
        · obtain ⟨ma, n1, hma, habs⟩ := (iha n).1 va hva
          rw [hma]
          rcases bind_err herr with h | ⟨vb, hvb, herr⟩
          · simp only [(ihb n1).2 h]
          · obtain ⟨mb, n2, hmb, hbbs⟩ := (ihb n1).1 vb hvb
            simp only [Spec.Eval.binop] at herr
            rcases bind_err herr with h | ⟨r, _, h⟩
            · exact absurd (by rw [habs, hbbs]; exact h) (equals_refines ma mb).2
            · simp at h
    | and =>
      intro n
      rw [Spec.Eval.eval, evalE]
      refine ⟨fun v hv => ?_, fun herr => ?_⟩
      · obtain ⟨va, hva, hv⟩ := bind_val hv
        obtain ⟨ma, n1, hma, habs⟩ := (iha n).1 va hva
        rw [hma]
        simp only
        rw [← habs, truthy_abs ma] at hv
        cases ht : ma.truthy
        · simp only [ht, Bool.false_eq_true, if_false] at hv ⊢
          simp only [Out.val.injEq] at hv
          exact ⟨_, n1, rfl, by rw [← hv]; simp [absV]⟩
        · simp only [ht, if_true] at hv ⊢
          obtain ⟨vb, hvb, hv⟩ := bind_val hv
          obtain ⟨mb, n2, hmb, hbbs⟩ := (ihb n1).1 vb hvb
          simp only [Out.val.injEq] at hv
          rw [hmb]
          exact ⟨_, n2, rfl, by rw [← hv, ← hbbs, truthy_abs mb]; simp [absV]⟩
      · rcases bind_err herr with h | ⟨va, hva, herr⟩
        · rw [(iha n).2 h]
        · obtain ⟨ma, n1, hma, habs⟩ := (iha n).1 va hva
          rw [hma]
          simp only
          rw [← habs, truthy_abs ma] at herr
          cases ht : ma.truthy
          · simp only [ht, Bool.false_eq_true, if_false] at herr ⊢
            simp at herr
          · simp only [ht, if_true] at herr ⊢
            rcases bind_err herr with h | ⟨vb, _, h⟩
            · rw [(ihb n1).2 h]
            · simp at h
    | or =>
      intro n
      rw [Spec.Eval.eval, evalE]
      refine ⟨fun v hv => ?_, fun herr => ?_⟩
      · obtain ⟨va, hva, hv⟩ := bind_val hv
        obtain ⟨ma, n1, hma, habs⟩ := (iha n).1 va hva
        rw [hma]
        simp only
        rw [← habs, truthy_abs ma] at hv
        cases ht : ma.truthy
        · simp only [ht, Bool.false_eq_true, if_false] at hv ⊢
          obtain ⟨vb, hvb, hv⟩ := bind_val hv
          obtain ⟨mb, n2, hmb, hbbs⟩ := (ihb n1).1 vb hvb
          simp only [Out.val.injEq] at hv
          rw [hmb]
          exact ⟨_, n2, rfl, by rw [← hv, ← hbbs, truthy_abs mb]; simp [absV]⟩
        · simp only [ht, if_true] at hv ⊢
          simp only [Out.val.injEq] at hv
          exact ⟨_, n1, rfl, by rw [← hv]; simp [absV]⟩
      · rcases bind_err herr with h | ⟨va, hva, herr⟩
        · rw [(iha n).2 h]
        · obtain ⟨ma, n1, hma, habs⟩ := (iha n).1 va hva
          rw [hma]
          simp only
          rw [← habs, truthy_abs ma] at herr
          cases ht : ma.truthy
          · simp only [ht, Bool.false_eq_true, if_false] at herr ⊢
            rcases bind_err herr with h | ⟨vb, _, h⟩
            · rw [(ihb n1).2 h]
            · simp at h
          · simp only [ht, if_true] at herr ⊢
            simp at herr
    | elvis =>
      intro n
      rw [Spec.Eval.eval, evalE]
      refine ⟨fun v hv => ?_, fun herr => ?_⟩
      · obtain ⟨va, hva, hv⟩ := bind_val hv
        obtain ⟨ma, n1, hma, habs⟩ := (iha n).1 va hva
        rw [hma]
        subst habs
        cases ma with
        | undefined => simp only [absV] at hv; simpa [isNullish] using (ihb n1).1 v hv
        | null => simp only [absV] at hv; simpa [isNullish] using (ihb n1).1 v hv
        | list i xs => simp only [absV, Out.val.injEq] at hv; exact ⟨_, n1, rfl, by rw [← hv]; simp [absV]⟩
        | map i kvs => simp only [absV, Out.val.injEq] at hv; exact ⟨_, n1, rfl, by rw [← hv]; simp [absV]⟩
        | bool x => simp only [absV, Out.val.injEq] at hv; exact ⟨_, n1, rfl, by rw [← hv]; simp [absV]⟩
        | int x => simp only [absV, Out.val.injEq] at hv; exact ⟨_, n1, rfl, by rw [← hv]; simp [absV]⟩
        | float x => simp only [absV, Out.val.injEq] at hv; exact ⟨_, n1, rfl, by rw [← hv]; simp [absV]⟩
        | str x => simp only [absV, Out.val.injEq] at hv; exact ⟨_, n1, rfl, by rw [← hv]; simp [absV]⟩
      · rcases bind_err herr with h | ⟨va, hva, herr⟩
        · rw [(iha n).2 h]
        · obtain ⟨ma, n1, hma, habs⟩ := (iha n).1 va hva
          rw [hma]
          subst habs
          cases ma with
          | undefined => simp only [absV] at herr; simpa [isNullish] using (ihb n1).2 herr
          | null => simp only [absV] at herr; simpa [isNullish] using (ihb n1).2 herr
          | list _ _ => simp [absV] at herr
          | map _ _ => simp [absV] at herr
          | bool x => simp [absV] at herr
          | int x => simp [absV] at herr
          | float x => simp [absV] at herr
          | str x => simp [absV] at herr
  | .func _ name args, hf => by
    by_cases hL : (lf && isLoopFunc name) = true
    · simp only [Bool.and_eq_true] at hL
      exact loopFn_sim (hlf hL.1) _ name hL.2 args
    intro n
    simp only [fragO, hL, Bool.false_or, Bool.and_eq_true] at hf
    obtain ⟨hlM, hlS⟩ := fnOk_notLoop name hf.1
    have ih := args_sim ord hord lf hlf args hf.2 n
    rw [Spec.Eval.eval.eq_def, evalE.eq_def]
    simp only [hlM, hlS, Bool.false_eq_true, if_false]
    refine ⟨fun v hv => ?_, fun herr => ?_⟩
    · obtain ⟨vs, hvs, hv⟩ := bind_val hv
      obtain ⟨mvs, n', h1, h2⟩ := ih.1 vs hvs
      rw [← h2] at hv
      obtain ⟨har, mv, n'', hap, habs⟩ := (fn_agree name hf.1 mvs n').1 v hv
      rw [evalArgs_len args n mvs n' h1] at har
      simp only [arityOk] at har
      cases hA : funcArities name with
      | none => rw [hA] at har; simp at har
      | some ar =>
        rw [hA] at har
        simp only at har ⊢
        simp only [har, Bool.not_true, Bool.false_eq_true, if_false, h1]
        exact ⟨mv, n'', hap, habs⟩
    · cases hA : funcArities name with
      | none => rfl
      | some ar =>
        simp only
        by_cases hc : ar.contains args.length = true
        · simp only [hc, Bool.not_true, Bool.false_eq_true, if_false]
          rcases bind_err herr with h | ⟨vs, hvs, h⟩
          · rw [ih.2 h]
          · obtain ⟨mvs, n', h1, h2⟩ := ih.1 vs hvs
            rw [← h2] at h
            rw [h1]
            rcases (fn_agree name hf.1 mvs n').2 h with hbad | hbad
            · rw [evalArgs_len args n mvs n' h1] at hbad
              have hc' : args.length ∈ ar := by simpa using hc
              simp [arityOk, hA, hc'] at hbad
            · exact hbad
        · have hc' : ¬ args.length ∈ ar := by simpa using hc
          simp [hc']
  | .list _ items, hf => by
    intro n
    have ih := args_sim ord hord lf hlf items (by simpa [fragO] using hf) n
    rw [Spec.Eval.eval, evalE]
    refine ⟨fun v hv => ?_, fun herr => ?_⟩
    · obtain ⟨vs, hvs, hv⟩ := bind_val hv
      obtain ⟨mvs, n', h1, h2⟩ := ih.1 vs hvs
      simp only [Out.val.injEq] at hv
      rw [h1]
      exact ⟨_, _, rfl, by rw [← hv, ← h2]; rfl⟩
    · rcases bind_err herr with h | ⟨vs, _, h⟩
      · rw [ih.2 h]
      · simp at h
  | .map _ items, hf => by
    intro n
    have ih := map_sim ord hord lf hlf items (by simpa [fragO] using hf) n
    rw [Spec.Eval.eval, evalE]
    refine ⟨fun v hv => ?_, fun herr => ?_⟩
    · obtain ⟨B, hB, hv⟩ := bind_val hv
      obtain ⟨kvs, n', h1, h2⟩ := ih.1 B hB
      simp only [Out.val.injEq] at hv
      rw [h1]
      exact ⟨_, _, rfl, by rw [← hv, ← h2]; rfl⟩
    · rcases bind_err herr with h | ⟨B, _, h⟩
      · rw [ih.2 h]
      · simp at h
/-- an access chain on related bases -/
theorem acc_sim (ord : Bool) (hord : ord = true → OrdExact) (lf : Bool) (hlf : lf = true → LoopRel m s) : (acc : AccessList) → accFrag ord lf acc = true →
    ∀ (ref : Value) (n : Nat),
      (∀ v, Spec.Eval.evalAcc s acc (absV ref) = .val v → ∃ mv n', evalAccesses m acc ref n = .ok mv n' ∧ absV mv = v) ∧
      (Spec.Eval.evalAcc s acc (absV ref) = .error → evalAccesses m acc ref n = .err)
  | .nil, _, ref, n => by
    rw [Spec.Eval.evalAcc, evalAccesses]
    exact ⟨fun v h => by simp only [Out.val.injEq] at h; exact ⟨ref, n, rfl, h⟩, fun h => by simp at h⟩
  | .cons (.key _ ns k) rest, hf, ref, n => by
    simp only [accFrag] at hf
    rw [Spec.Eval.evalAcc.eq_def, evalAccesses]
    simp only
    exact step_cont rest (access_str ref ns k _) n (acc_sim ord hord lf hlf rest hf)
  | .cons (.index _ ns i) rest, hf, ref, n => by
    simp only [accFrag] at hf
    rw [Spec.Eval.evalAcc.eq_def, evalAccesses]
    simp only
    exact step_cont rest (access_int ref ns i _) n (acc_sim ord hord lf hlf rest hf)
  | .cons (.expr _ ns e) rest, hf, ref, n => by
    simp only [accFrag, Bool.and_eq_true] at hf
    have ihe := eval_refines_spec_ord ord hord lf hlf e hf.1 n
    have ihr := acc_sim ord hord lf hlf rest hf.2
    rw [Spec.Eval.evalAcc.eq_def, evalAccesses]
    simp only
    refine ⟨fun v hv => ?_, fun herr => ?_⟩
    · obtain ⟨kv, hkv, hv⟩ := bind_val hv
      obtain ⟨mk, n1, hmk, habs⟩ := ihe.1 kv hkv
      rw [hmk]
      subst habs
      cases mk with
      | int i => exact (step_cont rest (access_int ref ns i.toInt _) n1 ihr).1 v hv
      | str k => simp only [str, Value.render, Value.toString]; exact (step_cont rest (access_str ref ns k _) n1 ihr).1 v hv
      | undefined => simp [absV, Spec.Eval.access] at hv
      | list _ _ => simp [absV, Spec.Eval.access] at hv
      | map _ _ => simp [absV, Spec.Eval.access] at hv
      | null => simp only [str, Value.render, Value.toString]; exact (step_cont rest (access_other ref ns _ _) n1 ihr).1 v hv
      | bool b => simp only [str, Value.render, Value.toString]; exact (step_cont rest (access_other ref ns _ _) n1 ihr).1 v hv
      | float f => simp only [str, Value.render, Value.toString]; exact (step_cont rest (access_other ref ns _ _) n1 ihr).1 v hv
    · rcases bind_err herr with h | ⟨kv, hkv, herr⟩
      · rw [ihe.2 h]
      · obtain ⟨mk, n1, hmk, habs⟩ := ihe.1 kv hkv
        rw [hmk]
        subst habs
        cases mk with
        | int i => exact (step_cont rest (access_int ref ns i.toInt _) n1 ihr).2 herr
        | str k => simp only [str, Value.render, Value.toString]; exact (step_cont rest (access_str ref ns k _) n1 ihr).2 herr
        | undefined => simp [absV, Spec.Eval.access] at herr
        | list _ _ => simp [absV, Spec.Eval.access] at herr
        | map _ _ => simp [absV, Spec.Eval.access] at herr
        | null => simp only [str, Value.render, Value.toString]; exact (step_cont rest (access_other ref ns _ _) n1 ihr).2 herr
        | bool b => simp only [str, Value.render, Value.toString]; exact (step_cont rest (access_other ref ns _ _) n1 ihr).2 herr
        | float f => simp only [str, Value.render, Value.toString]; exact (step_cont rest (access_other ref ns _ _) n1 ihr).2 herr
/-- the items of a list literal / the arguments of a function, left to right -/
theorem args_sim (ord : Bool) (hord : ord = true → OrdExact) (lf : Bool) (hlf : lf = true → LoopRel m s) : (items : ExprList) → listFragO ord lf items = true → ∀ (n : Nat),
    (∀ vs, Spec.Eval.evalList s items = .val vs → ∃ mvs n', evalArgs m items n = some (mvs, n') ∧ absL mvs = vs) ∧
    (Spec.Eval.evalList s items = .error → evalArgs m items n = none)
  | .nil, _, n => by
    rw [Spec.Eval.evalList, evalArgs]
    exact ⟨fun vs h => by simp only [Out.val.injEq] at h; exact ⟨[], n, rfl, by rw [← h]; rfl⟩, fun h => by simp at h⟩
  | .cons e r, hf, n => by
    simp only [listFragO, Bool.and_eq_true] at hf
    have he := eval_refines_spec_ord ord hord lf hlf e hf.1 n
    rw [Spec.Eval.evalList, evalArgs]
    refine ⟨fun vs hv => ?_, fun herr => ?_⟩
    · obtain ⟨v, hv1, hv⟩ := bind_val hv
      obtain ⟨vr, hv2, hv⟩ := bind_val hv
      obtain ⟨mv, n1, h1, h2⟩ := he.1 v hv1
      obtain ⟨mvs, n2, h4, h5⟩ := (args_sim ord hord lf hlf r hf.2 n1).1 vr hv2
      simp only [Out.val.injEq] at hv
      rw [h1]; simp only [h4]
      exact ⟨mv :: mvs, n2, rfl, by rw [← hv, absL, h2, h5]⟩
    · rcases bind_err herr with h | ⟨v, hv1, herr⟩
      · rw [he.2 h]
      · obtain ⟨mv, n1, h1, _⟩ := he.1 v hv1
        rw [h1]
        rcases bind_err herr with h | ⟨vr, _, h⟩
        · simp only [(args_sim ord hord lf hlf r hf.2 n1).2 h]
        · simp at h
/-- the items of a map literal (pairwise different keys) -/
theorem map_sim (ord : Bool) (hord : ord = true → OrdExact) (lf : Bool) (hlf : lf = true → LoopRel m s) : (items : MapItems) → mapFragO ord lf items = true → ∀ (n : Nat),
    (∀ B, Spec.Eval.evalMap s items = .val B → ∃ kvs n', evalMapItems m items n = some (kvs, n') ∧ absK kvs = B) ∧
    (Spec.Eval.evalMap s items = .error → evalMapItems m items n = none)
  | .nil, _, n => by
    rw [Spec.Eval.evalMap, evalMapItems]
    exact ⟨fun B h => by simp only [Out.val.injEq] at h; exact ⟨[], n, rfl, by rw [← h]; rfl⟩, fun h => by simp at h⟩
  | .cons k e r, hf, n => by
    simp only [mapFragO, Bool.and_eq_true, Bool.not_eq_true', List.contains_eq_mem, decide_eq_false_iff_not] at hf
    obtain ⟨⟨hfe, hk⟩, hfr⟩ := hf
    have he := eval_refines_spec_ord ord hord lf hlf e hfe n
    rw [Spec.Eval.evalMap, evalMapItems]
    refine ⟨fun B hv => ?_, fun herr => ?_⟩
    · obtain ⟨v, hv1, hv⟩ := bind_val hv
      obtain ⟨Br, hv2, hv⟩ := bind_val hv
      obtain ⟨mv, n1, h1, h2⟩ := he.1 v hv1
      obtain ⟨kvs, n2, h4, h5⟩ := (map_sim ord hord lf hlf r hfr n1).1 Br hv2
      simp only [Out.val.injEq] at hv
      rw [h1]; simp only [h4]
      refine ⟨(k, mv) :: kvs, n2, rfl, ?_⟩
      rw [← hv, filter_ne_self Br k (fun kv hkv e => hk (e ▸ evalMap_keys s r Br hv2 kv hkv)), absK, h2, h5]
    · rcases bind_err herr with h | ⟨v, hv1, herr⟩
      · rw [he.2 h]
      · obtain ⟨mv, n1, h1, _⟩ := he.1 v hv1
        rw [h1]
        rcases bind_err herr with h | ⟨Br, _, h⟩
        · simp only [(map_sim ord hord lf hlf r hfr n1).2 h]
        · simp at h
end

/-- the model refines the specification on the scalar operator fragment (no ordering comparisons, no
    hypothesis) -/
theorem eval_refines_spec_partial (e : Expr) (hf : frag e = true) : Sim m s e :=
  eval_refines_spec_ord hr false (fun h => by cases h) false (fun h => by cases h) e hf

/-- … and with `< > <= >=` on int/int, int/float and float/float operands, given that int → float
    conversion is order-exact below 2^53 (`OrdExact`: a statement about the soft-float Base/F64 that is
    validated bit for bit by the C20 correspondence but not proved) -/
theorem eval_refines_spec_with_ordering (hx : OrdExact) (e : Expr) (hf : fragO true false e = true) : Sim m s e :=
  eval_refines_spec_ord hr true (fun _ => hx) false (fun h => by cases h) e hf
end

/-! ### `OrdExact` is a theorem -/

/-- int → float conversion is order-exact on the integers of magnitude ≤ 2^53: proved from the definitions
    of the soft-float (`Lemmas/F64Order.lean`: `roundRatMag n 1` does not round below 2^53, the magnitude
    bits are strictly increasing in `n`, the order is the order of the sign·magnitude keys) -/
theorem ordExact : OrdExact := by
  intro x y hx hy
  simp only [Spec.Eval.small, Spec.Eval.two53, decide_eq_true_eq] at hx hy
  have hx' : -9007199254740992 ≤ x ∧ x ≤ 9007199254740992 := of_decide_eq_true hx
  have hy' : -9007199254740992 ≤ y ∧ y ≤ 9007199254740992 := of_decide_eq_true hy
  exact F64.ofInt_order x y (by simp only [F64.two53]; omega) (by simp only [F64.two53]; omega)

section
variable {m : EEnv} {s : Spec.Eval.Env} (hr : EnvRel m s)
include hr

/-- the refinement with `< > <= >=`, WITHOUT hypothesis: on the fragment `fragO true` (scalar operators and
    the ordering comparisons on int/int, int/float, float/float operands, ints within ±2^53 as the
    specification demands) the model evaluates to what the specification says, and errs where it errs -/
theorem eval_refines_spec_ordering (e : Expr) (hf : fragO true false e = true) : Sim m s e :=
  eval_refines_spec_with_ordering hr ordExact e hf

/-- … and with the loop functions index / isFirst / isLast (`fragO true true`), given `LoopRel m s`: the
    interpreter's bookkeeping names hold the index and last index of the specification's enclosing loops,
    and those loops are shorter than 2^63 -/
theorem eval_refines_spec_loops (hl : LoopRel m s) (e : Expr) (hf : fragO true true e = true) : Sim m s e :=
  eval_refines_spec_ord hr true (fun _ => ordExact) true (fun _ => hl) e hf
end

/-! `isLast($x) ? index($x) + 1 : 0` in the third (last) iteration of a loop over `x`: 3 -/
def mLoop : EEnv :=
  { lookup := fun k => if k == [120] ++ sIndexSuffix then .int 2 else if k == [120] ++ sLastIndexSuffix then .int 2 else .undefined,
    ij := none, globals := [] }
def sLoop : Spec.Eval.Env := { vars := [], loops := [([120], 2, 2)], ij := none, globals := [] }
theorem isHelper_index (v : Bytes) : isHelper (v ++ sIndexSuffix) = true := by
  simp [isHelper, List.isSuffixOf_iff_suffix]
theorem isHelper_last (v : Bytes) : isHelper (v ++ sLastIndexSuffix) = true := by
  simp [isHelper, List.isSuffixOf_iff_suffix]
theorem relLoopEnv : EnvRel mLoop sLoop := by
  refine ⟨fun k hk => ?_, fun k => by simp [mLoop, sLoop, Frame.find, Spec.Eval.find], rfl⟩
  have h1 : (k == [120] ++ sIndexSuffix) = false := by
    cases h : k == [120] ++ sIndexSuffix
    · rfl
    · rw [beq_iff_eq.mp h, isHelper_index] at hk; cases hk
  have h2 : (k == [120] ++ sLastIndexSuffix) = false := by
    cases h : k == [120] ++ sLastIndexSuffix
    · rfl
    · rw [beq_iff_eq.mp h, isHelper_last] at hk; cases hk
  show absV (if (k == [120] ++ sIndexSuffix) = true then _ else if (k == [120] ++ sLastIndexSuffix) = true then _ else _) = _
  rw [h1, h2]
  rfl
theorem loopRel0 : LoopRel mLoop sLoop := by
  intro x i l h
  simp only [sLoop, Spec.Eval.findLoop] at h
  split at h
  · rename_i hx
    simp only [Option.some.injEq, Prod.mk.injEq] at h
    obtain ⟨rfl, rfl⟩ := h
    rw [← beq_iff_eq.mp hx]
    exact ⟨rfl, rfl, Nat.le_refl _, by decide⟩
  · cases h
def xv (p : Nat) : ExprList := .cons (.dataRef p [120] .nil) .nil
def eLoop : Expr := .tern 0 (.func 0 fIsLast (xv 0)) (.bin .add 0 (.func 0 fIndex (xv 0)) (.int 0 1)) (.int 0 0)
example : ∃ mv n', evalE mLoop eLoop 7 = .ok mv n' ∧ absV mv = .int 3 :=
  (eval_refines_spec_loops relLoopEnv loopRel0 eLoop (by decide) 7).1 (.int 3) (by rfl)

/-- beyond 2^53 the conversion is NOT order-exact, in the model as in Go (`exec.go` compares
    `toFloat(a) < toFloat(b)`): 2^53 + 1 rounds to 2^53, so `9007199254740993 > 9007199254740992` is false
    and `9007199254740992 >= 9007199254740993` is true (the real soyhtml prints exactly that; `==` on two
    ints is exact and says false) — which is why the specification's ordering is stated for |i| ≤ 2^53 -/
theorem ord_inexact_beyond_two53 :
    F64.ofInt 9007199254740993 = F64.ofInt 9007199254740992 ∧
    F64.lt (F64.ofInt 9007199254740992) (F64.ofInt 9007199254740993) = false ∧
    F64.le (F64.ofInt 9007199254740993) (F64.ofInt 9007199254740992) = true ∧
    F64.lt (F64.ofInt 9223372036854775806) (F64.ofInt 9223372036854775807) = false := by decide +kernel

/-- at the edge: 2^53 − 1 < 2^53, −2^53 < −2^53 + 1 are decided correctly -/
example : F64.lt (F64.ofInt 9007199254740991) (F64.ofInt 9007199254740992) = true ∧
    F64.lt (F64.ofInt (-9007199254740992)) (F64.ofInt (-9007199254740991)) = true ∧
    F64.le (F64.ofInt 9007199254740992) (F64.ofInt 9007199254740991) = false :=
  ⟨by simpa using (ordExact 9007199254740991 9007199254740992 (by decide) (by decide)).1,
   by simpa using (ordExact (-9007199254740992) (-9007199254740991) (by decide) (by decide)).1,
   by simpa using (ordExact 9007199254740992 9007199254740991 (by decide) (by decide)).2⟩

/-! ### an erroring print writes nothing -/

theorem evalIn_out {g : GEnv} {e : Expr} {ctx : Scope} {st st1 : St} {v : Value}
    (h : evalIn g e ctx st = some (v, st1)) : st1.out = st.out := by
  unfold evalIn at h
  split at h
  · simp only [Option.some.injEq, Prod.mk.injEq] at h
    obtain ⟨_, rfl⟩ := h
    rfl
  · simp at h

theorem evalList_out {g : GEnv} {ctx : Scope} :
    ∀ (es : List Expr) (st st1 : St) (vs : List Value), evalList g ctx es st = some (vs, st1) → st1.out = st.out := by
  intro es
  induction es with
  | nil => intro st st1 vs h; simp [evalList] at h; obtain ⟨_, rfl⟩ := h; rfl
  | cons e r ih =>
    intro st st1 vs h
    unfold evalList at h
    split at h
    · rename_i v sta he
      split at h
      · rename_i vs' stb hr'
        simp only [Option.some.injEq, Prod.mk.injEq] at h
        obtain ⟨_, rfl⟩ := h
        rw [ih _ _ _ hr', evalIn_out he]
      · simp at h
    · simp at h

theorem runDirectives_out {g : GEnv} {ctx : Scope} :
    ∀ (ds : List Directive) (v : Value) (esc : Bool) (st : St) (v' : Value) (esc' : Bool) (st1 : St),
      runDirectives g ctx ds v esc st = some (v', esc', st1) → st1.out = st.out := by
  intro ds
  induction ds with
  | nil =>
    intro v esc st v' esc' st1 h
    simp [runDirectives] at h; obtain ⟨_, _, rfl⟩ := h; rfl
  | cons d r ih =>
    intro v esc st v' esc' st1 h
    unfold runDirectives at h
    split at h
    · simp at h
    · split at h
      · simp at h
      · split at h
        · simp at h
        · rename_i args sta hl
          split at h
          · simp at h
          · rw [ih _ _ _ _ _ _ h, evalList_out _ _ _ _ hl]

/-- An expression the language leaves without a value makes the print fail and never produces text for
    it: if `evalPrint` ends in an error, the writer has received exactly what it had received before. -/
theorem print_error_writes_nothing (g : GEnv) (esc : Bool) (pos : Nat) (arg : Expr) (dirs : List Directive)
    (ctx : Scope) (st : St) (h : (evalPrint g esc pos arg dirs ctx st).cls = .err) :
    (evalPrint g esc pos arg dirs ctx st).st.out = st.out := by
  unfold evalPrint at h ⊢
  show (evalPrintAt g esc pos arg dirs ctx (atNode st arg.pos)).st.out = (atNode st arg.pos).out
  generalize atNode st arg.pos = st' at h ⊢
  unfold evalPrintAt at h ⊢
  split
  · rfl
  · rename_i st1 he; exact evalIn_out he
  · rename_i v st1 _ he
    split
    · have := evalIn_out he
      exact this
    · rename_i r esc' st2 hd
      split
      · rw [runDirectives_out _ _ _ _ _ _ _ hd, evalIn_out he]
      · rename_i s hs
        simp only [he, hd, hs] at h
        simp at h

/-! ### non-vacuity: `$x + 1 == 4 ? 'a' + $x : -$x` with x = 3 -/

def m0 : EEnv := { lookup := fun k => if k == [120] then .int 3 else .undefined, ij := none, globals := [] }
def s0 : Spec.Eval.Env := { vars := [([120], .int 3)], loops := [], ij := none, globals := [] }

theorem rel0 : EnvRel m0 s0 := by
  refine ⟨fun k _ => ?_, fun k => ?_, rfl⟩
  · by_cases h : k = [120]
    · subst h; rfl
    · have h' : ([120] == k) = false := by simpa using fun e => h e.symm
      have h'' : (k == [120]) = false := by simpa using h
      simp [m0, s0, Spec.Eval.Env.lookup, Spec.Eval.find, h', h, absV]
  · simp [m0, s0, Frame.find, Spec.Eval.find]

def x0 : Expr := .dataRef 0 [120] .nil
def e0 : Expr :=
  .tern 0 (.bin .eq 0 (.bin .add 0 x0 (.int 0 1)) (.int 0 4)) (.bin .add 0 (.str 0 [] [97]) x0) (.neg 0 x0)

/-- the specification says `a3`; by the theorem the model says `a3` too -/
example : ∃ mv n', evalE m0 e0 7 = .ok mv n' ∧ absV mv = .str [97, 51] := by
  obtain ⟨mv, n', h1, h2⟩ := (eval_refines_spec_partial rel0 e0 (by decide) 7).1 (.str [97, 51]) (by rfl)
  exact ⟨mv, n', h1, h2⟩

/-- with the ordering comparisons: `$x < 4 ? 'lt' : 'ge'` -/
def e1 : Expr := .tern 0 (.bin .lt 0 x0 (.int 0 4)) (.str 0 [] [108, 116]) (.str 0 [] [103, 101])

example (hx : OrdExact) : ∃ mv n', evalE m0 e1 7 = .ok mv n' ∧ absV mv = .str [108, 116] := by
  obtain ⟨mv, n', h1, h2⟩ := (eval_refines_spec_with_ordering rel0 hx e1 (by decide) 7).1 (.str [108, 116]) (by rfl)
  exact ⟨mv, n', h1, h2⟩
/-- … and without the hypothesis -/
example : ∃ mv n', evalE m0 e1 7 = .ok mv n' ∧ absV mv = .str [108, 116] := by
  obtain ⟨mv, n', h1, h2⟩ := (eval_refines_spec_ordering rel0 e1 (by decide) 7).1 (.str [108, 116]) (by rfl)
  exact ⟨mv, n', h1, h2⟩

/-- ordering non-numbers is an error on both sides; `'a' - 1` is inside and is an error on both sides -/
example : evalE m0 (.bin .sub 0 (.str 0 [] [97]) (.int 0 1)) 7 = .err :=
  (eval_refines_spec_partial rel0 _ (by decide) 7).2 (by rfl)

/-! ### accesses: x = {a: [10, {b: 'B'}], n: null}

    `$x.a[1].b` = 'B' (an access chain through a map, a list and a map); `$x.n?.q.r` … a null-safe hop on null
    as the LAST access: `$x.n?.q` = null; `$x.a[0 + 1]?.b` with a computed index; `$x.zz.y` (an access on
    undefined) and `$x.a.k` (a key on a list) are errors on both sides -/

def vx : Value := .map 5 [([97], .list 6 [.int 10, .map 7 [([98], .str [66])]]), ([110], .null)]
def m1 : EEnv := { lookup := fun k => if k == [120] then vx else .undefined, ij := none, globals := [] }
def s1 : Spec.Eval.Env := { vars := [([120], absV vx)], loops := [], ij := none, globals := [] }

theorem rel1 : EnvRel m1 s1 := by
  refine ⟨fun k _ => ?_, fun k => ?_, rfl⟩
  · by_cases h : k = [120]
    · subst h; rfl
    · have h' : ([120] == k) = false := by simpa using fun e => h e.symm
      have h'' : (k == [120]) = false := by simpa using h
      simp [m1, s1, Spec.Eval.Env.lookup, Spec.Eval.find, h', h, absV]
  · simp [m1, s1, Frame.find, Spec.Eval.find]

def xa1b : Expr := .dataRef 0 [120] (.cons (.key 0 false [97]) (.cons (.index 0 false 1) (.cons (.key 0 false [98]) .nil)))
def xnq : Expr := .dataRef 0 [120] (.cons (.key 0 false [110]) (.cons (.key 0 true [113]) .nil))
def xaeb : Expr := .dataRef 0 [120] (.cons (.key 0 false [97])
  (.cons (.expr 0 false (.bin .add 0 (.int 0 0) (.int 0 1))) (.cons (.key 0 true [98]) .nil)))

example : ∃ mv n', evalE m1 xa1b 7 = .ok mv n' ∧ absV mv = .str [66] :=
  (eval_refines_spec_partial rel1 xa1b (by decide) 7).1 (.str [66]) (by rfl)
example : ∃ mv n', evalE m1 xnq 7 = .ok mv n' ∧ absV mv = .null :=
  (eval_refines_spec_partial rel1 xnq (by decide) 7).1 .null (by rfl)
example : ∃ mv n', evalE m1 xaeb 7 = .ok mv n' ∧ absV mv = .str [66] :=
  (eval_refines_spec_partial rel1 xaeb (by decide) 7).1 (.str [66]) (by rfl)
example : evalE m1 (.dataRef 0 [120] (.cons (.key 0 false [122, 122]) (.cons (.key 0 false [121]) .nil))) 7 = .err :=
  (eval_refines_spec_partial rel1 _ (by decide) 7).2 (by rfl)

/-! `floor(2.5) + ceiling(-2.5)` = 2 + (-2) = 0 (`Lemmas/F64Floor.lean`: `int64(math.Floor(x))` is the exact floor) -/
def eFloor : Expr := .bin .add 0 (.func 0 fFloor (.cons (.float 0 0x4004000000000000) .nil))
  (.func 0 fCeiling (.cons (.float 0 0xC004000000000000) .nil))
example : ∃ mv n', evalE m1 eFloor 7 = .ok mv n' ∧ absV mv = .int 0 :=
  (eval_refines_spec_partial rel1 eFloor (by decide) 7).1 (.int 0) (by rfl)

/-! `$ij.u.v` with injected data {u: {v: 'J'}}; and `$ij` without injected data is an error on both sides -/
def mIj : EEnv := { m1 with ij := some (9, [([117], .map 8 [([118], .str [74])])]) }
def sIjEnv : Spec.Eval.Env := { s1 with ij := some [([117], .map [([118], .str [74])])] }
theorem relIj : EnvRel mIj sIjEnv := ⟨rel1.vars, rel1.globals, rfl⟩
def ijuv : Expr := .dataRef 0 [105, 106] (.cons (.key 0 false [117]) (.cons (.key 0 false [118]) .nil))
example : ∃ mv n', evalE mIj ijuv 7 = .ok mv n' ∧ absV mv = .str [74] :=
  (eval_refines_spec_partial relIj ijuv (by decide) 7).1 (.str [74]) (by rfl)
example : evalE m1 ijuv 7 = .err := (eval_refines_spec_partial rel1 ijuv (by decide) 7).2 (by rfl)
example : evalE m1 (.dataRef 0 [120] (.cons (.key 0 false [97]) (.cons (.key 0 false [107]) .nil))) 7 = .err :=
  (eval_refines_spec_partial rel1 _ (by decide) 7).2 (by rfl)

/-! ### collection literals as values: `[1, ['q': $x.a[0]], []]` and `['k': [1, 2], 'j': $x.n]` -/

def lit1 : Expr := .list 0 (.cons (.int 0 1) (.cons (.map 0 (.cons [113]
  (.dataRef 0 [120] (.cons (.key 0 false [97]) (.cons (.index 0 false 0) .nil))) .nil)) (.cons (.list 0 .nil) .nil)))
def lit2 : Expr := .map 0 (.cons [107] (.list 0 (.cons (.int 0 1) (.cons (.int 0 2) .nil)))
  (.cons [106] (.dataRef 0 [120] (.cons (.key 0 false [110]) .nil)) .nil))

example : ∃ mv n', evalE m1 lit1 7 = .ok mv n' ∧ absV mv = .list [.int 1, .map [([113], .int 10)], .list []] :=
  (eval_refines_spec_partial rel1 lit1 (by decide) 7).1 _ (by rfl)
example : ∃ mv n', evalE m1 lit2 7 = .ok mv n' ∧ absV mv = .map [([107], .list [.int 1, .int 2]), ([106], .null)] :=
  (eval_refines_spec_partial rel1 lit2 (by decide) 7).1 _ (by rfl)

/-! ### builtins: `length($x.a) + (strContains('abc', 'bc') ? 10 : 0) + (isNonnull($x.n) ? 100 : 0)` = 12, and
    `range(length($x.a))` = [0, 1] -/

def fn1 : Expr :=
  .bin .add 0 (.bin .add 0
    (.func 0 fLength (.cons (.dataRef 0 [120] (.cons (.key 0 false [97]) .nil)) .nil))
    (.tern 0 (.func 0 fStrContains (.cons (.str 0 [] [97, 98, 99]) (.cons (.str 0 [] [98, 99]) .nil))) (.int 0 10) (.int 0 0)))
    (.tern 0 (.func 0 fIsNonnull (.cons (.dataRef 0 [120] (.cons (.key 0 false [110]) .nil)) .nil)) (.int 0 100) (.int 0 0))
def fn2 : Expr := .func 0 fRange (.cons (.func 0 fLength (.cons (.dataRef 0 [120] (.cons (.key 0 false [97]) .nil)) .nil)) .nil)

example : ∃ mv n', evalE m1 fn1 7 = .ok mv n' ∧ absV mv = .int 12 :=
  (eval_refines_spec_partial rel1 fn1 (by decide) 7).1 _ (by rfl)
example : ∃ mv n', evalE m1 fn2 7 = .ok mv n' ∧ absV mv = .list [.int 0, .int 1] :=
  (eval_refines_spec_partial rel1 fn2 (by decide) 7).1 _ (by rfl)

/-! `min(length($x.a), 7) + max(1.5, 2)` = 2 + 2.0 -/
def fn3 : Expr := .func 0 fMin (.cons (.func 0 fLength (.cons (.dataRef 0 [120] (.cons (.key 0 false [97]) .nil)) .nil)) (.cons (.int 0 7) .nil))
example : ∃ mv n', evalE m1 fn3 7 = .ok mv n' ∧ absV mv = .int 2 :=
  (eval_refines_spec_partial rel1 fn3 (by decide) 7).1 _ (by rfl)

/-! `keys(augmentMap(['b': 1, 'a': 2], ['c': 3, 'a': 4]))` = ['a', 'b', 'c'], `augmentMap(…).a` … right wins -/
def mapBA : Expr := .map 0 (.cons [97] (.int 0 2) (.cons [98] (.int 0 1) .nil))
def mapCA : Expr := .map 0 (.cons [97] (.int 0 4) (.cons [99] (.int 0 3) .nil))
def fn4 : Expr := .func 0 fKeys (.cons (.func 0 fAugmentMap (.cons mapBA (.cons mapCA .nil))) .nil)
example : ∃ mv n', evalE m1 fn4 7 = .ok mv n' ∧ absV mv = .list [.str [97], .str [98], .str [99]] :=
  (eval_refines_spec_partial rel1 fn4 (by decide) 7).1 _ (by rfl)
example : ∃ mv n', evalE m1 (.func 0 fAugmentMap (.cons mapBA (.cons mapCA .nil))) 7 = .ok mv n' ∧
    absV mv = .map [([97], .int 4), ([98], .int 1), ([99], .int 3)] :=
  (eval_refines_spec_partial rel1 _ (by decide) 7).1 _ (by rfl)

/-! `$x['']` looks the key "" up (undefined here); `$x.a[-1]` is an index outside the list: undefined -/
example : ∃ mv n', evalE m1 (.dataRef 0 [120] (.cons (.expr 0 false (.str 0 [] [])) .nil)) 7 = .ok mv n' ∧ absV mv = .undefined :=
  (eval_refines_spec_partial rel1 _ (by decide) 7).1 _ (by rfl)
example : ∃ mv n', evalE m1 (.dataRef 0 [120] (.cons (.key 0 false [97]) (.cons (.index 0 false (-1)) .nil))) 7 = .ok mv n' ∧
    absV mv = .undefined :=
  (eval_refines_spec_partial rel1 _ (by decide) 7).1 _ (by rfl)

end SoyVerif.Props.C01
