/-
  C19 (lexer + parser part): an error of `parse.SoyFile` points into the offending file.

  `parseSource pf input` = lexer model ∘ parser model (tied to the real code by the zero-diff
  sub-checks C05lex / C05parse, op `parsesrc`).

  * `err_pos_in_input` — every error `err pos` has `pos ≤ |input|`: the parser only reports
    the position of a token it was given (or 0, the zero item of the closed channel;
    `parse_err_at_token`), and every token of the lexer — Error items of `errorf` and
    `errorfAt` included — is positioned inside the input (`lex_items`).  Hence the slices
    `l.input[:pos]` of `lineNumber` / `columnNumber` are in range, and
  * `err_line_in_range` — 1 ≤ line ≤ number of lines of the input.
  * `err_in_this_file` — there is no other kind of positioned error: since /repo 62f3398 an
    error inside a quoted attribute expression is re-raised by the enclosing parser, so every
    error carries the enclosing file's name and coordinates (the model has the single
    constructor `FErr.err pos`; before that fix it needed a second one, positioned in the
    attribute text with an empty file name).
-/
import SoyVerif.Props.C05parse

namespace SoyVerif.Props.C19
open SoyVerif SoyVerif.Model SoyVerif.Model.FileParser SoyVerif.Props.C05

/-- `lexer.lineNumber(pos)`: 1 + strings.Count(input[:pos], "\n") -/
def lineNumber (input : Bytes) (pos : Nat) : Nat := 1 + ((input.take pos).filter (· == 10)).length

/-- number of lines of the input -/
def lineCount (input : Bytes) : Nat := 1 + (input.filter (· == 10)).length

theorem err_pos_in_input (pf : Bytes → Option UInt64) (input : Bytes) (pos : Nat)
    (h : parseSource pf input = .error (.err pos)) : pos ≤ input.length := by
  unfold parseSource at h
  obtain ⟨is, hl, _, hb, _⟩ := lex_items input false
  rw [hl] at h
  rcases parse_err_at_token pf is pos h with h0 | ⟨it, hm, hp⟩
  · omega
  · have := hb it hm
    omega

theorem err_line_in_range (pf : Bytes → Option UInt64) (input : Bytes) (pos : Nat)
    (_h : parseSource pf input = .error (.err pos)) :
    1 ≤ lineNumber input pos ∧ lineNumber input pos ≤ lineCount input := by
  unfold lineNumber lineCount
  refine ⟨by omega, ?_⟩
  have : ((input.take pos).filter (· == 10)).length ≤ (input.filter (· == 10)).length := by
    have hsub : List.Sublist ((input.take pos).filter (· == 10)) (input.filter (· == 10)) :=
      List.Sublist.filter _ (List.take_sublist pos input)
    exact hsub.length_le
  omega

/-- every failure of `parse.SoyFile` is an error positioned in this file: it does not panic
    (`parse_source_no_panic`), it terminates (`parse_source_total`), and the position lies
    inside the input -/
theorem err_in_this_file (pf : Bytes → Option UInt64) (input : Bytes) (e : FErr)
    (h : parseSource pf input = .error e) :
    ∃ pos, e = .err pos ∧ pos ≤ input.length := by
  cases e with
  | err pos => exact ⟨pos, rfl, err_pos_in_input pf input pos h⟩
  | panic => exact absurd h (parse_source_no_panic pf input)
  | fuelOut => exact absurd h (parse_source_total pf input)

/-- the same for `soyFile`, the front end with Go's float parsing (`pf := parseFloat64`, the
    soft-float ParseFloat tied by C20f64): no parameter is left open -/
theorem soyFile_err_in_this_file (input : Bytes) (e : FErr) (h : soyFile input = .error e) :
    ∃ pos, e = .err pos ∧ pos ≤ input.length := err_in_this_file parseFloat64 input e h

end SoyVerif.Props.C19
