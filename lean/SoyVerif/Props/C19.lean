/-
  C19 (lexer + parser part): an error of `parse.SoyFile` points into the offending file.

  `parseSource pf input` = lexer model ∘ parser model (tied to the real code by the zero-diff
  sub-checks C05lex / C05parse, op `parsesrc`).

  * `err_at_token` — WHICH position: an error `err pos` of `parse.SoyFile` is positioned at
    one of the tokens the lexer produced for this input (`parse_err_at_lexed_token` on
    `lex_shape`): at the Error item for a lexical error, at the token handed to `unexpected`
    or the parser's current token otherwise — and NOT at the zero item (0:0) that the closed
    channel yields when the parser has read one token of look-ahead past the end (before
    /repo 518abbf a block left open at EOF was reported at line 1, column 0).  The invariant
    behind it (Lemmas/ParserSafe `LexJ`): on a stream that ends with its only EOF / Error item
    the parser never continues after consuming that item, so apart from textOrTag's
    look-ahead it never reads the closed channel, and no token it holds is the zero item.
  * `lex_error_at_construct_start` — a lexical error about a construct that is never closed
    (`errorfAt`) is positioned where that construct BEGINS, not at the end of the input where
    the lexer noticed: an unclosed tag or {literal} at the `{` of the tag (`l.tagStart`;
    position 0 for `parse.Expr`, whose input has no delimiter), an unterminated string at its
    opening quote, a block comment at its `/*`, a soydoc comment at its `/**` — the bytes of
    the input at the reported position are those delimiters.  (The model keeps the class of
    the error in the Error item's value; op `lex` compares it with the real message.)
  * `err_pos_in_input` — every error `err pos` has `pos ≤ |input|`: every token of the
    lexer — Error items of `errorf` and `errorfAt` included — is positioned inside the input
    (`lex_items`).  Hence the slices `l.input[:pos]` of `lineNumber` / `columnNumber` are in
    range, and
  * `err_line_in_range` — 1 ≤ line ≤ number of lines of the input.
  * `err_in_this_file` — there is no other kind of positioned error: since /repo 62f3398 an
    error inside a quoted attribute expression is re-raised by the enclosing parser, so every
    error carries the enclosing file's name and coordinates (the model has the single
    constructor `FErr.err pos`; before that fix it needed a second one, positioned in the
    attribute text with an empty file name).
-/
import SoyVerif.Props.C05parse

namespace SoyVerif.Props.C19
open SoyVerif SoyVerif.Model SoyVerif.Model.FileParser SoyVerif.Props.C05

/-- `lexer.lineNumber(pos)`: 1 + strings.Count(input[:pos], "\n") -/
def lineNumber (input : Bytes) (pos : Nat) : Nat := 1 + ((input.take pos).filter (· == 10)).length

/-- number of lines of the input -/
def lineCount (input : Bytes) : Nat := 1 + (input.filter (· == 10)).length

/-- an error of lexer ∘ parser is positioned at a token of the lexer's stream for this input -/
theorem err_at_token (pf : Bytes → Option UInt64) (input : Bytes) (pos : Nat)
    (h : parseSource pf input = .error (.err pos)) :
    ∃ is, Lex.lexAll input false = .items is ∧ ∃ it ∈ is, Lemmas.ParserSafe.ErrAt it pos :=
  parse_source_err_at_token pf input pos h

theorem soyFile_err_at_token (input : Bytes) (pos : Nat) (h : soyFile input = .error (.err pos)) :
    ∃ is, Lex.lexAll input false = .items is ∧ ∃ it ∈ is, Lemmas.ParserSafe.ErrAt it pos :=
  err_at_token parseFloat64 input pos h

theorem err_pos_in_input (pf : Bytes → Option UInt64) (input : Bytes) (pos : Nat)
    (h : parseSource pf input = .error (.err pos)) : pos ≤ input.length := by
  unfold parseSource at h
  obtain ⟨is, hl, _, hb, _⟩ := lex_items input false
  rw [hl] at h
  rcases parse_err_at_token pf is pos h with h0 | ⟨it, hm, hp⟩
  · omega
  · have := hb it hm
    have := hp.le
    omega

theorem err_line_in_range (pf : Bytes → Option UInt64) (input : Bytes) (pos : Nat)
    (_h : parseSource pf input = .error (.err pos)) :
    1 ≤ lineNumber input pos ∧ lineNumber input pos ≤ lineCount input := by
  unfold lineNumber lineCount
  refine ⟨by omega, ?_⟩
  have : ((input.take pos).filter (· == 10)).length ≤ (input.filter (· == 10)).length := by
    have hsub : List.Sublist ((input.take pos).filter (· == 10)) (input.filter (· == 10)) :=
      List.Sublist.filter _ (List.take_sublist pos input)
    exact hsub.length_le
  omega

/-- every failure of `parse.SoyFile` is an error positioned in this file: it does not panic
    (`parse_source_no_panic`), it terminates (`parse_source_total`), and the position lies
    inside the input -/
theorem err_in_this_file (pf : Bytes → Option UInt64) (input : Bytes) (e : FErr)
    (h : parseSource pf input = .error e) :
    ∃ pos, e = .err pos ∧ pos ≤ input.length := by
  cases e with
  | err pos => exact ⟨pos, rfl, err_pos_in_input pf input pos h⟩
  | panic => exact absurd h (parse_source_no_panic pf input)
  | fuelOut => exact absurd h (parse_source_total pf input)

/-- the same for `soyFile`, the front end with Go's float parsing (`pf := parseFloat64`, the
    soft-float ParseFloat tied by C20f64): no parameter is left open -/
theorem soyFile_err_in_this_file (input : Bytes) (e : FErr) (h : soyFile input = .error e) :
    ∃ pos, e = .err pos ∧ pos ≤ input.length := err_in_this_file parseFloat64 input e h

/-! ### lexical errors: the start of the unclosed construct -/

theorem byteAt_some {l : List UInt8} {i : Nat} {v : UInt8} (hv : v ≠ 0) (h : Lex.byteAt l.toArray i = v.toNat) :
    l[i]? = some v := by
  unfold Lex.byteAt at h
  have h' : l.toArray.getD i 0 = v := UInt8.toNat_inj.mp h
  simp only [Array.getD_eq_getD_getElem?, List.getElem?_toArray] at h'
  cases hx : l[i]? with
  | none => rw [hx] at h'; simp at h'; exact absurd h'.symm hv
  | some x => rw [hx] at h'; simpa using h'

/-- The Error item that ends a token stream, when it complains about an unclosed construct,
    is positioned at the opening delimiter of that construct (`e.val` = the class of the
    message, Model/Lexer.lean `clsTag` …):
    * "unclosed tag" / "unclosed literal": at the `{` that opened the tag, or at 0 (only for
      an expression lexed by `lexExpr`, which is not inside a tag);
    * "unexpected eof while scanning string": at the opening `"` or `'`;
    * "unclosed block comment": at `/*`;
    * "unexpected eof when scanning soydoc": at `/**`;
    * "unexpected beginning to name after '.'" / "… after '?.'" (/repo 8984077): at that `.` / `?`.
    (Class 1 also covers the two malformed tags reported at their `{` since /repo ac1c871:
    "expected {@param name: ...}" and "expected closing tag after {literal..".) -/
theorem lex_error_at_construct_start (input : Bytes) (exprMode : Bool) (is : List Item) (e : Item)
    (h : Lex.lexAll input exprMode = .items is) (hl : is.getLast? = some e) (ht : e.typ = .tError) :
    (e.val = [Lex.clsTag] ∨ e.val = [Lex.clsLiteral] → e.pos = 0 ∨ input[e.pos]? = some 123) ∧
    (e.val = [Lex.clsString] → input[e.pos]? = some 34 ∨ input[e.pos]? = some 39) ∧
    (e.val = [Lex.clsComment] → input[e.pos]? = some 47 ∧ input[e.pos + 1]? = some 42) ∧
    (e.val = [Lex.clsSoyDoc] → input[e.pos]? = some 47 ∧ input[e.pos + 1]? = some 42 ∧ input[e.pos + 2]? = some 42) ∧
    (e.val = [Lex.clsName] → input[e.pos]? = some 46 ∨ input[e.pos]? = some 63) := by
  obtain ⟨is', hl', _, _, _, herr⟩ := lex_items input exprMode
  rw [h] at hl'
  simp only [Lex.LexResult.items.injEq] at hl'
  subst hl'
  obtain ⟨h1, h2, h3, h4, h5⟩ := herr e hl ht
  refine ⟨fun hc => ?_, fun hc => ?_, fun hc => ?_, fun hc => ?_, fun hc => ?_⟩
  · rcases h1 hc with h | h
    · exact Or.inl h
    · exact Or.inr (byteAt_some (v := 123) (by decide) h)
  · rcases h2 hc with h | h
    · exact Or.inl (byteAt_some (v := 34) (by decide) h)
    · exact Or.inr (byteAt_some (v := 39) (by decide) h)
  · exact ⟨byteAt_some (v := 47) (by decide) (h3 hc).1, byteAt_some (v := 42) (by decide) (h3 hc).2⟩
  · exact ⟨byteAt_some (v := 47) (by decide) (h4 hc).1, byteAt_some (v := 42) (by decide) (h4 hc).2.1,
      byteAt_some (v := 42) (by decide) (h4 hc).2.2⟩
  · rcases h5 hc with h | h
    · exact Or.inl (byteAt_some (v := 46) (by decide) h)
    · exact Or.inr (byteAt_some (v := 63) (by decide) h)


/-! ### WHERE an error stands: the table

  An error `err pos` of `parse.SoyFile` is about ONE token `it` of the lexer's stream for this input:

  | the token `it`                       | `pos`                                                        |
  |--------------------------------------|--------------------------------------------------------------|
  | the lexer's Error item (the last one)| where the lexer put it — by class (`lex_error_at_construct_start`): the opening delimiter of the construct that is never closed (`{`, the quote, `/*`, `/**`), the `.` / `?` before a bad name; for the class-less errors of `errorf`, behind the character the scanner stopped at |
  | a token the parser rejects           | `it.pos` — the END of that token (`unexpected(tok)`, `errorf` at the current token, `errorfAt(node position)`: nodes are positioned at the end of their first token) |
  | stray TEXT between the params of a {call} / the cases of a {switch} | the first character of that Text token that is not a space, tab, CR or LF (`atTextStart`, /repo ac1c871) — not the token's end, which lies behind the line breaks and the indentation that follow the text |

  `lineNumber input pos` = 1 + the number of LF bytes before `pos`: the line ON WHICH THE BYTE AT `pos`
  STANDS (`lineNumber_eq`, `lineNumber_succ_of_ne`).  So the reported line is the line of the
  opening delimiter (row 1), of the first non-blank character of the stray text (row 3), and in
  row 2 the line on which the rejected token ENDS — the line of the whole token unless it spans a
  line break (only Text, comment, soydoc and string tokens can). -/

/-- the table, rows 2 and 3: the token and the position -/
theorem parse_error_position_table (pf : Bytes → Option UInt64) (input : Bytes) (pos : Nat)
    (h : parseSource pf input = .error (.err pos)) :
    ∃ is, Lex.lexAll input false = .items is ∧ ∃ it ∈ is,
      it.pos = pos ∨
      (it.typ = .tText ∧ ∃ i, ∃ _ : i < it.val.length, pos = it.pos + i - it.val.length ∧
        (it.val[i] ≠ 32 ∧ it.val[i] ≠ 9 ∧ it.val[i] ≠ 13 ∧ it.val[i] ≠ 10) ∧
        ∀ j (_ : j < i), it.val[j] = 32 ∨ it.val[j] = 9 ∨ it.val[j] = 13 ∨ it.val[j] = 10) := by
  obtain ⟨is, hl, it, hm, hat⟩ := err_at_token pf input pos h
  refine ⟨is, hl, it, hm, ?_⟩
  rcases hat with hp | ⟨htx, hp⟩
  · exact Or.inl hp
  · rcases Lemmas.ParserSafe.atTextStart_spec it with ⟨i, hi, he, hnb, hb⟩ | ⟨he, _⟩
    · exact Or.inr ⟨htx, i, hi, by rw [← hp, he], hnb, hb⟩
    · exact Or.inl (by rw [← hp, he])

/-- row 3 in terms of the INPUT: the Text token is the piece `input[s .. it.pos)`, the reported
    position lies inside it, the byte there is not a space / tab / CR / LF, and every byte of the
    token in front of it is one — the error stands at the first visible character of the stray text -/
theorem stray_text_error_at_first_visible (input : Bytes) (is : List Item) (it : Item) (pos : Nat)
    (hl : Lex.lexAll input false = .items is) (hm : it ∈ is) (htx : it.typ = .tText)
    (hne : it.pos ≠ pos) (hat : Lemmas.ParserSafe.ErrAt it pos) :
    ∃ s, s ≤ pos ∧ pos < it.pos ∧ it.pos ≤ input.length ∧ it.val = (input.drop s).take (it.pos - s) ∧
      (∃ b, input[pos]? = some b ∧ b ≠ 32 ∧ b ≠ 9 ∧ b ≠ 13 ∧ b ≠ 10) ∧
      ∀ j, s ≤ j → j < pos → input[j]? = some 32 ∨ input[j]? = some 9 ∨ input[j]? = some 13 ∨ input[j]? = some 10 := by
  obtain ⟨is', hl', ⟨e, hlast, hend⟩, _, _, _⟩ := lex_items input false
  rw [hl] at hl'
  simp only [Lex.LexResult.items.injEq] at hl'
  subst hl'
  have hd : it ∈ is.dropLast := by
    obtain ⟨ys, hys⟩ := List.getLast?_eq_some_iff.mp hlast
    rw [hys] at hm ⊢
    simp only [List.dropLast_concat]
    rcases List.mem_append.mp hm with h | h
    · exact h
    · simp only [List.mem_singleton] at h
      rw [← h, htx] at hend
      rcases hend with h | h <;> exact absurd h (by decide)
  obtain ⟨hlen, hb, hs⟩ := lex_items_slice input false is hl it hd
  have hget : ∀ j (hj : j < it.val.length), input[it.pos - it.val.length + j]? = some it.val[j] := by
    intro j hj
    have h1 : it.val[j]? = ((input.drop (it.pos - it.val.length)).take it.val.length)[j]? :=
      congrArg (·[j]?) hs
    rw [List.getElem?_eq_getElem hj] at h1
    rw [h1, List.getElem?_take, if_pos hj, List.getElem?_drop]
  rcases hat with hp | ⟨_, hp⟩
  · exact absurd hp hne
  rcases Lemmas.ParserSafe.atTextStart_spec it with ⟨i, hi, he, hnb, hbl⟩ | ⟨he, _⟩
  · have hpos : pos = it.pos - it.val.length + i := by rw [← hp, he]; omega
    refine ⟨it.pos - it.val.length, by omega, by omega, hb, ?_, ⟨it.val[i], ?_, hnb⟩, ?_⟩
    · rw [show it.pos - (it.pos - it.val.length) = it.val.length by omega]; exact hs
    · rw [hpos]; exact hget i hi
    · intro j h1 h2
      have hj : j - (it.pos - it.val.length) < i := by omega
      have := hget (j - (it.pos - it.val.length)) (by omega)
      rw [show it.pos - it.val.length + (j - (it.pos - it.val.length)) = j by omega] at this
      rw [this]
      rcases hbl _ hj with h | h | h | h <;> simp [h]
  · exact absurd (by rw [← hp, he]) hne

/-- row 2: a rejected token is reported at its END; when no line break stands inside the token
    (always, but for Text, comment, soydoc and string tokens) that is the line on which it BEGINS -/
theorem token_line_begin (input : Bytes) (is : List Item) (it : Item)
    (hl : Lex.lexAll input false = .items is) (hd : it ∈ is.dropLast) (hnl : ∀ b ∈ it.val, b ≠ 10) :
    lineNumber input it.pos = lineNumber input (it.pos - it.val.length) := by
  obtain ⟨hlen, _, hs⟩ := lex_items_slice input false is hl it hd
  unfold lineNumber
  have h1 : input.take it.pos = input.take (it.pos - it.val.length) ++ it.val := by
    conv => rhs; rhs; rw [hs]
    rw [← List.take_add]
    congr 1; omega
  rw [h1, List.filter_append, List.length_append]
  have : it.val.filter (· == 10) = [] := by
    rw [List.filter_eq_nil_iff]
    intro b hb
    simpa using hnl b hb
  rw [this]; rfl

/-- row 1: when the token is an Error item it is the lexer's last item, positioned by its class -/
theorem parse_error_at_lex_error (input : Bytes) (is : List Item) (e : Item)
    (hl : Lex.lexAll input false = .items is) (hm : e ∈ is) (ht : e.typ = .tError) :
    is.getLast? = some e ∧
    (e.val = [Lex.clsTag] ∨ e.val = [Lex.clsLiteral] → e.pos = 0 ∨ input[e.pos]? = some 123) ∧
    (e.val = [Lex.clsString] → input[e.pos]? = some 34 ∨ input[e.pos]? = some 39) ∧
    (e.val = [Lex.clsComment] → input[e.pos]? = some 47 ∧ input[e.pos + 1]? = some 42) ∧
    (e.val = [Lex.clsSoyDoc] → input[e.pos]? = some 47 ∧ input[e.pos + 1]? = some 42 ∧ input[e.pos + 2]? = some 42) ∧
    (e.val = [Lex.clsName] → input[e.pos]? = some 46 ∨ input[e.pos]? = some 63) := by
  obtain ⟨is', hl', _, _, hok, _⟩ := lex_items input false
  rw [hl] at hl'
  simp only [Lex.LexResult.items.injEq] at hl'
  subst hl'
  have hlast : is.getLast? = some e := by
    cases hne : is.getLast? with
    | none => simp [List.getLast?_eq_none_iff] at hne; subst hne; simp at hm
    | some x =>
      have hsplit : is = is.dropLast ++ [x] := by
        obtain ⟨ys, hys⟩ := List.getLast?_eq_some_iff.mp hne
        rw [hys]; simp
      rw [hsplit] at hm
      rcases List.mem_append.mp hm with hd | hx
      · have := hok e hd
        simp only [Lex.itemOK, Lex.notEnd, ht, Bool.and_eq_true] at this
        exact absurd this.2 (by decide)
      · simp at hx; rw [hx]
  exact ⟨hlast, lex_error_at_construct_start input false is e hl hlast ht⟩

/-- `lineNumber input pos` is the line on which the byte at `pos` stands: 1 + the LF bytes before it -/
theorem lineNumber_eq (input : Bytes) (pos : Nat) :
    lineNumber input pos = 1 + ((input.take pos).filter (· == 10)).length := rfl

/-- … it moves to the next line exactly behind a LF byte -/
theorem lineNumber_succ (input : Bytes) (pos : Nat) (h : pos < input.length) :
    lineNumber input (pos + 1) = lineNumber input pos + (if input[pos] = 10 then 1 else 0) := by
  unfold lineNumber
  rw [List.take_add_one, List.getElem?_eq_getElem h]
  simp only [Option.toList_some, List.filter_append, List.length_append]
  by_cases hb : input[pos] = 10
  · simp [hb]; omega
  · simp [hb]

/-- in file mode an unclosed tag is never reported at 0 unless a `{` stands there -/
theorem lex_unclosed_tag_at_brace (input : Bytes) (is : List Item) (e : Item)
    (h : Lex.lexAll input false = .items is) (hl : is.getLast? = some e) (ht : e.typ = .tError)
    (hc : e.val = [Lex.clsTag] ∨ e.val = [Lex.clsLiteral]) (hp : e.pos ≠ 0) : input[e.pos]? = some 123 := by
  rcases (lex_error_at_construct_start input false is e h hl ht).1 hc with h0 | h0
  · exact absurd h0 hp
  · exact h0

/-! ### Non-vacuity -/

section
open Lex
set_option maxRecDepth 8000

/-- `/*`: the comment is never closed; the error stands at 0, where `/*` is — not at 2 -/
theorem lex_open_comment : lexAll [47, 42] false = .items [⟨.tError, 0, [3]⟩] := by
  simp [lexAll, Lex.fuelFor, run, step, lexText, lexTextLoop, lexBlockComment, Lexer.next, initLexer, Lexer.len,
    decodeRune, byteAt, maybeEmitText, Lexer.backup, Lex.errorfAt, eof, clsComment]

example : ([47, 42] : Bytes)[0]? = some 47 ∧ ([47, 42] : Bytes)[0 + 1]? = some 42 :=
  (lex_error_at_construct_start [47, 42] false _ ⟨.tError, 0, [3]⟩ lex_open_comment rfl rfl).2.2.1 rfl

/-- `/**`: an unclosed soydoc comment, reported at 0 -/
theorem lex_open_soydoc :
    lexAll [47, 42, 42] false = .items [⟨.tSoyDocStart, 3, [47, 42, 42]⟩, ⟨.tError, 0, [4]⟩] := by
  simp [lexAll, Lex.fuelFor, run, step, lexText, lexTextLoop, lexSoyDoc, lexSoyDocLoop, Lexer.next, initLexer, Lexer.len,
    decodeRune, byteAt, maybeEmitText, Lex.errorfAt, eof, clsSoyDoc, Lexer.emit, sliceOf, Lexer.peek, Lexer.backup]

example := (lex_error_at_construct_start [47, 42, 42] false _ ⟨.tError, 0, [4]⟩ lex_open_soydoc rfl rfl).2.2.2.1 rfl
-- (the classes "unclosed tag", "unclosed literal" and "…scanning string" are exercised by the
--  C05lex correspondence: op `lex` prints the class of every Error item on both sides)
end


/-- the tokens of `{log}` followed by the end of the input: the {log} block is never closed -/
def openLog : List Item :=
  [⟨.tLeftDelim, 1, [123]⟩, ⟨.tLog, 4, [108, 111, 103]⟩, ⟨.tRightDelim, 5, [125]⟩, ⟨.tEOF, 5, []⟩]

example : LexShape openLog := by
  refine ⟨by simp [openLog], ?_, ?_⟩
  · intro x hx
    simp [openLog, List.dropLast] at hx
    rcases hx with rfl | rfl | rfl <;> rfl
  · intro x hx
    simp [openLog, List.getLast?] at hx
    subst hx
    exact ⟨by simp [Lemmas.ParserSafe.valid], rfl⟩

set_option maxHeartbeats 4000000 in
/-- the parser reads the EOF item, then one token of look-ahead from the closed channel (the
    zero item, position 0), and reports the EOF item — position 5, not 0 -/
example : parseFile (fun _ => none) (exprFuel openLog) openLog = .error (.err 5) := by rfl

/-- a lexical error is reported at the Error item (here an unclosed tag that began at 3) -/
example : parseFile (fun _ => none) (exprFuel [⟨.tText, 3, [97, 98, 99]⟩, ⟨.tError, 3, [1]⟩])
    [⟨.tText, 3, [97, 98, 99]⟩, ⟨.tError, 3, [1]⟩] = .error (.err 3) := by rfl

end SoyVerif.Props.C19
