/-
  C05 (completeness at source level): WHICH sources are accepted, and with WHICH tree.

  `parse_source_total` / `no_panic` (C05parse) say that `parse.SoyFile` always answers; they say
  nothing about what is accepted.  This file states the converse direction for a structured,
  unbounded family of template bodies: text, print tags `{$id}` and the nested block commands

      {if e}…{elseif e}…{else}…{/if}      {foreach $x in e}…{ifempty}…{/foreach}
      {let $x: e /}                        {let $x}…{/let}

  (`e` a variable `$id` or an integer literal).  For every well-formed tree (`Blk`),
  `block_source_spec`:  `lexAll (srcOf b) false = .items (itemsOf b)` and
  `parseSource pf (srcOf b) = .ok (nodesOf b)` — the AST with every position the real parser assigns.

  Layers:
  * lexer — tags as lists of elements (`Elem`: keyword / identifier, `$id`, `.id`, `:`, integer, one
    space), every element evaluated exactly through the state functions; a source is a list of
    segments (text run, tag) (`lex_segs`);
  * trees — `Cmd` / `Blk` / `IfTail`, flattened into segments (`segsCmd`, `initBlk`);
  * parser — `itemList` until an end-token set and every command's parse function on the stream
    view of the state (C15b), by mutual induction over the tree.
-/
import SoyVerif.Props.C15c

namespace SoyVerif.Props.C05c
open SoyVerif SoyVerif.Model SoyVerif.Model.Parser SoyVerif.Model.FileParser SoyVerif.Lemmas.ParserSafe
open SoyVerif.Spec SoyVerif.Props.C15b SoyVerif.Props.C15c
open Lex

/-! ## lexer: the elements of a tag -/

/-- a byte that ends an identifier / number inside a tag: space, `}`, `:` -/
def delimByte (d : Nat) : Prop := d = 32 ∨ d = 125 ∨ d = 58

instance (d : Nat) : Decidable (delimByte d) := by unfold delimByte; infer_instance

theorem alnum_delim {d : Nat} (h : delimByte d) : isAlphaNumeric (d : Int) = false := by
  have hd : d < 128 := by unfold delimByte at h; omega
  have := alnum_ascii ⟨d, hd⟩
  simp only at this
  rw [this]
  unfold delimByte at h
  simp only [decide_eq_false_iff_not]
  omega

/-- `scanWhile isAlphaNumeric` over `k` identifier bytes up to a delimiter -/
theorem scanWhile_alnum (inp : Array UInt8) (s : Int) (dd : Bool) (ts : Int) (le : Item) (its : Array Item) (d : Nat)
    (hd : delimByte d) :
    ∀ (k q : Nat) (w : Int), q + k < inp.size → (∀ i, i < k → idByte (byteAt inp (q + i))) → byteAt inp (q + k) = d →
    scanWhile isAlphaNumeric isAlphaNumeric_eof (Lexer.mk inp q s w dd ts le its) =
      some ((d : Int), Lexer.mk inp ((q + k + 1 : Nat) : Int) s 1 dd ts le its) := by
  have hd128 : d < 128 := by unfold delimByte at hd; omega
  intro k
  induction k with
  | zero =>
    intro q w hq _ hb
    rw [scanWhile_some (next_mk inp q s w dd ts le its d (by omega) hb hd128)]
    simp only [alnum_delim hd, Bool.false_eq_true, if_false, Nat.add_zero]
  | succ k ih =>
    intro q w hq hid hb
    have h0 := hid 0 (by omega)
    have hc : byteAt inp q < 128 := by unfold idByte at h0; simp only [Nat.add_zero] at h0; omega
    rw [scanWhile_some (next_mk inp q s w dd ts le its (byteAt inp q) (by omega) rfl hc)]
    simp only [Nat.add_zero] at h0
    rw [alnum_idByte h0, if_pos rfl, ih (q + 1) 1 (by omega) (fun i hi => by
      have := hid (i + 1) (by omega)
      rw [show q + 1 + i = q + (i + 1) by omega]; exact this) (by rw [show q + 1 + k = q + (k + 1) by omega]; exact hb)]
    rw [show q + 1 + k + 1 = q + (k + 1) + 1 by omega]

/-- one space inside a tag is skipped -/
theorem lexInsideTag_sp (inp : Array UInt8) (q : Nat) (s w : Int) (dd : Bool) (ts : Int) (le : Item) (its : Array Item)
    (hq : q < inp.size) (hb : byteAt inp q = 32) :
    lexInsideTag (Lexer.mk inp q s w dd ts le its) =
      some (some .insideTag, Lexer.mk inp ((q + 1 : Nat) : Int) ((q + 1 : Nat) : Int) 1 dd ts le its) := by
  unfold lexInsideTag
  simp only [bind, Option.bind]
  rw [next_mk inp q s w dd ts le its 32 hq hb (by omega)]
  simp only [Int.cast_ofNat_Int, show isSpaceEOL (32 : Int) = true by decide, if_true, pure, Lexer.ignore]

theorem letter_facts {c : Nat} (h : idStart c) : isLetterOrUnderscore (c : Int) = true := by
  unfold idStart at h
  simp only [isLetterOrUnderscore, Bool.or_eq_true, Bool.and_eq_true, decide_eq_true_eq, beq_iff_eq]
  omega

/-- `lexInsideTagMid` / `lexInsideTagRest` on a letter or underscore: an identifier begins -/
theorem lexInsideTagMid_letter (r : Int) (l : Lexer) (h : (65 ≤ r ∧ r ≤ 90) ∨ (97 ≤ r ∧ r ≤ 122) ∨ r = 95) :
    lexInsideTagMid r l = some (some .ident, l.backup) := by
  unfold lexInsideTagMid
  rw [if_neg (by omega), if_neg (by omega), if_neg (by omega), if_neg (by omega), if_neg (by omega), if_neg (by omega),
    if_neg (by omega), if_neg (by omega), if_neg (by omega), if_neg (by omega)]
  unfold lexInsideTagRest
  rw [if_neg (by omega), if_neg (by omega), if_neg (by simp only [eof]; omega), if_neg (by omega)]
  have : isLetterOrUnderscore r = true := by
    simp only [isLetterOrUnderscore, Bool.or_eq_true, Bool.and_eq_true, decide_eq_true_eq, beq_iff_eq]
    omega
  rw [if_pos this]
  rfl

theorem lexInsideTag_letter (inp : Array UInt8) (q : Nat) (s w : Int) (dd : Bool) (ts : Int) (le : Item) (its : Array Item)
    (hq : q < inp.size) (hb : idStart (byteAt inp q)) :
    lexInsideTag (Lexer.mk inp q s w dd ts le its) = some (some .ident, Lexer.mk inp q s 1 dd ts le its) := by
  have hc : byteAt inp q < 128 := by unfold idStart at hb; omega
  unfold lexInsideTag
  simp only [bind, Option.bind]
  rw [next_mk inp q s w dd ts le its (byteAt inp q) hq rfl hc]
  simp only
  unfold idStart at hb
  have hsp : isSpaceEOL ((byteAt inp q : Nat) : Int) = false := by
    simp only [Lex.isSpaceEOL, Lex.isSpace, Lex.isEndOfLine, Bool.or_eq_false_iff, beq_eq_false_iff_ne, ne_eq]
    omega
  rw [hsp]
  simp only [Bool.false_eq_true, if_false]
  rw [if_neg (by omega), lexInsideTagMid_letter _ _ (by omega), backup_mk]


/-- the item type of a word inside a tag: a builtin identifier, or Ident -/
def wordType (w : Bytes) : ItemType := (Gen.builtinIdents.lookup w).getD .tIdent

/-- a keyword or plain identifier: `[A-Za-z_][A-Za-z0-9_]*`, not `literal` / `css` (whose tags are
    lexed differently) -/
def wordOK (w : Bytes) : Prop := idOK w ∧ wordType w ≠ .tLiteral ∧ wordType w ≠ .tCss

instance (w : Bytes) : Decidable (wordOK w) := by unfold wordOK; infer_instance

/-- `lexIdent` on a word that begins at `q` (the pending token starts there) and is followed by a
    delimiter -/
theorem lexIdent_word (inp : Array UInt8) (q : Nat) (wd : Bytes) (d : Nat) (w : Int) (dd : Bool) (ts : Int) (le : Item)
    (its : Array Item) (hok : wordOK wd) (hd : delimByte d) (h : Holds inp q (wd ++ [d.toUInt8])) (hd8 : d < 256) :
    lexIdent (Lexer.mk inp q q w dd ts le its) =
      some (some .insideTag, Lexer.mk inp ((q + wd.length : Nat) : Int) ((q + wd.length : Nat) : Int) 1 dd ts
        ⟨wordType wd, q + wd.length, wd⟩ (its.push ⟨wordType wd, q + wd.length, wd⟩)) := by
  obtain ⟨hw, hdl⟩ := h.append
  obtain ⟨hdq, hdb, _⟩ := hdl.cons
  have hdb' : byteAt inp (q + wd.length) = d := by rw [hdb]; simp [Nat.mod_eq_of_lt hd8]
  obtain ⟨⟨hlen, hstart, hbytes⟩, hnl, hnc⟩ := hok
  have h0 := (hw 0 hlen)
  simp only [Nat.add_zero] at h0
  have hst : idStart (byteAt inp q) := by rw [h0.2]; exact hstart
  have hc : byteAt inp q < 128 := by unfold idStart at hst; omega
  unfold lexIdent
  simp only [bind, Option.bind]
  rw [next_mk inp q q w dd ts le its (byteAt inp q) (by omega) rfl hc]
  simp only
  unfold idStart at hst
  rw [if_neg (by omega), if_neg (by omega), if_neg (by omega), if_neg (by omega), if_neg (by omega)]
  unfold lexIdentRest
  simp only [bind, Option.bind]
  rw [scanWhile_alnum inp q dd ts le its d hd (wd.length - 1) (q + 1) 1 (by omega)
    (fun i hi => by
      have := hw (i + 1) (by omega)
      rw [show q + 1 + i = q + (i + 1) by omega, this.2]; exact hbytes (i + 1) (by omega))
    (by rw [show q + 1 + (wd.length - 1) = q + wd.length by omega]; exact hdb')]
  rw [show q + 1 + (wd.length - 1) + 1 = q + wd.length + 1 by omega]
  simp only [backup_mk]
  rw [sliceOf_nat inp q (q + wd.length) (by omega) (by omega), hw.extract]
  simp only
  cases hlk : Gen.builtinIdents.lookup wd with
  | none =>
    have hwt : wordType wd = .tIdent := by simp [wordType, hlk]
    simp only
    rw [if_neg (by decide)]
    unfold emitInside
    simp only [bind, Option.bind]
    rw [emit_mk inp q (q + wd.length) 1 dd ts le its .tIdent (by omega) (by omega), hw.extract, hwt]
    rfl
  | some t =>
    have hwt : wordType wd = t := by simp [wordType, hlk]
    simp only
    rw [emit_mk inp q (q + wd.length) 1 dd ts le its t (by omega) (by omega), hw.extract]
    simp only
    rw [hwt] at hnl hnc
    rw [if_neg hnl, if_neg hnc, hwt]
    rfl

theorem lookup_dot (w : Bytes) : Gen.builtinIdents.lookup (46 :: w) = none := by
  have h : ∀ p ∈ Gen.builtinIdents, p.1.head? ≠ some 46 := by decide
  generalize Gen.builtinIdents = tbl at h
  induction tbl with
  | nil => rfl
  | cons p r ih =>
    obtain ⟨k, v⟩ := p
    have hk := h (k, v) (by simp)
    have hne : ((46 :: w : Bytes) == k) = false := by
      apply beq_false_of_ne
      intro e; rw [← e] at hk; simp at hk
    simp only [List.lookup, hne]
    exact ih (fun p hp => h p (by simp [hp]))

/-- `lexIdent` on `$id` followed by a delimiter -/
theorem lexIdent_dollar' (inp : Array UInt8) (q : Nat) (id : Bytes) (d : Nat) (w : Int) (dd : Bool) (ts : Int) (le : Item)
    (its : Array Item) (hok : idOK id) (hd : delimByte d) (h : Holds inp q (36 :: id ++ [d.toUInt8])) (hd8 : d < 256) :
    lexIdent (Lexer.mk inp q q w dd ts le its) =
      some (some .insideTag, Lexer.mk inp ((q + 1 + id.length : Nat) : Int) ((q + 1 + id.length : Nat) : Int) 1 dd ts
        ⟨.tDollarIdent, q + 1 + id.length, 36 :: id⟩ (its.push ⟨.tDollarIdent, q + 1 + id.length, 36 :: id⟩)) := by
  have hfull := (show Holds inp q ((36 :: id) ++ [d.toUInt8]) from h).append.1
  obtain ⟨hq0, hb0, h1⟩ := h.cons
  obtain ⟨hw, hdl⟩ := h1.append
  obtain ⟨hdq, hdb, _⟩ := hdl.cons
  have hdb' : byteAt inp (q + 1 + id.length) = d := by rw [hdb]; simp [Nat.mod_eq_of_lt hd8]
  obtain ⟨hlen, hstart, hbytes⟩ := hok
  have h0 := (hw 0 hlen)
  simp only [Nat.add_zero] at h0
  have hst : idStart (byteAt inp (q + 1)) := by rw [h0.2]; exact hstart
  have hc : byteAt inp (q + 1) < 128 := by unfold idStart at hst; omega
  have hex := hfull.extract
  simp only [List.length_cons] at hex
  rw [show q + (id.length + 1) = q + 1 + id.length by omega] at hex
  unfold lexIdent Lexer.peek
  simp only [bind, Option.bind]
  rw [next_mk inp q q w dd ts le its 36 (by omega) hb0 (by omega)]
  simp only [Int.cast_ofNat_Int, show ¬ ((36 : Int) = 46) by decide, if_false, if_true]
  rw [next_mk inp (q + 1) q 1 dd ts le its (byteAt inp (q + 1)) (by omega) rfl hc]
  simp only [pure, backup_mk]
  rw [if_neg (letter_idStart hst)]
  unfold lexIdentRest
  simp only [bind, Option.bind]
  rw [scanWhile_alnum inp q dd ts le its d hd id.length (q + 1) 1 (by omega)
    (fun i hi => by rw [(hw i hi).2]; exact hbytes i hi) hdb']
  simp only [backup_mk]
  rw [sliceOf_nat inp q (q + 1 + id.length) (by omega) (by omega), hex]
  simp only [lookup_dollar]
  rw [if_neg (by decide)]
  unfold emitInside
  simp only [bind, Option.bind]
  rw [emit_mk inp q (q + 1 + id.length) 1 dd ts le its .tDollarIdent (by omega) (by omega), hex]
  rfl

/-- `lexIdent` on `.id` followed by a delimiter -/
theorem lexIdent_dot (inp : Array UInt8) (q : Nat) (id : Bytes) (d : Nat) (w : Int) (dd : Bool) (ts : Int) (le : Item)
    (its : Array Item) (hok : idOK id) (hd : delimByte d) (h : Holds inp q (46 :: id ++ [d.toUInt8])) (hd8 : d < 256) :
    lexIdent (Lexer.mk inp q q w dd ts le its) =
      some (some .insideTag, Lexer.mk inp ((q + 1 + id.length : Nat) : Int) ((q + 1 + id.length : Nat) : Int) 1 dd ts
        ⟨.tDotIdent, q + 1 + id.length, 46 :: id⟩ (its.push ⟨.tDotIdent, q + 1 + id.length, 46 :: id⟩)) := by
  have hfull := (show Holds inp q ((46 :: id) ++ [d.toUInt8]) from h).append.1
  obtain ⟨hq0, hb0, h1⟩ := h.cons
  obtain ⟨hw, hdl⟩ := h1.append
  obtain ⟨hdq, hdb, _⟩ := hdl.cons
  have hdb' : byteAt inp (q + 1 + id.length) = d := by rw [hdb]; simp [Nat.mod_eq_of_lt hd8]
  obtain ⟨hlen, hstart, hbytes⟩ := hok
  have h0 := (hw 0 hlen)
  simp only [Nat.add_zero] at h0
  have hst : idStart (byteAt inp (q + 1)) := by rw [h0.2]; exact hstart
  have hc : byteAt inp (q + 1) < 128 := by unfold idStart at hst; omega
  have hex := hfull.extract
  simp only [List.length_cons] at hex
  rw [show q + (id.length + 1) = q + 1 + id.length by omega] at hex
  unfold lexIdent
  simp only [bind, Option.bind]
  rw [next_mk inp q q w dd ts le its 46 (by omega) hb0 (by omega)]
  simp only [Int.cast_ofNat_Int, if_true]
  rw [next_mk inp (q + 1) q 1 dd ts le its (byteAt inp (q + 1)) (by omega) rfl hc]
  simp only [backup_mk]
  have hdig : isDigit ((byteAt inp (q + 1) : Nat) : Int) = false := by
    unfold idStart at hst
    simp only [isDigit, Bool.and_eq_false_iff, decide_eq_false_iff_not]
    omega
  rw [hdig]
  simp only [Bool.false_eq_true, if_false]
  unfold lexIdentRest
  simp only [bind, Option.bind]
  rw [scanWhile_alnum inp q dd ts le its d hd id.length (q + 1) 1 (by omega)
    (fun i hi => by rw [(hw i hi).2]; exact hbytes i hi) hdb']
  simp only [backup_mk]
  rw [sliceOf_nat inp q (q + 1 + id.length) (by omega) (by omega), hex]
  simp only [lookup_dot]
  rw [if_neg (by decide)]
  unfold emitInside
  simp only [bind, Option.bind]
  rw [emit_mk inp q (q + 1 + id.length) 1 dd ts le its .tDotIdent (by omega) (by omega), hex]
  rfl

/-- `lexInsideTag` at `$` or `.`: an identifier begins -/
theorem lexInsideTag_sigil (inp : Array UInt8) (q : Nat) (c : Nat) (s w : Int) (dd : Bool) (ts : Int) (le : Item)
    (its : Array Item) (hq : q < inp.size) (hb : byteAt inp q = c) (hc : c = 36 ∨ c = 46) :
    lexInsideTag (Lexer.mk inp q s w dd ts le its) = some (some .ident, Lexer.mk inp q s 1 dd ts le its) := by
  unfold lexInsideTag
  simp only [bind, Option.bind]
  rw [next_mk inp q s w dd ts le its c hq hb (by omega)]
  simp only
  have hsp : isSpaceEOL ((c : Nat) : Int) = false := by
    simp only [Lex.isSpaceEOL, Lex.isSpace, Lex.isEndOfLine, Bool.or_eq_false_iff, beq_eq_false_iff_ne, ne_eq]
    omega
  rw [hsp]
  simp only [Bool.false_eq_true, if_false]
  rw [if_neg (by omega)]
  unfold lexInsideTagMid
  rw [if_pos (by omega)]
  simp only [pure, backup_mk]

/-- `:` inside a tag -/
theorem lexInsideTag_colon (inp : Array UInt8) (q : Nat) (w : Int) (dd : Bool) (ts : Int) (le : Item)
    (its : Array Item) (hq : q < inp.size) (hb : byteAt inp q = 58) :
    lexInsideTag (Lexer.mk inp q q w dd ts le its) =
      some (some .insideTag, Lexer.mk inp ((q + 1 : Nat) : Int) ((q + 1 : Nat) : Int) 1 dd ts
        ⟨.tColon, q + 1, (inp.extract q (q + 1)).toList⟩ (its.push ⟨.tColon, q + 1, (inp.extract q (q + 1)).toList⟩)) := by
  unfold lexInsideTag
  simp only [bind, Option.bind]
  rw [next_mk inp q q w dd ts le its 58 hq hb (by omega)]
  simp only [Int.cast_ofNat_Int, show isSpaceEOL (58 : Int) = false by decide, Bool.false_eq_true, if_false,
    show ¬ ((58 : Int) = 47) by decide]
  unfold lexInsideTagMid
  rw [if_neg (by decide), if_neg (by decide), if_neg (by decide), if_neg (by decide), if_neg (by decide), if_neg (by decide),
    if_neg (by decide), if_pos (by decide)]
  unfold emitInside
  simp only [bind, Option.bind]
  rw [emit_mk inp q (q + 1) 1 dd ts le its _ (by omega) (by omega)]
  rfl

/-- `/}` closes a tag: `lexInsideTag` sees the `/` with `}` behind it … -/
theorem lexInsideTag_slash (inp : Array UInt8) (q : Nat) (s w : Int) (dd : Bool) (ts : Int) (le : Item)
    (its : Array Item) (hq : q + 1 < inp.size) (hb : byteAt inp q = 47) (hb1 : byteAt inp (q + 1) = 125) :
    lexInsideTag (Lexer.mk inp q s w dd ts le its) =
      some (some .rightDelimEnd, Lexer.mk inp ((q + 1 : Nat) : Int) s 1 dd ts le its) := by
  unfold lexInsideTag Lexer.peek
  simp only [bind, Option.bind]
  rw [next_mk inp q s w dd ts le its 47 (by omega) hb (by omega)]
  simp only [Int.cast_ofNat_Int, show isSpaceEOL (47 : Int) = false by decide, Bool.false_eq_true, if_false, if_true]
  rw [next_mk inp (q + 1) s 1 dd ts le its 125 (by omega) hb1 (by omega)]
  simp only [Int.cast_ofNat_Int, pure, backup_mk, if_true]

/-- … and `lexRightDelimEnd` sends the RightDelimEnd item -/
theorem lexRightDelimEnd_mk (inp : Array UInt8) (a q : Nat) (w : Int) (ts : Int) (le : Item) (its : Array Item)
    (h1 : a ≤ q) (hq : q < inp.size) (hb : byteAt inp q = 125) :
    lexRightDelimEnd (Lexer.mk inp q a w false ts le its) =
      some (some .text, Lexer.mk inp ((q + 1 : Nat) : Int) ((q + 1 : Nat) : Int) 1 false ts
        ⟨.tRightDelimEnd, q + 1, (inp.extract a (q + 1)).toList⟩
        (its.push ⟨.tRightDelimEnd, q + 1, (inp.extract a (q + 1)).toList⟩)) := by
  unfold lexRightDelimEnd badDoubleClose
  simp only [bind, Option.bind]
  rw [next_mk inp q a w false ts le its 125 hq hb (by omega)]
  simp only [Bool.false_eq_true, if_false, pure]
  rw [emit_mk inp a (q + 1) 1 false ts le its .tRightDelimEnd (by omega) (by omega)]


/-! ### integer literals: `lexNumber` / `scanNumber` on a run of decimal digits -/

def digitByte (c : Nat) : Prop := 48 ≤ c ∧ c ≤ 57

instance (c : Nat) : Decidable (digitByte c) := by unfold digitByte; infer_instance

/-- a decimal integer literal as the lexer accepts it: digits, no leading zero, at most 18 of them
    (so the value fits `int64`) -/
def intOK (ds : Bytes) : Prop :=
  0 < ds.length ∧ ds.length ≤ 18 ∧ (∀ i, i < ds.length → digitByte (ds.getD i 0).toNat) ∧
    (1 < ds.length → (ds.getD 0 0).toNat ≠ 48)

instance (ds : Bytes) : Decidable (intOK ds) := by unfold intOK; infer_instance

theorem indexRune_ascii (valid : List Int) : ∀ n : Fin 128, indexRune valid (n.val : Int) = valid.contains (n.val : Int) := by
  intro n; simp [indexRune]

theorem indexRune_dec : ∀ n : Fin 128, indexRune Lex.decDigits (n.val : Int) = decide (48 ≤ n.val ∧ n.val ≤ 57) := by
  decide +kernel

theorem indexRune_dec_digit {c : Nat} (h : digitByte c) : indexRune Lex.decDigits (c : Int) = true := by
  unfold digitByte at h
  have := indexRune_dec ⟨c, by omega⟩
  simp only at this
  rw [this]; exact decide_eq_true h

theorem indexRune_delim {d : Nat} (h : delimByte d) (valid : List Int)
    (hv : valid = Lex.decDigits ∨ valid = [43, 45] ∨ valid = [46] ∨ valid = [101]) : indexRune valid (d : Int) = false := by
  unfold delimByte at h
  rcases h with rfl | rfl | rfl <;> rcases hv with rfl | rfl | rfl | rfl <;> decide

theorem accept_no {l l' : Lexer} {c : Int} {valid : List Int} (hn : l.next = some (c, l')) (hi : indexRune valid c = false) :
    accept l valid = some (false, l'.backup) := by
  unfold accept
  simp only [bind, Option.bind, hn, hi, Bool.false_eq_true, if_false, pure]

/-- `scanWhile (indexRune Lex.decDigits)` over `k` digits up to a delimiter -/
theorem scanWhile_digits (inp : Array UInt8) (s : Int) (dd : Bool) (ts : Int) (le : Item) (its : Array Item) (d : Nat)
    (hd : delimByte d) :
    ∀ (k q : Nat) (w : Int), q + k < inp.size → (∀ i, i < k → digitByte (byteAt inp (q + i))) → byteAt inp (q + k) = d →
    scanWhile (indexRune Lex.decDigits) (indexRune_eof Lex.decDigits) (Lexer.mk inp q s w dd ts le its) =
      some ((d : Int), Lexer.mk inp ((q + k + 1 : Nat) : Int) s 1 dd ts le its) := by
  have hd128 : d < 128 := by unfold delimByte at hd; omega
  intro k
  induction k with
  | zero =>
    intro q w hq _ hb
    rw [scanWhile_some (next_mk inp q s w dd ts le its d (by omega) hb hd128)]
    rw [indexRune_delim hd Lex.decDigits (Or.inl rfl)]
    simp only [Bool.false_eq_true, if_false, Nat.add_zero]
  | succ k ih =>
    intro q w hq hid hb
    have h0 := hid 0 (by omega)
    simp only [Nat.add_zero] at h0
    have hc : byteAt inp q < 128 := by unfold digitByte at h0; omega
    rw [scanWhile_some (next_mk inp q s w dd ts le its (byteAt inp q) (by omega) rfl hc)]
    rw [indexRune_dec_digit h0, if_pos rfl, ih (q + 1) 1 (by omega) (fun i hi => by
      have := hid (i + 1) (by omega)
      rw [show q + 1 + i = q + (i + 1) by omega]; exact this) (by rw [show q + 1 + k = q + (k + 1) by omega]; exact hb)]
    rw [show q + 1 + k + 1 = q + (k + 1) + 1 by omega]

theorem extract_two (inp : Array UInt8) (q : Nat) (h : q + 2 ≤ inp.size) :
    (inp.extract q (q + 2)).toList = [inp[q], inp[q + 1]] := by
  apply List.ext_getElem
  · simp; omega
  · intro i h1 h2
    simp only [List.length_cons, List.length_nil] at h2
    have : i = 0 ∨ i = 1 := by omega
    rcases this with rfl | rfl <;> simp

/-- `lexNumber` on an integer literal that begins at `q` and is followed by a delimiter -/
theorem lexNumber_int (inp : Array UInt8) (q : Nat) (ds : Bytes) (d : Nat) (w : Int) (dd : Bool) (ts : Int) (le : Item)
    (its : Array Item) (hok : intOK ds) (hd : delimByte d) (h : Holds inp q (ds ++ [d.toUInt8])) (hd8 : d < 256) :
    lexNumber (Lexer.mk inp q q w dd ts le its) =
      some (some .insideTag, Lexer.mk inp ((q + ds.length : Nat) : Int) ((q + ds.length : Nat) : Int) 1 dd ts
        ⟨.tInteger, q + ds.length, ds⟩ (its.push ⟨.tInteger, q + ds.length, ds⟩)) := by
  obtain ⟨hw, hdl⟩ := h.append
  obtain ⟨hdq, hdb, _⟩ := hdl.cons
  have hdb' : byteAt inp (q + ds.length) = d := by rw [hdb]; simp [Nat.mod_eq_of_lt hd8]
  have hd128 : d < 128 := by unfold delimByte at hd; omega
  obtain ⟨hlen, _, hdig, hlz⟩ := hok
  have hbd : ∀ i, i < ds.length → digitByte (byteAt inp (q + i)) := fun i hi => by rw [(hw i hi).2]; exact hdig i hi
  have h0 := hbd 0 hlen
  simp only [Nat.add_zero] at h0
  have hc : byteAt inp q < 128 := by unfold digitByte at h0; omega
  -- the second byte is a digit or the delimiter: not `x`
  have hb1 : byteAt inp (q + 1) ≠ 120 := by
    by_cases h1 : 1 < ds.length
    · have := hbd 1 h1; unfold digitByte at this; omega
    · have : ds.length = 1 := by omega
      rw [this] at hdb'; rw [hdb']; unfold delimByte at hd; omega
  unfold lexNumber scanNumber
  simp only [bind, Option.bind]
  rw [accept_no (next_mk inp q q w dd ts le its (byteAt inp q) (by omega) rfl hc)
    (by unfold digitByte at h0
        have := indexRune_ascii [43, 45] ⟨byteAt inp q, hc⟩
        simp only at this; rw [this]
        simp only [List.contains_cons, List.contains_nil, Bool.or_false, Bool.or_eq_false_iff, beq_eq_false_iff_ne, ne_eq]
        omega)]
  simp only [backup_mk]
  have hlen2 : (Lexer.mk inp q q 1 dd ts le its).len ≥ (Lexer.mk inp q q 1 dd ts le its).pos + 2 := by
    show (inp.size : Int) ≥ (q : Int) + 2; omega
  rw [if_pos hlen2]
  have hsl : sliceOf inp (q : Int) ((q : Int) + 2) = some (inp.extract q (q + 2)).toList := by
    have := sliceOf_nat inp q (q + 2) (by omega) (by omega)
    rw [← this]; congr 1
  simp only [hsl, pure]
  rw [extract_two inp q (by omega)]
  have hnx : (([inp[q]'(by omega), inp[q + 1]'(by omega)] : Bytes) == [48, 120]) = false := by
    apply beq_false_of_ne
    intro e
    simp only [List.cons.injEq, and_true] at e
    apply hb1
    unfold byteAt
    rw [Array.getD_eq_getD_getElem?, Array.getElem?_eq_getElem (by omega)]
    simp [e.2]
  simp only [hnx, Bool.false_eq_true, if_false]
  unfold acceptRun
  simp only [bind, Option.bind]
  rw [scanWhile_digits inp q dd ts le its d hd ds.length q 1 (by omega) hbd hdb']
  simp only [backup_mk, pure]
  have hgt : decide (((q + ds.length : Nat) : Int) > (q : Int)) = true := by simp; omega
  simp only [hgt, Bool.not_true, Bool.false_eq_true, if_false]
  rw [accept_no (next_mk inp (q + ds.length) q 1 dd ts le its d (by omega) hdb' hd128)
    (indexRune_delim hd [46] (Or.inr (Or.inr (Or.inl rfl))))]
  simp only [backup_mk, Bool.false_eq_true, if_false, Bool.not_false, if_true]
  have hio : indexOf inp (q : Int) = some (inp.getD q 0) := by
    unfold indexOf
    rw [if_pos ⟨by omega, by omega⟩]
    simp
  simp only [hio]
  have hbad : ((inp.getD q 0) == 48 && decide (((q + ds.length : Nat) : Int) > (q : Int) + 1)) = false := by
    by_cases h1 : 1 < ds.length
    · have hz := hlz h1
      have e0 := (hw 0 hlen).2
      simp only [Nat.add_zero] at e0
      have : (inp.getD q 0 == 48) = false := by
        apply beq_false_of_ne
        intro e
        unfold byteAt at e0
        rw [e] at e0
        apply hz; rw [← e0]; rfl
      rw [this, Bool.false_and]
    · have : decide (((q + ds.length : Nat) : Int) > (q : Int) + 1) = false := by simp; omega
      rw [this, Bool.and_false]
  simp only [hbad, Bool.false_eq_true, if_false]
  unfold scanNumberExp
  simp only [bind, Option.bind]
  rw [accept_no (next_mk inp (q + ds.length) q 1 dd ts le its d (by omega) hdb' hd128)
    (indexRune_delim hd [101] (Or.inr (Or.inr (Or.inr rfl))))]
  simp only [backup_mk, Bool.false_eq_true, if_false]
  unfold scanNumberEnd Lexer.peek
  simp only [bind, Option.bind]
  rw [next_mk inp (q + ds.length) q 1 dd ts le its d (by omega) hdb' hd128]
  simp only [pure, backup_mk, alnum_delim hd, Bool.false_eq_true, if_false, Bool.not_true]
  unfold emitInside
  simp only [bind, Option.bind]
  rw [emit_mk inp q (q + ds.length) 1 dd ts le its .tInteger (by omega) (by omega), hw.extract]
  rfl

theorem lexInsideTag_digit (inp : Array UInt8) (q : Nat) (s w : Int) (dd : Bool) (ts : Int) (le : Item) (its : Array Item)
    (hq : q < inp.size) (hb : digitByte (byteAt inp q)) :
    lexInsideTag (Lexer.mk inp q s w dd ts le its) = some (some .number, Lexer.mk inp q s 1 dd ts le its) := by
  unfold digitByte at hb
  unfold lexInsideTag
  simp only [bind, Option.bind]
  rw [next_mk inp q s w dd ts le its (byteAt inp q) hq rfl (by omega)]
  simp only
  have hsp : isSpaceEOL ((byteAt inp q : Nat) : Int) = false := by
    simp only [Lex.isSpaceEOL, Lex.isSpace, Lex.isEndOfLine, Bool.or_eq_false_iff, beq_eq_false_iff_ne, ne_eq]
    omega
  rw [hsp]
  simp only [Bool.false_eq_true, if_false]
  rw [if_neg (by omega)]
  unfold lexInsideTagMid
  rw [if_neg (by omega), if_neg (by omega), if_neg (by omega), if_neg (by omega), if_neg (by omega), if_neg (by omega),
    if_pos (by omega)]
  simp only [pure, backup_mk]


/-! ## tags as lists of elements -/

/-- what stands between `{` and the closing `}` / `/}` of a tag -/
inductive Elem where
  /-- one space -/
  | sp
  /-- a keyword or a plain identifier (`if`, `foreach`, `in`, …) -/
  | word (w : Bytes)
  /-- `$id` -/
  | dollar (id : Bytes)
  /-- `.id` -/
  | dotIdent (id : Bytes)
  /-- `:` -/
  | colon
  /-- a decimal integer literal -/
  | int (ds : Bytes)
  deriving Repr, DecidableEq

def Elem.src : Elem → Bytes
  | .sp => [32]
  | .word w => w
  | .dollar id => 36 :: id
  | .dotIdent id => 46 :: id
  | .colon => [58]
  | .int ds => ds

/-- the item an element that begins at `q` yields (none for a space) -/
def Elem.items (q : Nat) : Elem → List Item
  | .sp => []
  | .word w => [⟨wordType w, q + w.length, w⟩]
  | .dollar id => [⟨.tDollarIdent, q + 1 + id.length, 36 :: id⟩]
  | .dotIdent id => [⟨.tDotIdent, q + 1 + id.length, 46 :: id⟩]
  | .colon => [⟨.tColon, q + 1, [58]⟩]
  | .int ds => [⟨.tInteger, q + ds.length, ds⟩]

/-- state functions the lexer runs for the element -/
def Elem.steps : Elem → Nat
  | .sp => 1
  | .colon => 1
  | _ => 2

def Elem.ok : Elem → Prop
  | .sp => True
  | .word w => wordOK w
  | .dollar id => idOK id
  | .dotIdent id => idOK id
  | .colon => True
  | .int ds => intOK ds

instance (e : Elem) : Decidable e.ok := by cases e <;> (unfold Elem.ok; infer_instance)

/-- identifiers and numbers end at a delimiter -/
def Elem.needsDelim : Elem → Bool
  | .sp => false
  | .colon => false
  | _ => true

/-- first byte of the element -/
def Elem.head : Elem → UInt8
  | .sp => 32
  | .word w => w.getD 0 0
  | .dollar _ => 36
  | .dotIdent _ => 46
  | .colon => 58
  | .int ds => ds.getD 0 0

theorem Elem.src_head (e : Elem) (h : e.ok) : ∃ tl, e.src = e.head :: tl := by
  cases e with
  | sp => exact ⟨[], rfl⟩
  | word w =>
    cases w with
    | nil => exact absurd h.1.1 (by simp)
    | cons c r => exact ⟨r, rfl⟩
  | dollar id => exact ⟨id, rfl⟩
  | dotIdent id => exact ⟨id, rfl⟩
  | colon => exact ⟨[], rfl⟩
  | int ds =>
    cases ds with
    | nil => exact absurd h.1 (by simp)
    | cons c r => exact ⟨r, rfl⟩

theorem toUInt8_toNat (b : UInt8) : b.toNat.toUInt8 = b := by
  cases b; simp [Nat.toUInt8, UInt8.ofNat, UInt8.toNat]

/-- one element: from `lexInsideTag` at its first byte to `lexInsideTag` behind it -/
theorem elem_run (e : Elem) {inp : Array UInt8} {q : Nat} {d : UInt8} (hok : e.ok)
    (hd : e.needsDelim = true → delimByte d.toNat) (h : Holds inp q (e.src ++ [d])) (f : Nat) (w : Int) (ts : Int)
    (le : Item) (its : Array Item) :
    ∃ (w' : Int) (le' : Item) (its' : Array Item),
      run (f + e.steps) .insideTag (Lexer.mk inp q q w false ts le its) =
        run f .insideTag (Lexer.mk inp ((q + e.src.length : Nat) : Int) ((q + e.src.length : Nat) : Int) w' false ts le' its') ∧
      its'.toList = its.toList ++ e.items q := by
  have hd8 : d.toNat < 256 := d.toNat_lt
  have hsz : q + e.src.length < inp.size := by
    have := (h.append.2.cons).1; exact this
  cases e with
  | sp =>
    have hb := (h.cons).2.1
    refine ⟨1, le, its, ?_, ?_⟩
    · exact run_succ (f := f) (show step .insideTag _ = _ from lexInsideTag_sp inp q _ w false ts le its (by simp [Elem.src] at hsz; omega) hb)
    · simp [Elem.items]
  | colon =>
    have hb := (h.cons).2.1
    have hex := (h.append.1).extract
    refine ⟨1, ⟨.tColon, q + 1, (inp.extract q (q + 1)).toList⟩, its.push ⟨.tColon, q + 1, (inp.extract q (q + 1)).toList⟩, ?_, ?_⟩
    · exact run_succ (f := f) (show step .insideTag _ = _ from lexInsideTag_colon inp q w false ts le its (by simp [Elem.src] at hsz; omega) hb)
    · simp only [Elem.src, List.length_cons, List.length_nil, Nat.zero_add] at hex
      simp only [Array.toList_push, Elem.items, hex]
  | word wd =>
    have h' : Holds inp q (wd ++ [d.toNat.toUInt8]) := by rw [toUInt8_toNat]; exact h
    have h0 := (h.append.1) 0 hok.1.1
    simp only [Nat.add_zero] at h0
    have hst : idStart (byteAt inp q) := by rw [h0.2]; exact hok.1.2.1
    refine ⟨1, ⟨wordType wd, q + wd.length, wd⟩, its.push ⟨wordType wd, q + wd.length, wd⟩, ?_, ?_⟩
    · show run (f + 1 + 1) _ _ = _
      rw [run_succ (f := f + 1) (show step .insideTag _ = _ from lexInsideTag_letter inp q _ w false ts le its h0.1 hst)]
      exact run_succ (f := f) (show step .ident _ = _ from lexIdent_word inp q wd d.toNat 1 false ts le its hok (hd rfl) h' hd8)
    · simp [Elem.items]
  | dollar id =>
    have h' : Holds inp q (36 :: id ++ [d.toNat.toUInt8]) := by rw [toUInt8_toNat]; exact h
    have h0 := h.cons
    refine ⟨1, ⟨.tDollarIdent, q + 1 + id.length, 36 :: id⟩, its.push ⟨.tDollarIdent, q + 1 + id.length, 36 :: id⟩, ?_, ?_⟩
    · show run (f + 1 + 1) _ _ = _
      rw [run_succ (f := f + 1) (show step .insideTag _ = _ from
        lexInsideTag_sigil inp q 36 _ w false ts le its h0.1 h0.2.1 (Or.inl rfl))]
      have := lexIdent_dollar' inp q id d.toNat 1 false ts le its hok (hd rfl) h' hd8
      rw [run_succ (f := f) (show step .ident _ = _ from this)]
      simp only [Elem.src, List.length_cons]
      rw [show q + 1 + id.length = q + (id.length + 1) by omega]
    · simp [Elem.items]
  | dotIdent id =>
    have h' : Holds inp q (46 :: id ++ [d.toNat.toUInt8]) := by rw [toUInt8_toNat]; exact h
    have h0 := h.cons
    refine ⟨1, ⟨.tDotIdent, q + 1 + id.length, 46 :: id⟩, its.push ⟨.tDotIdent, q + 1 + id.length, 46 :: id⟩, ?_, ?_⟩
    · show run (f + 1 + 1) _ _ = _
      rw [run_succ (f := f + 1) (show step .insideTag _ = _ from
        lexInsideTag_sigil inp q 46 _ w false ts le its h0.1 h0.2.1 (Or.inr rfl))]
      have := lexIdent_dot inp q id d.toNat 1 false ts le its hok (hd rfl) h' hd8
      rw [run_succ (f := f) (show step .ident _ = _ from this)]
      simp only [Elem.src, List.length_cons]
      rw [show q + 1 + id.length = q + (id.length + 1) by omega]
    · simp [Elem.items]
  | int ds =>
    have h' : Holds inp q (ds ++ [d.toNat.toUInt8]) := by rw [toUInt8_toNat]; exact h
    have h0 := (h.append.1) 0 hok.1
    simp only [Nat.add_zero] at h0
    have hst : digitByte (byteAt inp q) := by rw [h0.2]; exact hok.2.2.1 0 hok.1
    refine ⟨1, ⟨.tInteger, q + ds.length, ds⟩, its.push ⟨.tInteger, q + ds.length, ds⟩, ?_, ?_⟩
    · show run (f + 1 + 1) _ _ = _
      rw [run_succ (f := f + 1) (show step .insideTag _ = _ from lexInsideTag_digit inp q _ w false ts le its h0.1 hst)]
      exact run_succ (f := f) (show step .number _ = _ from lexNumber_int inp q ds d.toNat 1 false ts le its hok (hd rfl) h' hd8)
    · simp [Elem.items]


def srcEs : List Elem → Bytes
  | [] => []
  | e :: r => e.src ++ srcEs r

def itemsEs : Nat → List Elem → List Item
  | _, [] => []
  | q, e :: r => e.items q ++ itemsEs (q + e.src.length) r

def stepsEs : List Elem → Nat
  | [] => 0
  | e :: r => e.steps + stepsEs r

/-- the byte that follows: the first byte of the next element, or `nb` behind the last one -/
def headEs : List Elem → UInt8 → UInt8
  | [], nb => nb
  | e :: _, _ => e.head

/-- every element is well-formed and those that need it are followed by a delimiter -/
def EsOK : List Elem → UInt8 → Prop
  | [], _ => True
  | e :: r, nb => e.ok ∧ (e.needsDelim = true → delimByte (headEs r nb).toNat) ∧ EsOK r nb

instance : (es : List Elem) → (nb : UInt8) → Decidable (EsOK es nb)
  | [], _ => isTrue trivial
  | e :: r, nb => by
    unfold EsOK
    have := instDecidableEsOK r nb
    infer_instance

theorem srcEs_head (es : List Elem) (nb : UInt8) (h : EsOK es nb) : ∃ tl, srcEs es ++ [nb] = headEs es nb :: tl := by
  cases es with
  | nil => exact ⟨[], rfl⟩
  | cons e r =>
    obtain ⟨tl, htl⟩ := e.src_head h.1
    exact ⟨tl ++ (srcEs r ++ [nb]), by simp [srcEs, headEs, htl]⟩

/-- a list of elements, from `lexInsideTag` to `lexInsideTag` -/
theorem es_run {inp : Array UInt8} (nb : UInt8) (ts : Int) : ∀ (es : List Elem) (q : Nat) (f : Nat) (w : Int) (le : Item)
    (its : Array Item), EsOK es nb → Holds inp q (srcEs es ++ [nb]) →
    ∃ (w' : Int) (le' : Item) (its' : Array Item),
      run (f + stepsEs es) .insideTag (Lexer.mk inp q q w false ts le its) =
        run f .insideTag (Lexer.mk inp ((q + (srcEs es).length : Nat) : Int) ((q + (srcEs es).length : Nat) : Int)
          w' false ts le' its') ∧
      its'.toList = its.toList ++ itemsEs q es := by
  intro es
  induction es with
  | nil =>
    intro q f w le its _ _
    exact ⟨w, le, its, by simp [stepsEs, srcEs], by simp [itemsEs]⟩
  | cons e r ih =>
    intro q f w le its hok h
    obtain ⟨tl, htl⟩ := srcEs_head r nb hok.2.2
    have h1 : Holds inp q (e.src ++ [headEs r nb]) := by
      have : Holds inp q ((e.src ++ [headEs r nb]) ++ tl) := by
        simp only [srcEs, List.append_assoc] at h
        rw [htl] at h
        simpa using h
      exact this.append.1
    obtain ⟨w1, le1, its1, hr1, hi1⟩ := elem_run e hok.1 hok.2.1 h1 (f + stepsEs r) w ts le its
    have h2 : Holds inp (q + e.src.length) (srcEs r ++ [nb]) := by
      simp only [srcEs, List.append_assoc] at h
      exact h.append.2
    obtain ⟨w2, le2, its2, hr2, hi2⟩ := ih (q + e.src.length) f w1 le1 its1 hok.2.2 h2
    refine ⟨w2, le2, its2, ?_, ?_⟩
    · rw [show f + stepsEs (e :: r) = f + stepsEs r + e.steps by simp [stepsEs]; omega, hr1, hr2]
      simp only [srcEs, List.length_append, Nat.add_assoc]
    · rw [hi2, hi1]; simp [itemsEs]

/-! ## tags -/

inductive Tag where
  /-- `{` elements `}` or `{` elements `/}` -/
  | open (es : List Elem) (selfClose : Bool)
  /-- `{/w}` -/
  | close (w : Bytes)
  deriving Repr, DecidableEq

def closeBytes (sc : Bool) : Bytes := if sc then [47, 125] else [125]

def Tag.src : Tag → Bytes
  | .open es sc => 123 :: (srcEs es ++ closeBytes sc)
  | .close w => 123 :: 47 :: (w ++ [125])

/-- the item type of `/w` -/
def closeType (w : Bytes) : ItemType := (Gen.builtinIdents.lookup (47 :: w)).getD .tInvalid

/-- the items of a tag whose `{` is at `q` -/
def Tag.items (q : Nat) : Tag → List Item
  | .open es sc =>
    ⟨.tLeftDelim, q + 1, [123]⟩ :: (itemsEs (q + 1) es ++
      [if sc then ⟨.tRightDelimEnd, q + 1 + (srcEs es).length + 2, [47, 125]⟩
       else ⟨.tRightDelim, q + 1 + (srcEs es).length + 1, [125]⟩])
  | .close w =>
    [⟨.tLeftDelim, q + 1, [123]⟩, ⟨closeType w, q + 2 + w.length, 47 :: w⟩, ⟨.tRightDelim, q + 3 + w.length, [125]⟩]

def Tag.steps : Tag → Nat
  | .open es _ => stepsEs es + 4
  | .close _ => 5

def closeOK (w : Bytes) : Prop :=
  (∀ i, i < w.length → idByte (w.getD i 0).toNat) ∧ (Gen.builtinIdents.lookup (47 :: w)).isSome = true ∧
    closeType w ≠ .tLiteral ∧ closeType w ≠ .tCss

instance (w : Bytes) : Decidable (closeOK w) := by unfold closeOK; infer_instance

def Tag.ok : Tag → Prop
  | .open es sc => es ≠ [] ∧ EsOK es (if sc then 47 else 125)
  | .close w => closeOK w

instance (g : Tag) : Decidable g.ok := by cases g <;> (unfold Tag.ok; infer_instance)

/-- `lexBeginTag` before a byte other than `/` and `\` -/
theorem lexBeginTag_plain (inp : Array UInt8) (q : Nat) (s w : Int) (dd : Bool) (ts : Int) (le : Item) (its : Array Item)
    (hq : q < inp.size) (hc : byteAt inp q < 128) (h1 : byteAt inp q ≠ 47) (h2 : byteAt inp q ≠ 92) :
    lexBeginTag (Lexer.mk inp q s w dd ts le its) = some (some .insideTag, Lexer.mk inp q s 1 dd ts le its) := by
  unfold lexBeginTag Lexer.peek
  simp only [bind, Option.bind]
  rw [next_mk inp q s w dd ts le its (byteAt inp q) hq rfl hc]
  simp only [pure, backup_mk]
  rw [if_neg (by omega)]

theorem lexBeginTag_slash (inp : Array UInt8) (q : Nat) (s w : Int) (dd : Bool) (ts : Int) (le : Item) (its : Array Item)
    (hq : q < inp.size) (h1 : byteAt inp q = 47) :
    lexBeginTag (Lexer.mk inp q s w dd ts le its) = some (some .ident, Lexer.mk inp q s 1 dd ts le its) := by
  unfold lexBeginTag Lexer.peek
  simp only [bind, Option.bind]
  rw [next_mk inp q s w dd ts le its 47 hq h1 (by omega)]
  simp only [pure, backup_mk, Int.cast_ofNat_Int, true_or, if_true]

/-- `lexLeftDelim` on a single `{` (the byte behind it is not `{`) -/
theorem lexLeftDelim_mk' (inp : Array UInt8) (q : Nat) (w : Int) (dd : Bool) (ts : Int) (le : Item) (its : Array Item)
    (hq : q + 1 < inp.size) (hb0 : byteAt inp q = 123) (hc : byteAt inp (q + 1) < 128) (hb1 : byteAt inp (q + 1) ≠ 123) :
    lexLeftDelim (Lexer.mk inp q q w dd ts le its) =
      some (some .beginTag, Lexer.mk inp ((q + 1 : Nat) : Int) ((q + 1 : Nat) : Int) 1 false q
        ⟨.tLeftDelim, q + 1, (inp.extract q (q + 1)).toList⟩
        (its.push ⟨.tLeftDelim, q + 1, (inp.extract q (q + 1)).toList⟩)) := by
  unfold lexLeftDelim
  simp only [bind, Option.bind]
  rw [next_mk inp q q w dd q le its 123 (by omega) hb0 (by omega)]
  simp only
  rw [next_mk inp (q + 1) q 1 dd q le its (byteAt inp (q + 1)) (by omega) rfl hc]
  simp only
  rw [if_neg (by omega), backup_mk]
  simp only
  rw [emit_mk inp q (q + 1) 1 false q le its .tLeftDelim (by omega) (by omega)]
  rfl

/-- `lexIdent` on `/w` (a closing command) followed by `}` -/
theorem lexIdent_end (inp : Array UInt8) (q : Nat) (wd : Bytes) (w : Int) (dd : Bool) (ts : Int) (le : Item)
    (its : Array Item) (hok : closeOK wd) (h : Holds inp q (47 :: wd ++ [125])) :
    lexIdent (Lexer.mk inp q q w dd ts le its) =
      some (some .insideTag, Lexer.mk inp ((q + 1 + wd.length : Nat) : Int) ((q + 1 + wd.length : Nat) : Int) 1 dd ts
        ⟨closeType wd, q + 1 + wd.length, 47 :: wd⟩ (its.push ⟨closeType wd, q + 1 + wd.length, 47 :: wd⟩)) := by
  have hfull := (show Holds inp q ((47 :: wd) ++ [125]) from h).append.1
  obtain ⟨hq0, hb0, h1⟩ := h.cons
  obtain ⟨hw, hdl⟩ := h1.append
  obtain ⟨hdq, hdb, _⟩ := hdl.cons
  obtain ⟨hbytes, hsome, hnl, hnc⟩ := hok
  have hex := hfull.extract
  simp only [List.length_cons] at hex
  rw [show q + (wd.length + 1) = q + 1 + wd.length by omega] at hex
  unfold lexIdent
  simp only [bind, Option.bind]
  rw [next_mk inp q q w dd ts le its 47 (by omega) hb0 (by omega)]
  simp only [Int.cast_ofNat_Int, show ¬ ((47 : Int) = 46) by decide, show ¬ ((47 : Int) = 36) by decide, if_false, if_true]
  unfold lexIdentRest
  simp only [bind, Option.bind]
  rw [scanWhile_alnum inp q dd ts le its 125 (by decide) wd.length (q + 1) 1 (by omega)
    (fun i hi => by rw [(hw i hi).2]; exact hbytes i hi) hdb]
  simp only [backup_mk]
  rw [sliceOf_nat inp q (q + 1 + wd.length) (by omega) (by omega), hex]
  simp only
  cases hlk : Gen.builtinIdents.lookup (47 :: wd) with
  | none => rw [hlk] at hsome; exact absurd hsome (by simp)
  | some t =>
    have hwt : closeType wd = t := by simp [closeType, hlk]
    simp only
    rw [emit_mk inp q (q + 1 + wd.length) 1 dd ts le its t (by omega) (by omega), hex]
    simp only
    rw [hwt] at hnl hnc
    rw [if_neg hnl, if_neg hnc, hwt]
    rfl

/-- a whole tag: from `lexLeftDelim` at its `{` back to `lexText` behind it -/
theorem tag_run' (g : Tag) {inp : Array UInt8} {q : Nat} (hok : g.ok) (h : Holds inp q g.src) (f : Nat) (w : Int) (dd : Bool)
    (ts : Int) (le : Item) (its : Array Item) :
    ∃ (w' : Int) (dd' : Bool) (ts' : Int) (le' : Item) (its' : Array Item),
      run (f + g.steps) .leftDelim (Lexer.mk inp q q w dd ts le its) =
        run f .text (Lexer.mk inp ((q + g.src.length : Nat) : Int) ((q + g.src.length : Nat) : Int) w' dd' ts' le' its') ∧
      its'.toList = its.toList ++ g.items q := by
  cases g with
  | close wd =>
    obtain ⟨hq0, hb0, h1⟩ := h.cons
    have h1' : Holds inp (q + 1) (47 :: wd ++ [125]) := h1
    obtain ⟨hq1, hb1, h2⟩ := h1.cons
    obtain ⟨hw, hcl⟩ := h2.append
    obtain ⟨hq2, hb2, _⟩ := hcl.cons
    have hld := (show Holds inp q ([123] ++ (47 :: (wd ++ [125]))) from h).append.1.extract
    have hrd := hcl.extract
    simp only [List.length_cons, List.length_nil, Nat.zero_add] at hld hrd
    rw [show q + 1 + 1 + wd.length = q + 2 + wd.length by omega] at hq2 hb2 hrd
    refine ⟨1, false, q, ⟨.tRightDelim, q + 3 + wd.length, [125]⟩,
      ((its.push ⟨.tLeftDelim, q + 1, [123]⟩).push ⟨closeType wd, q + 2 + wd.length, 47 :: wd⟩).push
        ⟨.tRightDelim, q + 3 + wd.length, [125]⟩, ?_, ?_⟩
    · show run (f + 1 + 1 + 1 + 1 + 1) _ _ = _
      rw [run_succ (f := f + 4) (show step .leftDelim _ = _ from
        lexLeftDelim_mk' inp q w dd ts le its (by omega) hb0 (by rw [hb1]; decide) (by rw [hb1]; decide))]
      rw [run_succ (f := f + 3) (show step .beginTag _ = _ from lexBeginTag_slash inp (q + 1) _ _ _ _ _ _ (by omega) hb1)]
      rw [run_succ (f := f + 2) (show step .ident _ = _ from lexIdent_end inp (q + 1) wd 1 false q _ _ hok h1')]
      rw [show q + 1 + 1 + wd.length = q + 2 + wd.length by omega]
      rw [run_succ (f := f + 1) (show step .insideTag _ = _ from lexInsideTag_close inp (q + 2 + wd.length) _ _ _ _ _ _ (by omega) hb2)]
      rw [run_succ (f := f) (show step .rightDelim _ = _ from
        lexRightDelim_mk inp (q + 2 + wd.length) (q + 2 + wd.length + 1) _ _ _ _ (by omega) (by omega))]
      rw [hld, hrd]
      simp only [Tag.src, List.length_cons, List.length_append, List.length_nil]
      rw [show q + 2 + wd.length + 1 = q + 3 + wd.length by omega,
        show q + (wd.length + (0 + 1) + 1 + 1) = q + 3 + wd.length by omega]
    · simp [Tag.items]
  | «open» es sc =>
    obtain ⟨hne, hes⟩ := hok
    obtain ⟨hq0, hb0, h1⟩ := h.cons
    have hld := (show Holds inp q ([123] ++ (srcEs es ++ closeBytes sc)) from h).append.1.extract
    simp only [List.length_cons, List.length_nil, Nat.zero_add] at hld
    -- the first byte behind `{` is the head of the first element
    obtain ⟨e0, r0, rfl⟩ : ∃ e0 r0, es = e0 :: r0 := by
      cases es with
      | nil => exact absurd rfl hne
      | cons a b => exact ⟨a, b, rfl⟩
    obtain ⟨tl0, htl0⟩ := e0.src_head hes.1
    have hhead : byteAt inp (q + 1) = e0.head.toNat := by
      have := h1 0 (by simp [srcEs, htl0])
      simpa [srcEs, htl0] using this.2
    have hheadfacts : e0.head.toNat < 128 ∧ e0.head.toNat ≠ 47 ∧ e0.head.toNat ≠ 92 ∧ e0.head.toNat ≠ 123 := by
      have hk := hes.1
      cases e0 with
      | sp => decide
      | colon => decide
      | dollar _ => simp only [Elem.head]; decide
      | dotIdent _ => simp only [Elem.head]; decide
      | word wd =>
        have := hk.1.2.1
        unfold idStart at this
        simp only [Elem.head]; omega
      | int ds =>
        have := hk.2.2.1 0 hk.1
        unfold digitByte at this
        simp only [Elem.head]; omega
    cases sc with
    | false =>
      have h1' : Holds inp (q + 1) (srcEs (e0 :: r0) ++ [125]) := h1
      obtain ⟨w1, le1, its1, hr1, hi1⟩ := es_run (inp := inp) 125 q (e0 :: r0) (q + 1) (f + 2) 1
        ⟨.tLeftDelim, q + 1, [123]⟩ (its.push ⟨.tLeftDelim, q + 1, [123]⟩) hes h1'
      obtain ⟨hq2, hb2, _⟩ := (h1'.append.2).cons
      have hrd := (h1'.append.2).extract
      simp only [List.length_cons, List.length_nil, Nat.zero_add] at hrd
      refine ⟨1, false, q, ⟨.tRightDelim, q + 1 + (srcEs (e0 :: r0)).length + 1, [125]⟩,
        its1.push ⟨.tRightDelim, q + 1 + (srcEs (e0 :: r0)).length + 1, [125]⟩, ?_, ?_⟩
      · show run (f + (stepsEs (e0 :: r0) + 4)) _ _ = _
        rw [show f + (stepsEs (e0 :: r0) + 4) = (f + 2 + stepsEs (e0 :: r0) + 1) + 1 by omega]
        rw [run_succ (show step .leftDelim _ = _ from
          lexLeftDelim_mk' inp q w dd ts le its (by omega) hb0 (by rw [hhead]; omega) (by rw [hhead]; omega))]
        rw [run_succ (show step .beginTag _ = _ from
          lexBeginTag_plain inp (q + 1) _ _ _ _ _ _ (by omega) (by rw [hhead]; omega) (by rw [hhead]; omega) (by rw [hhead]; omega))]
        rw [hld, hr1]
        rw [run_succ (f := f + 1) (show step .insideTag _ = _ from
          lexInsideTag_close inp (q + 1 + (srcEs (e0 :: r0)).length) _ _ _ _ _ _ hq2 hb2)]
        rw [run_succ (f := f) (show step .rightDelim _ = _ from
          lexRightDelim_mk inp (q + 1 + (srcEs (e0 :: r0)).length) (q + 1 + (srcEs (e0 :: r0)).length + 1) _ _ _ _
            (by omega) (by omega))]
        rw [hrd]
        simp only [Tag.src, closeBytes, Bool.false_eq_true, if_false, List.length_cons, List.length_append, List.length_nil]
        rw [show q + ((srcEs (e0 :: r0)).length + (0 + 1) + 1) = q + 1 + (srcEs (e0 :: r0)).length + 1 by omega]
      · simp [Tag.items, hi1]
    | true =>
      have h1' : Holds inp (q + 1) (srcEs (e0 :: r0) ++ [47, 125]) := h1
      have h1'' : Holds inp (q + 1) ((srcEs (e0 :: r0) ++ [47]) ++ [125]) := by simpa using h1'
      obtain ⟨w1, le1, its1, hr1, hi1⟩ := es_run (inp := inp) 47 q (e0 :: r0) (q + 1) (f + 2) 1
        ⟨.tLeftDelim, q + 1, [123]⟩ (its.push ⟨.tLeftDelim, q + 1, [123]⟩) hes h1''.append.1
      obtain ⟨hq2, hb2, h3⟩ := (h1'.append.2).cons
      obtain ⟨hq3, hb3, _⟩ := h3.cons
      have hrd := (h1'.append.2).extract
      simp only [List.length_cons, List.length_nil, Nat.zero_add] at hrd
      refine ⟨1, false, q, ⟨.tRightDelimEnd, q + 1 + (srcEs (e0 :: r0)).length + 2, [47, 125]⟩,
        its1.push ⟨.tRightDelimEnd, q + 1 + (srcEs (e0 :: r0)).length + 2, [47, 125]⟩, ?_, ?_⟩
      · show run (f + (stepsEs (e0 :: r0) + 4)) _ _ = _
        rw [show f + (stepsEs (e0 :: r0) + 4) = (f + 2 + stepsEs (e0 :: r0) + 1) + 1 by omega]
        rw [run_succ (show step .leftDelim _ = _ from
          lexLeftDelim_mk' inp q w dd ts le its (by omega) hb0 (by rw [hhead]; omega) (by rw [hhead]; omega))]
        rw [run_succ (show step .beginTag _ = _ from
          lexBeginTag_plain inp (q + 1) _ _ _ _ _ _ (by omega) (by rw [hhead]; omega) (by rw [hhead]; omega) (by rw [hhead]; omega))]
        rw [hld, hr1]
        rw [run_succ (f := f + 1) (show step .insideTag _ = _ from
          lexInsideTag_slash inp (q + 1 + (srcEs (e0 :: r0)).length) _ _ _ _ _ _ (by omega) hb2 hb3)]
        rw [run_succ (f := f) (show step .rightDelimEnd _ = _ from
          lexRightDelimEnd_mk inp (q + 1 + (srcEs (e0 :: r0)).length) (q + 1 + (srcEs (e0 :: r0)).length + 1) _ _ _ _
            (by omega) hq3 hb3)]
        rw [show q + 1 + (srcEs (e0 :: r0)).length + 1 + 1 = q + 1 + (srcEs (e0 :: r0)).length + 2 by omega, hrd]
        simp only [Tag.src, closeBytes, if_true, List.length_cons, List.length_append, List.length_nil]
        rw [show q + ((srcEs (e0 :: r0)).length + (0 + 1 + 1) + 1) = q + 1 + (srcEs (e0 :: r0)).length + 2 by omega]
      · simp [Tag.items, hi1]


/-! ## segments: a text run (possibly empty) and the tag behind it -/

abbrev Seg := Bytes × Tag

def srcSegs : List Seg → Bytes
  | [] => []
  | s :: r => s.1 ++ s.2.src ++ srcSegs r

def itemsSegs : Nat → List Seg → List Item
  | _, [] => []
  | q, s :: r =>
    textItem s.1 (q + s.1.length) ++ s.2.items (q + s.1.length) ++ itemsSegs (q + s.1.length + s.2.src.length) r

def stepsSegs : List Seg → Nat
  | [] => 0
  | s :: r => 1 + s.2.steps + stepsSegs r

/-- a text run of the family: empty, or `textOK` -/
def txtOK (t : Bytes) : Prop := t = [] ∨ textOK t

instance (t : Bytes) : Decidable (txtOK t) := by unfold txtOK; infer_instance

def SegOK (s : Seg) : Prop := txtOK s.1 ∧ s.2.ok

theorem Tag.src_head (g : Tag) : ∃ tl, g.src = 123 :: tl := by
  cases g with
  | «open» es sc => exact ⟨_, rfl⟩
  | close w => exact ⟨_, rfl⟩

/-- one segment: `lexText` sends the text, the tag's state functions send its items -/
theorem seg_run' {inp : Array UInt8} {q : Nat} (s : Seg) {post : Bytes} (hok : SegOK s)
    (h : Holds inp q (s.1 ++ (s.2.src ++ post))) (f : Nat) (w : Int) (dd : Bool) (ts : Int) (le : Item) (its : Array Item) :
    ∃ (w' : Int) (dd' : Bool) (ts' : Int) (le' : Item) (its' : Array Item),
      run (f + (1 + s.2.steps)) .text (Lexer.mk inp q q w dd ts le its) =
        run f .text (Lexer.mk inp ((q + s.1.length + s.2.src.length : Nat) : Int) ((q + s.1.length + s.2.src.length : Nat) : Int)
          w' dd' ts' le' its') ∧
      its'.toList = its.toList ++ textItem s.1 (q + s.1.length) ++ s.2.items (q + s.1.length) := by
  obtain ⟨t, g⟩ := s
  obtain ⟨ht, hg⟩ := hok
  simp only at ht hg h ⊢
  obtain ⟨ht', hrest⟩ := h.append
  obtain ⟨hgs, _⟩ := hrest.append
  obtain ⟨tl, htl⟩ := g.src_head
  have hb : byteAt inp (q + t.length) = 123 ∧ q + t.length < inp.size := by
    have := hgs 0 (by rw [htl]; simp)
    rw [htl] at this
    simpa using this.symm
  obtain ⟨w1, dd1, ts1, le1, its1, hlx, hits1⟩ := lexText_text_open inp q t.length w dd ts le its hb.2
    (text_bytes ht' ht (Or.inr (by omega))) hb.1
  obtain ⟨w2, dd2, ts2, le2, its2, hrun, hits2⟩ := tag_run' g hg hgs f w1 dd1 ts1 le1 its1
  refine ⟨w2, dd2, ts2, le2, its2, ?_, ?_⟩
  · rw [show f + (1 + g.steps) = (f + g.steps) + 1 by omega, run_succ (show step .text _ = _ from hlx), hrun]
  · rw [hits2, hits1, textItems_holds ht']

/-- the lexer on a list of segments and a trailing text -/
theorem lex_segs {inp : Array UInt8} : ∀ (segs : List Seg) (tr : Bytes) (q : Nat) (w : Int) (dd : Bool) (ts : Int) (le : Item)
    (its : Array Item) (fuel : Nat), (∀ s ∈ segs, SegOK s) → txtOK tr → Holds inp q (srcSegs segs ++ tr) →
    inp.size = q + (srcSegs segs ++ tr).length → stepsSegs segs + 1 ≤ fuel →
    run fuel .text (Lexer.mk inp q q w dd ts le its) =
      .items (its.toList ++ (itemsSegs q segs ++ (textItem tr (q + (srcSegs segs).length + tr.length) ++
        [⟨.tEOF, q + (srcSegs segs).length + tr.length, []⟩]))) := by
  intro segs
  induction segs with
  | nil =>
    intro tr q w dd ts le its fuel _ htr hh hsz hf
    obtain ⟨f, rfl⟩ : ∃ f, fuel = f + 1 := ⟨fuel - 1, by omega⟩
    simp only [srcSegs, List.nil_append, List.length_nil, Nat.add_zero] at hh hsz ⊢
    have hb0 := byteAt_beyond (inp := inp) (i := q + tr.length) (by omega)
    obtain ⟨lf, h1, h2⟩ := lexText_text_eof inp q tr.length w dd ts le its hsz.symm
      (text_bytes hh htr (Or.inr (by omega)))
    rw [run_end (show step .text _ = _ from h1), h2, textItems_holds hh]
    simp [itemsSegs]
  | cons s r ih =>
    intro tr q w dd ts le its fuel hok htr hh hsz hf
    simp only [stepsSegs] at hf
    obtain ⟨f, rfl⟩ : ∃ f, fuel = f + (1 + s.2.steps) := ⟨fuel - (1 + s.2.steps), by omega⟩
    have hh' : Holds inp q (s.1 ++ (s.2.src ++ (srcSegs r ++ tr))) := by
      simpa [srcSegs, List.append_assoc] using hh
    obtain ⟨w', dd', ts', le', its', hrun, hits⟩ := seg_run' s (hok s (by simp)) hh' f w dd ts le its
    rw [hrun]
    have hr : Holds inp (q + s.1.length + s.2.src.length) (srcSegs r ++ tr) := by
      have := hh'.append.2.append.2
      exact this
    rw [ih tr (q + s.1.length + s.2.src.length) w' dd' ts' le' its' f (fun x hx => hok x (by simp [hx])) htr hr
      (by rw [hsz]; simp [srcSegs]; omega) (by omega), hits]
    simp only [itemsSegs, srcSegs, List.length_append, List.append_assoc]
    rw [show q + s.1.length + s.2.src.length + (srcSegs r).length + tr.length =
      q + (s.1.length + (s.2.src.length + (srcSegs r).length)) + tr.length by omega]

theorem stepsEs_le : ∀ (es : List Elem) (nb : UInt8), EsOK es nb → stepsEs es ≤ 2 * (srcEs es).length
  | [], _, _ => by simp [stepsEs]
  | e :: r, nb, h => by
    have := stepsEs_le r nb h.2.2
    obtain ⟨tl, htl⟩ := e.src_head h.1
    have h2 : e.steps ≤ 2 := by cases e <;> simp [Elem.steps]
    simp only [stepsEs, srcEs, List.length_append, htl, List.length_cons]
    omega

theorem steps_le (g : Tag) (h : g.ok) : 1 + g.steps ≤ 7 * g.src.length := by
  cases g with
  | close w => simp [Tag.steps, Tag.src]; omega
  | «open» es sc =>
    have := stepsEs_le es _ h.2
    cases sc <;> (simp [Tag.steps, Tag.src, closeBytes]; omega)

theorem stepsSegs_le : ∀ (segs : List Seg), (∀ s ∈ segs, SegOK s) → stepsSegs segs ≤ 7 * (srcSegs segs).length
  | [], _ => by simp [stepsSegs]
  | s :: r, h => by
    have := stepsSegs_le r (fun x hx => h x (by simp [hx]))
    have := steps_le s.2 (h s (by simp)).2
    simp only [stepsSegs, srcSegs, List.length_append]
    omega

/-- **lexer**: the items of a source that is a list of segments and a trailing text -/
theorem lexAll_segs (segs : List Seg) (tr : Bytes) (hok : ∀ s ∈ segs, SegOK s) (htr : txtOK tr) :
    lexAll (srcSegs segs ++ tr) false =
      .items (itemsSegs 0 segs ++ (textItem tr ((srcSegs segs).length + tr.length) ++
        [⟨.tEOF, (srcSegs segs).length + tr.length, []⟩])) := by
  unfold lexAll Lex.fuelFor initLexer
  simp only [Bool.false_eq_true, if_false]
  have := lex_segs (inp := (srcSegs segs ++ tr).toArray) segs tr 0 0 false 0 Item.zero #[]
    (7 * (srcSegs segs ++ tr).length + 8) hok htr
    (by intro i hi
        refine ⟨by simpa using hi, ?_⟩
        unfold byteAt
        simp [Array.getD_eq_getD_getElem?, List.getD_eq_getElem?_getD])
    (by simp) (by have := stepsSegs_le segs hok; simp only [List.length_append]; omega)
  simpa using this

end SoyVerif.Props.C05c
