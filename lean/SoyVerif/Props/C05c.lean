/-
  C05 (completeness at source level): WHICH sources are accepted, and with WHICH tree.

  `parse_source_total` / `no_panic` (C05parse) say that `parse.SoyFile` always answers; they say
  nothing about what is accepted.  This file states the converse direction for a structured,
  unbounded family of template bodies: text, print tags `{$id}` and the nested block commands

      {if e}…{elseif e}…{else}…{/if}      {foreach $x in e}…{ifempty}…{/foreach}
      {let $x: e /}                        {let $x}…{/let}
      {switch e}{case e}…{default}…{/switch}   (no text between `{switch}` and the first case)
      {call .t}{param k: e /}…{/call}     {call .t /}     {call .t data="all" /}     (no text between the params)

  (`e` a variable `$id` or an integer literal).  For every well-formed tree (`Blk`),
  `block_source_spec`:  `lexAll (srcOf b) false = .items (itemsOf b)` and
  `parseSource pf (srcOf b) = .ok (nodesOf b)` — the AST with every position the real parser assigns.

  Layers:
  * lexer — tags as lists of elements (`Elem`: keyword / identifier, `$id`, `.id`, `:`, `=`, integer,
    double-quoted string, one space), every element evaluated exactly through the state functions; a source is a list of
    segments (text run, tag) (`lex_segs`);
  * trees — `Cmd` / `Blk` / `IfTail`, flattened into segments (`segsCmd`, `initBlk`);
  * parser — `itemList` until an end-token set and every command's parse function on the stream
    view of the state (C15b), by mutual induction over the tree.
-/
import SoyVerif.Props.C15c

namespace SoyVerif.Props.C05c
open SoyVerif SoyVerif.Model SoyVerif.Model.Parser SoyVerif.Model.FileParser SoyVerif.Lemmas.ParserSafe
open SoyVerif.Spec SoyVerif.Props.C15b SoyVerif.Props.C15c
open Lex

/-! ## lexer: the elements of a tag -/

/-- a byte that ends an identifier / number inside a tag: space, `}`, `:`, `=` -/
def delimByte (d : Nat) : Prop := d = 32 ∨ d = 125 ∨ d = 58 ∨ d = 61

instance (d : Nat) : Decidable (delimByte d) := by unfold delimByte; infer_instance

theorem alnum_delim {d : Nat} (h : delimByte d) : isAlphaNumeric (d : Int) = false := by
  have hd : d < 128 := by unfold delimByte at h; omega
  have := alnum_ascii ⟨d, hd⟩
  simp only at this
  rw [this]
  unfold delimByte at h
  simp only [decide_eq_false_iff_not]
  omega

/-- `scanWhile isAlphaNumeric` over `k` identifier bytes up to a delimiter -/
theorem scanWhile_alnum (inp : Array UInt8) (s : Int) (dd : Bool) (ts : Int) (le : Item) (its : Array Item) (d : Nat)
    (hd : delimByte d) :
    ∀ (k q : Nat) (w : Int), q + k < inp.size → (∀ i, i < k → idByte (byteAt inp (q + i))) → byteAt inp (q + k) = d →
    scanWhile isAlphaNumeric isAlphaNumeric_eof (Lexer.mk inp q s w dd ts le its) =
      some ((d : Int), Lexer.mk inp ((q + k + 1 : Nat) : Int) s 1 dd ts le its) := by
  have hd128 : d < 128 := by unfold delimByte at hd; omega
  intro k
  induction k with
  | zero =>
    intro q w hq _ hb
    rw [scanWhile_some (next_mk inp q s w dd ts le its d (by omega) hb hd128)]
    simp only [alnum_delim hd, Bool.false_eq_true, if_false, Nat.add_zero]
  | succ k ih =>
    intro q w hq hid hb
    have h0 := hid 0 (by omega)
    have hc : byteAt inp q < 128 := by unfold idByte at h0; simp only [Nat.add_zero] at h0; omega
    rw [scanWhile_some (next_mk inp q s w dd ts le its (byteAt inp q) (by omega) rfl hc)]
    simp only [Nat.add_zero] at h0
    rw [alnum_idByte h0, if_pos rfl, ih (q + 1) 1 (by omega) (fun i hi => by
      have := hid (i + 1) (by omega)
      rw [show q + 1 + i = q + (i + 1) by omega]; exact this) (by rw [show q + 1 + k = q + (k + 1) by omega]; exact hb)]
    rw [show q + 1 + k + 1 = q + (k + 1) + 1 by omega]

/-- one space inside a tag is skipped -/
theorem lexInsideTag_sp (inp : Array UInt8) (q : Nat) (s w : Int) (dd : Bool) (ts : Int) (le : Item) (its : Array Item)
    (hq : q < inp.size) (hb : byteAt inp q = 32) :
    lexInsideTag (Lexer.mk inp q s w dd ts le its) =
      some (some .insideTag, Lexer.mk inp ((q + 1 : Nat) : Int) ((q + 1 : Nat) : Int) 1 dd ts le its) := by
  unfold lexInsideTag
  simp only [bind, Option.bind]
  rw [next_mk inp q s w dd ts le its 32 hq hb (by omega)]
  simp only [Int.cast_ofNat_Int, show isSpaceEOL (32 : Int) = true by decide, if_true, pure, Lexer.ignore]

theorem letter_facts {c : Nat} (h : idStart c) : isLetterOrUnderscore (c : Int) = true := by
  unfold idStart at h
  simp only [isLetterOrUnderscore, Bool.or_eq_true, Bool.and_eq_true, decide_eq_true_eq, beq_iff_eq]
  omega

/-- `lexInsideTagMid` / `lexInsideTagRest` on a letter or underscore: an identifier begins -/
theorem lexInsideTagMid_letter (r : Int) (l : Lexer) (h : (65 ≤ r ∧ r ≤ 90) ∨ (97 ≤ r ∧ r ≤ 122) ∨ r = 95) :
    lexInsideTagMid r l = some (some .ident, l.backup) := by
  unfold lexInsideTagMid
  rw [if_neg (by omega), if_neg (by omega), if_neg (by omega), if_neg (by omega), if_neg (by omega), if_neg (by omega),
    if_neg (by omega), if_neg (by omega), if_neg (by omega), if_neg (by omega)]
  unfold lexInsideTagRest
  rw [if_neg (by omega), if_neg (by omega), if_neg (by simp only [eof]; omega), if_neg (by omega)]
  have : isLetterOrUnderscore r = true := by
    simp only [isLetterOrUnderscore, Bool.or_eq_true, Bool.and_eq_true, decide_eq_true_eq, beq_iff_eq]
    omega
  rw [if_pos this]
  rfl

theorem lexInsideTag_letter (inp : Array UInt8) (q : Nat) (s w : Int) (dd : Bool) (ts : Int) (le : Item) (its : Array Item)
    (hq : q < inp.size) (hb : idStart (byteAt inp q)) :
    lexInsideTag (Lexer.mk inp q s w dd ts le its) = some (some .ident, Lexer.mk inp q s 1 dd ts le its) := by
  have hc : byteAt inp q < 128 := by unfold idStart at hb; omega
  unfold lexInsideTag
  simp only [bind, Option.bind]
  rw [next_mk inp q s w dd ts le its (byteAt inp q) hq rfl hc]
  simp only
  unfold idStart at hb
  have hsp : isSpaceEOL ((byteAt inp q : Nat) : Int) = false := by
    simp only [Lex.isSpaceEOL, Lex.isSpace, Lex.isEndOfLine, Bool.or_eq_false_iff, beq_eq_false_iff_ne, ne_eq]
    omega
  rw [hsp]
  simp only [Bool.false_eq_true, if_false]
  rw [if_neg (by omega), lexInsideTagMid_letter _ _ (by omega), backup_mk]


/-- the item type of a word inside a tag: a builtin identifier, or Ident -/
def wordType (w : Bytes) : ItemType := (Gen.builtinIdents.lookup w).getD .tIdent

/-- a keyword or plain identifier: `[A-Za-z_][A-Za-z0-9_]*`, not `literal` / `css` (whose tags are
    lexed differently) -/
def wordOK (w : Bytes) : Prop := idOK w ∧ wordType w ≠ .tLiteral ∧ wordType w ≠ .tCss

instance (w : Bytes) : Decidable (wordOK w) := by unfold wordOK; infer_instance

/-- `lexIdent` on a word that begins at `q` (the pending token starts there) and is followed by a
    delimiter -/
theorem lexIdent_word (inp : Array UInt8) (q : Nat) (wd : Bytes) (d : Nat) (w : Int) (dd : Bool) (ts : Int) (le : Item)
    (its : Array Item) (hok : wordOK wd) (hd : delimByte d) (h : Holds inp q (wd ++ [d.toUInt8])) (hd8 : d < 256) :
    lexIdent (Lexer.mk inp q q w dd ts le its) =
      some (some .insideTag, Lexer.mk inp ((q + wd.length : Nat) : Int) ((q + wd.length : Nat) : Int) 1 dd ts
        ⟨wordType wd, q + wd.length, wd⟩ (its.push ⟨wordType wd, q + wd.length, wd⟩)) := by
  obtain ⟨hw, hdl⟩ := h.append
  obtain ⟨hdq, hdb, _⟩ := hdl.cons
  have hdb' : byteAt inp (q + wd.length) = d := by rw [hdb]; simp [Nat.mod_eq_of_lt hd8]
  obtain ⟨⟨hlen, hstart, hbytes⟩, hnl, hnc⟩ := hok
  have h0 := (hw 0 hlen)
  simp only [Nat.add_zero] at h0
  have hst : idStart (byteAt inp q) := by rw [h0.2]; exact hstart
  have hc : byteAt inp q < 128 := by unfold idStart at hst; omega
  unfold lexIdent
  simp only [bind, Option.bind]
  rw [next_mk inp q q w dd ts le its (byteAt inp q) (by omega) rfl hc]
  simp only
  unfold idStart at hst
  rw [if_neg (by omega), if_neg (by omega), if_neg (by omega), if_neg (by omega), if_neg (by omega)]
  unfold lexIdentRest
  simp only [bind, Option.bind]
  rw [scanWhile_alnum inp q dd ts le its d hd (wd.length - 1) (q + 1) 1 (by omega)
    (fun i hi => by
      have := hw (i + 1) (by omega)
      rw [show q + 1 + i = q + (i + 1) by omega, this.2]; exact hbytes (i + 1) (by omega))
    (by rw [show q + 1 + (wd.length - 1) = q + wd.length by omega]; exact hdb')]
  rw [show q + 1 + (wd.length - 1) + 1 = q + wd.length + 1 by omega]
  simp only [backup_mk]
  rw [sliceOf_nat inp q (q + wd.length) (by omega) (by omega), hw.extract]
  simp only
  cases hlk : Gen.builtinIdents.lookup wd with
  | none =>
    have hwt : wordType wd = .tIdent := by simp [wordType, hlk]
    simp only
    rw [if_neg (by decide)]
    unfold emitInside
    simp only [bind, Option.bind]
    rw [emit_mk inp q (q + wd.length) 1 dd ts le its .tIdent (by omega) (by omega), hw.extract, hwt]
    rfl
  | some t =>
    have hwt : wordType wd = t := by simp [wordType, hlk]
    simp only
    rw [emit_mk inp q (q + wd.length) 1 dd ts le its t (by omega) (by omega), hw.extract]
    simp only
    rw [hwt] at hnl hnc
    rw [if_neg hnl, if_neg hnc, hwt]
    rfl

theorem lookup_dot (w : Bytes) : Gen.builtinIdents.lookup (46 :: w) = none := by
  have h : ∀ p ∈ Gen.builtinIdents, p.1.head? ≠ some 46 := by decide
  generalize Gen.builtinIdents = tbl at h
  induction tbl with
  | nil => rfl
  | cons p r ih =>
    obtain ⟨k, v⟩ := p
    have hk := h (k, v) (by simp)
    have hne : ((46 :: w : Bytes) == k) = false := by
      apply beq_false_of_ne
      intro e; rw [← e] at hk; simp at hk
    simp only [List.lookup, hne]
    exact ih (fun p hp => h p (by simp [hp]))

/-- `lexIdent` on `$id` followed by a delimiter -/
theorem lexIdent_dollar' (inp : Array UInt8) (q : Nat) (id : Bytes) (d : Nat) (w : Int) (dd : Bool) (ts : Int) (le : Item)
    (its : Array Item) (hok : idOK id) (hd : delimByte d) (h : Holds inp q (36 :: id ++ [d.toUInt8])) (hd8 : d < 256) :
    lexIdent (Lexer.mk inp q q w dd ts le its) =
      some (some .insideTag, Lexer.mk inp ((q + 1 + id.length : Nat) : Int) ((q + 1 + id.length : Nat) : Int) 1 dd ts
        ⟨.tDollarIdent, q + 1 + id.length, 36 :: id⟩ (its.push ⟨.tDollarIdent, q + 1 + id.length, 36 :: id⟩)) := by
  have hfull := (show Holds inp q ((36 :: id) ++ [d.toUInt8]) from h).append.1
  obtain ⟨hq0, hb0, h1⟩ := h.cons
  obtain ⟨hw, hdl⟩ := h1.append
  obtain ⟨hdq, hdb, _⟩ := hdl.cons
  have hdb' : byteAt inp (q + 1 + id.length) = d := by rw [hdb]; simp [Nat.mod_eq_of_lt hd8]
  obtain ⟨hlen, hstart, hbytes⟩ := hok
  have h0 := (hw 0 hlen)
  simp only [Nat.add_zero] at h0
  have hst : idStart (byteAt inp (q + 1)) := by rw [h0.2]; exact hstart
  have hc : byteAt inp (q + 1) < 128 := by unfold idStart at hst; omega
  have hex := hfull.extract
  simp only [List.length_cons] at hex
  rw [show q + (id.length + 1) = q + 1 + id.length by omega] at hex
  unfold lexIdent Lexer.peek
  simp only [bind, Option.bind]
  rw [next_mk inp q q w dd ts le its 36 (by omega) hb0 (by omega)]
  simp only [Int.cast_ofNat_Int, show ¬ ((36 : Int) = 46) by decide, if_false, if_true]
  rw [next_mk inp (q + 1) q 1 dd ts le its (byteAt inp (q + 1)) (by omega) rfl hc]
  simp only [pure, backup_mk]
  rw [if_neg (letter_idStart hst)]
  unfold lexIdentRest
  simp only [bind, Option.bind]
  rw [scanWhile_alnum inp q dd ts le its d hd id.length (q + 1) 1 (by omega)
    (fun i hi => by rw [(hw i hi).2]; exact hbytes i hi) hdb']
  simp only [backup_mk]
  rw [sliceOf_nat inp q (q + 1 + id.length) (by omega) (by omega), hex]
  simp only [lookup_dollar]
  rw [if_neg (by decide)]
  unfold emitInside
  simp only [bind, Option.bind]
  rw [emit_mk inp q (q + 1 + id.length) 1 dd ts le its .tDollarIdent (by omega) (by omega), hex]
  rfl

/-- `lexIdent` on `.id` followed by a delimiter -/
theorem lexIdent_dot (inp : Array UInt8) (q : Nat) (id : Bytes) (d : Nat) (w : Int) (dd : Bool) (ts : Int) (le : Item)
    (its : Array Item) (hok : idOK id) (hd : delimByte d) (h : Holds inp q (46 :: id ++ [d.toUInt8])) (hd8 : d < 256) :
    lexIdent (Lexer.mk inp q q w dd ts le its) =
      some (some .insideTag, Lexer.mk inp ((q + 1 + id.length : Nat) : Int) ((q + 1 + id.length : Nat) : Int) 1 dd ts
        ⟨.tDotIdent, q + 1 + id.length, 46 :: id⟩ (its.push ⟨.tDotIdent, q + 1 + id.length, 46 :: id⟩)) := by
  have hfull := (show Holds inp q ((46 :: id) ++ [d.toUInt8]) from h).append.1
  obtain ⟨hq0, hb0, h1⟩ := h.cons
  obtain ⟨hw, hdl⟩ := h1.append
  obtain ⟨hdq, hdb, _⟩ := hdl.cons
  have hdb' : byteAt inp (q + 1 + id.length) = d := by rw [hdb]; simp [Nat.mod_eq_of_lt hd8]
  obtain ⟨hlen, hstart, hbytes⟩ := hok
  have h0 := (hw 0 hlen)
  simp only [Nat.add_zero] at h0
  have hst : idStart (byteAt inp (q + 1)) := by rw [h0.2]; exact hstart
  have hc : byteAt inp (q + 1) < 128 := by unfold idStart at hst; omega
  have hex := hfull.extract
  simp only [List.length_cons] at hex
  rw [show q + (id.length + 1) = q + 1 + id.length by omega] at hex
  unfold lexIdent
  simp only [bind, Option.bind]
  rw [next_mk inp q q w dd ts le its 46 (by omega) hb0 (by omega)]
  simp only [Int.cast_ofNat_Int, if_true]
  rw [next_mk inp (q + 1) q 1 dd ts le its (byteAt inp (q + 1)) (by omega) rfl hc]
  simp only [backup_mk]
  have hdig : isDigit ((byteAt inp (q + 1) : Nat) : Int) = false := by
    unfold idStart at hst
    simp only [isDigit, Bool.and_eq_false_iff, decide_eq_false_iff_not]
    omega
  rw [hdig]
  simp only [Bool.false_eq_true, if_false]
  have hlet : ((byteAt inp (q + 1) : Nat) : Int) = 95 ∨ isLetterU ((byteAt inp (q + 1) : Nat) : Int) = true := by
    have := letter_idStart hst
    by_cases h95 : ((byteAt inp (q + 1) : Nat) : Int) = 95
    · exact Or.inl h95
    · right
      cases hl : isLetterU ((byteAt inp (q + 1) : Nat) : Int) with
      | true => rfl
      | false => exact absurd ⟨h95, by simp [hl]⟩ this
  rw [if_pos hlet]
  unfold lexIdentRest
  simp only [bind, Option.bind]
  rw [scanWhile_alnum inp q dd ts le its d hd id.length (q + 1) 1 (by omega)
    (fun i hi => by rw [(hw i hi).2]; exact hbytes i hi) hdb']
  simp only [backup_mk]
  rw [sliceOf_nat inp q (q + 1 + id.length) (by omega) (by omega), hex]
  simp only [lookup_dot]
  rw [if_neg (by decide)]
  unfold emitInside
  simp only [bind, Option.bind]
  rw [emit_mk inp q (q + 1 + id.length) 1 dd ts le its .tDotIdent (by omega) (by omega), hex]
  rfl

/-- `lexInsideTag` at `$` or `.`: an identifier begins -/
theorem lexInsideTag_sigil (inp : Array UInt8) (q : Nat) (c : Nat) (s w : Int) (dd : Bool) (ts : Int) (le : Item)
    (its : Array Item) (hq : q < inp.size) (hb : byteAt inp q = c) (hc : c = 36 ∨ c = 46) :
    lexInsideTag (Lexer.mk inp q s w dd ts le its) = some (some .ident, Lexer.mk inp q s 1 dd ts le its) := by
  unfold lexInsideTag
  simp only [bind, Option.bind]
  rw [next_mk inp q s w dd ts le its c hq hb (by omega)]
  simp only
  have hsp : isSpaceEOL ((c : Nat) : Int) = false := by
    simp only [Lex.isSpaceEOL, Lex.isSpace, Lex.isEndOfLine, Bool.or_eq_false_iff, beq_eq_false_iff_ne, ne_eq]
    omega
  rw [hsp]
  simp only [Bool.false_eq_true, if_false]
  rw [if_neg (by omega)]
  unfold lexInsideTagMid
  rw [if_pos (by omega)]
  simp only [pure, backup_mk]

/-- `:` inside a tag -/
theorem lexInsideTag_colon (inp : Array UInt8) (q : Nat) (w : Int) (dd : Bool) (ts : Int) (le : Item)
    (its : Array Item) (hq : q < inp.size) (hb : byteAt inp q = 58) :
    lexInsideTag (Lexer.mk inp q q w dd ts le its) =
      some (some .insideTag, Lexer.mk inp ((q + 1 : Nat) : Int) ((q + 1 : Nat) : Int) 1 dd ts
        ⟨.tColon, q + 1, (inp.extract q (q + 1)).toList⟩ (its.push ⟨.tColon, q + 1, (inp.extract q (q + 1)).toList⟩)) := by
  unfold lexInsideTag
  simp only [bind, Option.bind]
  rw [next_mk inp q q w dd ts le its 58 hq hb (by omega)]
  simp only [Int.cast_ofNat_Int, show isSpaceEOL (58 : Int) = false by decide, Bool.false_eq_true, if_false,
    show ¬ ((58 : Int) = 47) by decide]
  unfold lexInsideTagMid
  rw [if_neg (by decide), if_neg (by decide), if_neg (by decide), if_neg (by decide), if_neg (by decide), if_neg (by decide),
    if_neg (by decide), if_pos (by decide)]
  unfold emitInside
  simp only [bind, Option.bind]
  rw [emit_mk inp q (q + 1) 1 dd ts le its _ (by omega) (by omega)]
  rfl

/-- `/}` closes a tag: `lexInsideTag` sees the `/` with `}` behind it … -/
theorem lexInsideTag_slash (inp : Array UInt8) (q : Nat) (s w : Int) (dd : Bool) (ts : Int) (le : Item)
    (its : Array Item) (hq : q + 1 < inp.size) (hb : byteAt inp q = 47) (hb1 : byteAt inp (q + 1) = 125) :
    lexInsideTag (Lexer.mk inp q s w dd ts le its) =
      some (some .rightDelimEnd, Lexer.mk inp ((q + 1 : Nat) : Int) s 1 dd ts le its) := by
  unfold lexInsideTag Lexer.peek
  simp only [bind, Option.bind]
  rw [next_mk inp q s w dd ts le its 47 (by omega) hb (by omega)]
  simp only [Int.cast_ofNat_Int, show isSpaceEOL (47 : Int) = false by decide, Bool.false_eq_true, if_false, if_true]
  rw [next_mk inp (q + 1) s 1 dd ts le its 125 (by omega) hb1 (by omega)]
  simp only [Int.cast_ofNat_Int, pure, backup_mk, if_true]

/-- … and `lexRightDelimEnd` sends the RightDelimEnd item -/
theorem lexRightDelimEnd_mk (inp : Array UInt8) (a q : Nat) (w : Int) (ts : Int) (le : Item) (its : Array Item)
    (h1 : a ≤ q) (hq : q < inp.size) (hb : byteAt inp q = 125) :
    lexRightDelimEnd (Lexer.mk inp q a w false ts le its) =
      some (some .text, Lexer.mk inp ((q + 1 : Nat) : Int) ((q + 1 : Nat) : Int) 1 false ts
        ⟨.tRightDelimEnd, q + 1, (inp.extract a (q + 1)).toList⟩
        (its.push ⟨.tRightDelimEnd, q + 1, (inp.extract a (q + 1)).toList⟩)) := by
  unfold lexRightDelimEnd badDoubleClose
  simp only [bind, Option.bind]
  rw [next_mk inp q a w false ts le its 125 hq hb (by omega)]
  simp only [Bool.false_eq_true, if_false, pure]
  rw [emit_mk inp a (q + 1) 1 false ts le its .tRightDelimEnd (by omega) (by omega)]


/-! ### integer literals: `lexNumber` / `scanNumber` on a run of decimal digits -/

def digitByte (c : Nat) : Prop := 48 ≤ c ∧ c ≤ 57

instance (c : Nat) : Decidable (digitByte c) := by unfold digitByte; infer_instance

/-- a decimal integer literal as the lexer accepts it: digits, no leading zero, at most 18 of them
    (so the value fits `int64`) -/
def intOK (ds : Bytes) : Prop :=
  0 < ds.length ∧ ds.length ≤ 18 ∧ (∀ i, i < ds.length → digitByte (ds.getD i 0).toNat) ∧
    (1 < ds.length → (ds.getD 0 0).toNat ≠ 48)

instance (ds : Bytes) : Decidable (intOK ds) := by unfold intOK; infer_instance

theorem indexRune_ascii (valid : List Int) : ∀ n : Fin 128, indexRune valid (n.val : Int) = valid.contains (n.val : Int) := by
  intro n; simp [indexRune]

theorem indexRune_dec : ∀ n : Fin 128, indexRune Lex.decDigits (n.val : Int) = decide (48 ≤ n.val ∧ n.val ≤ 57) := by
  decide +kernel

theorem indexRune_dec_digit {c : Nat} (h : digitByte c) : indexRune Lex.decDigits (c : Int) = true := by
  unfold digitByte at h
  have := indexRune_dec ⟨c, by omega⟩
  simp only at this
  rw [this]; exact decide_eq_true h

theorem indexRune_delim {d : Nat} (h : delimByte d) (valid : List Int)
    (hv : valid = Lex.decDigits ∨ valid = [43, 45] ∨ valid = [46] ∨ valid = [101]) : indexRune valid (d : Int) = false := by
  unfold delimByte at h
  rcases h with rfl | rfl | rfl | rfl <;> rcases hv with rfl | rfl | rfl | rfl <;> decide

theorem accept_no {l l' : Lexer} {c : Int} {valid : List Int} (hn : l.next = some (c, l')) (hi : indexRune valid c = false) :
    accept l valid = some (false, l'.backup) := by
  unfold accept
  simp only [bind, Option.bind, hn, hi, Bool.false_eq_true, if_false, pure]

/-- `scanWhile (indexRune Lex.decDigits)` over `k` digits up to a delimiter -/
theorem scanWhile_digits (inp : Array UInt8) (s : Int) (dd : Bool) (ts : Int) (le : Item) (its : Array Item) (d : Nat)
    (hd : delimByte d) :
    ∀ (k q : Nat) (w : Int), q + k < inp.size → (∀ i, i < k → digitByte (byteAt inp (q + i))) → byteAt inp (q + k) = d →
    scanWhile (indexRune Lex.decDigits) (indexRune_eof Lex.decDigits) (Lexer.mk inp q s w dd ts le its) =
      some ((d : Int), Lexer.mk inp ((q + k + 1 : Nat) : Int) s 1 dd ts le its) := by
  have hd128 : d < 128 := by unfold delimByte at hd; omega
  intro k
  induction k with
  | zero =>
    intro q w hq _ hb
    rw [scanWhile_some (next_mk inp q s w dd ts le its d (by omega) hb hd128)]
    rw [indexRune_delim hd Lex.decDigits (Or.inl rfl)]
    simp only [Bool.false_eq_true, if_false, Nat.add_zero]
  | succ k ih =>
    intro q w hq hid hb
    have h0 := hid 0 (by omega)
    simp only [Nat.add_zero] at h0
    have hc : byteAt inp q < 128 := by unfold digitByte at h0; omega
    rw [scanWhile_some (next_mk inp q s w dd ts le its (byteAt inp q) (by omega) rfl hc)]
    rw [indexRune_dec_digit h0, if_pos rfl, ih (q + 1) 1 (by omega) (fun i hi => by
      have := hid (i + 1) (by omega)
      rw [show q + 1 + i = q + (i + 1) by omega]; exact this) (by rw [show q + 1 + k = q + (k + 1) by omega]; exact hb)]
    rw [show q + 1 + k + 1 = q + (k + 1) + 1 by omega]

theorem extract_two (inp : Array UInt8) (q : Nat) (h : q + 2 ≤ inp.size) :
    (inp.extract q (q + 2)).toList = [inp[q], inp[q + 1]] := by
  apply List.ext_getElem
  · simp; omega
  · intro i h1 h2
    simp only [List.length_cons, List.length_nil] at h2
    have : i = 0 ∨ i = 1 := by omega
    rcases this with rfl | rfl <;> simp

/-- `lexNumber` on an integer literal that begins at `q` and is followed by a delimiter -/
theorem lexNumber_int (inp : Array UInt8) (q : Nat) (ds : Bytes) (d : Nat) (w : Int) (dd : Bool) (ts : Int) (le : Item)
    (its : Array Item) (hok : intOK ds) (hd : delimByte d) (h : Holds inp q (ds ++ [d.toUInt8])) (hd8 : d < 256) :
    lexNumber (Lexer.mk inp q q w dd ts le its) =
      some (some .insideTag, Lexer.mk inp ((q + ds.length : Nat) : Int) ((q + ds.length : Nat) : Int) 1 dd ts
        ⟨.tInteger, q + ds.length, ds⟩ (its.push ⟨.tInteger, q + ds.length, ds⟩)) := by
  obtain ⟨hw, hdl⟩ := h.append
  obtain ⟨hdq, hdb, _⟩ := hdl.cons
  have hdb' : byteAt inp (q + ds.length) = d := by rw [hdb]; simp [Nat.mod_eq_of_lt hd8]
  have hd128 : d < 128 := by unfold delimByte at hd; omega
  obtain ⟨hlen, _, hdig, hlz⟩ := hok
  have hbd : ∀ i, i < ds.length → digitByte (byteAt inp (q + i)) := fun i hi => by rw [(hw i hi).2]; exact hdig i hi
  have h0 := hbd 0 hlen
  simp only [Nat.add_zero] at h0
  have hc : byteAt inp q < 128 := by unfold digitByte at h0; omega
  -- the second byte is a digit or the delimiter: not `x`
  have hb1 : byteAt inp (q + 1) ≠ 120 := by
    by_cases h1 : 1 < ds.length
    · have := hbd 1 h1; unfold digitByte at this; omega
    · have : ds.length = 1 := by omega
      rw [this] at hdb'; rw [hdb']; unfold delimByte at hd; omega
  unfold lexNumber scanNumber
  simp only [bind, Option.bind]
  rw [accept_no (next_mk inp q q w dd ts le its (byteAt inp q) (by omega) rfl hc)
    (by unfold digitByte at h0
        have := indexRune_ascii [43, 45] ⟨byteAt inp q, hc⟩
        simp only at this; rw [this]
        simp only [List.contains_cons, List.contains_nil, Bool.or_false, Bool.or_eq_false_iff, beq_eq_false_iff_ne, ne_eq]
        omega)]
  simp only [backup_mk]
  have hlen2 : (Lexer.mk inp q q 1 dd ts le its).len ≥ (Lexer.mk inp q q 1 dd ts le its).pos + 2 := by
    show (inp.size : Int) ≥ (q : Int) + 2; omega
  rw [if_pos hlen2]
  have hsl : sliceOf inp (q : Int) ((q : Int) + 2) = some (inp.extract q (q + 2)).toList := by
    have := sliceOf_nat inp q (q + 2) (by omega) (by omega)
    rw [← this]; congr 1
  simp only [hsl, pure]
  rw [extract_two inp q (by omega)]
  have hnx : (([inp[q]'(by omega), inp[q + 1]'(by omega)] : Bytes) == [48, 120]) = false := by
    apply beq_false_of_ne
    intro e
    simp only [List.cons.injEq, and_true] at e
    apply hb1
    unfold byteAt
    rw [Array.getD_eq_getD_getElem?, Array.getElem?_eq_getElem (by omega)]
    simp [e.2]
  simp only [hnx, Bool.false_eq_true, if_false]
  unfold acceptRun
  simp only [bind, Option.bind]
  rw [scanWhile_digits inp q dd ts le its d hd ds.length q 1 (by omega) hbd hdb']
  simp only [backup_mk, pure]
  have hgt : decide (((q + ds.length : Nat) : Int) > (q : Int)) = true := by simp; omega
  simp only [hgt, Bool.not_true, Bool.false_eq_true, if_false]
  rw [accept_no (next_mk inp (q + ds.length) q 1 dd ts le its d (by omega) hdb' hd128)
    (indexRune_delim hd [46] (Or.inr (Or.inr (Or.inl rfl))))]
  simp only [backup_mk, Bool.false_eq_true, if_false, Bool.not_false, if_true]
  have hio : indexOf inp (q : Int) = some (inp.getD q 0) := by
    unfold indexOf
    rw [if_pos ⟨by omega, by omega⟩]
    simp
  simp only [hio]
  have hbad : ((inp.getD q 0) == 48 && decide (((q + ds.length : Nat) : Int) > (q : Int) + 1)) = false := by
    by_cases h1 : 1 < ds.length
    · have hz := hlz h1
      have e0 := (hw 0 hlen).2
      simp only [Nat.add_zero] at e0
      have : (inp.getD q 0 == 48) = false := by
        apply beq_false_of_ne
        intro e
        unfold byteAt at e0
        rw [e] at e0
        apply hz; rw [← e0]; rfl
      rw [this, Bool.false_and]
    · have : decide (((q + ds.length : Nat) : Int) > (q : Int) + 1) = false := by simp; omega
      rw [this, Bool.and_false]
  simp only [hbad, Bool.false_eq_true, if_false]
  unfold scanNumberExp
  simp only [bind, Option.bind]
  rw [accept_no (next_mk inp (q + ds.length) q 1 dd ts le its d (by omega) hdb' hd128)
    (indexRune_delim hd [101] (Or.inr (Or.inr (Or.inr rfl))))]
  simp only [backup_mk, Bool.false_eq_true, if_false]
  unfold scanNumberEnd Lexer.peek
  simp only [bind, Option.bind]
  rw [next_mk inp (q + ds.length) q 1 dd ts le its d (by omega) hdb' hd128]
  simp only [pure, backup_mk, alnum_delim hd, Bool.false_eq_true, if_false, Bool.not_true]
  unfold emitInside
  simp only [bind, Option.bind]
  rw [emit_mk inp q (q + ds.length) 1 dd ts le its .tInteger (by omega) (by omega), hw.extract]
  rfl

theorem lexInsideTag_digit (inp : Array UInt8) (q : Nat) (s w : Int) (dd : Bool) (ts : Int) (le : Item) (its : Array Item)
    (hq : q < inp.size) (hb : digitByte (byteAt inp q)) :
    lexInsideTag (Lexer.mk inp q s w dd ts le its) = some (some .number, Lexer.mk inp q s 1 dd ts le its) := by
  unfold digitByte at hb
  unfold lexInsideTag
  simp only [bind, Option.bind]
  rw [next_mk inp q s w dd ts le its (byteAt inp q) hq rfl (by omega)]
  simp only
  have hsp : isSpaceEOL ((byteAt inp q : Nat) : Int) = false := by
    simp only [Lex.isSpaceEOL, Lex.isSpace, Lex.isEndOfLine, Bool.or_eq_false_iff, beq_eq_false_iff_ne, ne_eq]
    omega
  rw [hsp]
  simp only [Bool.false_eq_true, if_false]
  rw [if_neg (by omega)]
  unfold lexInsideTagMid
  rw [if_neg (by omega), if_neg (by omega), if_neg (by omega), if_neg (by omega), if_neg (by omega), if_neg (by omega),
    if_pos (by omega)]
  simp only [pure, backup_mk]



/-! ### `=` and double-quoted strings (attribute values) -/

/-- `=` that is not followed by a second `=` -/
theorem lexInsideTag_eq (inp : Array UInt8) (q : Nat) (w : Int) (dd : Bool) (ts : Int) (le : Item)
    (its : Array Item) (hq : q + 1 < inp.size) (hb : byteAt inp q = 61) (hc : byteAt inp (q + 1) < 128)
    (hne : byteAt inp (q + 1) ≠ 61) :
    lexInsideTag (Lexer.mk inp q q w dd ts le its) =
      some (some .insideTag, Lexer.mk inp ((q + 1 : Nat) : Int) ((q + 1 : Nat) : Int) 1 dd ts
        ⟨.tEquals, q + 1, (inp.extract q (q + 1)).toList⟩ (its.push ⟨.tEquals, q + 1, (inp.extract q (q + 1)).toList⟩)) := by
  unfold lexInsideTag
  simp only [bind, Option.bind]
  rw [next_mk inp q q w dd ts le its 61 (by omega) hb (by omega)]
  simp only [Int.cast_ofNat_Int, show isSpaceEOL (61 : Int) = false by decide, Bool.false_eq_true, if_false,
    show ¬ ((61 : Int) = 47) by decide]
  unfold lexInsideTagMid Lexer.peek
  rw [if_neg (by decide), if_neg (by decide), if_neg (by decide), if_neg (by decide), if_neg (by decide), if_neg (by decide),
    if_neg (by decide), if_neg (by decide), if_neg (by decide), if_pos rfl]
  simp only [bind, Option.bind]
  rw [next_mk inp (q + 1) q 1 dd ts le its (byteAt inp (q + 1)) (by omega) rfl hc]
  simp only [pure, backup_mk]
  rw [if_neg (by omega)]
  unfold lexInsideTagRest
  rw [if_neg (by decide), if_pos rfl]
  unfold emitInside
  simp only [bind, Option.bind]
  rw [emit_mk inp q (q + 1) 1 dd ts le its .tEquals (by omega) (by omega)]
  rfl

/-- `lexInsideTag` at a double quote: the string scanner takes over -/
theorem lexInsideTag_quote (inp : Array UInt8) (q : Nat) (s w : Int) (dd : Bool) (ts : Int) (le : Item)
    (its : Array Item) (hq : q < inp.size) (hb : byteAt inp q = 34) :
    lexInsideTag (Lexer.mk inp q s w dd ts le its) =
      some (some (.str 34), Lexer.mk inp ((q + 1 : Nat) : Int) s 1 dd ts le its) := by
  unfold lexInsideTag
  simp only [bind, Option.bind]
  rw [next_mk inp q s w dd ts le its 34 hq hb (by omega)]
  simp only [Int.cast_ofNat_Int, show isSpaceEOL (34 : Int) = false by decide, Bool.false_eq_true, if_false,
    show ¬ ((34 : Int) = 47) by decide]
  unfold lexInsideTagMid
  rw [if_neg (by decide), if_neg (by decide), if_neg (by decide), if_neg (by decide), if_neg (by decide), if_neg (by decide),
    if_neg (by decide), if_neg (by decide), if_neg (by decide), if_neg (by decide)]
  unfold lexInsideTagRest
  rw [if_pos (Or.inl rfl)]
  rfl

theorem lexString_some {l l1 : Lexer} {r : Int} {quote : Int} (hn : l.next = some (r, l1)) :
    lexString quote l =
      if r = eof then Lex.errorfAt l1 l1.start clsString
      else if r = 92 then
        match l1.next with
        | none => none
        | some (_, l2) => lexString quote l2
      else if r = quote then
        match l1.emit .tString with
        | none => none
        | some l2 => some (some .insideTag, l2)
      else lexString quote l1 := by
  rw [lexString]
  split
  · rename_i h; rw [hn] at h; exact absurd h (by simp)
  · rename_i r' l1' h
    rw [hn] at h
    simp only [Option.some.injEq, Prod.mk.injEq] at h
    obtain ⟨rfl, rfl⟩ := h
    split
    · rfl
    · split
      · split
        · rename_i h2; simp only [h2]
        · rename_i r2 l2 h2; simp only [h2]
      · rfl

/-- the scan of a string body: `k` plain bytes, then the closing `"`; the token began at `a` -/
theorem lexString_body (inp : Array UInt8) (a : Nat) (dd : Bool) (ts : Int) (le : Item) (its : Array Item) :
    ∀ (k q : Nat) (w : Int), q + k < inp.size → a ≤ q →
    (∀ i, i < k → byteAt inp (q + i) < 128 ∧ byteAt inp (q + i) ≠ 34 ∧ byteAt inp (q + i) ≠ 92) → byteAt inp (q + k) = 34 →
    lexString 34 (Lexer.mk inp q a w dd ts le its) =
      some (some .insideTag, Lexer.mk inp ((q + k + 1 : Nat) : Int) ((q + k + 1 : Nat) : Int) 1 dd ts
        ⟨.tString, q + k + 1, (inp.extract a (q + k + 1)).toList⟩
        (its.push ⟨.tString, q + k + 1, (inp.extract a (q + k + 1)).toList⟩)) := by
  intro k
  induction k with
  | zero =>
    intro q w hq ha _ h1
    rw [lexString_some (next_mk inp q a w dd ts le its 34 (by omega) h1 (by omega))]
    simp only [Int.cast_ofNat_Int, eof, show ¬ ((34 : Int) = -1) by decide, show ¬ ((34 : Int) = 92) by decide, if_false,
      if_true]
    rw [emit_mk inp a (q + 1) 1 dd ts le its .tString (by omega) (by omega)]
  | succ k ih =>
    intro q w hq ha hb h1
    obtain ⟨hc, h34, h92⟩ := hb 0 (by omega)
    simp only [Nat.add_zero] at hc h34 h92
    rw [lexString_some (next_mk inp q a w dd ts le its (byteAt inp q) (by omega) rfl hc)]
    rw [if_neg (by simp only [eof]; omega), if_neg (by omega), if_neg (by omega)]
    rw [ih (q + 1) 1 (by omega) (by omega) (fun i hi => by
      have := hb (i + 1) (by omega)
      rw [show q + 1 + i = q + (i + 1) by omega]; exact this)
      (by rw [show q + 1 + k = q + (k + 1) by omega]; exact h1)]
    rw [show q + 1 + k + 1 = q + (k + 1) + 1 by omega]

/-! ## tags as lists of elements -/

/-- what stands between `{` and the closing `}` / `/}` of a tag -/
inductive Elem where
  /-- one space -/
  | sp
  /-- a keyword or a plain identifier (`if`, `foreach`, `in`, …) -/
  | word (w : Bytes)
  /-- `$id` -/
  | dollar (id : Bytes)
  /-- `.id` -/
  | dotIdent (id : Bytes)
  /-- `:` -/
  | colon
  /-- a decimal integer literal -/
  | int (ds : Bytes)
  /-- `=` (between an attribute name and its value) -/
  | eq
  /-- a double-quoted string without escapes: `"body"` -/
  | str (body : Bytes)
  deriving Repr, DecidableEq

def Elem.src : Elem → Bytes
  | .sp => [32]
  | .word w => w
  | .dollar id => 36 :: id
  | .dotIdent id => 46 :: id
  | .colon => [58]
  | .int ds => ds
  | .eq => [61]
  | .str body => 34 :: (body ++ [34])

/-- the item an element that begins at `q` yields (none for a space) -/
def Elem.items (q : Nat) : Elem → List Item
  | .sp => []
  | .word w => [⟨wordType w, q + w.length, w⟩]
  | .dollar id => [⟨.tDollarIdent, q + 1 + id.length, 36 :: id⟩]
  | .dotIdent id => [⟨.tDotIdent, q + 1 + id.length, 46 :: id⟩]
  | .colon => [⟨.tColon, q + 1, [58]⟩]
  | .int ds => [⟨.tInteger, q + ds.length, ds⟩]
  | .eq => [⟨.tEquals, q + 1, [61]⟩]
  | .str body => [⟨.tString, q + 2 + body.length, 34 :: (body ++ [34])⟩]

/-- state functions the lexer runs for the element -/
def Elem.steps : Elem → Nat
  | .sp => 1
  | .colon => 1
  | .eq => 1
  | _ => 2

def Elem.ok : Elem → Prop
  | .sp => True
  | .word w => wordOK w
  | .dollar id => idOK id
  | .dotIdent id => idOK id
  | .colon => True
  | .int ds => intOK ds
  | .eq => True
  | .str body => ∀ i, i < body.length → (body.getD i 0).toNat < 128 ∧ (body.getD i 0).toNat ≠ 34 ∧ (body.getD i 0).toNat ≠ 92

instance (e : Elem) : Decidable e.ok := by cases e <;> (unfold Elem.ok; infer_instance)

/-- what must follow: identifiers and numbers end at a delimiter; `=` is not followed by `=` -/
def Elem.nextOK (e : Elem) (d : UInt8) : Prop :=
  match e with
  | .sp => True
  | .colon => True
  | .str _ => True
  | .eq => d.toNat < 128 ∧ d.toNat ≠ 61
  | _ => delimByte d.toNat

instance (e : Elem) (d : UInt8) : Decidable (e.nextOK d) := by cases e <;> (unfold Elem.nextOK; infer_instance)

/-- first byte of the element -/
def Elem.head : Elem → UInt8
  | .sp => 32
  | .word w => w.getD 0 0
  | .dollar _ => 36
  | .dotIdent _ => 46
  | .colon => 58
  | .int ds => ds.getD 0 0
  | .eq => 61
  | .str _ => 34

theorem Elem.src_head (e : Elem) (h : e.ok) : ∃ tl, e.src = e.head :: tl := by
  cases e with
  | sp => exact ⟨[], rfl⟩
  | word w =>
    cases w with
    | nil => exact absurd h.1.1 (by simp)
    | cons c r => exact ⟨r, rfl⟩
  | dollar id => exact ⟨id, rfl⟩
  | dotIdent id => exact ⟨id, rfl⟩
  | colon => exact ⟨[], rfl⟩
  | int ds =>
    cases ds with
    | nil => exact absurd h.1 (by simp)
    | cons c r => exact ⟨r, rfl⟩
  | eq => exact ⟨[], rfl⟩
  | str body => exact ⟨body ++ [34], rfl⟩

theorem toUInt8_toNat (b : UInt8) : b.toNat.toUInt8 = b := by
  cases b; simp [Nat.toUInt8, UInt8.ofNat, UInt8.toNat]

/-- one element: from `lexInsideTag` at its first byte to `lexInsideTag` behind it -/
theorem elem_run (e : Elem) {inp : Array UInt8} {q : Nat} {d : UInt8} (hok : e.ok)
    (hd : e.nextOK d) (h : Holds inp q (e.src ++ [d])) (f : Nat) (w : Int) (ts : Int)
    (le : Item) (its : Array Item) :
    ∃ (w' : Int) (le' : Item) (its' : Array Item),
      run (f + e.steps) .insideTag (Lexer.mk inp q q w false ts le its) =
        run f .insideTag (Lexer.mk inp ((q + e.src.length : Nat) : Int) ((q + e.src.length : Nat) : Int) w' false ts le' its') ∧
      its'.toList = its.toList ++ e.items q := by
  have hd8 : d.toNat < 256 := d.toNat_lt
  have hsz : q + e.src.length < inp.size := by
    have := (h.append.2.cons).1; exact this
  cases e with
  | sp =>
    have hb := (h.cons).2.1
    refine ⟨1, le, its, ?_, ?_⟩
    · exact run_succ (f := f) (show step .insideTag _ = _ from lexInsideTag_sp inp q _ w false ts le its (by simp [Elem.src] at hsz; omega) hb)
    · simp [Elem.items]
  | colon =>
    have hb := (h.cons).2.1
    have hex := (h.append.1).extract
    refine ⟨1, ⟨.tColon, q + 1, (inp.extract q (q + 1)).toList⟩, its.push ⟨.tColon, q + 1, (inp.extract q (q + 1)).toList⟩, ?_, ?_⟩
    · exact run_succ (f := f) (show step .insideTag _ = _ from lexInsideTag_colon inp q w false ts le its (by simp [Elem.src] at hsz; omega) hb)
    · simp only [Elem.src, List.length_cons, List.length_nil, Nat.zero_add] at hex
      simp only [Array.toList_push, Elem.items, hex]
  | word wd =>
    have h' : Holds inp q (wd ++ [d.toNat.toUInt8]) := by rw [toUInt8_toNat]; exact h
    have h0 := (h.append.1) 0 hok.1.1
    simp only [Nat.add_zero] at h0
    have hst : idStart (byteAt inp q) := by rw [h0.2]; exact hok.1.2.1
    refine ⟨1, ⟨wordType wd, q + wd.length, wd⟩, its.push ⟨wordType wd, q + wd.length, wd⟩, ?_, ?_⟩
    · show run (f + 1 + 1) _ _ = _
      rw [run_succ (f := f + 1) (show step .insideTag _ = _ from lexInsideTag_letter inp q _ w false ts le its h0.1 hst)]
      exact run_succ (f := f) (show step .ident _ = _ from lexIdent_word inp q wd d.toNat 1 false ts le its hok hd h' hd8)
    · simp [Elem.items]
  | dollar id =>
    have h' : Holds inp q (36 :: id ++ [d.toNat.toUInt8]) := by rw [toUInt8_toNat]; exact h
    have h0 := h.cons
    refine ⟨1, ⟨.tDollarIdent, q + 1 + id.length, 36 :: id⟩, its.push ⟨.tDollarIdent, q + 1 + id.length, 36 :: id⟩, ?_, ?_⟩
    · show run (f + 1 + 1) _ _ = _
      rw [run_succ (f := f + 1) (show step .insideTag _ = _ from
        lexInsideTag_sigil inp q 36 _ w false ts le its h0.1 h0.2.1 (Or.inl rfl))]
      have := lexIdent_dollar' inp q id d.toNat 1 false ts le its hok hd h' hd8
      rw [run_succ (f := f) (show step .ident _ = _ from this)]
      simp only [Elem.src, List.length_cons]
      rw [show q + 1 + id.length = q + (id.length + 1) by omega]
    · simp [Elem.items]
  | dotIdent id =>
    have h' : Holds inp q (46 :: id ++ [d.toNat.toUInt8]) := by rw [toUInt8_toNat]; exact h
    have h0 := h.cons
    refine ⟨1, ⟨.tDotIdent, q + 1 + id.length, 46 :: id⟩, its.push ⟨.tDotIdent, q + 1 + id.length, 46 :: id⟩, ?_, ?_⟩
    · show run (f + 1 + 1) _ _ = _
      rw [run_succ (f := f + 1) (show step .insideTag _ = _ from
        lexInsideTag_sigil inp q 46 _ w false ts le its h0.1 h0.2.1 (Or.inr rfl))]
      have := lexIdent_dot inp q id d.toNat 1 false ts le its hok hd h' hd8
      rw [run_succ (f := f) (show step .ident _ = _ from this)]
      simp only [Elem.src, List.length_cons]
      rw [show q + 1 + id.length = q + (id.length + 1) by omega]
    · simp [Elem.items]
  | int ds =>
    have h' : Holds inp q (ds ++ [d.toNat.toUInt8]) := by rw [toUInt8_toNat]; exact h
    have h0 := (h.append.1) 0 hok.1
    simp only [Nat.add_zero] at h0
    have hst : digitByte (byteAt inp q) := by rw [h0.2]; exact hok.2.2.1 0 hok.1
    refine ⟨1, ⟨.tInteger, q + ds.length, ds⟩, its.push ⟨.tInteger, q + ds.length, ds⟩, ?_, ?_⟩
    · show run (f + 1 + 1) _ _ = _
      rw [run_succ (f := f + 1) (show step .insideTag _ = _ from lexInsideTag_digit inp q _ w false ts le its h0.1 hst)]
      exact run_succ (f := f) (show step .number _ = _ from lexNumber_int inp q ds d.toNat 1 false ts le its hok hd h' hd8)
    · simp [Elem.items]
  | eq =>
    obtain ⟨hq0, hb0, h1⟩ := h.cons
    obtain ⟨hq1, hb1, _⟩ := h1.cons
    have hex := (h.append.1).extract
    refine ⟨1, ⟨.tEquals, q + 1, (inp.extract q (q + 1)).toList⟩, its.push ⟨.tEquals, q + 1, (inp.extract q (q + 1)).toList⟩, ?_, ?_⟩
    · exact run_succ (f := f) (show step .insideTag _ = _ from
        lexInsideTag_eq inp q w false ts le its (by omega) hb0 (by rw [hb1]; exact hd.1) (by rw [hb1]; exact hd.2))
    · simp only [Elem.src, List.length_cons, List.length_nil, Nat.zero_add] at hex
      simp only [Array.toList_push, Elem.items, hex]
  | str body =>
    have hfull := h.append.1
    obtain ⟨hq0, hb0, h1⟩ := h.cons
    have h1' : Holds inp (q + 1) (body ++ (34 :: [d])) := by simpa [List.append_assoc] using h1
    obtain ⟨hbd, hcl⟩ := h1'.append
    obtain ⟨hq2, hb2, _⟩ := hcl.cons
    have hex := hfull.extract
    simp only [Elem.src, List.length_cons, List.length_append, List.length_nil] at hex
    rw [show q + (body.length + (0 + 1) + 1) = q + 1 + body.length + 1 by omega] at hex
    refine ⟨1, ⟨.tString, q + 2 + body.length, 34 :: (body ++ [34])⟩,
      its.push ⟨.tString, q + 2 + body.length, 34 :: (body ++ [34])⟩, ?_, ?_⟩
    · show run (f + 1 + 1) _ _ = _
      rw [run_succ (f := f + 1) (show step .insideTag _ = _ from lexInsideTag_quote inp q _ w false ts le its hq0 hb0)]
      have := lexString_body inp q false ts le its body.length (q + 1) 1 (by omega) (by omega)
        (fun i hi => by rw [(hbd i hi).2]; exact hok i hi) hb2
      rw [run_succ (f := f) (show step (.str 34) _ = _ from this), hex]
      simp only [Elem.src, List.length_cons, List.length_append, List.length_nil]
      rw [show q + 1 + body.length + 1 = q + (body.length + (0 + 1) + 1) by omega,
        show q + 2 + body.length = q + (body.length + (0 + 1) + 1) by omega]
    · simp [Elem.items]


def srcEs : List Elem → Bytes
  | [] => []
  | e :: r => e.src ++ srcEs r

def itemsEs : Nat → List Elem → List Item
  | _, [] => []
  | q, e :: r => e.items q ++ itemsEs (q + e.src.length) r

def stepsEs : List Elem → Nat
  | [] => 0
  | e :: r => e.steps + stepsEs r

/-- the byte that follows: the first byte of the next element, or `nb` behind the last one -/
def headEs : List Elem → UInt8 → UInt8
  | [], nb => nb
  | e :: _, _ => e.head

/-- every element is well-formed and those that need it are followed by a delimiter -/
def EsOK : List Elem → UInt8 → Prop
  | [], _ => True
  | e :: r, nb => e.ok ∧ e.nextOK (headEs r nb) ∧ EsOK r nb

instance : (es : List Elem) → (nb : UInt8) → Decidable (EsOK es nb)
  | [], _ => isTrue trivial
  | e :: r, nb => by
    unfold EsOK
    have := instDecidableEsOK r nb
    infer_instance

theorem srcEs_head (es : List Elem) (nb : UInt8) (h : EsOK es nb) : ∃ tl, srcEs es ++ [nb] = headEs es nb :: tl := by
  cases es with
  | nil => exact ⟨[], rfl⟩
  | cons e r =>
    obtain ⟨tl, htl⟩ := e.src_head h.1
    exact ⟨tl ++ (srcEs r ++ [nb]), by simp [srcEs, headEs, htl]⟩

/-- a list of elements, from `lexInsideTag` to `lexInsideTag` -/
theorem es_run {inp : Array UInt8} (nb : UInt8) (ts : Int) : ∀ (es : List Elem) (q : Nat) (f : Nat) (w : Int) (le : Item)
    (its : Array Item), EsOK es nb → Holds inp q (srcEs es ++ [nb]) →
    ∃ (w' : Int) (le' : Item) (its' : Array Item),
      run (f + stepsEs es) .insideTag (Lexer.mk inp q q w false ts le its) =
        run f .insideTag (Lexer.mk inp ((q + (srcEs es).length : Nat) : Int) ((q + (srcEs es).length : Nat) : Int)
          w' false ts le' its') ∧
      its'.toList = its.toList ++ itemsEs q es := by
  intro es
  induction es with
  | nil =>
    intro q f w le its _ _
    exact ⟨w, le, its, by simp [stepsEs, srcEs], by simp [itemsEs]⟩
  | cons e r ih =>
    intro q f w le its hok h
    obtain ⟨tl, htl⟩ := srcEs_head r nb hok.2.2
    have h1 : Holds inp q (e.src ++ [headEs r nb]) := by
      have : Holds inp q ((e.src ++ [headEs r nb]) ++ tl) := by
        simp only [srcEs, List.append_assoc] at h
        rw [htl] at h
        simpa using h
      exact this.append.1
    obtain ⟨w1, le1, its1, hr1, hi1⟩ := elem_run e hok.1 hok.2.1 h1 (f + stepsEs r) w ts le its
    have h2 : Holds inp (q + e.src.length) (srcEs r ++ [nb]) := by
      simp only [srcEs, List.append_assoc] at h
      exact h.append.2
    obtain ⟨w2, le2, its2, hr2, hi2⟩ := ih (q + e.src.length) f w1 le1 its1 hok.2.2 h2
    refine ⟨w2, le2, its2, ?_, ?_⟩
    · rw [show f + stepsEs (e :: r) = f + stepsEs r + e.steps by simp [stepsEs]; omega, hr1, hr2]
      simp only [srcEs, List.length_append, Nat.add_assoc]
    · rw [hi2, hi1]; simp [itemsEs]

/-! ## tags -/

inductive Tag where
  /-- `{` elements `}` or `{` elements `/}` -/
  | open (es : List Elem) (selfClose : Bool)
  /-- `{/w}` -/
  | close (w : Bytes)
  /-- the end of the input (no bytes; the EOF item) -/
  | eof
  deriving Repr, DecidableEq

def closeBytes (sc : Bool) : Bytes := if sc then [47, 125] else [125]

def Tag.src : Tag → Bytes
  | .open es sc => 123 :: (srcEs es ++ closeBytes sc)
  | .close w => 123 :: 47 :: (w ++ [125])
  | .eof => []

/-- the item type of `/w` -/
def closeType (w : Bytes) : ItemType := (Gen.builtinIdents.lookup (47 :: w)).getD .tInvalid

/-- the items of a tag whose `{` is at `q` -/
def Tag.items (q : Nat) : Tag → List Item
  | .open es sc =>
    ⟨.tLeftDelim, q + 1, [123]⟩ :: (itemsEs (q + 1) es ++
      [if sc then ⟨.tRightDelimEnd, q + 1 + (srcEs es).length + 2, [47, 125]⟩
       else ⟨.tRightDelim, q + 1 + (srcEs es).length + 1, [125]⟩])
  | .close w =>
    [⟨.tLeftDelim, q + 1, [123]⟩, ⟨closeType w, q + 2 + w.length, 47 :: w⟩, ⟨.tRightDelim, q + 3 + w.length, [125]⟩]
  | .eof => [⟨.tEOF, q, []⟩]

def Tag.steps : Tag → Nat
  | .open es _ => stepsEs es + 4
  | .close _ => 5
  | .eof => 0

def closeOK (w : Bytes) : Prop :=
  (∀ i, i < w.length → idByte (w.getD i 0).toNat) ∧ (Gen.builtinIdents.lookup (47 :: w)).isSome = true ∧
    closeType w ≠ .tLiteral ∧ closeType w ≠ .tCss

instance (w : Bytes) : Decidable (closeOK w) := by unfold closeOK; infer_instance

def Tag.ok : Tag → Prop
  | .open es sc => es ≠ [] ∧ EsOK es (if sc then 47 else 125)
  | .close w => closeOK w
  | .eof => False

instance (g : Tag) : Decidable g.ok := by cases g <;> (unfold Tag.ok; infer_instance)

/-- `lexBeginTag` before a byte other than `/` and `\` -/
theorem lexBeginTag_plain (inp : Array UInt8) (q : Nat) (s w : Int) (dd : Bool) (ts : Int) (le : Item) (its : Array Item)
    (hq : q < inp.size) (hc : byteAt inp q < 128) (h1 : byteAt inp q ≠ 47) (h2 : byteAt inp q ≠ 92) :
    lexBeginTag (Lexer.mk inp q s w dd ts le its) = some (some .insideTag, Lexer.mk inp q s 1 dd ts le its) := by
  unfold lexBeginTag Lexer.peek
  simp only [bind, Option.bind]
  rw [next_mk inp q s w dd ts le its (byteAt inp q) hq rfl hc]
  simp only [pure, backup_mk]
  rw [if_neg (by omega)]

theorem lexBeginTag_slash (inp : Array UInt8) (q : Nat) (s w : Int) (dd : Bool) (ts : Int) (le : Item) (its : Array Item)
    (hq : q < inp.size) (h1 : byteAt inp q = 47) :
    lexBeginTag (Lexer.mk inp q s w dd ts le its) = some (some .ident, Lexer.mk inp q s 1 dd ts le its) := by
  unfold lexBeginTag Lexer.peek
  simp only [bind, Option.bind]
  rw [next_mk inp q s w dd ts le its 47 hq h1 (by omega)]
  simp only [pure, backup_mk, Int.cast_ofNat_Int, true_or, if_true]

/-- `lexLeftDelim` on a single `{` (the byte behind it is not `{`) -/
theorem lexLeftDelim_mk' (inp : Array UInt8) (q : Nat) (w : Int) (dd : Bool) (ts : Int) (le : Item) (its : Array Item)
    (hq : q + 1 < inp.size) (hb0 : byteAt inp q = 123) (hc : byteAt inp (q + 1) < 128) (hb1 : byteAt inp (q + 1) ≠ 123) :
    lexLeftDelim (Lexer.mk inp q q w dd ts le its) =
      some (some .beginTag, Lexer.mk inp ((q + 1 : Nat) : Int) ((q + 1 : Nat) : Int) 1 false q
        ⟨.tLeftDelim, q + 1, (inp.extract q (q + 1)).toList⟩
        (its.push ⟨.tLeftDelim, q + 1, (inp.extract q (q + 1)).toList⟩)) := by
  unfold lexLeftDelim
  simp only [bind, Option.bind]
  rw [next_mk inp q q w dd q le its 123 (by omega) hb0 (by omega)]
  simp only
  rw [next_mk inp (q + 1) q 1 dd q le its (byteAt inp (q + 1)) (by omega) rfl hc]
  simp only
  rw [if_neg (by omega), backup_mk]
  simp only
  rw [emit_mk inp q (q + 1) 1 false q le its .tLeftDelim (by omega) (by omega)]
  rfl

/-- `lexIdent` on `/w` (a closing command) followed by `}` -/
theorem lexIdent_end (inp : Array UInt8) (q : Nat) (wd : Bytes) (w : Int) (dd : Bool) (ts : Int) (le : Item)
    (its : Array Item) (hok : closeOK wd) (h : Holds inp q (47 :: wd ++ [125])) :
    lexIdent (Lexer.mk inp q q w dd ts le its) =
      some (some .insideTag, Lexer.mk inp ((q + 1 + wd.length : Nat) : Int) ((q + 1 + wd.length : Nat) : Int) 1 dd ts
        ⟨closeType wd, q + 1 + wd.length, 47 :: wd⟩ (its.push ⟨closeType wd, q + 1 + wd.length, 47 :: wd⟩)) := by
  have hfull := (show Holds inp q ((47 :: wd) ++ [125]) from h).append.1
  obtain ⟨hq0, hb0, h1⟩ := h.cons
  obtain ⟨hw, hdl⟩ := h1.append
  obtain ⟨hdq, hdb, _⟩ := hdl.cons
  obtain ⟨hbytes, hsome, hnl, hnc⟩ := hok
  have hex := hfull.extract
  simp only [List.length_cons] at hex
  rw [show q + (wd.length + 1) = q + 1 + wd.length by omega] at hex
  unfold lexIdent
  simp only [bind, Option.bind]
  rw [next_mk inp q q w dd ts le its 47 (by omega) hb0 (by omega)]
  simp only [Int.cast_ofNat_Int, show ¬ ((47 : Int) = 46) by decide, show ¬ ((47 : Int) = 36) by decide, if_false, if_true]
  unfold lexIdentRest
  simp only [bind, Option.bind]
  rw [scanWhile_alnum inp q dd ts le its 125 (by decide) wd.length (q + 1) 1 (by omega)
    (fun i hi => by rw [(hw i hi).2]; exact hbytes i hi) hdb]
  simp only [backup_mk]
  rw [sliceOf_nat inp q (q + 1 + wd.length) (by omega) (by omega), hex]
  simp only
  cases hlk : Gen.builtinIdents.lookup (47 :: wd) with
  | none => rw [hlk] at hsome; exact absurd hsome (by simp)
  | some t =>
    have hwt : closeType wd = t := by simp [closeType, hlk]
    simp only
    rw [emit_mk inp q (q + 1 + wd.length) 1 dd ts le its t (by omega) (by omega), hex]
    simp only
    rw [hwt] at hnl hnc
    rw [if_neg hnl, if_neg hnc, hwt]
    rfl

/-- a whole tag: from `lexLeftDelim` at its `{` back to `lexText` behind it -/
theorem tag_run' (g : Tag) {inp : Array UInt8} {q : Nat} (hok : g.ok) (h : Holds inp q g.src) (f : Nat) (w : Int) (dd : Bool)
    (ts : Int) (le : Item) (its : Array Item) :
    ∃ (w' : Int) (dd' : Bool) (ts' : Int) (le' : Item) (its' : Array Item),
      run (f + g.steps) .leftDelim (Lexer.mk inp q q w dd ts le its) =
        run f .text (Lexer.mk inp ((q + g.src.length : Nat) : Int) ((q + g.src.length : Nat) : Int) w' dd' ts' le' its') ∧
      its'.toList = its.toList ++ g.items q := by
  cases g with
  | eof => exact hok.elim
  | close wd =>
    obtain ⟨hq0, hb0, h1⟩ := h.cons
    have h1' : Holds inp (q + 1) (47 :: wd ++ [125]) := h1
    obtain ⟨hq1, hb1, h2⟩ := h1.cons
    obtain ⟨hw, hcl⟩ := h2.append
    obtain ⟨hq2, hb2, _⟩ := hcl.cons
    have hld := (show Holds inp q ([123] ++ (47 :: (wd ++ [125]))) from h).append.1.extract
    have hrd := hcl.extract
    simp only [List.length_cons, List.length_nil, Nat.zero_add] at hld hrd
    rw [show q + 1 + 1 + wd.length = q + 2 + wd.length by omega] at hq2 hb2 hrd
    refine ⟨1, false, q, ⟨.tRightDelim, q + 3 + wd.length, [125]⟩,
      ((its.push ⟨.tLeftDelim, q + 1, [123]⟩).push ⟨closeType wd, q + 2 + wd.length, 47 :: wd⟩).push
        ⟨.tRightDelim, q + 3 + wd.length, [125]⟩, ?_, ?_⟩
    · show run (f + 1 + 1 + 1 + 1 + 1) _ _ = _
      rw [run_succ (f := f + 4) (show step .leftDelim _ = _ from
        lexLeftDelim_mk' inp q w dd ts le its (by omega) hb0 (by rw [hb1]; decide) (by rw [hb1]; decide))]
      rw [run_succ (f := f + 3) (show step .beginTag _ = _ from lexBeginTag_slash inp (q + 1) _ _ _ _ _ _ (by omega) hb1)]
      rw [run_succ (f := f + 2) (show step .ident _ = _ from lexIdent_end inp (q + 1) wd 1 false q _ _ hok h1')]
      rw [show q + 1 + 1 + wd.length = q + 2 + wd.length by omega]
      rw [run_succ (f := f + 1) (show step .insideTag _ = _ from lexInsideTag_close inp (q + 2 + wd.length) _ _ _ _ _ _ (by omega) hb2)]
      rw [run_succ (f := f) (show step .rightDelim _ = _ from
        lexRightDelim_mk inp (q + 2 + wd.length) (q + 2 + wd.length + 1) _ _ _ _ (by omega) (by omega))]
      rw [hld, hrd]
      simp only [Tag.src, List.length_cons, List.length_append, List.length_nil]
      rw [show q + 2 + wd.length + 1 = q + 3 + wd.length by omega,
        show q + (wd.length + (0 + 1) + 1 + 1) = q + 3 + wd.length by omega]
    · simp [Tag.items]
  | «open» es sc =>
    obtain ⟨hne, hes⟩ := hok
    obtain ⟨hq0, hb0, h1⟩ := h.cons
    have hld := (show Holds inp q ([123] ++ (srcEs es ++ closeBytes sc)) from h).append.1.extract
    simp only [List.length_cons, List.length_nil, Nat.zero_add] at hld
    -- the first byte behind `{` is the head of the first element
    obtain ⟨e0, r0, rfl⟩ : ∃ e0 r0, es = e0 :: r0 := by
      cases es with
      | nil => exact absurd rfl hne
      | cons a b => exact ⟨a, b, rfl⟩
    obtain ⟨tl0, htl0⟩ := e0.src_head hes.1
    have hhead : byteAt inp (q + 1) = e0.head.toNat := by
      have := h1 0 (by simp [srcEs, htl0])
      simpa [srcEs, htl0] using this.2
    have hheadfacts : e0.head.toNat < 128 ∧ e0.head.toNat ≠ 47 ∧ e0.head.toNat ≠ 92 ∧ e0.head.toNat ≠ 123 := by
      have hk := hes.1
      cases e0 with
      | sp => decide
      | colon => decide
      | dollar _ => simp only [Elem.head]; decide
      | dotIdent _ => simp only [Elem.head]; decide
      | word wd =>
        have := hk.1.2.1
        unfold idStart at this
        simp only [Elem.head]; omega
      | int ds =>
        have := hk.2.2.1 0 hk.1
        unfold digitByte at this
        simp only [Elem.head]; omega
      | eq => decide
      | str _ => simp only [Elem.head]; decide
    cases sc with
    | false =>
      have h1' : Holds inp (q + 1) (srcEs (e0 :: r0) ++ [125]) := h1
      obtain ⟨w1, le1, its1, hr1, hi1⟩ := es_run (inp := inp) 125 q (e0 :: r0) (q + 1) (f + 2) 1
        ⟨.tLeftDelim, q + 1, [123]⟩ (its.push ⟨.tLeftDelim, q + 1, [123]⟩) hes h1'
      obtain ⟨hq2, hb2, _⟩ := (h1'.append.2).cons
      have hrd := (h1'.append.2).extract
      simp only [List.length_cons, List.length_nil, Nat.zero_add] at hrd
      refine ⟨1, false, q, ⟨.tRightDelim, q + 1 + (srcEs (e0 :: r0)).length + 1, [125]⟩,
        its1.push ⟨.tRightDelim, q + 1 + (srcEs (e0 :: r0)).length + 1, [125]⟩, ?_, ?_⟩
      · show run (f + (stepsEs (e0 :: r0) + 4)) _ _ = _
        rw [show f + (stepsEs (e0 :: r0) + 4) = (f + 2 + stepsEs (e0 :: r0) + 1) + 1 by omega]
        rw [run_succ (show step .leftDelim _ = _ from
          lexLeftDelim_mk' inp q w dd ts le its (by omega) hb0 (by rw [hhead]; omega) (by rw [hhead]; omega))]
        rw [run_succ (show step .beginTag _ = _ from
          lexBeginTag_plain inp (q + 1) _ _ _ _ _ _ (by omega) (by rw [hhead]; omega) (by rw [hhead]; omega) (by rw [hhead]; omega))]
        rw [hld, hr1]
        rw [run_succ (f := f + 1) (show step .insideTag _ = _ from
          lexInsideTag_close inp (q + 1 + (srcEs (e0 :: r0)).length) _ _ _ _ _ _ hq2 hb2)]
        rw [run_succ (f := f) (show step .rightDelim _ = _ from
          lexRightDelim_mk inp (q + 1 + (srcEs (e0 :: r0)).length) (q + 1 + (srcEs (e0 :: r0)).length + 1) _ _ _ _
            (by omega) (by omega))]
        rw [hrd]
        simp only [Tag.src, closeBytes, Bool.false_eq_true, if_false, List.length_cons, List.length_append, List.length_nil]
        rw [show q + ((srcEs (e0 :: r0)).length + (0 + 1) + 1) = q + 1 + (srcEs (e0 :: r0)).length + 1 by omega]
      · simp [Tag.items, hi1]
    | true =>
      have h1' : Holds inp (q + 1) (srcEs (e0 :: r0) ++ [47, 125]) := h1
      have h1'' : Holds inp (q + 1) ((srcEs (e0 :: r0) ++ [47]) ++ [125]) := by simpa using h1'
      obtain ⟨w1, le1, its1, hr1, hi1⟩ := es_run (inp := inp) 47 q (e0 :: r0) (q + 1) (f + 2) 1
        ⟨.tLeftDelim, q + 1, [123]⟩ (its.push ⟨.tLeftDelim, q + 1, [123]⟩) hes h1''.append.1
      obtain ⟨hq2, hb2, h3⟩ := (h1'.append.2).cons
      obtain ⟨hq3, hb3, _⟩ := h3.cons
      have hrd := (h1'.append.2).extract
      simp only [List.length_cons, List.length_nil, Nat.zero_add] at hrd
      refine ⟨1, false, q, ⟨.tRightDelimEnd, q + 1 + (srcEs (e0 :: r0)).length + 2, [47, 125]⟩,
        its1.push ⟨.tRightDelimEnd, q + 1 + (srcEs (e0 :: r0)).length + 2, [47, 125]⟩, ?_, ?_⟩
      · show run (f + (stepsEs (e0 :: r0) + 4)) _ _ = _
        rw [show f + (stepsEs (e0 :: r0) + 4) = (f + 2 + stepsEs (e0 :: r0) + 1) + 1 by omega]
        rw [run_succ (show step .leftDelim _ = _ from
          lexLeftDelim_mk' inp q w dd ts le its (by omega) hb0 (by rw [hhead]; omega) (by rw [hhead]; omega))]
        rw [run_succ (show step .beginTag _ = _ from
          lexBeginTag_plain inp (q + 1) _ _ _ _ _ _ (by omega) (by rw [hhead]; omega) (by rw [hhead]; omega) (by rw [hhead]; omega))]
        rw [hld, hr1]
        rw [run_succ (f := f + 1) (show step .insideTag _ = _ from
          lexInsideTag_slash inp (q + 1 + (srcEs (e0 :: r0)).length) _ _ _ _ _ _ (by omega) hb2 hb3)]
        rw [run_succ (f := f) (show step .rightDelimEnd _ = _ from
          lexRightDelimEnd_mk inp (q + 1 + (srcEs (e0 :: r0)).length) (q + 1 + (srcEs (e0 :: r0)).length + 1) _ _ _ _
            (by omega) hq3 hb3)]
        rw [show q + 1 + (srcEs (e0 :: r0)).length + 1 + 1 = q + 1 + (srcEs (e0 :: r0)).length + 2 by omega, hrd]
        simp only [Tag.src, closeBytes, if_true, List.length_cons, List.length_append, List.length_nil]
        rw [show q + ((srcEs (e0 :: r0)).length + (0 + 1 + 1) + 1) = q + 1 + (srcEs (e0 :: r0)).length + 2 by omega]
      · simp [Tag.items, hi1]


/-! ## segments: a text run (possibly empty) and the tag behind it -/

abbrev Seg := Bytes × Tag

def srcSegs : List Seg → Bytes
  | [] => []
  | s :: r => s.1 ++ s.2.src ++ srcSegs r

def itemsSegs : Nat → List Seg → List Item
  | _, [] => []
  | q, s :: r =>
    textItem s.1 (q + s.1.length) ++ s.2.items (q + s.1.length) ++ itemsSegs (q + s.1.length + s.2.src.length) r

def stepsSegs : List Seg → Nat
  | [] => 0
  | s :: r => 1 + s.2.steps + stepsSegs r

/-- a text run of the family: empty, or `textOK` -/
def txtOK (t : Bytes) : Prop := t = [] ∨ textOK t

instance (t : Bytes) : Decidable (txtOK t) := by unfold txtOK; infer_instance

def SegOK (s : Seg) : Prop := txtOK s.1 ∧ s.2.ok

theorem Tag.src_head (g : Tag) (h : g.ok) : ∃ tl, g.src = 123 :: tl := by
  cases g with
  | «open» es sc => exact ⟨_, rfl⟩
  | close w => exact ⟨_, rfl⟩
  | eof => exact h.elim

/-- one segment: `lexText` sends the text, the tag's state functions send its items -/
theorem seg_run' {inp : Array UInt8} {q : Nat} (s : Seg) {post : Bytes} (hok : SegOK s)
    (h : Holds inp q (s.1 ++ (s.2.src ++ post))) (f : Nat) (w : Int) (dd : Bool) (ts : Int) (le : Item) (its : Array Item) :
    ∃ (w' : Int) (dd' : Bool) (ts' : Int) (le' : Item) (its' : Array Item),
      run (f + (1 + s.2.steps)) .text (Lexer.mk inp q q w dd ts le its) =
        run f .text (Lexer.mk inp ((q + s.1.length + s.2.src.length : Nat) : Int) ((q + s.1.length + s.2.src.length : Nat) : Int)
          w' dd' ts' le' its') ∧
      its'.toList = its.toList ++ textItem s.1 (q + s.1.length) ++ s.2.items (q + s.1.length) := by
  obtain ⟨t, g⟩ := s
  obtain ⟨ht, hg⟩ := hok
  simp only at ht hg h ⊢
  obtain ⟨ht', hrest⟩ := h.append
  obtain ⟨hgs, _⟩ := hrest.append
  obtain ⟨tl, htl⟩ := g.src_head hg
  have hb : byteAt inp (q + t.length) = 123 ∧ q + t.length < inp.size := by
    have := hgs 0 (by rw [htl]; simp)
    rw [htl] at this
    simpa using this.symm
  obtain ⟨w1, dd1, ts1, le1, its1, hlx, hits1⟩ := lexText_text_open inp q t.length w dd ts le its hb.2
    (text_bytes ht' ht (Or.inr (by omega))) hb.1
  obtain ⟨w2, dd2, ts2, le2, its2, hrun, hits2⟩ := tag_run' g hg hgs f w1 dd1 ts1 le1 its1
  refine ⟨w2, dd2, ts2, le2, its2, ?_, ?_⟩
  · rw [show f + (1 + g.steps) = (f + g.steps) + 1 by omega, run_succ (show step .text _ = _ from hlx), hrun]
  · rw [hits2, hits1, textItems_holds ht']

/-- the lexer on a list of segments and a trailing text -/
theorem lex_segs {inp : Array UInt8} : ∀ (segs : List Seg) (tr : Bytes) (q : Nat) (w : Int) (dd : Bool) (ts : Int) (le : Item)
    (its : Array Item) (fuel : Nat), (∀ s ∈ segs, SegOK s) → txtOK tr → Holds inp q (srcSegs segs ++ tr) →
    inp.size = q + (srcSegs segs ++ tr).length → stepsSegs segs + 1 ≤ fuel →
    run fuel .text (Lexer.mk inp q q w dd ts le its) =
      .items (its.toList ++ (itemsSegs q segs ++ (textItem tr (q + (srcSegs segs).length + tr.length) ++
        [⟨.tEOF, q + (srcSegs segs).length + tr.length, []⟩]))) := by
  intro segs
  induction segs with
  | nil =>
    intro tr q w dd ts le its fuel _ htr hh hsz hf
    obtain ⟨f, rfl⟩ : ∃ f, fuel = f + 1 := ⟨fuel - 1, by omega⟩
    simp only [srcSegs, List.nil_append, List.length_nil, Nat.add_zero] at hh hsz ⊢
    have hb0 := byteAt_beyond (inp := inp) (i := q + tr.length) (by omega)
    obtain ⟨lf, h1, h2⟩ := lexText_text_eof inp q tr.length w dd ts le its hsz.symm
      (text_bytes hh htr (Or.inr (by omega)))
    rw [run_end (show step .text _ = _ from h1), h2, textItems_holds hh]
    simp [itemsSegs]
  | cons s r ih =>
    intro tr q w dd ts le its fuel hok htr hh hsz hf
    simp only [stepsSegs] at hf
    obtain ⟨f, rfl⟩ : ∃ f, fuel = f + (1 + s.2.steps) := ⟨fuel - (1 + s.2.steps), by omega⟩
    have hh' : Holds inp q (s.1 ++ (s.2.src ++ (srcSegs r ++ tr))) := by
      simpa [srcSegs, List.append_assoc] using hh
    obtain ⟨w', dd', ts', le', its', hrun, hits⟩ := seg_run' s (hok s (by simp)) hh' f w dd ts le its
    rw [hrun]
    have hr : Holds inp (q + s.1.length + s.2.src.length) (srcSegs r ++ tr) := by
      have := hh'.append.2.append.2
      exact this
    rw [ih tr (q + s.1.length + s.2.src.length) w' dd' ts' le' its' f (fun x hx => hok x (by simp [hx])) htr hr
      (by rw [hsz]; simp [srcSegs]; omega) (by omega), hits]
    simp only [itemsSegs, srcSegs, List.length_append, List.append_assoc]
    rw [show q + s.1.length + s.2.src.length + (srcSegs r).length + tr.length =
      q + (s.1.length + (s.2.src.length + (srcSegs r).length)) + tr.length by omega]

theorem stepsEs_le : ∀ (es : List Elem) (nb : UInt8), EsOK es nb → stepsEs es ≤ 2 * (srcEs es).length
  | [], _, _ => by simp [stepsEs]
  | e :: r, nb, h => by
    have := stepsEs_le r nb h.2.2
    obtain ⟨tl, htl⟩ := e.src_head h.1
    have h2 : e.steps ≤ 2 := by cases e <;> simp [Elem.steps]
    simp only [stepsEs, srcEs, List.length_append, htl, List.length_cons]
    omega

theorem steps_le (g : Tag) (h : g.ok) : 1 + g.steps ≤ 7 * g.src.length := by
  cases g with
  | eof => exact h.elim
  | close w => simp [Tag.steps, Tag.src]; omega
  | «open» es sc =>
    have := stepsEs_le es _ h.2
    cases sc <;> (simp [Tag.steps, Tag.src, closeBytes]; omega)

theorem stepsSegs_le : ∀ (segs : List Seg), (∀ s ∈ segs, SegOK s) → stepsSegs segs ≤ 7 * (srcSegs segs).length
  | [], _ => by simp [stepsSegs]
  | s :: r, h => by
    have := stepsSegs_le r (fun x hx => h x (by simp [hx]))
    have := steps_le s.2 (h s (by simp)).2
    simp only [stepsSegs, srcSegs, List.length_append]
    omega

/-- **lexer**: the items of a source that is a list of segments and a trailing text -/
theorem lexAll_segs (segs : List Seg) (tr : Bytes) (hok : ∀ s ∈ segs, SegOK s) (htr : txtOK tr) :
    lexAll (srcSegs segs ++ tr) false =
      .items (itemsSegs 0 segs ++ (textItem tr ((srcSegs segs).length + tr.length) ++
        [⟨.tEOF, (srcSegs segs).length + tr.length, []⟩])) := by
  unfold lexAll Lex.fuelFor initLexer
  simp only [Bool.false_eq_true, if_false]
  have := lex_segs (inp := (srcSegs segs ++ tr).toArray) segs tr 0 0 false 0 Item.zero #[]
    (7 * (srcSegs segs ++ tr).length + 8) hok htr
    (by intro i hi
        refine ⟨by simpa using hi, ?_⟩
        unfold byteAt
        simp [Array.getD_eq_getD_getElem?, List.getD_eq_getElem?_getD])
    (by simp) (by have := stepsSegs_le segs hok; simp only [List.length_append]; omega)
  simpa using this


/-! ## trees: text, print tags and nested block commands -/

/-- the simple expressions of the family -/
inductive SExp where
  /-- a variable `$id` -/
  | var (id : Bytes)
  /-- a decimal integer literal -/
  | int (ds : Bytes)
  deriving Repr, DecidableEq

def SExp.elem : SExp → Elem
  | .var id => .dollar id
  | .int ds => .int ds

def SExp.ok : SExp → Prop
  | .var id => idOK id
  | .int ds => intOK ds

instance (e : SExp) : Decidable e.ok := by cases e <;> (unfold SExp.ok; infer_instance)

mutual
  /-- a command; the text before it is kept by the enclosing block -/
  inductive Cmd where
    /-- `{$id}` -/
    | print (id : Bytes)
    /-- `{if e}` body, then the rest of the if chain -/
    | ifc (e : SExp) (b : Blk) (t : IfTail)
    /-- `{foreach $x in e}` body `{/foreach}` -/
    | foreach (x : Bytes) (e : SExp) (b : Blk)
    /-- `{foreach $x in e}` body `{ifempty}` body `{/foreach}` -/
    | foreachE (x : Bytes) (e : SExp) (b : Blk) (ie : Blk)
    /-- `{let $x: e /}` -/
    | letv (x : Bytes) (e : SExp)
    /-- `{let $x}` body `{/let}` -/
    | letc (x : Bytes) (b : Blk)
    /-- `{switch e}` cases `{/switch}` (no text between the cases) -/
    | switch (e : SExp) (cs : Cases)
    /-- `{call .name}` `{param k: e /}`… `{/call}` (no text between the params) -/
    | call (name : Bytes) (ps : List (Bytes × SExp))
    /-- `{call .name /}` -/
    | callSelf (name : Bytes)
    /-- `{call .name data="all" /}` -/
    | callAll (name : Bytes)
  /-- a block: commands, each preceded by a (possibly empty) text run, and a trailing text run -/
  inductive Blk where
    | done (t : Bytes)
    | cons (t : Bytes) (c : Cmd) (r : Blk)
  /-- what follows the body of an `{if}` / `{elseif}` -/
  inductive IfTail where
    /-- `{/if}` -/
    | fi
    /-- `{else}` body `{/if}` -/
    | els (b : Blk)
    /-- `{elseif e}` body, and so on -/
    | elif (e : SExp) (b : Blk) (r : IfTail)
  /-- the cases of a `{switch}` -/
  inductive Cases where
    /-- `{/switch}` -/
    | nil
    /-- `{case v}` body, then the other cases -/
    | case (v : SExp) (b : Blk) (r : Cases)
    /-- `{default}` body, then the other cases -/
    | dflt (b : Blk) (r : Cases)
end

def kIf : Bytes := [105, 102]
def kElseif : Bytes := [101, 108, 115, 101, 105, 102]
def kElse : Bytes := [101, 108, 115, 101]
def kForeach : Bytes := [102, 111, 114, 101, 97, 99, 104]
def kIfempty : Bytes := [105, 102, 101, 109, 112, 116, 121]
def kLet : Bytes := [108, 101, 116]
def kwIn : Bytes := [105, 110]
def kSwitch : Bytes := [115, 119, 105, 116, 99, 104]
def kCase : Bytes := [99, 97, 115, 101]
def kDefault : Bytes := [100, 101, 102, 97, 117, 108, 116]
def kCall : Bytes := [99, 97, 108, 108]
def kParam : Bytes := [112, 97, 114, 97, 109]

def printTag (id : Bytes) : Tag := .open [.dollar id] false
def ifTag (e : SExp) : Tag := .open [.word kIf, .sp, e.elem] false
def elseifTag (e : SExp) : Tag := .open [.word kElseif, .sp, e.elem] false
def elseTag : Tag := .open [.word kElse] false
def foreachTag (x : Bytes) (e : SExp) : Tag := .open [.word kForeach, .sp, .dollar x, .sp, .word kwIn, .sp, e.elem] false
def ifemptyTag : Tag := .open [.word kIfempty] false
def letvTag (x : Bytes) (e : SExp) : Tag := .open [.word kLet, .sp, .dollar x, .colon, .sp, e.elem, .sp] true
def letcTag (x : Bytes) : Tag := .open [.word kLet, .sp, .dollar x] false
def switchTag (e : SExp) : Tag := .open [.word kSwitch, .sp, e.elem] false
def caseTag (v : SExp) : Tag := .open [.word kCase, .sp, v.elem] false
def defaultTag : Tag := .open [.word kDefault] false
def callTag (name : Bytes) : Tag := .open [.word kCall, .sp, .dotIdent name] false
def callSelfTag (name : Bytes) : Tag := .open [.word kCall, .sp, .dotIdent name, .sp] true
def callAllTag (name : Bytes) : Tag :=
  .open [.word kCall, .sp, .dotIdent name, .sp, .word kData, .eq, .str kAll, .sp] true
def paramTag (k : Bytes) (e : SExp) : Tag := .open [.word kParam, .sp, .word k, .colon, .sp, e.elem, .sp] true

/-- the segments of the params of a call: no text between them -/
def segsParams : List (Bytes × SExp) → List Seg
  | [] => []
  | p :: r => ([], paramTag p.1 p.2) :: segsParams r

/-- a param name: an identifier that is no keyword; its value: a simple expression -/
def paramsOK : List (Bytes × SExp) → Prop
  | [] => True
  | p :: r => (wordOK p.1 ∧ wordType p.1 = .tIdent ∧ p.2.ok) ∧ paramsOK r

def Blk.trail : Blk → Bytes
  | .done t => t
  | .cons _ _ r => r.trail

/-- the first tag of an if tail: it closes the body before it -/
def IfTail.head : IfTail → Tag
  | .fi => .close kIf
  | .els _ => elseTag
  | .elif e _ _ => elseifTag e

/-- the first tag of a list of cases: it closes the body before it -/
def Cases.head : Cases → Tag
  | .nil => .close kSwitch
  | .case v _ _ => caseTag v
  | .dflt _ _ => defaultTag

mutual
  /-- the segments of a command preceded by the text `t` -/
  def segsCmd (t : Bytes) : Cmd → List Seg
    | .print id => [(t, printTag id)]
    | .ifc e b tl => (t, ifTag e) :: (initBlk b ++ [(b.trail, tl.head)] ++ segsTail tl)
    | .foreach x e b => (t, foreachTag x e) :: (initBlk b ++ [(b.trail, .close kForeach)])
    | .foreachE x e b ie =>
      (t, foreachTag x e) :: (initBlk b ++ [(b.trail, ifemptyTag)] ++ (initBlk ie ++ [(ie.trail, .close kForeach)]))
    | .letv x e => [(t, letvTag x e)]
    | .letc x b => (t, letcTag x) :: (initBlk b ++ [(b.trail, .close kLet)])
    | .switch e cs => (t, switchTag e) :: ([], cs.head) :: segsCases cs
    | .call name ps => (t, callTag name) :: (segsParams ps ++ [([], .close kCall)])
    | .callSelf name => [(t, callSelfTag name)]
    | .callAll name => [(t, callAllTag name)]
  /-- the segments of a block without its trailing text -/
  def initBlk : Blk → List Seg
    | .done _ => []
    | .cons t c r => segsCmd t c ++ initBlk r
  /-- the segments behind the first tag of an if tail -/
  def segsTail : IfTail → List Seg
    | .fi => []
    | .els b => initBlk b ++ [(b.trail, .close kIf)]
    | .elif _ b r => initBlk b ++ [(b.trail, r.head)] ++ segsTail r
  /-- the segments behind the first tag of a list of cases -/
  def segsCases : Cases → List Seg
    | .nil => []
    | .case _ b r => initBlk b ++ [(b.trail, r.head)] ++ segsCases r
    | .dflt b r => initBlk b ++ [(b.trail, r.head)] ++ segsCases r
end

/-- no second `{default}` (`sd`: one has been seen already) — a second one is rejected since /repo d0c22f5 -/
def Cases.okSaw : Bool → Cases → Prop
  | _, .nil => True
  | sd, .case _ _ r => r.okSaw sd
  | sd, .dflt _ r => sd = false ∧ r.okSaw true

/-- a block closed by the tag `g` (`Tag.eof` at the top level) -/
def closeBlk (b : Blk) (g : Tag) : List Seg := initBlk b ++ [(b.trail, g)]

/-- the source text of a template body -/
def srcOf (b : Blk) : Bytes := srcSegs (initBlk b) ++ b.trail

/-- the items `lex` sends for it -/
def itemsOf (b : Blk) : List Item := itemsSegs 0 (closeBlk b .eof)

mutual
  def wfCmd : Cmd → Prop
    | .print id => idOK id
    | .ifc e b tl => e.ok ∧ wfBlk b ∧ wfTail tl
    | .foreach x e b => idOK x ∧ e.ok ∧ wfBlk b
    | .foreachE x e b ie => idOK x ∧ e.ok ∧ wfBlk b ∧ wfBlk ie
    | .letv x e => idOK x ∧ e.ok
    | .letc x b => idOK x ∧ wfBlk b
    | .switch e cs => e.ok ∧ wfCases cs ∧ cs.okSaw false
    | .call name ps => idOK name ∧ paramsOK ps
    | .callSelf name => idOK name
    | .callAll name => idOK name
  /-- well-formed: every text run is empty or `textOK`, identifiers and literals are well-formed -/
  def wfBlk : Blk → Prop
    | .done t => txtOK t
    | .cons t c r => txtOK t ∧ wfCmd c ∧ wfBlk r
  def wfTail : IfTail → Prop
    | .fi => True
    | .els b => wfBlk b
    | .elif e b r => e.ok ∧ wfBlk b ∧ wfTail r
  def wfCases : Cases → Prop
    | .nil => True
    | .case v b r => v.ok ∧ wfBlk b ∧ wfCases r
    | .dflt b r => wfBlk b ∧ wfCases r
end


/-! ### the tags of the family are well-formed -/

theorem SExp.elem_ok {e : SExp} (h : e.ok) : e.elem.ok := by
  cases e <;> exact h

theorem SExp.elem_next {e : SExp} {d : UInt8} (h : delimByte d.toNat) : e.elem.nextOK d := by
  cases e <;> exact h

theorem d32 : delimByte (32 : UInt8).toNat := by decide
theorem d125 : delimByte (125 : UInt8).toNat := by decide
theorem d58 : delimByte (58 : UInt8).toNat := by decide
theorem nd {P : Prop} : false = true → P := fun h => absurd h (by decide)

theorem printTag_ok {id : Bytes} (h : idOK id) : (printTag id).ok :=
  ⟨by simp, h, d125, trivial⟩

theorem ifTag_ok {e : SExp} (h : e.ok) : (ifTag e).ok :=
  ⟨by simp, by decide, d32, trivial, trivial, (SExp.elem_ok h), SExp.elem_next d125, trivial⟩

theorem elseifTag_ok {e : SExp} (h : e.ok) : (elseifTag e).ok :=
  ⟨by simp, by decide, d32, trivial, trivial, (SExp.elem_ok h), SExp.elem_next d125, trivial⟩

theorem elseTag_ok : elseTag.ok := by decide
theorem ifemptyTag_ok : ifemptyTag.ok := by decide
theorem closeIf_ok : (Tag.close kIf).ok := by decide
theorem closeForeach_ok : (Tag.close kForeach).ok := by decide
theorem closeLet_ok : (Tag.close kLet).ok := by decide

theorem foreachTag_ok {x : Bytes} {e : SExp} (hx : idOK x) (h : e.ok) : (foreachTag x e).ok :=
  ⟨by simp, by decide, d32, trivial, trivial, hx, d32, trivial,
    trivial, by decide, d32, trivial, trivial, (SExp.elem_ok h), SExp.elem_next d125, trivial⟩

theorem letvTag_ok {x : Bytes} {e : SExp} (hx : idOK x) (h : e.ok) : (letvTag x e).ok :=
  ⟨by simp, by decide, d32, trivial, trivial, hx, d58, trivial,
    trivial, trivial, trivial, (SExp.elem_ok h), SExp.elem_next d32, trivial, trivial, trivial⟩

theorem letcTag_ok {x : Bytes} (hx : idOK x) : (letcTag x).ok :=
  ⟨by simp, by decide, d32, trivial, trivial, hx, d125, trivial⟩

theorem switchTag_ok {e : SExp} (h : e.ok) : (switchTag e).ok :=
  ⟨by simp, by decide, d32, trivial, trivial, (SExp.elem_ok h), SExp.elem_next d125, trivial⟩

theorem caseTag_ok {e : SExp} (h : e.ok) : (caseTag e).ok :=
  ⟨by simp, by decide, d32, trivial, trivial, (SExp.elem_ok h), SExp.elem_next d125, trivial⟩

theorem defaultTag_ok : defaultTag.ok := by decide
theorem closeSwitch_ok : (Tag.close kSwitch).ok := by decide

theorem callTag_ok {name : Bytes} (h : idOK name) : (callTag name).ok :=
  ⟨by simp, by decide, d32, trivial, trivial, h, d125, trivial⟩

theorem callSelfTag_ok {name : Bytes} (h : idOK name) : (callSelfTag name).ok :=
  ⟨by simp, by decide, d32, trivial, trivial, h, d32, trivial, trivial, trivial⟩

theorem callAllTag_ok {name : Bytes} (h : idOK name) : (callAllTag name).ok :=
  ⟨by simp, by decide, d32, trivial, trivial, h, d32, trivial, trivial, by decide, by decide, trivial, by decide,
    by decide, trivial, trivial, trivial, trivial⟩

theorem paramTag_ok {k : Bytes} {e : SExp} (hk : wordOK k) (h : e.ok) : (paramTag k e).ok :=
  ⟨by simp, by decide, d32, trivial, trivial, hk, d58, trivial, trivial, trivial, trivial, (SExp.elem_ok h),
    SExp.elem_next d32, trivial, trivial, trivial⟩

theorem closeCall_ok : (Tag.close kCall).ok := by decide

theorem segsParams_ok : ∀ (ps : List (Bytes × SExp)), paramsOK ps → ∀ s ∈ segsParams ps, SegOK s
  | [], _ => by intro s hs; simp [segsParams] at hs
  | p :: r, h => by
    intro s hs
    simp only [segsParams] at hs
    rcases List.mem_cons.mp hs with rfl | hs
    · exact ⟨Or.inl rfl, paramTag_ok h.1.1 h.1.2.2⟩
    · exact segsParams_ok r h.2 s hs

theorem Cases.head_ok {cs : Cases} (h : wfCases cs) : cs.head.ok := by
  cases cs with
  | nil => exact closeSwitch_ok
  | case v b r => exact caseTag_ok h.1
  | dflt b r => exact defaultTag_ok

theorem IfTail.head_ok {tl : IfTail} (h : wfTail tl) : tl.head.ok := by
  cases tl with
  | fi => exact closeIf_ok
  | els b => exact elseTag_ok
  | elif e b r => exact elseifTag_ok h.1

theorem Blk.trail_ok : ∀ {b : Blk}, wfBlk b → txtOK b.trail
  | .done _, h => h
  | .cons _ _ r, h => Blk.trail_ok (b := r) h.2.2

theorem segOK_append {a b : List Seg} (ha : ∀ s ∈ a, SegOK s) (hb : ∀ s ∈ b, SegOK s) : ∀ s ∈ a ++ b, SegOK s := by
  intro s hs
  rcases List.mem_append.mp hs with h | h
  · exact ha s h
  · exact hb s h

theorem segOK_close {b : Blk} {g : Tag} (hi : ∀ s ∈ initBlk b, SegOK s) (hb : wfBlk b) (hg : g.ok) :
    ∀ s ∈ initBlk b ++ [(b.trail, g)], SegOK s :=
  segOK_append hi (by intro s hs; simp at hs; subst hs; exact ⟨Blk.trail_ok hb, hg⟩)

mutual
  theorem segsCmd_ok : ∀ (t : Bytes) (c : Cmd), txtOK t → wfCmd c → ∀ s ∈ segsCmd t c, SegOK s
    | t, .print id, ht, h => by
      intro s hs; simp [segsCmd] at hs; subst hs; exact ⟨ht, printTag_ok h⟩
    | t, .ifc e b tl, ht, h => by
      simp only [segsCmd]
      intro s hs
      rcases List.mem_cons.mp hs with rfl | hs
      · exact ⟨ht, ifTag_ok h.1⟩
      · exact segOK_append (segOK_close (initBlk_ok b h.2.1) h.2.1 (IfTail.head_ok h.2.2)) (segsTail_ok tl h.2.2) s hs
    | t, .foreach x e b, ht, h => by
      simp only [segsCmd]
      intro s hs
      rcases List.mem_cons.mp hs with rfl | hs
      · exact ⟨ht, foreachTag_ok h.1 h.2.1⟩
      · exact segOK_close (initBlk_ok b h.2.2) h.2.2 closeForeach_ok s hs
    | t, .foreachE x e b ie, ht, h => by
      simp only [segsCmd]
      intro s hs
      rcases List.mem_cons.mp hs with rfl | hs
      · exact ⟨ht, foreachTag_ok h.1 h.2.1⟩
      · exact segOK_append (segOK_close (initBlk_ok b h.2.2.1) h.2.2.1 ifemptyTag_ok)
          (segOK_close (initBlk_ok ie h.2.2.2) h.2.2.2 closeForeach_ok) s hs
    | t, .letv x e, ht, h => by
      intro s hs; simp [segsCmd] at hs; subst hs; exact ⟨ht, letvTag_ok h.1 h.2⟩
    | t, .letc x b, ht, h => by
      simp only [segsCmd]
      intro s hs
      rcases List.mem_cons.mp hs with rfl | hs
      · exact ⟨ht, letcTag_ok h.1⟩
      · exact segOK_close (initBlk_ok b h.2) h.2 closeLet_ok s hs
    | t, .switch e cs, ht, h => by
      simp only [segsCmd]
      intro s hs
      rcases List.mem_cons.mp hs with rfl | hs
      · exact ⟨ht, switchTag_ok h.1⟩
      · rcases List.mem_cons.mp hs with rfl | hs
        · exact ⟨Or.inl rfl, Cases.head_ok h.2.1⟩
        · exact segsCases_ok cs h.2.1 s hs
    | t, .call name ps, ht, h => by
      simp only [segsCmd]
      intro s hs
      rcases List.mem_cons.mp hs with rfl | hs
      · exact ⟨ht, callTag_ok h.1⟩
      · exact segOK_append (segsParams_ok ps h.2)
          (by intro s hs; simp at hs; subst hs; exact ⟨Or.inl rfl, closeCall_ok⟩) s hs
    | t, .callSelf name, ht, h => by
      intro s hs; simp [segsCmd] at hs; subst hs; exact ⟨ht, callSelfTag_ok h⟩
    | t, .callAll name, ht, h => by
      intro s hs; simp [segsCmd] at hs; subst hs; exact ⟨ht, callAllTag_ok h⟩
  theorem initBlk_ok : ∀ (b : Blk), wfBlk b → ∀ s ∈ initBlk b, SegOK s
    | .done _, _ => by intro s hs; simp [initBlk] at hs
    | .cons t c r, h => by
      simp only [initBlk]
      exact segOK_append (segsCmd_ok t c h.1 h.2.1) (initBlk_ok r h.2.2)
  theorem segsTail_ok : ∀ (tl : IfTail), wfTail tl → ∀ s ∈ segsTail tl, SegOK s
    | .fi, _ => by intro s hs; simp [segsTail] at hs
    | .els b, h => by
      simp only [segsTail]
      exact segOK_close (initBlk_ok b h) h closeIf_ok
    | .elif e b r, h => by
      simp only [segsTail]
      exact segOK_append (segOK_close (initBlk_ok b h.2.1) h.2.1 (IfTail.head_ok h.2.2)) (segsTail_ok r h.2.2)
  theorem segsCases_ok : ∀ (cs : Cases), wfCases cs → ∀ s ∈ segsCases cs, SegOK s
    | .nil, _ => by intro s hs; simp [segsCases] at hs
    | .case v b r, h => by
      simp only [segsCases]
      exact segOK_append (segOK_close (initBlk_ok b h.2.1) h.2.1 (Cases.head_ok h.2.2)) (segsCases_ok r h.2.2)
    | .dflt b r, h => by
      simp only [segsCases]
      exact segOK_append (segOK_close (initBlk_ok b h.1) h.1 (Cases.head_ok h.2)) (segsCases_ok r h.2)
end

theorem itemsSegs_append : ∀ (a b : List Seg) (q : Nat),
    itemsSegs q (a ++ b) = itemsSegs q a ++ itemsSegs (q + (srcSegs a).length) b
  | [], b, q => by simp [itemsSegs, srcSegs]
  | s :: r, b, q => by
    simp only [List.cons_append, itemsSegs, srcSegs, itemsSegs_append r b, List.append_assoc, List.length_append]
    rw [show q + s.1.length + s.2.src.length + (srcSegs r).length = q + (s.1.length + (s.2.src.length + (srcSegs r).length)) by omega]

theorem srcSegs_append : ∀ (a b : List Seg), srcSegs (a ++ b) = srcSegs a ++ srcSegs b
  | [], b => rfl
  | s :: r, b => by simp [srcSegs, srcSegs_append r b]

/-- **lexer**: the items of a well-formed template body -/
theorem lexAll_tree (b : Blk) (h : wfBlk b) : lexAll (srcOf b) false = .items (itemsOf b) := by
  have := lexAll_segs (initBlk b) b.trail (initBlk_ok b h) (Blk.trail_ok h)
  unfold srcOf itemsOf closeBlk
  rw [this, itemsSegs_append]
  simp [itemsSegs, Tag.items]


/-! ## parser: helpers on the stream view -/

section parser
variable (pf : Bytes → Option UInt64)

theorem nl_append_nil : ∀ (a : NodeList), a.append .nil = a
  | .nil => rfl
  | .cons n r => by simp [NodeList.append, nl_append_nil r]

theorem nl_append_assoc : ∀ (a b c : NodeList), (a.append b).append c = a.append (b.append c)
  | .nil, _, _ => rfl
  | .cons n r, b, c => by simp [NodeList.append, nl_append_assoc r b c]

/-- `t.expect(typ)` on a stream whose head has that type -/
theorem fexpect_stream' {st : FState} {x : Item} {s : List Item} {t : ItemType} (hpc : st.p.peekCount ≤ 2)
    (h : stream st.p = x :: s) (ht : x.typ = t) :
    ∃ st', FileParser.expect t st = .ok (x, st') ∧ stream st'.p = s ∧ top st'.p = x ∧
      st'.p.peekCount = st.p.peekCount - 1 ∧ Fr st st' := by
  obtain ⟨p', hn, a, b, c⟩ := next_stream hpc h
  refine ⟨{ st with p := p' }, ?_, a, b, c, rfl, rfl, rfl⟩
  have : Parser.expect t st.p = .ok (x, p') := by
    unfold Parser.expect
    rw [bind_run, hn]
    simp only [ht, bne_self_eq_false, Bool.false_eq_true, if_false]
    rfl
  simp [FileParser.expect, liftP, this]

/-- `t.peek()` returns the head of the stream and leaves it there -/
theorem fpeek_stream' {st : FState} {x : Item} {s : List Item} (hpc : st.p.peekCount ≤ 2) (h : stream st.p = x :: s) :
    ∃ st', FileParser.peek st = .ok (x, st') ∧ stream st'.p = x :: s ∧ st'.p.peekCount ≤ 2 ∧ 1 ≤ st'.p.peekCount ∧
      Fr st st' := by
  by_cases hp0 : st.p.peekCount = 0
  · have hr : st.p.rest = x :: s := by simpa [stream, pending, hp0] using h
    refine ⟨{ st with p := { st.p with rest := s, peekCount := 1, tok0 := x } }, ?_, by simp [stream, pending], by simp,
      by simp, rfl, rfl, rfl⟩
    simp [FileParser.peek, liftP, Parser.peek, bind, StateT.bind, get, getThe, MonadStateOf.get, StateT.get, modify,
      modifyGet, MonadStateOf.modifyGet, StateT.modifyGet, pure, StateT.pure, Except.pure, Except.bind, nextItem, hp0, hr]
  · by_cases hp1 : st.p.peekCount = 1
    · have hx : st.p.tok0 = x ∧ st.p.rest = s := by simpa [stream, pending, hp1] using h
      refine ⟨st, ?_, h, by omega, by omega, Fr.refl st⟩
      simp [FileParser.peek, liftP, Parser.peek, bind, StateT.bind, get, getThe, MonadStateOf.get, StateT.get,
        pure, StateT.pure, Except.pure, Except.bind, tokenAt, hp1, hx.1]
    · have hp2 : st.p.peekCount = 2 := by omega
      have hx : st.p.tok1 = x ∧ st.p.tok0 :: st.p.rest = s := by simpa [stream, pending, hp2] using h
      refine ⟨st, ?_, h, by omega, by omega, Fr.refl st⟩
      simp [FileParser.peek, liftP, Parser.peek, bind, StateT.bind, get, getThe, MonadStateOf.get, StateT.get,
        pure, StateT.pure, Except.pure, Except.bind, tokenAt, hp2, hx.1]

/-! ### the simple expressions -/

/-- the value of a digit string -/
def natVal (ds : Bytes) : Nat := ds.foldl (fun a d => a * 10 + (d.toNat - 48)) 0

/-- the token of a simple expression that ends at `pos` -/
def exprItem (pos : Nat) : SExp → Item
  | .var id => ⟨.tDollarIdent, pos, 36 :: id⟩
  | .int ds => ⟨.tInteger, pos, ds⟩

/-- its node -/
def exprOf (pos : Nat) : SExp → Expr
  | .var id => .dataRef pos id .nil
  | .int ds => .int pos (natVal ds)

theorem elem_items (e : SExp) (q : Nat) : e.elem.items q = [exprItem (q + e.elem.src.length) e] := by
  cases e with
  | var id => simp [SExp.elem, Elem.items, exprItem, Elem.src]; omega
  | int ds => simp [SExp.elem, Elem.items, exprItem, Elem.src]

theorem foldlM_digits : ∀ (ds : Bytes) (acc : Nat), (∀ d ∈ ds, 48 ≤ d.toNat ∧ d.toNat ≤ 57) →
    ds.foldlM (fun acc d => if 48 ≤ d.toNat && d.toNat ≤ 57 then some (acc * 10 + (d.toNat - 48)) else none) acc =
      some (ds.foldl (fun a d => a * 10 + (d.toNat - 48)) acc)
  | [], _, _ => rfl
  | d :: r, acc, h => by
    have hd := h d (by simp)
    have : (decide (48 ≤ d.toNat) && decide (d.toNat ≤ 57)) = true := by simp [hd.1, hd.2]
    simp only [List.foldlM, this, if_true, List.foldl]
    exact foldlM_digits r _ (fun x hx => h x (by simp [hx]))

theorem foldl_digits_lt : ∀ (ds : Bytes) (acc : Nat), (∀ d ∈ ds, 48 ≤ d.toNat ∧ d.toNat ≤ 57) →
    ds.foldl (fun a d => a * 10 + (d.toNat - 48)) acc < (acc + 1) * 10 ^ ds.length
  | [], acc, _ => by simp
  | d :: r, acc, h => by
    have hd := h d (by simp)
    have ih := foldl_digits_lt r (acc * 10 + (d.toNat - 48)) (fun x hx => h x (by simp [hx]))
    simp only [List.foldl, List.length_cons]
    have h1 : (acc * 10 + (d.toNat - 48) + 1) * 10 ^ r.length ≤ ((acc + 1) * 10) * 10 ^ r.length :=
      Nat.mul_le_mul_right _ (by omega)
    rw [Nat.pow_succ, Nat.mul_comm (10 ^ r.length) 10, ← Nat.mul_assoc]
    omega

/-- `strconv.ParseInt` (through `newValueNode`) on a well-formed integer literal -/
theorem intLiteral_ok {ds : Bytes} (h : intOK ds) : Parser.intLiteral ds = some (natVal ds : Int) := by
  obtain ⟨hlen, h18, hdig, _⟩ := h
  have hall : ∀ d ∈ ds, 48 ≤ d.toNat ∧ d.toNat ≤ 57 := by
    intro d hd
    obtain ⟨i, hi, rfl⟩ := List.getElem_of_mem hd
    have := hdig i hi
    rw [List.getD_eq_getElem?_getD, List.getElem?_eq_getElem hi] at this
    exact this
  have hp10 : Parser.parseInt10 ds = some (natVal ds : Int) := by
    have hdd : Parser.decDigits ds = some (natVal ds) := by
      unfold Parser.decDigits natVal
      cases ds with
      | nil => simp at hlen
      | cons c r => exact foldlM_digits (c :: r) 0 hall
    have hlt : natVal ds < 10 ^ 18 := by
      have := foldl_digits_lt ds 0 hall
      have h2 : 10 ^ ds.length ≤ 10 ^ 18 := Nat.pow_le_pow_right (by omega) h18
      unfold natVal; omega
    have hin : Parser.inInt64 (natVal ds : Int) = true := by
      simp only [Parser.inInt64, Bool.and_eq_true, decide_eq_true_eq]
      have : (10 : Nat) ^ 18 = 1000000000000000000 := by decide
      omega
    unfold Parser.parseInt10
    cases ds with
    | nil => simp at hlen
    | cons c r =>
      have hc := hall c (by simp)
      have h45 : c ≠ 45 := by intro e; rw [e] at hc; simp at hc
      have h43 : c ≠ 43 := by intro e; rw [e] at hc; simp at hc
      split
      · rename_i heq; simp only [List.cons.injEq] at heq; exact absurd heq.1 h45
      · rename_i heq; simp only [List.cons.injEq] at heq; exact absurd heq.1 h43
      · simp only [hdd, Option.map_some, Option.bind]
        have hin' : inInt64 (Int.ofNat (natVal (c :: r))) = true := hin
        rw [if_pos hin']
        rfl
  unfold Parser.intLiteral
  split
  · have := hall 120 (by simp)
    simp at this
  · exact hp10


/-- the tokens that end an expression in this family -/
def isTerm (t : ItemType) : Prop := t = .tRightDelim ∨ t = .tRightDelimEnd

theorem parseDataRef_term (f : Nat) (rd : Item) (s : List Item) (st : PState) (hpc : st.peekCount ≤ 1)
    (hs : stream st = rd :: s) (hrd : isTerm rd.typ) :
    ∃ st', parseDataRef pf (f + 1) st = .ok (.nil, st') ∧ stream st' = rd :: s ∧ st'.peekCount ≤ 1 := by
  obtain ⟨st1, hn1, hs1, ht1, hp1⟩ := next_stream (by omega) hs
  obtain ⟨st2, hb2, hs2, hp2⟩ := backup_stream (st := st1) (by omega)
  refine ⟨st2, ?_, by rw [hs2, ht1, hs1], by omega⟩
  unfold parseDataRef
  rw [bind_run, hn1]
  rcases hrd with h | h <;> (simp only [h]; rw [bind_run, hb2]; rfl)

theorem exprLoop_term (f : Nat) (n : Expr) (rd : Item) (s : List Item) (st : PState) (hpc : st.peekCount ≤ 1)
    (hs : stream st = rd :: s) (hrd : isTerm rd.typ) :
    ∃ st', exprLoop pf (f + 1) 0 n st = .ok (n, st') ∧ stream st' = rd :: s ∧ st'.peekCount ≤ 1 := by
  obtain ⟨st1, hn1, hs1, ht1, hp1⟩ := next_stream (by omega) hs
  obtain ⟨st2, hb2, hs2, hp2⟩ := backup_stream (st := st1) (by omega)
  refine ⟨st2, ?_, by rw [hs2, ht1, hs1], by omega⟩
  unfold exprLoop
  rw [bind_run, hn1]
  rcases hrd with h | h
  · simp only [h, show isBinaryOp .tRightDelim = false by decide, Bool.not_false, Bool.true_or, if_true,
      show ((0 : Nat) == 0 && ItemType.tRightDelim == ItemType.tTernIf) = false by decide, Bool.false_eq_true, if_false]
    rw [bind_run, hb2]; rfl
  · simp only [h, show isBinaryOp .tRightDelimEnd = false by decide, Bool.not_false, Bool.true_or, if_true,
      show ((0 : Nat) == 0 && ItemType.tRightDelimEnd == ItemType.tTernIf) = false by decide, Bool.false_eq_true, if_false]
    rw [bind_run, hb2]; rfl

/-- a simple expression before `}` / `/}` -/
theorem parseExpr_simple (f : Nat) (e : SExp) (pos : Nat) (nxt : Item) (s : List Item) (st : PState)
    (hpc : st.peekCount ≤ 2) (hs : stream st = exprItem pos e :: nxt :: s) (he : e.ok) (hn : isTerm nxt.typ) :
    ∃ st', parseExpr pf (f + 4) 0 st = .ok (exprOf pos e, st') ∧ stream st' = nxt :: s ∧ st'.peekCount ≤ 1 := by
  obtain ⟨st1, hn1, hs1, ht1, hp1⟩ := next_stream hpc hs
  cases e with
  | var id =>
    obtain ⟨st2, hd2, hs2, hp2⟩ := parseDataRef_term pf f nxt s st1 (by omega) hs1 hn
    obtain ⟨st3, hl3, hs3, hp3⟩ := exprLoop_term pf (f + 2) (.dataRef pos id .nil) nxt s st2 hp2 hs2 hn
    refine ⟨st3, ?_, hs3, hp3⟩
    show parseExpr pf ((f + 3) + 1) 0 st = _
    unfold parseExpr
    rw [bind_run]
    have hft : parseExprFirstTerm pf (f + 3) st = .ok (.dataRef pos id .nil, st2) := by
      show parseExprFirstTerm pf ((f + 2) + 1) st = _
      unfold parseExprFirstTerm
      rw [bind_run, hn1]
      have htyp : (exprItem pos (SExp.var id)).typ = .tDollarIdent := rfl
      have hval : (exprItem pos (SExp.var id)).val = 36 :: id := rfl
      simp only [htyp, show isUnaryOp .tDollarIdent = false by decide, Bool.false_eq_true, if_false,
        show (ItemType.tDollarIdent == ItemType.tLeftParen) = false by decide,
        show isValue .tDollarIdent = true by decide, if_true]
      show newValueNode pf ((f + 1) + 1) _ st1 = _
      unfold newValueNode
      simp only [htyp, hval]
      rw [bind_run]
      show (parseDataRef pf (f + 1) >>= fun acc => pure (Expr.dataRef pos id acc)) st1 = _
      rw [bind_run, hd2]
      rfl
    rw [hft]
    exact hl3
  | int ds =>
    obtain ⟨st3, hl3, hs3, hp3⟩ := exprLoop_term pf (f + 2) (.int pos (natVal ds)) nxt s st1 (by omega) hs1 hn
    refine ⟨st3, ?_, hs3, hp3⟩
    show parseExpr pf ((f + 3) + 1) 0 st = _
    unfold parseExpr
    rw [bind_run]
    have hft : parseExprFirstTerm pf (f + 3) st = .ok (.int pos (natVal ds), st1) := by
      show parseExprFirstTerm pf ((f + 2) + 1) st = _
      unfold parseExprFirstTerm
      rw [bind_run, hn1]
      have htyp : (exprItem pos (SExp.int ds)).typ = .tInteger := rfl
      have hval : (exprItem pos (SExp.int ds)).val = ds := rfl
      simp only [htyp, show isUnaryOp .tInteger = false by decide, Bool.false_eq_true, if_false,
        show (ItemType.tInteger == ItemType.tLeftParen) = false by decide,
        show isValue .tInteger = true by decide, if_true]
      show newValueNode pf ((f + 1) + 1) _ st1 = _
      unfold newValueNode
      simp only [htyp, hval, intLiteral_ok he]
      rfl
    rw [hft]
    exact hl3

theorem parseExpr0_simple (ef : Nat) (e : SExp) (pos : Nat) (nxt : Item) (s : List Item) (st : FState)
    (hpc : st.p.peekCount ≤ 2) (hs : stream st.p = exprItem pos e :: nxt :: s) (he : e.ok) (hn : isTerm nxt.typ) :
    ∃ st', parseExpr0 pf (ef + 4) st = .ok (exprOf pos e, st') ∧ stream st'.p = nxt :: s ∧ st'.p.peekCount ≤ 1 ∧
      Fr st st' := by
  obtain ⟨p1, he1, hs1, hp1⟩ := parseExpr_simple pf ef e pos nxt s st.p hpc hs he hn
  exact ⟨{ st with p := p1 }, by simp only [parseExpr0, liftP, he1], hs1, hp1, rfl, rfl, rfl⟩


/-! ## the nodes of a tree, with the positions the parser assigns -/

/-- position of the first token of a stream -/
def headPos : List Item → Nat
  | [] => 0
  | x :: _ => x.pos

/-- the RawText node of a text run that ends at `e` -/
def textNL (t : Bytes) (e : Nat) : NodeList :=
  if 0 < t.length ∧ dropped t = false ∧ (joinLines t false false).isEmpty = false then
    .cons (.rawText e (joinLines t false false)) .nil
  else .nil

def lenS (l : List Seg) : Nat := (srcSegs l).length

/-- length of the source of a block -/
def lenBlk (b : Blk) : Nat := lenS (initBlk b) + b.trail.length

/-- the ParamValue nodes of a call; `qp` = where the first `{param` begins -/
def paramNodes : Nat → List (Bytes × SExp) → NodeList
  | _, [] => .nil
  | qp, p :: r =>
    .cons (.paramValue (qp + 1) p.1 (exprOf (qp + 9 + p.1.length + p.2.elem.src.length) p.2))
      (paramNodes (qp + (paramTag p.1 p.2).src.length) r)

mutual
  /-- the node of the command `c` whose preceding text `t` begins at `q` (its `{` is at `q + |t|`) -/
  def nodeCmd (q : Nat) (t : Bytes) : Cmd → Node
    | .print id => .print (q + t.length + 2 + id.length) (.dataRef (q + t.length + 2 + id.length) id .nil) []
    | .ifc e b tl =>
      .ifc (q + t.length + 3)
        (.cons (.ifCond (q + t.length + 3) (some (exprOf (q + t.length + 4 + e.elem.src.length) e))
            (.list (headPos (itemsSegs (q + t.length + (ifTag e).src.length) (closeBlk b tl.head)))
              (nodesBlk (q + t.length + (ifTag e).src.length) b)))
          (condsTail (q + t.length + 3) (q + t.length + (ifTag e).src.length + lenBlk b) tl))
    | .foreach x e b =>
      .forc (q + t.length + 8) x (exprOf (q + t.length + 14 + x.length + e.elem.src.length) e)
        (.list (headPos (itemsSegs (q + t.length + (foreachTag x e).src.length) (closeBlk b (.close kForeach))))
          (nodesBlk (q + t.length + (foreachTag x e).src.length) b))
        .nil
    | .foreachE x e b ie =>
      .forc (q + t.length + 8) x (exprOf (q + t.length + 14 + x.length + e.elem.src.length) e)
        (.list (headPos (itemsSegs (q + t.length + (foreachTag x e).src.length) (closeBlk b ifemptyTag)))
          (nodesBlk (q + t.length + (foreachTag x e).src.length) b))
        (.cons (.list (headPos (itemsSegs (q + t.length + (foreachTag x e).src.length + lenBlk b + ifemptyTag.src.length)
              (closeBlk ie (.close kForeach))))
            (nodesBlk (q + t.length + (foreachTag x e).src.length + lenBlk b + ifemptyTag.src.length) ie)) .nil)
    | .letv x e => .letValue (q + t.length + 4) x (exprOf (q + t.length + 8 + x.length + e.elem.src.length) e)
    | .letc x b =>
      .letContent (q + t.length + 4) x
        (.list (headPos (itemsSegs (q + t.length + (letcTag x).src.length) (closeBlk b (.close kLet))))
          (nodesBlk (q + t.length + (letcTag x).src.length) b))
    | .switch e cs =>
      .switch (q + t.length + 7) (exprOf (q + t.length + 8 + e.elem.src.length) e)
        (caseNodes (q + t.length + (switchTag e).src.length) cs)
    | .call name ps =>
      .call (q + t.length + 5) (46 :: name) false none (paramNodes (q + t.length + (callTag name).src.length) ps)
    | .callSelf name => .call (q + t.length + 5) (46 :: name) false none .nil
    | .callAll name => .call (q + t.length + 5) (46 :: name) true none .nil
  /-- the nodes of a block that begins at `q` -/
  def nodesBlk (q : Nat) : Blk → NodeList
    | .done t => textNL t (q + t.length)
    | .cons t c r => (textNL t (q + t.length)).append (.cons (nodeCmd q t c) (nodesBlk (q + lenS (segsCmd t c)) r))
  /-- the conditions behind the first one; `pos` = position of the `if` token, `qt` = where the
      first tag of the tail begins -/
  def condsTail (pos qt : Nat) : IfTail → NodeList
    | .fi => .nil
    | .els b =>
      .cons (.ifCond pos none
        (.list (headPos (itemsSegs (qt + elseTag.src.length) (closeBlk b (.close kIf))))
          (nodesBlk (qt + elseTag.src.length) b))) .nil
    | .elif e b r =>
      .cons (.ifCond pos (some (exprOf (qt + 8 + e.elem.src.length) e))
        (.list (headPos (itemsSegs (qt + (elseifTag e).src.length) (closeBlk b r.head)))
          (nodesBlk (qt + (elseifTag e).src.length) b)))
        (condsTail pos (qt + (elseifTag e).src.length + lenBlk b) r)
  /-- the case nodes; `qc` = where the first tag of the cases begins -/
  def caseNodes (qc : Nat) : Cases → NodeList
    | .nil => .nil
    | .case v b r =>
      .cons (.switchCase (qc + 5) [exprOf (qc + 6 + v.elem.src.length) v]
        (.list (headPos (itemsSegs (qc + (caseTag v).src.length) (closeBlk b r.head)))
          (nodesBlk (qc + (caseTag v).src.length) b)))
        (caseNodes (qc + (caseTag v).src.length + lenBlk b) r)
    | .dflt b r =>
      .cons (.switchCase (qc + 8) []
        (.list (headPos (itemsSegs (qc + defaultTag.src.length) (closeBlk b r.head)))
          (nodesBlk (qc + defaultTag.src.length) b)))
        (caseNodes (qc + defaultTag.src.length + lenBlk b) r)
end

/-- the nodes `parse.SoyFile` returns for the template body `b` -/
def nodesOf (b : Blk) : List Node := (nodesBlk 0 b).toList


/-! ## parser: `itemList` step by step -/

/-- the end-token sets of the family contain none of the tokens a piece begins with -/
def untlOK (untl : List ItemType) : Prop :=
  untl.contains .tText = false ∧ untl.contains .tLeftDelim = false ∧ untl.contains .tDollarIdent = false ∧
  untl.contains .tIf = false ∧ untl.contains .tForeach = false ∧ untl.contains .tLet = false ∧
  untl.contains .tSwitch = false ∧ untl.contains .tCall = false

instance (untl : List ItemType) : Decidable (untlOK untl) := by unfold untlOK; infer_instance

/-- the tag `g` ends an `itemList(untl…)` -/
def Stops (untl : List ItemType) : Tag → Prop
  | .eof => untl.contains .tEOF = true
  | .close w => untl.contains (closeType w) = true
  | .open es _ =>
    match es with
    | .word wd :: _ => untl.contains (wordType wd) = true
    | _ => False

theorem stops_items {untl : List ItemType} {g : Tag} (h : Stops untl g) (qg : Nat) :
    (g = .eof ∧ untl.contains .tEOF = true) ∨
    (g ≠ .eof ∧ ∃ k more, g.items qg = ⟨.tLeftDelim, qg + 1, [123]⟩ :: k :: more ∧ untl.contains k.typ = true) := by
  cases g with
  | eof => exact Or.inl ⟨rfl, h⟩
  | close w => exact Or.inr ⟨by simp, _, _, rfl, h⟩
  | «open» es sc =>
    cases es with
    | nil => exact h.elim
    | cons e r =>
      cases e with
      | word wd => exact Or.inr ⟨by simp, ⟨wordType wd, qg + 1 + wd.length, wd⟩, _, rfl, h⟩
      | sp => exact h.elim
      | dollar _ => exact h.elim
      | dotIdent _ => exact h.elim
      | colon => exact h.elim
      | int _ => exact h.elim
      | eq => exact h.elim
      | str _ => exact h.elim

theorem skipComments_id (fuel : Nat) (token : Item) (st : FState) (hc : token.typ ≠ .tComment) :
    skipComments (fuel + 1) token st = .ok (token, st) := by
  unfold skipComments
  have : (token.typ == ItemType.tComment) = false := by simpa using hc
  simp [this, pure, StateT.pure, Except.pure]

theorem itemListLoop_succ (ef fuel : Nat) (untl : List ItemType) (lpos : Option Nat) (nodes : NodeList) :
    itemListLoop pf ef (fuel + 1) untl lpos nodes = (do
      let token ← FileParser.next
      let (node, halt) ← textOrTag pf ef fuel token untl
      if halt then pure (.list (lpos.getD token.pos) nodes)
      else
        match node with
        | some n => itemListLoop pf ef fuel untl (some (lpos.getD token.pos)) (nodes.append (.cons n .nil))
        | none => itemListLoop pf ef fuel untl (some (lpos.getD token.pos)) nodes) := by
  rw [itemListLoop]
  rfl

/-- the closing tag (or the end of input) ends the list -/
theorem stop_iter (ef f : Nat) (untl : List ItemType) (lpos : Option Nat) (nodes : NodeList) (st : FState) (g : Tag)
    (qg : Nat) (rest : List Item) (hst : Stops untl g) (hu : untlOK untl) (hpc : st.p.peekCount ≤ 2)
    (hs : stream st.p = g.items qg ++ rest) :
    ∃ st', itemListLoop pf ef (f + 3) untl lpos nodes st = .ok (.list (lpos.getD (headPos (g.items qg))) nodes, st') ∧
      stream st'.p = (g.items qg).drop 2 ++ rest ∧
      (g ≠ .eof → top st'.p = (g.items qg).getD 1 Item.zero ∧ st'.p.peekCount = 0) ∧ Fr st st' := by
  rcases stops_items hst qg with ⟨rfl, hue⟩ | ⟨hne, k, more, hit, huk⟩
  · obtain ⟨st1, hn1, hs1, ht1, hp1, hfr1⟩ := fnext_stream' hpc (show stream st.p = ⟨.tEOF, qg, []⟩ :: rest from hs)
    have hun := textOrTag_until pf ef f untl ⟨.tEOF, qg, []⟩ st1 (by simp) hue
    refine ⟨st1, ?_, by simpa [Tag.items] using hs1, fun h => absurd rfl h, hfr1⟩
    show itemListLoop pf ef ((f + 2) + 1) untl lpos nodes st = _
    unfold itemListLoop
    rw [fbind_run, hn1]
    simp only
    rw [fbind_run, hun]
    rfl
  · rw [hit] at hs ⊢
    obtain ⟨st1, hn1, hs1, ht1, hp1, hfr1⟩ := fnext_stream' hpc (show stream st.p = _ :: (k :: (more ++ rest)) from hs)
    obtain ⟨st2, hn2, hs2, ht2, hp2, hfr2⟩ := fnext_stream' (st := st1) (by omega) hs1
    refine ⟨st2, ?_, by simpa using hs2, fun _ => ⟨by simpa using ht2, by omega⟩, hfr1.trans hfr2⟩
    show itemListLoop pf ef ((f + 2) + 1) untl lpos nodes st = _
    unfold itemListLoop
    rw [fbind_run, hn1]
    simp only
    rw [fbind_run]
    have hto : textOrTag pf ef (f + 2) ⟨.tLeftDelim, qg + 1, [123]⟩ untl st1 = .ok ((none, true), st2) := by
      show textOrTag pf ef ((f + 1) + 1) _ untl st1 = _
      unfold textOrTag
      simp only
      rw [fbind_run, skipComments_id f _ st1 (by simp)]
      simp only [hu.2.1, Bool.false_eq_true, if_false]
      rw [fbind_run, hn2]
      simp only [huk, beq_self_eq_true, Bool.and_self, if_true]
      rfl
    rw [hto]
    rfl

/-- a text run (if it yields a token) is one round of the loop -/
theorem text_iter (ef fuel : Nat) (untl : List ItemType) (lpos : Option Nat) (nodes : NodeList) (st : FState) (t : Bytes)
    (e : Nat) (nxt : Item) (s' : List Item) (hpc : st.p.peekCount ≤ 2) (hs : stream st.p = textItem t e ++ nxt :: s')
    (hnt : nxt.typ ≠ .tText) (hnc : nxt.typ ≠ .tComment) (hu : untl.contains .tText = false) (hf : 5 ≤ fuel) :
    ∃ (st' : FState) (fuel' : Nat) (lpos' : Option Nat),
      itemListLoop pf ef fuel untl lpos nodes st = itemListLoop pf ef fuel' untl lpos' (nodes.append (textNL t e)) st' ∧
      stream st'.p = nxt :: s' ∧ st'.p.peekCount ≤ 2 ∧ Fr st st' ∧ fuel ≤ fuel' + 1 ∧
      lpos'.getD nxt.pos = lpos.getD (headPos (textItem t e ++ nxt :: s')) := by
  by_cases hemit : 0 < t.length ∧ dropped t = false
  · have hti : textItem t e = [⟨.tText, e, t⟩] := by simp [textItem, hemit]
    rw [hti] at hs ⊢
    obtain ⟨f, rfl⟩ : ∃ f, fuel = f + 5 := ⟨fuel - 5, by omega⟩
    obtain ⟨st1, hn1, hs1, ht1, hp1, hfr1⟩ := fnext_stream' hpc (show stream st.p = _ :: (nxt :: s') from hs)
    obtain ⟨st2, hto, hs2, hp2, hfr2⟩ := textOrTag_text_spec' pf ef (f + 3) untl ⟨.tText, e, t⟩ st1 []
      ⟨.tText, e, t⟩ [] nxt s' (by omega) ht1 (by rw [hs1]; rfl) (fun _ h => absurd h (by simp)) rfl
      (fun _ h => absurd h (by simp)) hnt hu (by simp)
    have hcm : (nxt.typ == ItemType.tComment) = false := by simpa using hnc
    have htn : textNode [] ⟨.tText, e, t⟩ [] nxt =
        if (joinLines t false false).isEmpty then none else some (.rawText e (joinLines t false false)) := by
      simp only [textNode, List.flatMap_nil, List.append_nil, List.isEmpty_nil, Bool.not_true, hcm]
    rw [htn] at hto
    refine ⟨st2, f + 4, some (lpos.getD e), ?_, hs2, hp2, hfr1.trans hfr2, by omega, by simp [headPos]⟩
    show itemListLoop pf ef ((f + 4) + 1) untl lpos nodes st = _
    rw [itemListLoop_succ, fbind_run, hn1]
    simp only
    rw [fbind_run, hto]
    simp only [Bool.false_eq_true, if_false]
    by_cases hj : (joinLines t false false).isEmpty = true
    · simp only [hj, if_true]
      have : textNL t e = .nil := by simp [textNL, hj]
      rw [this, nl_append_nil]
    · have hj' : (joinLines t false false).isEmpty = false := by simpa using hj
      simp only [hj', Bool.false_eq_true, if_false]
      have : textNL t e = .cons (.rawText e (joinLines t false false)) .nil := by simp [textNL, hemit, hj']
      rw [this]
  · have hti : textItem t e = [] := by simp only [textItem, hemit, if_false]
    have htl : textNL t e = .nil := by
      unfold textNL
      rw [if_neg (fun h => hemit ⟨h.1, h.2.1⟩)]
    rw [hti] at hs ⊢
    refine ⟨st, fuel, lpos, by rw [htl, nl_append_nil], by simpa using hs, hpc, Fr.refl st, by omega, ?_⟩
    simp [headPos]

/-- a command: `textOrTag` on its `{` calls `beginTag` -/
theorem begin_iter (ef f : Nat) (untl : List ItemType) (lpos : Option Nat) (nodes : NodeList) (st : FState)
    (ld k : Item) (s' rest' : List Item) (n : Node) (hpc : st.p.peekCount ≤ 2) (hs : stream st.p = ld :: k :: s')
    (hld : ld.typ = .tLeftDelim) (hu1 : untl.contains .tLeftDelim = false) (hu2 : untl.contains k.typ = false)
    (hbt : ∀ st2 : FState, stream st2.p = k :: s' → st2.p.peekCount ≤ 1 → Fr st st2 →
      ∃ st3, beginTag pf ef (f + 1) st2 = .ok (some n, st3) ∧ stream st3.p = rest' ∧ st3.p.peekCount ≤ 2 ∧ Fr st2 st3) :
    ∃ st3, itemListLoop pf ef (f + 3) untl lpos nodes st =
        itemListLoop pf ef (f + 2) untl (some (lpos.getD ld.pos)) (nodes.append (.cons n .nil)) st3 ∧
      stream st3.p = rest' ∧ st3.p.peekCount ≤ 2 ∧ Fr st st3 := by
  obtain ⟨st1, hn1, hs1, ht1, hp1, hfr1⟩ := fnext_stream' hpc hs
  obtain ⟨st1', hn1', hs1', ht1', hp1', hfr1'⟩ := fnext_stream' (st := st1) (by omega) hs1
  obtain ⟨st2, hb2, hs2, hp2, hfr2⟩ := fbackup_stream' (st := st1') (by omega)
  rw [ht1', hs1'] at hs2
  obtain ⟨st3, hbt3, hs3, hp3, hfr3⟩ := hbt st2 hs2 (by omega) ((hfr1.trans hfr1').trans hfr2)
  refine ⟨st3, ?_, hs3, hp3, ((hfr1.trans hfr1').trans hfr2).trans hfr3⟩
  show itemListLoop pf ef ((f + 2) + 1) untl lpos nodes st = _
  rw [itemListLoop_succ, fbind_run, hn1]
  simp only
  rw [fbind_run]
  have hto : textOrTag pf ef (f + 2) ld untl st1 = .ok ((some n, false), st3) := by
    show textOrTag pf ef ((f + 1) + 1) ld untl st1 = _
    unfold textOrTag
    simp only
    rw [fbind_run, skipComments_id f _ st1 (by rw [hld]; decide)]
    simp only [hld, hu1, Bool.false_eq_true, if_false]
    rw [fbind_run, hn1']
    simp only [hu2, Bool.and_false, Bool.false_eq_true, if_false]
    rw [fbind_run, hb2]
    simp only [show (ItemType.tLeftDelim == ItemType.tText) = false by decide, Bool.false_eq_true, if_false,
      beq_self_eq_true, if_true]
    rw [fbind_run, hbt3]
    rfl
  rw [hto]
  simp only [Bool.false_eq_true, if_false]


/-! ## parser: the statements of the mutual induction -/

/-- the part of `parseIf`'s loop behind the body -/
def ifCont (ef fuel pos : Nat) (isElse : Bool) (conds : NodeList) : FP Node := do
  FileParser.backup
  let t ← FileParser.next
  if t.typ == .tElseif then (if isElse then FileParser.unexpected t else ifLoop pf ef fuel pos isElse conds)
  else if t.typ == .tElse then (if isElse then FileParser.unexpected t else ifLoop pf ef fuel pos true conds)
  else if t.typ == .tIfEnd then do
    let _ ← FileParser.expect .tRightDelim
    pure (.ifc pos conds)
  else ifLoop pf ef fuel pos isElse conds

theorem ifLoop_succ (ef fuel pos : Nat) (isElse : Bool) (conds : NodeList) :
    ifLoop pf ef (fuel + 1) pos isElse conds = (do
      let condExpr ← (if !isElse then do
          let e ← parseExpr0 pf ef
          pure (some e)
        else pure none : FP (Option Expr))
      let _ ← FileParser.expect .tRightDelim
      let body ← itemListLoop pf ef fuel [.tElseif, .tElse, .tIfEnd] none .nil
      ifCont pf ef fuel pos isElse (conds.append (.cons (.ifCond pos condExpr body) .nil))) := by
  rw [ifLoop]
  rfl

/-- the file-level parser state of the family: not inside a `{msg}`, no `{namespace}` seen -/
def Clean (st : FState) : Prop := st.inmsg = false ∧ st.ns = []

theorem Fr.clean {st st' : FState} (h : Fr st st') (hc : Clean st) : Clean st' :=
  ⟨by rw [h.2.2]; exact hc.1, by rw [h.1]; exact hc.2⟩

/-- `itemList(untl…)` on the tokens of the block `b` closed by the tag `g` -/
def BlkSpec (ef : Nat) (b : Blk) : Prop :=
  ∀ (g : Tag) (untl : List ItemType) (q fuel : Nat) (lpos : Option Nat) (nodes : NodeList) (st : FState) (rest : List Item),
    Stops untl g → untlOK untl → Clean st → st.p.peekCount ≤ 2 →
    stream st.p = itemsSegs q (closeBlk b g) ++ rest → 4 * (itemsSegs q (closeBlk b g)).length + 16 ≤ fuel →
    ∃ st', itemListLoop pf (ef + 4) fuel untl lpos nodes st =
        .ok (.list (lpos.getD (headPos (itemsSegs q (closeBlk b g)))) (nodes.append (nodesBlk q b)), st') ∧
      stream st'.p = (g.items (q + lenBlk b)).drop 2 ++ rest ∧
      (g ≠ .eof → top st'.p = (g.items (q + lenBlk b)).getD 1 Item.zero ∧ st'.p.peekCount = 0) ∧ Fr st st'

/-- `beginTag` on the tokens of the command `c` behind its `{` -/
def CmdSpec (ef : Nat) (c : Cmd) : Prop :=
  ∀ (q : Nat) (t : Bytes) (fuel : Nat) (st : FState) (rest : List Item),
    Clean st → st.p.peekCount ≤ 2 →
    stream st.p = (itemsSegs q (segsCmd t c)).drop ((textItem t (q + t.length)).length + 1) ++ rest →
    4 * (itemsSegs q (segsCmd t c)).length + 8 ≤ fuel →
    ∃ st', beginTag pf (ef + 4) fuel st = .ok (some (nodeCmd q t c), st') ∧ stream st'.p = rest ∧
      st'.p.peekCount ≤ 2 ∧ Fr st st'

/-- `parseIf`'s loop behind a body, on the tokens of the if tail `tl` (whose first tag's `{` and
    keyword have been read by `itemList`) -/
def TailSpec (ef : Nat) (tl : IfTail) : Prop :=
  ∀ (qt fuel pos : Nat) (conds : NodeList) (isElse : Bool) (st : FState) (rest : List Item),
    (isElse = false ∨ tl = .fi) → Clean st → st.p.peekCount = 0 →
    top st.p = (tl.head.items qt).getD 1 Item.zero →
    stream st.p = (tl.head.items qt).drop 2 ++ (itemsSegs (qt + tl.head.src.length) (segsTail tl) ++ rest) →
    4 * ((tl.head.items qt).length + (itemsSegs (qt + tl.head.src.length) (segsTail tl)).length) + 16 ≤ fuel →
    ∃ st', ifCont pf (ef + 4) fuel pos isElse conds st = .ok (.ifc pos (conds.append (condsTail pos qt tl)), st') ∧
      stream st'.p = rest ∧ st'.p.peekCount ≤ 2 ∧ Fr st st'

theorem drop_len_succ {α : Type} (a : List α) (x : α) (s : List α) : (a ++ x :: s).drop (a.length + 1) = s := by
  induction a with
  | nil => rfl
  | cons y r ih => simpa using ih

theorem tail_fi (ef : Nat) : TailSpec pf ef .fi := by
  intro qt fuel pos conds isElse st rest _ hin hpc htop hs hf
  simp only [IfTail.head, Tag.items, segsTail, itemsSegs, List.nil_append, List.drop, List.getD_cons_succ,
    List.getD_cons_zero, List.cons_append] at htop hs
  obtain ⟨st1, hb1, hs1, hp1, hfr1⟩ := fbackup_stream' (st := st) (by omega)
  rw [htop, hs] at hs1
  obtain ⟨st2, hn2, hs2, ht2, hp2, hfr2⟩ := fnext_stream' (st := st1) (by omega) hs1
  obtain ⟨st3, he3, hs3, ht3, hp3, hfr3⟩ := fexpect_stream' (st := st2) (t := .tRightDelim) (by omega) hs2 rfl
  refine ⟨st3, ?_, hs3, by omega, (hfr1.trans hfr2).trans hfr3⟩
  unfold ifCont
  rw [fbind_run, hb1]
  simp only
  rw [fbind_run, hn2]
  have hct : closeType kIf = .tIfEnd := by decide
  simp only [hct, show (ItemType.tIfEnd == ItemType.tElseif) = false by decide,
    show (ItemType.tIfEnd == ItemType.tElse) = false by decide, beq_self_eq_true, Bool.false_eq_true, if_false, if_true]
  rw [fbind_run, he3]
  simp only [condsTail, nl_append_nil]
  rfl


theorem stops_head {untl : List ItemType} {g : Tag} (h : Stops untl g) (qg : Nat) :
    ∃ nxt s', g.items qg = nxt :: s' ∧ nxt.typ ≠ .tText ∧ nxt.typ ≠ .tComment := by
  rcases stops_items h qg with ⟨rfl, _⟩ | ⟨_, k, more, hit, _⟩
  · exact ⟨_, _, rfl, by simp, by simp⟩
  · exact ⟨_, _, hit, by simp, by simp⟩

theorem blk_done (ef : Nat) (t : Bytes) : BlkSpec pf ef (.done t) := by
  intro g untl q fuel lpos nodes st rest hst hu hin hpc hs hf
  have hcl : itemsSegs q (closeBlk (.done t) g) = textItem t (q + t.length) ++ g.items (q + t.length) := by
    simp [closeBlk, initBlk, Blk.trail, itemsSegs]
  rw [hcl] at hs hf ⊢
  obtain ⟨nxt, s', hg, hnt, hnc⟩ := stops_head hst (q + t.length)
  have hlen : lenBlk (.done t) = t.length := by simp [lenBlk, initBlk, Blk.trail, lenS, srcSegs]
  rw [hlen]
  rw [hg] at hs hf
  obtain ⟨st1, fuel1, lpos1, hit, hs1, hp1, hfr1, hfu1, hlp1⟩ := text_iter pf (ef + 4) fuel untl lpos nodes st t (q + t.length)
    nxt (s' ++ rest) hpc (by simpa using hs) hnt hnc hu.1 (by omega)
  obtain ⟨f, rfl⟩ : ∃ f, fuel1 = f + 3 := ⟨fuel1 - 3, by omega⟩
  obtain ⟨st2, hl2, hs2, ht2, hfr2⟩ := stop_iter pf (ef + 4) f untl lpos1 (nodes.append (textNL t (q + t.length))) st1 g
    (q + t.length) rest hst hu hp1 (by rw [hs1, hg]; simp)
  refine ⟨st2, ?_, hs2, ht2, hfr1.trans hfr2⟩
  rw [hit, hl2]
  have e1 : lpos1.getD (headPos (g.items (q + t.length))) =
      lpos.getD (headPos (textItem t (q + t.length) ++ g.items (q + t.length))) := by
    rw [hg]
    have : headPos (textItem t (q + t.length) ++ nxt :: s') = headPos (textItem t (q + t.length) ++ nxt :: (s' ++ rest)) := by
      cases textItem t (q + t.length) <;> rfl
    rw [this, ← hlp1]; rfl
  rw [e1]
  simp [nodesBlk]

/-- the first tokens of a command: `{` and a token that is in no end-token set -/
theorem segsCmd_items (q : Nat) (t : Bytes) (c : Cmd) :
    ∃ k s0, itemsSegs q (segsCmd t c) = textItem t (q + t.length) ++ ⟨.tLeftDelim, q + t.length + 1, [123]⟩ :: k :: s0 ∧
      (k.typ = .tDollarIdent ∨ k.typ = .tIf ∨ k.typ = .tForeach ∨ k.typ = .tLet ∨ k.typ = .tSwitch ∨ k.typ = .tCall) := by
  cases c with
  | print id =>
    have e : itemsSegs q (segsCmd t (.print id)) = textItem t (q + t.length) ++
        ((printTag id).items (q + t.length) ++ itemsSegs (q + t.length + (printTag id).src.length) ([])) := by
      simp only [segsCmd, itemsSegs, List.append_assoc]
    rw [e]
    exact ⟨_, _, rfl, Or.inl rfl⟩
  | ifc e b tl =>
    have e : itemsSegs q (segsCmd t (.ifc e b tl)) = textItem t (q + t.length) ++
        ((ifTag e).items (q + t.length) ++ itemsSegs (q + t.length + (ifTag e).src.length) (initBlk b ++ [(b.trail, tl.head)] ++ segsTail tl)) := by
      simp only [segsCmd, itemsSegs, List.append_assoc]
    rw [e]
    exact ⟨_, _, rfl, Or.inr (Or.inl (by decide : wordType kIf = .tIf))⟩
  | foreach x e b =>
    have e : itemsSegs q (segsCmd t (.foreach x e b)) = textItem t (q + t.length) ++
        ((foreachTag x e).items (q + t.length) ++ itemsSegs (q + t.length + (foreachTag x e).src.length) (initBlk b ++ [(b.trail, .close kForeach)])) := by
      simp only [segsCmd, itemsSegs, List.append_assoc]
    rw [e]
    exact ⟨_, _, rfl, Or.inr (Or.inr (Or.inl (by decide : wordType kForeach = .tForeach)))⟩
  | foreachE x e b ie =>
    have e : itemsSegs q (segsCmd t (.foreachE x e b ie)) = textItem t (q + t.length) ++
        ((foreachTag x e).items (q + t.length) ++ itemsSegs (q + t.length + (foreachTag x e).src.length) (initBlk b ++ [(b.trail, ifemptyTag)] ++ (initBlk ie ++ [(ie.trail, .close kForeach)]))) := by
      simp only [segsCmd, itemsSegs, List.append_assoc]
    rw [e]
    exact ⟨_, _, rfl, Or.inr (Or.inr (Or.inl (by decide : wordType kForeach = .tForeach)))⟩
  | letv x e =>
    have e : itemsSegs q (segsCmd t (.letv x e)) = textItem t (q + t.length) ++
        ((letvTag x e).items (q + t.length) ++ itemsSegs (q + t.length + (letvTag x e).src.length) ([])) := by
      simp only [segsCmd, itemsSegs, List.append_assoc]
    rw [e]
    exact ⟨_, _, rfl, Or.inr (Or.inr (Or.inr (Or.inl (by decide : wordType kLet = .tLet))))⟩
  | letc x b =>
    have e : itemsSegs q (segsCmd t (.letc x b)) = textItem t (q + t.length) ++
        ((letcTag x).items (q + t.length) ++ itemsSegs (q + t.length + (letcTag x).src.length) (initBlk b ++ [(b.trail, .close kLet)])) := by
      simp only [segsCmd, itemsSegs, List.append_assoc]
    rw [e]
    exact ⟨_, _, rfl, Or.inr (Or.inr (Or.inr (Or.inl (by decide : wordType kLet = .tLet))))⟩
  | switch e cs =>
    have e' : itemsSegs q (segsCmd t (.switch e cs)) = textItem t (q + t.length) ++
        ((switchTag e).items (q + t.length) ++ itemsSegs (q + t.length + (switchTag e).src.length) (([], cs.head) :: segsCases cs)) := by
      simp only [segsCmd, itemsSegs, List.append_assoc]
    rw [e']
    exact ⟨_, _, rfl, Or.inr (Or.inr (Or.inr (Or.inr (Or.inl (by decide : wordType kSwitch = .tSwitch)))))⟩
  | call name ps =>
    have e' : itemsSegs q (segsCmd t (.call name ps)) = textItem t (q + t.length) ++
        ((callTag name).items (q + t.length) ++ itemsSegs (q + t.length + (callTag name).src.length)
          (segsParams ps ++ [([], .close kCall)])) := by
      simp only [segsCmd, itemsSegs, List.append_assoc]
    rw [e']
    exact ⟨_, _, rfl, Or.inr (Or.inr (Or.inr (Or.inr (Or.inr (by decide : wordType kCall = .tCall)))))⟩
  | callSelf name =>
    have e' : itemsSegs q (segsCmd t (.callSelf name)) = textItem t (q + t.length) ++
        ((callSelfTag name).items (q + t.length) ++ itemsSegs (q + t.length + (callSelfTag name).src.length) []) := by
      simp only [segsCmd, itemsSegs, List.append_assoc]
    rw [e']
    exact ⟨_, _, rfl, Or.inr (Or.inr (Or.inr (Or.inr (Or.inr (by decide : wordType kCall = .tCall)))))⟩
  | callAll name =>
    have e' : itemsSegs q (segsCmd t (.callAll name)) = textItem t (q + t.length) ++
        ((callAllTag name).items (q + t.length) ++ itemsSegs (q + t.length + (callAllTag name).src.length) []) := by
      simp only [segsCmd, itemsSegs, List.append_assoc]
    rw [e']
    exact ⟨_, _, rfl, Or.inr (Or.inr (Or.inr (Or.inr (Or.inr (by decide : wordType kCall = .tCall)))))⟩

theorem blk_cons (ef : Nat) (t : Bytes) (c : Cmd) (r : Blk) (hc : CmdSpec pf ef c) (hr : BlkSpec pf ef r) :
    BlkSpec pf ef (.cons t c r) := by
  intro g untl q fuel lpos nodes st rest hst hu hin hpc hs hf
  have hcl : itemsSegs q (closeBlk (.cons t c r) g) =
      itemsSegs q (segsCmd t c) ++ itemsSegs (q + lenS (segsCmd t c)) (closeBlk r g) := by
    simp only [closeBlk, initBlk, Blk.trail, List.append_assoc, itemsSegs_append, lenS]
  obtain ⟨k, s0, hcs, hk⟩ := segsCmd_items q t c
  have hku : untl.contains k.typ = false := by
    rcases hk with h | h | h | h | h | h <;> rw [h]
    · exact hu.2.2.1
    · exact hu.2.2.2.1
    · exact hu.2.2.2.2.1
    · exact hu.2.2.2.2.2.1
    · exact hu.2.2.2.2.2.2.1
    · exact hu.2.2.2.2.2.2.2
  rw [hcl] at hs hf ⊢
  have hlc : (itemsSegs q (segsCmd t c)).length = (textItem t (q + t.length)).length + 2 + s0.length := by
    rw [hcs]; simp; omega
  rw [hcs] at hs
  obtain ⟨st1, fuel1, lpos1, hit, hs1, hp1, hfr1, hfu1, hlp1⟩ := text_iter pf (ef + 4) fuel untl lpos nodes st t (q + t.length)
    ⟨.tLeftDelim, q + t.length + 1, [123]⟩
    (k :: s0 ++ (itemsSegs (q + lenS (segsCmd t c)) (closeBlk r g) ++ rest)) hpc (by simpa using hs) (by simp) (by simp) hu.1
    (by simp only [List.length_append] at hf; omega)
  obtain ⟨f, rfl⟩ : ∃ f, fuel1 = f + 3 := ⟨fuel1 - 3, by simp only [List.length_append] at hf; omega⟩
  obtain ⟨st2, hl2, hs2, hp2, hfr2⟩ := begin_iter pf (ef + 4) f untl lpos1 (nodes.append (textNL t (q + t.length))) st1
    ⟨.tLeftDelim, q + t.length + 1, [123]⟩ k (s0 ++ (itemsSegs (q + lenS (segsCmd t c)) (closeBlk r g) ++ rest))
    (itemsSegs (q + lenS (segsCmd t c)) (closeBlk r g) ++ rest) (nodeCmd q t c) hp1 (by simpa using hs1) rfl hu.2.1 hku
    (by
      intro st2 hs2 hp2 hfr
      have := hc q t (f + 1) st2 (itemsSegs (q + lenS (segsCmd t c)) (closeBlk r g) ++ rest)
        (Fr.clean (hfr1.trans hfr) hin) (by omega)
        (by rw [hcs, drop_len_succ, hs2]; simp)
        (by simp only [List.length_append] at hf; omega)
      exact this)
  obtain ⟨st3, hl3, hs3, ht3, hfr3⟩ := hr g untl (q + lenS (segsCmd t c)) (f + 2)
    (some (lpos1.getD (q + t.length + 1)))
    ((nodes.append (textNL t (q + t.length))).append (.cons (nodeCmd q t c) .nil)) st2 rest hst hu
    (Fr.clean (hfr1.trans hfr2) hin) hp2 hs2 (by simp only [List.length_append] at hf; omega)
  have hlen : lenBlk (.cons t c r) = lenS (segsCmd t c) + lenBlk r := by
    simp [lenBlk, initBlk, Blk.trail, lenS, srcSegs_append]; omega
  refine ⟨st3, ?_, by rw [hlen, ← Nat.add_assoc]; exact hs3, by rw [hlen, ← Nat.add_assoc]; exact ht3,
    (hfr1.trans hfr2).trans hfr3⟩
  rw [hit, hl2, hl3]
  have e1 : lpos1.getD (q + t.length + 1) =
      lpos.getD (headPos (itemsSegs q (segsCmd t c) ++ itemsSegs (q + lenS (segsCmd t c)) (closeBlk r g))) := by
    have := hlp1
    simp only at this
    rw [this, hcs]
    cases textItem t (q + t.length) <;> rfl
  simp only [Option.getD_some, e1, nodesBlk, nl_append_assoc, NodeList.append]


/-! ### the items of the family's tags -/

theorem items_sp (q : Nat) : Elem.sp.items q = [] := rfl
theorem items_word (q : Nat) (w : Bytes) : (Elem.word w).items q = [⟨wordType w, q + w.length, w⟩] := rfl
theorem items_dollar (q : Nat) (id : Bytes) : (Elem.dollar id).items q = [⟨.tDollarIdent, q + 1 + id.length, 36 :: id⟩] := rfl
theorem items_colon (q : Nat) : Elem.colon.items q = [⟨.tColon, q + 1, [58]⟩] := rfl
theorem items_dotIdent (q : Nat) (id : Bytes) : (Elem.dotIdent id).items q = [⟨.tDotIdent, q + 1 + id.length, 46 :: id⟩] := rfl
theorem src_dotIdent (id : Bytes) : (Elem.dotIdent id).src = 46 :: id := rfl
theorem items_eq (q : Nat) : Elem.eq.items q = [⟨.tEquals, q + 1, [61]⟩] := rfl
theorem items_str (q : Nat) (b : Bytes) : (Elem.str b).items q = [⟨.tString, q + 2 + b.length, 34 :: (b ++ [34])⟩] := rfl
theorem src_eq : Elem.eq.src = [61] := rfl
theorem src_str (b : Bytes) : (Elem.str b).src = 34 :: (b ++ [34]) := rfl
theorem src_sp : Elem.sp.src = [32] := rfl
theorem src_word (w : Bytes) : (Elem.word w).src = w := rfl
theorem src_dollar (id : Bytes) : (Elem.dollar id).src = 36 :: id := rfl
theorem src_colon : Elem.colon.src = [58] := rfl
theorem len_kIf : kIf.length = 2 := rfl
theorem len_kElseif : kElseif.length = 6 := rfl
theorem len_kElse : kElse.length = 4 := rfl
theorem len_kForeach : kForeach.length = 7 := rfl
theorem len_kIfempty : kIfempty.length = 7 := rfl
theorem len_kLet : kLet.length = 3 := rfl
theorem len_kwIn : kwIn.length = 2 := rfl

/-- unfold the items / the source of a concrete tag -/
macro "tag_unfold" : tactic => `(tactic|
  simp only [Tag.items, itemsEs, items_sp, items_word, items_dollar, items_colon, items_dotIdent, elem_items, srcEs, src_sp,
    src_word, src_dollar, src_colon, src_dotIdent, items_eq, items_str, src_eq, src_str, Tag.src, closeBytes, List.length_cons, List.length_nil, List.length_append, List.cons_append,
    List.nil_append, List.append_nil, Bool.false_eq_true, if_false, if_true, len_kIf, len_kElseif, len_kElse, len_kForeach,
    len_kIfempty, len_kLet, len_kwIn])

macro "arith_items" : tactic => `(tactic|
  (simp only [List.cons.injEq, Item.mk.injEq, and_true, true_and]
   repeat' constructor
   all_goals first | omega | decide | (congr 1; omega) | rfl))

theorem printTag_items (id : Bytes) (Q : Nat) :
    (printTag id).items Q = [⟨.tLeftDelim, Q + 1, [123]⟩, ⟨.tDollarIdent, Q + 2 + id.length, 36 :: id⟩,
      ⟨.tRightDelim, Q + 3 + id.length, [125]⟩] ∧ (printTag id).src.length = 3 + id.length := by
  unfold printTag
  tag_unfold
  arith_items

theorem ifTag_items (e : SExp) (Q : Nat) :
    (ifTag e).items Q = [⟨.tLeftDelim, Q + 1, [123]⟩, ⟨.tIf, Q + 3, kIf⟩, exprItem (Q + 4 + e.elem.src.length) e,
      ⟨.tRightDelim, Q + 5 + e.elem.src.length, [125]⟩] ∧ (ifTag e).src.length = 5 + e.elem.src.length := by
  unfold ifTag
  tag_unfold
  arith_items

theorem elseifTag_items (e : SExp) (Q : Nat) :
    (elseifTag e).items Q = [⟨.tLeftDelim, Q + 1, [123]⟩, ⟨.tElseif, Q + 7, kElseif⟩, exprItem (Q + 8 + e.elem.src.length) e,
      ⟨.tRightDelim, Q + 9 + e.elem.src.length, [125]⟩] ∧ (elseifTag e).src.length = 9 + e.elem.src.length := by
  unfold elseifTag
  tag_unfold
  arith_items

theorem elseTag_items (Q : Nat) :
    elseTag.items Q = [⟨.tLeftDelim, Q + 1, [123]⟩, ⟨.tElse, Q + 5, kElse⟩, ⟨.tRightDelim, Q + 6, [125]⟩] ∧
      elseTag.src.length = 6 := by
  unfold elseTag
  tag_unfold
  arith_items

theorem ifemptyTag_items (Q : Nat) :
    ifemptyTag.items Q = [⟨.tLeftDelim, Q + 1, [123]⟩, ⟨.tIfempty, Q + 8, kIfempty⟩, ⟨.tRightDelim, Q + 9, [125]⟩] ∧
      ifemptyTag.src.length = 9 := by
  unfold ifemptyTag
  tag_unfold
  arith_items

theorem closeIf_items (Q : Nat) :
    (Tag.close kIf).items Q = [⟨.tLeftDelim, Q + 1, [123]⟩, ⟨.tIfEnd, Q + 4, 47 :: kIf⟩, ⟨.tRightDelim, Q + 5, [125]⟩] ∧
      (Tag.close kIf).src.length = 5 := by
  tag_unfold
  arith_items

theorem closeForeach_items (Q : Nat) :
    (Tag.close kForeach).items Q = [⟨.tLeftDelim, Q + 1, [123]⟩, ⟨.tForeachEnd, Q + 9, 47 :: kForeach⟩,
      ⟨.tRightDelim, Q + 10, [125]⟩] ∧ (Tag.close kForeach).src.length = 10 := by
  tag_unfold
  arith_items

theorem closeLet_items (Q : Nat) :
    (Tag.close kLet).items Q = [⟨.tLeftDelim, Q + 1, [123]⟩, ⟨.tLetEnd, Q + 5, 47 :: kLet⟩, ⟨.tRightDelim, Q + 6, [125]⟩] ∧
      (Tag.close kLet).src.length = 6 := by
  tag_unfold
  arith_items

theorem foreachTag_items (x : Bytes) (e : SExp) (Q : Nat) :
    (foreachTag x e).items Q = [⟨.tLeftDelim, Q + 1, [123]⟩, ⟨.tForeach, Q + 8, kForeach⟩,
      ⟨.tDollarIdent, Q + 10 + x.length, 36 :: x⟩, ⟨.tIdent, Q + 13 + x.length, kwIn⟩,
      exprItem (Q + 14 + x.length + e.elem.src.length) e, ⟨.tRightDelim, Q + 15 + x.length + e.elem.src.length, [125]⟩] ∧
    (foreachTag x e).src.length = 15 + x.length + e.elem.src.length := by
  unfold foreachTag
  tag_unfold
  arith_items

theorem letvTag_items (x : Bytes) (e : SExp) (Q : Nat) :
    (letvTag x e).items Q = [⟨.tLeftDelim, Q + 1, [123]⟩, ⟨.tLet, Q + 4, kLet⟩,
      ⟨.tDollarIdent, Q + 6 + x.length, 36 :: x⟩, ⟨.tColon, Q + 7 + x.length, [58]⟩,
      exprItem (Q + 8 + x.length + e.elem.src.length) e, ⟨.tRightDelimEnd, Q + 11 + x.length + e.elem.src.length, [47, 125]⟩] ∧
    (letvTag x e).src.length = 11 + x.length + e.elem.src.length := by
  unfold letvTag
  tag_unfold
  arith_items

theorem letcTag_items (x : Bytes) (Q : Nat) :
    (letcTag x).items Q = [⟨.tLeftDelim, Q + 1, [123]⟩, ⟨.tLet, Q + 4, kLet⟩,
      ⟨.tDollarIdent, Q + 6 + x.length, 36 :: x⟩, ⟨.tRightDelim, Q + 7 + x.length, [125]⟩] ∧
    (letcTag x).src.length = 7 + x.length := by
  unfold letcTag
  tag_unfold
  arith_items

theorem len_kSwitch : kSwitch.length = 6 := rfl
theorem len_kCase : kCase.length = 4 := rfl
theorem len_kDefault : kDefault.length = 7 := rfl

theorem switchTag_items (e : SExp) (Q : Nat) :
    (switchTag e).items Q = [⟨.tLeftDelim, Q + 1, [123]⟩, ⟨.tSwitch, Q + 7, kSwitch⟩, exprItem (Q + 8 + e.elem.src.length) e,
      ⟨.tRightDelim, Q + 9 + e.elem.src.length, [125]⟩] ∧ (switchTag e).src.length = 9 + e.elem.src.length := by
  unfold switchTag
  tag_unfold
  simp only [len_kSwitch]
  arith_items

theorem caseTag_items (e : SExp) (Q : Nat) :
    (caseTag e).items Q = [⟨.tLeftDelim, Q + 1, [123]⟩, ⟨.tCase, Q + 5, kCase⟩, exprItem (Q + 6 + e.elem.src.length) e,
      ⟨.tRightDelim, Q + 7 + e.elem.src.length, [125]⟩] ∧ (caseTag e).src.length = 7 + e.elem.src.length := by
  unfold caseTag
  tag_unfold
  simp only [len_kCase]
  arith_items

theorem defaultTag_items (Q : Nat) :
    defaultTag.items Q = [⟨.tLeftDelim, Q + 1, [123]⟩, ⟨.tDefault, Q + 8, kDefault⟩, ⟨.tRightDelim, Q + 9, [125]⟩] ∧
      defaultTag.src.length = 9 := by
  unfold defaultTag
  tag_unfold
  simp only [len_kDefault]
  arith_items

theorem closeSwitch_items (Q : Nat) :
    (Tag.close kSwitch).items Q = [⟨.tLeftDelim, Q + 1, [123]⟩, ⟨.tSwitchEnd, Q + 8, 47 :: kSwitch⟩, ⟨.tRightDelim, Q + 9, [125]⟩] ∧
      (Tag.close kSwitch).src.length = 9 := by
  tag_unfold
  simp only [len_kSwitch]
  arith_items

theorem len_kCall : kCall.length = 4 := rfl
theorem len_kParam : kParam.length = 5 := rfl

theorem callTag_items (name : Bytes) (Q : Nat) :
    (callTag name).items Q = [⟨.tLeftDelim, Q + 1, [123]⟩, ⟨.tCall, Q + 5, kCall⟩,
      ⟨.tDotIdent, Q + 7 + name.length, 46 :: name⟩, ⟨.tRightDelim, Q + 8 + name.length, [125]⟩] ∧
    (callTag name).src.length = 8 + name.length := by
  unfold callTag
  tag_unfold
  simp only [len_kCall]
  arith_items

theorem callSelfTag_items (name : Bytes) (Q : Nat) :
    (callSelfTag name).items Q = [⟨.tLeftDelim, Q + 1, [123]⟩, ⟨.tCall, Q + 5, kCall⟩,
      ⟨.tDotIdent, Q + 7 + name.length, 46 :: name⟩, ⟨.tRightDelimEnd, Q + 10 + name.length, [47, 125]⟩] ∧
    (callSelfTag name).src.length = 10 + name.length := by
  unfold callSelfTag
  tag_unfold
  simp only [len_kCall]
  arith_items

theorem len_kData : kData.length = 4 := rfl
theorem len_kAll : kAll.length = 3 := rfl

theorem callAllTag_items (name : Bytes) (Q : Nat) :
    (callAllTag name).items Q = [⟨.tLeftDelim, Q + 1, [123]⟩, ⟨.tCall, Q + 5, kCall⟩,
      ⟨.tDotIdent, Q + 7 + name.length, 46 :: name⟩, ⟨.tIdent, Q + 12 + name.length, kData⟩,
      ⟨.tEquals, Q + 13 + name.length, [61]⟩, ⟨.tString, Q + 18 + name.length, 34 :: (kAll ++ [34])⟩,
      ⟨.tRightDelimEnd, Q + 21 + name.length, [47, 125]⟩] ∧
    (callAllTag name).src.length = 21 + name.length := by
  unfold callAllTag
  tag_unfold
  simp only [len_kCall, len_kData, len_kAll]
  arith_items

theorem paramTag_items (k : Bytes) (e : SExp) (P : Nat) :
    (paramTag k e).items P = [⟨.tLeftDelim, P + 1, [123]⟩, ⟨.tParam, P + 6, kParam⟩, ⟨wordType k, P + 7 + k.length, k⟩,
      ⟨.tColon, P + 8 + k.length, [58]⟩, exprItem (P + 9 + k.length + e.elem.src.length) e,
      ⟨.tRightDelimEnd, P + 12 + k.length + e.elem.src.length, [47, 125]⟩] ∧
    (paramTag k e).src.length = 12 + k.length + e.elem.src.length := by
  unfold paramTag
  tag_unfold
  simp only [len_kParam]
  arith_items

theorem closeCall_items (Q : Nat) :
    (Tag.close kCall).items Q = [⟨.tLeftDelim, Q + 1, [123]⟩, ⟨.tCallEnd, Q + 6, 47 :: kCall⟩, ⟨.tRightDelim, Q + 7, [125]⟩] ∧
      (Tag.close kCall).src.length = 7 := by
  tag_unfold
  simp only [len_kCall]
  arith_items

/-! ### the commands -/

theorem get_run (st : FState) : (get : FP FState) st = .ok (st, st) := rfl

theorem fpure_run {α : Type} (a : α) (st : FState) : (pure a : FP α) st = .ok (a, st) := rfl

theorem ftail1_cons (c : UInt8) (r : Bytes) (st : FState) : FileParser.tail1 (c :: r) st = .ok (r, st) := rfl

theorem cmd_letv (ef : Nat) (x : Bytes) (e : SExp) (he : e.ok) : CmdSpec pf ef (.letv x e) := by
  intro q t fuel st rest hin hpc hs hf
  have hit : itemsSegs q (segsCmd t (.letv x e)) = textItem t (q + t.length) ++ (letvTag x e).items (q + t.length) := by
    simp only [segsCmd, itemsSegs, List.append_nil]
  rw [hit, (letvTag_items x e (q + t.length)).1] at hs hf
  rw [drop_len_succ] at hs
  obtain ⟨f, rfl⟩ : ∃ f, fuel = f + 2 := ⟨fuel - 2, by omega⟩
  obtain ⟨st1, hn1, hs1, ht1, hp1, hfr1⟩ := fnext_stream' hpc (by simpa using hs)
  obtain ⟨st2, he2, hs2, ht2, hp2, hfr2⟩ := fexpect_stream' (st := st1) (t := .tDollarIdent) (by omega) hs1 rfl
  obtain ⟨st3, hk3, hs3, hp3, hp3', hfr3⟩ := fpeek_stream' (st := st2) (by omega) hs2
  obtain ⟨st4, hn4, hs4, ht4, hp4, hfr4⟩ := fnext_stream' (st := st3) hp3 hs3
  obtain ⟨st5, hx5, hs5, hp5, hfr5⟩ := parseExpr0_simple pf ef e _ _ _ st4 (by omega) hs4 he (Or.inr rfl)
  obtain ⟨st6, he6, hs6, ht6, hp6, hfr6⟩ := fexpect_stream' (st := st5) (t := .tRightDelimEnd) (by omega) hs5 rfl
  refine ⟨st6, ?_, hs6, by omega, ((((hfr1.trans hfr2).trans hfr3).trans hfr4).trans hfr5).trans hfr6⟩
  show beginTag pf (ef + 4) ((f + 1) + 1) st = _
  unfold beginTag
  rw [fbind_run, hn1]
  simp only
  rw [fbind_run]
  have hpl : parseLet pf (ef + 4) (f + 1) ⟨.tLet, q + t.length + 4, kLet⟩ st1 =
      .ok (nodeCmd q t (.letv x e), st6) := by
    unfold parseLet
    rw [fbind_run, he2]
    simp only
    rw [fbind_run, hk3]
    simp only [beq_self_eq_true, if_true]
    rw [fbind_run, hn4]
    simp only
    rw [fbind_run, ftail1_cons]
    simp only
    rw [fbind_run, hx5]
    simp only
    rw [fbind_run, he6]
    rfl
  rw [hpl]
  rfl


theorem notmsg_run (tok : Item) (st : FState) (h : st.inmsg = false) :
    ((do let s ← get; if s.inmsg = true then FileParser.unexpected tok else pure ()) : FP Unit) st = .ok ((), st) := by
  rw [fbind_run, get_run]
  simp only [h, Bool.false_eq_true, if_false]
  rfl

theorem cmd_print (ef : Nat) (id : Bytes) (hid : idOK id) : CmdSpec pf ef (.print id) := by
  intro q t fuel st rest hin hpc hs hf
  have hit : itemsSegs q (segsCmd t (.print id)) = textItem t (q + t.length) ++ (printTag id).items (q + t.length) := by
    simp only [segsCmd, itemsSegs, List.append_nil]
  rw [hit, (printTag_items id (q + t.length)).1] at hs hf
  rw [drop_len_succ] at hs
  obtain ⟨f, rfl⟩ : ∃ f, fuel = f + 2 := ⟨fuel - 2, by omega⟩
  obtain ⟨st1, hn1, hs1, ht1, hp1, hfr1⟩ := fnext_stream' hpc (by simpa using hs)
  obtain ⟨st2, hb2, hs2, hp2, hfr2⟩ := fbackup_stream' (st := st1) (by omega)
  rw [ht1, hs1] at hs2
  obtain ⟨st3, hx3, hs3, hp3, hfr3⟩ := parseExpr0_simple pf ef (.var id) _ _ _ st2 (by omega) hs2 hid (Or.inl rfl)
  obtain ⟨st4, hn4, hs4, ht4, hp4, hfr4⟩ := fnext_stream' (st := st3) (by omega) hs3
  refine ⟨st4, ?_, hs4, by omega, ((hfr1.trans hfr2).trans hfr3).trans hfr4⟩
  show beginTag pf (ef + 4) ((f + 1) + 1) st = _
  unfold beginTag
  rw [fbind_run, hn1]
  simp only
  rw [fbind_run, hb2]
  simp only
  rw [fbind_run]
  have hpp : parsePrint pf (ef + 4) (f + 1) ⟨.tDollarIdent, q + t.length + 2 + id.length, 36 :: id⟩ st2 =
      .ok (nodeCmd q t (.print id), st4) := by
    unfold parsePrint
    rw [fbind_run, hx3]
    simp only
    unfold printLoop
    rw [fbind_run, hn4]
    simp only [beq_self_eq_true, if_true]
    rfl
  rw [hpp]
  rfl

/-- `parseAttrs` before a `}`: no attributes -/
theorem parseAttrs_none (allowed : List Bytes) (f : Nat) (rd : Item) (s : List Item) (st : FState) (hpc : st.p.peekCount ≤ 2)
    (hs : stream st.p = rd :: s) (hrd : rd.typ = .tRightDelim) :
    ∃ st', parseAttrs allowed (f + 1) [] st = .ok ([], st') ∧ stream st'.p = rd :: s ∧ st'.p.peekCount ≤ 2 ∧
      (st.p.peekCount ≤ 1 → st'.p.peekCount ≤ 1) ∧ Fr st st' := by
  obtain ⟨st1, hn1, hs1, ht1, hp1, hfr1⟩ := fnext_stream' hpc hs
  obtain ⟨st2, hb2, hs2, hp2, hfr2⟩ := fbackup_stream' (st := st1) (by omega)
  refine ⟨st2, ?_, by rw [hs2, ht1, hs1], by omega, fun _ => by omega, hfr1.trans hfr2⟩
  unfold parseAttrs
  rw [fbind_run, hn1]
  simp only [hrd, show (ItemType.tRightDelim == ItemType.tIdent) = false by decide, Bool.false_eq_true, if_false,
    beq_self_eq_true, Bool.true_or, if_true]
  rw [fbind_run, hb2]
  rfl

theorem cmd_letc (ef : Nat) (x : Bytes) (b : Blk) (hb : BlkSpec pf ef b) : CmdSpec pf ef (.letc x b) := by
  intro q t fuel st rest hin hpc hs hf
  have hit : itemsSegs q (segsCmd t (.letc x b)) = textItem t (q + t.length) ++ ((letcTag x).items (q + t.length) ++
      itemsSegs (q + t.length + (letcTag x).src.length) (closeBlk b (.close kLet))) := by
    simp only [segsCmd, itemsSegs, closeBlk, List.append_assoc]
  rw [hit, (letcTag_items x (q + t.length)).1] at hs hf
  simp only [List.cons_append, List.nil_append] at hs hf
  rw [drop_len_succ] at hs
  obtain ⟨f, rfl⟩ : ∃ f, fuel = f + 3 := ⟨fuel - 3, by omega⟩
  obtain ⟨st1, hn1, hs1, ht1, hp1, hfr1⟩ := fnext_stream' hpc hs
  obtain ⟨st2, he2, hs2, ht2, hp2, hfr2⟩ := fexpect_stream' (st := st1) (t := .tDollarIdent) (by omega) hs1 rfl
  obtain ⟨st3, hk3, hs3, hp3, hp3', hfr3⟩ := fpeek_stream' (st := st2) (by omega) hs2
  obtain ⟨st4, ha4, hs4, hp4, _, hfr4⟩ := parseAttrs_none [kKind] f _ _ st3 hp3 hs3 rfl
  obtain ⟨st5, hn5, hs5, ht5, hp5, hfr5⟩ := fnext_stream' (st := st4) hp4 hs4
  have hfr05 := (((hfr1.trans hfr2).trans hfr3).trans hfr4).trans hfr5
  obtain ⟨st6, hl6, hs6, ht6, hfr6⟩ := hb (.close kLet) [.tLetEnd] (q + t.length + (letcTag x).src.length) (f + 1) none .nil
    st5 rest (by show List.contains _ (closeType kLet) = true; decide) (by decide) (Fr.clean hfr05 hin) (by omega)
    (by simpa using hs5) (by simp only [List.length_append, List.length_cons] at hf; omega)
  rw [(closeLet_items _).1] at hs6 ht6
  simp only [List.drop, List.cons_append, List.nil_append, List.getD_cons_succ, List.getD_cons_zero] at hs6 ht6
  have hp6 : st6.p.peekCount = 0 := (ht6 (by simp)).2
  obtain ⟨st7, he7, hs7, ht7, hp7, hfr7⟩ := fexpect_stream' (st := st6) (t := .tRightDelim) (by omega) hs6 rfl
  refine ⟨st7, ?_, hs7, by omega, (hfr05.trans hfr6).trans hfr7⟩
  show beginTag pf (ef + 4) ((f + 2) + 1) st = _
  unfold beginTag
  rw [fbind_run, hn1]
  simp only
  rw [fbind_run]
  have hpl : parseLet pf (ef + 4) (f + 2) ⟨.tLet, q + t.length + 4, kLet⟩ st1 =
      .ok (nodeCmd q t (.letc x b), st7) := by
    show parseLet pf (ef + 4) ((f + 1) + 1) _ st1 = _
    unfold parseLet
    rw [fbind_run, he2]
    simp only
    rw [fbind_run, hk3]
    simp only [show (ItemType.tRightDelim == ItemType.tColon) = false by decide, Bool.false_eq_true, if_false]
    rw [fbind_run, ha4]
    simp only
    rw [fbind_run, hn5]
    simp only [beq_self_eq_true, if_true]
    rw [fbind_run, ftail1_cons]
    simp only
    rw [fbind_run, hl6]
    simp only
    rw [fbind_run, he7]
    rfl
  rw [hpl]
  rfl


theorem cmd_foreach (ef : Nat) (x : Bytes) (e : SExp) (b : Blk) (he : e.ok) (hb : BlkSpec pf ef b) :
    CmdSpec pf ef (.foreach x e b) := by
  intro q t fuel st rest hin hpc hs hf
  have hit : itemsSegs q (segsCmd t (.foreach x e b)) = textItem t (q + t.length) ++ ((foreachTag x e).items (q + t.length) ++
      itemsSegs (q + t.length + (foreachTag x e).src.length) (closeBlk b (.close kForeach))) := by
    simp only [segsCmd, itemsSegs, closeBlk, List.append_assoc]
  rw [hit, (foreachTag_items x e (q + t.length)).1] at hs hf
  simp only [List.cons_append, List.nil_append] at hs hf
  rw [drop_len_succ] at hs
  obtain ⟨f, rfl⟩ : ∃ f, fuel = f + 3 := ⟨fuel - 3, by omega⟩
  obtain ⟨st1, hn1, hs1, ht1, hp1, hfr1⟩ := fnext_stream' hpc hs
  obtain ⟨st2, he2, hs2, ht2, hp2, hfr2⟩ := fexpect_stream' (st := st1) (t := .tDollarIdent) (by omega) hs1 rfl
  obtain ⟨st3, he3, hs3, ht3, hp3, hfr3⟩ := fexpect_stream' (st := st2) (t := .tIdent) (by omega) hs2 rfl
  obtain ⟨st4, hx4, hs4, hp4, hfr4⟩ := parseExpr0_simple pf ef e _ _ _ st3 (by omega) hs3 he (Or.inl rfl)
  obtain ⟨st5, he5, hs5, ht5, hp5, hfr5⟩ := fexpect_stream' (st := st4) (t := .tRightDelim) (by omega) hs4 rfl
  have hfr05 := (((hfr1.trans hfr2).trans hfr3).trans hfr4).trans hfr5
  obtain ⟨st6, hl6, hs6, ht6, hfr6⟩ := hb (.close kForeach) [.tIfempty, .tForeachEnd, .tForEnd]
    (q + t.length + (foreachTag x e).src.length) (f + 1) none .nil st5 rest
    (by show List.contains _ (closeType kForeach) = true; decide) (by decide) (Fr.clean hfr05 hin) (by omega)
    hs5 (by simp only [List.length_append, List.length_cons] at hf; omega)
  rw [(closeForeach_items _).1] at hs6 ht6
  simp only [List.drop, List.cons_append, List.nil_append, List.getD_cons_succ, List.getD_cons_zero] at hs6 ht6
  have hp6 : st6.p.peekCount = 0 := (ht6 (by simp)).2
  have ht6' := (ht6 (by simp)).1
  obtain ⟨st7, hb7, hs7, hp7, hfr7⟩ := fbackup_stream' (st := st6) (by omega)
  rw [ht6', hs6] at hs7
  obtain ⟨st8, hn8, hs8, ht8, hp8, hfr8⟩ := fnext_stream' (st := st7) (by omega) hs7
  obtain ⟨st9, he9, hs9, ht9, hp9, hfr9⟩ := fexpect_stream' (st := st8) (t := .tRightDelim) (by omega) hs8 rfl
  refine ⟨st9, ?_, hs9, by omega, (((hfr05.trans hfr6).trans hfr7).trans hfr8).trans hfr9⟩
  show beginTag pf (ef + 4) ((f + 2) + 1) st = _
  unfold beginTag
  rw [fbind_run, hn1]
  simp only
  rw [fbind_run, notmsg_run _ _ (Fr.clean hfr1 hin).1]
  simp only
  rw [fbind_run]
  have hpl : parseFor pf (ef + 4) (f + 2) ⟨.tForeach, q + t.length + 8, kForeach⟩ st1 =
      .ok (nodeCmd q t (.foreach x e b), st9) := by
    show parseFor pf (ef + 4) ((f + 1) + 1) _ st1 = _
    unfold parseFor
    rw [fbind_run, he2]
    simp only
    rw [fbind_run, he3]
    simp only [show (kwIn != kIn) = false by decide, Bool.false_eq_true, if_false]
    rw [fbind_run, hx4]
    simp only
    rw [fbind_run, he5]
    simp only
    rw [fbind_run, hl6]
    simp only
    rw [fbind_run, hb7]
    simp only
    rw [fbind_run, hn8]
    simp only [show (ItemType.tForeachEnd == ItemType.tIfempty) = false by decide, Bool.false_eq_true, if_false]
    rw [fbind_run]
    rw [fpure_run]
    simp only
    rw [fbind_run, he9]
    simp only
    rw [fbind_run, ftail1_cons]
    rfl
  rw [hpl]
  rfl


theorem cmd_foreachE (ef : Nat) (x : Bytes) (e : SExp) (b ie : Blk) (he : e.ok) (hb : BlkSpec pf ef b)
    (hie : BlkSpec pf ef ie) : CmdSpec pf ef (.foreachE x e b ie) := by
  intro q t fuel st rest hin hpc hs hf
  have hit : itemsSegs q (segsCmd t (.foreachE x e b ie)) = textItem t (q + t.length) ++ ((foreachTag x e).items (q + t.length) ++
      (itemsSegs (q + t.length + (foreachTag x e).src.length) (closeBlk b ifemptyTag) ++
        itemsSegs (q + t.length + (foreachTag x e).src.length + lenBlk b + ifemptyTag.src.length)
          (closeBlk ie (.close kForeach)))) := by
    simp only [segsCmd, itemsSegs, closeBlk, List.append_assoc, itemsSegs_append, lenBlk, lenS, srcSegs_append, srcSegs,
      List.length_append, List.append_nil]
    simp only [Nat.add_assoc]
  rw [hit, (foreachTag_items x e (q + t.length)).1] at hs hf
  simp only [List.cons_append, List.nil_append] at hs hf
  rw [drop_len_succ] at hs
  obtain ⟨f, rfl⟩ : ∃ f, fuel = f + 3 := ⟨fuel - 3, by omega⟩
  obtain ⟨st1, hn1, hs1, ht1, hp1, hfr1⟩ := fnext_stream' hpc hs
  obtain ⟨st2, he2, hs2, ht2, hp2, hfr2⟩ := fexpect_stream' (st := st1) (t := .tDollarIdent) (by omega) hs1 rfl
  obtain ⟨st3, he3, hs3, ht3, hp3, hfr3⟩ := fexpect_stream' (st := st2) (t := .tIdent) (by omega) hs2 rfl
  obtain ⟨st4, hx4, hs4, hp4, hfr4⟩ := parseExpr0_simple pf ef e _ _ _ st3 (by omega) hs3 he (Or.inl rfl)
  obtain ⟨st5, he5, hs5, ht5, hp5, hfr5⟩ := fexpect_stream' (st := st4) (t := .tRightDelim) (by omega) hs4 rfl
  have hfr05 := (((hfr1.trans hfr2).trans hfr3).trans hfr4).trans hfr5
  obtain ⟨st6, hl6, hs6, ht6, hfr6⟩ := hb ifemptyTag [.tIfempty, .tForeachEnd, .tForEnd]
    (q + t.length + (foreachTag x e).src.length) (f + 1) none .nil st5
    (itemsSegs (q + t.length + (foreachTag x e).src.length + lenBlk b + ifemptyTag.src.length) (closeBlk ie (.close kForeach)) ++ rest)
    (by show List.contains _ (wordType kIfempty) = true; decide) (by decide) (Fr.clean hfr05 hin) (by omega)
    (by rw [hs5]; simp) (by simp only [List.length_append, List.length_cons] at hf; omega)
  rw [(ifemptyTag_items _).1] at hs6 ht6
  simp only [List.drop, List.cons_append, List.nil_append, List.getD_cons_succ, List.getD_cons_zero] at hs6 ht6
  have hp6 : st6.p.peekCount = 0 := (ht6 (by simp [ifemptyTag])).2
  have ht6' := (ht6 (by simp [ifemptyTag])).1
  obtain ⟨st7, hb7, hs7, hp7, hfr7⟩ := fbackup_stream' (st := st6) (by omega)
  rw [ht6', hs6] at hs7
  obtain ⟨st8, hn8, hs8, ht8, hp8, hfr8⟩ := fnext_stream' (st := st7) (by omega) hs7
  obtain ⟨st9, he9, hs9, ht9, hp9, hfr9⟩ := fexpect_stream' (st := st8) (t := .tRightDelim) (by omega) hs8 rfl
  have hfr09 := (((hfr05.trans hfr6).trans hfr7).trans hfr8).trans hfr9
  obtain ⟨st10, hl10, hs10, ht10, hfr10⟩ := hie (.close kForeach) [.tForeachEnd, .tForEnd]
    (q + t.length + (foreachTag x e).src.length + lenBlk b + ifemptyTag.src.length) (f + 1) none .nil st9 rest
    (by show List.contains _ (closeType kForeach) = true; decide) (by decide) (Fr.clean hfr09 hin) (by omega)
    hs9 (by simp only [List.length_append, List.length_cons] at hf; omega)
  rw [(closeForeach_items _).1] at hs10 ht10
  simp only [List.drop, List.cons_append, List.nil_append, List.getD_cons_succ, List.getD_cons_zero] at hs10 ht10
  have hp10 : st10.p.peekCount = 0 := (ht10 (by simp)).2
  obtain ⟨st11, he11, hs11, ht11, hp11, hfr11⟩ := fexpect_stream' (st := st10) (t := .tRightDelim) (by omega) hs10 rfl
  refine ⟨st11, ?_, hs11, by omega, (hfr09.trans hfr10).trans hfr11⟩
  show beginTag pf (ef + 4) ((f + 2) + 1) st = _
  unfold beginTag
  rw [fbind_run, hn1]
  simp only
  rw [fbind_run, notmsg_run _ _ (Fr.clean hfr1 hin).1]
  simp only
  rw [fbind_run]
  have hpl : parseFor pf (ef + 4) (f + 2) ⟨.tForeach, q + t.length + 8, kForeach⟩ st1 =
      .ok (nodeCmd q t (.foreachE x e b ie), st11) := by
    show parseFor pf (ef + 4) ((f + 1) + 1) _ st1 = _
    unfold parseFor
    rw [fbind_run, he2]
    simp only
    rw [fbind_run, he3]
    simp only [show (kwIn != kIn) = false by decide, Bool.false_eq_true, if_false]
    rw [fbind_run, hx4]
    simp only
    rw [fbind_run, he5]
    simp only
    rw [fbind_run, hl6]
    simp only
    rw [fbind_run, hb7]
    simp only
    rw [fbind_run, hn8]
    simp only [beq_self_eq_true, if_true]
    rw [fbind_run, fbind_run, he9]
    simp only
    rw [fbind_run, hl10]
    simp only
    rw [fpure_run]
    simp only
    rw [fbind_run, he11]
    simp only
    rw [fbind_run, ftail1_cons]
    rfl
  rw [hpl]
  rfl

theorem closeBlk_len (q : Nat) (b : Blk) (g : Tag) :
    (g.items (q + lenBlk b)).length ≤ (itemsSegs q (closeBlk b g)).length := by
  simp only [closeBlk, itemsSegs_append, itemsSegs, lenBlk, lenS, List.length_append, List.length_nil, Nat.add_assoc]
  omega

theorem tail_els (ef : Nat) (b : Blk) (hb : BlkSpec pf ef b) : TailSpec pf ef (.els b) := by
  intro qt fuel pos conds isElse st rest hie hin hpc htop hs hf
  have hie' : isElse = false := by rcases hie with h | h <;> first | exact h | exact absurd h (by simp)
  subst hie'
  simp only [IfTail.head] at htop hs hf
  rw [(elseTag_items qt).1] at htop hs hf
  simp only [List.drop, List.getD_cons_succ, List.getD_cons_zero, List.cons_append, List.nil_append, segsTail,
    (elseTag_items qt).2] at htop hs hf
  obtain ⟨f, rfl⟩ : ∃ f, fuel = f + 1 := ⟨fuel - 1, by omega⟩
  obtain ⟨st1, hb1, hs1, hp1, hfr1⟩ := fbackup_stream' (st := st) (by omega)
  rw [htop, hs] at hs1
  obtain ⟨st2, hn2, hs2, ht2, hp2, hfr2⟩ := fnext_stream' (st := st1) (by omega) hs1
  obtain ⟨st3, he3, hs3, ht3, hp3, hfr3⟩ := fexpect_stream' (st := st2) (t := .tRightDelim) (by omega) hs2 rfl
  have hfr03 := (hfr1.trans hfr2).trans hfr3
  obtain ⟨st4, hl4, hs4, ht4, hfr4⟩ := hb (.close kIf) [.tElseif, .tElse, .tIfEnd] (qt + 6) f none .nil st3 rest
    (by show List.contains _ (closeType kIf) = true; decide) (by decide) (Fr.clean hfr03 hin) (by omega)
    (by rw [hs3]; rfl) (by simp only [List.length_cons, closeBlk] at hf ⊢; omega)
  obtain ⟨st5, hc5, hs5, hp5, hfr5⟩ := tail_fi pf ef (qt + 6 + lenBlk b) f pos
    (conds.append (.cons (.ifCond pos none (.list (headPos (itemsSegs (qt + 6) (closeBlk b (.close kIf))))
      (nodesBlk (qt + 6) b))) .nil)) true st4 rest (Or.inr rfl) (Fr.clean (hfr03.trans hfr4) hin)
    (ht4 (by simp)).2 (ht4 (by simp)).1 (by simpa [IfTail.head, segsTail, itemsSegs] using hs4)
    (by
      have hcl := closeBlk_len (qt + 6) b (.close kIf)
      rw [(closeIf_items _).1] at hcl
      simp only [IfTail.head, (closeIf_items _).1, segsTail, itemsSegs, List.length_cons, List.length_nil, closeBlk] at hf hcl ⊢
      omega)
  refine ⟨st5, ?_, hs5, hp5, (hfr03.trans hfr4).trans hfr5⟩
  unfold ifCont
  rw [fbind_run, hb1]
  simp only
  rw [fbind_run, hn2]
  simp only [show (ItemType.tElse == ItemType.tElseif) = false by decide, beq_self_eq_true, Bool.false_eq_true, if_false,
    if_true]
  rw [ifLoop_succ]
  simp only [Bool.not_true, Bool.false_eq_true, if_false]
  rw [fbind_run, fpure_run]
  simp only
  rw [fbind_run, he3]
  simp only
  rw [fbind_run, hl4]
  simp only [Option.getD_none, NodeList.append]
  rw [hc5]
  simp only [condsTail, nl_append_assoc, NodeList.append, nl_append_nil, (elseTag_items qt).2]

theorem tail_elif (ef : Nat) (e : SExp) (b : Blk) (r : IfTail) (he : e.ok) (hr : wfTail r) (hb : BlkSpec pf ef b)
    (hrs : TailSpec pf ef r) : TailSpec pf ef (.elif e b r) := by
  intro qt fuel pos conds isElse st rest hie hin hpc htop hs hf
  have hie' : isElse = false := by rcases hie with h | h <;> first | exact h | exact absurd h (by simp)
  subst hie'
  simp only [IfTail.head] at htop hs hf
  rw [(elseifTag_items e qt).1] at htop hs hf
  simp only [List.drop, List.getD_cons_succ, List.getD_cons_zero, List.cons_append, List.nil_append, segsTail,
    (elseifTag_items e qt).2] at htop hs hf
  have hsplit : itemsSegs (qt + (9 + e.elem.src.length)) (initBlk b ++ [(b.trail, r.head)] ++ segsTail r) =
      itemsSegs (qt + (9 + e.elem.src.length)) (closeBlk b r.head) ++
        itemsSegs (qt + (9 + e.elem.src.length) + lenBlk b + r.head.src.length) (segsTail r) := by
    simp only [closeBlk, itemsSegs_append, lenBlk, lenS, srcSegs_append, srcSegs, List.length_append, List.append_nil,
      Nat.add_assoc]
  rw [hsplit] at hs hf
  simp only [List.length_cons, List.length_append, List.length_nil] at hf
  obtain ⟨f, rfl⟩ : ∃ f, fuel = f + 1 := ⟨fuel - 1, by omega⟩
  obtain ⟨st1, hb1, hs1, hp1, hfr1⟩ := fbackup_stream' (st := st) (by omega)
  rw [htop, hs] at hs1
  obtain ⟨st2, hn2, hs2, ht2, hp2, hfr2⟩ := fnext_stream' (st := st1) (by omega) hs1
  obtain ⟨st3, hx3, hs3, hp3, hfr3⟩ := parseExpr0_simple pf ef e _ _ _ st2 (by omega) hs2 he (Or.inl rfl)
  obtain ⟨st4, he4, hs4, ht4, hp4, hfr4⟩ := fexpect_stream' (st := st3) (t := .tRightDelim) (by omega) hs3 rfl
  have hfr04 := ((hfr1.trans hfr2).trans hfr3).trans hfr4
  have hstop : Stops [.tElseif, .tElse, .tIfEnd] r.head := by
    cases r with
    | fi => show List.contains _ (closeType kIf) = true; decide
    | els _ => show List.contains _ (wordType kElse) = true; decide
    | elif _ _ _ => show List.contains _ (wordType kElseif) = true; decide
  have hne : r.head ≠ .eof := by cases r <;> simp [IfTail.head, elseTag, elseifTag]
  obtain ⟨st5, hl5, hs5, ht5, hfr5⟩ := hb r.head [.tElseif, .tElse, .tIfEnd] (qt + (9 + e.elem.src.length)) f none .nil st4
    (itemsSegs (qt + (9 + e.elem.src.length) + lenBlk b + r.head.src.length) (segsTail r) ++ rest)
    hstop (by decide) (Fr.clean hfr04 hin) (by omega)
    (by rw [hs4]; simp) (by omega)
  have hlen2 : 2 ≤ (r.head.items (qt + (9 + e.elem.src.length) + lenBlk b)).length := by
    cases r with
    | fi => simp [IfTail.head, Tag.items]
    | els _ => simp [IfTail.head, (elseTag_items _).1]
    | elif e' _ _ => simp [IfTail.head, (elseifTag_items e' _).1]
  obtain ⟨st6, hc6, hs6, hp6, hfr6⟩ := hrs (qt + (9 + e.elem.src.length) + lenBlk b) f pos
    (conds.append (.cons (.ifCond pos (some (exprOf (qt + 8 + e.elem.src.length) e))
      (.list (headPos (itemsSegs (qt + (9 + e.elem.src.length)) (closeBlk b r.head))) (nodesBlk (qt + (9 + e.elem.src.length)) b))) .nil))
    false st5 rest (Or.inl rfl) (Fr.clean (hfr04.trans hfr5) hin) (ht5 hne).2 (ht5 hne).1
    (by rw [hs5])
    (by
      have hcl := closeBlk_len (qt + (9 + e.elem.src.length)) b r.head
      omega)
  refine ⟨st6, ?_, hs6, hp6, (hfr04.trans hfr5).trans hfr6⟩
  unfold ifCont
  rw [fbind_run, hb1]
  simp only
  rw [fbind_run, hn2]
  simp only [beq_self_eq_true, if_true, Bool.false_eq_true, if_false]
  rw [ifLoop_succ]
  simp only [Bool.not_false, if_true]
  rw [fbind_run, fbind_run, hx3]
  simp only
  rw [fpure_run]
  simp only
  rw [fbind_run, he4]
  simp only
  rw [fbind_run, hl5]
  simp only [Option.getD_none, NodeList.append]
  rw [hc6]
  simp only [condsTail, nl_append_assoc, NodeList.append, (elseifTag_items e qt).2]

theorem cmd_if (ef : Nat) (e : SExp) (b : Blk) (tl : IfTail) (he : e.ok) (hb : BlkSpec pf ef b) (htl : TailSpec pf ef tl) :
    CmdSpec pf ef (.ifc e b tl) := by
  intro q t fuel st rest hin hpc hs hf
  have hit : itemsSegs q (segsCmd t (.ifc e b tl)) = textItem t (q + t.length) ++ ((ifTag e).items (q + t.length) ++
      (itemsSegs (q + t.length + (ifTag e).src.length) (closeBlk b tl.head) ++
        itemsSegs (q + t.length + (ifTag e).src.length + lenBlk b + tl.head.src.length) (segsTail tl))) := by
    simp only [segsCmd, itemsSegs, closeBlk, List.append_assoc, itemsSegs_append, lenBlk, lenS, srcSegs_append, srcSegs,
      List.length_append, List.append_nil]
    simp only [Nat.add_assoc]
  rw [hit, (ifTag_items e (q + t.length)).1] at hs hf
  simp only [List.cons_append, List.nil_append] at hs hf
  rw [drop_len_succ] at hs
  obtain ⟨f, rfl⟩ : ∃ f, fuel = f + 3 := ⟨fuel - 3, by omega⟩
  obtain ⟨st1, hn1, hs1, ht1, hp1, hfr1⟩ := fnext_stream' hpc hs
  obtain ⟨st2, hx2, hs2, hp2, hfr2⟩ := parseExpr0_simple pf ef e _ _ _ st1 (by omega) hs1 he (Or.inl rfl)
  obtain ⟨st3, he3, hs3, ht3, hp3, hfr3⟩ := fexpect_stream' (st := st2) (t := .tRightDelim) (by omega) hs2 rfl
  have hfr03 := (hfr1.trans hfr2).trans hfr3
  have hstop : Stops [.tElseif, .tElse, .tIfEnd] tl.head := by
    cases tl with
    | fi => show List.contains _ (closeType kIf) = true; decide
    | els _ => show List.contains _ (wordType kElse) = true; decide
    | elif _ _ _ => show List.contains _ (wordType kElseif) = true; decide
  have hne : tl.head ≠ .eof := by cases tl <;> simp [IfTail.head, elseTag, elseifTag]
  obtain ⟨st4, hl4, hs4, ht4, hfr4⟩ := hb tl.head [.tElseif, .tElse, .tIfEnd] (q + t.length + (ifTag e).src.length) (f + 1)
    none .nil st3
    (itemsSegs (q + t.length + (ifTag e).src.length + lenBlk b + tl.head.src.length) (segsTail tl) ++ rest)
    hstop (by decide) (Fr.clean hfr03 hin) (by omega)
    (by rw [hs3]; simp) (by simp only [List.length_cons, List.length_append] at hf ⊢; omega)
  obtain ⟨st5, hc5, hs5, hp5, hfr5⟩ := htl (q + t.length + (ifTag e).src.length + lenBlk b) (f + 1) (q + t.length + 3)
    (.cons (.ifCond (q + t.length + 3) (some (exprOf (q + t.length + 4 + e.elem.src.length) e))
      (.list (headPos (itemsSegs (q + t.length + (ifTag e).src.length) (closeBlk b tl.head)))
        (nodesBlk (q + t.length + (ifTag e).src.length) b))) .nil)
    false st4 rest (Or.inl rfl) (Fr.clean (hfr03.trans hfr4) hin) (ht4 hne).2 (ht4 hne).1
    (by rw [hs4])
    (by
      have hcl := closeBlk_len (q + t.length + (ifTag e).src.length) b tl.head
      simp only [List.length_cons, List.length_append, List.length_nil] at hf
      omega)
  refine ⟨st5, ?_, hs5, hp5, (hfr03.trans hfr4).trans hfr5⟩
  show beginTag pf (ef + 4) ((f + 2) + 1) st = _
  unfold beginTag
  rw [fbind_run, hn1]
  simp only
  rw [fbind_run, notmsg_run _ _ (Fr.clean hfr1 hin).1]
  simp only
  rw [fbind_run]
  have hpl : ifLoop pf (ef + 4) (f + 2) (q + t.length + 3) false .nil st1 = .ok (nodeCmd q t (.ifc e b tl), st5) := by
    show ifLoop pf (ef + 4) ((f + 1) + 1) _ false .nil st1 = _
    rw [ifLoop_succ]
    simp only [Bool.not_false, if_true]
    rw [fbind_run, fbind_run, hx2]
    simp only
    rw [fpure_run]
    simp only
    rw [fbind_run, he3]
    simp only
    rw [fbind_run, hl4]
    simp only [Option.getD_none, NodeList.append]
    rw [hc5]
    simp only [nodeCmd, NodeList.append]
  rw [hpl]
  rfl



/-- `parseSwitch`'s loop on the tokens of the cases `cs`, the `{` of their first tag already read -/
def CasesSpec (ef : Nat) (cs : Cases) : Prop :=
  ∀ (qc fuel pos : Nat) (value : Expr) (sd : Bool) (cases : NodeList) (st : FState) (rest : List Item),
    cs.okSaw sd → Clean st → st.p.peekCount ≤ 1 →
    stream st.p = (cs.head.items qc).drop 1 ++ (itemsSegs (qc + cs.head.src.length) (segsCases cs) ++ rest) →
    4 * ((cs.head.items qc).length + (itemsSegs (qc + cs.head.src.length) (segsCases cs)).length) + 16 ≤ fuel →
    ∃ st', switchLoop pf (ef + 4) fuel pos value .tSwitchEnd sd cases st =
        .ok (.switch pos value (cases.append (caseNodes qc cs)), st') ∧
      stream st'.p = rest ∧ st'.p.peekCount ≤ 2 ∧ Fr st st'

theorem switchLoop_succ (ef fuel pos : Nat) (value : Expr) (endT : ItemType) (sd : Bool) (cases : NodeList) :
    switchLoop pf ef (fuel + 1) pos value endT sd cases = (do
      let tok ← FileParser.next
      if tok.typ == .tLeftDelim then switchLoop pf ef fuel pos value endT sd cases
      else if tok.typ == .tText then
        if allSpace tok.val then switchLoop pf ef fuel pos value endT sd cases
        else FileParser.unexpected (atTextStart tok)
      else if tok.typ == .tCase || tok.typ == .tDefault then
        if tok.typ == .tDefault && sd then FileParser.unexpected tok
        else do
          let c ← caseLoop pf ef fuel tok []
          switchLoop pf ef fuel pos value endT (sd || tok.typ == .tDefault) (cases.append (.cons c .nil))
      else if tok.typ == endT then do
        let _ ← FileParser.expect .tRightDelim
        pure (.switch pos value cases)
      else if tok.typ == .tComment then switchLoop pf ef fuel pos value endT sd cases
      else FileParser.unexpected tok) := by
  rw [switchLoop]

theorem cases_nil (ef : Nat) : CasesSpec pf ef .nil := by
  intro qc fuel pos value sd cases st rest _ hin hpc hs hf
  simp only [Cases.head] at hs hf
  rw [(closeSwitch_items qc).1] at hs hf
  simp only [List.drop, List.cons_append, List.nil_append, segsCases, itemsSegs, List.length_cons, List.length_nil] at hs hf
  obtain ⟨f, rfl⟩ : ∃ f, fuel = f + 1 := ⟨fuel - 1, by omega⟩
  obtain ⟨st1, hn1, hs1, ht1, hp1, hfr1⟩ := fnext_stream' (st := st) (by omega) hs
  obtain ⟨st2, he2, hs2, ht2, hp2, hfr2⟩ := fexpect_stream' (st := st1) (t := .tRightDelim) (by omega) hs1 rfl
  refine ⟨st2, ?_, hs2, by omega, hfr1.trans hfr2⟩
  rw [switchLoop_succ, fbind_run, hn1]
  simp only [show (ItemType.tSwitchEnd == ItemType.tLeftDelim) = false by decide,
    show (ItemType.tSwitchEnd == ItemType.tText) = false by decide,
    show (ItemType.tSwitchEnd == ItemType.tCase || ItemType.tSwitchEnd == ItemType.tDefault) = false by decide,
    beq_self_eq_true, Bool.false_eq_true, if_false, if_true]
  rw [fbind_run, he2]
  simp only [caseNodes, nl_append_nil]
  rfl

theorem stops_cases (r : Cases) : Stops [.tCase, .tDefault, .tSwitchEnd, .tPluralEnd] r.head ∧ r.head ≠ .eof := by
  cases r with
  | nil => exact ⟨by show List.contains _ (closeType kSwitch) = true; decide, by simp [Cases.head]⟩
  | case _ _ _ => exact ⟨by show List.contains _ (wordType kCase) = true; decide, by simp [Cases.head, caseTag]⟩
  | dflt _ _ => exact ⟨by show List.contains _ (wordType kDefault) = true; decide, by simp [Cases.head, defaultTag]⟩

theorem head_items_two (r : Cases) (q : Nat) :
    ∃ ld k more, r.head.items q = ld :: k :: more := by
  cases r with
  | nil => exact ⟨_, _, _, (closeSwitch_items q).1⟩
  | case v _ _ => exact ⟨_, _, _, (caseTag_items v q).1⟩
  | dflt _ _ => exact ⟨_, _, _, (defaultTag_items q).1⟩

/-- what `caseLoop` and the next round of `switchLoop` need behind a case body -/
theorem after_body (ef : Nat) (b : Blk) (r : Cases) (hb : BlkSpec pf ef b) (hrs : CasesSpec pf ef r) (qb f pos : Nat)
    (value : Expr) (st : FState) (rest : List Item) (hin : Clean st)
    (hpc : st.p.peekCount ≤ 2)
    (hs : stream st.p = itemsSegs qb (closeBlk b r.head) ++ (itemsSegs (qb + lenBlk b + r.head.src.length) (segsCases r) ++ rest))
    (hf : 4 * ((itemsSegs qb (closeBlk b r.head)).length +
      (itemsSegs (qb + lenBlk b + r.head.src.length) (segsCases r)).length) + 17 ≤ f) :
    ∃ st1 st2, itemListLoop pf (ef + 4) f [.tCase, .tDefault, .tSwitchEnd, .tPluralEnd] none .nil st =
        .ok (.list (headPos (itemsSegs qb (closeBlk b r.head))) (nodesBlk qb b), st1) ∧
      FileParser.backup st1 = .ok ((), st2) ∧
      (∀ sd', r.okSaw sd' → ∀ cases', ∃ st3, switchLoop pf (ef + 4) (f + 1) pos value .tSwitchEnd sd' cases' st2 =
          .ok (.switch pos value (cases'.append (caseNodes (qb + lenBlk b) r)), st3) ∧
        stream st3.p = rest ∧ st3.p.peekCount ≤ 2 ∧ Fr st st3) := by
  obtain ⟨hstop, hne⟩ := stops_cases r
  obtain ⟨st1, hl1, hs1, ht1, hfr1⟩ := hb r.head [.tCase, .tDefault, .tSwitchEnd, .tPluralEnd] qb f none .nil st
    (itemsSegs (qb + lenBlk b + r.head.src.length) (segsCases r) ++ rest) hstop (by decide) hin hpc hs (by omega)
  obtain ⟨st2, hb2, hs2, hp2, hfr2⟩ := fbackup_stream' (st := st1) (by have := (ht1 hne).2; omega)
  obtain ⟨ld, k, more, hit⟩ := head_items_two r (qb + lenBlk b)
  have hs2' : stream st2.p = (r.head.items (qb + lenBlk b)).drop 1 ++
      (itemsSegs (qb + lenBlk b + r.head.src.length) (segsCases r) ++ rest) := by
    rw [hs2, (ht1 hne).1, hs1, hit]; rfl
  refine ⟨st1, st2, ?_, hb2, ?_⟩
  · rw [hl1]; simp only [Option.getD_none, NodeList.append]
  · intro sd' hsd' cases'
    have hcl := closeBlk_len qb b r.head
    obtain ⟨st3, hl3, hs3, hp3, hfr3⟩ := hrs (qb + lenBlk b) (f + 1) pos value sd' cases' st2 rest hsd'
      (Fr.clean (hfr1.trans hfr2) hin) (by have := (ht1 hne).2; omega) hs2' (by omega)
    exact ⟨st3, hl3, hs3, hp3, (hfr1.trans hfr2).trans hfr3⟩

theorem caseLoop_succ (ef fuel : Nat) (token : Item) (values : List Expr) :
    caseLoop pf ef (fuel + 1) token values = (do
      let values ← (if token.typ != .tDefault then do
          let e ← parseExpr0 pf ef
          pure (values ++ [e])
        else pure values : FP (List Expr))
      let tok ← FileParser.next
      if tok.typ == .tComma then caseLoop pf ef fuel token values
      else if tok.typ == .tRightDelim then do
        let body ← itemListLoop pf ef fuel [.tCase, .tDefault, .tSwitchEnd, .tPluralEnd] none .nil
        FileParser.backup
        pure (.switchCase token.pos values body)
      else FileParser.unexpected tok) := by
  rw [caseLoop]

theorem cases_case (ef : Nat) (v : SExp) (b : Blk) (r : Cases) (hv : v.ok) (hb : BlkSpec pf ef b) (hrs : CasesSpec pf ef r) :
    CasesSpec pf ef (.case v b r) := by
  intro qc fuel pos value sd cases st rest hsd hin hpc hs hf
  simp only [Cases.head] at hs hf
  rw [(caseTag_items v qc).1] at hs hf
  simp only [List.drop, List.cons_append, List.nil_append, segsCases, (caseTag_items v qc).2, List.length_cons,
    List.length_nil] at hs hf
  have hsplit : itemsSegs (qc + (7 + v.elem.src.length)) (initBlk b ++ [(b.trail, r.head)] ++ segsCases r) =
      itemsSegs (qc + (7 + v.elem.src.length)) (closeBlk b r.head) ++
        itemsSegs (qc + (7 + v.elem.src.length) + lenBlk b + r.head.src.length) (segsCases r) := by
    simp only [closeBlk, itemsSegs_append, lenBlk, lenS, srcSegs_append, srcSegs, List.length_append, List.append_nil,
      Nat.add_assoc]
  rw [hsplit] at hs hf
  simp only [List.length_append] at hf
  obtain ⟨f, rfl⟩ : ∃ f, fuel = f + 2 := ⟨fuel - 2, by omega⟩
  obtain ⟨st1, hn1, hs1, ht1, hp1, hfr1⟩ := fnext_stream' (st := st) (by omega) hs
  obtain ⟨st2, hx2, hs2, hp2, hfr2⟩ := parseExpr0_simple pf ef v _ _ _ st1 (by omega) hs1 hv (Or.inl rfl)
  obtain ⟨st3, hn3, hs3, ht3, hp3, hfr3⟩ := fnext_stream' (st := st2) (by omega) hs2
  have hfr03 := (hfr1.trans hfr2).trans hfr3
  obtain ⟨st4, st5, hl4, hb5, hrest⟩ := after_body pf ef b r hb hrs (qc + (7 + v.elem.src.length)) f pos value
    st3 rest (Fr.clean hfr03 hin) (by omega) (by rw [hs3]; simp) (by omega)
  obtain ⟨st6, hl6, hs6, hp6, hfr6⟩ := hrest sd hsd (cases.append (.cons (.switchCase (qc + 5) [exprOf (qc + 6 + v.elem.src.length) v]
    (.list (headPos (itemsSegs (qc + (7 + v.elem.src.length)) (closeBlk b r.head))) (nodesBlk (qc + (7 + v.elem.src.length)) b))) .nil))
  refine ⟨st6, ?_, hs6, hp6, hfr03.trans hfr6⟩
  show switchLoop pf (ef + 4) ((f + 1) + 1) pos value .tSwitchEnd sd cases st = _
  rw [switchLoop_succ, fbind_run, hn1]
  simp only [show (ItemType.tCase == ItemType.tLeftDelim) = false by decide,
    show (ItemType.tCase == ItemType.tText) = false by decide, beq_self_eq_true, Bool.true_or, Bool.false_eq_true,
    if_false, if_true, show (ItemType.tCase == ItemType.tDefault) = false by decide, Bool.false_and, Bool.or_false]
  rw [fbind_run]
  have hcl : caseLoop pf (ef + 4) (f + 1) ⟨.tCase, qc + 5, kCase⟩ [] st1 =
      .ok (.switchCase (qc + 5) [exprOf (qc + 6 + v.elem.src.length) v]
        (.list (headPos (itemsSegs (qc + (7 + v.elem.src.length)) (closeBlk b r.head))) (nodesBlk (qc + (7 + v.elem.src.length)) b)), st5) := by
    rw [caseLoop_succ]
    simp only [show (ItemType.tCase != ItemType.tDefault) = true by decide, if_true]
    rw [fbind_run, fbind_run, hx2]
    simp only
    rw [fpure_run]
    simp only
    rw [fbind_run, hn3]
    simp only [show (ItemType.tRightDelim == ItemType.tComma) = false by decide, beq_self_eq_true, Bool.false_eq_true,
      if_false, if_true]
    rw [fbind_run, hl4]
    simp only
    rw [fbind_run, hb5]
    rfl
  rw [hcl]
  simp only
  rw [hl6]
  simp only [caseNodes, nl_append_assoc, NodeList.append, (caseTag_items v qc).2]

theorem cases_dflt (ef : Nat) (b : Blk) (r : Cases) (hb : BlkSpec pf ef b) (hrs : CasesSpec pf ef r) :
    CasesSpec pf ef (.dflt b r) := by
  intro qc fuel pos value sd cases st rest hsd hin hpc hs hf
  obtain ⟨rfl, hsd'⟩ := hsd
  simp only [Cases.head] at hs hf
  rw [(defaultTag_items qc).1] at hs hf
  simp only [List.drop, List.cons_append, List.nil_append, segsCases, (defaultTag_items qc).2, List.length_cons,
    List.length_nil] at hs hf
  have hsplit : itemsSegs (qc + 9) (initBlk b ++ [(b.trail, r.head)] ++ segsCases r) =
      itemsSegs (qc + 9) (closeBlk b r.head) ++ itemsSegs (qc + 9 + lenBlk b + r.head.src.length) (segsCases r) := by
    simp only [closeBlk, itemsSegs_append, lenBlk, lenS, srcSegs_append, srcSegs, List.length_append, List.append_nil,
      Nat.add_assoc]
  rw [hsplit] at hs hf
  simp only [List.length_append] at hf
  obtain ⟨f, rfl⟩ : ∃ f, fuel = f + 2 := ⟨fuel - 2, by omega⟩
  obtain ⟨st1, hn1, hs1, ht1, hp1, hfr1⟩ := fnext_stream' (st := st) (by omega) hs
  obtain ⟨st3, hn3, hs3, ht3, hp3, hfr3⟩ := fnext_stream' (st := st1) (by omega) hs1
  have hfr03 := hfr1.trans hfr3
  obtain ⟨st4, st5, hl4, hb5, hrest⟩ := after_body pf ef b r hb hrs (qc + 9) f pos value
    st3 rest (Fr.clean hfr03 hin) (by omega) (by rw [hs3]; simp) (by omega)
  obtain ⟨st6, hl6, hs6, hp6, hfr6⟩ := hrest true hsd' (cases.append (.cons (.switchCase (qc + 8) []
    (.list (headPos (itemsSegs (qc + 9) (closeBlk b r.head))) (nodesBlk (qc + 9) b))) .nil))
  refine ⟨st6, ?_, hs6, hp6, hfr03.trans hfr6⟩
  show switchLoop pf (ef + 4) ((f + 1) + 1) pos value .tSwitchEnd false cases st = _
  rw [switchLoop_succ, fbind_run, hn1]
  simp only [show (ItemType.tDefault == ItemType.tLeftDelim) = false by decide,
    show (ItemType.tDefault == ItemType.tText) = false by decide, beq_self_eq_true, Bool.or_true, Bool.false_eq_true,
    if_false, if_true, Bool.and_false, Bool.false_or]
  rw [fbind_run]
  have hcl : caseLoop pf (ef + 4) (f + 1) ⟨.tDefault, qc + 8, kDefault⟩ [] st1 =
      .ok (.switchCase (qc + 8) []
        (.list (headPos (itemsSegs (qc + 9) (closeBlk b r.head))) (nodesBlk (qc + 9) b)), st5) := by
    rw [caseLoop_succ]
    simp only [show (ItemType.tDefault != ItemType.tDefault) = false by decide, Bool.false_eq_true, if_false]
    rw [fbind_run, fpure_run]
    simp only
    rw [fbind_run, hn3]
    simp only [show (ItemType.tRightDelim == ItemType.tComma) = false by decide, beq_self_eq_true, Bool.false_eq_true,
      if_false, if_true]
    rw [fbind_run, hl4]
    simp only
    rw [fbind_run, hb5]
    rfl
  rw [hcl]
  simp only
  rw [hl6]
  simp only [caseNodes, nl_append_assoc, NodeList.append, (defaultTag_items qc).2]

theorem cmd_switch (ef : Nat) (e : SExp) (cs : Cases) (he : e.ok) (hok : cs.okSaw false) (hcs : CasesSpec pf ef cs) :
    CmdSpec pf ef (.switch e cs) := by
  intro q t fuel st rest hin hpc hs hf
  have hit : itemsSegs q (segsCmd t (.switch e cs)) = textItem t (q + t.length) ++ ((switchTag e).items (q + t.length) ++
      (cs.head.items (q + t.length + (switchTag e).src.length) ++
        itemsSegs (q + t.length + (switchTag e).src.length + cs.head.src.length) (segsCases cs))) := by
    simp only [segsCmd, itemsSegs, List.append_assoc, textItem, List.length_nil, Nat.lt_irrefl, false_and, if_false,
      List.nil_append, Nat.add_zero]
  rw [hit, (switchTag_items e (q + t.length)).1] at hs hf
  simp only [List.cons_append, List.nil_append] at hs hf
  rw [drop_len_succ] at hs
  simp only [List.length_append, List.length_cons] at hf
  obtain ⟨ld, k, more, hhd⟩ := head_items_two cs (q + t.length + (switchTag e).src.length)
  have hld : ld = ⟨.tLeftDelim, q + t.length + (switchTag e).src.length + 1, [123]⟩ := by
    cases cs with
    | nil => have := (closeSwitch_items (q + t.length + (switchTag e).src.length)).1; simp only [Cases.head] at hhd; rw [this] at hhd; simp at hhd; exact hhd.1.symm
    | case v _ _ => have := (caseTag_items v (q + t.length + (switchTag e).src.length)).1; simp only [Cases.head] at hhd; rw [this] at hhd; simp at hhd; exact hhd.1.symm
    | dflt _ _ => have := (defaultTag_items (q + t.length + (switchTag e).src.length)).1; simp only [Cases.head] at hhd; rw [this] at hhd; simp at hhd; exact hhd.1.symm
  obtain ⟨f, rfl⟩ : ∃ f, fuel = f + 4 := ⟨fuel - 4, by omega⟩
  obtain ⟨st1, hn1, hs1, ht1, hp1, hfr1⟩ := fnext_stream' hpc hs
  obtain ⟨st2, hx2, hs2, hp2, hfr2⟩ := parseExpr0_simple pf ef e _ _ _ st1 (by omega) hs1 he (Or.inl rfl)
  obtain ⟨st3, he3, hs3, ht3, hp3, hfr3⟩ := fexpect_stream' (st := st2) (t := .tRightDelim) (by omega) hs2 rfl
  rw [hhd] at hs3
  obtain ⟨st4, hn4, hs4, ht4, hp4, hfr4⟩ := fnext_stream' (st := st3) (by omega) (by simpa using hs3)
  have hfr04 := ((hfr1.trans hfr2).trans hfr3).trans hfr4
  obtain ⟨st5, hl5, hs5, hp5, hfr5⟩ := hcs (q + t.length + (switchTag e).src.length) (f + 1) (q + t.length + 7)
    (exprOf (q + t.length + 8 + e.elem.src.length) e) false .nil st4 rest hok (Fr.clean hfr04 hin) (by omega)
    (by rw [hs4, hhd]; simp) (by omega)
  refine ⟨st5, ?_, hs5, hp5, hfr04.trans hfr5⟩
  show beginTag pf (ef + 4) ((f + 3) + 1) st = _
  unfold beginTag
  rw [fbind_run, hn1]
  simp only
  rw [fbind_run, notmsg_run _ _ (Fr.clean hfr1 hin).1]
  simp only
  rw [fbind_run]
  have hps : parseSwitch pf (ef + 4) (f + 3) ⟨.tSwitch, q + t.length + 7, kSwitch⟩ .tSwitchEnd st1 =
      .ok (nodeCmd q t (.switch e cs), st5) := by
    show parseSwitch pf (ef + 4) ((f + 2) + 1) _ _ st1 = _
    unfold parseSwitch
    rw [fbind_run, hx2]
    simp only
    rw [fbind_run, he3]
    simp only
    show switchLoop pf (ef + 4) ((f + 1) + 1) _ _ _ _ _ st3 = _
    rw [switchLoop_succ, fbind_run, hn4]
    simp only [hld, beq_self_eq_true, if_true]
    rw [hl5]
    simp only [nodeCmd, NodeList.append]
  rw [hps]
  rfl


/-! ### `{call}` -/

/-- `parseAttrs` before `}` / `/}`: no attributes -/
theorem parseAttrs_term (allowed : List Bytes) (f : Nat) (rd : Item) (s : List Item) (st : FState) (hpc : st.p.peekCount ≤ 2)
    (hs : stream st.p = rd :: s) (hrd : isTerm rd.typ) (result : List (Bytes × Bytes) := []) :
    ∃ st', parseAttrs allowed (f + 1) result st = .ok (result, st') ∧ stream st'.p = rd :: s ∧ st'.p.peekCount ≤ 2 ∧
      (st.p.peekCount ≤ 1 → st'.p.peekCount ≤ 1) ∧ Fr st st' := by
  obtain ⟨st1, hn1, hs1, ht1, hp1, hfr1⟩ := fnext_stream' hpc hs
  obtain ⟨st2, hb2, hs2, hp2, hfr2⟩ := fbackup_stream' (st := st1) (by omega)
  refine ⟨st2, ?_, by rw [hs2, ht1, hs1], by omega, fun _ => by omega, hfr1.trans hfr2⟩
  unfold parseAttrs
  rw [fbind_run, hn1]
  rcases hrd with h | h
  · simp only [h, show (ItemType.tRightDelim == ItemType.tIdent) = false by decide, Bool.false_eq_true, if_false,
      beq_self_eq_true, Bool.true_or, if_true]
    rw [fbind_run, hb2]; rfl
  · simp only [h, show (ItemType.tRightDelimEnd == ItemType.tIdent) = false by decide, Bool.false_eq_true, if_false,
      beq_self_eq_true, Bool.or_true, if_true]
    rw [fbind_run, hb2]; rfl

/-- `t.backup2(t1)` after two `next`s: both tokens are back on the stream -/
theorem fbackup2_stream' {st : FState} (t1 : Item) (hpc : st.p.peekCount = 0) :
    ∃ st', FileParser.backup2 t1 st = .ok ((), st') ∧ stream st'.p = t1 :: top st.p :: stream st.p ∧
      st'.p.peekCount = 2 ∧ Fr st st' := by
  refine ⟨{ st with p := { st.p with tok1 := t1, peekCount := 2 } }, rfl, ?_, rfl, rfl, rfl, rfl⟩
  simp [stream, pending, top, hpc]

/-- the head of a `{call .name …}` without attributes -/
theorem parseCallHead_plain (f : Nat) (name : Bytes) (pos : Nat) (nxt : Item) (s : List Item) (st : FState)
    (hcl : Clean st) (hpc : st.p.peekCount ≤ 2) (hs : stream st.p = ⟨.tDotIdent, pos, 46 :: name⟩ :: nxt :: s)
    (hn : isTerm nxt.typ) :
    ∃ st', parseCallHead pf (f + 1) st = .ok ((46 :: name, false, none), st') ∧ stream st'.p = nxt :: s ∧
      st'.p.peekCount ≤ 1 ∧ Fr st st' := by
  obtain ⟨st1, hn1, hs1, ht1, hp1, hfr1⟩ := fnext_stream' hpc hs
  obtain ⟨st2, ha2, hs2, _, hp2, hfr2⟩ := parseAttrs_term [kName, kData] f nxt s st1 (by omega) hs1 hn
  refine ⟨st2, ?_, hs2, hp2 (by omega), hfr1.trans hfr2⟩
  unfold parseCallHead
  rw [fbind_run, hn1]
  simp only [beq_self_eq_true, if_true]
  rw [fbind_run, fpure_run]
  simp only
  rw [fbind_run, ha2]
  have hne : ((46 :: name : Bytes) == []) = false := by simp
  simp only [hne, Bool.false_eq_true, if_false]
  rw [fbind_run, get_run]
  simp only [beq_self_eq_true, if_true]
  have hns : st2.ns = [] := (Fr.clean (hfr1.trans hfr2) hcl).2
  rw [fbind_run, fpure_run]
  simp only [hns, List.nil_append, lookup, List.find?_nil, Option.map_none]
  rfl

theorem cmd_callSelf (ef : Nat) (name : Bytes) : CmdSpec pf ef (.callSelf name) := by
  intro q t fuel st rest hin hpc hs hf
  have hit : itemsSegs q (segsCmd t (.callSelf name)) = textItem t (q + t.length) ++ (callSelfTag name).items (q + t.length) := by
    simp only [segsCmd, itemsSegs, List.append_nil]
  rw [hit, (callSelfTag_items name (q + t.length)).1] at hs hf
  rw [drop_len_succ] at hs
  obtain ⟨f, rfl⟩ : ∃ f, fuel = f + 3 := ⟨fuel - 3, by omega⟩
  obtain ⟨st1, hn1, hs1, ht1, hp1, hfr1⟩ := fnext_stream' hpc (by simpa using hs)
  obtain ⟨st2, hh2, hs2, hp2, hfr2⟩ := parseCallHead_plain pf f name _ _ _ st1 (Fr.clean hfr1 hin) (by omega) hs1 (Or.inr rfl)
  obtain ⟨st3, hn3, hs3, ht3, hp3, hfr3⟩ := fnext_stream' (st := st2) (by omega) hs2
  refine ⟨st3, ?_, hs3, by omega, (hfr1.trans hfr2).trans hfr3⟩
  show beginTag pf (ef + 4) ((f + 2) + 1) st = _
  unfold beginTag
  rw [fbind_run, hn1]
  simp only
  rw [fbind_run]
  have hpc' : parseCall pf (ef + 4) (f + 2) ⟨.tCall, q + t.length + 5, kCall⟩ st1 =
      .ok (nodeCmd q t (.callSelf name), st3) := by
    show parseCall pf (ef + 4) ((f + 1) + 1) _ st1 = _
    unfold parseCall
    rw [fbind_run, hh2]
    simp only
    rw [fbind_run, hn3]
    simp only [beq_self_eq_true, if_true]
    rfl
  rw [hpc']
  rfl


/-- the head of `{call .name data="all" …}` -/
theorem parseCallHead_all (f : Nat) (name : Bytes) (p1 p2 p3 p4 : Nat) (nxt : Item) (s : List Item) (st : FState)
    (hcl : Clean st) (hpc : st.p.peekCount ≤ 2)
    (hs : stream st.p = ⟨.tDotIdent, p1, 46 :: name⟩ :: ⟨.tIdent, p2, kData⟩ :: ⟨.tEquals, p3, [61]⟩ ::
      ⟨.tString, p4, 34 :: (kAll ++ [34])⟩ :: nxt :: s)
    (hn : isTerm nxt.typ) :
    ∃ st', parseCallHead pf (f + 2) st = .ok ((46 :: name, true, none), st') ∧ stream st'.p = nxt :: s ∧
      st'.p.peekCount ≤ 1 ∧ Fr st st' := by
  obtain ⟨st1, hn1, hs1, ht1, hp1, hfr1⟩ := fnext_stream' hpc hs
  obtain ⟨st2, hn2, hs2, ht2, hp2, hfr2⟩ := fnext_stream' (st := st1) (by omega) hs1
  obtain ⟨st3, he3, hs3, ht3, hp3, hfr3⟩ := fexpect_stream' (st := st2) (t := .tEquals) (by omega) hs2 rfl
  obtain ⟨st4, he4, hs4, ht4, hp4, hfr4⟩ := fexpect_stream' (st := st3) (t := .tString) (by omega) hs3 rfl
  obtain ⟨st5, ha5, hs5, _, hp5, hfr5⟩ := parseAttrs_term [kName, kData] f nxt s st4 (by omega) hs4 hn [(kData, kAll)]
  have hfr05 := (((hfr1.trans hfr2).trans hfr3).trans hfr4).trans hfr5
  refine ⟨st5, ?_, hs5, hp5 (by omega), hfr05⟩
  have hattrs : parseAttrs [kName, kData] (f + 2) [] st1 = .ok ([(kData, kAll)], st5) := by
    show parseAttrs [kName, kData] ((f + 1) + 1) [] st1 = _
    rw [parseAttrs]
    rw [fbind_run, hn2]
    simp only [beq_self_eq_true, if_true, show (![kName, kData].contains kData) = false by decide, Bool.false_eq_true,
      if_false]
    rw [fbind_run, he3]
    simp only
    rw [fbind_run, he4]
    have hgu : goUnquote (34 :: (kAll ++ [34])) = some kAll := by decide
    simp only [hgu, List.filter_nil]
    exact ha5
  unfold parseCallHead
  rw [fbind_run, hn1]
  simp only [beq_self_eq_true, if_true]
  rw [fbind_run, fpure_run]
  simp only
  rw [fbind_run, hattrs]
  have hne : ((46 :: name : Bytes) == []) = false := by simp
  simp only [hne, Bool.false_eq_true, if_false]
  rw [fbind_run, get_run]
  simp only [beq_self_eq_true, if_true]
  have hns : st5.ns = [] := (Fr.clean hfr05 hcl).2
  rw [fbind_run, fpure_run]
  have hlk : lookup [(kData, kAll)] kData = some kAll := by decide
  simp only [hns, List.nil_append, hlk, beq_self_eq_true, if_true]
  rfl

theorem cmd_callAll (ef : Nat) (name : Bytes) : CmdSpec pf ef (.callAll name) := by
  intro q t fuel st rest hin hpc hs hf
  have hit : itemsSegs q (segsCmd t (.callAll name)) = textItem t (q + t.length) ++ (callAllTag name).items (q + t.length) := by
    simp only [segsCmd, itemsSegs, List.append_nil]
  rw [hit, (callAllTag_items name (q + t.length)).1] at hs hf
  rw [drop_len_succ] at hs
  obtain ⟨f, rfl⟩ : ∃ f, fuel = f + 4 := ⟨fuel - 4, by omega⟩
  obtain ⟨st1, hn1, hs1, ht1, hp1, hfr1⟩ := fnext_stream' hpc (by simpa using hs)
  obtain ⟨st2, hh2, hs2, hp2, hfr2⟩ := parseCallHead_all pf f name _ _ _ _ _ _ st1 (Fr.clean hfr1 hin) (by omega) hs1 (Or.inr rfl)
  obtain ⟨st3, hn3, hs3, ht3, hp3, hfr3⟩ := fnext_stream' (st := st2) (by omega) hs2
  refine ⟨st3, ?_, hs3, by omega, (hfr1.trans hfr2).trans hfr3⟩
  show beginTag pf (ef + 4) ((f + 3) + 1) st = _
  unfold beginTag
  rw [fbind_run, hn1]
  simp only
  rw [fbind_run]
  have hpc' : parseCall pf (ef + 4) (f + 3) ⟨.tCall, q + t.length + 5, kCall⟩ st1 =
      .ok (nodeCmd q t (.callAll name), st3) := by
    show parseCall pf (ef + 4) ((f + 2) + 1) _ st1 = _
    unfold parseCall
    rw [fbind_run, hh2]
    simp only
    rw [fbind_run, hn3]
    simp only [beq_self_eq_true, if_true]
    rfl
  rw [hpc']
  rfl

theorem nextNonComment_id (f : Nat) (x : Item) (s : List Item) (st : FState) (hpc : st.p.peekCount ≤ 2)
    (hs : stream st.p = x :: s) (hx : x.typ ≠ .tComment) :
    ∃ st', nextNonComment (f + 1) st = .ok (x, st') ∧ stream st'.p = s ∧ top st'.p = x ∧
      st'.p.peekCount = st.p.peekCount - 1 ∧ Fr st st' := by
  obtain ⟨st1, hn1, hs1, ht1, hp1, hfr1⟩ := fnext_stream' hpc hs
  refine ⟨st1, ?_, hs1, ht1, hp1, hfr1⟩
  unfold nextNonComment
  rw [fbind_run, hn1]
  have : (x.typ != ItemType.tComment) = true := by simpa using hx
  simp only [this, if_true]
  rfl

theorem orphanLoop_id (ef f : Nat) (x : Item) (st : FState) (hx : x.typ ≠ .tText) :
    orphanLoop pf ef (f + 1) x st = .ok (x, st) := by
  unfold orphanLoop
  have : (x.typ == ItemType.tText) = false := by simpa using hx
  simp only [this, Bool.false_eq_true, if_false]
  rfl

theorem lenS_params_cons (p : Bytes × SExp) (r : List (Bytes × SExp)) :
    lenS (segsParams (p :: r)) = (paramTag p.1 p.2).src.length + lenS (segsParams r) := by
  simp [lenS, segsParams, srcSegs]

/-- `parseCallParams` on the tokens of the params and the `{/call}` behind them -/
theorem params_spec (ef : Nat) : ∀ (ps : List (Bytes × SExp)) (qp fuel : Nat) (params : NodeList) (st : FState)
    (rest : List Item), paramsOK ps → Clean st → st.p.peekCount ≤ 2 →
    stream st.p = itemsSegs qp (segsParams ps ++ [([], .close kCall)]) ++ rest →
    4 * (itemsSegs qp (segsParams ps ++ [([], .close kCall)])).length + 8 ≤ fuel →
    ∃ st', callParamsLoop pf (ef + 4) fuel params st = .ok (params.append (paramNodes qp ps), st') ∧
      stream st'.p = (Tag.close kCall).items (qp + lenS (segsParams ps)) ++ rest ∧ st'.p.peekCount ≤ 2 ∧ Fr st st' := by
  intro ps
  induction ps with
  | nil =>
    intro qp fuel params st rest _ hin hpc hs hf
    simp only [segsParams, List.nil_append, itemsSegs, textItem, List.length_nil, Nat.lt_irrefl, false_and, if_false,
      Nat.add_zero, List.append_nil, (closeCall_items qp).1, List.cons_append, List.length_cons] at hs hf
    obtain ⟨f, rfl⟩ : ∃ f, fuel = f + 2 := ⟨fuel - 2, by omega⟩
    obtain ⟨st1, hn1, hs1, ht1, hp1, hfr1⟩ := nextNonComment_id f _ _ st hpc hs (by simp)
    obtain ⟨st2, hn2, hs2, ht2, hp2, hfr2⟩ := fnext_stream' (st := st1) (by omega) hs1
    obtain ⟨st3, hb3, hs3, hp3, hfr3⟩ := fbackup2_stream' (st := st2) ⟨.tLeftDelim, qp + 1, [123]⟩ (by omega)
    refine ⟨st3, ?_, ?_, by omega, (hfr1.trans hfr2).trans hfr3⟩
    · show callParamsLoop pf (ef + 4) ((f + 1) + 1) params st = _
      unfold callParamsLoop
      rw [fbind_run, hn1]
      simp only
      rw [fbind_run, orphanLoop_id pf (ef + 4) f _ st1 (by simp)]
      simp only [show (ItemType.tLeftDelim != ItemType.tLeftDelim) = false by decide, Bool.false_eq_true, if_false]
      rw [fbind_run, hn2]
      simp only [beq_self_eq_true, if_true]
      rw [fbind_run, hb3]
      simp only [paramNodes, nl_append_nil]
      rfl
    · rw [hs3, ht2, hs2]
      simp [lenS, segsParams, srcSegs, (closeCall_items qp).1]
  | cons p r ih =>
    intro qp fuel params st rest hok hin hpc hs hf
    have hsplit : itemsSegs qp (segsParams (p :: r) ++ [([], .close kCall)]) =
        (paramTag p.1 p.2).items qp ++ itemsSegs (qp + (paramTag p.1 p.2).src.length) (segsParams r ++ [([], .close kCall)]) := by
      simp only [segsParams, List.cons_append, itemsSegs, textItem, List.length_nil, Nat.lt_irrefl, false_and, if_false,
        Nat.add_zero, List.nil_append]
    rw [hsplit, (paramTag_items p.1 p.2 qp).1] at hs hf
    simp only [List.cons_append, List.nil_append, List.length_cons, List.length_append] at hs hf
    obtain ⟨f, rfl⟩ : ∃ f, fuel = f + 2 := ⟨fuel - 2, by omega⟩
    obtain ⟨st1, hn1, hs1, ht1, hp1, hfr1⟩ := nextNonComment_id f _ _ st hpc hs (by simp)
    obtain ⟨st2, hn2, hs2, ht2, hp2, hfr2⟩ := fnext_stream' (st := st1) (by omega) hs1
    obtain ⟨st3, he3, hs3, ht3, hp3, hfr3⟩ := fexpect_stream' (st := st2) (t := .tIdent) (by omega) hs2 hok.1.2.1
    obtain ⟨st4, hn4, hs4, ht4, hp4, hfr4⟩ := fnext_stream' (st := st3) (by omega) hs3
    obtain ⟨st5, hx5, hs5, hp5, hfr5⟩ := parseExpr0_simple pf ef p.2 _ _ _ st4 (by omega) hs4 hok.1.2.2 (Or.inr rfl)
    obtain ⟨st6, he6, hs6, ht6, hp6, hfr6⟩ := fexpect_stream' (st := st5) (t := .tRightDelimEnd) (by omega) hs5 rfl
    have hfr06 := ((((hfr1.trans hfr2).trans hfr3).trans hfr4).trans hfr5).trans hfr6
    obtain ⟨st7, hl7, hs7, hp7, hfr7⟩ := ih (qp + (paramTag p.1 p.2).src.length) (f + 1)
      (params.append (.cons (.paramValue (qp + 1) p.1 (exprOf (qp + 9 + p.1.length + p.2.elem.src.length) p.2)) .nil))
      st6 rest hok.2 (Fr.clean hfr06 hin) (by omega) hs6 (by omega)
    refine ⟨st7, ?_, ?_, hp7, hfr06.trans hfr7⟩
    · show callParamsLoop pf (ef + 4) ((f + 1) + 1) params st = _
      unfold callParamsLoop
      rw [fbind_run, hn1]
      simp only
      rw [fbind_run, orphanLoop_id pf (ef + 4) f _ st1 (by simp)]
      simp only [show (ItemType.tLeftDelim != ItemType.tLeftDelim) = false by decide, Bool.false_eq_true, if_false]
      rw [fbind_run, hn2]
      simp only [show (ItemType.tParam == ItemType.tCallEnd) = false by decide,
        show (ItemType.tParam != ItemType.tParam) = false by decide, Bool.false_eq_true, if_false]
      rw [fbind_run, he3]
      simp only
      rw [fbind_run, hn4]
      simp only [beq_self_eq_true, if_true]
      rw [fbind_run, hx5]
      simp only
      rw [fbind_run, he6]
      simp only
      rw [hl7]
      simp only [paramNodes, nl_append_assoc, NodeList.append]
    · rw [hs7, lenS_params_cons, Nat.add_assoc]

theorem cmd_call (ef : Nat) (name : Bytes) (ps : List (Bytes × SExp)) (hps : paramsOK ps) : CmdSpec pf ef (.call name ps) := by
  intro q t fuel st rest hin hpc hs hf
  have hit : itemsSegs q (segsCmd t (.call name ps)) = textItem t (q + t.length) ++ ((callTag name).items (q + t.length) ++
      itemsSegs (q + t.length + (callTag name).src.length) (segsParams ps ++ [([], .close kCall)])) := by
    simp only [segsCmd, itemsSegs, List.append_assoc]
  rw [hit, (callTag_items name (q + t.length)).1] at hs hf
  simp only [List.cons_append, List.nil_append] at hs hf
  rw [drop_len_succ] at hs
  simp only [List.length_append, List.length_cons] at hf
  obtain ⟨f, rfl⟩ : ∃ f, fuel = f + 3 := ⟨fuel - 3, by omega⟩
  obtain ⟨st1, hn1, hs1, ht1, hp1, hfr1⟩ := fnext_stream' hpc hs
  obtain ⟨st2, hh2, hs2, hp2, hfr2⟩ := parseCallHead_plain pf f name _ _ _ st1 (Fr.clean hfr1 hin) (by omega) hs1 (Or.inl rfl)
  obtain ⟨st3, hn3, hs3, ht3, hp3, hfr3⟩ := fnext_stream' (st := st2) (by omega) hs2
  have hfr03 := (hfr1.trans hfr2).trans hfr3
  obtain ⟨st4, hl4, hs4, hp4, hfr4⟩ := params_spec pf ef ps (q + t.length + (callTag name).src.length) (f + 1) .nil st3 rest
    hps (Fr.clean hfr03 hin) (by omega) hs3 (by omega)
  rw [(closeCall_items _).1] at hs4
  simp only [List.cons_append, List.nil_append] at hs4
  obtain ⟨st5, he5, hs5, ht5, hp5, hfr5⟩ := fexpect_stream' (st := st4) (t := .tLeftDelim) hp4 hs4 rfl
  obtain ⟨st6, he6, hs6, ht6, hp6, hfr6⟩ := fexpect_stream' (st := st5) (t := .tCallEnd) (by omega) hs5 rfl
  obtain ⟨st7, he7, hs7, ht7, hp7, hfr7⟩ := fexpect_stream' (st := st6) (t := .tRightDelim) (by omega) hs6 rfl
  refine ⟨st7, ?_, hs7, by omega, (((hfr03.trans hfr4).trans hfr5).trans hfr6).trans hfr7⟩
  show beginTag pf (ef + 4) ((f + 2) + 1) st = _
  unfold beginTag
  rw [fbind_run, hn1]
  simp only
  rw [fbind_run]
  have hpc' : parseCall pf (ef + 4) (f + 2) ⟨.tCall, q + t.length + 5, kCall⟩ st1 =
      .ok (nodeCmd q t (.call name ps), st7) := by
    show parseCall pf (ef + 4) ((f + 1) + 1) _ st1 = _
    unfold parseCall
    rw [fbind_run, hh2]
    simp only
    rw [fbind_run, hn3]
    simp only [show (ItemType.tRightDelim == ItemType.tRightDelimEnd) = false by decide, beq_self_eq_true,
      Bool.false_eq_true, if_false, if_true]
    rw [fbind_run, hl4]
    simp only
    rw [fbind_run, he5]
    simp only
    rw [fbind_run, he6]
    simp only
    rw [fbind_run, he7]
    simp only [nodeCmd, NodeList.append]
    rfl
  rw [hpc']
  rfl

/-! ## the mutual induction over the tree -/

mutual
  theorem spec_cmd (ef : Nat) : ∀ (c : Cmd), wfCmd c → CmdSpec pf ef c
    | .print id, h => cmd_print pf ef id h
    | .ifc e b tl, h => cmd_if pf ef e b tl h.1 (spec_blk ef b h.2.1) (spec_tail ef tl h.2.2)
    | .foreach x e b, h => cmd_foreach pf ef x e b h.2.1 (spec_blk ef b h.2.2)
    | .foreachE x e b ie, h => cmd_foreachE pf ef x e b ie h.2.1 (spec_blk ef b h.2.2.1) (spec_blk ef ie h.2.2.2)
    | .letv x e, h => cmd_letv pf ef x e h.2
    | .letc x b, h => cmd_letc pf ef x b (spec_blk ef b h.2)
    | .switch e cs, h => cmd_switch pf ef e cs h.1 h.2.2 (spec_cases ef cs h.2.1)
    | .call name ps, h => cmd_call pf ef name ps h.2
    | .callSelf name, _ => cmd_callSelf pf ef name
    | .callAll name, _ => cmd_callAll pf ef name
  theorem spec_blk (ef : Nat) : ∀ (b : Blk), wfBlk b → BlkSpec pf ef b
    | .done t, _ => blk_done pf ef t
    | .cons t c r, h => blk_cons pf ef t c r (spec_cmd ef c h.2.1) (spec_blk ef r h.2.2)
  theorem spec_tail (ef : Nat) : ∀ (tl : IfTail), wfTail tl → TailSpec pf ef tl
    | .fi, _ => tail_fi pf ef
    | .els b, h => tail_els pf ef b (spec_blk ef b h)
    | .elif e b r, h => tail_elif pf ef e b r h.1 h.2.2 (spec_blk ef b h.2.1) (spec_tail ef r h.2.2)
  theorem spec_cases (ef : Nat) : ∀ (cs : Cases), wfCases cs → CasesSpec pf ef cs
    | .nil, _ => cases_nil pf ef
    | .case v b r, h => cases_case pf ef v b r h.1 (spec_blk ef b h.2.1) (spec_cases ef r h.2.2)
    | .dflt b r, h => cases_dflt pf ef b r (spec_blk ef b h.1) (spec_cases ef r h.2)
end

end parser

/-- **`block_source_spec`.**  Parser completeness at source level for the family `Blk`: text runs,
    print tags and nested `{if}` / `{elseif}` / `{else}`, `{foreach}` / `{ifempty}`, `{let … /}`,
    `{let}…{/let}` blocks with simple expressions.  For every well-formed tree `b`, the source text
    `srcOf b` is ACCEPTED by `parse.SoyFile` (lexer ∘ file parser) and the result is exactly
    `nodesOf b` — every node with the position the parser assigns; the lexer sends exactly `itemsOf b`. -/
theorem block_source_spec (pf : Bytes → Option UInt64) (b : Blk) (h : wfBlk b) :
    lexAll (srcOf b) false = .items (itemsOf b) ∧ parseSource pf (srcOf b) = .ok (nodesOf b) := by
  refine ⟨lexAll_tree b h, ?_⟩
  unfold parseSource
  rw [lexAll_tree b h]
  simp only
  unfold parseFile
  simp only [StateT.run]
  have hef : exprFuel (itemsOf b) = (8 * (itemsOf b).length + 60) + 4 := by
    simp only [exprFuel, Parser.fuelFor]
  obtain ⟨st', hl, _, _, _⟩ := spec_blk pf (8 * (itemsOf b).length + 60) b h .eof [.tEOF] 0
    (FileParser.fuelFor (itemsOf b).length) none .nil { p := initState (itemsOf b) } []
    (by show List.contains _ _ = true; decide) (by decide) ⟨rfl, rfl⟩ (by simp [initState])
    (by simp [stream, pending, initState, itemsOf])
    (by simp only [FileParser.fuelFor, itemsOf]; omega)
  rw [hef, hl]
  simp only [nodesOf, NodeList.append]

/-! ## Non-vacuity -/

set_option maxRecDepth 20000

/-- `a{if $x}b{elseif 1}{$y}{else}⏎{/if}{foreach $i in $l}<{$i}>{ifempty}none{/foreach}{let $v: 12 /}{let $w}z{/let}end` -/
def exTree : Blk :=
  .cons [97] (.ifc (.var [120]) (.done [98])
      (.elif (.int [49]) (.cons [] (.print [121]) (.done [])) (.els (.done [10]))))
  (.cons [] (.foreachE [105] (.var [108]) (.cons [60] (.print [105]) (.done [62])) (.done [110, 111, 110, 101]))
  (.cons [] (.letv [118] (.int [49, 50]))
  (.cons [] (.letc [119] (.done [122])) (.done [101, 110, 100]))))

theorem exTree_wf : wfBlk exTree := by
  simp only [exTree, wfBlk, wfCmd, wfTail, SExp.ok]
  decide

theorem exTree_src : srcOf exTree =
    [97, 123, 105, 102, 32, 36, 120, 125, 98, 123, 101, 108, 115, 101, 105, 102, 32, 49, 125, 123, 36, 121, 125,
     123, 101, 108, 115, 101, 125, 10, 123, 47, 105, 102, 125, 123, 102, 111, 114, 101, 97, 99, 104, 32, 36, 105, 32,
     105, 110, 32, 36, 108, 125, 60, 123, 36, 105, 125, 62, 123, 105, 102, 101, 109, 112, 116, 121, 125, 110, 111, 110,
     101, 123, 47, 102, 111, 114, 101, 97, 99, 104, 125, 123, 108, 101, 116, 32, 36, 118, 58, 32, 49, 50, 32, 47, 125,
     123, 108, 101, 116, 32, 36, 119, 125, 122, 123, 47, 108, 101, 116, 125, 101, 110, 100] := by rfl

theorem exTree_dropped : dropped [97] = false ∧ dropped [98] = false ∧ dropped [10] = true ∧ dropped [60] = false ∧
    dropped [62] = false ∧ dropped [110, 111, 110, 101] = false ∧ dropped [122] = false ∧
    dropped [101, 110, 100] = false := by
  refine ⟨?_, ?_, ?_, ?_, ?_, ?_, ?_, ?_⟩ <;>
    simp [dropped, allSpaceWithNewline, allSpaceLoop, decodeRune, byteAt, Lex.isSpaceEOL, Lex.isSpace, Lex.isEndOfLine]

theorem exTree_nodes : nodesOf exTree =
    [.rawText 1 [97],
     .ifc 4 (.cons (.ifCond 4 (some (.dataRef 7 [120] .nil)) (.list 9 (.cons (.rawText 9 [98]) .nil)))
        (.cons (.ifCond 4 (some (.int 18 1)) (.list 20 (.cons (.print 22 (.dataRef 22 [121] .nil) []) .nil)))
        (.cons (.ifCond 4 none (.list 31 .nil)) .nil))),
     .forc 43 [105] (.dataRef 52 [108] .nil)
       (.list 54 (.cons (.rawText 54 [60]) (.cons (.print 57 (.dataRef 57 [105] .nil) []) (.cons (.rawText 59 [62]) .nil))))
       (.cons (.list 72 (.cons (.rawText 72 [110, 111, 110, 101]) .nil)) .nil),
     .letValue 86 [118] (.int 93 12),
     .letContent 100 [119] (.list 105 (.cons (.rawText 105 [122]) .nil)),
     .rawText 114 [101, 110, 100]] := by
  obtain ⟨d1, d2, d3, d4, d5, d6, d7, d8⟩ := exTree_dropped
  have j1 : joinLines [97] false false = [97] := by rfl
  have j2 : joinLines [98] false false = [98] := by rfl
  have j4 : joinLines [60] false false = [60] := by rfl
  have j5 : joinLines [62] false false = [62] := by rfl
  have j6 : joinLines [110, 111, 110, 101] false false = [110, 111, 110, 101] := by rfl
  have j7 : joinLines [122] false false = [122] := by rfl
  have j8 : joinLines [101, 110, 100] false false = [101, 110, 100] := by rfl
  simp [nodesOf, exTree, nodesBlk, nodeCmd, condsTail, textNL, exprOf, natVal, headPos, itemsSegs, closeBlk, initBlk,
    segsCmd, segsTail, Blk.trail, IfTail.head, textItem, lenS, lenBlk, srcSegs, Tag.src, srcEs, Elem.src, SExp.elem,
    closeBytes, ifTag, elseifTag, elseTag, foreachTag, ifemptyTag, letvTag, letcTag, printTag, Tag.items, itemsEs,
    Elem.items, NodeList.append, NodeList.toList, kIf, kElseif, kElse, kForeach, kIfempty, kLet, kwIn,
    d1, d2, d3, d4, d5, d6, d7, d8, j1, j2, j4, j5, j6, j7, j8]

/-- the theorem applied to that source: accepted, with exactly this tree (the real parser returns the
    same: `build/vh worker`, op `parsesrc`) -/
theorem exTree_spec (pf : Bytes → Option UInt64) :
    parseSource pf
      [97, 123, 105, 102, 32, 36, 120, 125, 98, 123, 101, 108, 115, 101, 105, 102, 32, 49, 125, 123, 36, 121, 125,
       123, 101, 108, 115, 101, 125, 10, 123, 47, 105, 102, 125, 123, 102, 111, 114, 101, 97, 99, 104, 32, 36, 105, 32,
       105, 110, 32, 36, 108, 125, 60, 123, 36, 105, 125, 62, 123, 105, 102, 101, 109, 112, 116, 121, 125, 110, 111, 110,
       101, 123, 47, 102, 111, 114, 101, 97, 99, 104, 125, 123, 108, 101, 116, 32, 36, 118, 58, 32, 49, 50, 32, 47, 125,
       123, 108, 101, 116, 32, 36, 119, 125, 122, 123, 47, 108, 101, 116, 125, 101, 110, 100] =
    .ok [.rawText 1 [97],
     .ifc 4 (.cons (.ifCond 4 (some (.dataRef 7 [120] .nil)) (.list 9 (.cons (.rawText 9 [98]) .nil)))
        (.cons (.ifCond 4 (some (.int 18 1)) (.list 20 (.cons (.print 22 (.dataRef 22 [121] .nil) []) .nil)))
        (.cons (.ifCond 4 none (.list 31 .nil)) .nil))),
     .forc 43 [105] (.dataRef 52 [108] .nil)
       (.list 54 (.cons (.rawText 54 [60]) (.cons (.print 57 (.dataRef 57 [105] .nil) []) (.cons (.rawText 59 [62]) .nil))))
       (.cons (.list 72 (.cons (.rawText 72 [110, 111, 110, 101]) .nil)) .nil),
     .letValue 86 [118] (.int 93 12),
     .letContent 100 [119] (.list 105 (.cons (.rawText 105 [122]) .nil)),
     .rawText 114 [101, 110, 100]] := by
  have := (block_source_spec pf exTree exTree_wf).2
  rw [exTree_src, exTree_nodes] at this
  exact this


/-- `p {switch $a}{case 1}one{$x}{case $b} {default}{if 0}z{/if}⏎{/switch} q` -/
def exSwitch : Blk :=
  .cons [112, 32] (.switch (.var [97])
    (.case (.int [49]) (.cons [111, 110, 101] (.print [120]) (.done []))
    (.case (.var [98]) (.done [32])
    (.dflt (.cons [] (.ifc (.int [48]) (.done [122]) .fi) (.done [10])) .nil))))
  (.done [32, 113])

theorem exSwitch_wf : wfBlk exSwitch := by
  simp only [exSwitch, wfBlk, wfCmd, wfTail, wfCases, Cases.okSaw, SExp.ok]
  decide

theorem exSwitch_src : srcOf exSwitch =
    [112, 32, 123, 115, 119, 105, 116, 99, 104, 32, 36, 97, 125, 123, 99, 97, 115, 101, 32, 49, 125, 111, 110, 101, 123, 36,
     120, 125, 123, 99, 97, 115, 101, 32, 36, 98, 125, 32, 123, 100, 101, 102, 97, 117, 108, 116, 125, 123, 105, 102, 32,
     48, 125, 122, 123, 47, 105, 102, 125, 10, 123, 47, 115, 119, 105, 116, 99, 104, 125, 32, 113] := by rfl

theorem exSwitch_dropped : dropped [112, 32] = false ∧ dropped [111, 110, 101] = false ∧ dropped [32] = false ∧
    dropped [122] = false ∧ dropped [10] = true ∧ dropped [32, 113] = false := by
  refine ⟨?_, ?_, ?_, ?_, ?_, ?_⟩ <;>
    simp [dropped, allSpaceWithNewline, allSpaceLoop, decodeRune, byteAt, Lex.isSpaceEOL, Lex.isSpace, Lex.isEndOfLine]

/-- accepted, with exactly this tree (as the real parser: `build/vh worker`, op `parsesrc`) -/
theorem exSwitch_spec (pf : Bytes → Option UInt64) :
    parseSource pf
      [112, 32, 123, 115, 119, 105, 116, 99, 104, 32, 36, 97, 125, 123, 99, 97, 115, 101, 32, 49, 125, 111, 110, 101, 123, 36,
       120, 125, 123, 99, 97, 115, 101, 32, 36, 98, 125, 32, 123, 100, 101, 102, 97, 117, 108, 116, 125, 123, 105, 102, 32,
       48, 125, 122, 123, 47, 105, 102, 125, 10, 123, 47, 115, 119, 105, 116, 99, 104, 125, 32, 113] =
    .ok [.rawText 2 [112, 32],
      .switch 9 (.dataRef 12 [97] .nil)
        (.cons (.switchCase 18 [.int 20 1]
          (.list 24 (.cons (.rawText 24 [111, 110, 101]) (.cons (.print 27 (.dataRef 27 [120] .nil) []) .nil))))
        (.cons (.switchCase 33 [.dataRef 36 [98] .nil] (.list 38 (.cons (.rawText 38 [32]) .nil)))
        (.cons (.switchCase 46 []
          (.list 48 (.cons (.ifc 50 (.cons (.ifCond 50 (some (.int 52 0)) (.list 54 (.cons (.rawText 54 [122]) .nil))) .nil)) .nil)))
          .nil))),
      .rawText 71 [32, 113]] := by
  have h := (block_source_spec pf exSwitch exSwitch_wf).2
  rw [exSwitch_src] at h
  rw [h]
  obtain ⟨d1, d2, d3, d4, d5, d6⟩ := exSwitch_dropped
  have j1 : joinLines [112, 32] false false = [112, 32] := by rfl
  have j2 : joinLines [111, 110, 101] false false = [111, 110, 101] := by rfl
  have j3 : joinLines [32] false false = [32] := by rfl
  have j4 : joinLines [122] false false = [122] := by rfl
  have j6 : joinLines [32, 113] false false = [32, 113] := by rfl
  simp [nodesOf, exSwitch, nodesBlk, nodeCmd, condsTail, caseNodes, textNL, exprOf, natVal, headPos, itemsSegs, closeBlk,
    initBlk, segsCmd, segsTail, segsCases, Blk.trail, IfTail.head, Cases.head, textItem, lenS, lenBlk, srcSegs, Tag.src,
    srcEs, Elem.src, SExp.elem, closeBytes, ifTag, switchTag, caseTag, defaultTag, printTag, Tag.items, itemsEs,
    Elem.items, NodeList.append, NodeList.toList, kIf, kSwitch, kCase, kDefault,
    d1, d2, d3, d4, d5, d6, j1, j2, j3, j4, j6]


/-- `{call .t}{param k: $v /}{param n: 3 /}{/call}x{call .u /}` -/
def exCall : Blk :=
  .cons [] (.call [116] [([107], .var [118]), ([110], .int [51])])
  (.cons [120] (.callSelf [117]) (.done []))

theorem exCall_wf : wfBlk exCall := by
  simp only [exCall, wfBlk, wfCmd, paramsOK, SExp.ok]
  decide

theorem exCall_src : srcOf exCall =
    [123, 99, 97, 108, 108, 32, 46, 116, 125, 123, 112, 97, 114, 97, 109, 32, 107, 58, 32, 36, 118, 32, 47, 125, 123, 112,
     97, 114, 97, 109, 32, 110, 58, 32, 51, 32, 47, 125, 123, 47, 99, 97, 108, 108, 125, 120, 123, 99, 97, 108, 108, 32, 46,
     117, 32, 47, 125] := by rfl

/-- accepted, with exactly this tree (as the real parser: `build/vh worker`, op `parsesrc`) -/
theorem exCall_spec (pf : Bytes → Option UInt64) :
    parseSource pf
      [123, 99, 97, 108, 108, 32, 46, 116, 125, 123, 112, 97, 114, 97, 109, 32, 107, 58, 32, 36, 118, 32, 47, 125, 123, 112,
       97, 114, 97, 109, 32, 110, 58, 32, 51, 32, 47, 125, 123, 47, 99, 97, 108, 108, 125, 120, 123, 99, 97, 108, 108, 32, 46,
       117, 32, 47, 125] =
    .ok [.call 5 [46, 116] false none
        (.cons (.paramValue 10 [107] (.dataRef 21 [118] .nil)) (.cons (.paramValue 25 [110] (.int 35 3)) .nil)),
      .rawText 46 [120],
      .call 51 [46, 117] false none .nil] := by
  have h := (block_source_spec pf exCall exCall_wf).2
  rw [exCall_src] at h
  rw [h]
  have d1 : dropped [120] = false := by
    simp [dropped, allSpaceWithNewline, allSpaceLoop, decodeRune, byteAt, Lex.isSpaceEOL, Lex.isSpace, Lex.isEndOfLine]
  have j1 : joinLines [120] false false = [120] := by rfl
  simp [nodesOf, exCall, nodesBlk, nodeCmd, paramNodes, textNL, exprOf, natVal, lenS, srcSegs, segsCmd, segsParams,
    Tag.src, srcEs, Elem.src, SExp.elem, closeBytes, callTag, callSelfTag, paramTag, NodeList.append, NodeList.toList,
    kCall, kParam, d1, j1]


/-- `a {call .tt data="all" /}{if $c}{call .u data="all" /}{/if}` -/
def exCallAll : Blk :=
  .cons [97, 32] (.callAll [116, 116])
  (.cons [] (.ifc (.var [99]) (.cons [] (.callAll [117]) (.done [])) .fi) (.done []))

theorem exCallAll_wf : wfBlk exCallAll := by
  simp only [exCallAll, wfBlk, wfCmd, wfTail, SExp.ok]
  decide

theorem exCallAll_src : srcOf exCallAll =
    [97, 32, 123, 99, 97, 108, 108, 32, 46, 116, 116, 32, 100, 97, 116, 97, 61, 34, 97, 108, 108, 34, 32, 47, 125, 123, 105,
     102, 32, 36, 99, 125, 123, 99, 97, 108, 108, 32, 46, 117, 32, 100, 97, 116, 97, 61, 34, 97, 108, 108, 34, 32, 47, 125,
     123, 47, 105, 102, 125] := by rfl

/-- accepted, with exactly this tree (as the real parser: `build/vh worker`, op `parsesrc`) -/
theorem exCallAll_spec (pf : Bytes → Option UInt64) :
    parseSource pf
      [97, 32, 123, 99, 97, 108, 108, 32, 46, 116, 116, 32, 100, 97, 116, 97, 61, 34, 97, 108, 108, 34, 32, 47, 125, 123, 105,
       102, 32, 36, 99, 125, 123, 99, 97, 108, 108, 32, 46, 117, 32, 100, 97, 116, 97, 61, 34, 97, 108, 108, 34, 32, 47, 125,
       123, 47, 105, 102, 125] =
    .ok [.rawText 2 [97, 32], .call 7 [46, 116, 116] true none .nil,
      .ifc 28 (.cons (.ifCond 28 (some (.dataRef 31 [99] .nil)) (.list 33 (.cons (.call 37 [46, 117] true none .nil) .nil))) .nil)] := by
  have h := (block_source_spec pf exCallAll exCallAll_wf).2
  rw [exCallAll_src] at h
  rw [h]
  have d1 : dropped [97, 32] = false := by
    simp [dropped, allSpaceWithNewline, allSpaceLoop, decodeRune, byteAt, Lex.isSpaceEOL, Lex.isSpace, Lex.isEndOfLine]
  have j1 : joinLines [97, 32] false false = [97, 32] := by rfl
  simp [nodesOf, exCallAll, nodesBlk, nodeCmd, condsTail, textNL, exprOf, headPos, itemsSegs, closeBlk, initBlk, lenS, lenBlk,
    srcSegs, segsCmd, segsTail, Blk.trail, IfTail.head, textItem, Tag.src, srcEs, Elem.src, SExp.elem, closeBytes, callAllTag,
    ifTag, Tag.items, itemsEs, Elem.items, NodeList.append, NodeList.toList, kCall, kIf, kData, kAll, d1, j1]

end SoyVerif.Props.C05c
